/-
Clean-path invariant (C18 Tier 2): preservation by the receiver's events — a flush of B (scheduled
FULL flush, or the ACK-only flush at the end of an `Input`) and the `Input` of a datagram from A.
-/
import KcpVerif.Lemmas.SysCleanInv

namespace KcpVerif.SysC
open KcpVerif KcpVerif.Gen KcpVerif.Kcp KcpVerif.Live KcpVerif.Wire KcpVerif.SysW KcpVerif.Sys

/-- the state after B flushes at the current time -/
def afterFlushB (s : State) (full : Bool) (nf : Nat) : State :=
  { s with B := (s.B.flush full (clk s.now)).k, nfB := nf,
           ba := s.ba ++ stamp (s.now + s.D) (s.B.flush full (clk s.now)).outs,
           panic := s.panic || (s.B.flush full (clk s.now)).panic }

theorem clean_flushB {p : Par} {s : State} {gab gba : GLink} (h : Clean p s gab gba) (full : Bool) (nf : Nat)
    (hnf : s.now ≤ nf ∧ nf ≤ s.now + p.I) :
    ∃ gba', Clean p (afterFlushB s full nf) gab gba' := by
  obtain ⟨hfr, pw, tp, st, ss, cw, inc, hk⟩ := flush_empty s.B full (clk s.now) h.bsb h.bsq
  obtain ⟨hpan, hK, hal, hcfg⟩ := Total.flush_total h.bK full (clk s.now)
  obtain ⟨gs, hgs, hfl⟩ := flush_frames s.B full (clk s.now) hpan
  rw [hfr] at hfl
  have hrn : (s.B.flush full (clk s.now)).k.rcv_nxt = s.B.rcv_nxt := by rw [hk]
  refine ⟨gba ++ gs.map (fun g => (s.now + s.D, g)), ?_⟩
  constructor
  · exact h.hab
  · show s.ba ++ stamp (s.now + s.D) (s.B.flush full (clk s.now)).outs = _
    rw [hgs, stamp_groups, encL_append, h.hba]
  · exact h.tab
  · intro d hd
    rcases List.mem_append.mp hd with hd | hd
    · exact h.tba d hd
    · have := (groups_mem hd).1
      show s.now ≤ d.1
      omega
  · exact hnf
  · exact h.par
  · show (s.panic || (s.B.flush full (clk s.now)).panic) = false
    rw [h.np, hpan]; rfl
  · exact h.aK
  · exact h.aconv
  · exact h.aack
  · exact h.amin
  · exact h.arto
  · exact h.aq
  · exact h.asort
  · exact h.abnd
  · intro x hx
    obtain ⟨a1, a2, a3, a4, a5, a6, t, ht, htn, hloc⟩ := h.aseg x hx
    refine ⟨a1, a2, a3, a4, a5, a6, t, ht, htn, ?_⟩
    rcases hloc with ⟨d, hd, r⟩ | ⟨⟨a, ha, hasn⟩, hn⟩ | ⟨d, hd, r⟩
    · exact Or.inl ⟨d, hd, r⟩
    · have hne : s.B.acklist ≠ [] := by intro hc; rw [hc] at ha; simp at ha
      obtain ⟨fr0, rest0, hf0⟩ := List.exists_cons_of_ne_nil (ackFrsOf_ne_nil s.B hne)
      have hm0 : fr0 ∈ ackFrsOf s.B := by rw [hf0]; exact List.mem_cons_self ..
      have hin : fr0 ∈ gs.flatten := by rw [hfl]; exact List.mem_append_left _ hm0
      obtain ⟨d, hd, hd1, hd2⟩ := mem_groups (t := s.now + s.D) hin
      refine Or.inr (Or.inr ⟨d, List.mem_append_right _ hd, ?_, fr0, hd2, ?_⟩)
      · have := h.tnf.1
        show d.1 ≤ t + 2 * s.D + p.I
        omega
      · rw [(ackFrsOf_mem s.B fr0 hm0).2.2.1, ← hasn]
        exact h.back a ha
    · exact Or.inr (Or.inr ⟨d, List.mem_append_left _ hd, r⟩)
  · exact hK
  · show (s.B.flush full (clk s.now)).k.conv = _
    rw [hk]; exact h.bconv
  · show (s.B.flush full (clk s.now)).k.snd_buf = _
    rw [hk]
  · show (s.B.flush full (clk s.now)).k.snd_queue = _
    rw [hk]
  · show (s.B.flush full (clk s.now)).k.rcv_buf = _
    rw [hk]; exact h.brb
  · show (s.B.flush full (clk s.now)).k.interval.toNat = _
    rw [hk]; exact h.bint
  · show (s.B.flush full (clk s.now)).k.rcv_wnd.toNat = _ ∧ _
    rw [hk]; exact h.bw
  · show ∀ a ∈ (s.B.flush full (clk s.now)).k.acklist, _
    rw [hal]; intro a ha; simp at ha
  · exact h.fab
  · show ∀ d ∈ gba ++ gs.map (fun g => (s.now + s.D, g)), ∀ fr ∈ d.2,
      fr.conv = p.conv ∧ fr.data = [] ∧ AckLike p.base (s.B.flush full (clk s.now)).k.rcv_nxt fr
    rw [hrn]
    intro d hd fr hfr
    rcases List.mem_append.mp hd with hd | hd
    · exact h.fba d hd fr hfr
    · have hin := (groups_mem hd).2 fr hfr
      rw [hfl] at hin
      rcases List.mem_append.mp hin with hin | hin
      · obtain ⟨e1, e2, e3, e4, e5⟩ := ackFrsOf_mem s.B fr hin
        refine ⟨by rw [e1]; exact h.bconv, e4, Or.inl e2, by rw [e3]; exact Nat.le_refl _, fun _ => ?_⟩
        rw [e3]
        exact h.back _ e5
      · obtain ⟨e1, e2, e3, e4⟩ := probeFrs_mem s.B (clk s.now) fr hin
        refine ⟨by rw [e1]; exact h.bconv, e4, Or.inr e2, by rw [e3]; exact Nat.le_refl _, fun hc => ?_⟩
        unfold IKCP_CMD_ACK at hc; unfold IKCP_CMD_WASK IKCP_CMD_WINS at e2; omega
  · show _ = List.range' (o p.base (s.B.flush full (clk s.now)).k.rcv_nxt) _ ∧
      o p.base (s.B.flush full (clk s.now)).k.rcv_nxt + _ = o p.base s.A.snd_nxt
    rw [hrn]
    exact h.ord

/-! ### Q1: B inputs the head datagram of the link A → B -/

theorem cwndOnAck_shape' (k : Kcp) (u : U32) : ∃ cw inc, cwndOnAck k u = { k with cwnd := cw, incr := inc } := by
  unfold cwndOnAck
  simp only []
  repeat' split
  all_goals exact ⟨_, _, rfl⟩

theorem updateAck_shape' (k : Kcp) (rtt : U32) :
    ∃ a b c, updateAck k rtt = { k with rx_srtt := a, rx_rttvar := b, rx_rto := c } := by
  unfold updateAck smoothRtt
  simp only []
  split
  · exact ⟨_, _, _, rfl⟩
  · exact ⟨_, _, _, rfl⟩

theorem o_sub (base a b : U32) (h : o base a ≤ o base b) : (b - a).toNat = o base b - o base a := by
  unfold o at *; bv_omega

theorem inOrder_of_range (base : U32) : ∀ (frs : List Frm) (nxt : U32),
    (pushes frs).map (fun fr => o base fr.sn) = List.range' (o base nxt) (pushes frs).length →
    o base nxt + (pushes frs).length < 2 ^ 32 → InOrder nxt frs := by
  intro frs
  induction frs with
  | nil => intro _ _ _; trivial
  | cons fr rest ih =>
    intro nxt h hb
    unfold InOrder
    by_cases hc : fr.cmd.toNat = IKCP_CMD_PUSH
    · have hpu : pushes (fr :: rest) = fr :: pushes rest := by
        unfold pushes; rw [List.filter_cons_of_pos (by simpa using hc)]
      rw [hpu] at h hb
      simp only [List.map_cons, List.length_cons, List.range'_succ, List.cons.injEq] at h hb
      rw [if_pos hc]
      have hs := o_succ base nxt (by omega)
      exact ⟨o_inj base _ _ h.1, ih (nxt + 1) (by rw [hs]; exact h.2) (by rw [hs]; omega)⟩
    · have hpu : pushes (fr :: rest) = pushes rest := by
        unfold pushes; rw [List.filter_cons_of_neg (by simpa using hc)]
      rw [hpu] at h hb
      rw [if_neg hc]
      exact ih nxt h hb

theorem range_split {l1 l2 : List Nat} {r : Nat} (h : l1 ++ l2 = List.range' r (l1.length + l2.length)) :
    l1 = List.range' r l1.length ∧ l2 = List.range' (r + l1.length) l2.length := by
  rw [← List.range'_append_1] at h
  exact List.append_inj h (by simp)

/-- the loop state and the connection B is left with by the datagram, before the closing flush decision -/
theorem clean_inB {p : Par} {s : State} {t0 : Nat} {frs : List Frm} {grest gba : GLink}
    (h : Clean p s ((t0, frs) :: grest) gba) (ht0 : t0 ≤ s.now) (hroom : RoomOk s) (hnw : NoWrap p.base s) :
    (∀ fr ∈ frs, FrValid s.B.conv fr) ∧
    (inFrs true frs { k := s.B }).panic = false ∧ (inFrs true frs { k := s.B }).ret = 0 ∧
    (inFrs true frs { k := s.B }).flushSeg = false ∧ (inFrs true frs { k := s.B }).updRtt = false ∧
    Clean p { s with B := cwndOnAck (inFrs true frs { k := s.B }).k s.B.snd_una, ab := encL grest } grest gba := by
  have hnow : t0 = s.now := by
    have := h.tab (t0, frs) (List.mem_cons_self ..)
    simp only at this; omega
  have hv : ∀ fr ∈ frs, FrValid s.B.conv fr := by
    intro fr hfr
    obtain ⟨e1, e2, e3⟩ := h.fab (t0, frs) (List.mem_cons_self ..) fr hfr
    refine ⟨by rw [e1, h.bconv], ?_, e3⟩
    unfold Live.validCmd
    rcases e2 with e | e | e
    · exact Or.inl e
    · exact Or.inr (Or.inr (Or.inl e))
    · exact Or.inr (Or.inr (Or.inr e))
  have hord := h.ord
  rw [allFrs_cons, pushes_append, List.map_append, List.length_append] at hord
  simp only at hord
  have hsplit := range_split (l1 := (pushes frs).map (fun fr => o p.base fr.sn))
    (l2 := (pushes (allFrs grest)).map (fun fr => o p.base fr.sn)) (r := o p.base s.B.rcv_nxt)
    (by simpa using hord.1)
  simp only [List.length_map] at hsplit
  unfold NoWrap at hnw
  have hio : InOrder s.B.rcv_nxt frs := inOrder_of_range p.base frs s.B.rcv_nxt hsplit.1 (by omega)
  have hrm : s.B.rcv_queue.length + (pushes frs).length ≤ s.B.rcv_wnd.toNat := by
    unfold RoomOk at hroom
    rw [o_sub p.base s.B.rcv_nxt s.A.snd_nxt (by omega)] at hroom
    omega
  obtain ⟨rw, su, pr, q, hk, hq, hql, hfs, hur, hpn, hrt⟩ := inFrs_dataLike frs { k := s.B } h.bsb h.brb
    (fun fr hfr => (h.fab (t0, frs) (List.mem_cons_self ..) fr hfr).2) hio hrm (by rw [h.bw.1]; exact h.bw.2) rfl
  obtain ⟨cw, inc, hcw⟩ := cwndOnAck_shape' (inFrs true frs { k := s.B }).k s.B.snd_una
  refine ⟨hv, hpn, hrt, hfs, hur, ?_⟩
  have hk2 : cwndOnAck (inFrs true frs { k := s.B }).k s.B.snd_una =
      { s.B with rmt_wnd := rw, snd_buf := [], snd_una := su, probe := pr,
                 acklist := s.B.acklist ++ (pushes frs).map (fun fr => ⟨fr.sn, fr.ts⟩), rcv_buf := [],
                 rcv_queue := s.B.rcv_queue ++ q, rcv_nxt := s.B.rcv_nxt + u32 (pushes frs).length,
                 cwnd := cw, incr := inc } := by
    rw [hcw, hk]
  have hrn : o p.base (s.B.rcv_nxt + u32 (pushes frs).length) = o p.base s.B.rcv_nxt + (pushes frs).length :=
    o_add _ _ _ (by omega)
  constructor
  · rfl
  · exact h.hba
  · exact fun d hd => h.tab d (List.mem_cons_of_mem _ hd)
  · exact h.tba
  · exact h.tnf
  · exact h.par
  · exact h.np
  · exact h.aK
  · exact h.aconv
  · exact h.aack
  · exact h.amin
  · exact h.arto
  · exact h.aq
  · exact h.asort
  · exact h.abnd
  · intro x hx
    obtain ⟨a1, a2, a3, a4, a5, a6, t, ht, htn, hloc⟩ := h.aseg x hx
    refine ⟨a1, a2, a3, a4, a5, a6, t, ht, htn, ?_⟩
    show Loc p _ grest gba x.sn t
    rcases hloc with ⟨d, hd, hd1, fr, hfr, hpu, hsn⟩ | ⟨⟨a, ha, hasn⟩, hn⟩ | ⟨d, hd, r⟩
    · rcases List.mem_cons.mp hd with rfl | hd
      · refine Or.inr (Or.inl ⟨⟨⟨fr.sn, fr.ts⟩, ?_, hsn⟩, ?_⟩)
        · show _ ∈ (cwndOnAck (inFrs true frs { k := s.B }).k s.B.snd_una).acklist
          rw [hk2]
          apply List.mem_append_right
          apply List.mem_map.mpr
          exact ⟨fr, by unfold pushes; exact List.mem_filter.mpr ⟨hfr, by simpa using hpu⟩, rfl⟩
        · have := h.tnf.2
          simp only at hd1
          show s.nfB ≤ t + s.D + p.I
          omega
      · exact Or.inl ⟨d, hd, hd1, fr, hfr, hpu, hsn⟩
    · refine Or.inr (Or.inl ⟨⟨a, ?_, hasn⟩, hn⟩)
      show _ ∈ (cwndOnAck (inFrs true frs { k := s.B }).k s.B.snd_una).acklist
      rw [hk2]
      exact List.mem_append_left _ ha
    · exact Or.inr (Or.inr ⟨d, hd, r⟩)
  · show Total.InvK (cwndOnAck (inFrs true frs { k := s.B }).k s.B.snd_una)
    apply h.bK.congr <;> rw [hk2]
    · exact h.bK.sndq
    · exact Total.DataLe.nil _
    · exact Total.DataLe.nil _
    · exact Total.DataLe.append h.bK.rcvq hql
  · show (cwndOnAck (inFrs true frs { k := s.B }).k s.B.snd_una).conv = _
    rw [hk2]; exact h.bconv
  · show (cwndOnAck (inFrs true frs { k := s.B }).k s.B.snd_una).snd_buf = _
    rw [hk2]
  · show (cwndOnAck (inFrs true frs { k := s.B }).k s.B.snd_una).snd_queue = _
    rw [hk2]; exact h.bsq
  · show (cwndOnAck (inFrs true frs { k := s.B }).k s.B.snd_una).rcv_buf = _
    rw [hk2]
  · show (cwndOnAck (inFrs true frs { k := s.B }).k s.B.snd_una).interval.toNat = _
    rw [hk2]; exact h.bint
  · show (cwndOnAck (inFrs true frs { k := s.B }).k s.B.snd_una).rcv_wnd.toNat = _ ∧ _
    rw [hk2]; exact h.bw
  · show ∀ a ∈ (cwndOnAck (inFrs true frs { k := s.B }).k s.B.snd_una).acklist,
      o p.base a.sn < o p.base (cwndOnAck (inFrs true frs { k := s.B }).k s.B.snd_una).rcv_nxt
    rw [hk2]
    show ∀ a ∈ s.B.acklist ++ _, o p.base a.sn < o p.base (s.B.rcv_nxt + u32 (pushes frs).length)
    rw [hrn]
    intro a ha
    rcases List.mem_append.mp ha with ha | ha
    · have := h.back a ha; omega
    · obtain ⟨fr, hfr, rfl⟩ := List.mem_map.mp ha
      have hm : o p.base fr.sn ∈ (pushes frs).map (fun fr => o p.base fr.sn) := List.mem_map.mpr ⟨fr, hfr, rfl⟩
      rw [hsplit.1] at hm
      have := List.mem_range'_1.mp hm
      show o p.base fr.sn < _
      omega
  · exact fun d hd => h.fab d (List.mem_cons_of_mem _ hd)
  · show ∀ d ∈ gba, ∀ fr ∈ d.2, fr.conv = p.conv ∧ fr.data = [] ∧
      AckLike p.base (cwndOnAck (inFrs true frs { k := s.B }).k s.B.snd_una).rcv_nxt fr
    rw [hk2]
    intro d hd fr hfr
    obtain ⟨e1, e2, e3, e4, e5⟩ := h.fba d hd fr hfr
    refine ⟨e1, e2, e3, ?_, e5⟩
    show o p.base fr.una ≤ o p.base (s.B.rcv_nxt + u32 (pushes frs).length)
    rw [hrn]; omega
  · show _ = List.range' (o p.base (cwndOnAck (inFrs true frs { k := s.B }).k s.B.snd_una).rcv_nxt) _ ∧
      o p.base (cwndOnAck (inFrs true frs { k := s.B }).k s.B.snd_una).rcv_nxt + _ = o p.base s.A.snd_nxt
    rw [hk2]
    show _ = List.range' (o p.base (s.B.rcv_nxt + u32 (pushes frs).length)) _ ∧
      o p.base (s.B.rcv_nxt + u32 (pushes frs).length) + _ = _
    rw [hrn]
    exact ⟨hsplit.2, by omega⟩

end KcpVerif.SysC
