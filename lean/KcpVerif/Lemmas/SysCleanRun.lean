/-
Clean-path invariant (C18 Tier 2): every event of the closed system preserves it (given the two run
hypotheses on the state the event starts from), hence it holds along every run.
-/
import KcpVerif.Lemmas.SysCleanStepA

namespace KcpVerif.SysC
open KcpVerif KcpVerif.Gen KcpVerif.Kcp KcpVerif.Live KcpVerif.Wire KcpVerif.SysW KcpVerif.Sys

/-! ### `Send` only appends never-transmitted segments -/

theorem mkSegs_fresh (mss : Nat) (st : Bool) : ∀ (c : Nat) (buf : Bytes), ∀ x ∈ mkSegs mss st c buf, Fresh x := by
  intro c
  induction c with
  | zero => intro buf x hx; simp [mkSegs] at hx
  | succ n ih =>
    intro buf x hx
    unfold mkSegs at hx
    rcases List.mem_cons.mp hx with rfl | hx
    · exact ⟨rfl, rfl, rfl⟩
    · exact ih _ x hx

theorem send_fresh (k : Kcp) (b : Bytes) (hq : ∀ x ∈ k.snd_queue, Fresh x) : ∀ x ∈ (send k b).k.snd_queue, Fresh x := by
  have hq1 : ∀ x ∈ Frame.sendQ1 k b, Fresh x := by
    unfold Frame.sendQ1
    split
    · split
      · rename_i s hs
        intro x hx
        unfold setLast at hx
        rcases List.mem_append.mp hx with h | h
        · exact hq x (List.dropLast_subset _ h)
        · rw [List.mem_singleton.mp h]
          exact hq s (List.mem_of_getLast? hs)
      · exact hq
    · exact hq
  have hnew : ∀ x ∈ Frame.sendNew k b, Fresh x := mkSegs_fresh _ _ _ _
  rw [Frame.send_eq]
  repeat' split
  all_goals first
    | exact hq
    | exact hq1
    | (intro x hx
       rcases List.mem_append.mp hx with h | h
       · exact hq1 x h
       · exact hnew x h)

theorem recv_clean (k : Kcp) (n : Nat) (hrb : k.rcv_buf = []) :
    ∃ q pr, (recv k n).k = { k with rcv_queue := q, rcv_buf := [], probe := pr } := by
  have e : k = { k with rcv_buf := [] } := by rw [← hrb]
  unfold recv
  simp only []
  split; · exact ⟨k.rcv_queue, k.probe, e⟩
  split; · exact ⟨k.rcv_queue, k.probe, e⟩
  unfold moveReady
  simp only [hrb, moveLoop]
  split
  · exact ⟨_, _, rfl⟩
  · exact ⟨_, k.probe, rfl⟩

/-! ### the closing part of `Input` -/

theorem cwndOnAck_self (k : Kcp) : cwndOnAck k k.snd_una = k := by
  unfold cwndOnAck
  rw [if_neg (by rw [itimediff_self]; omega)]

theorem encFrames_nil_or (frs : List Frm) : frs = [] ∨ ¬ (encFrames frs).length < IKCP_OVERHEAD := by
  cases frs with
  | nil => exact Or.inl rfl
  | cons fr r =>
    right
    have := encFrames_length_ge (fr :: r)
    simp only [List.length_cons] at this
    unfold IKCP_OVERHEAD at *
    omega

/-- `Input` of a datagram from A at B: nothing, or the loop followed by an optional ACK-only flush -/
theorem inputB_cases (k : Kcp) (frs : List Frm) (nd : Bool) (now : U32) (hv : ∀ fr ∈ frs, FrValid k.conv fr)
    (hp : (inFrs true frs { k := k }).panic = false) (hr : (inFrs true frs { k := k }).ret = 0)
    (hf : (inFrs true frs { k := k }).flushSeg = false) (hu : (inFrs true frs { k := k }).updRtt = false) :
    input k (encFrames frs) true nd now = ⟨cwndOnAck (inFrs true frs { k := k }).k k.snd_una, 0, [], false⟩ ∨
    input k (encFrames frs) true nd now =
      ⟨(flush (cwndOnAck (inFrs true frs { k := k }).k k.snd_una) false now).k, 0,
       (flush (cwndOnAck (inFrs true frs { k := k }).k k.snd_una) false now).outs,
       (flush (cwndOnAck (inFrs true frs { k := k }).k k.snd_una) false now).panic⟩ ∨
    (frs = [] ∧ input k (encFrames frs) true nd now = ⟨k, -1, [], false⟩) := by
  rcases encFrames_nil_or frs with rfl | hlen
  · right; right
    exact ⟨rfl, by rw [Live.input_eq, if_pos (by simp [encFrames, IKCP_OVERHEAD])]⟩
  · have hst := inSt_encFrames k frs true hv
    have hk2 : inK2 k (encFrames frs) true now = cwndOnAck (inFrs true frs { k := k }).k k.snd_una := by
      unfold inK2
      rw [hst, hu]
      simp
    rw [Live.input_eq, if_neg hlen, hst, hp, hr, hf, hk2]
    simp only [Bool.false_eq_true, ↓reduceIte, Int.lt_irrefl]
    split
    · exact Or.inr (Or.inl rfl)
    · split
      · exact Or.inr (Or.inl rfl)
      · exact Or.inl rfl

/-- `Input` of a datagram from B at A: nothing, or the loop followed by an optional FULL flush -/
theorem inputA_cases (k : Kcp) (frs : List Frm) (nd : Bool) (now : U32) (hv : ∀ fr ∈ frs, FrValid k.conv fr)
    (hp : (inFrs true frs { k := k }).panic = false) (hr : (inFrs true frs { k := k }).ret = 0) :
    ∃ k1, (k1 = (inFrs true frs { k := k }).k ∨ ∃ rtt, k1 = updateAck (inFrs true frs { k := k }).k rtt) ∧
    ((cwndOnAck k1 k.snd_una).acklist = [] → Total.InvK (cwndOnAck k1 k.snd_una) →
     (input k (encFrames frs) true nd now = ⟨cwndOnAck k1 k.snd_una, 0, [], false⟩ ∨
      input k (encFrames frs) true nd now =
        ⟨(flush (cwndOnAck k1 k.snd_una) true now).k, 0, (flush (cwndOnAck k1 k.snd_una) true now).outs,
         (flush (cwndOnAck k1 k.snd_una) true now).panic⟩ ∨
      (frs = [] ∧ input k (encFrames frs) true nd now = ⟨k, -1, [], false⟩))) := by
  rcases encFrames_nil_or frs with rfl | hlen
  · exact ⟨_, Or.inl rfl, fun _ _ => Or.inr (Or.inr
      ⟨rfl, by rw [Live.input_eq, if_pos (by simp [encFrames, IKCP_OVERHEAD])]⟩)⟩
  · have hst := inSt_encFrames k frs true hv
    refine ⟨if (inFrs true frs { k := k }).updRtt ∧ true ∧ itimediff now (inFrs true frs { k := k }).latest ≥ 0
        then updateAck (inFrs true frs { k := k }).k (now - (inFrs true frs { k := k }).latest)
        else (inFrs true frs { k := k }).k, ?_, ?_⟩
    · split
      · exact Or.inr ⟨_, rfl⟩
      · exact Or.inl rfl
    · intro hal hK
      have hk2 : inK2 k (encFrames frs) true now = cwndOnAck (if (inFrs true frs { k := k }).updRtt ∧ true ∧
            itimediff now (inFrs true frs { k := k }).latest ≥ 0
          then updateAck (inFrs true frs { k := k }).k (now - (inFrs true frs { k := k }).latest)
          else (inFrs true frs { k := k }).k) k.snd_una := by
        unfold inK2
        rw [hst]
      rw [← hk2] at hal hK ⊢
      rw [Live.input_eq, if_neg hlen, hst, hp, hr]
      simp only [Bool.false_eq_true, ↓reduceIte, Int.lt_irrefl]
      split
      · exact Or.inr (Or.inl rfl)
      · rw [hal]
        have hm : ¬ ([] : List Ack).length ≥ ((inK2 k (encFrames frs) true now).mtu / u32 IKCP_OVERHEAD).toNat := by
          have := hK.mtu_gt
          have e : (u32 IKCP_OVERHEAD).toNat = 24 := by decide
          rw [BitVec.toNat_udiv, e]
          unfold IKCP_OVERHEAD at this
          simp only [List.length_nil]
          omega
        rw [if_neg hm, if_neg (by simp)]
        exact Or.inl rfl

/-! ### every event -/

theorem step_dlvB_cons (s : State) (d : Dgram) (rest : List Dgram) (h : s.ab = d :: rest) :
    step s .dlvB = if d.arr ≤ s.now then
        { s with B := (s.B.input d.data true s.ndB (clk s.now)).k, ab := rest,
                 ba := s.ba ++ stamp (s.now + s.D) (s.B.input d.data true s.ndB (clk s.now)).outs,
                 panic := s.panic || (s.B.input d.data true s.ndB (clk s.now)).panic }
      else s := by
  simp only [Sys.step, h]

theorem step_dlvA_cons (s : State) (d : Dgram) (rest : List Dgram) (h : s.ba = d :: rest) :
    step s .dlvA = if d.arr ≤ s.now then
        { s with A := (s.A.input d.data true s.ndA (clk s.now)).k, ba := rest,
                 ab := s.ab ++ stamp (s.now + s.D) (s.A.input d.data true s.ndA (clk s.now)).outs,
                 panic := s.panic || (s.A.input d.data true s.ndA (clk s.now)).panic }
      else s := by
  simp only [Sys.step, h]

theorem clean_tick {p : Par} {s : State} {gab gba : GLink} (h : Clean p s gab gba) (hq : quiet s = true) :
    Clean p { s with now := s.now + 1 } gab gba := by
  unfold quiet at hq
  simp only [Bool.and_eq_true, List.all_eq_true, decide_eq_true_eq] at hq
  obtain ⟨⟨⟨⟨q1, q2⟩, q3⟩, q4⟩, q5⟩ := hq
  have t1 : ∀ d ∈ gab, s.now + 1 ≤ d.1 := by
    intro d hd
    have : (⟨d.1, encFrames d.2⟩ : Dgram) ∈ s.ab := by rw [h.hab]; exact List.mem_map.mpr ⟨d, hd, rfl⟩
    have := q1 _ this
    simp only at this; omega
  have t2 : ∀ d ∈ gba, s.now + 1 ≤ d.1 := by
    intro d hd
    have : (⟨d.1, encFrames d.2⟩ : Dgram) ∈ s.ba := by rw [h.hba]; exact List.mem_map.mpr ⟨d, hd, rfl⟩
    have := q2 _ this
    simp only at this; omega
  have := h.tnf
  exact { h with
    tab := t1, tba := t2, tnf := ⟨by show s.now + 1 ≤ s.nfB; omega, by show s.nfB ≤ s.now + 1 + p.I; omega⟩
    aseg := fun x hx => by
      obtain ⟨a1, a2, a3, a4, a5, a6, t, ht, htn, hloc⟩ := h.aseg x hx
      exact ⟨a1, a2, a3, a4, a5, a6, t, ht, Nat.le_succ_of_le htn, hloc.mono rfl (fun d hd => hd) (fun d hd => hd) id⟩ }

theorem clean_send {p : Par} {s : State} {gab gba : GLink} (h : Clean p s gab gba) (b : Bytes) :
    Clean p (step s (.send b)) gab gba := by
  have hq := Frame.send_k s.A b
  obtain ⟨hpan, hK⟩ := Total.send_total h.aK b
  show Clean p { s with A := (s.A.send b).k, panic := s.panic || (s.A.send b).panic } gab gba
  exact { h with
    np := by show (s.panic || (s.A.send b).panic) = false; rw [h.np, hpan]; rfl
    aK := hK
    aconv := by show (s.A.send b).k.conv = _; rw [hq]; exact h.aconv
    aack := by show (s.A.send b).k.acklist = _; rw [hq]; exact h.aack
    amin := by show (s.A.send b).k.rx_minrto.toNat = _; rw [hq]; exact h.amin
    arto := by show _ ≤ (s.A.send b).k.rx_rto.toNat ∧ (s.A.send b).k.rx_rto.toNat ≤ _; rw [hq]; exact h.arto
    aq := send_fresh s.A b h.aq
    asort := by show Sorted p.base (s.A.send b).k.snd_buf; rw [hq]; exact h.asort
    abnd := by
      show ∀ x ∈ (s.A.send b).k.snd_buf, o p.base x.sn < o p.base (s.A.send b).k.snd_nxt
      rw [hq]; exact h.abnd
    aseg := by
      show ∀ x ∈ (s.A.send b).k.snd_buf, SegOk p _ gab gba x
      rw [hq]
      intro x hx
      obtain ⟨a1, a2, a3, a4, a5, a6, t, ht, htn, hloc⟩ := h.aseg x hx
      exact ⟨a1, a2, a3, a4, a5, a6, t, ht, htn, hloc.mono rfl (fun d hd => hd) (fun d hd => hd) id⟩
    ord := by
      show _ ∧ _ = o p.base (s.A.send b).k.snd_nxt
      rw [hq]; exact h.ord }

theorem clean_read {p : Par} {s : State} {gab gba : GLink} (h : Clean p s gab gba) :
    Clean p (step s .read) gab gba := by
  obtain ⟨q, pr, hq⟩ := recv_clean s.B s.B.peekSize.toNat h.brb
  have hK := Total.recv_total h.bK s.B.peekSize.toNat
  show Clean p (if (s.B.recv s.B.peekSize.toNat).n < 0 then s
    else { s with B := (s.B.recv s.B.peekSize.toNat).k, got := s.got ++ (s.B.recv s.B.peekSize.toNat).data }) gab gba
  split
  · exact h
  · exact { h with
      bK := hK
      bconv := by show (s.B.recv s.B.peekSize.toNat).k.conv = _; rw [hq]; exact h.bconv
      bsb := by show (s.B.recv s.B.peekSize.toNat).k.snd_buf = _; rw [hq]; exact h.bsb
      bsq := by show (s.B.recv s.B.peekSize.toNat).k.snd_queue = _; rw [hq]; exact h.bsq
      brb := by show (s.B.recv s.B.peekSize.toNat).k.rcv_buf = _; rw [hq]
      bint := by show (s.B.recv s.B.peekSize.toNat).k.interval.toNat = _; rw [hq]; exact h.bint
      bw := by show (s.B.recv s.B.peekSize.toNat).k.rcv_wnd.toNat = _ ∧ _; rw [hq]; exact h.bw
      back := by
        show ∀ a ∈ (s.B.recv s.B.peekSize.toNat).k.acklist, o p.base a.sn < o p.base (s.B.recv s.B.peekSize.toNat).k.rcv_nxt
        rw [hq]; exact h.back
      fba := by
        show ∀ d ∈ gba, ∀ fr ∈ d.2, fr.conv = p.conv ∧ fr.data = [] ∧
          AckLike p.base (s.B.recv s.B.peekSize.toNat).k.rcv_nxt fr
        rw [hq]; exact h.fba
      ord := by
        show _ = List.range' (o p.base (s.B.recv s.B.peekSize.toNat).k.rcv_nxt) _ ∧
          o p.base (s.B.recv s.B.peekSize.toNat).k.rcv_nxt + _ = _
        rw [hq]; exact h.ord
      aseg := by
        intro x hx
        obtain ⟨a1, a2, a3, a4, a5, a6, t, ht, htn, hloc⟩ := h.aseg x hx
        refine ⟨a1, a2, a3, a4, a5, a6, t, ht, htn, hloc.mono rfl (fun d hd => hd) (fun d hd => hd) ?_⟩
        show _ → (∃ a ∈ (s.B.recv s.B.peekSize.toNat).k.acklist, a.sn = x.sn) ∧ _
        rw [hq]; exact id }

/-- **every event preserves the clean-path invariant**, given the two run hypotheses on the state it
starts from; a flush event of A takes neither the timeout nor the fast/early branch -/
theorem clean_step {p : Par} {s : State} {gab gba : GLink} (h : Clean p s gab gba) (hnw : NoWrap p.base s)
    (hroom : RoomOk s) (ev : Ev) : ∃ gab' gba', Clean p (step s ev) gab' gba' := by
  cases ev with
  | tick =>
    show ∃ gab' gba', Clean p (if quiet s then { s with now := s.now + 1 } else s) gab' gba'
    split
    · rename_i hq; exact ⟨gab, gba, clean_tick h hq⟩
    · exact ⟨gab, gba, h⟩
  | send b => exact ⟨gab, gba, clean_send h b⟩
  | read => exact ⟨gab, gba, clean_read h⟩
  | flushA =>
    obtain ⟨gab', hc, _, _⟩ := clean_flushA h hnw (s.now + (s.A.flush true (clk s.now)).interval.toNat)
    exact ⟨gab', gba, hc⟩
  | flushB =>
    have hle := flush_interval_le s.B (clk s.now)
    rw [BitVec.le_def, h.bint] at hle
    obtain ⟨gba', hc⟩ := clean_flushB h true (s.now + (s.B.flush true (clk s.now)).interval.toNat)
      ⟨by omega, by omega⟩
    exact ⟨gab, gba', hc⟩
  | dlvB =>
    cases gab with
    | nil =>
      have : step s .dlvB = s := by simp only [Sys.step, h.hab, encL, List.map_nil]
      rw [this]; exact ⟨[], gba, h⟩
    | cons d0 grest =>
      obtain ⟨t0, frs⟩ := d0
      have hab : s.ab = ⟨t0, encFrames frs⟩ :: encL grest := h.hab
      rw [step_dlvB_cons s _ _ hab]
      split
      · rename_i hdue
        obtain ⟨hv, hp, hr, hf, hu, hclean⟩ := clean_inB h hdue hroom hnw
        rcases inputB_cases s.B frs s.ndB (clk s.now) hv hp hr hf hu with hin | hin | ⟨rfl, hin⟩
        · simp only [hin, stamp, List.map_nil, List.append_nil, Bool.or_false]
          exact ⟨grest, gba, hclean⟩
        · simp only [hin]
          exact ⟨grest, clean_flushB hclean false s.nfB h.tnf⟩
        · simp only [hin, stamp, List.map_nil, List.append_nil, Bool.or_false]
          have hc := hclean
          rw [show cwndOnAck (inFrs true [] { k := s.B }).k s.B.snd_una = s.B from cwndOnAck_self s.B] at hc
          exact ⟨grest, gba, hc⟩
      · exact ⟨_, gba, h⟩
  | dlvA =>
    cases gba with
    | nil =>
      have : step s .dlvA = s := by simp only [Sys.step, h.hba, encL, List.map_nil]
      rw [this]; exact ⟨gab, [], h⟩
    | cons d0 grest =>
      obtain ⟨t0, frs⟩ := d0
      have hba : s.ba = ⟨t0, encFrames frs⟩ :: encL grest := h.hba
      rw [step_dlvA_cons s _ _ hba]
      split
      · obtain ⟨hv, hp, hr, _, _, _, hclean0⟩ := clean_inA h hnw (inFrs true frs { k := s.A }).k (Or.inl rfl)
        obtain ⟨k1, hk1, himp⟩ := inputA_cases s.A frs s.ndA (clk s.now) hv hp hr
        obtain ⟨_, _, _, hal, hnx, hsq, hclean⟩ := clean_inA h hnw k1 hk1
        rcases himp hal hclean.aK with hin | hin | ⟨rfl, hin⟩
        · simp only [hin, stamp, List.map_nil, List.append_nil, Bool.or_false]
          exact ⟨gab, grest, hclean⟩
        · simp only [hin]
          have hnw1 : NoWrap p.base { s with A := cwndOnAck k1 s.A.snd_una, ba := encL grest } := by
            unfold NoWrap at hnw ⊢
            show o p.base (cwndOnAck k1 s.A.snd_una).snd_nxt + (cwndOnAck k1 s.A.snd_una).snd_queue.length < _
            rw [hnx, hsq]; exact hnw
          obtain ⟨gab', hc, _, _⟩ := clean_flushA hclean hnw1 s.nfA
          exact ⟨gab', grest, hc⟩
        · simp only [hin, stamp, List.map_nil, List.append_nil, Bool.or_false]
          have hc := hclean0
          rw [show cwndOnAck (inFrs true [] { k := s.A }).k s.A.snd_una = s.A from cwndOnAck_self s.A] at hc
          exact ⟨gab, grest, hc⟩
      · exact ⟨gab, _, h⟩

/-! ### runs -/

instance (base : U32) (s : State) : Decidable (NoWrap base s) := by unfold NoWrap; infer_instance
instance (s : State) : Decidable (RoomOk s) := by unfold RoomOk; infer_instance

/-- the two run hypotheses hold in every state of the run (including the last) -/
def RunOk (base : U32) : State → List Ev → Prop
  | s, [] => NoWrap base s ∧ RoomOk s
  | s, ev :: rest => NoWrap base s ∧ RoomOk s ∧ RunOk base (Sys.step s ev) rest

instance runOkDec (base : U32) : (s : State) → (evs : List Ev) → Decidable (RunOk base s evs)
  | s, [] => by unfold RunOk; infer_instance
  | s, ev :: rest => by
    unfold RunOk
    have := runOkDec base (Sys.step s ev) rest
    infer_instance

theorem clean_run {p : Par} (evs : List Ev) : ∀ (s : State) (gab gba : GLink), Clean p s gab gba → RunOk p.base s evs →
    ∃ gab' gba', Clean p (Sys.run s evs) gab' gba' ∧ NoWrap p.base (Sys.run s evs) := by
  induction evs with
  | nil => intro s gab gba h hr; exact ⟨gab, gba, h, hr.1⟩
  | cons ev rest ih =>
    intro s gab gba h hr
    obtain ⟨gab', gba', hc⟩ := clean_step h hr.1 hr.2.1 ev
    exact ih _ gab' gba' hc hr.2.2

/-- settings before traffic: what the two cores must look like when the run starts -/
def CleanInit (A B : Kcp) (D : Nat) : Prop :=
  Total.InvK A ∧ Total.InvK B ∧ A.conv = B.conv ∧
  A.acklist = [] ∧ A.snd_buf = [] ∧ A.snd_queue = [] ∧
  B.snd_buf = [] ∧ B.snd_queue = [] ∧ B.rcv_buf = [] ∧ B.acklist = [] ∧ B.rcv_nxt = A.snd_nxt ∧
  A.rx_minrto.toNat ≤ A.rx_rto.toNat ∧ A.rx_rto.toNat ≤ 60000 ∧
  2 * D + B.interval.toNat < A.rx_minrto.toNat ∧ B.rcv_wnd.toNat < 2 ^ 31

instance (A B : Kcp) (D : Nat) : Decidable (CleanInit A B D) := by unfold CleanInit; infer_instance

def parOf (A B : Kcp) : Par := ⟨A.snd_nxt, A.conv, A.rx_minrto.toNat, B.interval.toNat, B.rcv_wnd.toNat⟩

theorem clean_init (A B : Kcp) (D t0 : Nat) (ndA ndB : Bool) (h : CleanInit A B D) :
    Clean (parOf A B) (Sys.init A B D t0 ndA ndB) [] [] := by
  obtain ⟨h1, h2, h3, h4, h5, h6, h7, h8, h9, h10, h11, h12, h13, h14, h15⟩ := h
  constructor
  · rfl
  · rfl
  · intro d hd; simp at hd
  · intro d hd; simp at hd
  · exact ⟨by show t0 ≤ t0 + B.interval.toNat; omega, Nat.le_refl _⟩
  · exact h14
  · rfl
  · exact h1
  · rfl
  · exact h4
  · rfl
  · exact ⟨h12, h13⟩
  · show ∀ x ∈ A.snd_queue, Fresh x
    rw [h6]; intro x hx; simp at hx
  · show Sorted _ A.snd_buf
    rw [h5]; exact List.Pairwise.nil
  · show ∀ x ∈ A.snd_buf, _
    rw [h5]; intro x hx; simp at hx
  · show ∀ x ∈ A.snd_buf, _
    rw [h5]; intro x hx; simp at hx
  · exact h2
  · exact h3.symm
  · exact h7
  · exact h8
  · exact h9
  · rfl
  · exact ⟨rfl, h15⟩
  · show ∀ a ∈ B.acklist, _
    rw [h10]; intro a ha; simp at ha
  · intro d hd; simp at hd
  · intro d hd; simp at hd
  · show _ ∧ o A.snd_nxt B.rcv_nxt + _ = o A.snd_nxt A.snd_nxt
    rw [h11]
    simp [allFrs, pushes]

end KcpVerif.SysC
