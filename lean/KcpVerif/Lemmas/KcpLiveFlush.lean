/-
`flush` cut into its phases (every intermediate value of the model's `let` chain gets a name) and
the frame facts of each phase.  Core Lean only.
-/
import KcpVerif.Lemmas.KcpXmit

namespace KcpVerif.Live
open KcpVerif KcpVerif.Gen KcpVerif.Kcp

/-- phase 1: the ack list -/
def flAck (k : Kcp) : AckSt :=
  ackFlush (wndUnused k) k.rcv_nxt k.acklist.length k.acklist 0
    ⟨{ k := k }, { cmd := BitVec.ofNat 8 IKCP_CMD_ACK }⟩

def flF1 (k : Kcp) : Fl := { (flAck k).f with k := { (flAck k).f.k with acklist := [] } }

/-- phase 2: probe timer -/
def flF2 (k : Kcp) (now : U32) : Fl := { flF1 k with k := probePhase (flF1 k).k now }

/-- phase 3: WASK -/
def flF3a (k : Kcp) (now : U32) : Fl :=
  if (flF2 k now).k.probe &&& u32 IKCP_ASK_SEND ≠ 0 then
    ((flF2 k now).makeSpace IKCP_OVERHEAD).putHdr
      (encodeHdr (flF2 k now).k.conv (BitVec.ofNat 8 IKCP_CMD_WASK) 0 (wndUnused k) (flAck k).sc.ts (flAck k).sc.sn k.rcv_nxt 0)
  else flF2 k now

/-- phase 3: WINS -/
def flF3b (k : Kcp) (now : U32) : Fl :=
  if (flF3a k now).k.probe &&& u32 IKCP_ASK_TELL ≠ 0 then
    ((flF3a k now).makeSpace IKCP_OVERHEAD).putHdr
      (encodeHdr (flF3a k now).k.conv (BitVec.ofNat 8 IKCP_CMD_WINS) 0 (wndUnused k) (flAck k).sc.ts (flAck k).sc.sn k.rcv_nxt 0)
  else flF3a k now

def flF3 (k : Kcp) (now : U32) : Fl := { flF3b k now with k := { (flF3b k now).k with probe := 0 } }

/-- the effective window of phase 4 -/
def effWnd (k : Kcp) : U32 :=
  if k.nocwnd = 0 then
    (if k.cwnd ≤ (if k.snd_wnd ≤ k.rmt_wnd then k.snd_wnd else k.rmt_wnd) then k.cwnd
     else (if k.snd_wnd ≤ k.rmt_wnd then k.snd_wnd else k.rmt_wnd))
  else (if k.snd_wnd ≤ k.rmt_wnd then k.snd_wnd else k.rmt_wnd)

def flAd (k : Kcp) (now : U32) : AdmitRes :=
  admitSegs (flF3 k now).k.conv (flF3 k now).k.snd_una (effWnd (flF3 k now).k) now
    (flF3 k now).k.snd_queue (flF3 k now).k.snd_buf (flF3 k now).k.snd_nxt 0

def flF4 (k : Kcp) (now : U32) : Fl :=
  { flF3 k now with k := { (flF3 k now).k with snd_queue := (flAd k now).queue, snd_buf := (flAd k now).buf,
                                                 snd_nxt := (flAd k now).nxt } }

def resentOf (k : Kcp) : U32 := if k.fastresend.sle 0 then 0xFFFFFFFF#32 else k.fastresend

/-- phase 5 -/
def flX (k : Kcp) (full : Bool) (now : U32) : XmitSt :=
  if full then (flF4 k now).k.snd_buf.foldl
      (xmitOne now (resentOf (flF4 k now).k) (wndUnused k) k.rcv_nxt (flAd k now).count)
      { f := flF4 k now, next := (flF4 k now).k.interval }
  else { f := flF4 k now, done := (flF4 k now).k.snd_buf, next := (flF4 k now).k.interval }

def flF5 (k : Kcp) (full : Bool) (now : U32) : Fl :=
  { (flX k full now).f with k := { (flX k full now).f.k with snd_buf := (flX k full now).done } }

/-- phase 6: congestion reaction -/
def phase6 (k5 : Kcp) (change lost : Nat) (cwnd resent : U32) : Kcp :=
  if k5.nocwnd = 0 then
    let k7 : Kcp := if change > 0 then
        let inflight := k5.snd_nxt - k5.snd_una
        let half := inflight / 2
        let ss := if half ≥ u32 IKCP_THRESH_MIN then half else u32 IKCP_THRESH_MIN
        { k5 with ssthresh := ss, cwnd := ss + resent, incr := (ss + resent) * k5.mss }
      else k5
    let k8 : Kcp := if lost > 0 then
        let half := cwnd / 2
        { k7 with ssthresh := (if half ≥ u32 IKCP_THRESH_MIN then half else u32 IKCP_THRESH_MIN), cwnd := 1, incr := k7.mss }
      else k7
    if k8.cwnd < 1 then { k8 with cwnd := 1, incr := k8.mss } else k8
  else k5

theorem flush_eq (k : Kcp) (full : Bool) (now : U32) :
    flush k full now =
      ⟨phase6 (flF5 k full now).k (flX k full now).change (flX k full now).lost (effWnd (flF3 k now).k)
          (resentOf (flF4 k now).k),
       if (flF5 k full now).cur.length > 0 then (flF5 k full now).outs ++ [(flF5 k full now).cur]
       else (flF5 k full now).outs,
       (flX k full now).next, (flF5 k full now).panic⟩ := rfl

/-! ### phase 1 -/

/-- one iteration of the ack loop -/
def ackStep (wnd : BitVec 16) (una : U32) (total : Nat) (a : Ack) (i : Nat) (st : AckSt) : AckSt :=
  if itimediff a.sn st.f.k.rcv_nxt ≥ 0 ∨ total - 1 = i then
    ⟨(st.f.makeSpace IKCP_OVERHEAD).putHdr (encodeHdr st.f.k.conv st.sc.cmd 0 wnd a.ts a.sn una 0),
     { st.sc with sn := a.sn, ts := a.ts }⟩
  else ⟨st.f.makeSpace IKCP_OVERHEAD, st.sc⟩

theorem ackFlush_cons (wnd : BitVec 16) (una : U32) (total : Nat) (a : Ack) (rest : List Ack) (i : Nat) (st : AckSt) :
    ackFlush wnd una total (a :: rest) i st = ackFlush wnd una total rest (i + 1) (ackStep wnd una total a i st) := by
  rw [ackFlush]
  simp only [Fl.makeSpace_k, ackStep]
  split <;> rfl

theorem ackStep_k (wnd : BitVec 16) (una : U32) (total : Nat) (a : Ack) (i : Nat) (st : AckSt) :
    (ackStep wnd una total a i st).f.k = st.f.k ∧ (ackStep wnd una total a i st).sc.cmd = st.sc.cmd := by
  unfold ackStep
  split
  · exact ⟨by simp only [Fl.putHdr_k, Fl.makeSpace_k], rfl⟩
  · exact ⟨by simp only [Fl.makeSpace_k], rfl⟩

theorem ackStep_ext (wnd : BitVec 16) (una : U32) (total : Nat) (a : Ack) (i : Nat) (st : AckSt) :
    Fl.Ext st.f (ackStep wnd una total a i st).f := by
  unfold ackStep
  split
  · exact (Fl.makeSpace_ext _ _).trans (Fl.putHdr_ext _ _)
  · exact Fl.makeSpace_ext _ _

theorem ackFlush_k (wnd : BitVec 16) (una : U32) (total : Nat) (l : List Ack) (i : Nat) (st : AckSt) :
    (ackFlush wnd una total l i st).f.k = st.f.k ∧ (ackFlush wnd una total l i st).sc.cmd = st.sc.cmd := by
  induction l generalizing i st with
  | nil => exact ⟨rfl, rfl⟩
  | cons a rest ih =>
    rw [ackFlush_cons]
    have h := ih (i + 1) (ackStep wnd una total a i st)
    have h2 := ackStep_k wnd una total a i st
    exact ⟨h.1.trans h2.1, h.2.trans h2.2⟩

theorem ackFlush_ext (wnd : BitVec 16) (una : U32) (total : Nat) (l : List Ack) (i : Nat) (st : AckSt) :
    Fl.Ext st.f (ackFlush wnd una total l i st).f := by
  induction l generalizing i st with
  | nil => exact Fl.Ext.refl _
  | cons a rest ih =>
    rw [ackFlush_cons]
    exact (ackStep_ext wnd una total a i st).trans (ih (i + 1) _)

/-- the jitter filter of phase 1 always keeps the LAST entry of the ack list: its header is the
last thing phase 1 writes, and the scratch segment keeps its `sn`/`ts` -/
theorem ackFlush_last (wnd : BitVec 16) (una : U32) (total : Nat) (l : List Ack) (i : Nat) (st : AckSt)
    (a : Ack) (hl : l.getLast? = some a) (hi : i + l.length = total)
    (hp : (ackFlush wnd una total l i st).f.panic = false) :
    (∃ pre, (ackFlush wnd una total l i st).f.liveWire = pre ++ encodeHdr st.f.k.conv st.sc.cmd 0 wnd a.ts a.sn una 0) ∧
    (ackFlush wnd una total l i st).sc.sn = a.sn ∧ (ackFlush wnd una total l i st).sc.ts = a.ts := by
  induction l generalizing i st with
  | nil => simp at hl
  | cons b rest ih =>
    rw [ackFlush_cons] at hp ⊢
    cases rest with
    | nil =>
      simp only [List.getLast?_singleton, Option.some.injEq] at hl
      subst hl
      have hc : total - 1 = i := by simp at hi; omega
      simp only [ackFlush] at hp ⊢
      unfold ackStep at hp ⊢
      rw [if_pos (Or.inr hc)] at hp ⊢
      have hw := Fl.putHdr_wire _ _ hp
      exact ⟨⟨_, hw.1⟩, rfl, rfl⟩
    | cons c r =>
      rw [List.getLast?_cons_cons] at hl
      have hi' : (i + 1) + (c :: r).length = total := by
        simp only [List.length_cons] at hi ⊢; omega
      have h := ih (i + 1) (ackStep wnd una total b i st) hl hi' hp
      rw [(ackStep_k wnd una total b i st).1, (ackStep_k wnd una total b i st).2] at h
      exact h

/-! ### how the buffer evolves across the phases -/

/-- the liveWire stream only grew and a panic stays (the connection fields may have changed) -/
structure Fl.Grow (f g : Fl) : Prop where
  liveWire  : ∃ t, g.liveWire = f.liveWire ++ t
  panic : f.panic = true → g.panic = true

theorem Fl.Ext.grow {f g : Fl} (h : Fl.Ext f g) : Fl.Grow f g := ⟨h.liveWire, h.panic⟩

theorem Fl.Grow.refl (f : Fl) : Fl.Grow f f := ⟨⟨[], by simp⟩, id⟩

theorem Fl.Grow.trans {f g h : Fl} (a : Fl.Grow f g) (b : Fl.Grow g h) : Fl.Grow f h := by
  refine ⟨?_, fun p => b.panic (a.panic p)⟩
  obtain ⟨t, ht⟩ := a.liveWire
  obtain ⟨u, hu⟩ := b.liveWire
  exact ⟨t ++ u, by rw [hu, ht, List.append_assoc]⟩

theorem Fl.Grow.setK (f : Fl) (k : Kcp) : Fl.Grow f { f with k := k } := ⟨⟨[], by simp [Fl.liveWire]⟩, id⟩

theorem Fl.Grow.noPanic {f g : Fl} (h : Fl.Grow f g) (hp : g.panic = false) : f.panic = false := by
  cases hq : f.panic with
  | false => rfl
  | true => rw [h.panic hq] at hp; exact absurd hp (by simp)

/-- a chunk written at some point stays on the liveWire -/
theorem Fl.Grow.keeps {f g : Fl} (h : Fl.Grow f g) {pre x : Bytes} (hw : f.liveWire = pre ++ x) :
    ∃ post, g.liveWire = pre ++ x ++ post := by
  obtain ⟨t, ht⟩ := h.liveWire
  exact ⟨t, by rw [ht, hw]⟩

theorem flAck_k (k : Kcp) : (flAck k).f.k = k := (ackFlush_k _ _ _ _ _ _).1

theorem flAck_cmd (k : Kcp) : (flAck k).sc.cmd = BitVec.ofNat 8 IKCP_CMD_ACK := (ackFlush_k _ _ _ _ _ _).2

theorem flF1_k (k : Kcp) : (flF1 k).k = { k with acklist := [] } := by
  unfold flF1; simp only [flAck_k]

theorem flF2_k (k : Kcp) (now : U32) : (flF2 k now).k = probePhase { k with acklist := [] } now := by
  unfold flF2; simp only [flF1_k]

theorem flF3a_k (k : Kcp) (now : U32) : (flF3a k now).k = (flF2 k now).k := by
  unfold flF3a; split
  · rw [Fl.putHdr_k, Fl.makeSpace_k]
  · rfl

theorem flF3b_k (k : Kcp) (now : U32) : (flF3b k now).k = (flF2 k now).k := by
  unfold flF3b; split
  · rw [Fl.putHdr_k, Fl.makeSpace_k, flF3a_k]
  · exact flF3a_k k now

theorem flF3_k (k : Kcp) (now : U32) :
    (flF3 k now).k = { probePhase { k with acklist := [] } now with probe := 0 } := by
  unfold flF3; simp only [flF3b_k, flF2_k]

theorem flF4_k (k : Kcp) (now : U32) :
    (flF4 k now).k = { probePhase { k with acklist := [] } now with
      probe := 0, snd_queue := (flAd k now).queue, snd_buf := (flAd k now).buf, snd_nxt := (flAd k now).nxt } := by
  unfold flF4; simp only [flF3_k]

theorem grow_F1 (k : Kcp) : Fl.Grow (flAck k).f (flF1 k) := Fl.Grow.setK _ _
theorem grow_F2 (k : Kcp) (now : U32) : Fl.Grow (flF1 k) (flF2 k now) := Fl.Grow.setK _ _

theorem grow_F3a (k : Kcp) (now : U32) : Fl.Grow (flF2 k now) (flF3a k now) := by
  unfold flF3a; split
  · exact ((Fl.makeSpace_ext _ _).trans (Fl.putHdr_ext _ _)).grow
  · exact Fl.Grow.refl _

theorem grow_F3b (k : Kcp) (now : U32) : Fl.Grow (flF3a k now) (flF3b k now) := by
  unfold flF3b; split
  · exact ((Fl.makeSpace_ext _ _).trans (Fl.putHdr_ext _ _)).grow
  · exact Fl.Grow.refl _

theorem grow_F3 (k : Kcp) (now : U32) : Fl.Grow (flF3b k now) (flF3 k now) := Fl.Grow.setK _ _
theorem grow_F4 (k : Kcp) (now : U32) : Fl.Grow (flF3 k now) (flF4 k now) := Fl.Grow.setK _ _

/-- phase 5 as a `FoldSpec` (full flush) -/
theorem flX_full (k : Kcp) (now : U32) :
    FoldSpec now (resentOf (flF4 k now).k) (wndUnused k) k.rcv_nxt (flAd k now).count (flF4 k now).k.snd_buf
      { f := flF4 k now, next := (flF4 k now).k.interval } (flX k true now) := by
  unfold flX; simp only [↓reduceIte]
  exact foldXmit_spec _ _ _ _ _ _ _

theorem flX_ackonly (k : Kcp) (now : U32) :
    flX k false now = { f := flF4 k now, done := (flF4 k now).k.snd_buf, next := (flF4 k now).k.interval } := by
  unfold flX; simp only [Bool.false_eq_true, ↓reduceIte]

theorem ext_X (k : Kcp) (full : Bool) (now : U32) : Fl.Ext (flF4 k now) (flX k full now).f := by
  cases full
  · rw [flX_ackonly]; exact Fl.Ext.refl _
  · exact (flX_full k now).ext

theorem grow_F5 (k : Kcp) (full : Bool) (now : U32) : Fl.Grow (flX k full now).f (flF5 k full now) :=
  Fl.Grow.setK _ _

/-- from the end of phase 1 to the end of the flush -/
theorem grow_ack_end (k : Kcp) (full : Bool) (now : U32) : Fl.Grow (flAck k).f (flF5 k full now) :=
  (grow_F1 k).trans <| (grow_F2 k now).trans <| (grow_F3a k now).trans <| (grow_F3b k now).trans <|
    (grow_F3 k now).trans <| (grow_F4 k now).trans <| (ext_X k full now).grow.trans (grow_F5 k full now)

theorem grow_F3b_end (k : Kcp) (full : Bool) (now : U32) : Fl.Grow (flF3b k now) (flF5 k full now) :=
  (grow_F3 k now).trans <| (grow_F4 k now).trans <| (ext_X k full now).grow.trans (grow_F5 k full now)

theorem flush_panic (k : Kcp) (full : Bool) (now : U32) : (flush k full now).panic = (flF5 k full now).panic := by
  rw [flush_eq]

/-- the concatenation of all datagrams handed to `output` is the liveWire stream of the buffer -/
theorem flush_wire (k : Kcp) (full : Bool) (now : U32) :
    (flush k full now).outs.flatten = (flF5 k full now).liveWire := by
  rw [flush_eq]
  simp only [Fl.liveWire]
  split
  · simp
  · rename_i h
    have : (flF5 k full now).cur = [] := by
      cases hc : (flF5 k full now).cur with
      | nil => rfl
      | cons a t => rw [hc] at h; simp at h
    rw [this]; simp

/-! ### the frame of a flush: which fields can change -/

theorem probePhase_frame (k : Kcp) (now : U32) :
    ∃ pw tp pr, probePhase k now = { k with probe_wait := pw, ts_probe := tp, probe := pr } := by
  unfold probePhase
  split
  · split
    · exact ⟨_, _, _, rfl⟩
    · split
      · exact ⟨_, _, _, rfl⟩
      · exact ⟨_, _, _, rfl⟩
  · exact ⟨_, _, _, rfl⟩

theorem phase6_frame (k5 : Kcp) (change lost : Nat) (cwnd resent : U32) :
    ∃ ss cw inc, phase6 k5 change lost cwnd resent = { k5 with ssthresh := ss, cwnd := cw, incr := inc } := by
  unfold phase6
  simp only []
  repeat' split
  all_goals exact ⟨_, _, _, rfl⟩

/-- every field a flush can write, by name; everything else is untouched -/
theorem flush_frame (k : Kcp) (full : Bool) (now : U32) :
    ∃ pw tp st ss cw inc, (flush k full now).k =
      { k with acklist := [], probe_wait := pw, ts_probe := tp, probe := 0,
               snd_queue := (flAd k now).queue, snd_buf := (flX k full now).done, snd_nxt := (flAd k now).nxt,
               state := st, ssthresh := ss, cwnd := cw, incr := inc } := by
  rw [flush_eq]
  simp only []
  obtain ⟨ss, cw, inc, h6⟩ := phase6_frame (flF5 k full now).k (flX k full now).change (flX k full now).lost
    (effWnd (flF3 k now).k) (resentOf (flF4 k now).k)
  rw [h6]
  obtain ⟨pw, tp, pr, hp⟩ := probePhase_frame { k with acklist := [] } now
  have hx := (ext_X k full now).k
  refine ⟨pw, tp, (flX k full now).f.k.state, ss, cw, inc, ?_⟩
  unfold flF5
  simp only []
  rw [hx, flF4_k, hp]

/-! ### phase 4 -/

/-- admission only appends to the send buffer -/
theorem admitSegs_prefix (conv una cwnd now : U32) (q buf : List Seg) (nxt : U32) (c : Nat) :
    ∃ t, (admitSegs conv una cwnd now q buf nxt c).buf = buf ++ t := by
  induction q generalizing buf nxt c with
  | nil => exact ⟨[], by simp [admitSegs]⟩
  | cons s rest ih =>
    unfold admitSegs
    split
    · exact ⟨[], by simp⟩
    · obtain ⟨t, ht⟩ := ih (buf ++ [{ s with conv := conv, cmd := BitVec.ofNat 8 IKCP_CMD_PUSH, sn := nxt, ts := now, resendts := now }]) (nxt + 1) (c + 1)
      exact ⟨[{ s with conv := conv, cmd := BitVec.ofNat 8 IKCP_CMD_PUSH, sn := nxt, ts := now, resendts := now }] ++ t,
        by rw [ht, List.append_assoc]⟩

/-- with a closed window (`nxt` not before `una + cwnd`) nothing is admitted -/
theorem admitSegs_closed (conv una cwnd now : U32) (q buf : List Seg) (nxt : U32) (c : Nat)
    (h : itimediff nxt (una + cwnd) ≥ 0) :
    admitSegs conv una cwnd now q buf nxt c = ⟨q, buf, nxt, c⟩ := by
  cases q with
  | nil => rfl
  | cons s rest => unfold admitSegs; rw [if_pos h]

/-- the fields of the connection at the start of phase 5 -/
theorem flF4_frame (k : Kcp) (now : U32) :
    ∃ pw tp, (flF4 k now).k =
      { k with acklist := [], probe_wait := pw, ts_probe := tp, probe := 0,
               snd_queue := (flAd k now).queue, snd_buf := (flAd k now).buf, snd_nxt := (flAd k now).nxt } := by
  obtain ⟨pw, tp, pr, hp⟩ := probePhase_frame { k with acklist := [] } now
  exact ⟨pw, tp, by rw [flF4_k, hp]⟩

theorem flF3_frame (k : Kcp) (now : U32) :
    ∃ pw tp, (flF3 k now).k = { k with acklist := [], probe_wait := pw, ts_probe := tp, probe := 0 } := by
  obtain ⟨pw, tp, pr, hp⟩ := probePhase_frame { k with acklist := [] } now
  exact ⟨pw, tp, by rw [flF3_k, hp]⟩

theorem flAd_prefix (k : Kcp) (now : U32) : ∃ t, (flAd k now).buf = k.snd_buf ++ t := by
  obtain ⟨pw, tp, h⟩ := flF3_frame k now
  unfold flAd
  obtain ⟨t, ht⟩ := admitSegs_prefix (flF3 k now).k.conv (flF3 k now).k.snd_una (effWnd (flF3 k now).k) now
    (flF3 k now).k.snd_queue (flF3 k now).k.snd_buf (flF3 k now).k.snd_nxt 0
  exact ⟨t, by rw [ht, h]⟩

end KcpVerif.Live
