/-
The core-facing half of `kcpInput` with FEC (`Model/SessFec.lean`) as core operations: the sequence
of `Input` calls `kcpInput` makes for one datagram (`chain`) is

* a run of core operations `Op.input payload regular ackNoDelay now` on the session's core
  (`chain_run`: arbitrary payloads — what the writer's side of `C01_session_fec` may be fed), and
* when every payload is a datagram the peer's core has emitted (or too short to have any effect), a
  sequence of delivery steps `dlv` of the two-core system of `C01_core` (`chain_dlv`).
-/
import KcpVerif.Model.SessFec
import KcpVerif.Props.C01Reduce

namespace KcpVerif.C01
open KcpVerif KcpVerif.Gen KcpVerif.Kcp KcpVerif.Frame KcpVerif.Recv KcpVerif.Send KcpVerif.Wire
open KcpVerif.SessFec

/-- the `Input` calls of one `kcpInput`, as (payload, regular) pairs, applied in order -/
def chain (a : Bool) (now : U32) (c : CoreIn) (calls : List (Bytes × Bool)) : CoreIn :=
  calls.foldl (fun c cl => c.input cl.1 cl.2 a now) c

theorem chain_nil (a : Bool) (now : U32) (c : CoreIn) : chain a now c [] = c := rfl

theorem chain_cons (a : Bool) (now : U32) (c : CoreIn) (cl : Bytes × Bool) (rest : List (Bytes × Bool)) :
    chain a now c (cl :: rest) = chain a now (c.input cl.1 cl.2 a now) rest := rfl

theorem chain_append (a : Bool) (now : U32) (c : CoreIn) (l1 l2 : List (Bytes × Bool)) :
    chain a now c (l1 ++ l2) = chain a now (chain a now c l1) l2 := by
  unfold chain; rw [List.foldl_append]

theorem input_of_panic (c : CoreIn) (d : Bytes) (r a : Bool) (now : U32) (h : c.panic = true) :
    c.input d r a now = c := by
  unfold CoreIn.input; rw [if_pos h]

theorem chain_of_panic (a : Bool) (now : U32) : ∀ (calls : List (Bytes × Bool)) (c : CoreIn), c.panic = true →
    chain a now c calls = c := by
  intro calls
  induction calls with
  | nil => intro c _; rfl
  | cons cl rest ih => intro c h; rw [chain_cons, input_of_panic c _ _ _ _ h]; exact ih c h

theorem input_alive (c : CoreIn) (d : Bytes) (r a : Bool) (now : U32) (h : c.panic = false) :
    (c.input d r a now).k = (input c.k d r a now).k ∧
    (c.input d r a now).outs = c.outs ++ (input c.k d r a now).outs ∧
    (c.input d r a now).panic = (input c.k d r a now).panic := by
  unfold CoreIn.input
  rw [if_neg (by simp [h])]
  exact ⟨rfl, rfl, rfl⟩

theorem feedRecovered_chain (a : Bool) (now : U32) : ∀ (rs : List Bytes) (c : CoreIn),
    feedRecovered a now c rs = chain a now c ((rs.filterMap Fec.trim).map (fun pl => (pl, false))) := by
  intro rs
  induction rs with
  | nil => intro c; rfl
  | cons r rest ih =>
    intro c
    unfold feedRecovered
    cases h : Fec.trim r with
    | none => simp only [List.filterMap_cons, h]; exact ih c
    | some pl => simp only [List.filterMap_cons, h, List.map_cons, chain_cons]; exact ih _

/-- a too short datagram has no effect on the core at all -/
theorem input_short (k : Kcp) (d : Bytes) (r a : Bool) (now : U32) (h : d.length < IKCP_OVERHEAD) :
    input k d r a now = ⟨k, -1, [], false⟩ := by
  rw [input_eq, if_pos h]

theorem admitted_trans (k0 k1 k2 : Kcp) (j1 j2 : Nat) (h1 : j1 ≤ k0.snd_queue.length)
    (e1 : k1.snd_queue = k0.snd_queue.drop j1) (h2 : j2 ≤ k1.snd_queue.length)
    (e2 : k2.snd_queue = k1.snd_queue.drop j2) :
    admitted k0 k2 = admitted k0 k1 ++ admitted k1 k2 ∧ j1 + j2 ≤ k0.snd_queue.length ∧
      k2.snd_queue = k0.snd_queue.drop (j1 + j2) := by
  have hl1 : k1.snd_queue.length = k0.snd_queue.length - j1 := by rw [e1, List.length_drop]
  have e2' : k2.snd_queue = k0.snd_queue.drop (j1 + j2) := by rw [e2, e1, List.drop_drop]
  have hl2 : k2.snd_queue.length = k0.snd_queue.length - (j1 + j2) := by rw [e2', List.length_drop]
  refine ⟨?_, by omega, e2'⟩
  unfold admitted
  rw [hl1, hl2, e1]
  have a1 : k0.snd_queue.length - (k0.snd_queue.length - (j1 + j2)) = j1 + j2 := by omega
  have a2 : k0.snd_queue.length - (k0.snd_queue.length - j1) = j1 := by omega
  have a3 : k0.snd_queue.length - j1 - (k0.snd_queue.length - (j1 + j2)) = j2 := by omega
  rw [a1, a2, a3, List.take_add, List.map_append]

/-- **the `Input` calls of one `kcpInput` as a run of core operations** (arbitrary payloads) -/
theorem chain_run (a : Bool) (now : U32) : ∀ (calls : List (Bytes × Bool)) (c : CoreIn) (g : GSt),
    c.k = g.k → g.dead = false → c.panic = false → (chain a now c calls).panic = false →
    ∃ (X : List Bytes) (j : Nat),
      (chain a now c calls).outs = c.outs ++ X ∧
      (run g (calls.map fun cl => Op.input cl.1 cl.2 a now)).k = (chain a now c calls).k ∧
      (run g (calls.map fun cl => Op.input cl.1 cl.2 a now)).dead = false ∧
      (run g (calls.map fun cl => Op.input cl.1 cl.2 a now)).wire = g.wire ++ X ∧
      (run g (calls.map fun cl => Op.input cl.1 cl.2 a now)).log = g.log ++ admitted c.k (chain a now c calls).k ∧
      j ≤ c.k.snd_queue.length ∧ (chain a now c calls).k.snd_queue = c.k.snd_queue.drop j ∧
      (run g (calls.map fun cl => Op.input cl.1 cl.2 a now)).dl = g.dl ∧
      (run g (calls.map fun cl => Op.input cl.1 cl.2 a now)).got = g.got ∧
      (chain a now c calls).k.mss = c.k.mss := by
  intro calls
  induction calls with
  | nil =>
    intro c g hk hd _ _
    refine ⟨[], 0, by simp [chain_nil], hk.symm, hd, by simp [run], ?_, Nat.zero_le _, rfl, rfl, rfl, rfl⟩
    show g.log = g.log ++ admitted c.k c.k
    rw [admitted_self _ _ rfl, List.append_nil]
  | cons cl rest ih =>
    intro c g hk hd hcp hp
    rw [chain_cons] at hp ⊢
    obtain ⟨i1, i2, i3⟩ := input_alive c cl.1 cl.2 a now hcp
    have hp1 : (c.input cl.1 cl.2 a now).panic = false := by
      cases h : (c.input cl.1 cl.2 a now).panic with
      | false => rfl
      | true => rw [chain_of_panic a now rest _ h] at hp; rw [h] at hp; cases hp
    have hpi : (input g.k cl.1 cl.2 a now).panic = false := by rw [← hk, ← i3]; exact hp1
    have hstep := step_input_alive g cl.1 cl.2 a now hd hpi
    have hk1 : (c.input cl.1 cl.2 a now).k = (step g (.input cl.1 cl.2 a now)).k := by
      rw [hstep, i1, hk]
    obtain ⟨X, j, o1, o2, o3, o4, o5, o6, o7, o8, o9, o10⟩ :=
      ih (c.input cl.1 cl.2 a now) (step g (.input cl.1 cl.2 a now)) hk1 (by rw [hstep]; exact hd) hp1 hp
    obtain ⟨j1, hj1, hq1⟩ := input_queue c.k cl.1 cl.2 a now
    rw [← i1] at hq1
    obtain ⟨t1, t2, t3⟩ := admitted_trans c.k (c.input cl.1 cl.2 a now).k _ j1 j hj1 hq1 o6 o7
    have hrun : run g ((cl :: rest).map fun cl => Op.input cl.1 cl.2 a now) =
        run (step g (.input cl.1 cl.2 a now)) (rest.map fun cl => Op.input cl.1 cl.2 a now) := rfl
    rw [hrun]
    refine ⟨(input c.k cl.1 cl.2 a now).outs ++ X, j1 + j, ?_, o2, o3, ?_, ?_, t2, t3, ?_, ?_, ?_⟩
    · rw [o1, i2, List.append_assoc]
    · rw [o4, hstep]
      show (g.wire ++ (input g.k cl.1 cl.2 a now).outs) ++ X = _
      rw [hk, List.append_assoc]
    · rw [o5, hstep, t1]
      show (g.log ++ admitted g.k (input g.k cl.1 cl.2 a now).k) ++ _ = _
      rw [i1, hk, List.append_assoc]
    · rw [o8, hstep]
    · rw [o9, hstep]
    · rw [o10, i1]; exact (input_cfg _ _ _ _ _).mss

/-- **the `Input` calls of one `kcpInput` as delivery steps of the two-core system**, when every
payload is a datagram the peer's core has emitted or is too short to have any effect -/
theorem chain_dlv (a : Bool) (now : U32) : ∀ (calls : List (Bytes × Bool)) (c : CoreIn) (S : Sys),
    c.k = S.B.k → S.B.dead = false → c.panic = false → (chain a now c calls).panic = false →
    (∀ cl ∈ calls, cl.1 ∈ S.A.wire ∨ cl.1.length < IKCP_OVERHEAD) →
    ∃ (cops : List SOp) (X : List Bytes) (j : Nat), (srun S cops).A = S.A ∧
      (srun S cops).B.k = (chain a now c calls).k ∧
      (srun S cops).B.dead = false ∧ (srun S cops).B.got = S.B.got ∧
      (chain a now c calls).outs = c.outs ++ X ∧ (srun S cops).B.wire = S.B.wire ++ X ∧
      (srun S cops).B.log = S.B.log ++ admitted c.k (chain a now c calls).k ∧
      j ≤ c.k.snd_queue.length ∧ (chain a now c calls).k.snd_queue = c.k.snd_queue.drop j := by
  intro calls
  induction calls with
  | nil =>
    intro c S hk hd _ _ _
    refine ⟨[], [], 0, rfl, hk.symm, hd, rfl, by simp [chain_nil], by simp [srun], ?_, Nat.zero_le _, rfl⟩
    show S.B.log = S.B.log ++ admitted c.k c.k
    rw [admitted_self _ _ rfl, List.append_nil]
  | cons cl rest ih =>
    intro c S hk hd hcp hp hall
    rw [chain_cons] at hp ⊢
    obtain ⟨i1, i2, i3⟩ := input_alive c cl.1 cl.2 a now hcp
    have hp1 : (c.input cl.1 cl.2 a now).panic = false := by
      cases h : (c.input cl.1 cl.2 a now).panic with
      | false => rfl
      | true => rw [chain_of_panic a now rest _ h] at hp; rw [h] at hp; cases hp
    have hrest := fun x hx => hall x (List.mem_cons_of_mem _ hx)
    rcases hall cl (List.mem_cons_self ..) with hw | hs
    · obtain ⟨i, hi⟩ := List.getElem?_of_mem hw
      have hpi : (input S.B.k cl.1 cl.2 a now).panic = false := by rw [← hk, ← i3]; exact hp1
      have hstep := step_input_alive S.B cl.1 cl.2 a now hd hpi
      have e : sstep S (.dlv i cl.2 a now) = { S with B := step S.B (.input cl.1 cl.2 a now) } := by
        simp [sstep, hi]
      obtain ⟨cops, X, j, h1, h2, h3, h4, h5, h6, h7, h8, h9⟩ := ih (c.input cl.1 cl.2 a now) (sstep S (.dlv i cl.2 a now))
        (by rw [e]; show _ = (step S.B _).k; rw [hstep, i1, hk]) (by rw [e]; show (step S.B _).dead = false; rw [hstep]; exact hd)
        hp1 hp (by rw [e]; exact hrest)
      obtain ⟨j1, hj1, hq1⟩ := input_queue c.k cl.1 cl.2 a now
      rw [← i1] at hq1
      obtain ⟨t1, t2, t3⟩ := admitted_trans c.k (c.input cl.1 cl.2 a now).k _ j1 j hj1 hq1 h8 h9
      refine ⟨.dlv i cl.2 a now :: cops, (input c.k cl.1 cl.2 a now).outs ++ X, j1 + j, ?_, h2, h3, ?_, ?_, ?_, ?_, t2, t3⟩
      · show (srun (sstep S (.dlv i cl.2 a now)) cops).A = S.A
        rw [h1, e]
      · show (srun (sstep S (.dlv i cl.2 a now)) cops).B.got = S.B.got
        rw [h4, e]; show (step S.B _).got = _; rw [hstep]
      · rw [h5, i2, List.append_assoc]
      · show (srun (sstep S (.dlv i cl.2 a now)) cops).B.wire = _
        rw [h6, e]; show (step S.B _).wire ++ X = _; rw [hstep]
        show (S.B.wire ++ (input S.B.k cl.1 cl.2 a now).outs) ++ X = _
        rw [hk, List.append_assoc]
      · show (srun (sstep S (.dlv i cl.2 a now)) cops).B.log = _
        rw [h7, e, t1]; show (step S.B _).log ++ _ = _; rw [hstep]
        show (S.B.log ++ admitted S.B.k (input S.B.k cl.1 cl.2 a now).k) ++ _ = _
        rw [i1, hk, List.append_assoc]
    · have hin := input_short c.k cl.1 cl.2 a now hs
      have hk1 : (c.input cl.1 cl.2 a now).k = c.k := by rw [i1, hin]
      have ho1 : (c.input cl.1 cl.2 a now).outs = c.outs := by rw [i2, hin]; simp
      obtain ⟨cops, X, j, h1, h2, h3, h4, h5, h6, h7, h8, h9⟩ :=
        ih (c.input cl.1 cl.2 a now) S (hk1.trans hk) hd hp1 hp hrest
      rw [hk1] at h7 h8 h9
      rw [ho1] at h5
      exact ⟨cops, X, j, h1, h2, h3, h4, h5, h6, h7, h8, h9⟩

end KcpVerif.C01
