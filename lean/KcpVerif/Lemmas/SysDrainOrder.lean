/-
B is never behind A's head when its delivery queue is not full (C02, repaired model): the reorder buffer
of B is sorted and starts at or after `rcv_nxt` (`SortedB`, an invariant of every event), the move loop
is at its fixpoint (`Live.MoveFix`), and B has everything below A's `snd_una` (`Cons.arel`) — so if
`rcv_nxt` were behind `snd_una`, the segment `rcv_nxt` would be the head of the reorder buffer and the
queue would be full.
-/
import KcpVerif.Lemmas.SysDrainHead3
import KcpVerif.Lemmas.KcpMove

namespace KcpVerif.SysC
open KcpVerif KcpVerif.Gen KcpVerif.Kcp KcpVerif.Live KcpVerif.Wire KcpVerif.SysW KcpVerif.Sys

def SortedB (base : U32) (k : Kcp) : Prop :=
  k.rcv_buf.Pairwise (fun a b => o base a.sn < o base b.sn) ∧ ∀ x ∈ k.rcv_buf, o base k.rcv_nxt ≤ o base x.sn

theorem heapInsert_sorted (base : U32) (N : Nat) (hN : N < 2 ^ 31) (s : Seg) (hs : o base s.sn < N) : ∀ (l : List Seg),
    l.Pairwise (fun a b => o base a.sn < o base b.sn) → (∀ x ∈ l, o base x.sn < N) → (∀ x ∈ l, x.sn ≠ s.sn) →
    (heapInsert s l).Pairwise (fun a b => o base a.sn < o base b.sn) := by
  intro l
  induction l with
  | nil => intro _ _ _; unfold heapInsert; exact List.pairwise_singleton _ _
  | cons h t ih =>
    intro hp hb hne
    have hp' := List.pairwise_cons.mp hp
    have hi := itd base h.sn s.sn (by have := hb h (List.mem_cons_self ..); omega) (by omega)
    unfold heapInsert
    split
    · apply List.pairwise_cons.mpr
      refine ⟨fun x hx => ?_, hp⟩
      rcases List.mem_cons.mp hx with rfl | hx
      · omega
      · have := hp'.1 x hx; omega
    · apply List.pairwise_cons.mpr
      refine ⟨fun x hx => ?_, ih hp'.2 (fun x hx => hb x (List.mem_cons_of_mem _ hx))
        (fun x hx => hne x (List.mem_cons_of_mem _ hx))⟩
      rcases (Recv.mem_heapInsert s x t).mp hx with rfl | hx
      · have : o base h.sn ≠ o base x.sn := fun c => hne h (List.mem_cons_self ..) (o_inj base _ _ c)
        omega
      · exact hp'.1 x hx

theorem moveLoop_sorted (base : U32) (W N : Nat) (hN : N < 2 ^ 31) : ∀ (buf q : List Seg) (nxt : U32),
    buf.Pairwise (fun a b => o base a.sn < o base b.sn) → (∀ x ∈ buf, o base nxt ≤ o base x.sn) →
    (∀ x ∈ buf, o base x.sn < N) →
    (moveLoop W buf q nxt).buf.Pairwise (fun a b => o base a.sn < o base b.sn) ∧
    ∀ x ∈ (moveLoop W buf q nxt).buf, o base (moveLoop W buf q nxt).nxt ≤ o base x.sn := by
  intro buf
  induction buf with
  | nil => intro q nxt _ _ _; exact ⟨List.Pairwise.nil, fun x hx => by simp [moveLoop] at hx⟩
  | cons s rest ih =>
    intro q nxt hp hge hb
    have hp' := List.pairwise_cons.mp hp
    unfold moveLoop
    split
    · rename_i hc
      have hsb := hb s (List.mem_cons_self ..)
      have h1 := o_succ base nxt (by rw [← hc.1]; omega)
      exact ih (q ++ [s]) (nxt + 1) hp'.2 (fun x hx => by have := hp'.1 x hx; rw [hc.1] at this; omega)
        (fun x hx => hb x (List.mem_cons_of_mem _ hx))
    · exact ⟨hp, hge⟩

theorem moveReady_sortedB (base : U32) (N : Nat) (hN : N < 2 ^ 31) (k : Kcp) (hs : SortedB base k)
    (hb : ∀ x ∈ k.rcv_buf, o base x.sn < N) : SortedB base (moveReady k) :=
  moveLoop_sorted base k.rcv_wnd.toNat N hN k.rcv_buf k.rcv_queue k.rcv_nxt hs.1 hs.2 hb

theorem parseData_cases2 (k : Kcp) (seg : Seg)
    (h1 : ¬ (itimediff seg.sn (k.rcv_nxt + k.rcv_wnd) ≥ 0 ∨ itimediff seg.sn k.rcv_nxt < 0))
    (hl : seg.data.length ≤ mtuLimit) :
    parseData k seg = ⟨moveReady k, true, false⟩ ∨
    ((∀ x ∈ k.rcv_buf, x.sn ≠ seg.sn) ∧
      parseData k seg = ⟨moveReady { k with rcv_buf := heapInsert seg k.rcv_buf }, false, false⟩) := by
  unfold parseData
  rw [if_neg h1]
  split
  · exact Or.inl rfl
  · rename_i hd
    rw [if_neg (by omega)]
    refine Or.inr ⟨fun x hx hc => hd ?_, rfl⟩
    exact List.any_eq_true.mpr ⟨x, hx, by simpa using hc⟩

/-- one genuine frame from the sender keeps B's reorder buffer sorted -/
theorem inFr_sortedB (base : U32) (N : Nat) (hN : N < 2 ^ 31) (st : InLoop) (fr : Frm) (hsb : st.k.snd_buf = [])
    (hdl : DataLike fr) (hsn : fr.cmd.toNat = IKCP_CMD_PUSH → o base fr.sn < N)
    (h2 : o base st.k.rcv_nxt ≤ N) (h3 : ∀ x ∈ st.k.rcv_buf, o base x.sn < N) (hs : SortedB base st.k) :
    SortedB base (inFr true st fr).k := by
  obtain ⟨hpre, _⟩ := inPre_empty fr.wnd fr.una st.k hsb
  have hPs : SortedB base (inPre true fr.wnd fr.una st.k) := by rw [hpre]; exact hs
  have hPn : (inPre true fr.wnd fr.una st.k).rcv_nxt = st.k.rcv_nxt := by rw [hpre]
  have hPb : (inPre true fr.wnd fr.una st.k).rcv_buf = st.k.rcv_buf := by rw [hpre]
  unfold inFr
  rw [inStep_k]
  generalize inPre true fr.wnd fr.una st.k = K1 at hPs hPn hPb ⊢
  have hb1 : ∀ x ∈ K1.rcv_buf, o base x.sn < N := by rw [hPb]; exact h3
  by_cases hc : fr.cmd.toNat = IKCP_CMD_PUSH
  · have hnA : ¬ fr.cmd.toNat = IKCP_CMD_ACK := by rw [hc]; decide
    rw [if_neg hnA, if_pos hc]
    split
    · rename_i hin
      split
      · rename_i hge
        have hfirst : ¬ (itimediff (pushSeg fr.conv fr.cmd fr.frg fr.wnd fr.ts fr.sn fr.una fr.data).sn
            (({ K1 with acklist := K1.acklist ++ [⟨fr.sn, fr.ts⟩] } : Kcp).rcv_nxt +
              ({ K1 with acklist := K1.acklist ++ [⟨fr.sn, fr.ts⟩] } : Kcp).rcv_wnd) ≥ 0 ∨
            itimediff (pushSeg fr.conv fr.cmd fr.frg fr.wnd fr.ts fr.sn fr.una fr.data).sn
              ({ K1 with acklist := K1.acklist ++ [⟨fr.sn, fr.ts⟩] } : Kcp).rcv_nxt < 0) := by
          show ¬ (itimediff fr.sn (K1.rcv_nxt + K1.rcv_wnd) ≥ 0 ∨ itimediff fr.sn K1.rcv_nxt < 0)
          omega
        rcases parseData_cases2 { K1 with acklist := K1.acklist ++ [⟨fr.sn, fr.ts⟩] }
          (pushSeg fr.conv fr.cmd fr.frg fr.wnd fr.ts fr.sn fr.una fr.data) hfirst hdl.2 with hpd | ⟨hnd, hpd⟩
        · rw [hpd]
          exact moveReady_sortedB base N hN _ hPs hb1
        · rw [hpd]
          have hsn' : o base fr.sn < N := hsn hc
          have hlo : o base K1.rcv_nxt ≤ o base fr.sn := by
            have := itd base fr.sn K1.rcv_nxt (by omega) (by rw [hPn]; omega)
            omega
          have hmem : ∀ x ∈ heapInsert (pushSeg fr.conv fr.cmd fr.frg fr.wnd fr.ts fr.sn fr.una fr.data) K1.rcv_buf,
              o base x.sn < N ∧ o base K1.rcv_nxt ≤ o base x.sn := by
            intro x hx
            rcases (Recv.mem_heapInsert _ x _).mp hx with rfl | hx
            · exact ⟨hsn', hlo⟩
            · exact ⟨hb1 x hx, hPs.2 x hx⟩
          apply moveReady_sortedB base N hN
          · exact ⟨heapInsert_sorted base N hN _ hsn' K1.rcv_buf hPs.1 hb1 hnd, fun x hx => (hmem x hx).2⟩
          · exact fun x hx => (hmem x hx).1
      · exact hPs
    · exact hPs
  · have hnA : ¬ fr.cmd.toNat = IKCP_CMD_ACK := by
      have := hdl.1.resolve_left hc
      unfold IKCP_CMD_ACK; unfold IKCP_CMD_WASK IKCP_CMD_WINS at this; omega
    rw [if_neg hnA, if_neg hc]
    split
    · exact hPs
    · exact hPs

theorem inFrs_sortedB (base : U32) (N : Nat) (hN : N < 2 ^ 31) (frs : List Frm) : ∀ (st : InLoop),
    st.k.snd_buf = [] → (∀ fr ∈ frs, DataLike fr ∧ (fr.cmd.toNat = IKCP_CMD_PUSH → o base fr.sn < N)) →
    o base st.k.rcv_nxt ≤ N → (∀ x ∈ st.k.rcv_buf, o base x.sn < N) → st.panic = false → SortedB base st.k →
    SortedB base (inFrs true frs st).k := by
  induction frs with
  | nil => intro st _ _ _ _ _ hs; exact hs
  | cons f rest ih =>
    intro st h1 hall h2 h3 hp hs
    obtain ⟨hdl, hsn⟩ := hall f (List.mem_cons_self ..)
    obtain ⟨s1, s2⟩ := inFr_rcv_gen base N hN st f h1 hdl hsn h2 h3 hp
    have hs1 := inFr_sortedB base N hN st f h1 hdl hsn h2 h3 hs
    unfold inFrs
    rw [if_neg (by rw [s2]; simp)]
    exact ih (inFr true st f) s1.sb (fun x hx => hall x (List.mem_cons_of_mem _ hx)) s1.hi s1.bnd s2 hs1

theorem recv_sortedB (base : U32) (N : Nat) (hN : N < 2 ^ 31) (k : Kcp) (n : Nat) (hs : SortedB base k)
    (hb : ∀ x ∈ k.rcv_buf, o base x.sn < N) : SortedB base (recv k n).k := by
  unfold recv
  simp only []
  split; · exact hs
  split; · exact hs
  have hM := moveReady_sortedB base N hN { k with rcv_queue := (popMsg k.rcv_queue).rest } hs hb
  split
  · exact hM
  · exact hM

/-- **B's reorder buffer stays sorted** under every event of the closed system -/
theorem sortedB_step {p : Par} {s : State} {gab gba : GLink} (h : Cons p s gab gba) (hnw : NoWrap p.base s)
    (hs : SortedB p.base s.B) (ev : Ev) : SortedB p.base (Sys.step s ev).B := by
  have hnw' := hnw
  unfold NoWrap at hnw'
  have hN : o p.base s.A.snd_nxt < 2 ^ 31 := by omega
  cases ev with
  | tick =>
    rw [show Sys.step s .tick = (if quiet s then { s with now := s.now + 1 } else s) from rfl]
    split <;> exact hs
  | send b => exact hs
  | read =>
    rw [show Sys.step s .read = (if (s.B.recv s.B.peekSize.toNat).n < 0 then s
      else { s with B := (s.B.recv s.B.peekSize.toNat).k, got := s.got ++ (s.B.recv s.B.peekSize.toNat).data }) from rfl]
    split
    · exact hs
    · exact recv_sortedB p.base _ hN s.B _ hs h.bbuf
  | flushA => exact hs
  | flushB =>
    obtain ⟨pw, tp, st, ss, cw, inc, hk⟩ := flush_frame s.B true (clk s.now)
    show SortedB p.base (s.B.flush true (clk s.now)).k
    unfold SortedB
    rw [hk]; exact hs
  | dlvA =>
    cases hba : s.ba with
    | nil =>
      have : Sys.step s .dlvA = s := by simp only [Sys.step, hba]
      rw [this]; exact hs
    | cons d rest =>
      rw [step_dlvA_cons s _ _ hba]
      split <;> exact hs
  | dlvB =>
    cases gab with
    | nil =>
      have : Sys.step s .dlvB = s := by simp only [Sys.step, h.hab, encL, List.map_nil]
      rw [this]; exact hs
    | cons d0 grest =>
      obtain ⟨t0, frs⟩ := d0
      have hab : s.ab = ⟨t0, encFrames frs⟩ :: encL grest := h.hab
      rw [step_dlvB_cons s _ _ hab]
      split
      · show SortedB p.base (s.B.input (encFrames frs) true s.ndB (clk s.now)).k
        have hd0 : ((t0, frs) : Nat × List Frm) ∈ (t0, frs) :: grest := List.mem_cons_self ..
        have hv : ∀ fr ∈ frs, FrValid s.B.conv fr := by
          intro fr hfr
          obtain ⟨e1, e2, _⟩ := h.fab (t0, frs) hd0 fr hfr
          refine ⟨by rw [e1, h.bconv], ?_, e2.2⟩
          unfold Live.validCmd
          rcases e2.1 with e | e | e
          · exact Or.inl e
          · exact Or.inr (Or.inr (Or.inl e))
          · exact Or.inr (Or.inr (Or.inr e))
        have hall : ∀ fr ∈ frs, DataLike fr ∧ (fr.cmd.toNat = IKCP_CMD_PUSH → o p.base fr.sn < o p.base s.A.snd_nxt) :=
          fun fr hfr => ⟨(h.fab (t0, frs) hd0 fr hfr).2.1, (h.fab (t0, frs) hd0 fr hfr).2.2⟩
        obtain ⟨r1, r2, r3, r4, r5⟩ := inFrs_rcv_gen p.base (o p.base s.A.snd_nxt) hN frs { k := s.B } h.bsb hall h.bub h.bbuf rfl
        have hsl := inFrs_sortedB p.base (o p.base s.A.snd_nxt) hN frs { k := s.B } h.bsb hall h.bub h.bbuf rfl hs
        obtain ⟨cw, inc, hcw⟩ := cwndOnAck_shape' (inFrs true frs { k := s.B }).k s.B.snd_una
        have hK2 : SortedB p.base (cwndOnAck (inFrs true frs { k := s.B }).k s.B.snd_una) := by
          unfold SortedB; rw [hcw]; exact hsl
        rcases inputB_cases s.B frs s.ndB (clk s.now) hv r2 r3 r4 r5 with hin | hin | ⟨rfl, hin⟩
        · rw [hin]; exact hK2
        · rw [hin]
          obtain ⟨pw, tp, st, ss, cw', inc', hk⟩ := flush_frame (cwndOnAck (inFrs true frs { k := s.B }).k s.B.snd_una) false (clk s.now)
          show SortedB p.base (flush _ false (clk s.now)).k
          unfold SortedB at hK2 ⊢
          rw [hk]; exact hK2
        · rw [hin]; exact hs
      · exact hs

/-- the fixpoint of the move loop is kept by every event -/
theorem fix_step (s : State) (h : MoveFix s.B) (ev : Ev) : MoveFix (Sys.step s ev).B := by
  cases ev with
  | tick =>
    rw [show Sys.step s .tick = (if quiet s then { s with now := s.now + 1 } else s) from rfl]
    split <;> exact h
  | send b => exact h
  | read =>
    rw [show Sys.step s .read = (if (s.B.recv s.B.peekSize.toNat).n < 0 then s
      else { s with B := (s.B.recv s.B.peekSize.toNat).k, got := s.got ++ (s.B.recv s.B.peekSize.toNat).data }) from rfl]
    split
    · exact h
    · exact recv_fix s.B _ h
  | flushA => exact h
  | flushB => exact MoveFix.of_same (flush_rcv s.B true (clk s.now)) h
  | dlvA =>
    cases hba : s.ba with
    | nil =>
      have : Sys.step s .dlvA = s := by simp only [Sys.step, hba]
      rw [this]; exact h
    | cons d rest =>
      rw [step_dlvA_cons s _ _ hba]
      split <;> exact h
  | dlvB =>
    cases hab : s.ab with
    | nil =>
      have : Sys.step s .dlvB = s := by simp only [Sys.step, hab]
      rw [this]; exact h
    | cons d rest =>
      rw [step_dlvB_cons s _ _ hab]
      split
      · exact input_fix s.B d.data true s.ndB (clk s.now) h
      · exact h

/-- **B is not behind A's head** whenever its delivery queue is not full -/
theorem not_behind {p : Par} {s : State} {gab gba : GLink} (h : Cons p s gab gba) (hs : SortedB p.base s.B)
    (hf : MoveFix s.B) (hq : s.B.rcv_queue.length < s.B.rcv_wnd.toNat) :
    o p.base s.A.snd_una ≤ o p.base s.B.rcv_nxt := by
  rcases Nat.lt_or_ge (o p.base s.B.rcv_nxt) (o p.base s.A.snd_una) with hlt | hge
  · exfalso
    rcases h.arel s.B.rcv_nxt hlt with h1 | ⟨x, hx, hxs⟩
    · omega
    · cases hb : s.B.rcv_buf with
      | nil => rw [hb] at hx; simp at hx
      | cons y t =>
        have hy : y.sn = s.B.rcv_nxt := by
          rw [hb] at hx
          rcases List.mem_cons.mp hx with rfl | hx
          · exact hxs
          · exfalso
            have h1 := hs.1
            rw [hb] at h1
            have := (List.pairwise_cons.mp h1).1 x hx
            have := hs.2 y (by rw [hb]; exact List.mem_cons_self ..)
            rw [hxs] at *
            omega
        have := hf y t hb hy
        omega
  · exact hge

/-- the three facts about the two cores that every event keeps and that the progress step uses beside `Cons` -/
structure Side (base : U32) (s : State) : Prop where
  live : LiveInv s.A
  srt  : SortedB base s.B
  fix  : MoveFix s.B

theorem side_netStep {p : Par} {s : State} {gab gba : GLink} (h : Cons p s gab gba) (hnw : NoWrap p.base s)
    (hs : Side p.base s) (ev : NetEv) : Side p.base (netStep s ev) := by
  cases ev with
  | fair ev => exact ⟨live_step s hs.live ev, sortedB_step h hnw hs.srt ev, fix_step s hs.fix ev⟩
  | shuffle ab' ba' =>
    show Side p.base (if (ab'.all fun d => decide (d ∈ s.ab)) && (ba'.all fun d => decide (d ∈ s.ba))
      then shuffle s ab' ba' else s)
    split
    · exact ⟨hs.live, hs.srt, hs.fix⟩
    · exact hs

/-- after ANY history from two fresh cores: `Cons` and `Side` -/
theorem cons_side_netRun {p : Par} (evs : List NetEv) : ∀ (s : State) (gab gba : GLink), Cons p s gab gba → Side p.base s →
    NetNoWrap p.base s evs → ∃ gab' gba', Cons p (netRun s evs) gab' gba' ∧ Side p.base (netRun s evs) := by
  induction evs with
  | nil => intro s gab gba h hs _; exact ⟨gab, gba, h, hs⟩
  | cons ev rest ih =>
    intro s gab gba h hs hr
    obtain ⟨gab', gba', hc⟩ := cons_netStep h hr.1 ev
    exact ih _ gab' gba' hc (side_netStep h hr.1 hs ev) hr.2

theorem side_init (A B : Kcp) (D t0 : Nat) (ndA ndB : Bool) (h : ConsInit A B) :
    Side A.snd_nxt (Sys.init A B D t0 ndA ndB) := by
  obtain ⟨_, _, _, _, h5, h6, h7, _, _, h10, _, _⟩ := h
  refine ⟨⟨?_, ?_⟩, ⟨?_, ?_⟩, ?_⟩
  · show HeadLive A
    unfold HeadLive; rw [h5]; exact h7
  · show ∀ x ∈ A.snd_queue, _
    rw [h6]; intro x hx; simp at hx
  · show B.rcv_buf.Pairwise _
    rw [h10]; exact List.Pairwise.nil
  · show ∀ x ∈ B.rcv_buf, _
    rw [h10]; intro x hx; simp at hx
  · show MoveFix B
    unfold MoveFix; rw [h10]; intro x r hc; cases hc

end KcpVerif.SysC
