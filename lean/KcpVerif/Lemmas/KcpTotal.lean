/-
C05 (protocol core): the invariant `InvK` under which no operation of the core panics, and the
lemmas about the flush buffer (`Fl`) and the list loops that the totality proofs need.

Nothing here changes the model: every statement is about the definitions of `Model/Kcp.lean`.
-/
import KcpVerif.Model.Kcp

namespace KcpVerif.Total
open KcpVerif KcpVerif.Gen KcpVerif.Kcp

/-! ### the invariant -/

/-- every segment's payload is at most `m` bytes -/
def DataLe (m : Nat) (l : List Seg) : Prop := ∀ s ∈ l, s.data.length ≤ m

instance (m : Nat) (l : List Seg) : Decidable (DataLe m l) := by unfold DataLe; infer_instance

/-- The state invariant of C05.  All conjuncts are decidable.
* the MTU leaves room for a header, `mss = mtu − 24`, and a full segment fits a pool buffer;
* the flush buffer has the size `NewKCP`/`SetMtu` give it;
* every segment waiting to be sent fits one MTU together with its header;
* every received segment fits a pool buffer. -/
structure InvK (k : Kcp) : Prop where
  mtu_gt : IKCP_OVERHEAD < k.mtu.toNat
  mss_eq : k.mss.toNat + IKCP_OVERHEAD = k.mtu.toNat
  mss_le : k.mss.toNat ≤ mtuLimit
  buf_eq : k.bufLen = (k.mtu.toNat + IKCP_OVERHEAD) * 3
  sndq   : DataLe k.mss.toNat k.snd_queue
  sndb   : DataLe k.mss.toNat k.snd_buf
  rcvb   : DataLe mtuLimit k.rcv_buf
  rcvq   : DataLe mtuLimit k.rcv_queue

theorem invK_iff (k : Kcp) : InvK k ↔
    (IKCP_OVERHEAD < k.mtu.toNat ∧ k.mss.toNat + IKCP_OVERHEAD = k.mtu.toNat ∧ k.mss.toNat ≤ mtuLimit ∧
     k.bufLen = (k.mtu.toNat + IKCP_OVERHEAD) * 3 ∧ DataLe k.mss.toNat k.snd_queue ∧
     DataLe k.mss.toNat k.snd_buf ∧ DataLe mtuLimit k.rcv_buf ∧ DataLe mtuLimit k.rcv_queue) :=
  ⟨fun h => ⟨h.1, h.2, h.3, h.4, h.5, h.6, h.7, h.8⟩,
   fun h => ⟨h.1, h.2.1, h.2.2.1, h.2.2.2.1, h.2.2.2.2.1, h.2.2.2.2.2.1, h.2.2.2.2.2.2.1, h.2.2.2.2.2.2.2⟩⟩

instance (k : Kcp) : Decidable (InvK k) := decidable_of_iff _ (invK_iff k).symm

/-- `InvK` only reads these eight fields -/
theorem InvK.congr {k k' : Kcp} (h : InvK k)
    (h1 : k'.mtu = k.mtu) (h2 : k'.mss = k.mss) (h3 : k'.bufLen = k.bufLen)
    (h4 : DataLe k.mss.toNat k'.snd_queue) (h5 : DataLe k.mss.toNat k'.snd_buf)
    (h6 : DataLe mtuLimit k'.rcv_buf) (h7 : DataLe mtuLimit k'.rcv_queue) : InvK k' := by
  constructor
  · rw [h1]; exact h.mtu_gt
  · rw [h1, h2]; exact h.mss_eq
  · rw [h2]; exact h.mss_le
  · rw [h1, h3]; exact h.buf_eq
  · rw [h2]; exact h4
  · rw [h2]; exact h5
  · exact h6
  · exact h7

/-- the form of `mss = mtu − 24` used by the Go code (`kcp.mss = kcp.mtu - IKCP_OVERHEAD`) -/
theorem InvK.mss_bv {k : Kcp} (h : InvK k) : k.mss = k.mtu - u32 IKCP_OVERHEAD := by
  have h1 := h.mtu_gt; have h2 := h.mss_eq
  unfold u32 IKCP_OVERHEAD at *
  bv_omega

/-- the flush buffer is at least three MTUs long -/
theorem InvK.buf_ge {k : Kcp} (h : InvK k) : k.mtu.toNat ≤ k.bufLen := by
  rw [h.buf_eq]; omega

/-! ### `DataLe` through the list operations of the model -/

theorem DataLe.nil (m : Nat) : DataLe m [] := by intro s hs; cases hs

theorem DataLe.cons {m : Nat} {s : Seg} {l : List Seg} (hs : s.data.length ≤ m) (hl : DataLe m l) :
    DataLe m (s :: l) := by
  intro x hx
  rcases List.mem_cons.mp hx with rfl | hx
  · exact hs
  · exact hl x hx

theorem DataLe.head {m : Nat} {s : Seg} {l : List Seg} (h : DataLe m (s :: l)) : s.data.length ≤ m :=
  h s (List.mem_cons_self ..)

theorem DataLe.tail {m : Nat} {s : Seg} {l : List Seg} (h : DataLe m (s :: l)) : DataLe m l :=
  fun x hx => h x (List.mem_cons_of_mem _ hx)

theorem DataLe.append {m : Nat} {a b : List Seg} (ha : DataLe m a) (hb : DataLe m b) : DataLe m (a ++ b) := by
  intro x hx
  rcases List.mem_append.mp hx with hx | hx
  · exact ha x hx
  · exact hb x hx

theorem DataLe.sublist {m : Nat} {a b : List Seg} (hb : DataLe m b) (h : ∀ x ∈ a, x ∈ b) : DataLe m a :=
  fun x hx => hb x (h x hx)

theorem DataLe.drop {m : Nat} {l : List Seg} (h : DataLe m l) (n : Nat) : DataLe m (l.drop n) :=
  h.sublist (fun _ hx => List.mem_of_mem_drop hx)

theorem DataLe.dropLast {m : Nat} {l : List Seg} (h : DataLe m l) : DataLe m l.dropLast :=
  h.sublist (fun _ hx => List.dropLast_subset l hx)

theorem DataLe.mono {m n : Nat} {l : List Seg} (h : DataLe m l) (hmn : m ≤ n) : DataLe n l :=
  fun x hx => Nat.le_trans (h x hx) hmn

/-- a list with the same payloads satisfies the same bound -/
theorem DataLe.of_map_eq {m : Nat} {a b : List Seg} (hb : DataLe m b)
    (h : a.map (·.data) = b.map (·.data)) : DataLe m a := by
  intro x hx
  have : x.data ∈ b.map (·.data) := by rw [← h]; exact List.mem_map_of_mem hx
  rcases List.mem_map.mp this with ⟨y, hy, hxy⟩
  rw [← hxy]; exact hb y hy

/-! ### the flush buffer -/

theorem encodeHdr_length (conv : U32) (cmd frg : BitVec 8) (wnd : BitVec 16) (ts sn una : U32) (len : Nat) :
    (encodeHdr conv cmd frg wnd ts sn una len).length = IKCP_OVERHEAD := by
  simp [encodeHdr, le32, le16, IKCP_OVERHEAD]

/-- loop invariant of `flush` on its buffer state: no failure so far, the pending bytes fit one
MTU, the MTU has room for a header, and the buffer is at least one MTU long. -/
structure FlOk (f : Fl) : Prop where
  nopanic : f.panic = false
  cur_le  : f.cur.length ≤ f.k.mtu.toNat
  mtu_ge  : IKCP_OVERHEAD ≤ f.k.mtu.toNat
  buf_ge  : f.k.mtu.toNat ≤ f.k.bufLen

theorem FlOk.congr_k {f : Fl} (h : FlOk f) (k' : Kcp) (h1 : k'.mtu = f.k.mtu) (h2 : k'.bufLen = f.k.bufLen) :
    FlOk { f with k := k' } :=
  ⟨h.nopanic, by simpa only [h1] using h.cur_le, by simpa only [h1] using h.mtu_ge,
   by simpa only [h1, h2] using h.buf_ge⟩

theorem makeSpace_k (f : Fl) (n : Nat) : (f.makeSpace n).k = f.k := by
  unfold Fl.makeSpace; split <;> rfl

theorem makeSpace_panic (f : Fl) (n : Nat) : (f.makeSpace n).panic = f.panic := by
  unfold Fl.makeSpace; split <;> rfl

theorem makeSpace_room (f : Fl) (n : Nat) (hn : n ≤ f.k.mtu.toNat) :
    (f.makeSpace n).cur.length + n ≤ f.k.mtu.toNat := by
  unfold Fl.makeSpace
  split
  · simpa using hn
  · omega

theorem putHdr_k (f : Fl) (h : Bytes) : (f.putHdr h).k = f.k := by
  unfold Fl.putHdr; split <;> rfl

theorem putData_k (f : Fl) (d : Bytes) : (f.putData d).k = f.k := by
  unfold Fl.putData; split <;> rfl

/-- one control header (ACK / WASK / WINS) written after `makeSpace(24)` -/
theorem FlOk.hdr {f : Fl} (h : FlOk f) (hd : Bytes) (hl : hd.length = IKCP_OVERHEAD) :
    FlOk ((f.makeSpace IKCP_OVERHEAD).putHdr hd) ∧ ((f.makeSpace IKCP_OVERHEAD).putHdr hd).k = f.k := by
  have hk := makeSpace_k f IKCP_OVERHEAD
  have hp := makeSpace_panic f IKCP_OVERHEAD
  have hr := makeSpace_room f IKCP_OVERHEAD h.mtu_ge
  have hb := h.buf_ge
  generalize f.makeSpace IKCP_OVERHEAD = g at *
  unfold Fl.putHdr
  rw [if_neg (by rw [hk]; omega)]
  refine ⟨⟨?_, ?_, ?_, ?_⟩, hk⟩
  · exact hp.trans h.nopanic
  · simp only [List.length_append, hk, hl]; omega
  · simp only [hk]; exact h.mtu_ge
  · simp only [hk]; exact hb

/-- one data segment (header + payload) written after `makeSpace(24 + len)` -/
theorem FlOk.seg {f : Fl} (h : FlOk f) (hd d : Bytes) (hl : hd.length = IKCP_OVERHEAD)
    (hfit : IKCP_OVERHEAD + d.length ≤ f.k.mtu.toNat) :
    FlOk (((f.makeSpace (IKCP_OVERHEAD + d.length)).putHdr hd).putData d) ∧
    (((f.makeSpace (IKCP_OVERHEAD + d.length)).putHdr hd).putData d).k = f.k := by
  have hk := makeSpace_k f (IKCP_OVERHEAD + d.length)
  have hp := makeSpace_panic f (IKCP_OVERHEAD + d.length)
  have hr := makeSpace_room f (IKCP_OVERHEAD + d.length) hfit
  have hb := h.buf_ge
  generalize f.makeSpace (IKCP_OVERHEAD + d.length) = g at *
  unfold Fl.putHdr
  rw [if_neg (by rw [hk]; omega)]
  unfold Fl.putData
  simp only [List.length_append, hk, hl]
  rw [if_neg (by omega)]
  refine ⟨⟨?_, ?_, ?_, ?_⟩, rfl⟩
  · exact hp.trans h.nopanic
  · simp only [List.length_append, hl]; omega
  · exact h.mtu_ge
  · exact hb

end KcpVerif.Total
