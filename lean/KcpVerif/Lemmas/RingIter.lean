import KcpVerif.Lemmas.Ring
/-!
Second half of the ring-buffer lemmas: `Rep r q ↔ WF r ∧ abs r = q`, the iterators against the
list-level specification `mapUntil`, and the op language used by `C20_ring_is_queue`.
-/
namespace KcpVerif
open KcpVerif.Gen

namespace Ring
variable {α β σ : Type}

/-! ### `Rep` is `WF` + `abs` -/

theorem filterMap_id_map_some (q : List α) : (q.map some).filterMap id = q := by
  induction q with
  | nil => rfl
  | cons a q ih => simp [ih]

theorem eq_map_some_of_forall_isSome (l : List (Option α)) (h : ∀ x ∈ l, ∃ a, x = some a) :
    l = (l.filterMap id).map some := by
  induction l with
  | nil => rfl
  | cons x l ih =>
    obtain ⟨a, rfl⟩ := h x (by simp)
    have := ih (fun y hy => h y (by simp [hy]))
    simp only [List.filterMap_cons, id, List.map_cons]
    rw [← this]

/-- the logical position of a live physical index -/
theorem exists_idx_of_live {r : Ring α} (hh : r.head < r.size) (_ht : r.tail < r.size) {i : Nat}
    (hi : i < r.size) (hl : r.Live i) : ∃ k, k < r.len ∧ r.idx k = i := by
  rw [live_iff] at hl
  have hl' := len_spec r
  by_cases hc : r.head ≤ i
  · refine ⟨i - r.head, by omega, ?_⟩
    have := idx_spec r (i - r.head); omega
  · refine ⟨i + r.size - r.head, by omega, ?_⟩
    have := idx_spec r (i + r.size - r.head); omega

theorem live_idx {r : Ring α} (hh : r.head < r.size) (ht : r.tail < r.size) {k : Nat} (hk : k < r.len) :
    r.idx k < r.size ∧ r.Live (r.idx k) := by
  rw [live_iff]
  have := len_spec r
  have := idx_spec r k
  omega

theorem Rep.liveSlots {r : Ring α} {q : List α} (h : Rep r q) : r.liveSlots = q.map some := by
  apply List.ext_getElem?
  intro k
  by_cases hk : k < q.length
  · rw [getElem?_liveSlots h.head_lt h.tail_lt (by rw [h.len_eq]; exact hk), h.live k hk]
    simp [List.getElem?_eq_getElem hk]
  · rw [List.getElem?_eq_none, List.getElem?_eq_none]
    · simp; omega
    · rw [length_liveSlots h.head_lt h.tail_lt, h.len_eq]; omega

theorem Rep.abs {r : Ring α} {q : List α} (h : Rep r q) : r.abs = q := by
  unfold Ring.abs; rw [h.liveSlots, filterMap_id_map_some]

theorem Rep.wf {r : Ring α} {q : List α} (h : Rep r q) : WF r := by
  refine ⟨h.size_ge, h.head_lt, h.tail_lt, h.dead, ?_⟩
  intro i hi hl
  obtain ⟨k, hk, rfl⟩ := exists_idx_of_live h.head_lt h.tail_lt hi hl
  rw [h.len_eq] at hk
  refine ⟨q[k], ?_⟩
  rw [h.live k hk]; simp [hk]

theorem WF.rep {r : Ring α} (h : WF r) : Rep r r.abs := by
  have hls : r.liveSlots = r.abs.map some := by
    apply eq_map_some_of_forall_isSome
    intro x hx
    obtain ⟨k, hk, rfl⟩ := List.getElem_of_mem hx
    rw [length_liveSlots h.head_lt h.tail_lt] at hk
    have hg := getElem?_liveSlots h.head_lt h.tail_lt hk
    obtain ⟨hi, hl⟩ := live_idx h.head_lt h.tail_lt hk
    obtain ⟨a, ha⟩ := h.live _ hi hl
    refine ⟨a, ?_⟩
    rw [ha, List.getElem?_eq_getElem (by rw [length_liveSlots h.head_lt h.tail_lt]; exact hk)] at hg
    exact Option.some.inj hg
  have hlen : r.len = r.abs.length := by
    rw [← length_liveSlots h.head_lt h.tail_lt, hls, List.length_map]
  refine ⟨h.size_ge, h.head_lt, h.tail_lt, hlen, ?_, h.dead⟩
  intro k hk
  rw [← getElem?_liveSlots h.head_lt h.tail_lt (by omega), hls]
  simp [List.getElem?_eq_getElem hk]

theorem rep_iff {r : Ring α} {q : List α} : Rep r q ↔ WF r ∧ r.abs = q :=
  ⟨fun h => ⟨h.wf, h.abs⟩, fun ⟨h, e⟩ => e ▸ h.rep⟩


theorem nodup_reverse {l : List Nat} (h : l.Nodup) : l.reverse.Nodup := by
  unfold List.Nodup at *
  rw [List.pairwise_reverse]
  exact h.imp (fun hab => Ne.symm hab)

theorem length_fwdIdx {r : Ring α} (hh : r.head < r.size) :
    r.fwdIdx.length = r.len := by
  have hl := len_spec r
  unfold fwdIdx
  split
  · next h0 => simp [h0]
  · split <;> simp <;> omega

theorem getElem?_fwdIdx {r : Ring α} (hh : r.head < r.size) (ht : r.tail < r.size) {k : Nat}
    (hk : k < r.len) : r.fwdIdx[k]? = some (r.idx k) := by
  have hl := len_spec r
  have hi := idx_spec r k
  unfold fwdIdx
  split
  · next h0 => omega
  · split
    · rw [List.getElem?_range' (by omega)]; congr 1; omega
    · rw [List.getElem?_append]
      simp only [List.length_range']
      split
      · rw [List.getElem?_range' (by omega)]; congr 1; omega
      · rw [List.getElem?_range' (by omega)]; congr 1; omega

theorem fwdIdx_eq {r : Ring α} (hh : r.head < r.size) (ht : r.tail < r.size) :
    r.fwdIdx = (List.range r.len).map r.idx := by
  apply List.ext_getElem?
  intro k
  by_cases hk : k < r.len
  · rw [getElem?_fwdIdx hh ht hk]; simp [hk]
  · rw [List.getElem?_eq_none (by rw [length_fwdIdx hh]; omega), List.getElem?_eq_none (by simp; omega)]

theorem nodup_fwdIdx (r : Ring α) : r.fwdIdx.Nodup := by
  have hl := len_spec r
  unfold fwdIdx
  split
  · exact List.nodup_nil
  · split
    · exact List.nodup_range' 1
    · rw [List.nodup_append]
      refine ⟨List.nodup_range' 1, List.nodup_range' 1, ?_⟩
      intro a ha b hb
      rw [List.mem_range'_1] at ha hb
      omega

theorem revIdx_eq (r : Ring α) : r.revIdx = r.fwdIdx.reverse := by
  unfold revIdx fwdIdx
  split
  · rfl
  · split
    · rfl
    · rw [List.reverse_append]

theorem mem_fwdIdx {r : Ring α} (hh : r.head < r.size) (ht : r.tail < r.size) {i : Nat}
    (hi : i < r.size) (hl : r.Live i) : i ∈ r.fwdIdx := by
  obtain ⟨k, hk, rfl⟩ := exists_idx_of_live hh ht hi hl
  rw [fwdIdx_eq hh ht]
  exact List.mem_map.2 ⟨k, List.mem_range.2 hk, rfl⟩


/-! ### iterators -/

/-- List-level specification of both iterators: apply `g` to the elements in order, threading
the closure state, replacing each visited element by the value `g` leaves, until and including
the first element for which `g` answers `false`; the rest is untouched.
`g s a = (s', a', continue)`. -/
def mapUntil (g : σ → α → σ × α × Bool) : σ → List α → σ × List α
  | s, [] => (s, [])
  | s, x :: xs =>
    if (g s x).2.2 then ((mapUntil g (g s x).1 xs).1, (g s x).2.1 :: (mapUntil g (g s x).1 xs).2)
    else ((g s x).1, (g s x).2.1 :: xs)

/-- the slot-level callback `f` behaves on stored elements as the element-level `g` -/
def Lifts (f : σ → Option α → CbRes σ α) (g : σ → α → σ × α × Bool) : Prop :=
  ∀ s a, f s (some a) = ⟨(g s a).1, some (g s a).2.1, (g s a).2.2⟩

theorem iter_spec {f : σ → Option α → CbRes σ α} {g : σ → α → σ × α × Bool} (hfg : Lifts f g) :
    ∀ (idxs : List Nat) (s : σ) (es : List (Option α)) (q : List α),
      idxs.Nodup → idxs.map (fun i => es[i]?) = q.map (fun a => some (some a)) →
      (iter f s idxs es).1 = (mapUntil g s q).1 ∧
      idxs.map (fun i => (iter f s idxs es).2[i]?) = (mapUntil g s q).2.map (fun a => some (some a)) ∧
      (∀ j, j ∉ idxs → (iter f s idxs es).2[j]? = es[j]?) ∧
      (iter f s idxs es).2.length = es.length := by
  intro idxs
  induction idxs with
  | nil =>
    intro s es q _ hq
    cases q with
    | nil => simp [iter, mapUntil]
    | cons a q => simp at hq
  | cons i is ih =>
    intro s es q hnd hq
    cases q with
    | nil => simp at hq
    | cons a q =>
      simp only [List.map_cons, List.cons.injEq] at hq
      obtain ⟨hi, hq⟩ := hq
      have hni : i ∉ is := (List.nodup_cons.1 hnd).1
      have hnd' : is.Nodup := (List.nodup_cons.1 hnd).2
      have hilt : i < es.length := by
        by_cases hc : i < es.length
        · exact hc
        · rw [List.getElem?_eq_none (by omega)] at hi; cases hi
      have hset : ∀ v, is.map (fun j => (es.set i v)[j]?) = q.map (fun a => some (some a)) := by
        intro v
        rw [← hq]
        apply List.map_congr_left
        intro j hj
        rw [List.getElem?_set_ne]
        intro hc; exact hni (hc ▸ hj)
      simp only [iter, hi, hfg s a, mapUntil]
      split
      · obtain ⟨h1, h2, h3, h4⟩ := ih (g s a).1 (es.set i (some (g s a).2.1)) q hnd' (hset _)
        refine ⟨h1, ?_, ?_, ?_⟩
        · simp only [List.map_cons, h2, List.cons.injEq, and_true]
          rw [h3 i hni]; simp [hilt]
        · intro j hj
          simp only [List.mem_cons, not_or] at hj
          rw [h3 j hj.2, List.getElem?_set_ne (Ne.symm hj.1)]
        · rw [h4, List.length_set]
      · refine ⟨rfl, ?_, ?_, ?_⟩
        · simp only [List.map_cons, hset, List.cons.injEq, and_true]
          simp [hilt]
        · intro j hj
          simp only [List.mem_cons, not_or] at hj
          rw [List.getElem?_set_ne (Ne.symm hj.1)]
        · rw [List.length_set]


/-- `Rep.live` as one list equation over the visiting order of `ForEach` -/
theorem Rep.map_fwdIdx {r : Ring α} {q : List α} (h : Rep r q) :
    r.fwdIdx.map (fun i => r.elems[i]?) = q.map (fun a => some (some a)) := by
  rw [fwdIdx_eq h.head_lt h.tail_lt, h.len_eq]
  apply List.ext_getElem?
  intro k
  by_cases hk : k < q.length
  · simp [hk, h.live k hk]
  · rw [List.getElem?_eq_none (by simp; omega), List.getElem?_eq_none (by simp; omega)]

/-- replacing the slots by `es'` that agree with `q'` along the visiting order and with the old
slots elsewhere gives a ring representing `q'` -/
theorem Rep.of_map_fwdIdx {r : Ring α} {q q' : List α} (h : Rep r q) {es' : List (Option α)}
    (hm : r.fwdIdx.map (fun i => es'[i]?) = q'.map (fun a => some (some a)))
    (ho : ∀ j, j ∉ r.fwdIdx → es'[j]? = r.elems[j]?) (hlen : es'.length = r.elems.length) :
    Rep { r with elems := es' } q' := by
  have hql : q'.length = q.length := by
    have := congrArg List.length hm
    simp only [List.length_map] at this
    rw [← this, length_fwdIdx h.head_lt, h.len_eq]
  generalize hr : ({ r with elems := es' } : Ring α) = r'
  have eh : r'.head = r.head := by rw [← hr]
  have et : r'.tail = r.tail := by rw [← hr]
  have es : r'.size = r.size := by rw [← hr]; simp [size, hlen]
  have ee : r'.elems = es' := by rw [← hr]
  have el : r'.len = r.len := by unfold len; rw [eh, et, es]
  have ei : ∀ k, r'.idx k = r.idx k := by intro k; unfold idx; rw [eh, es]
  refine ⟨by rw [es]; exact h.size_ge, by rw [eh, es]; exact h.head_lt, by rw [et, es]; exact h.tail_lt,
    by rw [el, h.len_eq, hql], ?_, ?_⟩
  · intro k hk
    have hk' : k < r.len := by rw [h.len_eq]; omega
    have := congrArg (fun l => l[k]?) hm
    simp only [List.getElem?_map, getElem?_fwdIdx h.head_lt h.tail_lt hk', Option.map_some] at this
    rw [ei, ee]
    cases hq : q'[k]? with
    | none => rw [List.getElem?_eq_none_iff] at hq; omega
    | some a => rw [hq] at this; simpa using this
  · intro i hi hnl
    rw [es] at hi
    have hnl' : ¬ r.Live i := by
      unfold Live at hnl ⊢; rw [eh, et] at hnl; exact hnl
    rw [ee, ho i (fun hc => hnl' ?_), h.dead i hi hnl']
    rw [fwdIdx_eq h.head_lt h.tail_lt] at hc
    obtain ⟨k, hk, rfl⟩ := List.mem_map.1 hc
    exact (live_idx h.head_lt h.tail_lt (List.mem_range.1 hk)).2

theorem Rep.forEach {r : Ring α} {q : List α} (h : Rep r q) {f : σ → Option α → CbRes σ α}
    {g : σ → α → σ × α × Bool} (hfg : Lifts f g) (s : σ) :
    (r.forEach f s).1 = (mapUntil g s q).1 ∧ Rep (r.forEach f s).2 (mapUntil g s q).2 := by
  obtain ⟨h1, h2, h3, h4⟩ := iter_spec hfg r.fwdIdx s r.elems q (nodup_fwdIdx r) h.map_fwdIdx
  exact ⟨h1, h.of_map_fwdIdx h2 h3 h4⟩

theorem Rep.forEachReverse {r : Ring α} {q : List α} (h : Rep r q) {f : σ → Option α → CbRes σ α}
    {g : σ → α → σ × α × Bool} (hfg : Lifts f g) (s : σ) :
    (r.forEachReverse f s).1 = (mapUntil g s q.reverse).1 ∧
    Rep (r.forEachReverse f s).2 (mapUntil g s q.reverse).2.reverse := by
  have hm : r.revIdx.map (fun i => r.elems[i]?) = q.reverse.map (fun a => some (some a)) := by
    rw [revIdx_eq, List.map_reverse, h.map_fwdIdx, List.map_reverse]
  obtain ⟨h1, h2, h3, h4⟩ := iter_spec hfg r.revIdx s r.elems q.reverse
    (by rw [revIdx_eq]; exact nodup_reverse (nodup_fwdIdx r)) hm
  refine ⟨h1, h.of_map_fwdIdx ?_ ?_ h4⟩
  · rw [revIdx_eq, List.map_reverse] at h2
    rw [List.map_reverse, ← h2, revIdx_eq, List.reverse_reverse]
  · intro j hj
    apply h3
    rw [revIdx_eq, List.mem_reverse]; exact hj


/-! ### new, isEmpty -/

theorem two_le_min : 2 ≤ RINGBUFFER_MIN := by decide

theorem size_new (n : Int) :
    (Ring.new n : Ring α).size = if n ≤ (RINGBUFFER_MIN : Int) then RINGBUFFER_MIN else n.toNat := by
  simp [Ring.new, size]

theorem rep_new (n : Int) : Rep (Ring.new n : Ring α) [] := by
  have hs := size_new (α := α) n
  have h2 := two_le_min
  have hsz : 2 ≤ (Ring.new n : Ring α).size := by
    rw [hs]; split <;> omega
  refine ⟨hsz, ?_, ?_, ?_, ?_, ?_⟩
  · show 0 < _; omega
  · show 0 < _; omega
  · simp [Ring.new, len]
  · intro k hk; simp at hk
  · intro i hi _
    simp only [Ring.new, size, List.length_replicate] at hi
    simp [Ring.new, hi]

theorem Rep.isEmpty {r : Ring α} {q : List α} (h : Rep r q) : r.isEmpty = q.isEmpty := by
  have hl := len_spec r
  have h4 := h.len_eq
  have h2 := h.head_lt
  have h3 := h.tail_lt
  cases q with
  | nil => simp only [List.length_nil] at h4; simp [Ring.isEmpty]; omega
  | cons a q => simp only [List.length_cons] at h4; simp [Ring.isEmpty]; omega

/-! ### the op language of `C20_ring_is_queue` -/

/-- Operations of the queue interface.  `σ` is the type of the state captured by iterator
closures; `g s a = (s', a', continue)`. -/
inductive Op (σ α : Type) where
  | push (x : α)
  | pop
  | peek
  | discard (n : Nat)
  | clear
  | len
  | isEmpty
  | forEach (g : σ → α → σ × α × Bool) (s : σ)
  | forEachReverse (g : σ → α → σ × α × Bool) (s : σ)

/-- What an operation returns.  `slot` carries the raw result of `Pop`/`Peek`: `none` = "empty"
(`ok == false`), `some v` = the slot value `v` with `ok == true`. -/
inductive Out (σ α : Type) where
  | unit
  | slot (o : Option (Option α))
  | num (n : Nat)
  | bool (b : Bool)
  | st (s : σ)
deriving DecidableEq, Repr

/-- slot-level callback obtained from an element-level one (never applied to a cleared slot in a
well-formed ring; there it leaves everything unchanged) -/
def liftCb (g : σ → α → σ × α × Bool) : σ → Option α → CbRes σ α
  | s, none => ⟨s, none, true⟩
  | s, some a => ⟨(g s a).1, some (g s a).2.1, (g s a).2.2⟩

theorem lifts_liftCb (g : σ → α → σ × α × Bool) : Lifts (liftCb g) g := fun _ _ => rfl

/-- one operation on the ring model -/
def stepRing (r : Ring α) : Op σ α → Out σ α × Ring α
  | .push x => (.unit, r.push x)
  | .pop => (.slot r.pop.1, r.pop.2)
  | .peek => (.slot r.peek, r)
  | .discard n => (.num (r.discard n).1, (r.discard n).2)
  | .clear => (.unit, r.clear)
  | .len => (.num r.len, r)
  | .isEmpty => (.bool r.isEmpty, r)
  | .forEach g s => (.st (r.forEach (liftCb g) s).1, (r.forEach (liftCb g) s).2)
  | .forEachReverse g s => (.st (r.forEachReverse (liftCb g) s).1, (r.forEachReverse (liftCb g) s).2)

/-- the same operation on an unbounded FIFO queue (a list, head first) -/
def stepList (q : List α) : Op σ α → Out σ α × List α
  | .push x => (.unit, q ++ [x])
  | .pop => (.slot (q.head?.map some), q.tail)
  | .peek => (.slot (q.head?.map some), q)
  | .discard n => (.num (min n q.length), q.drop n)
  | .clear => (.unit, [])
  | .len => (.num q.length, q)
  | .isEmpty => (.bool q.isEmpty, q)
  | .forEach g s => (.st (mapUntil g s q).1, (mapUntil g s q).2)
  | .forEachReverse g s => (.st (mapUntil g s q.reverse).1, (mapUntil g s q.reverse).2.reverse)

/-- outputs of an op sequence and the final state -/
def runRing (r : Ring α) : List (Op σ α) → List (Out σ α) × Ring α
  | [] => ([], r)
  | op :: ops => ((stepRing r op).1 :: (runRing (stepRing r op).2 ops).1, (runRing (stepRing r op).2 ops).2)

def runList (q : List α) : List (Op σ α) → List (Out σ α) × List α
  | [] => ([], q)
  | op :: ops => ((stepList q op).1 :: (runList (stepList q op).2 ops).1, (runList (stepList q op).2 ops).2)

theorem Rep.step {r : Ring α} {q : List α} (h : Rep r q) (op : Op σ α) :
    (stepRing r op).1 = (stepList q op).1 ∧ Rep (stepRing r op).2 (stepList q op).2 := by
  cases op with
  | push x => exact ⟨rfl, h.push x⟩
  | pop => exact ⟨by simp only [stepRing, stepList, h.pop_fst], h.pop_snd⟩
  | peek => exact ⟨by simp only [stepRing, stepList, h.peek], h⟩
  | discard n => exact ⟨by simp only [stepRing, stepList, h.discard_fst], h.discard_snd n⟩
  | clear => exact ⟨rfl, h.clear⟩
  | len => exact ⟨by simp only [stepRing, stepList, h.len_eq], h⟩
  | isEmpty => exact ⟨by simp only [stepRing, stepList, h.isEmpty], h⟩
  | forEach g s =>
    obtain ⟨h1, h2⟩ := h.forEach (lifts_liftCb g) s
    exact ⟨by simp only [stepRing, stepList, h1], h2⟩
  | forEachReverse g s =>
    obtain ⟨h1, h2⟩ := h.forEachReverse (lifts_liftCb g) s
    exact ⟨by simp only [stepRing, stepList, h1], h2⟩

theorem Rep.run {r : Ring α} {q : List α} (h : Rep r q) (ops : List (Op σ α)) :
    (runRing r ops).1 = (runList q ops).1 ∧ Rep (runRing r ops).2 (runList q ops).2 := by
  induction ops generalizing r q with
  | nil => exact ⟨rfl, h⟩
  | cons op ops ih =>
    obtain ⟨h1, h2⟩ := h.step op
    obtain ⟨h3, h4⟩ := ih h2
    exact ⟨by simp only [runRing, runList, h1, h3], h4⟩

/-! ### bounds safety, sanity of `mapUntil` -/

/-- Every index expression and slice expression the Go methods evaluate on a ring in state `r`
is inside the slice (so none of them panics; `copy`, `clear` and `make` with a non-negative size
cannot).  One conjunct per site of ringbuffer.go; the model evaluates the same expressions with
clamping `List` operations, so this is the statement that the clamping never takes effect. -/
structure AccessesInRange (r : Ring α) : Prop where
  /-- `IsFull`, `Push`, `Pop`: `% len(r.elements)` -/
  mod_nonzero : 0 < r.size
  /-- `Push`: `r.elements[r.tail] = v` after the optional `grow` -/
  push_slot : (if r.isFull then r.grow else r).tail < (if r.isFull then r.grow else r).size
  /-- `Pop`, `Peek` (reached only if `Len() != 0`): `r.elements[r.head]` -/
  head_slot : r.len ≠ 0 → r.head < r.size
  /-- `Discard`, no-wrap branch: `r.elements[r.head:end]` with `end = head + n < cap` -/
  discard_nowrap : ∀ n, min n r.len ≠ r.len → r.head + min n r.len < r.size →
    r.head ≤ r.head + min n r.len ∧ r.head + min n r.len ≤ r.size
  /-- `Discard`, wrap branch: `r.elements[r.head:cap]` and `r.elements[:end-cap]` -/
  discard_wrap : ∀ n, min n r.len ≠ r.len → ¬ r.head + min n r.len < r.size →
    r.head ≤ r.size ∧ r.head + min n r.len - r.size ≤ r.size
  /-- `ForEach`: every `&r.elements[i]` -/
  forEach_slots : ∀ i ∈ r.fwdIdx, i < r.size
  /-- `ForEachReverse`: every `&r.elements[i]` -/
  forEachReverse_slots : ∀ i ∈ r.revIdx, i < r.size
  /-- `Clear`: `r.elements[i]` for `head ≤ i < tail`, resp. `head ≤ i < len` and `i < tail` -/
  clear_slots : (r.head ≤ r.tail → r.tail ≤ r.size) ∧ (¬ r.head ≤ r.tail → r.tail ≤ r.size)
  /-- `grow`: `r.elements[r.head:r.tail]`, `r.elements[r.head:]`, `r.elements[:r.tail]`,
  `newElements[n:]` with `n` the count returned by the first `copy` -/
  grow_slices : (r.head < r.tail → r.tail ≤ r.size) ∧ r.head ≤ r.size ∧ r.tail ≤ r.size ∧
    min (r.size - r.head) (growSize r.size) ≤ growSize r.size

theorem Rep.accessesInRange {r : Ring α} {q : List α} (h : Rep r q) : AccessesInRange r := by
  have h1 := h.size_ge
  have h2 := h.head_lt
  have h3 := h.tail_lt
  have hl := len_spec r
  have hidx : ∀ i ∈ r.fwdIdx, i < r.size := by
    intro i hi
    rw [fwdIdx_eq h2 h3] at hi
    obtain ⟨k, hk, rfl⟩ := List.mem_map.1 hi
    exact (live_idx h2 h3 (List.mem_range.1 hk)).1
  refine ⟨by omega, ?_, fun _ => h2, ?_, ?_, hidx, ?_, by omega, by omega⟩
  · split
    · have hg := h.grow
      exact hg.tail_lt
    · exact h3
  · intro n _ _; omega
  · intro n _ _; omega
  · intro i hi
    rw [revIdx_eq, List.mem_reverse] at hi
    exact hidx i hi

theorem mapUntil_length (g : σ → α → σ × α × Bool) (s : σ) (q : List α) :
    (mapUntil g s q).2.length = q.length := by
  induction q generalizing s with
  | nil => rfl
  | cons a q ih =>
    simp only [mapUntil]
    split
    · simp [ih]
    · simp


theorem mapUntil_map (h : α → α) (s : σ) (q : List α) :
    mapUntil (fun s a => (s, h a, true)) s q = (s, q.map h) := by
  induction q with
  | nil => rfl
  | cons a q ih => simp [mapUntil, ih]

end Ring
end KcpVerif
