/-
C07 over whole histories, part 1: the discard horizon of `Model/Fec.Decoder.decode`
(fec.go `fecDecoder.decode` / `discardShards` / `newestShardId`).  Core Lean only.

* `alive n nw id`: the EXACT survival condition of `discardShards` — the signed age
  `_itimediff(newest·n, id·n)` lies in `[0, maxShardSets·n]`; `discard_eq_filter`, `lookup_discard`
  (a set is found after `discardShards` iff it was there and is alive).
* `nextNewest`, `horizonOf`, `curAfter`: `newestShardId` as a pure function of the shard ids of the
  packets received so far (`horizon_step`, `horizon_feed`): the first packet placed while no shard set
  exists anchors it (repair of D13), afterwards it moves to a packet's shard id iff that id is ahead
  in the signed comparison.
* `HInv`: the inductive invariant of whole histories — `Steady`, `SetsGenuine` (Lemmas/FecDec) plus
  "every shard set is alive w.r.t. `newest`" and "the set of `newest` exists unless no set exists" —
  holds for a fresh decoder (`hinv_new`) and is kept by `decode` of ANY genuine packet of the
  decoder's ratio (`hinv_decode`), hence along any history (`hinv_feed`).
* `decode_sets`: the shard sets after one `decode` of a genuine packet, in closed form.
-/
import KcpVerif.Lemmas.FecDec

namespace KcpVerif.Lemmas.FecHist
open KcpVerif.Fec KcpVerif.Gen KcpVerif.AutoTune KcpVerif.Lemmas.FecSpec KcpVerif.Lemmas.FecDec

/-! ## the survival condition of `discardShards` -/

/-- shard id of a packet under shard size `n` (`getShardId(in.seqid())`) -/
def sidOf (n : Nat) (q : Bytes) : BitVec 32 := seqid q / u32 n

/-- `_itimediff(newestShardId*shardSize, shardId*shardSize)` -/
def age (n : Nat) (nw id : BitVec 32) : Int := itimediff (nw * u32 n) (id * u32 n)

/-- `discardShards` keeps the shard set `id` iff `0 ≤ age ≤ maxShardSets·n` -/
def alive (n : Nat) (nw id : BitVec 32) : Bool :=
  decide (0 ≤ age n nw id) && decide (age n nw id ≤ ((maxShardSets * n : Nat) : Int))

theorem discard_eq_filter (n : Nat) (nw : BitVec 32) (sets : List ShardSet) :
    discard n nw sets = sets.filter (fun s => alive n nw s.id) := by
  unfold Fec.discard
  apply List.filter_congr
  intro s _
  unfold alive age
  generalize itimediff (nw * u32 n) (s.id * u32 n) = a
  generalize ((maxShardSets * n : Nat) : Int) = b
  by_cases h1 : a > b <;> by_cases h2 : a < 0 <;> simp [h1, h2] <;> omega

theorem mem_discard_iff (n : Nat) (nw : BitVec 32) (sets : List ShardSet) (s : ShardSet) :
    s ∈ discard n nw sets ↔ s ∈ sets ∧ alive n nw s.id = true := by
  rw [discard_eq_filter, List.mem_filter]

/-- **what `discardShards` does to one group**: its set is found afterwards iff it was there and the
    group is alive -/
theorem lookup_discard (n : Nat) (nw g : BitVec 32) (sets : List ShardSet) :
    lookup g (discard n nw sets) = if alive n nw g then lookup g sets else none := by
  rw [discard_eq_filter]
  induction sets with
  | nil => simp [lookup]
  | cons t rest ih =>
    cases ht : (t.id == g) with
    | true =>
      have hid : t.id = g := by simpa using ht
      cases ha : alive n nw g with
      | true =>
        have : alive n nw t.id = true := by rw [hid]; exact ha
        simp only [List.filter_cons, this, if_true, lookup, ht]
      | false =>
        have : alive n nw t.id = false := by rw [hid]; exact ha
        simp only [List.filter_cons, this, Bool.false_eq_true, if_false]
        rw [ih, ha]; rfl
    | false =>
      cases hat : alive n nw t.id with
      | true => simp only [List.filter_cons, hat, if_true, lookup, ht, Bool.false_eq_true, if_false]; exact ih
      | false => simp only [List.filter_cons, hat, Bool.false_eq_true, if_false, lookup, ht]; exact ih

theorem lookup_store_ne (g : BitVec 32) (s : ShardSet) (h : s.id ≠ g) :
    ∀ (l : List ShardSet), lookup g (store s l) = lookup g l := by
  intro l
  induction l with
  | nil =>
    have : (s.id == g) = false := by simpa using h
    simp [store, lookup, this]
  | cons t rest ih =>
    simp only [store]
    cases ht : (t.id == s.id) with
    | true =>
      have hts : t.id = s.id := by simpa using ht
      have h1 : (s.id == g) = false := by simpa using h
      have h2 : (t.id == g) = false := by rw [hts]; exact h1
      simp only [if_true, lookup, h1, h2, Bool.false_eq_true, if_false]
    | false =>
      simp only [Bool.false_eq_true, if_false, lookup]
      rw [ih]

theorem mem_store_self (s : ShardSet) : ∀ (l : List ShardSet), s ∈ store s l := by
  intro l
  induction l with
  | nil => simp [store]
  | cons t rest ih =>
    simp only [store]
    split
    · exact List.mem_cons_self ..
    · exact List.mem_cons_of_mem _ ih

theorem mem_store_of_mem (s x : ShardSet) (hne : x.id ≠ s.id) :
    ∀ (l : List ShardSet), x ∈ l → x ∈ store s l := by
  intro l
  induction l with
  | nil => intro h; cases h
  | cons t rest ih =>
    intro h
    simp only [store]
    split
    · rename_i ht
      have ht : t.id = s.id := by simpa using ht
      rcases List.mem_cons.1 h with h | h
      · exact absurd (h ▸ ht) hne
      · exact List.mem_cons_of_mem _ h
    · rcases List.mem_cons.1 h with h | h
      · exact h ▸ List.mem_cons_self ..
      · exact List.mem_cons_of_mem _ (ih h)

theorem lookup_of_mem (g : BitVec 32) : ∀ (l : List ShardSet) (s : ShardSet), s ∈ l → s.id = g →
    lookup g l ≠ none := by
  intro l
  induction l with
  | nil => intro s h; cases h
  | cons t rest ih =>
    intro s hs hid
    simp only [lookup]
    split
    · simp
    · rename_i ht
      rcases List.mem_cons.1 hs with h | h
      · subst h; simp [hid] at ht
      · exact ih s h hid

theorem age_self (n : Nat) (x : BitVec 32) : age n x x = 0 := itimediff_self _

theorem alive_self (n : Nat) (x : BitVec 32) : alive n x x = true := by
  unfold alive
  rw [age_self, decide_eq_true (Int.le_refl 0), decide_eq_true (Int.natCast_nonneg _)]
  rfl

/-- a set that is not behind `newest` in the negative sense is not ahead of it:
    `0 ≤ int32(a − b)` implies `int32(b − a) ≤ 0` -/
theorem not_ahead_of_alive (n : Nat) (nw id : BitVec 32) (h : alive n nw id = true) :
    ¬ (itimediff (id * u32 n) (nw * u32 n) > 0) := by
  unfold alive age at h
  simp only [Bool.and_eq_true, decide_eq_true_eq] at h
  have h0 := h.1
  unfold itimediff at h0 ⊢
  generalize nw * u32 n = a at h0 ⊢
  generalize id * u32 n = b at h0 ⊢
  simp only [BitVec.toInt_eq_toNat_cond, BitVec.toNat_sub] at h0 ⊢
  have := a.isLt
  have := b.isLt
  split at h0 <;> split <;> omega

/-! ## `newestShardId` as a function of the history -/

/-- `newestShardId` after a packet of shard id `sid` has been placed; `cur = none` when no shard set
    exists (the repair of D13 anchors the horizon at this packet) -/
def nextNewest (n : Nat) (cur : Option (BitVec 32)) (sid : BitVec 32) : BitVec 32 :=
  match cur with
  | none => sid
  | some nw => if itimediff (sid * u32 n) (nw * u32 n) > 0 then sid else nw

/-- the horizon of a decoder state: `none` when no shard set exists -/
def horizonOf (dec : Decoder) : Option (BitVec 32) :=
  if dec.sets.isEmpty then none else some dec.newest

/-- the horizon after a list of shard ids -/
def curAfter (n : Nat) (cur : Option (BitVec 32)) (sids : List (BitVec 32)) : Option (BitVec 32) :=
  sids.foldl (fun c s => some (nextNewest n c s)) cur

theorem curAfter_append (n : Nat) (cur : Option (BitVec 32)) (a b : List (BitVec 32)) :
    curAfter n cur (a ++ b) = curAfter n (curAfter n cur a) b := by
  unfold curAfter; rw [List.foldl_append]

theorem newestOf_eq (n : Nat) (sid : BitVec 32) (dec1 : Decoder) :
    newestOf n sid dec1 = nextNewest n (horizonOf dec1) sid := by
  unfold newestOf baseOf horizonOf nextNewest
  cases h : dec1.sets.isEmpty with
  | true => simp [itimediff_self]
  | false => simp

/-! ## the invariant of whole histories -/

structure HInv (C : CodecNew) (grp : Family) (dec : Decoder) : Prop where
  steady : Steady C dec
  genuine : SetsGenuine C grp dec
  /-- every shard set is within the discard horizon -/
  alive : ∀ s ∈ dec.sets, alive dec.n dec.newest s.id = true
  /-- the shard set of `newestShardId` exists (it is never discarded), unless none exists -/
  anchor : dec.sets ≠ [] → ∃ s ∈ dec.sets, s.id = dec.newest

theorem hinv_new {C : CodecNew} (grp : Family) (d p : Nat) (dec : Decoder)
    (h : Decoder.new C d p = some dec) : HInv C grp dec ∧ dec.d = d ∧ dec.p = p ∧ dec.sets = [] := by
  obtain ⟨hS, hI, hd, hp⟩ := new_steady (C := C) grp d p dec h
  have hs : dec.sets = [] := by
    unfold Decoder.new at h
    split at h
    · cases h
    · cases h; rfl
  refine ⟨⟨hS, hI, ?_, ?_⟩, hd, hp, hs⟩
  · intro s hs'; rw [hs] at hs'; cases hs'
  · intro h'; exact absurd hs h'

section Step
variable {C : CodecNew} {G : Group}

/-- the set of the new `newest` is there after `store` + `discardShards` -/
theorem anchor_after (n : Nat) (dec1 : Decoder) (sid : BitVec 32) (X : List Bytes)
    (hanchor : dec1.sets ≠ [] → ∃ s ∈ dec1.sets, s.id = dec1.newest) :
    ∃ s ∈ discard n (nextNewest n (horizonOf dec1) sid) (store ⟨sid, X⟩ dec1.sets),
      s.id = nextNewest n (horizonOf dec1) sid := by
  have hself : ∃ s ∈ discard n sid (store ⟨sid, X⟩ dec1.sets), s.id = sid :=
    ⟨⟨sid, X⟩, (mem_discard_iff _ _ _ _).2 ⟨mem_store_self _ _, alive_self _ _⟩, rfl⟩
  unfold horizonOf nextNewest
  cases he : dec1.sets.isEmpty with
  | true => simpa using hself
  | false =>
    simp only [Bool.false_eq_true, if_false]
    split
    · exact hself
    · have hne : dec1.sets ≠ [] := by
        intro h; rw [h] at he; simp at he
      obtain ⟨s, hs, hid⟩ := hanchor hne
      by_cases hsid : s.id = sid
      · refine ⟨⟨sid, X⟩, (mem_discard_iff _ _ _ _).2 ⟨mem_store_self _ _, ?_⟩, ?_⟩
        · show alive n dec1.newest sid = true
          rw [← hsid, hid]; exact alive_self _ _
        · show sid = dec1.newest
          rw [← hsid, hid]
      · refine ⟨s, (mem_discard_iff _ _ _ _).2 ⟨mem_store_of_mem _ _ hsid _ hs, ?_⟩, hid⟩
        rw [hid]; exact alive_self _ _

/-- **one `decode` of a genuine packet, in closed form.**  `got` are the indices the decoder holds
    for the packet's group.  A duplicate changes nothing but the auto-tune window; a new packet is
    stored (the set is emptied when it reaches `d` packets), `newest` moves per `nextNewest`, and
    `discardShards` filters by `alive`. -/
theorem decode_sets (hG : G.WF) (dec : Decoder) (hM : Matches C G dec) (got : List Nat)
    (hb : ∀ i ∈ got, i < G.n) (hset : held (G.base / u32 G.n) dec = got.map (G.packet C))
    (j : Nat) (hj : j < G.n) :
    (j ∈ got → (dec.decode C (G.packet C j)).st = sampled dec (G.packet C j) ∧ dec.sets ≠ []) ∧
    (j ∉ got →
      (dec.decode C (G.packet C j)).st.sets =
        discard G.n (nextNewest G.n (horizonOf dec) (G.base / u32 G.n))
          (store ⟨G.base / u32 G.n,
            if got.length + 1 ≥ G.d then [] else (got ++ [j]).map (G.packet C)⟩ dec.sets) ∧
      (dec.decode C (G.packet C j)).st.newest = nextNewest G.n (horizonOf dec) (G.base / u32 G.n)) := by
  have hM' := hM.sampled (G.packet C j)
  rw [decode_genuine_eq hG dec hM j hj]
  constructor
  · intro hmem
    rw [place_dup hG (sampled dec (G.packet C j)) hM'.n got hb hset j hj hmem]
    refine ⟨rfl, ?_⟩
    intro hnil
    have : held (G.base / u32 G.n) dec = [] := by simp [held, hnil, lookup]
    rw [this] at hset
    have := (List.map_eq_nil_iff.1 hset.symm)
    rw [this] at hmem; cases hmem
  · intro hnot
    obtain ⟨_, hst⟩ := place_new_st hG (sampled dec (G.packet C j)) hM'.n got hb hset j hj hnot
    rw [hst, newestOf_eq, hM'.d]
    exact ⟨rfl, rfl⟩

/-- the invariant is kept by `decode` of any genuine packet of the decoder's ratio, and the horizon
    moves per `nextNewest` -/
theorem hinv_decode (grp : Family) (dec : Decoder) (hI : HInv C grp dec) (hG : G.WF)
    (hgrp : grp (G.base / u32 G.n) = some G) (hd : G.d = dec.d) (hp : G.p = dec.p)
    (j : Nat) (hj : j < G.n) :
    HInv C grp (dec.decode C (G.packet C j)).st ∧
    horizonOf (dec.decode C (G.packet C j)).st
      = some (nextNewest G.n (horizonOf dec) (G.base / u32 G.n)) := by
  have hM := hI.steady.matches (G := G) hd hp
  have hS' := decode_steady hG dec hI.steady hd hp j hj
  have hG' := decode_preserves grp dec hI.steady hI.genuine hG hgrp hd hp j hj
  have hn' : (dec.decode C (G.packet C j)).st.n = G.n := (decode_fields hG dec hI.steady hd hp j hj).2.2.1.trans hM.n
  obtain ⟨got, _, hb, _, hset⟩ := held_genuine grp dec hI.genuine hG hgrp
  obtain ⟨hdup, hnew⟩ := decode_sets hG dec hM got hb hset j hj
  by_cases hmem : j ∈ got
  · obtain ⟨hst, hne⟩ := hdup hmem
    -- the set of this group exists, so its id is not ahead of `newest`
    have hex : ∃ s ∈ dec.sets, s.id = G.base / u32 G.n := by
      unfold held at hset
      cases hl : lookup (G.base / u32 G.n) dec.sets with
      | none =>
        rw [hl] at hset
        have := (List.map_eq_nil_iff.1 hset.symm)
        rw [this] at hmem; cases hmem
      | some s => exact ⟨s, (lookup_some _ _ _ hl).1, (lookup_some _ _ _ hl).2⟩
    obtain ⟨s, hs, hid⟩ := hex
    have hal := hI.alive s hs
    rw [hM.n, hid] at hal
    have hhor : horizonOf dec = some dec.newest := by
      unfold horizonOf
      cases he : dec.sets.isEmpty with
      | true => exact absurd (List.isEmpty_iff.1 he) hne
      | false => rfl
    constructor
    · rw [hst]
      exact ⟨⟨hI.steady.tune, hI.steady.n_eq, hI.steady.paws, hI.steady.codec⟩,
        ⟨hI.genuine.genuine, hI.genuine.distinct⟩, hI.alive, hI.anchor⟩
    · rw [hst]
      show horizonOf dec = _
      rw [hhor]
      unfold nextNewest
      simp only [if_neg (not_ahead_of_alive _ _ _ hal)]
  · obtain ⟨hsets, hnw⟩ := hnew hmem
    have hanc := anchor_after G.n dec (G.base / u32 G.n)
      (if got.length + 1 ≥ G.d then [] else (got ++ [j]).map (G.packet C)) hI.anchor
    rw [← hsets, ← hnw] at hanc
    refine ⟨⟨hS', hG', ?_, fun _ => hanc⟩, ?_⟩
    · intro s hs
      rw [hsets] at hs
      rw [hn', hnw]
      exact ((mem_discard_iff _ _ _ _).1 hs).2
    · obtain ⟨s, hs, _⟩ := hanc
      have hne : (dec.decode C (G.packet C j)).st.sets.isEmpty = false := by
        cases he : (dec.decode C (G.packet C j)).st.sets.isEmpty with
        | true => rw [List.isEmpty_iff.1 he] at hs; cases hs
        | false => rfl
      rw [← hnw]
      unfold horizonOf
      rw [hne]
      rfl

end Step

end KcpVerif.Lemmas.FecHist
