/-
Finite checks about the byte operations of `Model/GF256`, each a table over the 256 bytes
evaluated by the kernel (`decide +kernel` on `∀ i ∈ List.range 256, …`; nothing larger — no pair
or triple of bytes is ever enumerated).  Core Lean only.  `Lemmas/GF256Field` derives the field
axioms of GF(2^8) from these tables by algebra.

The tables:
* `hi_cases`, `lo_cases`     the masks `a &&& 0x80`, `a &&& 1` take two values;
* `horner`                   `a = xtime (a >>> 1) ^^^ (a &&& 1)` (a byte is generated from its bits
                             by doubling and adding), `shr_lt`: `a >>> 1` is smaller than `a ≠ 0`;
* `one_mul_tab`, `mul_one_tab`  `mul 1 a = a`, `mul a 1 = a`;
* `mul_inv_tab`              `a ≠ 0 → mul a (inv a) = 1` (255 evaluations of `a · a^254`);
* `ofNat_inj_tab`            `UInt8.ofNat` is injective below 256 (the Vandermonde nodes `0 … n−1`
                             are distinct) — by arithmetic, no table.
-/
import KcpVerif.Model.GF256

namespace KcpVerif.Lemmas.GF256
open KcpVerif.GF256

/-- a property checked on `UInt8.ofNat 0 … UInt8.ofNat 255` holds for every byte -/
theorem forall_byte {P : UInt8 → Prop} (h : ∀ i ∈ List.range 256, P (UInt8.ofNat i)) (a : UInt8) :
    P a := by
  have := h a.toNat (List.mem_range.2 a.toNat_lt)
  rwa [UInt8.ofNat_toNat] at this

theorem hi_cases (a : UInt8) : a &&& 0x80 = 0 ∨ a &&& 0x80 = 0x80 := by
  revert a; apply forall_byte; decide +kernel

theorem lo_cases (a : UInt8) : a &&& 1 = 0 ∨ a &&& 1 = 1 := by
  revert a; apply forall_byte; decide +kernel

theorem horner (a : UInt8) : a = xtime (a >>> 1) ^^^ (a &&& 1) := by
  revert a; apply forall_byte; decide +kernel

theorem shr_lt (a : UInt8) : a = 0 ∨ (a >>> 1).toNat < a.toNat := by
  revert a; apply forall_byte; decide +kernel

theorem one_mul_tab (a : UInt8) : mul 1 a = a := by
  revert a; apply forall_byte; decide +kernel

theorem mul_one_tab (a : UInt8) : mul a 1 = a := by
  revert a; apply forall_byte; decide +kernel

theorem mul_inv_tab (a : UInt8) : a ≠ 0 → mul a (inv a) = 1 := by
  revert a; apply forall_byte; decide +kernel

theorem inv_zero_tab : inv 0 = 0 := by decide +kernel

theorem ofNat_inj_tab {i j : Nat} (hi : i < 256) (hj : j < 256)
    (h : UInt8.ofNat i = UInt8.ofNat j) : i = j := by
  have := congrArg UInt8.toNat h
  simp only [UInt8.toNat_ofNat'] at this
  omega

end KcpVerif.Lemmas.GF256
