import KcpVerif.Lemmas.C11IsoL
import KcpVerif.Lemmas.SessInClose
import KcpVerif.Lemmas.C01SessRef
import KcpVerif.Lemmas.C01SessFrg
/-!
The composition for `C11_isolation`: the listener model `Model/SessIn` with its opaque session state
`σ` instantiated by the concrete session model `Model/Sess` (with the ghost history of
`Lemmas/C01SessSys`: bytes returned by `Read`, bytes accepted by `WriteBuffers`, datagrams emitted),
configuration without FEC, any cipher at the listener's integrity gate (a genuine datagram `d` arrives
as any `wrap d` the gate opens to `d`; `plain` = no cipher), the clock an input of every step:

    kcpInput := fun x d => sessStep x (.input d now)      -- `(Sess.packetInput x.s d now).s` + ghosts
    init     := fun conv => { s := Sess.new conv }         -- `newUDPSession(conv, …)`
    closeFx  := fun x => sessStep x (.update now)          -- `s.kcp.flush(IKCP_FLUSH_FULL)` in `Close`

and any number of client sessions `P_a^c` (also `Model/Sess`), one per (address, conversation id).

`Inv`: every session object the listener has created for an HONEST address `a` (one whose datagrams
are all emitted by its clients) with conversation id `c` is, together with the client `P_a^c`, a
reachable state of the two-session system of `C01_session_plain` (`Peer`).
-/
namespace KcpVerif.C11Iso
open KcpVerif KcpVerif.Gen KcpVerif.SessIn KcpVerif.Props KcpVerif.C01

/-- the environment of the listener at clock `now` -/
def world (now : U32) : World SessG :=
  { kcpInput := fun x d => sessStep x (.input d now)
    init := fun conv => { s := Sess.new conv }
    closeFx := fun x => sessStep x (.update now) }

/-- no cipher -/
def plain : Cipher := { kind := .nil, dec := id, crc := fun _ => 0, aopen := fun _ _ => none }

theorem gate_plain (d : Bytes) : cryptGate plain d = .ok d := rfl

/-- `Listener.packetInput` at clock `now`, also for a listener that has been closed: the model's
`listenerInputD` (the `l.die` test sits after the old session's `Close` and before `newUDPSession`, so a
closed listener still routes, ignores and closes but creates nothing) -/
def inputD (ciph : Cipher) (now : U32) (l : Listener SessG) (dead : Bool) (d : Bytes) (a : String) : Listener SessG :=
  (listenerInputD (world now) ciph l dead d a).l

/-- in terms of the open listener's decision -/
theorem inputD_eq (ciph : Cipher) (now : U32) (l : Listener SessG) (dead : Bool) (d : Bytes) (a : String) :
    inputD ciph now l dead d a =
      if dead then
        match (listenerInput (world now) ciph l d a).dec with
        | .create _ _ (some old) _ => closeSess (world now) l old
        | .create _ _ none _ => l
        | _ => (listenerInput (world now) ciph l d a).l
      else (listenerInput (world now) ciph l d a).l := by
  unfold inputD
  cases dead with
  | false => rw [listenerInputD_false]; rfl
  | true => rw [listenerInputD_dead]; rfl

/-- `s.Close()` for the sessions with the given indices (the model's `closeAll` at clock `now`) -/
abbrev closeAll (now : U32) (l : Listener SessG) (ids : List Nat) : Listener SessG := SessIn.closeAll (world now) l ids

/-- `Listener.Close` (first call): the model's `closeUnaccepted` -/
def listenerClose (now : U32) (l : Listener SessG) : Listener SessG := SessIn.closeUnaccepted (world now) l

theorem listenerClose_model (now : U32) (l : Listener SessG) (dead : Bool) :
    SessIn.listenerClose (world now) l dead = if dead then l else listenerClose now l := rfl

structure Sys where
  l        : Listener SessG := Listener.empty
  /-- `l.die` closed -/
  dead     : Bool := false
  /-- creation indices returned by Accept so far -/
  accepted : List Nat := []
  /-- the client session of conversation `c` at address `a`, if it has been dialled -/
  clients  : String → U32 → Option SessG := fun _ _ => none

def setClient (cl : String → U32 → Option SessG) (a : String) (c : U32) (g : SessG) : String → U32 → Option SessG :=
  fun a' c' => if a' = a ∧ c' = c then some g else cl a' c'

inductive IEv where
  /-- a client at address `a` dials with a conversation id it has not used before (a reconnect, if
      `a` already has conversations) -/
  | connect (a : String) (c : U32)
  /-- the client of conversation `c` at `a` performs ANY session operation: `WriteBuffers`, `Read`,
      `update`, setters, `packetInput` of ANY bytes (whatever the server, or anybody, sends it) -/
  | client (a : String) (c : U32) (op : SessOp)
  /-- the network hands the listener, with source address `a`, the `i`-th datagram the client of
      conversation `c` at `a` has emitted so far — current or previous conversation, any later time,
      any number of times, in any order, or never.  `wrap` is what the sender's `postProcess` (nonce,
      CRC / Seal, encryption) and the network did to it: the event takes place iff the listener's
      integrity gate opens `wrap d` to `d` (no cipher: `wrap = id`) -/
  | deliver (a : String) (c : U32) (i : Nat) (wrap : Bytes → Bytes) (now : U32)
  /-- ARBITRARY bytes with source address `b`; ignored by the step function when `b` is honest -/
  | forge (b : String) (data : Bytes) (now : U32)
  | accept
  /-- the application closes session `id` (accepted or not, any address) -/
  | close (id : Nat) (now : U32)
  /-- the application or the scheduler operates on session `id`: `Read` (any buffer size),
      `WriteBuffers`, `update`, setters — anything but `packetInput`, which only the listener calls -/
  | sess (id : Nat) (op : SessOp)
  | listenerClose (now : U32)

def step (ciph : Cipher) (honest : String → Bool) (s : Sys) : IEv → Sys
  | .connect a c =>
    match s.clients a c with
    | some _ => s
    | none => { s with clients := setClient s.clients a c { s := Sess.new c } }
  | .client a c op =>
    match s.clients a c with
    | none => s
    | some g => { s with clients := setClient s.clients a c (sessStep g op) }
  | .deliver a c i wrap now =>
    match s.clients a c with
    | none => s
    | some g =>
      match g.wire[i]? with
      | none => s
      | some d => if cryptGate ciph (wrap d) = .ok d then { s with l := inputD ciph now s.l s.dead (wrap d) a } else s
  | .forge b data now => if honest b then s else { s with l := inputD ciph now s.l s.dead data b }
  | .accept =>
    match (SessIn.accept s.l).got with
    | none => s
    | some id => { s with l := (SessIn.accept s.l).l, accepted := s.accepted ++ [id] }
  | .close id now => { s with l := userClose (world now) s.l id }
  | .sess id op => if isSessInput op then s else { s with l := appSess s.l id (fun x => sessStep x op) }
  | .listenerClose now => if s.dead then s else { s with l := listenerClose now s.l, dead := true }

def run (ciph : Cipher) (honest : String → Bool) (s : Sys) (evs : List IEv) : Sys := evs.foldl (step ciph honest) s

/-! ### the peer relation -/

/-- `g` (client) and `x` (server side) are a reachable state of the two-session system of
`C01_session_plain` for conversation `c` -/
def Peer (c : U32) (g x : SessG) : Prop :=
  ∃ ops : List SSOp, ssrun ⟨{ s := Sess.new c }, { s := Sess.new c }⟩ ops = ⟨g, x⟩

theorem ssrun_snoc (s : SessSys) (ops : List SSOp) (e : SSOp) : ssrun s (ops ++ [e]) = ssstep (ssrun s ops) e := by
  unfold ssrun; rw [List.foldl_append]; rfl

theorem Peer.a {c : U32} {g x : SessG} (h : Peer c g x) (op : SessOp) : Peer c (sessStep g op) x := by
  obtain ⟨ops, h⟩ := h
  exact ⟨ops ++ [.a op], by rw [ssrun_snoc, h]; rfl⟩

theorem Peer.b {c : U32} {g x : SessG} (h : Peer c g x) (op : SessOp) (hi : isSessInput op = false) :
    Peer c g (sessStep x op) := by
  obtain ⟨ops, h⟩ := h
  refine ⟨ops ++ [.b op], ?_⟩
  rw [ssrun_snoc, h]
  simp only [ssstep, hi, Bool.false_eq_true, if_false]

theorem Peer.dlv {c : U32} {g x : SessG} (h : Peer c g x) (i : Nat) (d : Bytes) (now : U32)
    (hd : g.wire[i]? = some d) : Peer c g (sessStep x (.input d now)) := by
  obtain ⟨ops, h⟩ := h
  refine ⟨ops ++ [.dlv i now], ?_⟩
  rw [ssrun_snoc, h]
  simp only [ssstep, hd]

theorem ssrun_mapA (h : List SessOp) : ∀ s : SessSys, ssrun s (h.map .a) = { s with A := sessRun s.A h } := by
  induction h with
  | nil => intro s; rfl
  | cons op rest ih => intro s; exact ih _

theorem Peer.init (c : U32) (h : List SessOp) : Peer c (sessRun { s := Sess.new c } h) { s := Sess.new c } :=
  ⟨h.map .a, by rw [ssrun_mapA]⟩

/-! ### the invariant -/

/-- H3, the wire format: a datagram emitted by a `Model/Sess` session of conversation `c` is too
short for the listener to look at, or the listener's header switch reads conversation `c` from it.
Discharged for `Model/Sess` by `sessRun_wire_hdr` (`Lemmas/C11IsoWire.lean`). -/
def WireOk : Prop :=
  ∀ (c : U32) (ops : List SessOp) (d : Bytes), d ∈ (sessRun { s := Sess.new c } ops).wire →
    d.length < minPacket ∨ ∃ sn, parseHdr d = some ⟨true, c, sn⟩

def ObjOk (honest : String → Bool) (cl : String → U32 → Option SessG) (o : SessIn.Sess SessG) : Prop :=
  honest o.addr = true → ∃ g, cl o.addr o.conv = some g ∧ Peer o.conv g o.st

def InvL (honest : String → Bool) (cl : String → U32 → Option SessG) (l : Listener SessG) : Prop :=
  ∀ (j : Nat) (o : SessIn.Sess SessG), l.objs[j]? = some o → ObjOk honest cl o

def InvC (cl : String → U32 → Option SessG) : Prop :=
  ∀ a c g, cl a c = some g → ∃ h, g = sessRun { s := Sess.new c } h

structure Inv (honest : String → Bool) (s : Sys) : Prop where
  wf   : WF s.l
  wf2  : WF2 s.l
  objs : InvL honest s.clients s.l
  cls  : InvC s.clients

theorem inv_init (honest : String → Bool) : Inv honest {} :=
  ⟨WF_empty, WF2_empty, fun j o h => by simp [Listener.empty] at h, fun a c g h => by cases h⟩

/-! ### listener-side steps -/

theorem InvL_closeSess {honest : String → Bool} {cl : String → U32 → Option SessG} {l : Listener SessG}
    (h : InvL honest cl l) (now : U32) (id : Nat) : InvL honest cl (closeSess (world now) l id) := by
  intro j o' hj hh
  rcases closeSess_obj (world now) l id j o' hj with h1 | ⟨_, o, ho, _, ho'⟩
  · exact h j o' h1 hh
  · rw [ho'] at hh ⊢
    obtain ⟨g, hg, hp⟩ := h id o ho hh
    exact ⟨g, hg, hp.b (.update now) rfl⟩

theorem InvL_closeAll {honest : String → Bool} {cl : String → U32 → Option SessG} (now : U32) (ids : List Nat) :
    ∀ l : Listener SessG, InvL honest cl l → InvL honest cl (closeAll now l ids) := by
  induction ids with
  | nil => intro l h; exact h
  | cons id rest ih => intro l h; exact ih _ (InvL_closeSess h now id)

theorem WF_closeAll (now : U32) (ids : List Nat) :
    ∀ l : Listener SessG, WF l → WF2 l → WF (closeAll now l ids) ∧ WF2 (closeAll now l ids) := by
  induction ids with
  | nil => intro l h h2; exact ⟨h, h2⟩
  | cons id rest ih => intro l h h2; exact ih _ (WF_closeSess _ l id h) (WF2_closeSess _ l id h2)

/-- every object after `inputD` -/
theorem inputD_obj (ciph : Cipher) (now : U32) (l : Listener SessG) (dead : Bool) (d : Bytes) (a : String) (j : Nat)
    (o' : SessIn.Sess SessG) (hj : (inputD ciph now l dead d a).objs[j]? = some o') :
    l.objs[j]? = some o' ∨
    (∃ o, l.objs[j]? = some o ∧ o' = { o with st := (world now).closeFx o.st, closed := true }) ∨
    (∃ p h, cryptGate ciph d = .ok p ∧ minPacket ≤ p.length ∧ parseHdr p = some h ∧ Fate (world now) l p a h j o') := by
  have live : (listenerInput (world now) ciph l d a).l.objs[j]? = some o' →
      l.objs[j]? = some o' ∨
      (∃ o, l.objs[j]? = some o ∧ o' = { o with st := (world now).closeFx o.st, closed := true }) ∨
      (∃ p h, cryptGate ciph d = .ok p ∧ minPacket ≤ p.length ∧ parseHdr p = some h ∧ Fate (world now) l p a h j o') := by
    intro hj
    rcases listenerInput_obj (world now) ciph l d a j o' hj with h1 | ⟨p, h, hg, hm, hp, hf⟩
    · exact Or.inl h1
    · exact Or.inr (Or.inr ⟨p, h, hg, hm, hp, hf⟩)
  rw [inputD_eq] at hj
  cases dead with
  | false => exact live hj
  | true =>
    simp only [if_true] at hj
    cases hdec : (listenerInput (world now) ciph l d a).dec with
    | create x1 x2 old x4 =>
      rw [hdec] at hj
      cases old with
      | none => exact Or.inl hj
      | some old =>
        simp only [] at hj
        rcases closeSess_obj (world now) l old j o' hj with h1 | ⟨hjo, o, ho, _, ho'⟩
        · exact Or.inl h1
        · exact Or.inr (Or.inl ⟨o, by rw [hjo]; exact ho, ho'⟩)
    | drop why => rw [hdec] at hj; exact live hj
    | route x1 x2 => rw [hdec] at hj; exact live hj
    | closedOnly x1 x2 => rw [hdec] at hj; exact live hj

theorem WF_inputD (ciph : Cipher) (now : U32) (l : Listener SessG) (dead : Bool) (d : Bytes) (a : String) (h : WF l)
    (h2 : WF2 l) : WF (inputD ciph now l dead d a) ∧ WF2 (inputD ciph now l dead d a) := by
  rw [inputD_eq]
  cases dead with
  | false => exact ⟨WF_listenerInput _ _ l d a h, WF2_listenerInput _ _ l d a h h2⟩
  | true =>
    simp only [if_true]
    split
    · exact ⟨WF_closeSess _ l _ h, WF2_closeSess _ l _ h2⟩
    · exact ⟨h, h2⟩
    · exact ⟨WF_listenerInput _ _ l d a h, WF2_listenerInput _ _ l d a h h2⟩

/-- a datagram: from an honest address the gate opens it to a datagram its client has emitted, from any
other address it is anything -/
theorem InvL_inputD {honest : String → Bool} {cl : String → U32 → Option SessG} {l : Listener SessG}
    (hw : WireOk) (hwf : WF l) (h : InvL honest cl l) (hc : InvC cl) (ciph : Cipher) (now : U32) (dead : Bool)
    (data : Bytes) (a : String)
    (hsrc : honest a = true → ∃ (c : U32) (g : SessG) (i : Nat) (d : Bytes), cl a c = some g ∧ g.wire[i]? = some d ∧
      cryptGate ciph data = .ok d) :
    InvL honest cl (inputD ciph now l dead data a) := by
  intro j o' hj hh
  rcases inputD_obj ciph now l dead data a j o' hj with h1 | ⟨o, ho, ho'⟩ | ⟨d, hd, hgate, hm, hp, hf⟩
  · exact h j o' h1 hh
  · rw [ho'] at hh ⊢
    obtain ⟨g, hg, hpe⟩ := h j o ho hh
    exact ⟨g, hg, hpe.b (.update now) rfl⟩
  · -- what an honest source's datagram parses to
    have genuine : honest a = true → ∃ (c : U32) (g : SessG) (i : Nat), cl a c = some g ∧ g.wire[i]? = some d ∧ hd.hasConv = true ∧ hd.conv = c := by
      intro ha
      obtain ⟨c, g, i, d', hg, hi, hgd⟩ := hsrc ha
      rw [hgate] at hgd; cases hgd
      obtain ⟨hist, hgh⟩ := hc a c g hg
      have hmem : d ∈ (sessRun { s := Sess.new c } hist).wire := by
        rw [← hgh]; exact List.mem_of_getElem? hi
      rcases hw c hist d hmem with h1 | ⟨sn, h1⟩
      · omega
      · rw [hp] at h1; cases h1
        exact ⟨c, g, i, hg, hi, rfl, rfl⟩
    rcases hf with ⟨o, ho, hl, hcv, ho'⟩ | ⟨o, ho, _, _, _, _, _, ho'⟩ | ⟨_, _, _, ho'⟩
    · -- fed
      obtain ⟨o2, ho2, hoa, _⟩ := hwf a j hl
      rw [ho] at ho2; cases ho2
      rw [ho'] at hh ⊢
      have hh' : honest o.addr = true := hh
      obtain ⟨c, g, i, hg, hi, hhc, hcc⟩ := genuine (by rw [← hoa]; exact hh')
      have hco : c = o.conv := by
        rcases hcv with h1 | h1
        · rw [hhc] at h1; cases h1
        · rw [← hcc]; exact h1
      obtain ⟨g', hg', hpe⟩ := h j o ho hh'
      rw [hoa, ← hco, hg] at hg'
      cases hg'
      refine ⟨g, by show cl o.addr o.conv = some g; rw [hoa, ← hco]; exact hg, ?_⟩
      exact hpe.dlv i d now hi
    · -- closed
      rw [ho'] at hh ⊢
      obtain ⟨g, hg, hpe⟩ := h j o ho hh
      exact ⟨g, hg, hpe.b (.update now) rfl⟩
    · -- fresh
      rw [ho'] at hh ⊢
      obtain ⟨c, g, i, hg, hi, _, hcc⟩ := genuine hh
      obtain ⟨hist, hgh⟩ := hc a c g hg
      refine ⟨g, by show cl a hd.conv = some g; rw [hcc]; exact hg, ?_⟩
      show Peer hd.conv g (sessStep { s := Sess.new hd.conv } (.input d now))
      rw [hcc]
      have := Peer.init c hist
      rw [← hgh] at this
      exact this.dlv i d now hi

/-- **what reaches a session of an honest address**: one datagram from an honest address `a` (the gate
opens it to the `i`-th datagram `d` of `a`'s client of conversation `c`) does to every object exactly
one of: nothing / `closeFx` / feed `d` to the session of `a` whose conversation id is `c` / create the
fresh session `(a, c)` and feed it `d` -/
theorem inputD_genuine {cl : String → U32 → Option SessG} {l : Listener SessG}
    (hw : WireOk) (hwf : WF l) (hc : InvC cl) (ciph : Cipher) (now : U32) (dead : Bool)
    (data : Bytes) (a : String) (c : U32) (g : SessG) (i : Nat) (d : Bytes)
    (hg : cl a c = some g) (hi : g.wire[i]? = some d) (hgd : cryptGate ciph data = .ok d)
    (j : Nat) (o' : SessIn.Sess SessG) (hj : (inputD ciph now l dead data a).objs[j]? = some o') :
    l.objs[j]? = some o' ∨
    (∃ o, l.objs[j]? = some o ∧ o' = { o with st := sessStep o.st (.update now), closed := true }) ∨
    (∃ o, l.objs[j]? = some o ∧ o.addr = a ∧ o.conv = c ∧ o' = { o with st := sessStep o.st (.input d now) }) ∨
    (j = l.objs.length ∧
      o' = { conv := c, addr := a, st := sessStep { s := Sess.new c } (.input d now), closed := false }) := by
  rcases inputD_obj ciph now l dead data a j o' hj with h1 | ⟨o, ho, ho'⟩ | ⟨p, hd, hgate, hm, hp, hf⟩
  · exact Or.inl h1
  · exact Or.inr (Or.inl ⟨o, ho, ho'⟩)
  · rw [hgd] at hgate; cases hgate
    obtain ⟨hist, hgh⟩ := hc a c g hg
    have hmem : d ∈ (sessRun { s := Sess.new c } hist).wire := by
      rw [← hgh]; exact List.mem_of_getElem? hi
    have hhd : hd.hasConv = true ∧ hd.conv = c := by
      rcases hw c hist d hmem with h1 | ⟨sn, h1⟩
      · omega
      · rw [hp] at h1; cases h1; exact ⟨rfl, rfl⟩
    rcases hf with ⟨o, ho, hl, hcv, ho'⟩ | ⟨o, ho, _, _, _, _, _, ho'⟩ | ⟨hjl, _, _, ho'⟩
    · obtain ⟨o2, ho2, hoa, _⟩ := hwf a j hl
      rw [ho] at ho2; cases ho2
      have hco : o.conv = c := by
        rcases hcv with h1 | h1
        · rw [hhd.1] at h1; cases h1
        · rw [← h1]; exact hhd.2
      exact Or.inr (Or.inr (Or.inl ⟨o, ho, hoa, hco, ho'⟩))
    · exact Or.inr (Or.inl ⟨o, ho, ho'⟩)
    · rw [hhd.2] at ho'
      exact Or.inr (Or.inr (Or.inr ⟨hjl, ho'⟩))

/-! ### client-side steps -/

theorem InvL_setClient_new {honest : String → Bool} {cl : String → U32 → Option SessG} {l : Listener SessG}
    (h : InvL honest cl l) (a : String) (c : U32) (g0 : SessG) (hn : cl a c = none) :
    InvL honest (setClient cl a c g0) l := by
  intro j o ho hh
  obtain ⟨g, hg, hp⟩ := h j o ho hh
  refine ⟨g, ?_, hp⟩
  unfold setClient
  by_cases he : o.addr = a ∧ o.conv = c
  · rw [he.1, he.2, hn] at hg; cases hg
  · rw [if_neg he]; exact hg

theorem InvL_setClient_step {honest : String → Bool} {cl : String → U32 → Option SessG} {l : Listener SessG}
    (h : InvL honest cl l) (a : String) (c : U32) (g : SessG) (op : SessOp) (hg : cl a c = some g) :
    InvL honest (setClient cl a c (sessStep g op)) l := by
  intro j o ho hh
  obtain ⟨g', hg', hp⟩ := h j o ho hh
  unfold setClient
  by_cases he : o.addr = a ∧ o.conv = c
  · rw [if_pos he]
    rw [he.1, he.2, hg] at hg'; cases hg'
    exact ⟨_, rfl, hp.a op⟩
  · rw [if_neg he]; exact ⟨g', hg', hp⟩

theorem sessRun_snoc (x : SessG) (h : List SessOp) (op : SessOp) : sessRun x (h ++ [op]) = sessStep (sessRun x h) op := by
  unfold sessRun; rw [List.foldl_append]; rfl

/-! ### every step -/

theorem inv_step (ciph : Cipher) {honest : String → Bool} (hw : WireOk) {s : Sys} (h : Inv honest s) (e : IEv) :
    Inv honest (step ciph honest s e) := by
  cases e with
  | connect a c =>
    cases hc : s.clients a c with
    | some g => simp only [step, hc]; exact h
    | none =>
      simp only [step, hc]
      refine ⟨h.wf, h.wf2, InvL_setClient_new h.objs a c _ hc, ?_⟩
      intro a' c' g hg
      simp only [setClient] at hg
      by_cases he : a' = a ∧ c' = c
      · rw [if_pos he] at hg; cases hg
        rw [he.2]; exact ⟨[], rfl⟩
      · rw [if_neg he] at hg; exact h.cls a' c' g hg
  | client a c op =>
    cases hc : s.clients a c with
    | none => simp only [step, hc]; exact h
    | some g =>
      simp only [step, hc]
      refine ⟨h.wf, h.wf2, InvL_setClient_step h.objs a c g op hc, ?_⟩
      intro a' c' g' hg
      simp only [setClient] at hg
      by_cases he : a' = a ∧ c' = c
      · rw [if_pos he] at hg; cases hg
        obtain ⟨hist, hh⟩ := h.cls a c g hc
        rw [he.2]
        exact ⟨hist ++ [op], by rw [sessRun_snoc, ← hh]⟩
      · rw [if_neg he] at hg; exact h.cls a' c' g' hg
  | deliver a c i wrap now =>
    cases hc : s.clients a c with
    | none => simp only [step, hc]; exact h
    | some g =>
      cases hd : g.wire[i]? with
      | none => simp only [step, hc, hd]; exact h
      | some d =>
        simp only [step, hc, hd]
        by_cases hgate : cryptGate ciph (wrap d) = .ok d
        · rw [if_pos hgate]
          have := WF_inputD ciph now s.l s.dead (wrap d) a h.wf h.wf2
          exact ⟨this.1, this.2,
            InvL_inputD hw h.wf h.objs h.cls ciph now s.dead (wrap d) a (fun _ => ⟨c, g, i, d, hc, hd, hgate⟩), h.cls⟩
        · rw [if_neg hgate]; exact h
  | forge b data now =>
    cases hb : honest b with
    | true => simp only [step, hb, if_true]; exact h
    | false =>
      simp only [step, hb, Bool.false_eq_true, if_false]
      have := WF_inputD ciph now s.l s.dead data b h.wf h.wf2
      exact ⟨this.1, this.2,
        InvL_inputD hw h.wf h.objs h.cls ciph now s.dead data b (fun hh => by rw [hb] at hh; cases hh), h.cls⟩
  | accept =>
    cases hg : (SessIn.accept s.l).got with
    | none => simp only [step, hg]; exact h
    | some id =>
      simp only [step, hg]
      refine ⟨WF_accept s.l h.wf, WF2_accept s.l h.wf2, ?_, h.cls⟩
      intro j o ho
      rw [(accept_objs s.l).1] at ho
      exact h.objs j o ho
  | close id now =>
    exact ⟨WF_userClose _ s.l id h.wf, WF2_closeSess _ s.l id h.wf2, InvL_closeSess h.objs now id, h.cls⟩
  | sess id op =>
    cases hi : isSessInput op with
    | true => simp only [step, hi, if_true]; exact h
    | false =>
      simp only [step, hi, Bool.false_eq_true, if_false]
      refine ⟨WF_modify s.l id _ (fun o => ⟨rfl, rfl⟩) h.wf, WF2_modify s.l id _ (fun o => ⟨rfl, rfl⟩) h.wf2, ?_, h.cls⟩
      intro j o' hj hh
      have hj' : (modifyAt s.l.objs id (fun o => { o with st := sessStep o.st op }))[j]? = some o' := hj
      rw [getElem?_modifyAt] at hj'
      by_cases hji : j = id
      · rw [if_pos hji] at hj'
        cases ho : s.l.objs[j]? with
        | none => rw [ho] at hj'; cases hj'
        | some o =>
          rw [ho] at hj'
          simp only [Option.map_some, Option.some.injEq] at hj'
          rw [← hj'] at hh ⊢
          obtain ⟨g, hg, hp⟩ := h.objs j o ho hh
          exact ⟨g, hg, hp.b op hi⟩
      · rw [if_neg hji] at hj'
        exact h.objs j o' hj' hh
  | listenerClose now =>
    cases hd : s.dead with
    | true => simp only [step, hd, if_true]; exact h
    | false =>
      simp only [step, hd, Bool.false_eq_true, if_false]
      have := WF_closeAll now s.l.accepts s.l h.wf h.wf2
      exact ⟨this.1, this.2, InvL_closeAll now s.l.accepts s.l h.objs, h.cls⟩

theorem inv_run (ciph : Cipher) {honest : String → Bool} (hw : WireOk) (evs : List IEv) :
    ∀ s : Sys, Inv honest s → Inv honest (run ciph honest s evs) := by
  induction evs with
  | nil => intro s h; exact h
  | cons e rest ih => intro s h; exact ih _ (inv_step ciph hw h e)

end KcpVerif.C11Iso
