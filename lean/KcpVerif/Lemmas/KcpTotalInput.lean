/-
C05 (protocol core): the parse loop of `Input` never panics, preserves `InvK`, has a return code
that is a function of the bytes and the conversation id only, and appends at most one ack-list
entry per PUSH header it walks over.
-/
import KcpVerif.Lemmas.KcpTotalFlush

namespace KcpVerif.Total
open KcpVerif KcpVerif.Gen KcpVerif.Kcp

/-! ### `DataLe` through the receive-side and ack-side list loops -/

theorem ackLoop_dataLe {m : Nat} (sn : U32) {l : List Seg} (h : DataLe m l) : DataLe m (ackLoop sn l) := by
  induction l with
  | nil => exact h
  | cons s rest ih =>
    unfold ackLoop
    split
    · exact DataLe.cons (Nat.zero_le _) h.tail
    · split
      · exact h
      · exact DataLe.cons h.head (ih h.tail)

theorem fastLoop_dataLe {m : Nat} (sn ts fr : U32) {l : List Seg} (h : DataLe m l) :
    DataLe m (fastLoop sn ts fr l).buf := by
  induction l with
  | nil => exact h
  | cons s rest ih =>
    unfold fastLoop
    split
    · exact h
    · split
      · exact DataLe.cons h.head (ih h.tail)
      · exact DataLe.cons h.head (ih h.tail)

theorem heapInsert_dataLe {m : Nat} {s : Seg} {l : List Seg} (hs : s.data.length ≤ m) (h : DataLe m l) :
    DataLe m (heapInsert s l) := by
  induction l with
  | nil => exact DataLe.cons hs h
  | cons x rest ih =>
    unfold heapInsert
    split
    · exact DataLe.cons hs h
    · exact DataLe.cons h.head (ih h.tail)

theorem moveLoop_dataLe {m : Nat} (wnd : Nat) {buf q : List Seg} (nxt : U32) (hb : DataLe m buf) (hq : DataLe m q) :
    DataLe m (moveLoop wnd buf q nxt).buf ∧ DataLe m (moveLoop wnd buf q nxt).q := by
  induction buf generalizing q nxt with
  | nil => exact ⟨hb, hq⟩
  | cons s rest ih =>
    unfold moveLoop
    split
    · exact ih _ hb.tail (hq.append (DataLe.cons hb.head (DataLe.nil m)))
    · exact ⟨hb, hq⟩

theorem popMsg_dataLe {m : Nat} {l : List Seg} (h : DataLe m l) : DataLe m (popMsg l).rest := by
  induction l with
  | nil => exact h
  | cons s rest ih =>
    unfold popMsg
    split
    · exact h.tail
    · exact ih h.tail

/-! ### what one step of input processing may change -/

/-- `k'` keeps the configuration, the conversation id and the send queue of `k`, its other
queues keep their payload bounds, and its ack list is at most `n` entries longer. -/
structure PresN (n : Nat) (k k' : Kcp) : Prop where
  mtu    : k'.mtu = k.mtu
  mss    : k'.mss = k.mss
  bufLen : k'.bufLen = k.bufLen
  conv   : k'.conv = k.conv
  sndq   : k'.snd_queue = k.snd_queue
  sndb   : ∀ m, DataLe m k.snd_buf → DataLe m k'.snd_buf
  rcv    : DataLe mtuLimit k.rcv_buf → DataLe mtuLimit k.rcv_queue →
             DataLe mtuLimit k'.rcv_buf ∧ DataLe mtuLimit k'.rcv_queue
  ackl   : k'.acklist.length ≤ k.acklist.length + n

theorem PresN.refl (k : Kcp) : PresN 0 k k :=
  ⟨rfl, rfl, rfl, rfl, rfl, fun _ h => h, fun h1 h2 => ⟨h1, h2⟩, Nat.le_refl _⟩

theorem PresN.trans {a b : Nat} {k1 k2 k3 : Kcp} (h1 : PresN a k1 k2) (h2 : PresN b k2 k3) : PresN (a + b) k1 k3 :=
  ⟨h2.mtu.trans h1.mtu, h2.mss.trans h1.mss, h2.bufLen.trans h1.bufLen, h2.conv.trans h1.conv,
   h2.sndq.trans h1.sndq, fun m h => h2.sndb m (h1.sndb m h),
   fun hb hq => h2.rcv (h1.rcv hb hq).1 (h1.rcv hb hq).2,
   by have := h1.ackl; have := h2.ackl; omega⟩

theorem PresN.mono {a b : Nat} {k k' : Kcp} (h : PresN a k k') (hab : a ≤ b) : PresN b k k' :=
  ⟨h.mtu, h.mss, h.bufLen, h.conv, h.sndq, h.sndb, h.rcv, by have := h.ackl; omega⟩

theorem InvK.of_pres {n : Nat} {k k' : Kcp} (h : InvK k) (hp : PresN n k k') : InvK k' :=
  h.congr hp.mtu hp.mss hp.bufLen (by rw [hp.sndq]; exact h.sndq) (hp.sndb _ h.sndb)
    (hp.rcv h.rcvb h.rcvq).1 (hp.rcv h.rcvb h.rcvq).2

/-- a step that touches none of the fields `PresN` talks about -/
theorem PresN.of_eq {k k' : Kcp} (h1 : k'.mtu = k.mtu) (h2 : k'.mss = k.mss) (h3 : k'.bufLen = k.bufLen)
    (h4 : k'.conv = k.conv) (h5 : k'.snd_queue = k.snd_queue) (h6 : k'.snd_buf = k.snd_buf)
    (h7 : k'.rcv_buf = k.rcv_buf) (h8 : k'.rcv_queue = k.rcv_queue) (h9 : k'.acklist = k.acklist) : PresN 0 k k' :=
  ⟨h1, h2, h3, h4, h5, fun _ h => by rw [h6]; exact h, fun hb hq => by rw [h7, h8]; exact ⟨hb, hq⟩,
   by rw [h9]; exact Nat.le_refl _⟩

theorem parseUna_pres (k : Kcp) (una : U32) : PresN 0 k (parseUna k una).1 := by
  unfold parseUna
  exact ⟨rfl, rfl, rfl, rfl, rfl, fun _ h => h.drop _, fun hb hq => ⟨hb, hq⟩, Nat.le_refl _⟩

theorem dropAcked_dataLe {m : Nat} {l : List Seg} (h : DataLe m l) : DataLe m (dropAcked l) := by
  induction l with
  | nil => exact h
  | cons s rest ih =>
    unfold dropAcked
    split
    · exact ih h.tail
    · exact h

/-- `shrink_buf` (which now also pops the acknowledged head segments) only drops segments and
rewrites `snd_una` -/
theorem shrinkBuf_pres (k : Kcp) : PresN 0 k (shrinkBuf k) := by
  unfold shrinkBuf
  split
  · rename_i s rest hd
    exact ⟨rfl, rfl, rfl, rfl, rfl, fun _ h => by
      show DataLe _ (s :: rest); rw [← hd]; exact dropAcked_dataLe h,
      fun hb hq => ⟨hb, hq⟩, Nat.le_refl _⟩
  · exact ⟨rfl, rfl, rfl, rfl, rfl, fun m _ => DataLe.nil m, fun hb hq => ⟨hb, hq⟩, Nat.le_refl _⟩

theorem parseAck_pres (k : Kcp) (sn : U32) : PresN 0 k (parseAck k sn) := by
  unfold parseAck
  split
  · exact PresN.refl k
  · exact ⟨rfl, rfl, rfl, rfl, rfl, fun _ h => ackLoop_dataLe sn h, fun hb hq => ⟨hb, hq⟩, Nat.le_refl _⟩

theorem parseFastack_pres (k : Kcp) (sn ts : U32) : PresN 0 k (parseFastack k sn ts).1 := by
  unfold parseFastack
  split
  · exact PresN.refl k
  · exact ⟨rfl, rfl, rfl, rfl, rfl, fun _ h => fastLoop_dataLe sn ts _ h, fun hb hq => ⟨hb, hq⟩, Nat.le_refl _⟩

theorem moveReady_pres (k : Kcp) : PresN 0 k (moveReady k) := by
  unfold moveReady
  exact ⟨rfl, rfl, rfl, rfl, rfl, fun _ h => h, fun hb hq => moveLoop_dataLe _ _ hb hq, Nat.le_refl _⟩

/-- `parse_data` cannot fail on a payload that fits a pool buffer -/
theorem parseData_pres (k : Kcp) (s : Seg) (hs : s.data.length ≤ mtuLimit) :
    (parseData k s).panic = false ∧ PresN 0 k (parseData k s).k := by
  unfold parseData
  split
  · exact ⟨rfl, PresN.refl k⟩
  · split
    · exact ⟨rfl, moveReady_pres k⟩
    · rw [if_neg (by omega)]
      refine ⟨rfl, ?_⟩
      have h1 : PresN 0 k { k with rcv_buf := heapInsert s k.rcv_buf } :=
        ⟨rfl, rfl, rfl, rfl, rfl, fun _ h => h, fun hb hq => ⟨heapInsert_dataLe hs hb, hq⟩, Nat.le_refl _⟩
      exact h1.trans (moveReady_pres _)

/-! ### one header of the parse loop -/

/-- the body of `inputLoop` after the three validity checks -/
def segStep (regular : Bool) (st : InLoop) (conv : U32) (cmd frg : BitVec 8) (wnd : BitVec 16)
    (ts sn una : U32) (payload : Bytes) : InLoop :=
  let k1 := if regular then { st.k with rmt_wnd := wnd.setWidth 32 } else st.k
  let pu := parseUna k1 una
  let st1 := { st with k := shrinkBuf pu.1, flushSeg := st.flushSeg || decide (pu.2 > 0) }
  if cmd.toNat = IKCP_CMD_ACK then
    let k2 := shrinkBuf (parseAck st1.k sn)
    let pf := parseFastack k2 sn ts
    { st1 with k := pf.1, flushSeg := st1.flushSeg || pf.2, updRtt := true, latest := ts }
  else if cmd.toNat = IKCP_CMD_PUSH then
    if itimediff sn (st1.k.rcv_nxt + st1.k.rcv_wnd) < 0 then
      let k2 := { st1.k with acklist := st1.k.acklist ++ [⟨sn, ts⟩] }
      if itimediff sn k2.rcv_nxt ≥ 0 then
        let r := parseData k2 { conv := conv, cmd := cmd, frg := frg, wnd := wnd, ts := ts, sn := sn, una := una,
                                data := payload }
        { st1 with k := r.k, panic := r.panic }
      else { st1 with k := k2 }
    else st1
  else if cmd.toNat = IKCP_CMD_WASK then
    { st1 with k := { st1.k with probe := st1.k.probe ||| u32 IKCP_ASK_TELL } }
  else st1

/-- the command byte is none of PUSH / ACK / WASK / WINS -/
def badCmd (data : Bytes) : Prop :=
  (BitVec.ofNat 8 (byteAt data 4)).toNat ≠ IKCP_CMD_PUSH ∧ (BitVec.ofNat 8 (byteAt data 4)).toNat ≠ IKCP_CMD_ACK ∧
  (BitVec.ofNat 8 (byteAt data 4)).toNat ≠ IKCP_CMD_WASK ∧ (BitVec.ofNat 8 (byteAt data 4)).toNat ≠ IKCP_CMD_WINS

instance (data : Bytes) : Decidable (badCmd data) := by unfold badCmd; infer_instance

/-- the length field of the first header claims more bytes than follow, or more than a pool buffer -/
def badLen (data : Bytes) : Prop :=
  (data.drop IKCP_OVERHEAD).length < (rd32 data 20).toNat ∨ (rd32 data 20).toNat > mtuLimit

instance (data : Bytes) : Decidable (badLen data) := by unfold badLen; infer_instance

/-- what follows the first segment -/
def nextSeg (data : Bytes) : Bytes := (data.drop IKCP_OVERHEAD).drop (rd32 data 20).toNat

theorem inputLoop_succ (regular : Bool) (fuel : Nat) (data : Bytes) (st : InLoop) :
    inputLoop regular (fuel + 1) data st =
      if data.length < IKCP_OVERHEAD then st else
      if rd32 data 0 ≠ st.k.conv then { st with ret := -1 } else
      if badLen data then { st with ret := -2 } else
      if badCmd data then { st with ret := -3 } else
      if (segStep regular st (rd32 data 0) (BitVec.ofNat 8 (byteAt data 4)) (BitVec.ofNat 8 (byteAt data 5))
            (rd16 data 6) (rd32 data 8) (rd32 data 12) (rd32 data 16)
            ((data.drop IKCP_OVERHEAD).take (rd32 data 20).toNat)).panic then
        segStep regular st (rd32 data 0) (BitVec.ofNat 8 (byteAt data 4)) (BitVec.ofNat 8 (byteAt data 5))
            (rd16 data 6) (rd32 data 8) (rd32 data 12) (rd32 data 16)
            ((data.drop IKCP_OVERHEAD).take (rd32 data 20).toNat)
      else inputLoop regular fuel (nextSeg data)
        (segStep regular st (rd32 data 0) (BitVec.ofNat 8 (byteAt data 4)) (BitVec.ofNat 8 (byteAt data 5))
            (rd16 data 6) (rd32 data 8) (rd32 data 12) (rd32 data 16)
            ((data.drop IKCP_OVERHEAD).take (rd32 data 20).toNat)) := rfl

theorem segStep_ok (regular : Bool) (st : InLoop) (conv : U32) (cmd frg : BitVec 8) (wnd : BitVec 16)
    (ts sn una : U32) (payload : Bytes) (hp : payload.length ≤ mtuLimit) (hst : st.panic = false) :
    (segStep regular st conv cmd frg wnd ts sn una payload).panic = false ∧
    (segStep regular st conv cmd frg wnd ts sn una payload).ret = st.ret ∧
    PresN (if cmd.toNat = IKCP_CMD_PUSH then 1 else 0) st.k
      (segStep regular st conv cmd frg wnd ts sn una payload).k := by
  have hk1 : PresN 0 st.k (if regular then { st.k with rmt_wnd := wnd.setWidth 32 } else st.k) := by
    split
    · exact PresN.of_eq rfl rfl rfl rfl rfl rfl rfl rfl rfl
    · exact PresN.refl _
  unfold segStep
  simp only []
  generalize (if regular then { st.k with rmt_wnd := wnd.setWidth 32 } else st.k) = k1 at hk1
  have hk2 : PresN 0 st.k (shrinkBuf (parseUna k1 una).1) :=
    (hk1.trans (parseUna_pres k1 una)).trans (shrinkBuf_pres _)
  generalize shrinkBuf (parseUna k1 una).1 = k2 at hk2
  by_cases hack : cmd.toNat = IKCP_CMD_ACK
  · rw [if_pos hack]
    have hne : cmd.toNat ≠ IKCP_CMD_PUSH := by rw [hack]; decide
    rw [if_neg hne]
    exact ⟨hst, rfl, ((hk2.trans (parseAck_pres k2 sn)).trans (shrinkBuf_pres _)).trans (parseFastack_pres _ sn ts)⟩
  · rw [if_neg hack]
    by_cases hpush : cmd.toNat = IKCP_CMD_PUSH
    · rw [if_pos hpush, if_pos hpush]
      split
      · have hk3 : PresN 1 k2 { k2 with acklist := k2.acklist ++ [⟨sn, ts⟩] } :=
          ⟨rfl, rfl, rfl, rfl, rfl, fun _ h => h, fun hb hq => ⟨hb, hq⟩, by simp⟩
        split
        · have hd := parseData_pres { k2 with acklist := k2.acklist ++ [⟨sn, ts⟩] }
            { conv := conv, cmd := cmd, frg := frg, wnd := wnd, ts := ts, sn := sn, una := una, data := payload } hp
          exact ⟨hd.1, rfl, (hk2.trans hk3).trans hd.2⟩
        · exact ⟨hst, rfl, hk2.trans hk3⟩
      · exact ⟨hst, rfl, hk2.mono (Nat.zero_le _)⟩
    · rw [if_neg hpush, if_neg hpush]
      split
      · have hk3 : PresN 0 k2 { k2 with probe := k2.probe ||| u32 IKCP_ASK_TELL } :=
          PresN.of_eq rfl rfl rfl rfl rfl rfl rfl rfl rfl
        exact ⟨hst, rfl, hk2.trans hk3⟩
      · exact ⟨hst, rfl, hk2⟩

/-! ### the whole parse loop -/

/-- **The return code of the parse loop as a function of the bytes and the conversation id only**:
walk the headers; `0` when fewer than 24 bytes remain, `−1` on a foreign conversation id, `−2` on a
truncated or oversize payload, `−3` on an unknown command. -/
def retSpec (conv : U32) : Nat → Bytes → Int
  | 0, _ => 0
  | fuel + 1, data =>
    if data.length < IKCP_OVERHEAD then 0 else
    if rd32 data 0 ≠ conv then -1 else
    if badLen data then -2 else
    if badCmd data then -3 else
    retSpec conv fuel (nextSeg data)

/-- the number of PUSH headers among the segments the loop walks over -/
def pushSpec (conv : U32) : Nat → Bytes → Nat
  | 0, _ => 0
  | fuel + 1, data =>
    if data.length < IKCP_OVERHEAD then 0 else
    if rd32 data 0 ≠ conv then 0 else
    if badLen data then 0 else
    if badCmd data then 0 else
    (if (BitVec.ofNat 8 (byteAt data 4)).toNat = IKCP_CMD_PUSH then 1 else 0) + pushSpec conv fuel (nextSeg data)

theorem inputLoop_ok (regular : Bool) (fuel : Nat) (data : Bytes) (st : InLoop)
    (hst : st.panic = false) (h0 : st.ret = 0) :
    (inputLoop regular fuel data st).panic = false ∧
    (inputLoop regular fuel data st).ret = retSpec st.k.conv fuel data ∧
    PresN (pushSpec st.k.conv fuel data) st.k (inputLoop regular fuel data st).k := by
  induction fuel generalizing data st with
  | zero => exact ⟨hst, h0, PresN.refl _⟩
  | succ fuel ih =>
    rw [inputLoop_succ]
    unfold retSpec pushSpec
    by_cases h1 : data.length < IKCP_OVERHEAD
    · rw [if_pos h1, if_pos h1, if_pos h1]; exact ⟨hst, h0, PresN.refl _⟩
    · rw [if_neg h1, if_neg h1, if_neg h1]
      by_cases h2 : rd32 data 0 ≠ st.k.conv
      · rw [if_pos h2, if_pos h2, if_pos h2]; exact ⟨hst, rfl, PresN.refl _⟩
      · rw [if_neg h2, if_neg h2, if_neg h2]
        by_cases h3 : badLen data
        · rw [if_pos h3, if_pos h3, if_pos h3]; exact ⟨hst, rfl, PresN.refl _⟩
        · rw [if_neg h3, if_neg h3, if_neg h3]
          by_cases h4 : badCmd data
          · rw [if_pos h4, if_pos h4, if_pos h4]; exact ⟨hst, rfl, PresN.refl _⟩
          · rw [if_neg h4, if_neg h4, if_neg h4]
            have hp : ((data.drop IKCP_OVERHEAD).take (rd32 data 20).toNat).length ≤ mtuLimit := by
              unfold badLen at h3
              rw [List.length_take]; omega
            have hs := segStep_ok regular st (rd32 data 0) (BitVec.ofNat 8 (byteAt data 4))
              (BitVec.ofNat 8 (byteAt data 5)) (rd16 data 6) (rd32 data 8) (rd32 data 12) (rd32 data 16)
              ((data.drop IKCP_OVERHEAD).take (rd32 data 20).toNat) hp hst
            generalize segStep regular st (rd32 data 0) (BitVec.ofNat 8 (byteAt data 4))
              (BitVec.ofNat 8 (byteAt data 5)) (rd16 data 6) (rd32 data 8) (rd32 data 12) (rd32 data 16)
              ((data.drop IKCP_OVERHEAD).take (rd32 data 20).toNat) = st2 at hs
            rw [if_neg (by rw [hs.1]; decide)]
            have hi := ih (nextSeg data) st2 hs.1 (hs.2.1.trans h0)
            rw [hs.2.2.conv] at hi
            exact ⟨hi.1, hi.2.1, hs.2.2.trans hi.2.2⟩

/-- at most one PUSH per 24 bytes -/
theorem pushSpec_le (conv : U32) (fuel : Nat) (data : Bytes) : pushSpec conv fuel data ≤ data.length / IKCP_OVERHEAD := by
  induction fuel generalizing data with
  | zero => exact Nat.zero_le _
  | succ fuel ih =>
    unfold pushSpec
    split
    · exact Nat.zero_le _
    · split
      · exact Nat.zero_le _
      · split
        · exact Nat.zero_le _
        · split
          · exact Nat.zero_le _
          · rename_i h1 _ _ _
            have := ih (nextSeg data)
            have hl : (nextSeg data).length ≤ data.length - IKCP_OVERHEAD := by
              unfold nextSeg; simp only [List.length_drop]; omega
            have : (nextSeg data).length / IKCP_OVERHEAD ≤ (data.length - IKCP_OVERHEAD) / IKCP_OVERHEAD :=
              Nat.div_le_div_right hl
            unfold IKCP_OVERHEAD at *
            split <;> omega

/-! ### after the loop -/

theorem updateAck_pres (k : Kcp) (rtt : U32) : PresN 0 k (updateAck k rtt) := by
  have h1 : PresN 0 k (smoothRtt k rtt) := by
    unfold smoothRtt
    split
    · exact PresN.of_eq rfl rfl rfl rfl rfl rfl rfl rfl rfl
    · exact PresN.of_eq rfl rfl rfl rfl rfl rfl rfl rfl rfl
  unfold updateAck
  simp only []
  generalize smoothRtt k rtt = k1 at h1
  apply h1.trans (b := 0)
  exact PresN.of_eq rfl rfl rfl rfl rfl rfl rfl rfl rfl

theorem cwndOnAck_pres (k : Kcp) (old : U32) : PresN 0 k (cwndOnAck k old) := by
  unfold cwndOnAck
  simp only []
  repeat' split
  all_goals exact PresN.of_eq rfl rfl rfl rfl rfl rfl rfl rfl rfl

theorem retSpec_cases (conv : U32) (fuel : Nat) (d : Bytes) :
    retSpec conv fuel d = 0 ∨ retSpec conv fuel d = -1 ∨ retSpec conv fuel d = -2 ∨ retSpec conv fuel d = -3 := by
  induction fuel generalizing d with
  | zero => exact Or.inl rfl
  | succ fuel ih =>
    unfold retSpec
    split
    · exact Or.inl rfl
    · split
      · exact Or.inr (Or.inl rfl)
      · split
        · exact Or.inr (Or.inr (Or.inl rfl))
        · split
          · exact Or.inr (Or.inr (Or.inr rfl))
          · exact ih _

/-- the return code of `Input` as a function of the bytes and the conversation id -/
def inputRet (conv : U32) (d : Bytes) : Int :=
  if d.length < IKCP_OVERHEAD then -1 else retSpec conv (d.length / IKCP_OVERHEAD + 1) d

theorem mtu_div_pos {k : Kcp} (h : InvK k) : 0 < (k.mtu / u32 IKCP_OVERHEAD).toNat := by
  have := h.mtu_gt
  unfold u32 IKCP_OVERHEAD at *
  rw [BitVec.toNat_udiv]
  simp only [BitVec.toNat_ofNat, Nat.reducePow, Nat.reduceMod]
  omega

/-- **`Input` is total under `InvK`**, for every byte string. -/
theorem input_total {k : Kcp} (h : InvK k) (d : Bytes) (regular ackNoDelay : Bool) (now : U32) :
    (input k d regular ackNoDelay now).panic = false ∧
    InvK (input k d regular ackNoDelay now).k ∧
    (input k d regular ackNoDelay now).ret = inputRet k.conv d ∧
    (input k d regular ackNoDelay now).k.mtu = k.mtu ∧
    (input k d regular ackNoDelay now).k.acklist.length ≤
      k.acklist.length + pushSpec k.conv (d.length / IKCP_OVERHEAD + 1) d ∧
    ((input k d regular ackNoDelay now).ret = 0 →
      (input k d regular ackNoDelay now).k.acklist.length < (k.mtu / u32 IKCP_OVERHEAD).toNat) := by
  unfold input inputRet
  by_cases hshort : d.length < IKCP_OVERHEAD
  · rw [if_pos hshort, if_pos hshort]
    exact ⟨rfl, h, rfl, rfl, Nat.le_add_right _ _, fun h0 => by simp at h0⟩
  · rw [if_neg hshort, if_neg hshort]
    have hl := inputLoop_ok regular (d.length / IKCP_OVERHEAD + 1) d { k := k } rfl rfl
    simp only []
    generalize inputLoop regular (d.length / IKCP_OVERHEAD + 1) d { k := k } = st at hl
    simp only [] at hl
    rw [if_neg (by rw [hl.1]; decide)]
    by_cases hret : st.ret < 0
    · rw [if_pos hret]
      exact ⟨rfl, h.of_pres hl.2.2, hl.2.1, hl.2.2.mtu, hl.2.2.ackl, fun h0 => by simp only [] at h0; omega⟩
    · rw [if_neg hret]
      have hr0 : retSpec k.conv (d.length / IKCP_OVERHEAD + 1) d = 0 := by
        have := retSpec_cases k.conv (d.length / IKCP_OVERHEAD + 1) d
        have := hl.2.1
        omega
      rw [hr0]
      have hk1 : PresN 0 st.k (if st.updRtt ∧ regular ∧ itimediff now st.latest ≥ 0
          then updateAck st.k (now - st.latest) else st.k) := by
        split
        · exact updateAck_pres _ _
        · exact PresN.refl _
      generalize (if st.updRtt ∧ regular ∧ itimediff now st.latest ≥ 0
          then updateAck st.k (now - st.latest) else st.k) = k1 at hk1
      have hk2 : PresN (pushSpec k.conv (d.length / IKCP_OVERHEAD + 1) d) k (cwndOnAck k1 k.snd_una) :=
        hl.2.2.trans (hk1.trans (cwndOnAck_pres k1 k.snd_una))
      generalize cwndOnAck k1 k.snd_una = k2 at hk2
      have hi2 : InvK k2 := h.of_pres hk2
      have hpos : 0 < (k.mtu / u32 IKCP_OVERHEAD).toNat := mtu_div_pos h
      have hfl : ∀ full, (flush k2 full now).panic = false ∧ InvK (flush k2 full now).k ∧ (0 : Int) = 0 ∧
          (flush k2 full now).k.mtu = k.mtu ∧
          (flush k2 full now).k.acklist.length ≤ k.acklist.length + pushSpec k.conv (d.length / IKCP_OVERHEAD + 1) d ∧
          ((0 : Int) = 0 → (flush k2 full now).k.acklist.length < (k.mtu / u32 IKCP_OVERHEAD).toNat) := by
        intro full
        have hf := flush_total hi2 full now
        refine ⟨hf.1, hf.2.1, rfl, hf.2.2.2.mtu.trans hk2.mtu, ?_, fun _ => ?_⟩
        · rw [hf.2.2.1]; exact Nat.zero_le _
        · rw [hf.2.2.1]; exact hpos
      split
      · exact hfl true
      · split
        · exact hfl false
        · split
          · exact hfl false
          · rename_i _ hlen _
            refine ⟨rfl, hi2, rfl, hk2.mtu, hk2.ackl, fun _ => ?_⟩
            simp only [hk2.mtu] at hlen
            simp only []
            omega

/-- the return code of `Input` in ANY state (no invariant needed): a function of the bytes and
the conversation id -/
theorem input_ret (k : Kcp) (d : Bytes) (regular ackNoDelay : Bool) (now : U32) :
    (input k d regular ackNoDelay now).ret = inputRet k.conv d := by
  unfold input inputRet
  by_cases hshort : d.length < IKCP_OVERHEAD
  · rw [if_pos hshort, if_pos hshort]
  · rw [if_neg hshort, if_neg hshort]
    have hl := inputLoop_ok regular (d.length / IKCP_OVERHEAD + 1) d { k := k } rfl rfl
    simp only []
    generalize inputLoop regular (d.length / IKCP_OVERHEAD + 1) d { k := k } = st at hl
    simp only [] at hl
    rw [if_neg (by rw [hl.1]; decide)]
    by_cases hret : st.ret < 0
    · rw [if_pos hret]; exact hl.2.1
    · rw [if_neg hret]
      have hr0 : retSpec k.conv (d.length / IKCP_OVERHEAD + 1) d = 0 := by
        have := retSpec_cases k.conv (d.length / IKCP_OVERHEAD + 1) d
        have := hl.2.1
        omega
      rw [hr0]
      generalize cwndOnAck _ k.snd_una = k2
      split
      · rfl
      · split
        · rfl
        · split <;> rfl

theorem inputRet_cases (conv : U32) (d : Bytes) :
    inputRet conv d = 0 ∨ inputRet conv d = -1 ∨ inputRet conv d = -2 ∨ inputRet conv d = -3 := by
  unfold inputRet
  split
  · exact Or.inr (Or.inl rfl)
  · exact retSpec_cases _ _ _

/-- the parse loop's verdict does not depend on the fuel once there is one unit per 24 bytes -/
theorem retSpec_fuel (conv : U32) (f1 f2 : Nat) (d : Bytes)
    (h1 : d.length / IKCP_OVERHEAD < f1) (h2 : d.length / IKCP_OVERHEAD < f2) :
    retSpec conv f1 d = retSpec conv f2 d := by
  induction f1 generalizing f2 d with
  | zero => exact absurd h1 (Nat.not_lt_zero _)
  | succ f1 ih =>
    cases f2 with
    | zero => exact absurd h2 (Nat.not_lt_zero _)
    | succ f2 =>
      unfold retSpec
      split
      · rfl
      · split
        · rfl
        · split
          · rfl
          · split
            · rfl
            · rename_i hlen _ _ _
              have hl : (nextSeg d).length ≤ d.length - IKCP_OVERHEAD := by
                unfold nextSeg; simp only [List.length_drop]; omega
              have : (nextSeg d).length / IKCP_OVERHEAD ≤ (d.length - IKCP_OVERHEAD) / IKCP_OVERHEAD :=
                Nat.div_le_div_right hl
              apply ih
              · unfold IKCP_OVERHEAD at *; omega
              · unfold IKCP_OVERHEAD at *; omega

/-- the fuel of the model's parse loop is an artefact: one unit per 24 bytes is always enough, the
loop ends because the data runs out -/
theorem inputLoop_fuel (regular : Bool) (f1 f2 : Nat) (d : Bytes) (st : InLoop)
    (h1 : d.length / IKCP_OVERHEAD < f1) (h2 : d.length / IKCP_OVERHEAD < f2) :
    inputLoop regular f1 d st = inputLoop regular f2 d st := by
  induction f1 generalizing f2 d st with
  | zero => exact absurd h1 (Nat.not_lt_zero _)
  | succ f1 ih =>
    cases f2 with
    | zero => exact absurd h2 (Nat.not_lt_zero _)
    | succ f2 =>
      rw [inputLoop_succ, inputLoop_succ]
      split
      · rfl
      · split
        · rfl
        · split
          · rfl
          · split
            · rfl
            · split
              · rfl
              · rename_i hlen _ _ _ _
                have hl : (nextSeg d).length ≤ d.length - IKCP_OVERHEAD := by
                  unfold nextSeg; simp only [List.length_drop]; omega
                have : (nextSeg d).length / IKCP_OVERHEAD ≤ (d.length - IKCP_OVERHEAD) / IKCP_OVERHEAD :=
                  Nat.div_le_div_right hl
                apply ih
                · unfold IKCP_OVERHEAD at *; omega
                · unfold IKCP_OVERHEAD at *; omega

/-- a datagram whose FIRST header is rejected changes nothing and emits nothing -/
theorem input_reject_first (k : Kcp) (d : Bytes) (regular ackNoDelay : Bool) (now : U32)
    (h : d.length < IKCP_OVERHEAD ∨ rd32 d 0 ≠ k.conv ∨ badLen d ∨ badCmd d) :
    (input k d regular ackNoDelay now).k = k ∧ (input k d regular ackNoDelay now).outs = [] ∧
    (input k d regular ackNoDelay now).ret < 0 := by
  unfold input
  by_cases h1 : d.length < IKCP_OVERHEAD
  · rw [if_pos h1]; exact ⟨rfl, rfl, by show (-1 : Int) < 0; decide⟩
  · rw [if_neg h1]
    simp only []
    rw [inputLoop_succ, if_neg h1]
    by_cases h2 : rd32 d 0 ≠ k.conv
    · rw [if_pos h2]; simp
    · rw [if_neg h2]
      by_cases h3 : badLen d
      · rw [if_pos h3]; simp
      · rw [if_neg h3]
        by_cases h4 : badCmd d
        · rw [if_pos h4]; simp
        · exfalso
          rcases h with h | h | h | h
          · exact h1 h
          · exact h2 h
          · exact h3 h
          · exact h4 h

/-- a rejected datagram (negative return) never makes the core transmit -/
theorem input_neg_outs (k : Kcp) (d : Bytes) (regular ackNoDelay : Bool) (now : U32)
    (h : (input k d regular ackNoDelay now).ret < 0) : (input k d regular ackNoDelay now).outs = [] := by
  revert h
  unfold input
  split
  · intro _; rfl
  · simp only []
    generalize inputLoop regular (d.length / IKCP_OVERHEAD + 1) d { k := k } = st
    split
    · intro _; rfl
    · split
      · intro _; rfl
      · generalize cwndOnAck _ k.snd_una = k2
        split
        · intro h; exact absurd h (by show ¬ (0 : Int) < 0; decide)
        · split
          · intro h; exact absurd h (by show ¬ (0 : Int) < 0; decide)
          · split
            · intro h; exact absurd h (by show ¬ (0 : Int) < 0; decide)
            · intro _; rfl

end KcpVerif.Total
