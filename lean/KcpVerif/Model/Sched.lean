/-
Model of `timedsched.go` (C17): a labelled transition system of the two-stage timed scheduler.
Core Lean only (linked into the driver).

What is modelled, statement by statement (line numbers of timedsched.go):

* `Put` (172-181): `put` = lock/append/unlock (the task is in `pre`, one more producer is between
  the append and the notify: `pend`), `notify` = the non-blocking send on `chPrependNotify`
  (`ntok := true`; a full channel drops the send).
* `prepend` (146-169): `takeToken` (150), `swap` (151-154: `batch := pre; pre := []`),
  `handoff i` (158: the rendezvous on the unbuffered `chTask` with worker `i` standing at its
  `select`); an empty `batch` is the goroutine back at its outer `select`.
* `sched` (104-142), one `Worker` each, program counter `WPc`:
  `select` —`handoff`→ `gotTask t` —`readNow`→ (113-116: `now.After(task.ts)` ⇒ execute, back to
  `select`) | (118: push) `pushed now` —`stop`→ (120) `stopped now r` —`drain`→ (121-123: receive
  iff `!stopped && !drained`, *blocks* when the channel is empty) `reset now` —`reset`→ (124-125)
  `select`;  `select` —`recvTimer`→ (127-128) `loop v` —`pop t`→ (130-131) `loop v` … —`loopEnd`→
  (129 heap empty | 133-135 Reset) `select`.
* the runtime: `fire v` (an armed timer whose `when` has come sends `v` with `when ≤ v ≤ now`,
  non-blocking, `runtime/time.go unlockAndRun` + `time.sendTime`: the value is
  `Now() - (now_run - when)`), `tick d` (time passes).
* the timer object for both channel semantics (`Mode`), from `runtime/time.go` `stop`/`modify`:
  `sync` (`asynctimerchan=0`, Go ≥ 1.23): `Stop` and `Reset` discard a buffered value and `Stop`
  reports `armed ∨ buffered`; `async` (`asynctimerchan=1`): the channel is an ordinary 1-buffered
  channel the runtime never drains, `Stop` reports `armed`, a send to a full channel is dropped
  (the stale value stays).
  `Reset(d)` arms for `when = runtimeNano() + max d 0` (`time.when`).

The heap is an unordered list; `pop t` may take any element of minimal deadline (the tie-break
of `container/heap` is not modelled), `tasks[0].ts` is `minTs`.

Ghost state (not in the code): `sub` (everything ever submitted), `done` (executions with the
clock value at the execution), `log` (the observable events in order, newest first),
`armedAt`/`usedNow` (when the timer was last Reset and which clock reading the duration was
computed from).  Tasks are instantaneous.  `Close` is not modelled: it only removes
transitions, so every safety invariant survives it.
-/
namespace KcpVerif.Sched

abbrev Time := Nat
abbrev TaskId := Nat

structure Task where
  id : TaskId
  ts : Time
deriving DecidableEq, Repr

/-- Go timer-channel semantics: `sync` = `asynctimerchan=0` (Go ≥ 1.23), `async` = `=1`. -/
inductive Mode
  | sync
  | async
deriving DecidableEq, Repr

/-! ### the timer object -/

structure Timer where
  armed : Option Time   -- `t.when` (none = not in any heap / when = 0)
  chan : Option Time    -- the value buffered in `t.C`
deriving DecidableEq, Repr

structure StopRes where
  stopped : Bool
  timer : Timer
deriving DecidableEq, Repr

def Timer.stop (m : Mode) (t : Timer) : StopRes :=
  match m with
  | .sync => { stopped := t.armed.isSome || t.chan.isSome, timer := { armed := none, chan := none } }
  | .async => { stopped := t.armed.isSome, timer := { armed := none, chan := t.chan } }

def Timer.reset (m : Mode) (t : Timer) (w : Time) : Timer :=
  match m with
  | .sync => { armed := some w, chan := none }
  | .async => { armed := some w, chan := t.chan }

/-- the runtime runs the timer: non-blocking send of `v` -/
def Timer.fire (t : Timer) (v : Time) : Timer :=
  { armed := none, chan := match t.chan with | none => some v | some x => some x }

def Timer.recv (t : Timer) : Timer := { armed := t.armed, chan := none }

/-! ### workers -/

inductive WPc
  | select
  | gotTask (t : Task)
  | pushed (now : Time)
  | stopped (now : Time) (st : Bool)
  | reset (now : Time)
  | loop (v : Time)
deriving DecidableEq, Repr

structure Worker where
  pc : WPc
  heap : List Task
  timer : Timer
  drained : Bool
  armedAt : Time
  usedNow : Time
deriving DecidableEq, Repr

/-- `tasks[0].ts` of a non-empty heap -/
def minTs : List Task → Time
  | [] => 0
  | [t] => t.ts
  | t :: u :: rest => min t.ts (minTs (u :: rest))

inductive WLabel
  | readNow
  | stop
  | drain
  | reset
  | recvTimer
  | pop (t : Task)
  | loopEnd
  | fire (v : Time)
deriving DecidableEq, Repr

structure WOut where
  w : Worker
  exec : Option Task
deriving DecidableEq, Repr

/-- one step of a worker (or of the runtime on the worker's timer) at clock value `now` -/
def wstep (m : Mode) (now : Time) (w : Worker) : WLabel → Option WOut
  | .readNow =>
    match w.pc with
    | .gotTask t =>
      if t.ts < now then some { w := { w with pc := .select }, exec := some t }
      else some { w := { w with pc := .pushed now, heap := t :: w.heap }, exec := none }
    | _ => none
  | .stop =>
    match w.pc with
    | .pushed n =>
      some { w := { w with pc := .stopped n (w.timer.stop m).stopped, timer := (w.timer.stop m).timer },
             exec := none }
    | _ => none
  | .drain =>
    match w.pc with
    | .stopped n st =>
      if st = false ∧ w.drained = false then
        match w.timer.chan with
        | some _ => some { w := { w with pc := .reset n, timer := w.timer.recv }, exec := none }
        | none => none      -- `<-timer.C` blocks for ever
      else some { w := { w with pc := .reset n }, exec := none }
    | _ => none
  | .reset =>
    match w.pc with
    | .reset n =>
      some { w := { w with pc := .select, timer := w.timer.reset m (now + (minTs w.heap - n)),
                           drained := false, armedAt := now, usedNow := n },
             exec := none }
    | _ => none
  | .recvTimer =>
    match w.pc with
    | .select =>
      match w.timer.chan with
      | some v => some { w := { w with pc := .loop v, timer := w.timer.recv, drained := true }, exec := none }
      | none => none
    | _ => none
  | .pop t =>
    match w.pc with
    | .loop v =>
      if t ∈ w.heap ∧ t.ts = minTs w.heap ∧ t.ts < v then
        some { w := { w with heap := w.heap.erase t }, exec := some t }
      else none
    | _ => none
  | .loopEnd =>
    match w.pc with
    | .loop v =>
      if w.heap = [] then some { w := { w with pc := .select }, exec := none }
      else if minTs w.heap < v then none      -- the loop must pop first
      else some { w := { w with pc := .select, timer := w.timer.reset m (now + (minTs w.heap - v)),
                                drained := false, armedAt := now, usedNow := v },
                  exec := none }
    | _ => none
  | .fire v =>
    match w.timer.armed with
    | some wh =>
      if wh ≤ now ∧ wh ≤ v ∧ v ≤ now then some { w := { w with timer := w.timer.fire v }, exec := none }
      else none
    | none => none

/-- tasks a worker is responsible for: the one in hand plus its heap -/
def held (w : Worker) : List Task :=
  match w.pc with
  | .gotTask t => t :: w.heap
  | _ => w.heap

/-- the worker half of the `chTask` rendezvous -/
def Worker.recvTask (w : Worker) (t : Task) : Option Worker :=
  match w.pc with
  | .select => some { w with pc := .gotTask t }
  | _ => none

/-! ### the whole scheduler -/

inductive PPc
  | idle
  | gotToken
deriving DecidableEq, Repr

structure Exec where
  task : Task
  time : Time
deriving DecidableEq, Repr

/-- observable events (what the harness can see from outside) -/
inductive Obs
  | put (id : TaskId) (ts : Time) (time : Time)
  | exec (id : TaskId) (time : Time)
  | fin
deriving DecidableEq, Repr

structure State where
  now : Time
  sub : List Task
  pre : List Task
  pend : Nat
  ntok : Bool
  ppc : PPc
  batch : List Task
  ws : List Worker
  done : List Exec
  log : List Obs
deriving DecidableEq, Repr

inductive Label
  | tick (d : Nat)
  | put (id : TaskId) (ts : Time)
  | notify
  | takeToken
  | swap
  | handoff (i : Nat)
  | w (i : Nat) (l : WLabel)
deriving DecidableEq, Repr

def newWorker (t0 : Time) : Worker :=
  { pc := .select, heap := [], timer := { armed := some t0, chan := none }, drained := false,
    armedAt := t0, usedNow := t0 }

/-- `NewTimedSched(k)` at time `t0` -/
def init (k : Nat) (t0 : Time) : State :=
  { now := t0, sub := [], pre := [], pend := 0, ntok := false, ppc := .idle, batch := [],
    ws := List.replicate k (newWorker t0), done := [], log := [] }

def logExec (now : Time) (e : Option Task) (s : State) : State :=
  match e with
  | some t => { s with done := { task := t, time := now } :: s.done, log := .exec t.id now :: s.log }
  | none => s

def step (m : Mode) (s : State) : Label → Option State
  | .tick d => some { s with now := s.now + d }
  | .put id ts =>
    if id ∈ s.sub.map (·.id) then none
    else some { s with sub := { id := id, ts := ts } :: s.sub, pre := s.pre ++ [{ id := id, ts := ts }],
                       pend := s.pend + 1, log := .put id ts s.now :: s.log }
  | .notify =>
    if s.pend = 0 then none else some { s with pend := s.pend - 1, ntok := true }
  | .takeToken =>
    if s.ppc = .idle ∧ s.batch = [] ∧ s.ntok = true then some { s with ppc := .gotToken, ntok := false }
    else none
  | .swap =>
    if s.ppc = .gotToken then some { s with ppc := .idle, batch := s.pre, pre := [] } else none
  | .handoff i =>
    if s.ppc = .idle then
      match s.batch with
      | [] => none
      | t :: rest =>
        match s.ws[i]? with
        | none => none
        | some w =>
          match w.recvTask t with
          | none => none
          | some w' => some { s with batch := rest, ws := s.ws.set i w' }
    else none
  | .w i l =>
    match s.ws[i]? with
    | none => none
    | some w =>
      match wstep m s.now w l with
      | none => none
      | some out => some (logExec s.now out.exec { s with ws := s.ws.set i out.w })

/-- run a label sequence; `none` = some label was not enabled -/
def run (m : Mode) : State → List Label → Option State
  | s, [] => some s
  | s, l :: ls =>
    match step m s l with
    | none => none
    | some s' => run m s' ls

def accepts (m : Mode) (s : State) (ls : List Label) : Bool := (run m s ls).isSome

/-- every task ever submitted that has not been executed yet is in exactly one of these places -/
def heldAll (ws : List Worker) : List Task := (ws.map held).flatten

def pendingTasks (s : State) : List Task := s.pre ++ s.batch ++ heldAll s.ws

/-! ### the observable-trace acceptor (run by the driver on the traces of the real code) -/

structure ObsState where
  clock : Time
  sub : List Task
  execd : List TaskId
deriving DecidableEq, Repr

def ObsState.init : ObsState := { clock := 0, sub := [], execd := [] }

/-- one observable event; `Except.error why` = the model cannot exhibit this event here -/
def obsStep (o : ObsState) : Obs → Except String ObsState
  | .put id ts time =>
    if time < o.clock then .error s!"time-goes-back put {id}"
    else if id ∈ o.sub.map (·.id) then .error s!"id-reused {id}"
    else .ok { o with clock := time, sub := { id := id, ts := ts } :: o.sub }
  | .exec id time =>
    if time < o.clock then .error s!"time-goes-back exec {id}"
    else match o.sub.find? (fun t => t.id == id) with
      | none => .error s!"never-put {id}"
      | some t =>
        if id ∈ o.execd then .error s!"duplicate {id}"
        else if t.ts < time then .ok { o with clock := time, execd := id :: o.execd }
        else .error s!"early {id} deadline {t.ts} executed {time}"
  | .fin =>
    match o.sub.find? (fun t => !(o.execd.contains t.id)) with
    | none => .ok o
    | some t => .error s!"missing {t.id}"

def obsRun : ObsState → List Obs → Except String ObsState
  | o, [] => .ok o
  | o, e :: es =>
    match obsStep o e with
    | .error why => .error why
    | .ok o' => obsRun o' es

end KcpVerif.Sched
