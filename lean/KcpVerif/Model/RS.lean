/-
Executable model of the part of klauspost/reedsolomon v1.12 that kcp-go uses
(`reedsolomon.New(d, p)` with default options, `Encode`, `ReconstructData`).  Core Lean only.

* `buildMatrix d n` = `vandermonde(n, d) · (top d rows)⁻¹` (`matrix.go`, `reedsolomon.go`
  `buildMatrix`), `vandermonde r c = galExp(byte r, c)`.
* inversion is Gauss–Jordan over GF(2^8) on `[A | I]`.  klauspost eliminates below, then above;
  the inverse of a non-singular matrix is unique, so the order of elimination is immaterial.
* `encode` multiplies the parity rows (rows `d …`) with the data shards, byte position by
  byte position (`codeSomeShards`).
* `reconstructData` (`reconstruct(shards, dataOnly = true, nil)`): error if no shard has data
  (`ErrShardNoData`), sizes differ (`ErrShardSize`) or fewer than `d` shards are present
  (`ErrTooFewShards`); nothing to do when all data shards are present; otherwise the sub-matrix
  of the FIRST `d` present shards in index order is inverted and the missing data shards are the
  corresponding rows of the inverse times those `d` shards.  (Which `d` shards are used matters
  only when the shards are not a codeword — the mis-tuned decoder of C16/D10.)

The abstract counterpart (any field, injective nodes, proved MDS) is `Lemmas/RS.lean`;
`Lemmas/RSGauss` proves `invert` correct and `Lemmas/RSBridge` that this code IS that counterpart
over GF(2^8) (`rsNew_lawful`).
-/
import KcpVerif.Model.GF256

namespace KcpVerif.RS
open KcpVerif.GF256

abbrev Row := List UInt8
abbrev Matrix := List Row
abbrev Shard := List UInt8

def scaleRow (a : UInt8) (r : Row) : Row := r.map (mul a)
def addRow (a b : Row) : Row := List.zipWith add a b

def vandermonde (rows cols : Nat) : Matrix :=
  (List.range rows).map fun r => (List.range cols).map fun c => pow (UInt8.ofNat r) c

def identity (n : Nat) : Matrix :=
  (List.range n).map fun r => (List.range n).map fun c => if r = c then 1 else 0

/-- `Σ_j a_j · s_j` over equal-length rows/shards of length `len` (row vector times matrix,
    or one output shard of `codeSomeShards`) -/
def combine (len : Nat) : Row → List Shard → Shard
  | a :: as, s :: ss =>
    if a == 0 then combine len as ss else addRow (scaleRow a s) (combine len as ss)
  | _, _ => List.replicate len 0

/-- first row of `rest` with a non-zero entry in column `c`: (rows before it, it, rows after) -/
def splitPivot (c : Nat) : Matrix → Matrix → Option (Matrix × Row × Matrix)
  | _, [] => none
  | acc, r :: rs => if r.getD c 0 != 0 then some (acc.reverse, r, rs) else splitPivot c (r :: acc) rs

def elim (c : Nat) (piv r : Row) : Row :=
  if r.getD c 0 == 0 then r else addRow r (scaleRow (r.getD c 0) piv)

/-- Gauss–Jordan: `k` columns left, current column `c`, rows already reduced (row `i` has its
    pivot in column `i`), rows not yet used -/
def gaussJordan : Nat → Nat → Matrix → Matrix → Option Matrix
  | 0, _, done, _ => some done
  | k + 1, c, done, rest =>
    match splitPivot c [] rest with
    | none => none
    | some (before, p, after) =>
      let piv := scaleRow (inv (p.getD c 0)) p
      gaussJordan k (c + 1) (done.map (elim c piv) ++ [piv]) ((before ++ after).map (elim c piv))

/-- `matrix.Invert`; `none` = `errSingular` -/
def invert (m : Matrix) : Option Matrix :=
  (gaussJordan m.length 0 [] (List.zipWith (· ++ ·) m (identity m.length))).map
    (List.map (List.drop m.length))

/-- `buildMatrix(dataShards, totalShards)`; `[]` if the top square were singular (never for
    `n ≤ 256`: the nodes `0 … n-1` are distinct bytes) -/
def buildMatrix (d n : Nat) : Matrix :=
  let vm := vandermonde n d
  match invert (vm.take d) with
  | none => []
  | some ti => vm.map fun r => combine d r ti

/-- `Encode`: the `p` parity shards of `d` equal-length data shards -/
def encode (m : Matrix) (d : Nat) (data : List Shard) : List Shard :=
  (m.drop d).map fun row => combine ((data.headD []).length) row data

/-- indices and contents of the first `k` present shards, index order -/
def firstPresent : Nat → Nat → List (Option Shard) → List (Nat × Shard)
  | 0, _, _ => []
  | _, _, [] => []
  | k + 1, i, none :: rest => firstPresent (k + 1) (i + 1) rest
  | k + 1, i, some s :: rest => (i, s) :: firstPresent k (i + 1) rest

/-- a shard counts as present iff it has data (`len(shards[i]) != 0`) -/
def normalize (shards : List (Option Shard)) : List (Option Shard) :=
  shards.map fun o => match o with
    | some s => if s.isEmpty then none else some s
    | none => none

def shardSize : List (Option Shard) → Nat
  | [] => 0
  | some s :: rest => if s.isEmpty then shardSize rest else s.length
  | none :: rest => shardSize rest

/-- fill the data shards: present ones are kept, missing ones are `dec[i] · valid shards` -/
def fillData (len : Nat) (valid : List Shard) : List (Option Shard) → Matrix → List Shard
  | [], _ => []
  | some s :: rest, _ :: rows => s :: fillData len valid rest rows
  | none :: rest, row :: rows => combine len row valid :: fillData len valid rest rows
  | _ :: _, [] => []

/-- `ReconstructData(shards)` on `n = m.length` optional shards: the `d` data shards, or
    `none` for an error return.  -/
def reconstructData (m : Matrix) (d : Nat) (shards0 : List (Option Shard)) : Option (List Shard) :=
  let shards := normalize shards0
  let len := shardSize shards
  if shards.length ≠ m.length then none                                   -- ErrTooFewShards
  else if len = 0 then none                                               -- ErrShardNoData
  else if shards.any (fun o => match o with | some s => s.length != len | none => false) then none -- ErrShardSize
  else if (shards.take d).all Option.isSome then some ((shards.take d).filterMap id) -- nothing to do
  else
    let valid := firstPresent d 0 shards
    if valid.length < d then none                                         -- ErrTooFewShards
    else
      match invert (valid.map fun iv => m.getD iv.1 []) with
      | none => none                                                      -- errSingular
      | some dec => some (fillData len (valid.map (·.2)) (shards.take d) dec)

end KcpVerif.RS
