/-
GF(2^8) with the reducing polynomial x^8 + x^4 + x^3 + x^2 + 1 (0x11D), the field used by
klauspost/reedsolomon (`galois.go`: `galAdd = xor`, `galMultiply = mulTable[a][b]`,
`galOneOver`, `galExp`).  Core Lean only.

Multiplication is the textbook shift-and-reduce product (no tables), the inverse is `a^254`,
`gpow a n` is repeated multiplication (`galExp`: `a^0 = 1`, `0^n = 0` for `n > 0`).

That these operations form a field is proved in `Lemmas/GF256Field` (not here: this file is core
only); the tie to klauspost's tables is the byte-exact correspondence of every parity shard /
reconstruction the harness runs, plus the `decide`d spot checks at the end of this file.
-/
namespace KcpVerif.GF256

/-- multiply by `x` modulo 0x11D -/
@[inline] def xtime (a : UInt8) : UInt8 :=
  if a &&& 0x80 != 0 then (a <<< 1) ^^^ 0x1D else a <<< 1

/-- shift-and-reduce product: `k` remaining bits of `b`, running multiple `a`, accumulator -/
def mulAux : Nat → UInt8 → UInt8 → UInt8 → UInt8
  | 0, _, _, acc => acc
  | k + 1, a, b, acc => mulAux k (xtime a) (b >>> 1) (if b &&& 1 != 0 then acc ^^^ a else acc)

/-- `galMultiply` -/
def mul (a b : UInt8) : UInt8 := mulAux 8 a b 0

/-- `galAdd` (= subtraction) -/
@[inline] def add (a b : UInt8) : UInt8 := a ^^^ b

/-- `galExp(a, n)` -/
def pow (a : UInt8) : Nat → UInt8
  | 0 => 1
  | n + 1 => mul a (pow a n)

/-- `galOneOver(a)` for `a ≠ 0` (`a^254`); `inv 0 = 0` (the Go code panics, never reached) -/
def inv (a : UInt8) : UInt8 :=
  let a2 := mul a a
  let a4 := mul a2 a2
  let a8 := mul a4 a4
  let a16 := mul a8 a8
  let a32 := mul a16 a16
  let a64 := mul a32 a32
  let a128 := mul a64 a64
  -- 254 = 128 + 64 + 32 + 16 + 8 + 4 + 2
  mul a128 (mul a64 (mul a32 (mul a16 (mul a8 (mul a4 a2)))))

/-- dot product of a matrix row with a column of field elements -/
def dot : List UInt8 → List UInt8 → UInt8
  | a :: as, b :: bs => add (mul a b) (dot as bs)
  | _, _ => 0

-- spot checks against klauspost's tables (mulTable[2][128] = 0x1d, invTable[2] = 0x8e,
-- invTable[3] = 0xf4, galExp(2, 8) = 0x1d, galExp(3, 4) = 0x11)
example : mul 2 128 = 0x1d := by decide +kernel
example : mul 3 7 = 9 := by decide +kernel
example : inv 2 = 0x8e := by decide +kernel
example : inv 3 = 0xf4 := by decide +kernel
example : mul 0xf4 3 = 1 := by decide +kernel
example : pow 2 8 = 0x1d := by decide +kernel
example : pow 3 4 = 0x11 := by decide +kernel
example : pow 0 0 = 1 ∧ pow 0 5 = 0 := by decide +kernel

end KcpVerif.GF256
