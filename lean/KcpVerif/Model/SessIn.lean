/-
Byte-level model of the two receive entry points of sess.go and of the dialled session's source
filter (readloop.go).  Core Lean only.

  * `cryptGate`            the decrypt / verify prefix shared by `UDPSession.packetInput` and
                           `Listener.packetInput` (sess.go 971-1005 and 1156-1190)
  * `sessionPacketInput`   `UDPSession.packetInput`
  * `parseHdr`             the `fecFlag` switch of `Listener.packetInput` computing (hasConv, conv, sn)
  * `listenerInput`        `Listener.packetInput`: drop / route / (close old and) create
  * `accept`, `userClose`  `AcceptKCP` (data path) and `UDPSession.Close` → `Listener.closeSession`
  * `listenerInputD`, `listenerClose`  `Listener.packetInput` with the `l.die` test, `Listener.Close`
  * `Dial.filter`          the source-address filter of `defaultReadLoop` / linux `readLoop`

Everything behind `kcpInput` (KCP core, FEC decoder, OOB callback, reader buffer, SNMP counters it
touches) is OPAQUE: a type parameter `σ` and a function `kcpInput : σ → Bytes → σ`.  The frame and
gate theorems of C06/C11 therefore hold for ANY core.  The cipher is abstract as well
(`dec`, `crc`, `aopen` are fields of `Cipher`).

Sessions are heap objects: `Listener.objs` lists every session ever created by the listener
(index = creation index = identity), the table maps address strings to indices and the accept
queue holds indices, so that the aliasing of the real code (the same `*UDPSession` sits in the map
and in `chAccepts`) is represented exactly.
-/
import KcpVerif.Generated

namespace KcpVerif.SessIn
open KcpVerif.Gen

abbrev Bytes := List UInt8

/-- `binary.LittleEndian.Uint16(b[off:])` (callers guarantee `off+2 ≤ |b|`; missing bytes read 0) -/
def le16 (b : Bytes) (off : Nat) : Nat :=
  (b.getD off 0).toNat + 256 * (b.getD (off + 1) 0).toNat

/-- `binary.LittleEndian.Uint32(b[off:])` -/
def le32 (b : Bytes) (off : Nat) : BitVec 32 :=
  BitVec.ofNat 32 ((b.getD off 0).toNat + 256 * (b.getD (off + 1) 0).toNat
    + 65536 * (b.getD (off + 2) 0).toNat + 16777216 * (b.getD (off + 3) 0).toNat)

/-- the three arms of `switch block := s.block.(type)` -/
inductive CipherKind where
  | nil
  | aead (nonceSize overhead : Nat)
  | block
deriving Repr, DecidableEq

/-- abstract cipher: `dec` is `BlockCrypt.Decrypt(data, data)` on the whole datagram (in place, so
    length preserving in Go — not needed by any theorem), `crc` is `crc32.ChecksumIEEE`,
    `aopen nonce ciphertext` is `aeadCrypt.Open` (`none` = authentication failure). -/
structure Cipher where
  kind  : CipherKind
  dec   : Bytes → Bytes
  crc   : Bytes → BitVec 32
  aopen : Bytes → Bytes → Option Bytes

/-- outcome of the decrypt/verify prefix -/
inductive Gate where
  | short                 -- `return` with no effect: too short to carry nonce+CRC resp. nonce+tag
  | csum                  -- `InCsumErrors++; return`
  | ok (plain : Bytes)    -- the bytes that go on (after nonce and CRC resp. after `Open`)
deriving Repr, DecidableEq

/-- sess.go 971-1005 = 1156-1190 (the two copies are identical; the extractor's `gateOrder`
    table checks that syntactically) -/
def cryptGate (c : Cipher) (data : Bytes) : Gate :=
  match c.kind with
  | .nil => .ok data
  | .aead ns ov =>
    if data.length < ns + ov then .short
    else match c.aopen (data.take ns) (data.drop ns) with
      | none => .csum
      | some p => .ok p
  | .block =>
    if data.length < cryptHeaderSize then .short
    else if c.crc (((c.dec data).drop nonceSize).drop crcSize) ≠ le32 ((c.dec data).drop nonceSize) 0 then .csum
    else .ok (((c.dec data).drop nonceSize).drop crcSize)

/-- `min(IKCP_OVERHEAD, fecHeaderSizePlus2+convSize)` -/
def minPacket : Nat := min IKCP_OVERHEAD (fecHeaderSizePlus2 + convSize)

/-- SNMP counters the gate itself touches (everything `kcpInput` counts is behind `σ`) -/
inductive Counter where
  | InCsumErrors
  | KCPInErrors
deriving Repr, DecidableEq

structure SessResult (σ : Type) where
  st        : σ
  counters  : List Counter
  delivered : Option Bytes     -- the argument of the `s.kcpInput(data)` call, if it is made

/-- `UDPSession.packetInput` -/
def sessionPacketInput {σ : Type} (c : Cipher) (kcpInput : σ → Bytes → σ) (s : σ) (data : Bytes) :
    SessResult σ :=
  match cryptGate c data with
  | .short => { st := s, counters := [], delivered := none }
  | .csum => { st := s, counters := [.InCsumErrors], delivered := none }
  | .ok p =>
    if p.length < minPacket then { st := s, counters := [.KCPInErrors], delivered := none }
    else { st := kcpInput s p, counters := [], delivered := some p }

/-! ## Listener -/

structure Hdr where
  hasConv : Bool
  conv    : BitVec 32
  sn      : BitVec 32
deriving Repr, DecidableEq

/-- the `switch fecFlag` of `Listener.packetInput` (sess.go 1203-1235); `none` is the `return` of
    the default arm (a non-FEC packet shorter than a KCP header).  Precondition (established by
    the caller): `minPacket ≤ |p|`, so offsets 4..5 and 8..11 are readable. -/
def parseHdr (p : Bytes) : Option Hdr :=
  if le16 p 4 = typeData then
    if p.length < fecHeaderSizePlus2 + IKCP_OVERHEAD then some { hasConv := false, conv := 0, sn := 0 }
    else some { hasConv := true, conv := le32 p fecHeaderSizePlus2,
                sn := le32 p (fecHeaderSizePlus2 + IKCP_SN_OFFSET) }
  else if le16 p 4 = typeParity then some { hasConv := false, conv := 0, sn := 0 }
  else if le16 p 4 = typeOOB then some { hasConv := true, conv := le32 p fecHeaderSizePlus2, sn := 0 }
  else if p.length < IKCP_OVERHEAD then none
  else some { hasConv := true, conv := le32 p 0, sn := le32 p IKCP_SN_OFFSET }

/-- a server-side session object -/
structure Sess (σ : Type) where
  conv   : BitVec 32      -- `s.kcp.conv`, fixed at creation
  addr   : String         -- `s.remote.String()`, fixed at creation
  st     : σ              -- everything behind `kcpInput`
  closed : Bool           -- `s.die` closed
deriving DecidableEq

structure Listener (σ : Type) where
  objs    : List (Sess σ)         -- every session created so far, index = creation index
  table   : List (String × Nat)   -- `l.sessions` : address string ↦ creation index
  accepts : List Nat              -- `l.chAccepts` (capacity `acceptBacklog`)

/-- the opaque environment: the core, the constructor and what `Close` does to a session's state
    (`s.kcp.flush` under the lock) -/
structure World (σ : Type) where
  kcpInput : σ → Bytes → σ
  init     : BitVec 32 → σ        -- state of `newUDPSession(conv, …)`
  closeFx  : σ → σ

def Listener.empty {σ : Type} : Listener σ := { objs := [], table := [], accepts := [] }

def lookup (t : List (String × Nat)) (a : String) : Option Nat :=
  match t with
  | [] => none
  | e :: rest => if e.1 = a then some e.2 else lookup rest a

def unmap (t : List (String × Nat)) (a : String) : List (String × Nat) :=
  t.filter (fun e => e.1 ≠ a)

def modifyAt {α : Type} (xs : List α) (i : Nat) (f : α → α) : List α :=
  match xs, i with
  | [], _ => []
  | x :: rest, 0 => f x :: rest
  | x :: rest, i + 1 => x :: modifyAt rest i f

/-- `UDPSession.Close()` of a listener-owned session: once only (`dieOnce`), flush, then
    `l.closeSession(s.remote)` which deletes the key `s.remote.String()` whatever it maps to. -/
def closeSess {σ : Type} (w : World σ) (l : Listener σ) (id : Nat) : Listener σ :=
  match l.objs[id]? with
  | none => l
  | some o =>
    if o.closed then l
    else { l with objs := modifyAt l.objs id (fun o => { o with st := w.closeFx o.st, closed := true }),
                  table := unmap l.table o.addr }

inductive DropWhy where
  | short          -- crypt framing too short (silent)
  | csum           -- integrity check failed (InCsumErrors)
  | minSize        -- plaintext below `minPacket` (silent on the listener)
  | rawShort       -- non-FEC packet shorter than a KCP header (silent)
  | convMismatch   -- existing session, other conversation, sn ≠ 0 (silent)
  | noConv         -- no session and no readable conversation id (silent)
  | backlogFull    -- no session, readable conversation id, accept queue full (silent)
  | listenerClosed -- no session, readable conversation id, room, but `l.die` is closed (silent)
deriving Repr, DecidableEq

inductive Decision where
  | drop (why : DropWhy)
  | route (addr : String) (id : Nat)
  /-- the old session was closed and unmapped but the accept queue was full: nothing created -/
  | closedOnly (addr : String) (old : Nat)
  | create (addr : String) (conv : BitVec 32) (closedOld : Option Nat) (id : Nat)
deriving Repr, DecidableEq

structure LStep (σ : Type) where
  l   : Listener σ
  dec : Decision

/-- the tail of `Listener.packetInput` from "create a new session" on (sess.go 1254-1272);
    `closedOld` = the session closed just before, if any -/
def tryCreate {σ : Type} (w : World σ) (l : Listener σ) (p : Bytes) (a : String) (h : Hdr)
    (closedOld : Option Nat) : LStep σ :=
  if !h.hasConv then { l := l, dec := .drop .noConv }
  else if l.accepts.length ≥ acceptBacklog then
    { l := l, dec := match closedOld with
                     | none => .drop .backlogFull
                     | some old => .closedOnly a old }
  else
    { l := { objs := l.objs ++ [{ conv := h.conv, addr := a, st := w.kcpInput (w.init h.conv) p, closed := false }],
             table := (a, l.objs.length) :: unmap l.table a,
             accepts := l.accepts ++ [l.objs.length] },
      dec := .create a h.conv closedOld l.objs.length }

/-- `Listener.packetInput(data, addr)` with `a = addr.String()` -/
def listenerInput {σ : Type} (w : World σ) (c : Cipher) (l : Listener σ) (data : Bytes) (a : String) :
    LStep σ :=
  match cryptGate c data with
  | .short => { l := l, dec := .drop .short }
  | .csum => { l := l, dec := .drop .csum }
  | .ok p =>
    if p.length < minPacket then { l := l, dec := .drop .minSize }
    else match parseHdr p with
      | none => { l := l, dec := .drop .rawShort }
      | some h =>
        match lookup l.table a with
        | none => tryCreate w l p a h none
        | some id =>
          match l.objs[id]? with
          | none => { l := l, dec := .drop .noConv }      -- unreachable (table entries are valid)
          | some o =>
            if !h.hasConv || h.conv = o.conv then
              { l := { l with objs := modifyAt l.objs id (fun o => { o with st := w.kcpInput o.st p }) },
                dec := .route a id }
            else if h.sn ≠ 0 then { l := l, dec := .drop .convMismatch }
            else tryCreate w (closeSess w l id) p a h (some id)

/-! ### `Listener.Close` and the `l.die` test

`Listener.Close()` (first call) closes `l.die` and then `closeUnaccepted()`: every session still in
the accept backlog is `Close`d (they were never handed out, nobody else could close them) and the
queue is empty afterwards.  `Listener.packetInput` tests `l.die` after the backlog test and before
`newUDPSession` (sess.go 1289-1294): a closed listener still routes, ignores and — on a reset frame —
closes the old session (`s.Close()` comes first), but creates nothing.  The `dead` flag is kept by
the caller (`true` after `listenerClose`).  The second `l.die` test behind `l.chAccepts <- s`
only matters when `Close` runs concurrently with `packetInput` (not sequentially reachable). -/

/-- the tail of `Listener.packetInput` with the `l.die` test; `tryCreate` is the instance `dead = false`
    (`Lemmas/SessInClose.lean`: `tryCreateD_false`) -/
def tryCreateD {σ : Type} (w : World σ) (l : Listener σ) (dead : Bool) (p : Bytes) (a : String) (h : Hdr)
    (closedOld : Option Nat) : LStep σ :=
  if !h.hasConv then { l := l, dec := .drop .noConv }
  else if l.accepts.length ≥ acceptBacklog then
    { l := l, dec := match closedOld with
                     | none => .drop .backlogFull
                     | some old => .closedOnly a old }
  else if dead then
    { l := l, dec := match closedOld with
                     | none => .drop .listenerClosed
                     | some old => .closedOnly a old }
  else
    { l := { objs := l.objs ++ [{ conv := h.conv, addr := a, st := w.kcpInput (w.init h.conv) p, closed := false }],
             table := (a, l.objs.length) :: unmap l.table a,
             accepts := l.accepts ++ [l.objs.length] },
      dec := .create a h.conv closedOld l.objs.length }

/-- `Listener.packetInput(data, addr)` of a listener whose `die` channel is closed iff `dead`;
    `listenerInput` is the instance `dead = false` (`listenerInputD_false`) -/
def listenerInputD {σ : Type} (w : World σ) (c : Cipher) (l : Listener σ) (dead : Bool) (data : Bytes) (a : String) :
    LStep σ :=
  match cryptGate c data with
  | .short => { l := l, dec := .drop .short }
  | .csum => { l := l, dec := .drop .csum }
  | .ok p =>
    if p.length < minPacket then { l := l, dec := .drop .minSize }
    else match parseHdr p with
      | none => { l := l, dec := .drop .rawShort }
      | some h =>
        match lookup l.table a with
        | none => tryCreateD w l dead p a h none
        | some id =>
          match l.objs[id]? with
          | none => { l := l, dec := .drop .noConv }
          | some o =>
            if !h.hasConv || h.conv = o.conv then
              { l := { l with objs := modifyAt l.objs id (fun o => { o with st := w.kcpInput o.st p }) },
                dec := .route a id }
            else if h.sn ≠ 0 then { l := l, dec := .drop .convMismatch }
            else tryCreateD w (closeSess w l id) dead p a h (some id)

/-- `s.Close()` for the sessions with the given creation indices, in order -/
def closeAll {σ : Type} (w : World σ) (l : Listener σ) : List Nat → Listener σ
  | [] => l
  | id :: rest => closeAll w (closeSess w l id) rest

/-- `closeUnaccepted()`: drain `chAccepts`, closing every session found there -/
def closeUnaccepted {σ : Type} (w : World σ) (l : Listener σ) : Listener σ :=
  { closeAll w l l.accepts with accepts := [] }

/-- `Listener.Close()`: once only (`dieOnce`; a second call returns `io.ErrClosedPipe` and does
    nothing); the caller's `dead` flag is `true` afterwards -/
def listenerClose {σ : Type} (w : World σ) (l : Listener σ) (dead : Bool) : Listener σ :=
  if dead then l else closeUnaccepted w l

/-- data path of `AcceptKCP`: the head of the queue -/
structure AcceptResult (σ : Type) where
  l   : Listener σ
  got : Option Nat

def accept {σ : Type} (l : Listener σ) : AcceptResult σ :=
  match l.accepts with
  | [] => { l := l, got := none }
  | id :: rest => { l := { l with accepts := rest }, got := some id }

/-- the application closes session `id` -/
def userClose {σ : Type} (w : World σ) (l : Listener σ) (id : Nat) : Listener σ := closeSess w l id

/-! ## The dialled session's source filter (readloop.go 52-104, readloop_linux.go 41-96) -/
namespace Dial

/-- a `net.Addr` as the filter sees it: its `String()` and, when it is a `*net.UDPAddr`, the triple
    (IP in canonical form — 4 bytes when it is an IPv4 or IPv4-mapped address, else 16, which is
    what `net.IP.Equal` compares —, port, zone) -/
structure Addr where
  udp : Option (List UInt8 × Nat × String)
  str : String
deriving Repr, DecidableEq

/-- `sameUDPAddr` for non-nil arguments -/
def sameUDPAddr (a b : List UInt8 × Nat × String) : Bool :=
  if a.2.1 ≠ b.2.1 ∨ a.2.2 ≠ b.2.2 then false else a.1 == b.1

/-- the loop's two variables `src *net.UDPAddr` and `srcStr string` -/
structure Filter where
  src    : Option (List UInt8 × Nat × String)
  srcStr : String
deriving Repr, DecidableEq

/-- initialisation from `s.remote` (`none` = nil remote) -/
def Filter.init (remote : Option Addr) : Filter :=
  match remote with
  | none => { src := none, srcStr := "" }
  | some r =>
    match r.udp with
    | some u => { src := some u, srcStr := "" }
    | none => { src := none, srcStr := r.str }

structure FilterStep where
  f    : Filter
  pass : Bool        -- `s.packetInput(buf[:n])` is called (otherwise `InErrs++; continue`)

/-- one datagram from `addr` -/
def filter (f : Filter) (addr : Addr) : FilterStep :=
  match f.src with
  | none =>
    if f.srcStr = "" then
      match addr.udp with
      | some u => { f := { f with src := some u }, pass := true }
      | none => { f := { f with srcStr := addr.str }, pass := true }
    else { f := f, pass := addr.str = f.srcStr }
  | some u =>
    match addr.udp with
    | some u2 => { f := f, pass := sameUDPAddr u u2 }
    | none => { f := f, pass := false }

end Dial

end KcpVerif.SessIn
