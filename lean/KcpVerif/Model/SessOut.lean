/-
Model of the SENDING half of a session (sess.go, fec.go encoder, entropy.go) and of the
receive-side out-of-band branch.  Core Lean only.

What is modelled (sequential semantics of what runs in `postProcess` and under `s.mu`):

* `newUDPSession` header arithmetic (`headerSize`), `SetMtu`, the core's output callback;
* `fecEncoder.encode / encodeOOB / sealData / sealParity / sealOOB / skipParity`;
* `postProcess`: FEC stage, then per emitted packet nonce draw + CRC + encryption; `dup` is
  deprecated and ignored;
* `SendOOB`, `GetOOBMaxSize`, `packetInput` (decrypt + integrity) and the `typeOOB` branch of
  `kcpInput`;
* the nonce generator of entropy.go as a state machine.

What is NOT modelled here and is a parameter instead (`Prims`): the CRC32 function, the
Reed-Solomon parity bytes (`parity : List Bytes → Nat → Bytes`, shards in, k-th parity shard
out), the block cipher / AEAD, the entropy source.  A request carries only the bytes behind the
reserved header space (the core's output, or `conv ‖ payload` for OOB): the reserved
`headerSize` bytes of the pooled buffer are stale and every one of them is overwritten
(nonce, CRC, FEC header, size) — that they really are is checked by the differential tie
(the harness compares every emitted byte).
-/
import KcpVerif.Model.Wire

namespace KcpVerif.SessOut
open KcpVerif.Gen KcpVerif.Wire

/-! ### configuration and header arithmetic (`newUDPSession`) -/

inductive Cipher where
  | none                                   -- `block == nil`
  | aead (nonceSize overhead : Nat)         -- `*aeadCrypt` (AES-GCM: 12, 16)
  | block                                  -- every other BlockCrypt: nonce(16) + crc32(4), encrypted in place
deriving DecidableEq, Repr

structure Cfg where
  cipher : Cipher
  d : Nat          -- dataShards  (a non-positive Go int is 0 here)
  p : Nat          -- parityShards
deriving DecidableEq, Repr

/-- `newFECEncoder` returns non-nil: both counts positive and `reedsolomon.New` accepts them -/
def Cfg.fecOn (c : Cfg) : Bool := decide (0 < c.d) && decide (0 < c.p) && decide (c.d + c.p ≤ 256)

/-- header bytes introduced by encryption; also the encoder's `headerOffset` -/
def Cfg.cryptBase (c : Cfg) : Nat :=
  match c.cipher with
  | .none => 0
  | .aead n _ => n
  | .block => cryptHeaderSize

/-- `sess.headerSize` -/
def Cfg.headerSize (c : Cfg) : Nat := c.cryptBase + (if c.fecOn then fecHeaderSizePlus2 else 0)

/-- `aead.Overhead()` (0 when the cipher is not an AEAD) -/
def Cfg.overhead (c : Cfg) : Nat :=
  match c.cipher with
  | .aead _ o => o
  | _ => 0

def Cfg.nonceLen (c : Cfg) : Nat :=
  match c.cipher with
  | .none => 0
  | .aead n _ => n
  | .block => nonceSize

/-! ### `UDPSession.SetMtu` on top of `KCP.SetMtu` -/

/-- the value `UDPSession.SetMtu m` hands to the core -/
def coreMtuArg (c : Cfg) (m : Int) : Int := min (mtuLimit : Int) m - c.headerSize - c.overhead

structure SetMtuRes where
  ok : Bool
  coreMtu : Nat     -- the core's mtu afterwards
deriving DecidableEq, Repr

/-- `KCP.SetMtu` as the session sees it is a verdict on the value.  The original core accepts
iff the value exceeds `IKCP_OVERHEAD`. -/
def coreAcceptsOrig (x : Int) : Bool := decide ((IKCP_OVERHEAD : Int) < x)

/-- the repaired core (fix commits for D1/D2) additionally refuses a value whose segment size
exceeds a pool buffer or is smaller than a segment already queued (`maxQueued` = longest
payload in `snd_queue ∪ snd_buf`). -/
def coreAcceptsFixed (maxQueued : Nat) (x : Int) : Bool :=
  decide ((IKCP_OVERHEAD : Int) < x) && decide (x - (IKCP_OVERHEAD : Int) ≤ (mtuLimit : Int)) &&
    decide ((maxQueued : Int) ≤ x - (IKCP_OVERHEAD : Int))

/-- `SetMtu(m)` with the core's current mtu `cur`: accepted iff the core accepts; refused
values leave the core untouched. -/
def setMtu (c : Cfg) (coreOk : Int → Bool) (cur : Nat) (m : Int) : SetMtuRes :=
  if coreOk (coreMtuArg c m) then { ok := true, coreMtu := (coreMtuArg c m).toNat }
  else { ok := false, coreMtu := cur }

/-- the core MTU right after `newUDPSession` (`SetMtu(IKCP_MTU_DEF)` on an empty core) -/
def initialCoreMtu (c : Cfg) : Nat := (setMtu c coreAcceptsOrig 0 IKCP_MTU_DEF).coreMtu

/-! ### the output callback installed by `newUDPSession` -/

inductive CbRes where
  | skipped                 -- size < IKCP_OVERHEAD: nothing is sent
  | buffer (len : Nat)      -- a pooled buffer `Get()[:size+headerSize]` goes to post-processing
  | panic                   -- `Get()[:n]` with n > cap (pool buffers are `mtuLimit` bytes)
deriving DecidableEq, Repr

def outputCb (c : Cfg) (size : Nat) : CbRes :=
  if size < IKCP_OVERHEAD then .skipped
  else if mtuLimit < size + c.headerSize then .panic
  else .buffer (size + c.headerSize)

/-! ### FEC encoder (fec.go) -/

inductive Kind where
  | raw | data | parity | oob
deriving DecidableEq, Repr

/-- a packet between the FEC stage and the crypt stage, from `headerOffset` on -/
structure Pkt where
  kind  : Kind
  seqid : Nat      -- what was written into the seqid field (0 for raw)
  vid   : Nat      -- GHOST: the unwrapped id counter when the packet was sealed (0 for raw/oob)
  rest  : Bytes    -- bytes from `headerOffset` on: FEC header ‖ …, or the plain body
deriving DecidableEq, Repr

structure Enc where
  d : Nat
  p : Nat
  next : Nat              -- `next` (uint32)
  maxSize : Nat           -- longest data packet of the open group, whole packet incl. crypt header space
  cache : List Bytes      -- `shardCache[0 .. shardCount)` from `payloadOffset` on: size field ‖ payload
  tsLatest : Int          -- `tsLatestPacket` (ms)
  vnext : Nat             -- GHOST: `next` without the wrap (total advance since creation)
deriving DecidableEq, Repr

def Enc.shardCount (e : Enc) : Nat := e.cache.length
def Enc.shardSize (e : Enc) : Nat := e.d + e.p
/-- `0xffffffff / uint32(shardSize) * uint32(shardSize)` -/
def Enc.paws (e : Enc) : Nat := 4294967295 / e.shardSize * e.shardSize

def newEnc (c : Cfg) : Option Enc :=
  if c.fecOn then some { d := c.d, p := c.p, next := 0, maxSize := 0, cache := [], tsLatest := 0, vnext := 0 }
  else none

/-- uint32 wrap of an addition -/
def u32w (n : Nat) : Nat := n % 4294967296

/-- the id after one `sealData`/`sealParity`: `(next + 1) % paws` in uint32 arithmetic -/
def Enc.bump (e : Enc) : Enc := { e with next := u32w (e.next + 1) % e.paws, vnext := e.vnext + 1 }

/-- `skipParity` -/
def Enc.skip (e : Enc) : Enc := { e with next := u32w (e.next + e.p) % e.paws, vnext := e.vnext + e.p }

/-- zero padding / truncation to a fixed slice length (`shard[:maxSize]`, `clear(shard[slen:maxSize])`) -/
def fit (n : Nat) (b : Bytes) : Bytes := (b ++ List.replicate n 0).take n

/-- `sealParity` over the parity shards in order -/
def sealParities (e : Enc) : List Bytes → List Pkt
  | [] => []
  | b :: bs =>
    { kind := .parity, seqid := e.next, vid := e.vnext,
      rest := fecHeader (BitVec.ofNat 32 e.next) typeParity ++ b } :: sealParities e.bump bs

def bumpN (e : Enc) : Nat → Enc
  | 0 => e
  | k + 1 => bumpN e.bump k

structure EncOut where
  enc : Enc
  pkt : Pkt
  parity : List Pkt
deriving DecidableEq, Repr

/-- `fecEncoder.encode(b, rto)` for a packet whose body (behind the size field) is `body`;
`ho` = `headerOffset`, `now` = `time.Now().UnixMilli()`. -/
def encode (parity : List Bytes → Nat → Bytes) (ho : Nat) (e : Enc) (body : Bytes) (now rto : Int) : EncOut :=
  let pkt : Pkt := { kind := .data, seqid := e.next, vid := e.vnext,
                     rest := fecHeader (BitVec.ofNat 32 e.next) typeData ++ sizeField body.length ++ body }
  let e1 := e.bump
  let sz := ho + fecHeaderSizePlus2 + body.length
  let cache := e1.cache ++ [sizeField body.length ++ body]
  let maxSize := if e1.maxSize < sz then sz else e1.maxSize
  if cache.length = e1.d then
    if now - e1.tsLatest < rto then
      let L := maxSize - (ho + fecHeaderSize)
      let shards := cache.map (fit L)
      let ps := sealParities e1 ((List.range e1.p).map fun k => fit L (parity shards k))
      { enc := { bumpN e1 e1.p with maxSize := 0, cache := [], tsLatest := now }, pkt := pkt, parity := ps }
    else
      { enc := { e1.skip with maxSize := 0, cache := [], tsLatest := now }, pkt := pkt, parity := [] }
  else
    { enc := { e1 with maxSize := maxSize, cache := cache, tsLatest := now }, pkt := pkt, parity := [] }

/-- `fecEncoder.encodeOOB(b)`: only the packet is written, the encoder is not touched -/
def encodeOOB (e : Enc) (body : Bytes) : EncOut :=
  { enc := e,
    pkt := { kind := .oob, seqid := 4294967295, vid := 0,
             rest := fecHeader (BitVec.ofNat 32 4294967295) typeOOB ++ sizeField body.length ++ body },
    parity := [] }

/-! ### crypt stage and `postProcess` -/

structure Draw (γ : Type) where
  g : γ
  out : Bytes       -- one generator output (a 16-byte block for the AES generator)

/-- the primitives the session code calls and this model does not look into -/
structure Prims (γ : Type) where
  crc    : Bytes → BitVec 32              -- `crc32.ChecksumIEEE`
  parity : List Bytes → Nat → Bytes       -- Reed-Solomon: equal-sized data shards ↦ k-th parity shard
  draw   : γ → Draw γ                     -- one `Read` of the entropy source
  encB   : Bytes → Bytes                  -- `block.Encrypt(buf, buf)`
  decB   : Bytes → Bytes                  -- `block.Decrypt(buf, buf)`
  aseal  : Bytes → Bytes → Bytes          -- `aead.Seal(nil, nonce, plaintext, nil)`
  aopen  : Bytes → Bytes → Option Bytes   -- `aead.Open(nil, nonce, ciphertext, nil)`

structure Emit where
  pkt   : Pkt
  nonce : Bytes     -- the bytes drawn for this datagram (`[]` without a cipher)
  plain : Bytes     -- the frame right before encryption / sealing
  wire  : Bytes     -- what goes to `WriteTo`
deriving DecidableEq, Repr

structure CryptOut (γ : Type) where
  g : γ
  emit : Emit

/-- Stage 2 of `postProcess` for ONE packet: `fillRand(buf[:nonceSize])` (one draw), CRC over
`buf[cryptHeaderSize:]`, encryption in place; AEAD: nonce ‖ Seal. -/
def crypt {γ : Type} (P : Prims γ) (c : Cfg) (g : γ) (pkt : Pkt) : CryptOut γ :=
  match c.cipher with
  | .none => { g := g, emit := { pkt := pkt, nonce := [], plain := pkt.rest, wire := pkt.rest } }
  | .aead n _ =>
    let dr := P.draw g
    let nonce := dr.out.take n
    { g := dr.g, emit := { pkt := pkt, nonce := nonce, plain := nonce ++ pkt.rest, wire := nonce ++ P.aseal nonce pkt.rest } }
  | .block =>
    let dr := P.draw g
    let nonce := dr.out.take nonceSize
    let plain := cryptFrame P.crc nonce pkt.rest
    { g := dr.g, emit := { pkt := pkt, nonce := nonce, plain := plain, wire := P.encB plain } }

structure CryptAll (γ : Type) where
  g : γ
  emits : List Emit

def cryptAll {γ : Type} (P : Prims γ) (c : Cfg) (g : γ) : List Pkt → CryptAll γ
  | [] => { g := g, emits := [] }
  | pkt :: rest =>
    let o := crypt P c g pkt
    let r := cryptAll P c o.g rest
    { g := r.g, emits := o.emit :: r.emits }

/-- a request on `chPostProcessing` -/
structure Req where
  oob  : Bool
  body : Bytes      -- the core's output (`size` bytes), or `conv ‖ payload` for OOB
  now  : Int        -- `time.Now().UnixMilli()` when the request is dequeued
deriving DecidableEq, Repr

structure PP (γ : Type) where
  enc : Option Enc
  gen : γ

structure PPOut (γ : Type) where
  st : PP γ
  emits : List Emit

/-- Stage 1 (FEC) for one request: the packets it produces, original first then parity -/
def fecStage {γ : Type} (P : Prims γ) (c : Cfg) (enc : Option Enc) (r : Req) : Option Enc × List Pkt :=
  match enc with
  | none => (none, [{ kind := .raw, seqid := 0, vid := 0, rest := r.body }])
  | some e =>
    if r.oob then (some e, [(encodeOOB e r.body).pkt])
    else
      let o := encode P.parity c.cryptBase e r.body r.now maxFECEncodeLatency
      (some o.enc, o.pkt :: o.parity)

/-- one iteration of the `postProcess` loop -/
def ppStep {γ : Type} (P : Prims γ) (c : Cfg) (st : PP γ) (r : Req) : PPOut γ :=
  let f := fecStage P c st.enc r
  let ca := cryptAll P c st.gen f.2
  { st := { enc := f.1, gen := ca.g }, emits := ca.emits }

/-- `postProcess` over the requests in channel order; the datagrams in transmission order -/
def postProcess {γ : Type} (P : Prims γ) (c : Cfg) (st : PP γ) : List Req → PPOut γ
  | [] => { st := st, emits := [] }
  | r :: rs =>
    let o := ppStep P c st r
    let o2 := postProcess P c o.st rs
    { st := o2.st, emits := o.emits ++ o2.emits }

/-! ### `SendOOB`, `GetOOBMaxSize` -/

inductive OOBRes where
  | errNoFec                -- "OOB requires FEC to be enabled"
  | errTooLarge             -- "OOB payload too large"
  | queued (body : Bytes)   -- a request `{buf, oob = true}` whose body is `conv ‖ data`
deriving DecidableEq, Repr

def sendOOB (c : Cfg) (coreMtu : Nat) (conv : BitVec 32) (data : Bytes) : OOBRes :=
  if !c.fecOn then .errNoFec
  else if coreMtu < convSize + data.length then .errTooLarge
  else .queued (le32 conv ++ data)

/-- `GetOOBMaxSize()` (a Go `int`) -/
def getOOBMaxSize (c : Cfg) (coreMtu : Nat) : Int :=
  if !c.fecOn then 0 else (coreMtu : Int) - convSize

/-- `SetOOBHandler`: error iff FEC is off -/
def setOOBHandlerOk (c : Cfg) : Bool := c.fecOn

/-! ### receive side: `packetInput` up to the integrity gate, and the OOB branch of `kcpInput` -/

/-- decrypt + integrity check; `none` = the packet is dropped -/
def rxStrip {γ : Type} (P : Prims γ) (c : Cfg) (wire : Bytes) : Option Bytes :=
  match c.cipher with
  | .none => some wire
  | .aead n o => if wire.length < n + o then none else P.aopen (wire.take n) (wire.drop n)
  | .block =>
    if wire.length < cryptHeaderSize then none
    else
      let data := (P.decB wire).drop nonceSize
      match data.take crcSize with
      | [k0, k1, k2, k3] => if P.crc (data.drop crcSize) = u32 k0 k1 k2 k3 then some (data.drop crcSize) else none
      | _ => none

/-- the 16-bit field at offset 4 (`fecFlag`) -/
def fecFlag : Bytes → Nat
  | _ :: _ :: _ :: _ :: a :: b :: _ => (u16 a b).toNat
  | _ => 0

inductive Route where
  | drop                    -- shorter than min(IKCP_OVERHEAD, fecHeaderSizePlus2+convSize)
  | fec                     -- typeData / typeParity: decoder and core
  | oob (payload : Bytes)   -- typeOOB: handler gets `data[fecHeaderSizePlus2+convSize:]`
  | kcp                     -- anything else: core
deriving DecidableEq, Repr

/-- demultiplexing of `packetInput` (length gate) + `kcpInput` (flag) -/
def route (data : Bytes) : Route :=
  if data.length < min IKCP_OVERHEAD (fecHeaderSizePlus2 + convSize) then .drop
  else if fecFlag data = typeData ∨ fecFlag data = typeParity then .fec
  else if fecFlag data = typeOOB then .oob (data.drop (fecHeaderSizePlus2 + convSize))
  else .kcp

/-- the receiving session as far as the OOB branch is concerned: the stream state is opaque -/
structure Rx (σ : Type) where
  stream : σ                    -- core, FEC decoder, bufptr, read/write tokens
  handled : List Bytes          -- arguments the OOB handler has been called with (newest last)

/-- `kcpInput`: `onFec`/`onKcp` stand for everything the other branches do to the stream state -/
def kcpInput {σ : Type} (onFec onKcp : σ → Bytes → σ) (hasHandler : Bool) (rx : Rx σ) (data : Bytes) : Rx σ :=
  match route data with
  | .drop => rx
  | .fec => { rx with stream := onFec rx.stream data }
  | .kcp => { rx with stream := onKcp rx.stream data }
  | .oob payload => if hasHandler then { rx with handled := rx.handled ++ [payload] } else rx

/-! ### the nonce generator (entropy.go) -/

/-- `rngAES`: `seed ← E_key seed` per draw; after `reseedInterval` draws the next draw first
takes a fresh key and seed from the operating system (`fresh epoch`). -/
structure AesGen (κ : Type) where
  key   : κ
  seed  : Bytes
  count : Nat
  epoch : Nat          -- how many times key and seed were replaced

/-- `updateSeed` -/
def AesGen.updateSeed {κ : Type} (fresh : Nat → κ × Bytes) (r : AesGen κ) : AesGen κ :=
  if r.count < reseedInterval then { r with count := r.count + 1 }
  else { key := (fresh (r.epoch + 1)).1, seed := (fresh (r.epoch + 1)).2, count := 0, epoch := r.epoch + 1 }

/-- `rngAES.Read(p)` with `0 < len p ≤ 16`: one AES block encryption of the seed, the output is a
prefix of the new seed (the caller takes `nonceSize` bytes of it) -/
def AesGen.next {κ : Type} (E : κ → Bytes → Bytes) (fresh : Nat → κ × Bytes) (r : AesGen κ) : Draw (AesGen κ) :=
  let r1 := r.updateSeed fresh
  let s := E r1.key r1.seed
  { g := { r1 with seed := s }, out := s }

/-- the entropy source actually installed: AES generator when the CPU has AES instructions,
otherwise ChaCha8 (`math/rand/v2`), which this model treats as an opaque stream `cc`. -/
inductive Gen (κ : Type) where
  | aes (r : AesGen κ)
  | chacha (pos : Nat)

def Gen.next {κ : Type} (E : κ → Bytes → Bytes) (fresh : Nat → κ × Bytes) (cc : Nat → Bytes) :
    Gen κ → Draw (Gen κ)
  | .aes r => { g := .aes (r.next E fresh).g, out := (r.next E fresh).out }
  | .chacha pos => { g := .chacha (pos + 1), out := cc pos }

/-- the seed after `n` draws with a fixed key (inside one re-keying epoch) -/
def seedAt (f : Bytes → Bytes) (s : Bytes) : Nat → Bytes
  | 0 => s
  | n + 1 => f (seedAt f s n)

end KcpVerif.SessOut
