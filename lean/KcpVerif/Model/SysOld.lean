/-
The model of `shrink_buf` / `Input` as the code was BEFORE the repair of the acked-head wedge (C02):
`shrink_buf` puts `snd_una` on the head of `snd_buf` even if that head is flagged `acked`, and the ACK
case of `Input` does not shrink again.  A verbatim copy of the definitions of Model/Kcp.lean at the
time the defect was found, kept so that the kernel-checked counterexample stays valid after the model
follows the repaired code.  `Old.step` is `Sys.step` with this `Input`.  Core Lean only.
-/
import KcpVerif.Model.Sys

namespace KcpVerif
open KcpVerif.Gen KcpVerif.Kcp

namespace Old

def shrinkBuf (k : Kcp) : Kcp :=
  match k.snd_buf with
  | s :: _ => { k with snd_una := s.sn }
  | [] => { k with snd_una := k.snd_nxt }

/-- the parse loop of `Input`; `fuel` bounds the iterations (each consumes ≥ 24 bytes) -/
def inputLoop (regular : Bool) : Nat → Bytes → InLoop → InLoop
  | 0, _, st => st
  | fuel + 1, data, st =>
    if data.length < IKCP_OVERHEAD then st else
    let conv := rd32 data 0
    let cmd := BitVec.ofNat 8 (byteAt data 4)
    let frg := BitVec.ofNat 8 (byteAt data 5)
    let wnd := rd16 data 6
    let ts := rd32 data 8
    let sn := rd32 data 12
    let una := rd32 data 16
    let length := (rd32 data 20).toNat
    let body := data.drop IKCP_OVERHEAD
    if conv ≠ st.k.conv then { st with ret := -1 } else
    if body.length < length ∨ length > mtuLimit then { st with ret := -2 } else
    if cmd.toNat ≠ IKCP_CMD_PUSH ∧ cmd.toNat ≠ IKCP_CMD_ACK ∧ cmd.toNat ≠ IKCP_CMD_WASK ∧ cmd.toNat ≠ IKCP_CMD_WINS then
      { st with ret := -3 } else
    let k1 := if regular then { st.k with rmt_wnd := wnd.setWidth 32 } else st.k
    let pu := parseUna k1 una
    let st1 := { st with k := Old.shrinkBuf pu.1, flushSeg := st.flushSeg || decide (pu.2 > 0) }
    let st2 : InLoop :=
      if cmd.toNat = IKCP_CMD_ACK then
        let k2 := parseAck st1.k sn
        let pf := parseFastack k2 sn ts
        { st1 with k := pf.1, flushSeg := st1.flushSeg || pf.2, updRtt := true, latest := ts }
      else if cmd.toNat = IKCP_CMD_PUSH then
        if itimediff sn (st1.k.rcv_nxt + st1.k.rcv_wnd) < 0 then
          let k2 := { st1.k with acklist := st1.k.acklist ++ [⟨sn, ts⟩] }
          if itimediff sn k2.rcv_nxt ≥ 0 then
            let r := parseData k2 { conv := conv, cmd := cmd, frg := frg, wnd := wnd, ts := ts, sn := sn, una := una,
                                    data := body.take length }
            { st1 with k := r.k, panic := r.panic }
          else { st1 with k := k2 }
        else st1
      else if cmd.toNat = IKCP_CMD_WASK then
        { st1 with k := { st1.k with probe := st1.k.probe ||| u32 IKCP_ASK_TELL } }
      else st1
    if st2.panic then st2 else
    Old.inputLoop regular fuel (body.drop length) st2


/-- `Input(data, pktType, ackNoDelay)`; `regular = (pktType == IKCP_PACKET_REGULAR)` -/
def input (k : Kcp) (data : Bytes) (regular ackNoDelay : Bool) (now : U32) : InRes :=
  if data.length < IKCP_OVERHEAD then ⟨k, -1, [], false⟩ else
  let st := Old.inputLoop regular (data.length / IKCP_OVERHEAD + 1) data { k := k }
  if st.panic then ⟨st.k, 0, [], true⟩ else
  if st.ret < 0 then ⟨st.k, st.ret, [], false⟩ else
  let k1 :=
    if st.updRtt ∧ regular ∧ itimediff now st.latest ≥ 0 then updateAck st.k (now - st.latest) else st.k
  let k2 := cwndOnAck k1 k.snd_una
  if st.flushSeg then
    let r := flush k2 true now
    ⟨r.k, 0, r.outs, r.panic⟩
  else if k2.acklist.length ≥ (k2.mtu / u32 IKCP_OVERHEAD).toNat then
    let r := flush k2 false now
    ⟨r.k, 0, r.outs, r.panic⟩
  else if ackNoDelay ∧ k2.acklist.length > 0 then
    let r := flush k2 false now
    ⟨r.k, 0, r.outs, r.panic⟩
  else ⟨k2, 0, [], false⟩


open Sys in
def step (s : Sys.State) : Sys.Ev → Sys.State
  | .dlvB =>
    match s.ab with
    | [] => s
    | d :: rest =>
      if d.arr ≤ s.now then
        let r := Old.input s.B d.data true s.ndB (clk s.now)
        { s with B := r.k, ab := rest, ba := s.ba ++ stamp (s.now + s.D) r.outs, panic := s.panic || r.panic }
      else s
  | .dlvA =>
    match s.ba with
    | [] => s
    | d :: rest =>
      if d.arr ≤ s.now then
        let r := Old.input s.A d.data true s.ndA (clk s.now)
        { s with A := r.k, ba := rest, ab := s.ab ++ stamp (s.now + s.D) r.outs, panic := s.panic || r.panic }
      else s
  | ev => Sys.step s ev

def run (s : Sys.State) (evs : List Sys.Ev) : Sys.State := evs.foldl step s

end Old
end KcpVerif
