/-
The closed two-endpoint system with data in BOTH directions: `Model/Sys.lean` plus a writer at B
(`sendB`) and a reader at A (`readA`); time passes only when both readers have kept up.  Used to
state the bidirectional clean-path property (`Props/C18.lean`); nothing is proved about it yet.
Core Lean only.
-/
import KcpVerif.Model.Sys

namespace KcpVerif
open KcpVerif.Gen

namespace Sys2

structure State where
  s    : Sys.State
  gotA : Bytes := []        -- what `Recv` has returned to the reader at A
deriving Repr

inductive Ev where
  | base (ev : Sys.Ev)      -- `tick` is refused here unless A's reader has kept up too
  | sendB (b : Bytes)
  | readA
deriving Repr, DecidableEq

def step (t : State) : Ev → State
  | .base .tick => if t.s.A.peekSize < 0 then { t with s := Sys.step t.s .tick } else t
  | .base ev => { t with s := Sys.step t.s ev }
  | .sendB b =>
    let r := t.s.B.send b
    { t with s := { t.s with B := r.k, panic := t.s.panic || r.panic } }
  | .readA =>
    let r := t.s.A.recv t.s.A.peekSize.toNat
    if r.n < 0 then t else { t with s := { t.s with A := r.k }, gotA := t.gotA ++ r.data }

def run (t : State) (evs : List Ev) : State := evs.foldl step t

def maxXmitB (t : State) : Nat := (t.s.B.snd_buf.map (fun x => x.xmit.toNat)).foldl max 0

end Sys2
end KcpVerif
