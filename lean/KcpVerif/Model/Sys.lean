/-
The closed two-endpoint system (DESIGN.md 7.2 / 7.18, Tier 2): two KCP cores `A` (writer side) and
`B` (reader side) of `Model/Kcp.lean`, two in-order FIFO links of constant one-way delay `D`
(every datagram carries its arrival time), a global millisecond clock, and session-style driving:

* `flushA` / `flushB`: a FULL flush; the endpoint's next-flush time becomes `now + returned interval`
  (what `UDPSession.update` does with the scheduler).  A flush may also happen earlier (a session
  flushes from `Write` too); time cannot pass a next-flush time (see `quiet`);
* `dlvA` / `dlvB`: `Input` of the head datagram of a link when its arrival time has come, with
  `regular = true` and the endpoint's `ackNoDelay` setting; what the `Input` emits goes on the
  opposite link;
* `send b`: the writer calls `A.Send b` (any time, any bytes);
* `read`: the reader calls `B.Recv` with a buffer of `PeekSize` bytes (always large enough);
* `tick`: the clock advances by one millisecond — only when nothing is due any more (`quiet`):
  every datagram whose arrival time has come has been input, both flush deadlines are in the
  future, and the reader has read everything available ("the reader keeps up").

The clock is a `Nat`; an endpoint is shown `clk now = now mod 2^32`, so clock wrap is covered.
Everything is a deterministic `step`/`run` over an event list; an event that is not enabled leaves
the state unchanged.  Core Lean only.
-/
import KcpVerif.Model.Kcp

namespace KcpVerif
open KcpVerif.Gen

namespace Sys

/-- a datagram in flight: the time at which it reaches the other end, and its bytes -/
structure Dgram where
  arr  : Nat
  data : Bytes
deriving Repr, DecidableEq

structure State where
  now   : Nat
  D     : Nat                 -- one-way delay of both links (constant)
  ndA   : Bool := false       -- `ackNoDelay` of A / of B
  ndB   : Bool := false
  A     : Kcp
  B     : Kcp
  nfA   : Nat                 -- next scheduled flush of A / of B
  nfB   : Nat
  ab    : List Dgram := []    -- link A → B, head = oldest
  ba    : List Dgram := []    -- link B → A
  got   : Bytes := []         -- everything `Recv` has returned to the reader, in order
  panic : Bool := false       -- some operation reported a slice-bounds panic
deriving Repr

inductive Ev where
  | tick
  | send (b : Bytes)
  | dlvB
  | dlvA
  | flushA
  | flushB
  | read
deriving Repr, DecidableEq

/-- the 32-bit clock reading (`currentMs()`) at global time `n` -/
def clk (n : Nat) : U32 := BitVec.ofNat 32 n

/-- the outputs of one operation, all arriving at the same time -/
def stamp (arr : Nat) (outs : List Bytes) : List Dgram := outs.map (fun o => ⟨arr, o⟩)

/-- nothing is due: time may pass -/
def quiet (s : State) : Bool :=
  s.ab.all (fun d => decide (s.now < d.arr)) && s.ba.all (fun d => decide (s.now < d.arr)) &&
  decide (s.now < s.nfA) && decide (s.now < s.nfB) && decide (s.B.peekSize < 0)

def step (s : State) : Ev → State
  | .tick => if quiet s then { s with now := s.now + 1 } else s
  | .send b =>
    let r := s.A.send b
    { s with A := r.k, panic := s.panic || r.panic }
  | .dlvB =>
    match s.ab with
    | [] => s
    | d :: rest =>
      if d.arr ≤ s.now then
        let r := s.B.input d.data true s.ndB (clk s.now)
        { s with B := r.k, ab := rest, ba := s.ba ++ stamp (s.now + s.D) r.outs, panic := s.panic || r.panic }
      else s
  | .dlvA =>
    match s.ba with
    | [] => s
    | d :: rest =>
      if d.arr ≤ s.now then
        let r := s.A.input d.data true s.ndA (clk s.now)
        { s with A := r.k, ba := rest, ab := s.ab ++ stamp (s.now + s.D) r.outs, panic := s.panic || r.panic }
      else s
  | .flushA =>
    let r := s.A.flush true (clk s.now)
    { s with A := r.k, nfA := s.now + r.interval.toNat, ab := s.ab ++ stamp (s.now + s.D) r.outs,
             panic := s.panic || r.panic }
  | .flushB =>
    let r := s.B.flush true (clk s.now)
    { s with B := r.k, nfB := s.now + r.interval.toNat, ba := s.ba ++ stamp (s.now + s.D) r.outs,
             panic := s.panic || r.panic }
  | .read =>
    let r := s.B.recv s.B.peekSize.toNat
    if r.n < 0 then s else { s with B := r.k, got := s.got ++ r.data }

def run (s : State) (evs : List Ev) : State := evs.foldl step s

/-- the system at time `t0`: nothing in flight, first flushes one interval away -/
def init (A B : Kcp) (D t0 : Nat) (ndA ndB : Bool := false) : State :=
  { now := t0, D := D, ndA := ndA, ndB := ndB, A := A, B := B,
    nfA := t0 + A.interval.toNat, nfB := t0 + B.interval.toNat }

/-! ### a canonical scheduler (for evaluation only): the first thing that is due, else a tick -/

def nextEv (s : State) : Ev :=
  match s.ab with
  | d :: _ => if d.arr ≤ s.now then .dlvB else nextRest
  | [] => nextRest
where
  nextRest : Ev :=
    match s.ba with
    | d :: _ => if d.arr ≤ s.now then .dlvA else nextLocal
    | [] => nextLocal
  nextLocal : Ev :=
    if s.B.peekSize ≥ 0 then .read
    else if s.nfA ≤ s.now then .flushA
    else if s.nfB ≤ s.now then .flushB
    else .tick

/-- `n` steps of the canonical scheduler; returns the state and the events taken (newest last) -/
def auto : Nat → State → List Ev → State × List Ev
  | 0, s, acc => (s, acc)
  | n + 1, s, acc => auto n (step s (nextEv s)) (acc ++ [nextEv s])

/-- the largest transmission count of a segment waiting in A's send buffer -/
def maxXmit (s : State) : Nat := (s.A.snd_buf.map (fun x => x.xmit.toNat)).foldl max 0

end Sys
end KcpVerif
