/-
Model of the sequential data path of a session in the configuration "no cipher, FEC d/p"
(sess.go): `Model/Sess` (Read, WriteBuffers, update on top of the core model) plus

* the FEC stage of `postProcess`: every datagram the core hands to `output` (size ≥ IKCP_OVERHEAD)
  is copied behind `headerSize` bytes of room and, when the session has an encoder, goes through
  `fecEncoder.encode` (`Model/Fec.Encoder.encode`): the data packet, then the parity packets when
  the group fills and the time test `now − tsLatestPacket < maxFECEncodeLatency` holds
  (`skipParity` otherwise).  The time gap (milliseconds since the previous `encode` call) is an
  INPUT of every operation: it applies to the first datagram the operation emits; the later ones of
  the same operation see gap 0 (`postProcess` handles them at the same clock reading);
* `packetInput` without cipher and the whole of `kcpInput`: the `typeData`/`typeParity` branch
  (lazy 1/1 decoder; a data packet's payload `data[8:]` → `Input(regular = true)` first, then
  `decode`, then every recovered shard `r` with `len r ≥ 2`, `sz = le16 r`, `2 ≤ sz ≤ len r` →
  `Input(r[2:sz], regular = false)`), the `typeOOB` branch (no effect on the data path) and the
  default branch (`Input(data, regular = true)`).

The Reed–Solomon constructor is a parameter `C` (the driver runs `Fec.rsNew`; the theorems assume
the MDS law of `C`, as C07 does).  Core Lean only.
-/
import KcpVerif.Model.Sess
import KcpVerif.Model.Fec

namespace KcpVerif
open KcpVerif.Gen

structure SessFec where
  s          : Sess
  enc        : Option Fec.Encoder := none
  dec        : Option Fec.Decoder := none
  /-- `s.headerSize`: `fecHeaderSizePlus2` when the session has an encoder, else 0 (no cipher) -/
  headerSize : Nat := 0

namespace SessFec

/-- `newUDPSession(conv, d, p, …)` without cipher: decoder and encoder (each `nil` unless
`d > 0 ∧ p > 0`), `headerSize`, `SetMtu(IKCP_MTU_DEF)` = `kcp.SetMtu(IKCP_MTU_DEF − headerSize)` -/
def new (C : Fec.CodecNew) (conv : U32) (d p : Nat) : SessFec :=
  let enc := Fec.Encoder.new C d p 0
  let hs := if enc.isSome then fecHeaderSizePlus2 else 0
  { s := { k := ((Kcp.new conv).setMtu ((IKCP_MTU_DEF : Int) - (hs : Int))).1 },
    enc := enc, dec := Fec.Decoder.new C d p, headerSize := hs }

/-- `UDPSession.SetMtu(mtu)` without cipher -/
def setMtu (x : SessFec) (mtu : Int) : SessFec × Bool :=
  let m := (if mtu < (mtuLimit : Int) then mtu else (mtuLimit : Int)) - (x.headerSize : Int)
  let r := x.s.k.setMtu m
  ({ x with s := { x.s with k := r.1 } }, decide (r.2 = 0))

/-! ### output side: the FEC stage of `postProcess` -/

structure PPRes where
  enc   : Option Fec.Encoder
  /-- the datagrams handed to the transport, in order -/
  wire  : List Bytes
  panic : Bool := false

/-- the core's output callback (drops anything shorter than a KCP header, reserves `hs` bytes of
room) followed by stage 1 of `postProcess`, for the datagrams of one operation, in order;
`gap` = milliseconds since the previous `encode` call, for the first of them -/
def postProcess : Option Fec.Encoder → Nat → List Bytes → Int → PPRes
  | enc, _, [], _ => ⟨enc, [], false⟩
  | none, hs, o :: rest, gap =>
    if o.length < IKCP_OVERHEAD then postProcess none hs rest gap else
    let t := postProcess none hs rest 0
    ⟨none, (List.replicate hs 0 ++ o) :: t.wire, t.panic⟩
  | some e, hs, o :: rest, gap =>
    if o.length < IKCP_OVERHEAD then postProcess (some e) hs rest gap else
    let r := e.encode (List.replicate hs 0 ++ o) (decide (gap < (maxFECEncodeLatency : Int)))
    if r.panic then ⟨some e, [], true⟩ else
    let t := postProcess (some r.st) hs rest 0
    ⟨t.enc, r.data :: (r.parity ++ t.wire), t.panic⟩

/-! ### Write, update, Read -/

structure WriteRes where
  s       : SessFec
  blocked : Bool := false
  n       : Nat := 0
  outs    : List Bytes := []
  panic   : Bool := false

def writeBuffers (x : SessFec) (v : List Bytes) (now : U32) (gap : Int) : WriteRes :=
  let r := x.s.writeBuffers v now
  if r.panic then ⟨{ x with s := r.s }, false, 0, [], true⟩ else
  let pp := postProcess x.enc x.headerSize r.outs gap
  ⟨{ x with s := r.s, enc := pp.enc }, r.blocked, r.n, pp.wire, pp.panic⟩

structure UpdRes where
  s        : SessFec
  interval : U32 := 0
  outs     : List Bytes := []
  panic    : Bool := false

def update (x : SessFec) (now : U32) (gap : Int) : UpdRes :=
  let f := x.s.update now
  if f.panic then ⟨{ x with s := { x.s with k := f.k } }, f.interval, [], true⟩ else
  let pp := postProcess x.enc x.headerSize f.outs gap
  ⟨{ x with s := { x.s with k := f.k }, enc := pp.enc }, f.interval, pp.wire, pp.panic⟩

def read (x : SessFec) (blen : Nat) : Sess.ReadRes := x.s.read blen

/-! ### input side: `packetInput` (no cipher) and `kcpInput` -/

/-- the core while `kcpInput` feeds it: state, everything handed to `output`, the number of `Input`
calls that returned non-zero (`KCPInErrors`), the number of recovered shards fed -/
structure CoreIn where
  k     : Kcp
  outs  : List Bytes := []
  errs  : Nat := 0
  fed   : Nat := 0
  panic : Bool := false

/-- one `s.kcp.Input(d, regular, s.ackNoDelay)` -/
def CoreIn.input (c : CoreIn) (d : Bytes) (regular ackNoDelay : Bool) (now : U32) : CoreIn :=
  if c.panic then c else
  { k := (c.k.input d regular ackNoDelay now).k,
    outs := c.outs ++ (c.k.input d regular ackNoDelay now).outs,
    errs := c.errs + (if (c.k.input d regular ackNoDelay now).ret ≠ 0 then 1 else 0),
    fed := c.fed + (if regular then 0 else 1),
    panic := (c.k.input d regular ackNoDelay now).panic }

/-- `for _, r := range recovers { … }`: the size check (`Fec.trim`) and `Input(r[2:sz], IKCP_PACKET_FEC)` -/
def feedRecovered (ackNoDelay : Bool) (now : U32) : CoreIn → List Bytes → CoreIn
  | c, [] => c
  | c, r :: rest =>
    match Fec.trim r with
    | some pl => feedRecovered ackNoDelay now (c.input pl false ackNoDelay now) rest
    | none => feedRecovered ackNoDelay now c rest

structure InRes where
  s     : SessFec
  outs  : List Bytes := []
  /-- `KCPInErrors` delta -/
  errs  : Nat := 0
  /-- shards `decode` returned / recovered shards that passed the size check and were fed -/
  recov : Nat := 0
  fed   : Nat := 0
  panic : Bool := false

/-- the data path after `kcpInput` has fed the core: post-process what the core emitted -/
def finishInput (x : SessFec) (dec : Option Fec.Decoder) (c : CoreIn) (recov : Nat) (decPanic : Bool) (gap : Int) :
    InRes :=
  if c.panic ∨ decPanic then ⟨{ x with s := { x.s with k := c.k }, dec := dec }, [], c.errs, recov, c.fed, true⟩ else
  let pp := postProcess x.enc x.headerSize c.outs gap
  ⟨{ x with s := { x.s with k := c.k }, dec := dec, enc := pp.enc }, pp.wire, c.errs, recov, c.fed, pp.panic⟩

/-- what `kcpInput` does to the core and the decoder (before the core's output is post-processed) -/
structure KIn where
  c        : CoreIn
  dec      : Option Fec.Decoder
  recov    : Nat := 0
  decPanic : Bool := false

/-- the datagram passes the guards in front of `decode` -/
def toDecoder (d : Bytes) : Bool :=
  decide (¬ d.length < min IKCP_OVERHEAD (fecHeaderSizePlus2 + convSize) ∧
    (Fec.flag d = typeData ∨ Fec.flag d = typeParity) ∧ ¬ d.length < fecHeaderSizePlus2)

/-- `packetInput(d)` without cipher (the minimum-size check), then `kcpInput`, up to the last `Input` -/
def kcpInputCore (C : Fec.CodecNew) (x : SessFec) (d : Bytes) (now : U32) : KIn :=
  if d.length < min IKCP_OVERHEAD (fecHeaderSizePlus2 + convSize) then ⟨{ k := x.s.k, errs := 1 }, x.dec, 0, false⟩ else
  if Fec.flag d = typeData ∨ Fec.flag d = typeParity then
    if d.length < fecHeaderSizePlus2 then ⟨{ k := x.s.k }, x.dec, 0, false⟩ else
    -- lazy initialisation with the default ratio
    match (match x.dec with
           | some dc => some dc
           | none => Fec.Decoder.new C 1 1) with
    | none => ⟨{ k := x.s.k, panic := true }, x.dec, 0, false⟩
    | some dc =>
      ⟨feedRecovered x.s.ackNoDelay now
          (if Fec.flag d = typeData then
             CoreIn.input { k := x.s.k } (d.drop fecHeaderSizePlus2) true x.s.ackNoDelay now
           else { k := x.s.k })
          (dc.decode C d).recovered,
        some (dc.decode C d).st, (dc.decode C d).recovered.length, (dc.decode C d).panic⟩
  else if Fec.flag d = typeOOB then ⟨{ k := x.s.k }, x.dec, 0, false⟩
  else ⟨CoreIn.input { k := x.s.k } d true x.s.ackNoDelay now, x.dec, 0, false⟩

/-- `packetInput(d)`: `kcpInput`, then the FEC stage of `postProcess` on what the core emitted -/
def packetInput (C : Fec.CodecNew) (x : SessFec) (d : Bytes) (now : U32) (gap : Int) : InRes :=
  finishInput x (kcpInputCore C x d now).dec (kcpInputCore C x d now).c (kcpInputCore C x d now).recov
    (kcpInputCore C x d now).decPanic gap

end SessFec
end KcpVerif
