/-
Model of /repo/ringbuffer.go (RingBuffer[T]).  Core Lean only.

A slot is `Option α`: `none` is Go's zero value (a cleared slot), `some a` a stored element.
Every method is transcribed with the code's own index arithmetic.  Slices are modelled by
`List.take`/`List.drop`; an index outside the slice (a Go panic) is unreachable from
well-formed rings (see Props/C20) and is totalised as "no change".
-/
import KcpVerif.Generated

namespace KcpVerif
open KcpVerif.Gen

structure Ring (α : Type) where
  head  : Nat
  tail  : Nat
  elems : List (Option α)
deriving Repr, DecidableEq

namespace Ring
variable {α β σ : Type}

/-- `NewRingBuffer(size)`; Go `int` argument. -/
def new (size : Int) : Ring α :=
  { head := 0, tail := 0,
    elems := List.replicate (if size ≤ (RINGBUFFER_MIN : Int) then RINGBUFFER_MIN else size.toNat) none }

def size (r : Ring α) : Nat := r.elems.length

/-- `Len()` -/
def len (r : Ring α) : Nat :=
  if r.head ≤ r.tail then r.tail - r.head else r.size - r.head + r.tail

/-- `IsEmpty()` -/
def isEmpty (r : Ring α) : Bool := r.head == r.tail

/-- `IsFull()` -/
def isFull (r : Ring α) : Bool := (r.tail + 1) % r.size == r.head

/-- `MaxLen()` (Go: `len(elements) - 1`, an `int`). -/
def maxLen (r : Ring α) : Int := (r.size : Int) - 1

/-- Go slice expression `l[a:b]`. -/
def slice (l : List β) (a b : Nat) : List β := (l.drop a).take (b - a)

/-- `copy(dst[off:], src)`: overwrite as many slots as fit. -/
def blit (dst : List β) (off : Nat) (src : List β) : List β :=
  dst.take off ++ src.take (dst.length - off) ++ dst.drop (off + min src.length (dst.length - off))

/-- new capacity chosen by `grow()` -/
def growSize (cur : Nat) : Nat :=
  if cur < RINGBUFFER_MIN then RINGBUFFER_MIN
  else if cur < RINGBUFFER_EXP then cur * 2
  else cur + (cur + 9) / 10

/-- `grow()` -/
def grow (r : Ring α) : Ring α :=
  let fresh : List (Option α) := List.replicate (growSize r.size) none
  let ne :=
    if r.head < r.tail then blit fresh 0 (slice r.elems r.head r.tail)
    else
      let first := r.elems.drop r.head
      blit (blit fresh 0 first) (min first.length fresh.length) (r.elems.take r.tail)
  { head := 0, tail := r.len, elems := ne }

/-- `Push(v)` -/
def push (r : Ring α) (v : α) : Ring α :=
  let r1 := if r.isFull then r.grow else r
  { r1 with elems := r1.elems.set r1.tail (some v), tail := (r1.tail + 1) % r1.size }

/-- `Pop()`: value (`none` = `(zero,false)`) and the new ring. -/
def pop (r : Ring α) : Option (Option α) × Ring α :=
  if r.len = 0 then (none, r)
  else (r.elems[r.head]?, { r with elems := r.elems.set r.head none, head := (r.head + 1) % r.size })

/-- `Peek()`: the head slot, `none` when empty. -/
def peek (r : Ring α) : Option (Option α) :=
  if r.len = 0 then none else r.elems[r.head]?

/-- `clear(l[a:b])` -/
def clearRange (l : List (Option α)) (a b : Nat) : List (Option α) :=
  l.take a ++ List.replicate (min b l.length - a) none ++ l.drop (max a (min b l.length))

/-- `Clear()` -/
def clear (r : Ring α) : Ring α :=
  let es :=
    if r.head ≤ r.tail then clearRange r.elems r.head r.tail
    else clearRange (clearRange r.elems r.head r.size) 0 r.tail
  { head := 0, tail := 0, elems := es }

/-- `Discard(n)` for `n ≥ 0` (Go `int`; negative `n` is not used by the package). -/
def discard (r : Ring α) (n : Nat) : Nat × Ring α :=
  let cur := r.len
  let n := min n cur
  if n = cur then (n, r.clear)
  else
    let cap := r.size
    let e := r.head + n
    if e < cap then (n, { r with elems := clearRange r.elems r.head e, head := e })
    else (n, { r with elems := clearRange (clearRange r.elems r.head cap) 0 (e - cap), head := e - cap })

/-- What one call of the iterator callback does: the closure's new captured state, the value
it leaves in the slot (written through the `*T`), and its boolean result (`true` = continue). -/
structure CbRes (σ α : Type) where
  st   : σ
  val  : Option α
  cont : Bool

/-- visit the slots at the given indices in order, threading the closure state `s`, writing back
the callback's slot value and stopping after the first `false`.  An index outside the slice
(a Go panic, unreachable from well-formed rings) ends the walk. -/
def iter (f : σ → Option α → CbRes σ α) : σ → List Nat → List (Option α) → σ × List (Option α)
  | s, [], es => (s, es)
  | s, i :: is, es =>
    match es[i]? with
    | none => (s, es)
    | some x =>
      if (f s x).cont then iter f (f s x).st is (es.set i (f s x).val)
      else ((f s x).st, es.set i (f s x).val)

/-- indices visited by `ForEach` -/
def fwdIdx (r : Ring α) : List Nat :=
  if r.len = 0 then []
  else if r.head < r.tail then List.range' r.head (r.tail - r.head)
  else List.range' r.head (r.size - r.head) ++ List.range' 0 r.tail

/-- indices visited by `ForEachReverse` -/
def revIdx (r : Ring α) : List Nat :=
  if r.len = 0 then []
  else if r.head < r.tail then (List.range' r.head (r.tail - r.head)).reverse
  else (List.range' 0 r.tail).reverse ++ (List.range' r.head (r.size - r.head)).reverse

/-- `ForEach(fn)`; `s` is the state captured by the closure `fn`; result: final closure state and ring. -/
def forEach (r : Ring α) (f : σ → Option α → CbRes σ α) (s : σ) : σ × Ring α :=
  ((iter f s r.fwdIdx r.elems).1, { r with elems := (iter f s r.fwdIdx r.elems).2 })

/-- `ForEachReverse(fn)` -/
def forEachReverse (r : Ring α) (f : σ → Option α → CbRes σ α) (s : σ) : σ × Ring α :=
  ((iter f s r.revIdx r.elems).1, { r with elems := (iter f s r.revIdx r.elems).2 })

end Ring
end KcpVerif
