/-
Ownership LTS of the session layer's own pool buffers (sess.go): the core's output callback,
`SendOOB`, `chPostProcessing`, `postProcess` with its `txqueue`.  Core Lean only.

Hand-written from the code (like `Model/Lifecycle`, whose queue / txqueue COUNTS become lists of
buffer ids here); payloads are not modelled (that is `Model/SessOut`).  Every choice the code makes
on data the LTS does not have is a label argument, so the LTS has at least the behaviours of the code:
* `output fate` — `bts := Get()`, copy, then the `select`: `enq` (the request, with its buffer,
  enters `chPostProcessing`), `dflt` (channel full: `Put(bts)`), `dieArm` (`case <-sess.die: return`
  — the buffer is dropped WITHOUT `Put`, it is left to the garbage collector);
* `sendOOB fate` — same, but both the die arm and the default arm `Put(buf)`;
* `ppRecv dups parity flush` — `postProcess` takes the oldest request: FEC-encodes and encrypts it in
  place (use), appends it to `txqueue`, appends `dups` copies of it and `parity` copies of the
  encoder's parity shards (one `Get` each; the encoder's shard cache is not pool memory); if `flush`
  (`len(chPostProcessing) == 0 || len(txqueue) >= maxBatchSize`): `tx(txqueue)` (use of every
  buffer), then `Put` of every buffer and `txqueue = txqueue[:0]`;
* `ppExit` — `postProcess` returns (die): whatever is still in the channel — and, were it possible, in
  `txqueue` (`C15_wf_next` shows it is empty) — is never recycled (garbage collector).
-/
import KcpVerif.Model.FecOwn

namespace KcpVerif
namespace SessOwn
open KcpVerif.Own KcpVerif.Pool KcpVerif.FecOwn

inductive Fate where
  | enq | dflt | dieArm
deriving Repr, DecidableEq

inductive Lbl where
  | output (f : Fate)
  | sendOOB (f : Fate)
  | ppRecv (dups parity : Nat) (flush : Bool)
  | ppExit
deriving Repr

structure OutSt where
  q  : List Nat := []      -- buffers of the requests in chPostProcessing, oldest first
  tx : List Nat := []      -- buffers of txqueue
  gh : Ghost := {}

/-- a buffer that is dropped without `Put` (left to the garbage collector) -/
def forget (g : Ghost) (id : Nat) : Ghost := { g with lost := id :: g.lost }

def forgetAll : List Nat → Ghost → Ghost
  | [], g => g
  | id :: rest, g => forgetAll rest (forget g id)

def useAll : List Nat → Ghost → Ghost
  | [], g => g
  | id :: rest, g => useAll rest (g.use (some id))

def step (s : OutSt) : Lbl → OutSt
  | .output .enq => { s with q := s.q ++ [s.gh.next], gh := s.gh.get }
  | .output .dflt => { s with gh := s.gh.get.recycle (some s.gh.next) }
  | .output .dieArm => { s with gh := forget s.gh.get s.gh.next }
  | .sendOOB .enq => { s with q := s.q ++ [s.gh.next], gh := s.gh.get }
  | .sendOOB .dflt => { s with gh := s.gh.get.recycle (some s.gh.next) }
  | .sendOOB .dieArm => { s with gh := s.gh.get.recycle (some s.gh.next) }
  | .ppRecv dups parity flush =>
    match s.q with
    | [] => s
    | id :: rest =>
      let g1 := s.gh.use (some id)                 -- encode / seal / encrypt in place
      let c := getN (dups + parity) g1             -- dup and parity copies: `bts := Get()[:n]; copy(bts, …)`
      let tx := s.tx ++ id :: c.ids
      if flush then { q := rest, tx := [], gh := putIds tx (useAll tx c.g) }
      else { q := rest, tx := tx, gh := c.g }
  | .ppExit => { q := [], tx := [], gh := forgetAll s.tx (forgetAll s.q s.gh) }

def run (s : OutSt) (ls : List Lbl) : OutSt := ls.foldl step s

end SessOwn
end KcpVerif
