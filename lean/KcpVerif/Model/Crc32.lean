/-
Executable bitwise CRC-32 (IEEE 802.3: reflected polynomial 0xEDB88320, init and final XOR
0xFFFFFFFF) — what Go's `hash/crc32.ChecksumIEEE` computes.  Core Lean only.

The register is a `BitVec 32`.  One message bit enters per `step`; the bits of a byte enter
least-significant first (the reflected convention).  `crc32` is tied to `hash/crc32` by the
differential component `sessin` (every `pinput` line of kind `block` re-computes the checksum of
the covered bytes with this model and compares the verdict with the real code) and by the
dedicated `crc` op lines (random and burst-corrupted strings, value compared with Go's).
The polynomial is a constant of the Go standard library (`crc32.IEEE`), not of the repository.
-/
namespace KcpVerif.Crc32

/-- `crc32.IEEE` (reflected form of 0x04C11DB7) -/
def poly : BitVec 32 := 0xEDB88320#32

/-- one message bit `b` enters the register `r` (LFSR in the "input XORed at the output end"
    form used by every table-driven implementation) -/
def step (r : BitVec 32) (b : Bool) : BitVec 32 :=
  if (r.getLsbD 0 != b) then (r >>> 1) ^^^ poly else r >>> 1

/-- the bits of a byte in the order they enter the register (least significant first) -/
def bitsOfByte (x : UInt8) : List Bool :=
  [x.toNat.testBit 0, x.toNat.testBit 1, x.toNat.testBit 2, x.toNat.testBit 3,
   x.toNat.testBit 4, x.toNat.testBit 5, x.toNat.testBit 6, x.toNat.testBit 7]

def bitsOf (bs : List UInt8) : List Bool := bs.flatMap bitsOfByte

/-- run the register over a bit string -/
def run (r : BitVec 32) (bits : List Bool) : BitVec 32 := bits.foldl step r

def updateByte (r : BitVec 32) (x : UInt8) : BitVec 32 := run r (bitsOfByte x)

/-- `crc32.Update` without the pre/post inversion -/
def update (r : BitVec 32) (bs : List UInt8) : BitVec 32 := bs.foldl updateByte r

/-- `crc32.ChecksumIEEE` -/
def crc32 (bs : List UInt8) : BitVec 32 := update 0xFFFFFFFF#32 bs ^^^ 0xFFFFFFFF#32

/-- byte-wise XOR of two strings (truncates to the shorter) -/
def xorBytes (a e : List UInt8) : List UInt8 := List.zipWith (· ^^^ ·) a e

end KcpVerif.Crc32
