/-
Instrumented model of the pool-buffer ownership of /repo/kcp.go (C15, ownership half).  Core Lean only.

The protocol core of `Model/Kcp.lean` is kept as it is (`KcpO.k` IS a `Kcp`, and every instrumented
operation steps it with the model's own function).  On top of it

* every queued segment carries `buf : Option Nat`, the identity of the pool buffer that backs
  `seg.data` (`none` = `seg.data == nil`, i.e. after `recycleSegment`): the four queues are kept a
  second time as lists of `SegO = (Seg, buf)`; `Sync` (Lemmas/KcpOwnSync.lean) says that forgetting the
  ids gives exactly the queues of `k` — the instrumented model is the tied model plus ghost fields;
* a ghost state `Ghost`: the next fresh buffer id, the event log (`Pool.Ev`: get / put / use, in
  program order) and the buffers that were acquired and then dropped without `Put` (only next to a
  panic of the core).

Instrumented are exactly the pool sites of kcp.go (`Gen.poolSites`):
  `newSegment` (Send: get), the stream-mode append of Send (write into the last queued segment's
  buffer: use), `recycleSegment` — guarded by `data != nil`, here `buf ≠ none` — in Recv (after the
  copy-out: use, put), in parse_ack (put, `data = nil`, the segment stays in snd_buf), in parse_una
  (put only if not yet recycled; `shrink_buf` pops acked head segments without a pool call),
  `parse_data` (get for the copy of a NEW segment, nothing for a
  duplicate), and phase 5 of flush (reads `segment.data` of the segments it transmits: use; acked
  segments are skipped; the `use` events of a flush are exactly the segments the model's phase 5
  decides to send, and the harness checks them against the PUSH segments on the wire).
  `Get()` always returns a fresh id: `sync.Pool` may of course hand a recycled buffer out again, which
  is the same as a fresh one for the discipline (the harness numbers acquisitions, not addresses).
-/
import KcpVerif.Model.Kcp
import KcpVerif.Model.Pool
import KcpVerif.Lemmas.KcpOps

namespace KcpVerif
namespace Own
open KcpVerif.Gen KcpVerif.Kcp KcpVerif.Pool

/-- a segment together with the identity of the pool buffer backing `data` -/
structure SegO where
  s   : Seg
  buf : Option Nat
deriving Repr, DecidableEq

/-- ghost state -/
structure Ghost where
  next : Nat := 0            -- next fresh buffer id (= number of `Get` calls so far)
  log  : List Ev := []       -- events in program order
  lost : List Nat := []      -- acquired, then dropped without Put (the `[:size]` after `Get()` panicked)
deriving Repr

/-- `defaultBufferPool.Get()`; the buffer handed out is `g.next` -/
def Ghost.get (g : Ghost) : Ghost := { g with next := g.next + 1, log := g.log ++ [.get g.next] }

/-- `recycleSegment(seg)`: `if seg.data != nil { Put(seg.data); seg.data = nil }` (the caller clears `buf`) -/
def Ghost.recycle (g : Ghost) : Option Nat → Ghost
  | some id => { g with log := g.log ++ [.put id] }
  | none => g

/-- the bytes of `seg.data` are read or written -/
def Ghost.use (g : Ghost) : Option Nat → Ghost
  | some id => { g with log := g.log ++ [.use id] }
  | none => g

/-- a segment leaves a queue WITHOUT `recycleSegment` (`snd_buf.Pop()` in `shrink_buf`): if it still
held a buffer, the buffer would be dropped — left to the garbage collector, never recycled -/
def Ghost.drop (g : Ghost) : Option Nat → Ghost
  | some id => { g with lost := id :: g.lost }
  | none => g

/-- `Get()[:size]` with `size > cap`: the buffer is acquired, the slice expression panics, nobody holds it -/
def Ghost.getLost (g : Ghost) : Ghost := { g.get with lost := g.next :: g.lost }

structure KcpO where
  k  : Kcp
  sq : List SegO := []       -- snd_queue
  sb : List SegO := []       -- snd_buf
  rb : List SegO := []       -- rcv_buf
  rq : List SegO := []       -- rcv_queue
  gh : Ghost := {}
deriving Repr

/-- forget the buffer ids -/
def er (l : List SegO) : List Seg := l.map (·.s)

def KcpO.new (conv : U32) : KcpO := { k := Kcp.new conv }

/-- segments rewritten in place (header fields only): the ids stay where they are -/
def reattach (new : List Seg) (old : List SegO) : List SegO :=
  List.zipWith (fun s x => { x with s := s }) new old

/-! ### Recv -/

structure PopResO where
  rest : List SegO
  g    : Ghost
deriving Repr

/-- the "merge fragment" loop of Recv: `copy(buffer, seg.data)` then `recycleSegment(&seg)` -/
def popMsgO : List SegO → Ghost → PopResO
  | [], g => ⟨[], g⟩
  | x :: rest, g =>
    if x.s.frg = 0 then ⟨rest, (g.use x.buf).recycle x.buf⟩
    else popMsgO rest ((g.use x.buf).recycle x.buf)

structure MoveResO where
  buf : List SegO
  q   : List SegO
deriving Repr

/-- rcv_buf -> rcv_queue: the segments move with their buffers -/
def moveLoopO (wnd : Nat) : List SegO → List SegO → U32 → MoveResO
  | [], q, _ => ⟨[], q⟩
  | x :: rest, q, nxt =>
    if x.s.sn = nxt ∧ q.length < wnd then moveLoopO wnd rest (q ++ [x]) (nxt + 1)
    else ⟨x :: rest, q⟩

structure RecvResO where
  o    : KcpO
  n    : Int
  data : Bytes
deriving Repr

def recvO (o : KcpO) (buflen : Nat) : RecvResO :=
  let r := o.k.recv buflen
  if o.k.peekSize < 0 then ⟨o, r.n, r.data⟩
  else if o.k.peekSize > buflen then ⟨o, r.n, r.data⟩
  else
    let p := popMsgO o.rq o.gh
    let m := moveLoopO o.k.rcv_wnd.toNat o.rb p.rest o.k.rcv_nxt
    ⟨{ o with k := r.k, rb := m.buf, rq := m.q, gh := p.g }, r.n, r.data⟩

/-! ### Send -/

structure SegsG where
  l : List SegO
  g : Ghost
deriving Repr

/-- the `for i := 0; i < count; i++ { seg := kcp.newSegment(size) … }` loop of Send -/
def mkSegsO (mss : Nat) (stream : Bool) : Nat → Bytes → Ghost → SegsG
  | 0, _, g => ⟨[], g⟩
  | c + 1, buf, g =>
    let r := mkSegsO mss stream c (buf.drop mss) g.get
    ⟨{ s := { frg := if stream then 0 else BitVec.ofNat 8 c, data := buf.take mss }, buf := some g.next } :: r.l, r.g⟩

/-- stream mode: `seg.data = seg.data[:oldlen+extend]; copy(seg.data[oldlen:], buffer)` on the last queued segment -/
def appendLastO (q : List SegO) (extra : Bytes) : List SegO :=
  match q.getLast? with
  | some x => q.dropLast ++ [{ x with s := { x.s with data := x.s.data ++ extra } }]
  | none => q

def lastBuf (q : List SegO) : Option Nat :=
  match q.getLast? with
  | some x => x.buf
  | none => none

structure SendResO where
  o     : KcpO
  ret   : Int
  panic : Bool
deriving Repr

/-- `Send` — the tests in the order of `Kcp.send` / `Kcp.send_eq`: a call that is refused because it
would need more than 255 segments (−2) returns before the stream-mode append touches the queue: no
pool event, no change -/
def sendO (o : KcpO) (buffer : Bytes) : SendResO :=
  let r := o.k.send buffer
  if buffer.length = 0 then ⟨o, r.ret, r.panic⟩ else
  let ext := sendExt o.k buffer
  let buf := buffer.drop ext
  let mss := o.k.mss.toNat
  if sendCount buf mss > 255 then ⟨o, r.ret, r.panic⟩ else
  if sendPanic1 o.k ext then ⟨o, r.ret, r.panic⟩ else
  let q1 := if ext > 0 then appendLastO o.sq (buffer.take ext) else o.sq
  let g1 := if ext > 0 then o.gh.use (lastBuf o.sq) else o.gh
  if o.k.stream ≠ 0 ∧ buf.length = 0 then ⟨{ o with k := r.k, sq := q1, gh := g1 }, r.ret, r.panic⟩ else
  -- `newSegment(size)` with `size > cap`: Get, then the slice expression panics
  if min buf.length mss > mtuLimit then ⟨{ o with k := r.k, sq := q1, gh := g1.getLost }, r.ret, r.panic⟩ else
  let n := mkSegsO mss (o.k.stream ≠ 0) (if sendCount buf mss = 0 then 1 else sendCount buf mss) buf g1
  ⟨{ o with k := r.k, sq := q1 ++ n.l, gh := n.g }, r.ret, r.panic⟩

/-! ### Input -/

/-- `parse_una`: recycle every segment the cumulative ack passes (a no-op for those parse_ack has
already recycled), then `Discard(count)` -/
def unaO (una : U32) : List SegO → Ghost → SegsG
  | [], g => ⟨[], g⟩
  | x :: rest, g =>
    if itimediff una x.s.sn > 0 then unaO una rest (g.recycle x.buf) else ⟨x :: rest, g⟩

/-- the pop loop of `shrink_buf` (sender-wedge repair): the individually acknowledged segments at the
head of snd_buf leave it by `Pop()` — no `recycleSegment` here: `parse_ack` has recycled their payload
when it marked them (`data == nil`; `C15_core_aligned` shows every acked segment of snd_buf has given
its buffer back, so nothing is ever dropped by this loop) -/
def dropAckedO : List SegO → Ghost → SegsG
  | [], g => ⟨[], g⟩
  | x :: rest, g => if x.s.acked then dropAckedO rest (g.drop x.buf) else ⟨x :: rest, g⟩

/-- the loop of `parse_ack`: `seg.acked = 1; recycleSegment(seg)`, the segment stays in snd_buf -/
def ackLoopO (sn : U32) : List SegO → Ghost → SegsG
  | [], g => ⟨[], g⟩
  | x :: rest, g =>
    if sn = x.s.sn then ⟨{ s := { x.s with acked := true, data := [] }, buf := none } :: rest, g.recycle x.buf⟩
    else if itimediff sn x.s.sn < 0 then ⟨x :: rest, g⟩
    else
      let r := ackLoopO sn rest g
      ⟨x :: r.l, r.g⟩

def heapInsertO (x : SegO) : List SegO → List SegO
  | [] => [x]
  | h :: t => if itimediff h.s.sn x.s.sn > 0 then x :: h :: t else h :: heapInsertO x t

structure DataResO where
  rb : List SegO
  rq : List SegO
  g  : Ghost
deriving Repr

/-- `parse_data(newseg)`: `dataCopy := Get()[:len(newseg.data)]` only for a segment that is new -/
def parseDataO (k : Kcp) (s : Seg) (rb rq : List SegO) (g : Ghost) : DataResO :=
  if itimediff s.sn (k.rcv_nxt + k.rcv_wnd) ≥ 0 ∨ itimediff s.sn k.rcv_nxt < 0 then ⟨rb, rq, g⟩
  else if rb.any (fun x => x.s.sn = s.sn) then
    let m := moveLoopO k.rcv_wnd.toNat rb rq k.rcv_nxt
    ⟨m.buf, m.q, g⟩
  else if s.data.length > mtuLimit then ⟨rb, rq, g.getLost⟩
  else
    let m := moveLoopO k.rcv_wnd.toNat (heapInsertO { s := s, buf := some g.next } rb) rq k.rcv_nxt
    ⟨m.buf, m.q, g.get⟩

/-- state of the parse loop of Input: the model's loop state plus the instrumented queues it touches -/
structure InLoopO where
  m  : InLoop
  sb : List SegO
  rb : List SegO
  rq : List SegO
  gh : Ghost
deriving Repr

/-- one accepted segment of the parse loop (`Kcp.inBody`) -/
def inBodyO (regular : Bool) (data : Bytes) (st : InLoopO) : InLoopO :=
  let cmd := BitVec.ofNat 8 (byteAt data 4)
  let sn := rd32 data 12
  let m1 := inSt1 regular (rd16 data 6) (rd32 data 16) st.m
  let u0 := unaO (rd32 data 16) st.sb st.gh                 -- parse_una
  let u := dropAckedO u0.l u0.g                             -- shrink_buf
  let m' := inBody regular data st.m
  if cmd.toNat = IKCP_CMD_ACK then
    -- parse_ack, shrink_buf; then parse_fastack bumps `fastack` in place
    let a0 := if itimediff sn m1.k.snd_una < 0 ∨ itimediff sn m1.k.snd_nxt ≥ 0 then u else ackLoopO sn u.l u.g
    let a := dropAckedO a0.l a0.g
    { st with m := m', sb := reattach m'.k.snd_buf a.l, gh := a.g }
  else if cmd.toNat = IKCP_CMD_PUSH then
    if itimediff sn (m1.k.rcv_nxt + m1.k.rcv_wnd) < 0 ∧ itimediff sn m1.k.rcv_nxt ≥ 0 then
      let d := parseDataO m1.k
        { conv := rd32 data 0, cmd := cmd, frg := BitVec.ofNat 8 (byteAt data 5), wnd := rd16 data 6,
          ts := rd32 data 8, sn := sn, una := rd32 data 16,
          data := (data.drop IKCP_OVERHEAD).take (rd32 data 20).toNat } st.rb st.rq u.g
      { m := m', sb := u.l, rb := d.rb, rq := d.rq, gh := d.g }
    else { st with m := m', sb := u.l, gh := u.g }
  else { st with m := m', sb := u.l, gh := u.g }

/-- the parse loop of Input (`Kcp.inputLoop`, in the staged form `Kcp.inputLoop_succ`) -/
def inputLoopO (regular : Bool) : Nat → Bytes → InLoopO → InLoopO
  | 0, _, st => st
  | fuel + 1, data, st =>
    if data.length < IKCP_OVERHEAD then st else
    if rd32 data 0 ≠ st.m.k.conv then { st with m := { st.m with ret := -1 } } else
    if (data.drop IKCP_OVERHEAD).length < (rd32 data 20).toNat ∨ (rd32 data 20).toNat > mtuLimit then
      { st with m := { st.m with ret := -2 } } else
    if (BitVec.ofNat 8 (byteAt data 4)).toNat ≠ IKCP_CMD_PUSH ∧ (BitVec.ofNat 8 (byteAt data 4)).toNat ≠ IKCP_CMD_ACK ∧
        (BitVec.ofNat 8 (byteAt data 4)).toNat ≠ IKCP_CMD_WASK ∧ (BitVec.ofNat 8 (byteAt data 4)).toNat ≠ IKCP_CMD_WINS then
      { st with m := { st.m with ret := -3 } } else
    if (inBodyO regular data st).m.panic then inBodyO regular data st else
    inputLoopO regular fuel ((data.drop IKCP_OVERHEAD).drop (rd32 data 20).toNat) (inBodyO regular data st)

/-! ### flush -/

/-- phase 5 reads `segment.data` of exactly the segments it transmits — not acked, and `needsend`
(the decision of `Kcp.xmitDec` on the segment as phase 4 left it); `c` = number of segments phase 4
of the same flush admitted (`newSegsCount`) -/
def useSent (k : Kcp) (now : U32) (c : Nat) : List SegO → Ghost → Ghost
  | [], g => g
  | x :: rest, g =>
    useSent k now c rest
      (if x.s.acked = false ∧ (xmitDec k now (resentOf k) c x.s).1 = true then g.use x.buf else g)

structure FlushResO where
  o        : KcpO
  outs     : List Bytes
  interval : U32
  panic    : Bool
deriving Repr

/-- `flush`: phase 4 moves `count` segments (with their buffers) from snd_queue to the end of
snd_buf and stamps conv/cmd/sn/ts on them (`sb4`), phase 5 rewrites header fields in place (`sb5`)
and reads the data of what it transmits -/
def flushO (o : KcpO) (full : Bool) (now : U32) : FlushResO :=
  let r := o.k.flush full now
  let ad := flushAd o.k now
  let sb4 := reattach ad.buf (o.sb ++ o.sq.take ad.count)
  let sb5 := reattach r.k.snd_buf sb4
  ⟨{ o with k := r.k, sq := o.sq.drop ad.count, sb := sb5,
            gh := if full then useSent o.k now ad.count sb4 o.gh else o.gh },
   r.outs, r.interval, r.panic⟩

structure InResO where
  o     : KcpO
  ret   : Int
  outs  : List Bytes
  panic : Bool
deriving Repr

def inResOfFlush (r : FlushResO) : InResO := ⟨r.o, 0, r.outs, r.panic⟩

/-- `Input` (`Kcp.input_eq` / `inputTail` / `inputFin`) -/
def inputO (o : KcpO) (data : Bytes) (regular ackNoDelay : Bool) (now : U32) : InResO :=
  if data.length < IKCP_OVERHEAD then ⟨o, -1, [], false⟩ else
  let st := inputLoopO regular (data.length / IKCP_OVERHEAD + 1) data
    { m := { k := o.k }, sb := o.sb, rb := o.rb, rq := o.rq, gh := o.gh }
  let o1 : KcpO := { k := st.m.k, sq := o.sq, sb := st.sb, rb := st.rb, rq := st.rq, gh := st.gh }
  if st.m.panic then ⟨o1, 0, [], true⟩ else
  if st.m.ret < 0 then ⟨o1, st.m.ret, [], false⟩ else
  let k2 := cwndOnAck (inputK1 st.m regular now) o.k.snd_una
  let o2 : KcpO := { o1 with k := k2 }
  if st.m.flushSeg then inResOfFlush (flushO o2 true now)
  else if k2.acklist.length ≥ (k2.mtu / u32 IKCP_OVERHEAD).toNat then inResOfFlush (flushO o2 false now)
  else if ackNoDelay ∧ k2.acklist.length > 0 then inResOfFlush (flushO o2 false now)
  else ⟨o2, 0, [], false⟩

/-- `Update` (`Kcp.update_eq`) -/
def updateO (o : KcpO) (now : U32) : FlushResO :=
  if updGo o.k now then flushO { o with k := { updK2 o.k now with ts_flush := updTf (updK2 o.k now) now } } true now
  else ⟨{ o with k := updK2 o.k now }, [], 0, false⟩

end Own
end KcpVerif
