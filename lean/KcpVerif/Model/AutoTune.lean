/-
Model of /repo/autotune.go (`autoTune.Sample`, `autoTune.FindPeriod`).  Core Lean only.

* the ring `pulses [maxAutoTuneSamples]pulse` with `head`, `tail`, `count` is kept as in the code;
  `window` is the copy loop into `sortCache` (`count` entries starting at `head`).
* `sort.Slice(sorted, less)` with `less i j = _itimediff(seq i, seq j) < 0` is modelled by
  `List.mergeSort` with `le a b = ¬ less b a`.  Where `less` is a strict total order on the
  window (distinct ids inside half the id space — every window of genuine packets) the sorted
  list is unique, so any correct sort agrees; duplicates of one packet are identical entries, so
  their relative order is invisible.  Entries with equal id and different bit, or ids more than
  2^31 apart, make the result depend on the sorting algorithm; the correspondence harness
  compares those calls for panic-freedom only (op `findx`).
* ids are `BitVec 32` (Go `uint32`), `_itimediff` is the signed 32-bit difference.
-/
import KcpVerif.Generated

namespace KcpVerif.AutoTune
open KcpVerif.Gen

/-- Go `_itimediff(later, earlier) = int32(later - earlier)` -/
def itimediff (later earlier : BitVec 32) : Int := (later - earlier).toInt

structure Pulse where
  bit : Bool
  seq : BitVec 32
deriving Repr, DecidableEq, Inhabited

structure Tune where
  pulses : List Pulse      -- always `maxAutoTuneSamples` slots
  head   : Nat
  tail   : Nat
  count  : Nat
deriving Repr, DecidableEq

/-- the zero value of `autoTune` -/
def Tune.init : Tune :=
  { pulses := List.replicate maxAutoTuneSamples { bit := false, seq := 0 }, head := 0, tail := 0, count := 0 }

/-- `Sample(bit, seq)` -/
def Tune.sample (t : Tune) (bit : Bool) (seq : BitVec 32) : Tune :=
  let pulses := t.pulses.set t.tail { bit := bit, seq := seq }
  let tail := (t.tail + 1) % maxAutoTuneSamples
  if t.count < maxAutoTuneSamples then
    { pulses := pulses, head := t.head, tail := tail, count := t.count + 1 }
  else
    { pulses := pulses, head := (t.head + 1) % maxAutoTuneSamples, tail := tail, count := t.count }

/-- the copy loop: `sortCache[i] = pulses[(head + i) % maxAutoTuneSamples]` for `i < count` -/
def Tune.window (t : Tune) : List Pulse :=
  (List.range t.count).map fun i => t.pulses.getD ((t.head + i) % maxAutoTuneSamples) default

/-- compiled form of `window` (array indexing instead of list indexing); the theorems are about
    `window`, the `csimp` lemma makes the driver run this one -/
def Tune.windowFast (t : Tune) : List Pulse :=
  let a := t.pulses.toArray
  (List.range t.count).map fun i => a.getD ((t.head + i) % maxAutoTuneSamples) default

@[csimp] theorem window_eq_fast : @Tune.window = @Tune.windowFast := by
  funext t
  simp [Tune.window, Tune.windowFast, Array.getD_eq_getD_getElem?, List.getD_eq_getElem?_getD]

/-- the comparator handed to the sort, as a `≤` (`¬ less b a`) -/
def pulseLe (a b : Pulse) : Bool := !(decide (itimediff b.seq a.seq < 0))

def sortPulses (w : List Pulse) : List Pulse := w.mergeSort pulseLe

/-- scan for the first position where the signal changes to `want` (`wantAfter`): the list is
    the not yet visited part, `last` the previous entry, `idx` the index of the head of the list.
    Result: `none` = return −1 (gap or end of window), `some (idx, rest)` = edge found at `idx`,
    `rest` = the entries after it. -/
def scanEdge (want : Bool) : Pulse → Nat → List Pulse → Option (Nat × Pulse × List Pulse)
  | _, _, [] => none
  | last, idx, p :: rest =>
    if last.seq + 1 == p.seq then
      if last.bit != want && p.bit == want then some (idx, p, rest)
      else scanEdge want p (idx + 1) rest
    else none

/-- `FindPeriod` on the sorted window -/
def periodOfSorted (bit : Bool) : List Pulse → Int
  | [] => -1
  | p0 :: rest =>
    match scanEdge bit p0 1 rest with
    | none => -1
    | some (l, pl, rest1) =>
      -- right edge: signal changes away from `bit`, i.e. to `!bit`
      match scanEdge (!bit) pl (l + 1) rest1 with
      | none => -1
      | some (r, _, _) => (r : Int) - (l : Int)

/-- `FindPeriod(bit)` -/
def Tune.findPeriod (t : Tune) (bit : Bool) : Int :=
  if t.count < 3 then -1 else periodOfSorted bit (sortPulses t.window)

end KcpVerif.AutoTune
