/-! the byte-string type shared by all models -/
namespace KcpVerif
abbrev Bytes := List UInt8
end KcpVerif
