/-
Wire formats of kcp-go.  Core Lean only.

Two halves that must not be confused:

* the ENCODERS transcribe the code: `encodeSeg` is `segment.encode` (kcp.go), `fecHeader` is
  `sealData/sealParity/sealOOB` + the size field written by `fecEncoder.encode/encodeOOB`
  (fec.go), `cryptFrame` is the CFB branch of `postProcess` (sess.go);
* `Spec.*` is an INDEPENDENT decoder written from README.md "Specification", from
  `wireshark/kcp_dissector.lua` and from the property text only (never from kcp.go):
  a datagram is `[nonce(16) ‖ crc32(4)]? ‖ [seqid(4) ‖ type(2) ‖ size(2)]? ‖ segment*`,
  a segment is `conv(4) cmd(1) frg(1) wnd(2) ts(4) sn(4) una(4) len(4)` little endian
  followed by exactly `len` bytes, `cmd ∈ {81 PSH, 82 ACK, 83 ASK, 84 TELL}`.
  The dissector's names and offsets (`offset+0 conv`, `+4 cmd`, `+5 frg`, `+6 wnd`, `+8 ts`,
  `+12 sn`, `+16 una`, `+20 len`, next segment at `offset + 24 + len`) are used literally.
-/
import KcpVerif.Generated
import KcpVerif.Model.Bytes

namespace KcpVerif

namespace Wire
open KcpVerif.Gen

/-! ### little endian integers -/

def byteOf (n : Nat) : UInt8 := UInt8.ofNat (n % 256)

/-- `binary.LittleEndian.PutUint16` -/
def le16 (x : BitVec 16) : Bytes := [byteOf x.toNat, byteOf (x.toNat / 256)]

/-- `binary.LittleEndian.PutUint32` -/
def le32 (x : BitVec 32) : Bytes :=
  [byteOf x.toNat, byteOf (x.toNat / 256), byteOf (x.toNat / 65536), byteOf (x.toNat / 16777216)]

/-- `binary.LittleEndian.Uint16` of two given bytes -/
def u16 (a b : UInt8) : BitVec 16 := BitVec.ofNat 16 (a.toNat + 256 * b.toNat)

/-- `binary.LittleEndian.Uint32` of four given bytes -/
def u32 (a b c d : UInt8) : BitVec 32 :=
  BitVec.ofNat 32 (a.toNat + 256 * b.toNat + 65536 * c.toNat + 16777216 * d.toNat)

/-! ### KCP segment (kcp.go `segment`, the fields that go on the wire) -/

structure Seg where
  conv : BitVec 32
  cmd  : UInt8
  frg  : UInt8
  wnd  : BitVec 16
  ts   : BitVec 32
  sn   : BitVec 32
  una  : BitVec 32
  data : Bytes
deriving DecidableEq, Repr

/-- the 24-byte header as the specification names it -/
structure SegHdr where
  conv : BitVec 32
  cmd  : UInt8
  frg  : UInt8
  wnd  : BitVec 16
  ts   : BitVec 32
  sn   : BitVec 32
  una  : BitVec 32
  len  : BitVec 32
deriving DecidableEq, Repr

/-- what `segment.encode` puts into the `len` field: `uint32(len(seg.data))` -/
def Seg.hdr (s : Seg) : SegHdr :=
  { conv := s.conv, cmd := s.cmd, frg := s.frg, wnd := s.wnd, ts := s.ts, sn := s.sn, una := s.una,
    len := BitVec.ofNat 32 s.data.length }

def cmdKnown (c : UInt8) : Bool :=
  c.toNat == IKCP_CMD_PUSH || c.toNat == IKCP_CMD_ACK || c.toNat == IKCP_CMD_WASK || c.toNat == IKCP_CMD_WINS

/-- a segment the core can emit: a known command and a payload whose length fits `uint32`
(in the code it is at most `mss ≤ 1500`). -/
def Seg.WF (s : Seg) : Prop := cmdKnown s.cmd = true ∧ s.data.length < 4294967296

instance (s : Seg) : Decidable s.WF := by unfold Seg.WF; exact inferInstance

/-- `segment.encode`: the header only (the caller copies `seg.data` right behind it). -/
def encodeSeg (s : Seg) : Bytes :=
  le32 s.conv ++ [s.cmd, s.frg] ++ le16 s.wnd ++ le32 s.ts ++ le32 s.sn ++ le32 s.una ++
    le32 (BitVec.ofNat 32 s.data.length)

/-- header and payload back to back, as `flush` lays segments out in its buffer -/
def encodeSegFull (s : Seg) : Bytes := encodeSeg s ++ s.data

/-- a datagram of the core: segments back to back -/
def encodeSegs (l : List Seg) : Bytes := l.flatMap encodeSegFull

/-! ### FEC header (fec.go) and crypt header (sess.go) -/

/-- `sealData/sealParity/sealOOB`: seqid (4, LE) then type (2, LE) -/
def fecHeader (seqid : BitVec 32) (typ : Nat) : Bytes := le32 seqid ++ le16 (BitVec.ofNat 16 typ)

/-- the 16-bit size field written at `payloadOffset`: `uint16(len(b[payloadOffset:]))`, i.e. the
payload length plus the two bytes of the field itself -/
def sizeField (payloadLen : Nat) : Bytes := le16 (BitVec.ofNat 16 (payloadLen + 2))

/-- CFB branch of `postProcess`: nonce, CRC32 (LE) of everything behind the CRC field, the rest -/
def cryptFrame (crc : Bytes → BitVec 32) (nonce rest : Bytes) : Bytes := nonce ++ le32 (crc rest) ++ rest

/-! ### The independent specification decoder -/
namespace Spec

structure SegParse where
  hdr  : SegHdr
  data : Bytes
  rest : Bytes
deriving DecidableEq, Repr

/-- one segment from the front of a byte string.  Fails on a short header, an unknown command
or fewer than `len` payload bytes. -/
def decodeSeg : Bytes → Option SegParse
  | c0 :: c1 :: c2 :: c3 :: cmd :: frg :: w0 :: w1 :: t0 :: t1 :: t2 :: t3 ::
    s0 :: s1 :: s2 :: s3 :: u0 :: u1 :: u2 :: u3 :: l0 :: l1 :: l2 :: l3 :: rest =>
    if cmd.toNat == 81 || cmd.toNat == 82 || cmd.toNat == 83 || cmd.toNat == 84 then
      if (u32 l0 l1 l2 l3).toNat ≤ rest.length then
        some { hdr := { conv := u32 c0 c1 c2 c3, cmd := cmd, frg := frg, wnd := u16 w0 w1,
                        ts := u32 t0 t1 t2 t3, sn := u32 s0 s1 s2 s3, una := u32 u0 u1 u2 u3,
                        len := u32 l0 l1 l2 l3 },
               data := rest.take (u32 l0 l1 l2 l3).toNat,
               rest := rest.drop (u32 l0 l1 l2 l3).toNat }
      else none
    else none
  | _ => none

/-- segments back to back until the bytes are used up exactly (`fuel` ≥ number of segments). -/
def decodeN : Nat → Bytes → Option (List (SegHdr × Bytes))
  | _, [] => some []
  | 0, _ :: _ => none
  | n + 1, b@(_ :: _) =>
    match decodeSeg b with
    | none => none
    | some r =>
      match decodeN n r.rest with
      | none => none
      | some l => some ((r.hdr, r.data) :: l)

/-- a KCP datagram: one or more segments, every byte consumed.  Fails on leftover bytes, on a
shortfall, on an unknown command and on the empty datagram. -/
def decode (b : Bytes) : Option (List (SegHdr × Bytes)) :=
  match b with
  | [] => none
  | _ :: _ => decodeN b.length b

structure FecParse where
  seqid : BitVec 32
  typ   : BitVec 16
  body  : Bytes         -- everything behind seqid and type (starts with the size field for data/OOB)
deriving DecidableEq, Repr

/-- FEC header: seqid(4) type(2) -/
def parseFec : Bytes → Option FecParse
  | i0 :: i1 :: i2 :: i3 :: t0 :: t1 :: body => some { seqid := u32 i0 i1 i2 i3, typ := u16 t0 t1, body := body }
  | _ => none

/-- the 16-bit SIZE field ("size of the KCP frame plus 2") followed by the frame -/
def parseSized : Bytes → Option (Nat × Bytes)
  | z0 :: z1 :: payload => some ((u16 z0 z1).toNat, payload)
  | _ => none

/-- crypt header: nonce(16) crc32(4), the CRC (IEEE, little endian) covers everything behind it.
Returns the nonce and the protected rest. -/
def parseCrypt (crc : Bytes → BitVec 32) (b : Bytes) : Option (Bytes × Bytes) :=
  if b.length < 20 then none
  else
    match (b.drop 16).take 4 with
    | [k0, k1, k2, k3] => if u32 k0 k1 k2 k3 = crc (b.drop 20) then some (b.take 16, b.drop 20) else none
    | _ => none

/-- what a (decrypted) datagram is, according to the specification -/
inductive Frame where
  | kcp    (segs : List (SegHdr × Bytes))                                  -- no FEC
  | data   (seqid : BitVec 32) (size : Nat) (segs : List (SegHdr × Bytes)) -- 0xF1
  | parity (seqid : BitVec 32) (body : Bytes)                              -- 0xF2 (body = RS parity of size‖frame)
  | oob    (seqid : BitVec 32) (size : Nat) (conv : BitVec 32) (payload : Bytes) -- 0xF3
deriving DecidableEq, Repr

/-- the part of a datagram behind the crypt header.  `fec = none`: plain KCP;
`fec = some (d, p)`: FEC header with the type matching the position of `seqid` in the
data/parity cycle, SIZE = frame + 2 for data and OOB. -/
def parseBody (fec : Option (Nat × Nat)) (b : Bytes) : Option Frame :=
  match fec with
  | none => (decode b).map Frame.kcp
  | some (d, p) =>
    match parseFec b with
    | none => none
    | some f =>
      if f.typ.toNat = 0xF1 then
        match parseSized f.body with
        | none => none
        | some (sz, payload) =>
          if sz = payload.length + 2 ∧ f.seqid.toNat % (d + p) < d ∧ f.seqid.toNat < 0xffffffff / (d + p) * (d + p) then
            (decode payload).map (Frame.data f.seqid sz)
          else none
      else if f.typ.toNat = 0xF2 then
        if d ≤ f.seqid.toNat % (d + p) ∧ f.seqid.toNat < 0xffffffff / (d + p) * (d + p) then
          some (Frame.parity f.seqid f.body) else none
      else if f.typ.toNat = 0xF3 then
        match parseSized f.body with
        | none => none
        | some (sz, payload) =>
          match payload with
          | c0 :: c1 :: c2 :: c3 :: msg =>
            if sz = payload.length + 2 ∧ f.seqid.toNat = 0xffffffff then
              some (Frame.oob f.seqid sz (u32 c0 c1 c2 c3) msg) else none
          | _ => none
      else none

/-- how the datagram is protected, as far as the layout is concerned -/
inductive Crypt where
  | none                 -- no cipher: the body starts at byte 0
  | block                -- nonce(16) ‖ crc32(4) ‖ body, the whole datagram encrypted
  | aead (n : Nat)       -- nonce(n) ‖ Seal(body): after opening, nonce(n) ‖ body
deriving DecidableEq, Repr

/-- a whole datagram after decryption (AEAD: the nonce followed by the opened plaintext). -/
def parseDatagram (crc : Bytes → BitVec 32) (crypt : Crypt) (fec : Option (Nat × Nat)) (b : Bytes) :
    Option (Bytes × Frame) :=
  match crypt with
  | .block =>
    match parseCrypt crc b with
    | none => none
    | some (nonce, rest) => (parseBody fec rest).map fun f => (nonce, f)
  | .aead n => if b.length < n then none else (parseBody fec (b.drop n)).map fun f => (b.take n, f)
  | .none => (parseBody fec b).map fun f => ([], f)

def Frame.segs : Frame → List (SegHdr × Bytes)
  | .kcp s => s
  | .data _ _ s => s
  | .parity _ _ => []
  | .oob _ _ _ _ => []

/-! #### reassembly of the byte stream from the wire alone -/

/-- first PUSH segment carrying sequence number `sn` -/
def findSn (sn : Nat) : List (SegHdr × Bytes) → Option (SegHdr × Bytes)
  | [] => none
  | x :: xs => if x.1.cmd.toNat = 81 ∧ x.1.sn.toNat = sn then some x else findSn sn xs

/-- walk sn = start, start+1, … (first occurrence of each), collecting whole messages: a message
ends at a segment with `frg = 0`; the walk stops at the first missing sn; fragments of an
unfinished message (`pending`) are not delivered. -/
def reassembleFrom (all : List (SegHdr × Bytes)) : Nat → Nat → Bytes → Bytes → Bytes
  | 0, _, done, _ => done
  | fuel + 1, sn, done, pending =>
    match findSn sn all with
    | none => done
    | some x =>
      if x.1.frg.toNat = 0 then reassembleFrom all fuel (sn + 1) (done ++ pending ++ x.2) []
      else reassembleFrom all fuel (sn + 1) done (pending ++ x.2)

/-- the byte stream one direction of a connection carries, from all segments seen on the wire
(in wire order, duplicates and retransmissions included). -/
def reassemble (all : List (SegHdr × Bytes)) : Bytes :=
  reassembleFrom all all.length 0 [] []

end Spec
end Wire
end KcpVerif
