/-
32-bit wrap-around arithmetic of kcp.go: `_itimediff`, and little-endian byte codecs.
Core Lean only.
-/
import KcpVerif.Model.Bytes

namespace KcpVerif

abbrev U32 := BitVec 32

/-- `_itimediff(later, earlier) = int32(later - earlier)` -/
def itimediff (later earlier : U32) : Int := (later - earlier).toInt

def le16 (v : BitVec 16) : Bytes :=
  [UInt8.ofNat (v.toNat % 256), UInt8.ofNat (v.toNat / 256 % 256)]

def le32 (v : U32) : Bytes :=
  [UInt8.ofNat (v.toNat % 256), UInt8.ofNat (v.toNat / 256 % 256),
   UInt8.ofNat (v.toNat / 65536 % 256), UInt8.ofNat (v.toNat / 16777216 % 256)]

def byteAt (b : Bytes) (i : Nat) : Nat := (b.getD i 0).toNat

/-- `binary.LittleEndian.Uint16(b[off:])` (caller guarantees the bytes exist) -/
def rd16 (b : Bytes) (off : Nat) : BitVec 16 :=
  BitVec.ofNat 16 (byteAt b off + 256 * byteAt b (off + 1))

/-- `binary.LittleEndian.Uint32(b[off:])` -/
def rd32 (b : Bytes) (off : Nat) : U32 :=
  BitVec.ofNat 32 (byteAt b off + 256 * byteAt b (off + 1) + 65536 * byteAt b (off + 2)
    + 16777216 * byteAt b (off + 3))

end KcpVerif
