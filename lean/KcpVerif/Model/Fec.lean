/-
Model of /repo/fec.go: `fecEncoder` (`encode`, `encodeOOB`, `skipParity`, `seal*`) and
`fecDecoder` (`decode`, `getShardId`, `discardShards`, `shardHeap`), plus the size-field check
that `UDPSession.kcpInput` applies to every recovered shard (`trim`).  Core Lean only.

Modelling decisions
* The Reed–Solomon codec is a value (`Codec`, Go: `reedsolomon.Encoder`), created by a
  constructor `CodecNew` (Go: `reedsolomon.New(d, p)`).  `rsNew` is the executable GF(2^8)
  Vandermonde instance (Model/RS); the theorems of C07 quantify over any constructor that
  satisfies the MDS law.
* `uint32` values are `BitVec 32`; Go `int` lengths and shard counts are `Nat`.
* Encoder cache: only the bytes `[payloadOffset, maxSize)` of `shardCache[i]` are ever read
  (they are the RS input) and the code clears `[len, maxSize)` before reading, so the model
  keeps the bodies `b[payloadOffset:]` of the current group and pads them with zeros.  Bytes
  `[0, headerOffset)` of a parity packet belong to the session layer (nonce/CRC, written in
  place by `postProcess`); a stand-alone encoder leaves them zero, and so does the model.
* The time test `now − tsLatestPacket < rto` is the input `cont` of `encode`.
* A shard heap is the list of its packets: `decode` pops *all* packets when it pops any, and
  the ids in one shard set have distinct positions `seqid % shardSize`, so heap order is
  unobservable.  The map `shardSet` is an association list (printed sorted by key).
* Panics are values (`panic := true`; what happens afterwards is not modelled) for the argument
  errors that the callers exclude: `encode` of a buffer shorter than `payloadOffset + 2` or longer
  than `mtuLimit`; `decode` of fewer than `fecHeaderSize` bytes (DESIGN O3, state unchanged);
  `decode` of more than `mtuLimit` bytes when it reaches the copy into a pool buffer
  (`Get()[:len(in)]`; not when the packet is dropped earlier: id ≥ paws, tuning branch,
  duplicate); the re-slice `shards[k][:maxlen]` beyond a pool buffer's capacity (`recoverPanics`,
  unreachable while all stored packets are ≤ `mtuLimit` — Props/C05Fec).
* `reedsolomon.New` cannot fail for `1 ≤ d, 1 ≤ p, d + p ≤ 256`; the error returns after it are
  not modelled.  (For `d + p > 256` klauspost silently switches to a different code; the
  decoder constructor refuses that range and so does the model's encoder constructor.)
-/
import KcpVerif.Model.AutoTune
import KcpVerif.Model.RS

namespace KcpVerif.Fec
open KcpVerif.Gen KcpVerif.AutoTune

abbrev Bytes := List UInt8

/-- Go `reedsolomon.Encoder` restricted to what fec.go calls -/
structure Codec where
  /-- `Encode`: the parity shards of `d` equal-length, non-empty data shards -/
  enc : List Bytes → List Bytes
  /-- `ReconstructData`: all `d` data shards from `n` optional equal-length shards; `none` = error -/
  recon : List (Option Bytes) → Option (List Bytes)

/-- Go `reedsolomon.New(dataShards, parityShards)` -/
abbrev CodecNew := Nat → Nat → Codec

/-- the executable systematic-Vandermonde code over GF(2^8) (klauspost default) -/
def rsNew : CodecNew := fun d p =>
  let m := RS.buildMatrix d (d + p)
  { enc := RS.encode m d, recon := RS.reconstructData m d }

/-! ### little endian -/

def le16 (v : Nat) : Bytes := [UInt8.ofNat (v % 256), UInt8.ofNat (v / 256 % 256)]

def le32 (v : BitVec 32) : Bytes :=
  [UInt8.ofNat (v.toNat % 256), UInt8.ofNat (v.toNat / 256 % 256),
   UInt8.ofNat (v.toNat / 65536 % 256), UInt8.ofNat (v.toNat / 16777216 % 256)]

def rd16 (b : Bytes) : Nat := (b.getD 0 0).toNat + 256 * (b.getD 1 0).toNat

def rd32 (b : Bytes) : BitVec 32 :=
  BitVec.ofNat 32 ((b.getD 0 0).toNat + 256 * (b.getD 1 0).toNat + 65536 * (b.getD 2 0).toNat
    + 16777216 * (b.getD 3 0).toNat)

/-- `fecPacket.seqid/flag/data` -/
def seqid (pkt : Bytes) : BitVec 32 := rd32 pkt
def flag (pkt : Bytes) : Nat := rd16 (pkt.drop 4)
def body (pkt : Bytes) : Bytes := pkt.drop fecHeaderSize

/-- zero padding to `len` (`shard[:len]` + `clear`) -/
def pad (len : Nat) (s : Bytes) : Bytes := s ++ List.replicate (len - s.length) 0

/-- `0xffffffff / uint32(n) * uint32(n)` -/
def pawsOf (n : Nat) : BitVec 32 := BitVec.ofNat 32 (0xffffffff / n * n)

/-! ### encoder -/

structure Encoder where
  d : Nat
  p : Nat
  n : Nat
  paws : BitVec 32
  next : BitVec 32
  shardCount : Nat
  maxSize : Nat
  headerOffset : Nat
  /-- bodies `b[payloadOffset:]` of the data packets of the current group -/
  cache : List Bytes
  codec : Codec

def Encoder.payloadOffset (e : Encoder) : Nat := e.headerOffset + fecHeaderSize

/-- `newFECEncoder(d, p, offset)`; `none` = `nil` -/
def Encoder.new (C : CodecNew) (d p offset : Nat) : Option Encoder :=
  if d = 0 ∨ p = 0 ∨ d + p > 256 then none
  else some { d := d, p := p, n := d + p, paws := pawsOf (d + p), next := 0, shardCount := 0,
              maxSize := 0, headerOffset := offset, cache := [], codec := C d p }

structure EncOut where
  st : Encoder
  /-- the caller's buffer after `encode` (FEC header and size field written) -/
  data : Bytes
  /-- returned parity packets -/
  parity : List Bytes
  panic : Bool := false

/-- `(next + k) % paws` in `uint32` arithmetic -/
def advance (next : BitVec 32) (k : Nat) (paws : BitVec 32) : BitVec 32 :=
  (next + BitVec.ofNat 32 k) % paws

/-- `k` successive `next = (next + 1) % paws` (one per `sealParity`) -/
def advanceN (paws : BitVec 32) : Nat → BitVec 32 → BitVec 32
  | 0, next => next
  | k + 1, next => advanceN paws k (advance next 1 paws)

/-- `sealParity` on each returned parity shard, in order -/
def sealParities (off : Nat) (paws : BitVec 32) : BitVec 32 → List Bytes → List Bytes
  | _, [] => []
  | next, s :: rest =>
    (List.replicate off 0 ++ le32 next ++ le16 typeParity ++ s) ::
      sealParities off paws (advance next 1 paws) rest

/-- `encode(b, rto)` with `cont = (now − tsLatestPacket < rto)` -/
def Encoder.encode (e : Encoder) (b : Bytes) (cont : Bool) : EncOut :=
  let po := e.payloadOffset
  if b.length < po + 2 ∨ b.length > mtuLimit then { st := e, data := b, parity := [], panic := true }
  else
    -- sealData + size field
    let bodyLen := b.length - po
    let sealed := b.take e.headerOffset ++ le32 e.next ++ le16 typeData ++ le16 (bodyLen % 65536)
                    ++ b.drop (po + 2)
    let next1 := advance e.next 1 e.paws
    let cache := e.cache ++ [sealed.drop po]
    let count := e.shardCount + 1
    let maxSize := if b.length > e.maxSize then b.length else e.maxSize
    if count = e.d then
      if cont then
        let par := e.codec.enc (cache.map (pad (maxSize - po)))
        { st := { e with next := advanceN e.paws e.p next1, shardCount := 0, maxSize := 0, cache := [] },
          data := sealed, parity := sealParities e.headerOffset e.paws next1 par }
      else
        { st := { e with next := advance next1 e.p e.paws, shardCount := 0, maxSize := 0, cache := [] },
          data := sealed, parity := [] }
    else
      { st := { e with next := next1, shardCount := count, maxSize := maxSize, cache := cache },
        data := sealed, parity := [] }

/-- `encodeOOB(b)`: seqid 0xffffffff, type OOB, size field; the state is untouched -/
def Encoder.encodeOOB (e : Encoder) (b : Bytes) : Bytes :=
  let po := e.payloadOffset
  b.take e.headerOffset ++ le32 0xffffffff#32 ++ le16 typeOOB ++ le16 ((b.length - po) % 65536)
    ++ b.drop (po + 2)

/-! ### decoder -/

structure ShardSet where
  id : BitVec 32
  /-- whole packets (FEC header included), arrival order -/
  pkts : List Bytes

structure Decoder where
  d : Nat
  p : Nat
  n : Nat
  paws : BitVec 32
  newest : BitVec 32
  shouldTune : Bool
  tune : Tune
  sets : List ShardSet
  codec : Codec

/-- `newFECDecoder(d, p)`; `none` = `nil` -/
def Decoder.new (C : CodecNew) (d p : Nat) : Option Decoder :=
  if d = 0 ∨ p = 0 ∨ d + p > 256 then none
  else some { d := d, p := p, n := d + p, paws := pawsOf (d + p), newest := 0, shouldTune := false,
              tune := Tune.init, sets := [], codec := C d p }

structure DecOut where
  st : Decoder
  recovered : List Bytes
  panic : Bool := false

/-- `uint32(n)` -/
def u32 (n : Nat) : BitVec 32 := BitVec.ofNat 32 n

/-- position of a packet inside its group, `seqid % uint32(shardSize)` -/
def posOf (n : Nat) (pkt : Bytes) : Nat := (seqid pkt).toNat % n

/-- the decode cache: for each position `k < n` the (padded) body of the packet at that position -/
def gather (n maxlen : Nat) (pkts : List Bytes) : List (Option Bytes) :=
  (List.range n).map fun k => (pkts.find? fun q => posOf n q == k).map fun q => pad maxlen (body q)

def maxBody : List Bytes → Nat
  | [] => 0
  | q :: rest => max (body q).length (maxBody rest)

/-- data shards that were absent, in index order -/
def pickMissing : List (Option Bytes) → List Bytes → List Bytes
  | none :: fs, s :: ss => s :: pickMissing fs ss
  | some _ :: fs, _ :: ss => pickMissing fs ss
  | _, _ => []

/-- the recovery block: all packets of the set have been popped -/
def recover (dec : Decoder) (pkts : List Bytes) : List Bytes :=
  let numData := (pkts.filter fun q => flag q == typeData).length
  if numData = dec.d then []
  else
    let shards := gather dec.n (maxBody pkts) pkts
    match dec.codec.recon shards with
    | some ds => pickMissing (shards.take dec.d) ds
    | none => []

/-- the re-slice `shards[k][:maxlen]` of the recovery block exceeds the capacity of a pool buffer
    (`mtuLimit − fecHeaderSize` for `pkt.data()`): only when some data shard is absent (case 2) and
    the longest body does not fit — impossible while every stored packet is ≤ `mtuLimit` bytes -/
def recoverPanics (dec : Decoder) (pkts : List Bytes) : Bool :=
  decide ((pkts.filter fun q => flag q == typeData).length ≠ dec.d) &&
  decide (maxBody pkts + fecHeaderSize > mtuLimit)

/-- `discardShards`: a shard set survives iff its age `_itimediff(newest·n, id·n)` lies in
    `[0, maxShardSets·n]` (the lower bound is the repair of finding D14: a set half the id space
    away, or left "ahead" by a large jump of `newestShardId`, has a negative age) -/
def discard (n : Nat) (newest : BitVec 32) (sets : List ShardSet) : List ShardSet :=
  sets.filter fun s =>
    !(decide (itimediff (newest * u32 n) (s.id * u32 n) > (maxShardSets * n : Nat)) ||
      decide (itimediff (newest * u32 n) (s.id * u32 n) < 0))

def lookup (id : BitVec 32) : List ShardSet → Option ShardSet
  | [] => none
  | s :: rest => if s.id == id then some s else lookup id rest

def store (s : ShardSet) : List ShardSet → List ShardSet
  | [] => [s]
  | t :: rest => if t.id == s.id then s :: rest else t :: store s rest

/-- the tuning branch (`if dec.shouldTune { … }`), entered with `shouldTune` already set;
    `seq` is the id of the packet being decoded -/
def retune (C : CodecNew) (dec : Decoder) (seq : BitVec 32) : Decoder :=
  let ads := dec.tune.findPeriod true
  let aps := dec.tune.findPeriod false
  if 0 < ads ∧ 0 < aps ∧ ads + aps < 256 then
    if ads ≠ dec.d ∨ aps ≠ dec.p then
      { dec with d := ads.toNat, p := aps.toNat, n := ads.toNat + aps.toNat,
                 paws := pawsOf (ads.toNat + aps.toNat), sets := [],
                 codec := C ads.toNat aps.toNat, shouldTune := false,
                 -- shard ids are counted in units of the new shard size from here on
                 -- (`dec.newestShardId = dec.getShardId(in.seqid())`, repair of finding D12)
                 newest := seq / u32 (ads.toNat + aps.toNat) }
    else { dec with shouldTune := false }
  else { dec with shouldTune := true }

/-- does the packet's type contradict its position under the decoder's ratio? -/
def mismatch (dec : Decoder) (inp : Bytes) : Bool :=
  if posOf dec.n inp < dec.d then flag inp != typeData else flag inp != typeParity

/-- `decode(in)` -/
def Decoder.decode (C : CodecNew) (dec : Decoder) (inp : Bytes) : DecOut :=
  if inp.length < fecHeaderSize then { st := dec, recovered := [], panic := true }
  else
    let seq := seqid inp
    let dec1 := { dec with tune := dec.tune.sample (flag inp == typeData) seq }
    if seq.toNat ≥ dec1.paws.toNat then { st := dec1, recovered := [] }
    else if mismatch dec1 inp || dec1.shouldTune then { st := retune C dec1 seq, recovered := [] }
    else
      let shardId := seq / u32 dec1.n
      -- repair of finding D13: when no shard set exists (new decoder, or right after auto-tune)
      -- the discard horizon starts at this packet (`if len(dec.shardSet) == 0 { newestShardId =
      -- shardId }`, executed where the shard set is created; an empty map has no entry for `shardId`)
      let base := if dec1.sets.isEmpty then shardId else dec1.newest
      let set := (lookup shardId dec1.sets).getD { id := shardId, pkts := [] }
      if set.pkts.any (fun q => seqid q == seq) then { st := { dec1 with newest := base }, recovered := [] }
      else
        let pkts := set.pkts ++ [inp]
        let full := decide (pkts.length ≥ dec1.d)
        let recovered := if full then recover dec1 pkts else []
        let sets := store { id := shardId, pkts := if full then [] else pkts } dec1.sets
        let newest :=
          if itimediff (shardId * u32 dec1.n) (base * u32 dec1.n) > 0 then shardId else base
        -- slice-bounds panics of this path: `defaultBufferPool.Get()[:len(in)]` for an input longer
        -- than a pool buffer, and the re-slice in the recovery block (what happens after a panic is
        -- not modelled: `st`/`recovered` are then meaningless and the harness abandons the decoder)
        { st := { dec1 with sets := discard dec1.n newest sets, newest := newest }, recovered := recovered,
          panic := decide (inp.length > mtuLimit) || (full && recoverPanics dec1 pkts) }

/-- the check of `kcpInput` on a recovered shard: `r[2:sz]` when `2 ≤ sz ≤ len(r)` -/
def trim (r : Bytes) : Option Bytes :=
  if 2 ≤ r.length ∧ 2 ≤ rd16 r ∧ rd16 r ≤ r.length then some ((r.take (rd16 r)).drop 2) else none

end KcpVerif.Fec
