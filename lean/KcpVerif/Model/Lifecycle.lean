/-
Lifecycle LTS of /repo/sess.go: the goroutines and the scheduler callback the library starts for
a session (`postProcess`, `readLoop`, the self-rescheduling `update`) and for a listener
(`monitor`), with their loop guards.  Core Lean only.

What is abstracted: payloads, the KCP core and the FEC codec are reduced to *counts* — how many
requests are queued in `chPostProcessing` (`q`), how many datagrams wait in `postProcess`'s
`txqueue` (`tx`), and how many enqueue attempts are still to come from calls that are in flight
(`prod`: every output-callback invocation of a `flush` running inside `update`, `Close`, `Write`
or the input path, and every `SendOOB`; each invocation performs exactly one `select` that either
enqueues one request or drops it).

Source map (sess.go):
* `ppRecv`  : postProcess `case req := <-s.chPostProcessing` … `chDie = s.die`
* `ppDie`   : postProcess `case <-chDie:` (`chDie = nil; continue` when the queue is non-empty, else return)
* `produce` : the `select` of the output callback in `newUDPSession` / of `SendOOB`
* `updFire` : `update`'s `select { case <-s.die: default:` ; `updRun`: the re-`Put`
* `rlReturn`: `ReadFrom` returns in `defaultReadLoop`; `rlCheck`: the `isClosed()` test after it
* `api`     : an API call / input that starts while the session is open; `close`: `Close`
* monitor   : `defaultMonitor`
-/
import KcpVerif.Generated

namespace KcpVerif
namespace Life
open KcpVerif.Gen

/-- control state of `postProcess`: waiting in the `select` with `chDie = s.die`, waiting with
`chDie = nil`, returned -/
inductive PP where
  | sel | selNoDie | exited
deriving Repr, DecidableEq

/-- the `update` callback: queued in the scheduler, running past its `die` test (will re-`Put`),
not queued any more -/
inductive Upd where
  | pending | running | stopped
deriving Repr, DecidableEq

/-- `readLoop` (client sessions only): none, blocked in `ReadFrom`, holding a packet before the
`isClosed` test, returned -/
inductive RL where
  | absent | reading | got | exited
deriving Repr, DecidableEq

structure Sess where
  die      : Bool   -- `s.die` is closed
  ownConn  : Bool   -- `Close` also closes the transport
  connOpen : Bool   -- the transport is open (a closed transport makes `ReadFrom` return an error)
  q        : Nat    -- len(chPostProcessing)
  tx       : Nat    -- len(txqueue) inside postProcess (pool buffers it still has to send and recycle)
  pp       : PP
  upd      : Upd
  rl       : RL
  prod     : Nat    -- enqueue attempts still to come from calls in flight
deriving Repr, DecidableEq

/-- `newUDPSession` -/
def Sess.new (client ownConn : Bool) : Sess :=
  { die := false, ownConn := ownConn, connOpen := true, q := 0, tx := 0, pp := .sel, upd := .pending,
    rl := if client then .reading else .absent, prod := 0 }

inductive Lbl where
  | ppRecv (k : Nat)       -- one request dequeued; `k` extra datagrams (dup copies, parity)
  | ppDie
  | produce (enq : Bool)   -- one output-callback / SendOOB `select`: enqueue or drop
  | updFire (n : Nat)      -- scheduler runs `update`; if not dead its flush will call output `n` times
  | updRun                 -- `update` re-Puts itself
  | rlReturn (err : Bool)  -- `ReadFrom` returns an error / a packet
  | rlCheck (n : Nat)      -- `isClosed()` test; if open, input processing calls output `n` times
  | api (n : Nat)          -- Write / input / SendOOB starting on an open session
  | close (n : Nat)        -- `Close()`: close(die), final flush (`n` outputs), close own transport
  | closeTransport         -- the application closes the transport
deriving Repr, DecidableEq

/-- the transition function; `none` = the label is not enabled -/
def next (s : Sess) : Lbl → Option Sess
  | .ppRecv k =>
    if s.pp ≠ .exited ∧ 0 < s.q then
      some { s with q := s.q - 1,
                    tx := if s.q - 1 = 0 ∨ maxBatchSize ≤ s.tx + k + 1 then 0 else s.tx + k + 1,
                    pp := .sel }
    else none
  | .ppDie =>
    if s.pp = .sel ∧ s.die = true then
      some { s with pp := if 0 < s.q then .selNoDie else .exited }
    else none
  | .produce enq =>
    if 0 < s.prod ∧ (enq = true → s.q < devBacklog) then
      some { s with prod := s.prod - 1, q := if enq then s.q + 1 else s.q }
    else none
  | .updFire n =>
    if s.upd = .pending then
      some (if s.die then { s with upd := .stopped } else { s with upd := .running, prod := s.prod + n })
    else none
  | .updRun =>
    if s.upd = .running then some { s with upd := .pending } else none
  | .rlReturn err =>
    if s.rl = .reading ∧ (err = true ↔ s.connOpen = false) then
      some { s with rl := if err then .exited else .got }
    else none
  | .rlCheck n =>
    if s.rl = .got then
      some (if s.die then { s with rl := .exited } else { s with rl := .reading, prod := s.prod + n })
    else none
  | .api n =>
    if s.die = false then some { s with prod := s.prod + n } else none
  | .close n =>
    if s.die = false then
      some { s with die := true, prod := s.prod + n,
                    connOpen := if s.ownConn ∧ s.rl ≠ .absent then false else s.connOpen }
    else none
  | .closeTransport => if s.connOpen = true then some { s with connOpen := false } else none

/-- listener's `monitor` goroutine: blocked in `ReadFrom`, processing a packet, returned -/
inductive Mon where
  | reading | processing | exited
deriving Repr, DecidableEq

structure Lst where
  connOpen : Bool
  mon      : Mon
deriving Repr, DecidableEq

inductive MLbl where
  | ret (err : Bool)   -- `ReadFrom` returns
  | processed          -- `packetInput` returns (it never blocks: the backlog test precedes the send)
  | closeTransport
deriving Repr, DecidableEq

def mnext (l : Lst) : MLbl → Option Lst
  | .ret err =>
    if l.mon = .reading ∧ (err = true ↔ l.connOpen = false) then
      some { l with mon := if err then .exited else .processing }
    else none
  | .processed => if l.mon = .processing then some { l with mon := .reading } else none
  | .closeTransport => if l.connOpen = true then some { l with connOpen := false } else none

end Life
end KcpVerif
