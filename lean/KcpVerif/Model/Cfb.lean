/-
Model of /repo/crypt.go.  Core Lean only.

* `encrypt8/encrypt16/decrypt8/decrypt16`: the hand-unrolled CFB helpers, transcribed in the
  shape of the Go code — `n = len(src) >> 3|4`, `repeat = n >> 3` groups of eight literal steps,
  the `left = n & 7` fall-through switch, the tail XOR; decrypt with the `tbl`/`next` double
  buffer and the order *Encrypt(next, src) first, XOR into dst second* which is what makes the
  in-place call work.
* memory: a call sees two slices.  Either they are the same memory (`alias = true`, the Go
  call `Encrypt(buf, buf)`) — then a write through `dst` is visible through `src` — or they are
  disjoint.  `Bufs.write` is the only way memory changes, so "which dst bytes are written" is
  explicit.  Contract of `BlockCrypt`: `len(dst) ≥ len(src)` (otherwise Go panics on a slice
  bound; the model is not meant for that case).
* the block cipher is a parameter `E : Bytes → Bytes` (`block.Encrypt(out, in)` reads the first
  block of `in`, i.e. `E (in.take bs)`; only the forward direction is used by CFB).
* `cfbEnc`/`cfbDec`: textbook full-block CFB, the definition `crypto/cipher.NewCFBEncrypter`
  implements (`c_i = p_i ⊕ E c_{i-1}`, `c_{-1} = iv`, a final partial block is XORed with a
  prefix of `E c_last`).
* the shells of salsa20 (first 8 bytes = nonce, copied; rest XOR keystream(nonce)), simple XOR
  (fixed table) and none (copy); the capacity test of the AEAD wrapper.
* not modelled: the ciphers themselves, the two mutexes of `blockCrypt` and which `cipher.Block`
  value each direction uses (concurrency: C14 and the Go-side oracle `concurrent-callers-*`).
-/
import KcpVerif.Generated

namespace KcpVerif.Cfb
open KcpVerif

abbrev Bytes := List UInt8

/-- value written by `subtle.XORBytes(_, x, y)`: `x[i] ^ y[i]` for `i < min(len x, len y)` -/
def xorB (x y : Bytes) : Bytes := List.zipWith (· ^^^ ·) x y

/-- overwrite `buf[off : off+len(bs)]` with `bs` -/
def splice (buf : Bytes) (off : Nat) (bs : Bytes) : Bytes :=
  buf.take off ++ bs ++ buf.drop (off + bs.length)

/-- the two slices of one call -/
structure Bufs where
  src : Bytes
  dst : Bytes
  /-- `dst` and `src` are the same memory -/
  alias : Bool
deriving Repr, DecidableEq

/-- a write of `bs` through `dst[off:]` -/
def Bufs.write (m : Bufs) (off : Nat) (bs : Bytes) : Bufs :=
  { src := if m.alias then splice m.src off bs else m.src
    dst := splice m.dst off bs
    alias := m.alias }

/-- Go slice expression: `b[off:off+bs]` (`closed`) or `b[off:]` (open ended, as in the
`left` switch of the 16-byte helpers) -/
def rd (closed : Bool) (bs : Nat) (b : Bytes) (off : Nat) : Bytes :=
  if closed then (b.drop off).take bs else b.drop off

/-- `for range n { a = f a }` -/
def iter {α : Type} (f : α → α) : Nat → α → α
  | 0, a => a
  | n + 1, a => iter f n (f a)

/-- registers of the helpers: the memory, the contents of the slices currently called `tbl`
and `next`, and `base` -/
structure St where
  m : Bufs
  tbl : Bytes
  next : Bytes
  base : Nat
deriving Repr, DecidableEq

/-- `tbl, next = next, tbl` (the slice variables are exchanged, not the bytes) -/
def St.swap (s : St) : St := { s with tbl := s.next, next := s.tbl }

/-- `base = b` -/
def St.setBase (s : St) (b : Nat) : St := { s with base := b }

section
variable (E : Bytes → Bytes) (bs : Nat)

/-! ### encryption -/

/-- one block at absolute offset `off`:
`subtle.XORBytes(dst[off..], src[off..], tbl); block.Encrypt(tbl, dst[off..])` -/
def encAt (closed : Bool) (off : Nat) (s : St) : St :=
  let m1 := s.m.write off (xorB (rd closed bs s.m.src off) s.tbl)
  { s with m := m1, tbl := E ((rd closed bs m1.dst off).take bs) }

/-- one case of the `left` switch: a block at `base`, then `base += bs` -/
def encL (closed : Bool) (s : St) : St :=
  (encAt E bs closed s.base s).setBase (s.base + bs)

/-- `case 0`: `subtle.XORBytes(dst[base:], src[base:], tbl)` -/
def tailXor (s : St) : St :=
  { s with m := s.m.write s.base (xorB (s.m.src.drop s.base) s.tbl) }

/-- the fall-through `switch left` of `encrypt8`/`encrypt16` (`case k` runs `k` block steps
and ends in `case 0`); a value outside 0..7 matches no case -/
def encSwitch (closed : Bool) (left : Nat) (s : St) : St :=
  let L := encL E bs closed
  match left with
  | 7 => tailXor (L (L (L (L (L (L (L s)))))))
  | 6 => tailXor (L (L (L (L (L (L s))))))
  | 5 => tailXor (L (L (L (L (L s)))))
  | 4 => tailXor (L (L (L (L s))))
  | 3 => tailXor (L (L (L s)))
  | 2 => tailXor (L (L s))
  | 1 => tailXor (L s)
  | 0 => tailXor s
  | _ => s

/-! ### decryption -/

/-- `block.Encrypt(next, src[off..]); subtle.XORBytes(dst[off..], src[off..], tbl)` -/
def decA (closed : Bool) (off : Nat) (s : St) : St :=
  let s1 : St := { s with next := E ((rd closed bs s.m.src off).take bs) }
  { s1 with m := s1.m.write off (xorB (rd closed bs s1.m.src off) s1.tbl) }

/-- `block.Encrypt(tbl, src[off..]); subtle.XORBytes(dst[off..], src[off..], next)` -/
def decB (closed : Bool) (off : Nat) (s : St) : St :=
  let s1 : St := { s with tbl := E ((rd closed bs s.m.src off).take bs) }
  { s1 with m := s1.m.write off (xorB (rd closed bs s1.m.src off) s1.next) }

/-- one case of the `left` switch of decrypt: step A at `base`, `tbl, next = next, tbl`,
`base += bs` -/
def decL (closed : Bool) (s : St) : St :=
  (decA E bs closed s.base s).swap.setBase (s.base + bs)

def decSwitch (closed : Bool) (left : Nat) (s : St) : St :=
  let L := decL E bs closed
  match left with
  | 7 => tailXor (L (L (L (L (L (L (L s)))))))
  | 6 => tailXor (L (L (L (L (L (L s))))))
  | 5 => tailXor (L (L (L (L (L s)))))
  | 4 => tailXor (L (L (L (L s))))
  | 3 => tailXor (L (L (L s)))
  | 2 => tailXor (L (L s))
  | 1 => tailXor (L s)
  | 0 => tailXor s
  | _ => s

end

/-! ### the four helpers, with the literal offsets of the source -/

section
variable (E : Bytes → Bytes)

/-- body of the `for range repeat` loop of `encrypt8` -/
def encGroup8 (s : St) : St :=
  let b := s.base
  let s := encAt E 8 true (b + 0) s    -- 1
  let s := encAt E 8 true (b + 8) s    -- 2
  let s := encAt E 8 true (b + 16) s   -- 3
  let s := encAt E 8 true (b + 24) s   -- 4
  let s := encAt E 8 true (b + 32) s   -- 5
  let s := encAt E 8 true (b + 40) s   -- 6
  let s := encAt E 8 true (b + 48) s   -- 7
  let s := encAt E 8 true (b + 56) s   -- 8
  s.setBase (b + 64)

/-- body of the `for range repeat` loop of `encrypt16` -/
def encGroup16 (s : St) : St :=
  let b := s.base
  let s := encAt E 16 true (b + 0) s
  let s := encAt E 16 true (b + 16) s
  let s := encAt E 16 true (b + 32) s
  let s := encAt E 16 true (b + 48) s
  let s := encAt E 16 true (b + 64) s
  let s := encAt E 16 true (b + 80) s
  let s := encAt E 16 true (b + 96) s
  let s := encAt E 16 true (b + 112) s
  s.setBase (b + 128)

/-- body of the `for range repeat` loop of `decrypt8`: `tbl`/`next` alternate, no swap -/
def decGroup8 (s : St) : St :=
  let b := s.base
  let s := decA E 8 true (b + 0) s     -- 1
  let s := decB E 8 true (b + 8) s     -- 2
  let s := decA E 8 true (b + 16) s    -- 3
  let s := decB E 8 true (b + 24) s    -- 4
  let s := decA E 8 true (b + 32) s    -- 5
  let s := decB E 8 true (b + 40) s    -- 6
  let s := decA E 8 true (b + 48) s    -- 7
  let s := decB E 8 true (b + 56) s    -- 8
  s.setBase (b + 64)

def decGroup16 (s : St) : St :=
  let b := s.base
  let s := decA E 16 true (b + 0) s
  let s := decB E 16 true (b + 16) s
  let s := decA E 16 true (b + 32) s
  let s := decB E 16 true (b + 48) s
  let s := decA E 16 true (b + 64) s
  let s := decB E 16 true (b + 80) s
  let s := decA E 16 true (b + 96) s
  let s := decB E 16 true (b + 112) s
  s.setBase (b + 128)

/-- `tbl := buf[:bs]; block.Encrypt(tbl, initialVector)`; `next0` is whatever the working
buffer held before (it is never read before being written) -/
def start (bs : Nat) (src dst : Bytes) (alias : Bool) (next0 : Bytes) : St :=
  { m := { src := src, dst := dst, alias := alias }
    tbl := E (Gen.initialVector.take bs), next := next0, base := 0 }

/-- `encrypt8(block, dst, src, buf)` -/
def encrypt8 (src dst : Bytes) (alias : Bool) : St :=
  let n := src.length >>> 3
  let rep := n >>> 3
  let left := n &&& 7
  encSwitch E 8 true left (iter (encGroup8 E) rep (start E 8 src dst alias []))

/-- `encrypt16(block, dst, src, buf)`; its `left` switch uses open-ended slices -/
def encrypt16 (src dst : Bytes) (alias : Bool) : St :=
  let n := src.length >>> 4
  let rep := n >>> 3
  let left := n &&& 7
  encSwitch E 16 false left (iter (encGroup16 E) rep (start E 16 src dst alias []))

/-- `decrypt8(block, dst, src, buf)` -/
def decrypt8 (src dst : Bytes) (alias : Bool) (next0 : Bytes) : St :=
  let n := src.length >>> 3
  let rep := n >>> 3
  let left := n &&& 7
  decSwitch E 8 true left (iter (decGroup8 E) rep (start E 8 src dst alias next0))

/-- `decrypt16(block, dst, src, buf)` -/
def decrypt16 (src dst : Bytes) (alias : Bool) (next0 : Bytes) : St :=
  let n := src.length >>> 4
  let rep := n >>> 3
  let left := n &&& 7
  decSwitch E 16 false left (iter (decGroup16 E) rep (start E 16 src dst alias next0))

/-- `encrypt(block, dst, src, buf)`: dispatch on `block.BlockSize()`; `none` is the panic
"unsupported cipher block size" -/
def encrypt (bs : Nat) (src dst : Bytes) (alias : Bool) : Option Bufs :=
  match bs with
  | 8 => some (encrypt8 E src dst alias).m
  | 16 => some (encrypt16 E src dst alias).m
  | _ => none

/-- `decrypt(block, dst, src, buf)` -/
def decrypt (bs : Nat) (src dst : Bytes) (alias : Bool) (next0 : Bytes) : Option Bufs :=
  match bs with
  | 8 => some (decrypt8 E src dst alias next0).m
  | 16 => some (decrypt16 E src dst alias next0).m
  | _ => none

end

/-! ### textbook CFB -/

/-- full-block CFB encryption of `p` with previous ciphertext block `prev` (`iv` at first) -/
def cfbEnc (E : Bytes → Bytes) (bs : Nat) (prev p : Bytes) : Bytes :=
  if _h : bs = 0 ∨ p.length < bs then xorB p (E prev)
  else
    let c := xorB (p.take bs) (E prev)
    c ++ cfbEnc E bs c (p.drop bs)
termination_by p.length
decreasing_by simp only [List.length_drop]; omega

/-- full-block CFB decryption of `c` with previous ciphertext block `prev` (`iv` at first) -/
def cfbDec (E : Bytes → Bytes) (bs : Nat) (prev c : Bytes) : Bytes :=
  if _h : bs = 0 ∨ c.length < bs then xorB c (E prev)
  else xorB (c.take bs) (E prev) ++ cfbDec E bs (c.take bs) (c.drop bs)
termination_by c.length
decreasing_by simp only [List.length_drop]; omega

/-! ### stream / xor / none shells -/

/-- first `n` bytes of the keystream for `nonce` -/
def keystream (ks : Bytes → Nat → UInt8) (nonce : Bytes) (n : Nat) : Bytes :=
  (List.range n).map (ks nonce)

/-- `salsa20BlockCrypt.Encrypt(dst, src)`:
`if len(src) < 8 { copy(dst, src); return }; XORKeyStream(dst[8:], src[8:], src[:8], key);
if &dst[0] != &src[0] { copy(dst[:8], src[:8]) }` -/
def salsaEncrypt (ks : Bytes → Nat → UInt8) (src dst : Bytes) (alias : Bool) : Bufs :=
  let m : Bufs := { src := src, dst := dst, alias := alias }
  if src.length < 8 then m.write 0 src
  else
    let m1 := m.write 8 (xorB (src.drop 8) (keystream ks (src.take 8) (src.length - 8)))
    if alias then m1 else m1.write 0 (m1.src.take 8)

/-- `salsa20BlockCrypt.Decrypt(dst, src)` (same body as `Encrypt`) -/
def salsaDecrypt (ks : Bytes → Nat → UInt8) (src dst : Bytes) (alias : Bool) : Bufs :=
  let m : Bufs := { src := src, dst := dst, alias := alias }
  if src.length < 8 then m.write 0 src
  else
    let m1 := m.write 8 (xorB (src.drop 8) (keystream ks (src.take 8) (src.length - 8)))
    if alias then m1 else m1.write 0 (m1.src.take 8)

/-- the salsa20 shell BEFORE the repair of defect D4 (`Encrypt` and `Decrypt` had this same
body): the short branch `len(src) < 8` returned without touching `dst`.  Kept only for the
recorded counterexample `C08_salsa_short_counterexample_prerepair`. -/
def salsaCryptPreRepair (ks : Bytes → Nat → UInt8) (src dst : Bytes) (alias : Bool) : Bufs :=
  let m : Bufs := { src := src, dst := dst, alias := alias }
  if src.length < 8 then m
  else
    let m1 := m.write 8 (xorB (src.drop 8) (keystream ks (src.take 8) (src.length - 8)))
    if alias then m1 else m1.write 0 (m1.src.take 8)

/-- `simpleXORBlockCrypt.Encrypt/Decrypt`: `subtle.XORBytes(dst, src, xortbl)` (nothing for
an empty `src`) -/
def xorCrypt (tbl : Bytes) (src dst : Bytes) (alias : Bool) : Bufs :=
  let m : Bufs := { src := src, dst := dst, alias := alias }
  if src.length = 0 then m else m.write 0 (xorB src tbl)

/-- `noneBlockCrypt.Encrypt/Decrypt`: `copy(dst, src)` unless same memory or empty -/
def noneCrypt (src dst : Bytes) (alias : Bool) : Bufs :=
  let m : Bufs := { src := src, dst := dst, alias := alias }
  if src.length = 0 then m else if alias then m else m.write 0 src

/-! ### AEAD wrapper -/

/-- `aeadCrypt.Seal(dst, nonce, plaintext, nil)` inside a buffer of capacity `cap`:
`none` = the wrapper's panic ("AEAD Seal allocated new slice"), otherwise the appended slice.
`sealF` is the underlying `cipher.AEAD.Seal` as a function of nonce and plaintext. -/
def aeadSeal (sealF : Bytes → Bytes → Bytes) (overhead cap : Nat) (dst nonce pt : Bytes) : Option Bytes :=
  if cap - dst.length < pt.length + overhead then none else some (dst ++ sealF nonce pt)

/-! ### a toy block cipher (identical in the Go harness): every output byte depends on the
key, its position and every input byte -/

def rotl3 (b : UInt8) : UInt8 := (b <<< 3) ||| (b >>> 5)

def toyE (key : Bytes) (x : Bytes) : Bytes :=
  let n := x.length
  let sum : UInt8 := x.foldl (· + ·) 0
  (List.range n).map fun i =>
    (x.getD i 0 * 7 + key.getD (i % key.length) 0 + sum + UInt8.ofNat i) ^^^ rotl3 (x.getD ((i + 1) % n) 0)

end KcpVerif.Cfb
