/-
Model of the buffer-pool discipline of /repo (bufferpool.go and every `defaultBufferPool.Get/Put`
site) as seen by the sanitizer of /repo/verif_pool_on.go.  Core Lean only.

A buffer is identified by a natural number (the Go sanitizer numbers backing arrays in order of
first appearance).  The observable events are `get id` (bufferPool.Get returned buffer `id`),
`put id` (bufferPool.Put accepted buffer `id`, i.e. its capacity is `mtuLimit`) and `use id`
(the buffer is read or written, e.g. handed to `WriteTo`).

`step` is the sanitizer: the same state machine as `verifPoolGet` / `verifPoolPut` /
`VerifPoolUse` in Go (per buffer: unknown → owned → free → owned …), including what the state
becomes after a finding, so that the driver can follow an event log past a finding.
`sanitize` is the verdict on a whole log (first finding wins).
-/
import KcpVerif.Generated

namespace KcpVerif
namespace Pool
open KcpVerif.Gen

inductive Ev where
  | get (id : Nat)
  | put (id : Nat)
  | use (id : Nat)
deriving Repr, DecidableEq

inductive Verdict where
  | ok
  | alias        -- get of a buffer that is owned: two owners
  | doublePut    -- put of a buffer that is already in the pool
  | foreignPut   -- put of a buffer that never came out of the pool
  | useAfterPut  -- use of a buffer that is in the pool
  | useUnknown   -- use of a buffer the pool never handed out (the Go side never logs this)
deriving Repr, DecidableEq

/-- sanitizer state: the ownership map of the Go sanitizer, as two id lists -/
structure St where
  owned : List Nat
  free  : List Nat
deriving Repr, DecidableEq

def St.init : St := { owned := [], free := [] }

structure StepR where
  v  : Verdict
  st : St
deriving Repr

def remove (l : List Nat) (id : Nat) : List Nat := l.filter (fun x => x != id)

/-- one event through the sanitizer (verifPoolGet / verifPoolPut / VerifPoolUse) -/
def step (s : St) : Ev → StepR
  | .get id =>
    if id ∈ s.owned then { v := .alias, st := s }
    else { v := .ok, st := { owned := id :: s.owned, free := remove s.free id } }
  | .put id =>
    if id ∈ s.owned then { v := .ok, st := { owned := remove s.owned id, free := id :: s.free } }
    else if id ∈ s.free then { v := .doublePut, st := s }
    else { v := .foreignPut, st := { s with free := id :: s.free } }
  | .use id =>
    if id ∈ s.owned then { v := .ok, st := s }
    else if id ∈ s.free then { v := .useAfterPut, st := s }
    else { v := .useUnknown, st := s }

/-- verdict on a log from a given state: the first finding -/
def sanitizeFrom (s : St) : List Ev → Verdict
  | [] => .ok
  | e :: l => if (step s e).v = .ok then sanitizeFrom (step s e).st l else (step s e).v

/-- the sanitizer's verdict on an event log -/
def sanitize (l : List Ev) : Verdict := sanitizeFrom St.init l

/-- `bufferPool.Put`'s capacity test: only full-capacity buffers are accepted -/
def putAccepts (capacity : Nat) : Bool := capacity == mtuLimit

def Verdict.name : Verdict → String
  | .ok => "ok"
  | .alias => "reject alias"
  | .doublePut => "reject double-put"
  | .foreignPut => "reject foreign-put"
  | .useAfterPut => "reject use-after-put"
  | .useUnknown => "reject use-unknown"

end Pool
end KcpVerif
