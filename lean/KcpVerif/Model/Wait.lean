import KcpVerif.Generated
/-!
# Model/Wait — the blocking loops of `UDPSession.Read`, `WriteBuffers`, `Listener.AcceptKCP`
(sess.go) as a labelled transition system (DESIGN 7.13, property C13).

Shared state `Sh`: what the loops test and what wakes them up.  Per caller goroutine a `Thread`:
program counter over the control points of the Go loops, the private `*time.Timer`
(`created` = `timeout != nil`, `armed` = it will fire at that instant, `buf` = a value sits in
`timeout.C`), the nil-able case channel `c`, and the local `trd`/`twd` (`seen`).

The code is transcribed as it is; three structural facts of the source select the variant
(`Cfg`), and they are *re-extracted from sess.go on every run* (`Gen.wait…`, see
extract/tables_wait.go), so the theorems in Props/C13 are about the tree that is checked:

* `repoint` — RESET_TIMER re-points `c = timeout.C` after `timeout.Reset` (absent: D7);
* `rearm`   — a wake-up goes back to RESET_TIMER also when no timer exists yet (absent: D7b,
              a deadline set while a call without deadline is blocked is never honoured);
* `chain`   — a successful `Read` re-notifies when more data is readable (absent: D5).

`async` is `GODEBUG=asynctimerchan=1` (pre-1.23 timer channels: `Stop`/`Reset` leave a value that
was already sent in the buffer).  Timer objects follow runtime/time.go.

Time is virtual (`Nat`, milliseconds); `tick` advances it only when no thread step and no timer
expiry is enabled — the maximal-progress semantics of a `testing/synctest` bubble.
-/
namespace KcpVerif.Wait

abbrev Time := Nat

structure Cfg where
  repoint : Bool
  rearm : Bool
  chain : Bool
  async : Bool
deriving DecidableEq, Repr

inductive Kind | read | write | accept
deriving DecidableEq, Repr

inductive Ret | ok | timeout | closed | sockerr
deriving DecidableEq, Repr

/-- control points.  `reset` = label RESET_TIMER (Accept: function entry); `pre` = the
non-blocking die/error poll at the top of the Write loop; `check` = the test under `s.mu`;
`sel` = blocked in the `select`; `woken` = inside `case <-s.chReadEvent` (token taken). -/
inductive Pc | idle | reset | pre | check | sel | woken | done
deriving DecidableEq, Repr

/-- which `select` case fires (`go` = the only continuation of a non-blocking control point;
`tok` = the event channel, for Accept the backlog channel) -/
inductive Choice | go | tok | timeout | err | die
deriving DecidableEq, Repr

structure Thread where
  kind : Kind
  pc : Pc := .idle
  created : Bool := false
  armed : Option Time := none
  buf : Bool := false
  c : Bool := false
  seen : Option Time := none
  ret : Option Ret := none
  retAt : Time := 0
  /-- ghost: was the session already closed when the call started -/
  dieAtCall : Bool := false
  /-- `len(b)` of this `Read` call; bytes it returned -/
  bsz : Nat := 1
  got : Nat := 0
deriving DecidableEq, Repr

structure Sh where
  /-- `len(s.bufptr)`: rest of a message that did not fit the buffer of an earlier `Read` -/
  left : Nat := 0
  /-- sizes (> 0) of the complete messages waiting in the receive queue (`PeekSize` = head) -/
  queue : List Nat := []
  inflight : Nat := 0
  wnd : Nat := 1
  rtok : Bool := false
  wtok : Bool := false
  rd : Option Time := none
  wd : Option Time := none
  ld : Option Time := none
  die : Bool := false
  rerr : Bool := false
  werr : Bool := false
  ldie : Bool := false
  lerr : Bool := false
  backlog : Nat := 0
  now : Time := 0
deriving DecidableEq, Repr

structure State where
  sh : Sh
  ths : List Thread
deriving DecidableEq, Repr

/-- number of `Read` calls' worth of data: leftover bytes count as readable -/
def Sh.readable (sh : Sh) : Nat := sh.left + sh.queue.length

/-- `len(s.bufptr) > 0 || s.kcp.PeekSize() > 0` -/
def more (left : Nat) (queue : List Nat) : Bool := decide (0 < left) || !queue.isEmpty

structure RdRes where
  left : Nat
  queue : List Nat
  n : Nat

/-- the locked section of `Read` with a buffer of `b` bytes: `bufptr` first; else the next message,
directly if it fits, else through `recvbuf` and the rest stays in `bufptr`; `none`: nothing to read -/
def take (left : Nat) (queue : List Nat) (b : Nat) : Option RdRes :=
  if 0 < left then some ⟨left - min b left, queue, min b left⟩
  else match queue with
    | m :: q => if m ≤ b then some ⟨0, q, m⟩ else some ⟨m - b, q, b⟩
    | [] => none

/-- result of one thread step -/
structure TRes where
  sh : Sh
  t : Thread

/-! ## timer object -/

/-- RESET_TIMER: `if trd set { if timeout == nil {NewTimer; c = timeout.C} else {Reset [; c = timeout.C]} }
else if timeout != nil { Stop; c = nil }` -/
def Thread.loadDeadline (cfg : Cfg) (t : Thread) (cell : Option Time) : Thread :=
  match cell with
  | some d =>
    if t.created then
      { t with seen := some d, armed := some d, buf := cfg.async && t.buf, c := cfg.repoint || t.c }
    else
      { t with seen := some d, created := true, armed := some d, buf := false, c := true }
  | none =>
    if t.created then
      { t with seen := none, armed := none, buf := cfg.async && t.buf, c := false }
    else
      { t with seen := none }

/-- `if !timeout.Stop() { select { case <-timeout.C: default: } }` -/
def Thread.stopDrain (cfg : Cfg) (t : Thread) : Thread :=
  { t with armed := none, buf := cfg.async && t.armed.isSome && t.buf }

/-- return from the call (`defer timeout.Stop()`) -/
def Thread.finish (t : Thread) (r : Ret) (now : Time) (n : Nat := 0) : Thread :=
  { t with pc := .done, ret := some r, retAt := now, armed := none, buf := false, got := n }

/-- the caller's state at the start of a call -/
def Thread.fresh (k : Kind) (die : Bool) (b : Nat) : Thread :=
  { kind := k, pc := .reset, dieAtCall := die, bsz := b }

/-! ## one step of one caller -/

def tstepRead (cfg : Cfg) (sh : Sh) (t : Thread) (ch : Choice) : Option TRes :=
  match t.pc, ch with
  | .reset, .go => some ⟨sh, { t.loadDeadline cfg sh.rd with pc := .check }⟩
  | .check, .go =>
    match take sh.left sh.queue t.bsz with
    | some r =>
      -- chainReadEvent(): re-notify if something is left (repair of D5)
      some ⟨{ sh with left := r.left, queue := r.queue, rtok := sh.rtok || (cfg.chain && more r.left r.queue) },
            t.finish .ok sh.now r.n⟩
    | none => some ⟨sh, { t with pc := .sel }⟩
  | .sel, .tok => if sh.rtok then some ⟨{ sh with rtok := false }, { t with pc := .woken }⟩ else none
  | .sel, .timeout => if t.c && t.buf then some ⟨sh, t.finish .timeout sh.now⟩ else none
  | .sel, .err => if sh.rerr then some ⟨sh, t.finish .sockerr sh.now⟩ else none
  | .sel, .die => if sh.die then some ⟨sh, t.finish .closed sh.now⟩ else none
  | .woken, .go =>
    if t.created then some ⟨sh, { t.stopDrain cfg with pc := .reset }⟩
    else some ⟨sh, { t with pc := if cfg.rearm then .reset else .check }⟩
  | _, _ => none

def tstepWrite (cfg : Cfg) (sh : Sh) (t : Thread) (ch : Choice) : Option TRes :=
  match t.pc, ch with
  | .reset, .go => some ⟨sh, { t.loadDeadline cfg sh.wd with pc := .pre }⟩
  | .pre, .err => if sh.werr then some ⟨sh, t.finish .sockerr sh.now⟩ else none
  | .pre, .die => if sh.die then some ⟨sh, t.finish .closed sh.now⟩ else none
  | .pre, .go => if sh.werr || sh.die then none else some ⟨sh, { t with pc := .check }⟩
  | .check, .go =>
    if sh.inflight < sh.wnd then
      some ⟨{ sh with inflight := sh.inflight + 1 }, t.finish .ok sh.now⟩
    else some ⟨sh, { t with pc := .sel }⟩
  | .sel, .tok => if sh.wtok then some ⟨{ sh with wtok := false }, { t with pc := .woken }⟩ else none
  | .sel, .timeout => if t.c && t.buf then some ⟨sh, t.finish .timeout sh.now⟩ else none
  | .sel, .err => if sh.werr then some ⟨sh, t.finish .sockerr sh.now⟩ else none
  | .sel, .die => if sh.die then some ⟨sh, t.finish .closed sh.now⟩ else none
  | .woken, .go =>
    if t.created then some ⟨sh, { t.stopDrain cfg with pc := .reset }⟩
    else some ⟨sh, { t with pc := if cfg.rearm then .reset else .pre }⟩
  | _, _ => none

/-- `AcceptKCP`: the deadline is read once, at entry; a single `select` -/
def tstepAccept (sh : Sh) (t : Thread) (ch : Choice) : Option TRes :=
  match t.pc, ch with
  | .reset, .go =>
    match sh.ld with
    | some d => some ⟨sh, { t with seen := some d, created := true, armed := some d, buf := false, c := true, pc := .sel }⟩
    | none => some ⟨sh, { t with seen := none, c := false, pc := .sel }⟩
  | .sel, .tok => if 0 < sh.backlog then some ⟨{ sh with backlog := sh.backlog - 1 }, t.finish .ok sh.now⟩ else none
  | .sel, .timeout => if t.c && t.buf then some ⟨sh, t.finish .timeout sh.now⟩ else none
  | .sel, .err => if sh.lerr then some ⟨sh, t.finish .sockerr sh.now⟩ else none
  | .sel, .die => if sh.ldie then some ⟨sh, t.finish .closed sh.now⟩ else none
  | _, _ => none

def tstep (cfg : Cfg) (sh : Sh) (t : Thread) (ch : Choice) : Option TRes :=
  match t.kind with
  | .read => tstepRead cfg sh t ch
  | .write => tstepWrite cfg sh t ch
  | .accept => tstepAccept sh t ch

/-- the runtime delivers an expired timer into its channel -/
def Thread.fire (now : Time) (t : Thread) : Option Thread :=
  match t.armed with
  | some w => if w ≤ now then some { t with armed := none, buf := true } else none
  | none => none

def allChoices : List Choice := [.go, .tok, .timeout, .err, .die]

/-- some step of this caller (or the expiry of its timer) is enabled -/
def Thread.canStep (cfg : Cfg) (sh : Sh) (t : Thread) : Bool :=
  allChoices.any (fun ch => (tstep cfg sh t ch).isSome) || (t.fire sh.now).isSome

def quiescent (cfg : Cfg) (s : State) : Bool := s.ths.all (fun t => !t.canStep cfg s.sh)

def Thread.armedGe (t' : Time) (t : Thread) : Bool :=
  match t.armed with
  | some w => decide (t' ≤ w)
  | none => true

/-- is the object the call is made on already closed -/
def State.closedFor (s : State) (k : Kind) : Bool :=
  match k with
  | .accept => s.sh.ldie
  | _ => s.sh.die

/-! ## labels and the global step -/

inductive Label
  | thr (i : Nat) (ch : Choice)
  | fire (i : Nat)
  | call (i : Nat) (b : Nat)   -- caller i starts a call (Read: with a buffer of b bytes)
  | collect (i : Nat)          -- the caller's result has been observed (done → idle)
  | arrive (ms : List Nat)     -- kcpInput: messages of these sizes become readable; notify readers iff PeekSize > 0, writers iff room
  | opn (j : Nat)              -- kcpInput: j segments acknowledged; same two notifications
  | pump                       -- update(): notify writers iff room (not after Close)
  | setRD (d : Option Time)
  | setWD (d : Option Time)
  | setD (d : Option Time)
  | setLD (d : Option Time)
  | close
  | sockRErr
  | sockWErr
  | conn                       -- a new peer: one more session in the accept backlog
  | lclose
  | lsockErr
  | tick (t' : Time)
deriving DecidableEq, Repr

def step (cfg : Cfg) (s : State) : Label → Option State
  | .thr i ch =>
    match s.ths[i]? with
    | some t =>
      match tstep cfg s.sh t ch with
      | some r => some { sh := r.sh, ths := s.ths.set i r.t }
      | none => none
    | none => none
  | .fire i =>
    match s.ths[i]? with
    | some t =>
      match t.fire s.sh.now with
      | some t' => some { s with ths := s.ths.set i t' }
      | none => none
    | none => none
  | .call i b =>
    match s.ths[i]? with
    | some t =>
      if t.pc = .idle then
        some { s with ths := s.ths.set i (Thread.fresh t.kind (s.closedFor t.kind) b) }
      else none
    | none => none
  | .collect i =>
    match s.ths[i]? with
    | some t => if t.pc = .done then some { s with ths := s.ths.set i { t with pc := .idle } } else none
    | none => none
  | .arrive ms =>
    some { s with sh := { s.sh with queue := s.sh.queue ++ ms,
                                    rtok := s.sh.rtok || !(s.sh.queue ++ ms).isEmpty,
                                    wtok := s.sh.wtok || decide (s.sh.inflight < s.sh.wnd) } }
  | .opn j =>
    some { s with sh := { s.sh with inflight := s.sh.inflight - j,
                                    rtok := s.sh.rtok || !s.sh.queue.isEmpty,
                                    wtok := s.sh.wtok || decide (s.sh.inflight - j < s.sh.wnd) } }
  | .pump =>
    if s.sh.die then some s
    else some { s with sh := { s.sh with wtok := s.sh.wtok || decide (s.sh.inflight < s.sh.wnd) } }
  | .setRD d => some { s with sh := { s.sh with rd := d, rtok := true } }
  | .setWD d => some { s with sh := { s.sh with wd := d, wtok := true } }
  | .setD d => some { s with sh := { s.sh with rd := d, wd := d, rtok := true, wtok := true } }
  | .setLD d => some { s with sh := { s.sh with ld := d } }
  | .close => some { s with sh := { s.sh with die := true } }
  | .sockRErr => some { s with sh := { s.sh with rerr := true } }
  | .sockWErr => some { s with sh := { s.sh with werr := true } }
  | .conn => some { s with sh := { s.sh with backlog := s.sh.backlog + 1 } }
  | .lclose => some { s with sh := { s.sh with ldie := true } }
  | .lsockErr => some { s with sh := { s.sh with lerr := true } }
  | .tick t' =>
    if s.sh.now < t' && quiescent cfg s && s.ths.all (Thread.armedGe t') then
      some { s with sh := { s.sh with now := t' } }
    else none

/-- what `Close()` returns in this state (`dieOnce`) -/
def closeResult (s : State) : Ret := if s.sh.die then .closed else .ok
def lcloseResult (s : State) : Ret := if s.sh.ldie then .closed else .ok

def init (kinds : List Kind) (wnd : Nat) (inflight : Nat := 0) : State :=
  { sh := { wnd := wnd, inflight := inflight }, ths := kinds.map (fun k => { kind := k }) }

def run (cfg : Cfg) (s : State) : List Label → Option State
  | [] => some s
  | l :: ls => match step cfg s l with
    | some s' => run cfg s' ls
    | none => none

inductive Reach (cfg : Cfg) (s0 : State) : State → Prop
  | init : Reach cfg s0 s0
  | step {s s' : State} (l : Label) : Reach cfg s0 s → step cfg s l = some s' → Reach cfg s0 s'

/-! ## the variant of the source tree being checked (facts regenerated by extract/) -/

def cfgOfSource (async : Bool) : Cfg :=
  { repoint := Gen.waitReadRepoint && Gen.waitWriteRepoint,
    rearm := Gen.waitReadRearm && Gen.waitWriteRearm,
    chain := Gen.waitReadChain,
    async := async }

/-- the code as it was before the repairs (defects D5, D7, D7b) -/
def cfgOrig (async : Bool) : Cfg := { repoint := false, rearm := false, chain := false, async := async }
def cfgFixed (async : Bool) : Cfg := { repoint := true, rearm := true, chain := true, async := async }

/-! ## exploration under maximal progress (used by the driver and by the counterexamples) -/

/-- all states reachable by one thread step or timer expiry -/
def succs (cfg : Cfg) (s : State) : List State :=
  (List.range s.ths.length).flatMap fun i =>
    (allChoices.filterMap fun ch => step cfg s (.thr i ch)) ++ (step cfg s (.fire i)).toList

def insertNew (acc : List State) (s : State) : List State := if acc.contains s then acc else s :: acc

/-- states at which no thread step is enabled, reachable from `frontier` by thread steps -/
def settle (cfg : Cfg) : Nat → List State → List State → List State → List State
  | 0, _, _, quiet => quiet
  | _ + 1, [], _, quiet => quiet
  | fuel + 1, s :: rest, seen, quiet =>
    if seen.contains s then settle cfg fuel rest seen quiet
    else
      let nx := succs cfg s
      if nx.isEmpty then settle cfg fuel rest (s :: seen) (insertNew quiet s)
      else settle cfg fuel (nx ++ rest) (s :: seen) quiet

def settleAll (cfg : Cfg) (ss : List State) : List State := settle cfg 100000 ss [] []

/-- next timer expiry strictly in the future (after settling every armed timer is in the future) -/
def nextExpiry (s : State) : Option Time :=
  s.ths.foldl (fun acc t => match t.armed, acc with
    | some w, some a => some (min w a)
    | some w, none => some w
    | none, a => a) none

/-- advance one settled state to time `t`, settling at every timer expiry on the way -/
def advance (cfg : Cfg) : Nat → Time → State → List State
  | 0, _, s => [s]
  | fuel + 1, t, s =>
    match nextExpiry s with
    | some w =>
      if w ≤ t then
        (settleAll cfg [{ s with sh := { s.sh with now := max w s.sh.now } }]).flatMap (advance cfg fuel t)
      else [{ s with sh := { s.sh with now := max t s.sh.now } }]
    | none => [{ s with sh := { s.sh with now := max t s.sh.now } }]

end KcpVerif.Wait
