/-
Model of the sequential data path of a session (sess.go) on top of the core model:
`Read` (bufptr logic), `WriteBuffers` (admission, chunking to mss, flush rule), the receive path
for the configuration without cipher and FEC (`packetInput` → `kcpInput` → `Input`), and the
scheduled `update`.  What blocks (no data / window full) is reported as `blocked`; the waiting
itself is the subject of Model/Wait (C13).  Core Lean only.
-/
import KcpVerif.Model.Kcp

namespace KcpVerif
open KcpVerif.Gen

structure Sess where
  k          : Kcp
  bufptr     : Bytes := []
  writeDelay : Bool := false
  ackNoDelay : Bool := false
deriving Repr

namespace Sess

/-- `newUDPSession` without cipher and FEC: `SetMtu(IKCP_MTU_DEF)`, stream mode off (message mode
is the session default; `SetStreamMode` is a setter) -/
def new (conv : U32) : Sess := { k := ((Kcp.new conv).setMtu IKCP_MTU_DEF).1 }

structure ReadRes where
  s       : Sess
  blocked : Bool := false
  data    : Bytes := []
deriving Repr

/-- one pass of the `Read(b)` loop body with `len(b) = blen` -/
def read (s : Sess) (blen : Nat) : ReadRes :=
  if s.bufptr.length > 0 then
    ⟨{ s with bufptr := s.bufptr.drop (min blen s.bufptr.length) }, false, s.bufptr.take (min blen s.bufptr.length)⟩
  else
    let size := s.k.peekSize
    if size > 0 then
      if (blen : Int) ≥ size then
        let r := s.k.recv blen
        ⟨{ s with k := r.k }, false, r.data⟩
      else
        let r := s.k.recv size.toNat          -- into recvbuf[:size]
        ⟨{ s with k := r.k, bufptr := r.data.drop (min blen r.data.length) }, false, r.data.take (min blen r.data.length)⟩
    else ⟨s, true, []⟩

structure SendChunks where
  k     : Kcp
  panic : Bool := false
deriving Repr

/-- the inner `for` of WriteBuffers for one slice: chunks of `mss` bytes, the last one `≤ mss` -/
def sendChunks : Nat → Kcp → Bytes → SendChunks
  | 0, k, _ => ⟨k, false⟩
  | fuel + 1, k, b =>
    if b.length ≤ k.mss.toNat then
      let r := k.send b
      ⟨r.k, r.panic⟩
    else
      let r := k.send (b.take k.mss.toNat)
      if r.panic then ⟨r.k, true⟩ else sendChunks fuel r.k (b.drop k.mss.toNat)

def sendAll : List Bytes → Kcp → SendChunks
  | [], k => ⟨k, false⟩
  | b :: rest, k =>
    let r := sendChunks (b.length + 1) k b
    if r.panic then r else sendAll rest r.k

structure WriteRes where
  s       : Sess
  blocked : Bool := false
  n       : Nat := 0
  outs    : List Bytes := []
  panic   : Bool := false
deriving Repr

/-- one pass of the `WriteBuffers(v)` loop body -/
def writeBuffers (s : Sess) (v : List Bytes) (now : U32) : WriteRes :=
  if s.k.waitSnd < s.k.snd_wnd.toNat then
    let r := sendAll v s.k
    if r.panic then ⟨{ s with k := r.k }, false, 0, [], true⟩ else
    let n := (v.map List.length).sum
    if r.k.waitSnd ≥ r.k.snd_wnd.toNat ∨ ¬ s.writeDelay then
      let f := r.k.flush true now
      ⟨{ s with k := f.k }, false, n, f.outs, f.panic⟩
    else ⟨{ s with k := r.k }, false, n, [], false⟩
  else ⟨s, true, 0, [], false⟩

structure InputRes where
  s     : Sess
  outs  : List Bytes := []
  panic : Bool := false
deriving Repr

/-- `packetInput` without cipher, then `kcpInput` without FEC (`default:` branch) -/
def packetInput (s : Sess) (d : Bytes) (now : U32) : InputRes :=
  if d.length < min IKCP_OVERHEAD (fecHeaderSizePlus2 + convSize) then ⟨s, [], false⟩ else
  let r := s.k.input d true s.ackNoDelay now
  ⟨{ s with k := r.k }, r.outs, r.panic⟩

/-- the body of `update()` -/
def update (s : Sess) (now : U32) : Kcp.FlushRes := s.k.flush true now

end Sess
end KcpVerif
