/-
Instrumented model of the pool-buffer ownership of the FEC decoder of /repo/fec.go (C15, ownership
half).  Core Lean only.  Same construction as `Model/KcpOwn`: the decoder of `Model/Fec.lean` is kept
as it is (`DecO.dec` IS a `Fec.Decoder`, stepped by the model's own `decode`); the shard sets are kept a
second time with, per stored packet, the identity of the pool buffer that holds it; the ghost state is
`Own.Ghost` (fresh-id counter, event log).

Pool sites of the decoder (`Gen.poolSites`, fec.go):
* `pkt := Get()[:len(in)]` for every accepted, non-duplicate packet (get);
* when a shard set has `dataShards` packets all of them are popped (their headers are read: use) and,
  if a data shard is missing, padded and handed to `ReconstructData` (use), with one fresh buffer per
  missing data position (`newBuffers`: get); on a reconstruction error the new buffers are recycled
  (put), on success they are RETURNED — ownership passes to the caller (`rbufs`), who reads them and
  recycles them (`release` = sess.go kcpInput: `kcp.Input(r[2:sz]…)`, `Put(r)`);
  then `for _, pkt := range pkts { Put(pkt) }` (put), the emptied set stays in the map;
* re-tune to new parameters: every packet of every shard set is recycled (put), the map is emptied;
* `discardShards`: every packet of every set that is too old is recycled (put), the set is deleted.
The Go code ranges over a map in the last two cases: the order of those puts is not determined, and
the harness compares them as sets.
-/
import KcpVerif.Model.Fec
import KcpVerif.Model.KcpOwn

namespace KcpVerif
namespace FecOwn
open KcpVerif.Gen KcpVerif.Fec KcpVerif.Own KcpVerif.Pool

/-- a stored packet and the pool buffer that holds it -/
structure PktO where
  p   : Fec.Bytes
  buf : Nat
deriving Repr

structure SetO where
  id   : BitVec 32
  pkts : List PktO
deriving Repr

structure DecO where
  dec  : Decoder
  sets : List SetO := []
  gh   : Ghost := {}

/-- forget the buffer ids -/
def erS (s : SetO) : ShardSet := { id := s.id, pkts := s.pkts.map (·.p) }
def erSets (l : List SetO) : List ShardSet := l.map erS

def DecO.new (C : CodecNew) (d p : Nat) : Option DecO := (Decoder.new C d p).map fun dec => { dec := dec }

/-- `for _, pkt := range pkts { defaultBufferPool.Put(pkt) }` -/
def putPkts : List PktO → Ghost → Ghost
  | [], g => g
  | q :: rest, g => putPkts rest (g.recycle (some q.buf))

/-- the packets are read (headers, `ReconstructData`) or written (`clear` of the padding) -/
def usePkts : List PktO → Ghost → Ghost
  | [], g => g
  | q :: rest, g => usePkts rest (g.use (some q.buf))

/-- `for _, shard := range dec.shardSet { for _, pkt := range shard.elements { Put(pkt) } }` -/
def putSets : List SetO → Ghost → Ghost
  | [], g => g
  | s :: rest, g => putSets rest (putPkts s.pkts g)

structure IdsG where
  ids : List Nat
  g   : Ghost
deriving Repr

/-- `n` calls of `Get()` -/
def getN : Nat → Ghost → IdsG
  | 0, g => ⟨[], g⟩
  | n + 1, g =>
    let r := getN n g.get
    ⟨g.next :: r.ids, r.g⟩

def putIds : List Nat → Ghost → Ghost
  | [], g => g
  | id :: rest, g => putIds rest (g.recycle (some id))

/-- the caller of `decode` (sess.go kcpInput) on the recovered buffers: read, then `Put(r)` -/
def release : List Nat → Ghost → Ghost
  | [], g => g
  | id :: rest, g => release rest ((g.use (some id)).recycle (some id))

def lookupO (id : BitVec 32) : List SetO → Option SetO
  | [] => none
  | s :: rest => if s.id == id then some s else lookupO id rest

def storeO (s : SetO) : List SetO → List SetO
  | [] => [s]
  | t :: rest => if t.id == s.id then s :: rest else t :: storeO s rest

/-- the test of `discardShards` (negated: the set is kept) -/
def keeps (n : Nat) (newest id : BitVec 32) : Bool :=
  !(decide (itimediff (newest * u32 n) (id * u32 n) > (maxShardSets * n : Nat)) ||
    decide (itimediff (newest * u32 n) (id * u32 n) < 0))

structure SetsG where
  sets : List SetO
  g    : Ghost

/-- `discardShards`: the packets of a discarded set are recycled -/
def discardO (n : Nat) (newest : BitVec 32) : List SetO → Ghost → SetsG
  | [], g => ⟨[], g⟩
  | s :: rest, g =>
    if keeps n newest s.id then
      let r := discardO n newest rest g
      ⟨s :: r.sets, r.g⟩
    else discardO n newest rest (putPkts s.pkts g)

/-- does the tuning branch install new parameters (and so recycle every stored packet)? -/
def retuneChanges (dec : Decoder) : Bool :=
  decide (0 < dec.tune.findPeriod true ∧ 0 < dec.tune.findPeriod false ∧
          dec.tune.findPeriod true + dec.tune.findPeriod false < 256 ∧
          (dec.tune.findPeriod true ≠ dec.d ∨ dec.tune.findPeriod false ≠ dec.p))

/-- `newestShardId` after a packet of group `shardId` has been stored: `if len(dec.shardSet) == 0 {
newestShardId = shardId }` (repair of D13: `empty` = no shard set existed), then the `_itimediff` test -/
def newestAfter (n : Nat) (empty : Bool) (shardId cur : BitVec 32) : BitVec 32 :=
  if itimediff (shardId * u32 n) ((if empty then shardId else cur) * u32 n) > 0 then shardId
  else (if empty then shardId else cur)

structure DecOutO where
  o         : DecO
  recovered : List Fec.Bytes
  rbufs     : List Nat       -- the buffers behind `recovered`: they now belong to the caller
  panic     : Bool

/-- `decode(in)`.  Next to a `panic` flag of the model (an input longer than a pool buffer reaching
`Get()[:len(in)]`, the re-slice of the recovery block beyond a buffer's capacity — both excluded by the
callers, Props/C05Fec) the state and the log are those of the un-interrupted computation; the real
code stops earlier, after a prefix of these events (the `Get`s come first), and a prefix of a
disciplined log is disciplined (`C15_disciplined_prefix`). -/
def decodeO (C : CodecNew) (o : DecO) (inp : Fec.Bytes) : DecOutO :=
  let r := o.dec.decode C inp
  if inp.length < fecHeaderSize then ⟨o, [], [], true⟩ else
  let seq := seqid inp
  let dec1 : Decoder := { o.dec with tune := o.dec.tune.sample (flag inp == typeData) seq }
  if seq.toNat ≥ dec1.paws.toNat then ⟨{ o with dec := r.st }, [], [], false⟩
  else if mismatch dec1 inp || dec1.shouldTune then
    if retuneChanges dec1 then ⟨{ dec := r.st, sets := [], gh := putSets o.sets o.gh }, [], [], false⟩
    else ⟨{ o with dec := r.st }, [], [], false⟩
  else
    let shardId := seq / u32 dec1.n
    let set := (lookupO shardId o.sets).getD { id := shardId, pkts := [] }
    if set.pkts.any (fun q => seqid q.p == seq) then ⟨{ o with dec := r.st }, [], [], false⟩
    else
      let g1 := o.gh.get                                         -- pkt := Get()[:len(in)]; copy(pkt, in)
      let pkts := set.pkts ++ [{ p := inp, buf := o.gh.next }]
      let newest := newestAfter dec1.n o.sets.isEmpty shardId dec1.newest
      if pkts.length ≥ dec1.d then
        let plain := pkts.map (·.p)
        let sets1 := storeO { id := shardId, pkts := [] } o.sets    -- all packets popped, the set stays
        let g2 := usePkts pkts g1                                   -- seqid/flag/len of every popped packet
        if (plain.filter fun q => flag q == typeData).length = dec1.d then
          let d := discardO dec1.n newest sets1 (putPkts pkts g2)
          ⟨{ dec := r.st, sets := d.sets, gh := d.g }, r.recovered, [], r.panic⟩
        else
          let shards := gather dec1.n (maxBody plain) plain
          let g3 := usePkts pkts g2                                 -- padding, ReconstructData
          let nb := getN ((shards.take dec1.d).filter (·.isNone)).length g3   -- newBuffers
          match dec1.codec.recon shards with
          | some _ =>
            let d := discardO dec1.n newest sets1 (putPkts pkts nb.g)
            ⟨{ dec := r.st, sets := d.sets, gh := d.g }, r.recovered, nb.ids, r.panic⟩
          | none =>
            let d := discardO dec1.n newest sets1 (putPkts pkts (putIds nb.ids nb.g))
            ⟨{ dec := r.st, sets := d.sets, gh := d.g }, r.recovered, [], r.panic⟩
      else
        let d := discardO dec1.n newest (storeO { id := shardId, pkts := pkts } o.sets) g1
        ⟨{ dec := r.st, sets := d.sets, gh := d.g }, r.recovered, [], r.panic⟩

/-- `decode` followed by what its caller does with the recovered buffers (one `kcpInput`) -/
def decodeRel (C : CodecNew) (o : DecO) (inp : Fec.Bytes) : DecO :=
  let r := decodeO C o inp
  { r.o with gh := release r.rbufs r.o.gh }

end FecOwn
end KcpVerif
