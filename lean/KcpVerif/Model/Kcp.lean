/-
Model of /repo/kcp.go — the KCP ARQ state machine — function by function.  Core Lean only.

Conventions
* every Go `uint32`/`int32` is `BitVec 32` (wrap-around is the point: C12); Go `int` lengths are `Nat`
* the clock (`currentMs()`) is an argument `now` of every operation that reads it; one reading per
  operation (the harness freezes the clock during an operation)
* the ring-buffer queues are `List Seg` (justified by C20); `rcv_buf` (a binary heap ordered by
  `_itimediff` on `sn`) is a list kept sorted by that order: only its minimum is ever observed
* pool buffers have capacity `mtuLimit`; slicing one beyond that, writing beyond `kcp.buffer`, or
  any other input/state dependent slice-bounds failure is recorded as `panic := true`
  (what happens after a panic is not modelled: the harness abandons the core)
* SNMP counters, logging and the `state` dead-link flag's consumers are not modelled
  (`state` itself is).
-/
import KcpVerif.Generated
import KcpVerif.Model.Wrap

namespace KcpVerif
open KcpVerif.Gen

structure Seg where
  conv     : U32 := 0
  cmd      : BitVec 8 := 0
  frg      : BitVec 8 := 0
  wnd      : BitVec 16 := 0
  ts       : U32 := 0
  sn       : U32 := 0
  una      : U32 := 0
  rto      : U32 := 0
  xmit     : U32 := 0
  resendts : U32 := 0
  fastack  : U32 := 0
  acked    : Bool := false
  data     : Bytes := []
deriving Repr, DecidableEq, Inhabited

structure Ack where
  sn : U32
  ts : U32
deriving Repr, DecidableEq

structure Kcp where
  conv       : U32
  mtu        : U32
  mss        : U32
  state      : U32 := 0
  snd_una    : U32 := 0
  snd_nxt    : U32 := 0
  rcv_nxt    : U32 := 0
  ssthresh   : U32
  rx_rttvar  : U32 := 0      -- int32
  rx_srtt    : U32 := 0      -- int32
  rx_rto     : U32
  rx_minrto  : U32
  snd_wnd    : U32
  rcv_wnd    : U32
  rmt_wnd    : U32
  cwnd       : U32 := 0
  incr       : U32 := 0
  probe      : U32 := 0
  ts_probe   : U32 := 0
  probe_wait : U32 := 0
  interval   : U32
  ts_flush   : U32
  nodelay    : U32 := 0
  updated    : U32 := 0
  dead_link  : U32
  fastresend : U32 := 0      -- int32
  nocwnd     : U32 := 0      -- int32
  stream     : U32 := 0      -- int32
  snd_queue  : List Seg := []
  rcv_queue  : List Seg := []
  snd_buf    : List Seg := []
  rcv_buf    : List Seg := []
  acklist    : List Ack := []
  bufLen     : Nat
deriving Repr, DecidableEq

namespace Kcp

def u32 (n : Nat) : U32 := BitVec.ofNat 32 n

/-- `NewKCP(conv, output)` -/
def new (conv : U32) : Kcp :=
  { conv := conv
    snd_wnd := u32 IKCP_WND_SND, rcv_wnd := u32 IKCP_WND_RCV, rmt_wnd := u32 IKCP_WND_RCV
    mtu := u32 IKCP_MTU_DEF, mss := u32 IKCP_MTU_DEF - u32 IKCP_OVERHEAD
    bufLen := (IKCP_MTU_DEF + IKCP_OVERHEAD) * 3
    rx_rto := u32 IKCP_RTO_DEF, rx_minrto := u32 IKCP_RTO_MIN
    interval := u32 IKCP_INTERVAL, ts_flush := u32 IKCP_INTERVAL
    ssthresh := u32 IKCP_THRESH_INIT, dead_link := u32 IKCP_DEADLINK }

/-- `segment.encode` followed by nothing: the 24 header bytes. `len` = `uint32(len(seg.data))`. -/
def encodeHdr (conv : U32) (cmd frg : BitVec 8) (wnd : BitVec 16) (ts sn una : U32) (len : Nat) : Bytes :=
  le32 conv ++ [UInt8.ofNat cmd.toNat, UInt8.ofNat frg.toNat] ++ le16 wnd ++ le32 ts ++ le32 sn ++ le32 una
    ++ le32 (u32 len)

/-! ### PeekSize / Recv -/

/-- sum of data lengths up to and including the first `frg = 0` (whole list if none) -/
def peekSum : List Seg → Nat
  | [] => 0
  | s :: rest => if s.frg = 0 then s.data.length else s.data.length + peekSum rest

/-- `PeekSize()` -/
def peekSize (k : Kcp) : Int :=
  match k.rcv_queue with
  | [] => -1
  | s :: _ =>
    if s.frg = 0 then s.data.length
    else if k.rcv_queue.length < (s.frg + 1).toNat then -1   -- `int(seg.frg+1)`: uint8 arithmetic
    else peekSum k.rcv_queue

structure MoveRes where
  buf : List Seg
  q   : List Seg
  nxt : U32
deriving Repr

/-- the "move available data from rcv_buf -> rcv_queue" loop (shared by parse_data and Recv) -/
def moveLoop (wnd : Nat) : List Seg → List Seg → U32 → MoveRes
  | [], q, nxt => ⟨[], q, nxt⟩
  | s :: rest, q, nxt =>
    if s.sn = nxt ∧ q.length < wnd then moveLoop wnd rest (q ++ [s]) (nxt + 1)
    else ⟨s :: rest, q, nxt⟩

def moveReady (k : Kcp) : Kcp :=
  let r := moveLoop k.rcv_wnd.toNat k.rcv_buf k.rcv_queue k.rcv_nxt
  { k with rcv_buf := r.buf, rcv_queue := r.q, rcv_nxt := r.nxt }

structure PopRes where
  data : Bytes
  rest : List Seg
deriving Repr

/-- the "merge fragment" loop of Recv: pop until (and including) the first `frg = 0` -/
def popMsg : List Seg → PopRes
  | [] => ⟨[], []⟩
  | s :: rest =>
    if s.frg = 0 then ⟨s.data, rest⟩
    else let r := popMsg rest; ⟨s.data ++ r.data, r.rest⟩

structure RecvRes where
  k    : Kcp
  n    : Int
  data : Bytes
deriving Repr

/-- `Recv(buffer)` with `len(buffer) = buflen` -/
def recv (k : Kcp) (buflen : Nat) : RecvRes :=
  let ps := k.peekSize
  if ps < 0 then ⟨k, -1, []⟩
  else if ps > buflen then ⟨k, -2, []⟩
  else
    let fastRecover := decide (k.rcv_queue.length ≥ k.rcv_wnd.toNat)
    let r := popMsg k.rcv_queue
    let k1 := moveReady { k with rcv_queue := r.rest }
    let k2 := if k1.rcv_queue.length < k1.rcv_wnd.toNat ∧ fastRecover
              then { k1 with probe := k1.probe ||| u32 IKCP_ASK_TELL } else k1
    ⟨k2, r.data.length, r.data⟩

/-! ### Send -/

structure SendRes where
  k     : Kcp
  ret   : Int
  panic : Bool := false
deriving Repr

/-- split `buf` into `count` segments of at most `mss` bytes (`for i := 0; i < count; i++`) -/
def mkSegs (mss : Nat) (stream : Bool) : Nat → Bytes → List Seg
  | 0, _ => []
  | c + 1, buf =>
    { frg := if stream then 0 else BitVec.ofNat 8 c, data := buf.take mss } :: mkSegs mss stream c (buf.drop mss)

/-- replace the last element -/
def setLast (l : List Seg) (s : Seg) : List Seg := l.dropLast ++ [s]

/-- `Send(buffer)`.  The tests come in the order of the Go code: the `count > 255` refusal (−2) is
decided *before* the stream-mode append touches the queue (in the code: inside the append branch,
on the bytes that would remain, and once more after it — the same test, see below), then the slice
extension of the last segment (`panic1`), then "nothing left", then `newSegment`.  A refused call
returns the state it was given. -/
def send (k : Kcp) (buffer : Bytes) : SendRes :=
  if buffer.length = 0 then ⟨k, -1, false⟩ else
  let mss := k.mss.toNat
  -- stream mode: append to the last queued segment
  let ext : Nat :=
    if k.stream ≠ 0 then
      match k.snd_queue.getLast? with
      | some s => if s.data.length < mss then min buffer.length (mss - s.data.length) else 0
      | none => 0
    else 0
  let buf := buffer.drop ext
  -- `(len(buffer)-extend+mss-1)/mss > 255` in the append branch (there `mss ≥ 1`, and the quotient is
  -- ≤ 1 when `len ≤ mss`) and `count > 255` after it are this one test
  let count := if buf.length ≤ mss then 1 else (buf.length + mss - 1) / mss
  if count > 255 then ⟨k, -2, false⟩ else   -- refused before the stream append touches the queue
  let panic1 : Bool :=
    match k.snd_queue.getLast? with
    | some s => decide (ext > 0 ∧ s.data.length + ext > mtuLimit)   -- `seg.data[:oldlen+extend]` beyond cap
    | none => false
  if panic1 then ⟨k, 0, true⟩ else
  let q1 : List Seg :=
    if ext > 0 then
      match k.snd_queue.getLast? with
      | some s => setLast k.snd_queue { s with data := s.data ++ buffer.take ext }
      | none => k.snd_queue
    else k.snd_queue
  let k1 := { k with snd_queue := q1 }
  if k.stream ≠ 0 ∧ buf.length = 0 then ⟨k1, 0, false⟩ else
  let count := if count = 0 then 1 else count
  -- `newSegment(size)`: `Get()[:size]` panics when size > cap (mtuLimit)
  if min buf.length mss > mtuLimit then ⟨k1, 0, true⟩ else
  ⟨{ k1 with snd_queue := q1 ++ mkSegs mss (k.stream ≠ 0) count buf }, 0, false⟩

/-! ### acknowledgement processing -/

def sshr (x : U32) (n : Nat) : U32 := x.sshiftRight n

/-- `min(max(rx_minrto, rto), IKCP_RTO_MAX)` -/
def clampRto (minrto rto : U32) : U32 :=
  let lo := if minrto ≥ rto then minrto else rto
  if lo ≤ u32 IKCP_RTO_MAX then lo else u32 IKCP_RTO_MAX

/-- the RFC 6298 smoothing step of `update_ack` (everything before the clamp) -/
def smoothRtt (k : Kcp) (rtt : U32) : Kcp :=
  if k.rx_srtt = 0 then { k with rx_srtt := rtt, rx_rttvar := sshr rtt 1 }
  else
    let delta := rtt - k.rx_srtt
    let srtt := k.rx_srtt + sshr delta 3
    let adelta := if delta.slt 0 then -delta else delta
    let rttvar :=
      if rtt.slt (srtt - k.rx_rttvar) then k.rx_rttvar + sshr (adelta - k.rx_rttvar) 5
      else k.rx_rttvar + sshr (adelta - k.rx_rttvar) 2
    { k with rx_srtt := srtt, rx_rttvar := rttvar }

/-- `update_ack(rtt)`; `rtt` is an int32 bit pattern -/
def updateAck (k : Kcp) (rtt : U32) : Kcp :=
  let k1 := smoothRtt k rtt
  let v : U32 := BitVec.shiftLeft k1.rx_rttvar 2
  let rto := k1.rx_srtt + (if k1.interval ≥ v then k1.interval else v)
  { k1 with rx_rto := clampRto k1.rx_minrto rto }

/-- number of leading segments cumulatively acknowledged by `una` -/
def unaCount (una : U32) : List Seg → Nat
  | [] => 0
  | s :: rest => if itimediff una s.sn > 0 then unaCount una rest + 1 else 0

/-- `parse_una` + `shrink_buf`; returns the count removed -/
def parseUna (k : Kcp) (una : U32) : Kcp × Nat :=
  let c := unaCount una k.snd_buf
  ({ k with snd_buf := k.snd_buf.drop c }, c)

/-- leading segments of snd_buf already acknowledged one by one (`acked = 1`) are removed -/
def dropAcked : List Seg → List Seg
  | [] => []
  | s :: rest => if s.acked then dropAcked rest else s :: rest

/-- `shrink_buf`: discard the individually acknowledged head segments, then `snd_una` is the head's
`sn` (or `snd_nxt` when the buffer is empty) -/
def shrinkBuf (k : Kcp) : Kcp :=
  match dropAcked k.snd_buf with
  | s :: rest => { k with snd_buf := s :: rest, snd_una := s.sn }
  | [] => { k with snd_buf := [], snd_una := k.snd_nxt }

def ackLoop (sn : U32) : List Seg → List Seg
  | [] => []
  | s :: rest =>
    if sn = s.sn then { s with acked := true, data := [] } :: rest
    else if itimediff sn s.sn < 0 then s :: rest
    else s :: ackLoop sn rest

/-- `parse_ack(sn)` -/
def parseAck (k : Kcp) (sn : U32) : Kcp :=
  if itimediff sn k.snd_una < 0 ∨ itimediff sn k.snd_nxt ≥ 0 then k
  else { k with snd_buf := ackLoop sn k.snd_buf }

structure FastRes where
  buf  : List Seg
  fire : Bool
deriving Repr

def fastLoop (sn ts fastresend : U32) : List Seg → FastRes
  | [] => ⟨[], false⟩
  | s :: rest =>
    if itimediff sn s.sn < 0 then ⟨s :: rest, false⟩
    else if sn ≠ s.sn ∧ itimediff s.ts ts ≤ 0 ∧ s.fastack ≠ 0xFFFFFFFF#32 then
      let s' := { s with fastack := s.fastack + 1 }
      let r := fastLoop sn ts fastresend rest
      ⟨s' :: r.buf, decide (s'.fastack ≥ fastresend) || r.fire⟩
    else
      let r := fastLoop sn ts fastresend rest
      ⟨s :: r.buf, r.fire⟩

/-- `parse_fastack(sn, ts)`; returns whether a fast retransmit should be triggered -/
def parseFastack (k : Kcp) (sn ts : U32) : Kcp × Bool :=
  if itimediff sn k.snd_una < 0 ∨ itimediff sn k.snd_nxt ≥ 0 then (k, false)
  else
    let r := fastLoop sn ts k.fastresend k.snd_buf
    ({ k with snd_buf := r.buf }, r.fire)

/-- insert into the heap-as-sorted-list: before the first element that is later than `s` -/
def heapInsert (s : Seg) : List Seg → List Seg
  | [] => [s]
  | h :: t => if itimediff h.sn s.sn > 0 then s :: h :: t else h :: heapInsert s t

structure DataRes where
  k      : Kcp
  rep    : Bool
  panic  : Bool := false
deriving Repr

/-- `parse_data(newseg)` -/
def parseData (k : Kcp) (s : Seg) : DataRes :=
  if itimediff s.sn (k.rcv_nxt + k.rcv_wnd) ≥ 0 ∨ itimediff s.sn k.rcv_nxt < 0 then ⟨k, true, false⟩
  else if k.rcv_buf.any (fun x => x.sn = s.sn) then ⟨moveReady k, true, false⟩
  else if s.data.length > mtuLimit then ⟨k, false, true⟩       -- `Get()[:len(newseg.data)]`
  else ⟨moveReady { k with rcv_buf := heapInsert s k.rcv_buf }, false, false⟩

/-! ### flush -/

structure Fl where
  k     : Kcp
  cur   : Bytes := []          -- bytes in `buffer` not yet handed to output (`size = cur.length`)
  outs  : List Bytes := []     -- calls of `output(buffer, size)`, in order
  panic : Bool := false
deriving Repr

/-- `makeSpace(space)` -/
def Fl.makeSpace (f : Fl) (space : Nat) : Fl :=
  if f.cur.length + space > f.k.mtu.toNat then { f with outs := f.outs ++ [f.cur], cur := [] } else f

/-- `ptr = seg.encode(ptr)` — needs 24 bytes of room in `buffer` -/
def Fl.putHdr (f : Fl) (h : Bytes) : Fl :=
  if f.k.bufLen - f.cur.length < IKCP_OVERHEAD then { f with panic := true }
  else { f with cur := f.cur ++ h }

/-- `copy(ptr, data); ptr = ptr[len(data):]` -/
def Fl.putData (f : Fl) (d : Bytes) : Fl :=
  if d.length > f.k.bufLen - f.cur.length then { f with panic := true }
  else { f with cur := f.cur ++ d }

/-- `wnd_unused()` -/
def wndUnused (k : Kcp) : BitVec 16 :=
  if k.rcv_queue.length < k.rcv_wnd.toNat then BitVec.ofNat 16 (k.rcv_wnd.toNat - k.rcv_queue.length) else 0

/-- the scratch segment `seg` of flush: only sn/ts/cmd vary -/
structure Scratch where
  cmd : BitVec 8
  sn  : U32 := 0
  ts  : U32 := 0
deriving Repr

structure AckSt where
  f  : Fl
  sc : Scratch
deriving Repr

/-- Phase 1 loop over the ack list; `total` = `len(kcp.acklist)`, `i` the index -/
def ackFlush (wnd : BitVec 16) (una : U32) (total : Nat) : List Ack → Nat → AckSt → AckSt
  | [], _, st => st
  | a :: rest, i, st =>
    let f1 := st.f.makeSpace IKCP_OVERHEAD
    if itimediff a.sn f1.k.rcv_nxt ≥ 0 ∨ total - 1 = i then
      let f2 := f1.putHdr (encodeHdr f1.k.conv st.sc.cmd 0 wnd a.ts a.sn una 0)
      ackFlush wnd una total rest (i + 1) ⟨f2, { st.sc with sn := a.sn, ts := a.ts }⟩
    else ackFlush wnd una total rest (i + 1) ⟨f1, st.sc⟩

/-- the probe back-off: `probe_wait += probe_wait/2`, floored at INIT, capped at LIMIT -/
def nextProbeWait (w : U32) : U32 :=
  let w0 := if w < u32 IKCP_PROBE_INIT then u32 IKCP_PROBE_INIT else w
  let w1 := w0 + w0 / 2
  if w1 > u32 IKCP_PROBE_LIMIT then u32 IKCP_PROBE_LIMIT else w1

/-- Phase 2: window probing timer -/
def probePhase (k : Kcp) (now : U32) : Kcp :=
  if k.rmt_wnd = 0 then
    if k.probe_wait = 0 then
      { k with probe_wait := u32 IKCP_PROBE_INIT, ts_probe := now + u32 IKCP_PROBE_INIT }
    else if itimediff now k.ts_probe ≥ 0 then
      let w2 := nextProbeWait k.probe_wait
      { k with probe_wait := w2, ts_probe := now + w2, probe := k.probe ||| u32 IKCP_ASK_SEND }
    else k
  else { k with ts_probe := 0, probe_wait := 0 }

structure AdmitRes where
  queue : List Seg
  buf   : List Seg
  nxt   : U32
  count : Nat
deriving Repr

/-- Phase 4: move segments from snd_queue to snd_buf while the window allows -/
def admitSegs (conv una cwnd now : U32) : List Seg → List Seg → U32 → Nat → AdmitRes
  | [], buf, nxt, c => ⟨[], buf, nxt, c⟩
  | s :: rest, buf, nxt, c =>
    if itimediff nxt (una + cwnd) ≥ 0 then ⟨s :: rest, buf, nxt, c⟩
    else admitSegs conv una cwnd now rest (buf ++ [{ s with conv := conv, cmd := BitVec.ofNat 8 IKCP_CMD_PUSH, sn := nxt, ts := now, resendts := now }]) (nxt + 1) (c + 1)

structure XmitSt where
  f        : Fl
  done     : List Seg := []     -- processed prefix of snd_buf (in order)
  change   : Nat := 0
  lost     : Nat := 0
  next     : U32                -- nextUpdate
deriving Repr

/-- Phase 5 body for one segment -/
def xmitOne (now resent : U32) (wnd : BitVec 16) (una : U32) (newSegs : Nat) (st : XmitSt) (s : Seg) : XmitSt :=
  if s.acked then { st with done := st.done ++ [s] } else
  let k := st.f.k
  -- (needsend, segment', change+, lost+)
  let r : Bool × Seg × Nat × Nat :=
    if s.xmit = 0 then (true, { s with rto := k.rx_rto, resendts := now + k.rx_rto }, 0, 0)
    else if s.fastack ≥ resent ∧ s.fastack ≠ 0xFFFFFFFF#32 then
      (true, { s with fastack := 0xFFFFFFFF#32, rto := k.rx_rto, resendts := now + k.rx_rto }, 1, 0)
    else if s.fastack > 0 ∧ s.fastack ≠ 0xFFFFFFFF#32 ∧ newSegs = 0 then
      (true, { s with fastack := 0xFFFFFFFF#32, rto := k.rx_rto, resendts := now + k.rx_rto }, 1, 0)
    else if itimediff now s.resendts ≥ 0 then
      let rto' := if k.nodelay = 0 then s.rto + k.rx_rto else s.rto + k.rx_rto / 2
      (true, { s with rto := rto', fastack := 0, resendts := now + rto' }, 0, 1)
    else (false, s, 0, 0)
  let needsend := r.1
  let s1 := r.2.1
  let st1 := { st with change := st.change + r.2.2.1, lost := st.lost + r.2.2.2 }
  let s2 : Seg := if needsend then { s1 with xmit := s1.xmit + 1, ts := now, wnd := wnd, una := una } else s1
  let f2 : Fl :=
    if needsend then
      let f := st1.f.makeSpace (IKCP_OVERHEAD + s2.data.length)
      let f := f.putHdr (encodeHdr s2.conv s2.cmd s2.frg s2.wnd s2.ts s2.sn s2.una s2.data.length)
      let f := f.putData s2.data
      if s2.xmit ≥ f.k.dead_link then { f with k := { f.k with state := 0xFFFFFFFF#32 } } else f
    else st1.f
  let d := itimediff s2.resendts now
  let next := if d > 0 ∧ BitVec.ofInt 32 d < st1.next then BitVec.ofInt 32 d else st1.next
  { st1 with f := f2, done := st1.done ++ [s2], next := next }

structure FlushRes where
  k        : Kcp
  outs     : List Bytes
  interval : U32
  panic    : Bool
deriving Repr

/-- `flush(flushType)`; `full = (flushType == IKCP_FLUSH_FULL)` (the only other value used is ACKONLY) -/
def flush (k : Kcp) (full : Bool) (now : U32) : FlushRes :=
  let wnd := wndUnused k
  let una := k.rcv_nxt
  -- Phase 1
  let a := ackFlush wnd una k.acklist.length k.acklist 0 ⟨{ k := k }, { cmd := BitVec.ofNat 8 IKCP_CMD_ACK }⟩
  let f : Fl := { a.f with k := { a.f.k with acklist := [] } }
  let sc := a.sc
  -- Phase 2
  let f : Fl := { f with k := probePhase f.k now }
  -- Phase 3
  let f : Fl := if f.k.probe &&& u32 IKCP_ASK_SEND ≠ 0 then
      (f.makeSpace IKCP_OVERHEAD).putHdr (encodeHdr f.k.conv (BitVec.ofNat 8 IKCP_CMD_WASK) 0 wnd sc.ts sc.sn una 0)
    else f
  let f : Fl := if f.k.probe &&& u32 IKCP_ASK_TELL ≠ 0 then
      (f.makeSpace IKCP_OVERHEAD).putHdr (encodeHdr f.k.conv (BitVec.ofNat 8 IKCP_CMD_WINS) 0 wnd sc.ts sc.sn una 0)
    else f
  let f : Fl := { f with k := { f.k with probe := 0 } }
  -- Phase 4
  let cw0 := if f.k.snd_wnd ≤ f.k.rmt_wnd then f.k.snd_wnd else f.k.rmt_wnd
  let cwnd := if f.k.nocwnd = 0 then (if f.k.cwnd ≤ cw0 then f.k.cwnd else cw0) else cw0
  let ad := admitSegs f.k.conv f.k.snd_una cwnd now f.k.snd_queue f.k.snd_buf f.k.snd_nxt 0
  let f : Fl := { f with k := { f.k with snd_queue := ad.queue, snd_buf := ad.buf, snd_nxt := ad.nxt } }
  let resent : U32 := if f.k.fastresend.sle 0 then 0xFFFFFFFF#32 else f.k.fastresend
  -- Phase 5
  let x : XmitSt :=
    if full then f.k.snd_buf.foldl (xmitOne now resent wnd una ad.count) { f := f, next := f.k.interval }
    else { f := f, done := f.k.snd_buf, next := f.k.interval }
  let f : Fl := { x.f with k := { x.f.k with snd_buf := x.done } }
  -- Phase 6
  let k5 : Kcp := f.k
  let k6 : Kcp :=
    if k5.nocwnd = 0 then
      let k7 : Kcp := if x.change > 0 then
          let inflight := k5.snd_nxt - k5.snd_una
          let half := inflight / 2
          let ss := if half ≥ u32 IKCP_THRESH_MIN then half else u32 IKCP_THRESH_MIN
          { k5 with ssthresh := ss, cwnd := ss + resent, incr := (ss + resent) * k5.mss }
        else k5
      let k8 : Kcp := if x.lost > 0 then
          let half := cwnd / 2
          { k7 with ssthresh := (if half ≥ u32 IKCP_THRESH_MIN then half else u32 IKCP_THRESH_MIN), cwnd := 1, incr := k7.mss }
        else k7
      if k8.cwnd < 1 then { k8 with cwnd := 1, incr := k8.mss } else k8
    else k5
  -- deferred flushBuffer
  let outs := if f.cur.length > 0 then f.outs ++ [f.cur] else f.outs
  ⟨k6, outs, x.next, f.panic⟩

/-! ### Input -/

structure InRes where
  k     : Kcp
  ret   : Int
  outs  : List Bytes := []
  panic : Bool := false
deriving Repr

structure InLoop where
  k        : Kcp
  latest   : U32 := 0
  updRtt   : Bool := false
  flushSeg : Bool := false
  ret      : Int := 0          -- 0: loop ended normally; <0: early return
  panic    : Bool := false
deriving Repr

/-- the parse loop of `Input`; `fuel` bounds the iterations (each consumes ≥ 24 bytes) -/
def inputLoop (regular : Bool) : Nat → Bytes → InLoop → InLoop
  | 0, _, st => st
  | fuel + 1, data, st =>
    if data.length < IKCP_OVERHEAD then st else
    let conv := rd32 data 0
    let cmd := BitVec.ofNat 8 (byteAt data 4)
    let frg := BitVec.ofNat 8 (byteAt data 5)
    let wnd := rd16 data 6
    let ts := rd32 data 8
    let sn := rd32 data 12
    let una := rd32 data 16
    let length := (rd32 data 20).toNat
    let body := data.drop IKCP_OVERHEAD
    if conv ≠ st.k.conv then { st with ret := -1 } else
    if body.length < length ∨ length > mtuLimit then { st with ret := -2 } else
    if cmd.toNat ≠ IKCP_CMD_PUSH ∧ cmd.toNat ≠ IKCP_CMD_ACK ∧ cmd.toNat ≠ IKCP_CMD_WASK ∧ cmd.toNat ≠ IKCP_CMD_WINS then
      { st with ret := -3 } else
    let k1 := if regular then { st.k with rmt_wnd := wnd.setWidth 32 } else st.k
    let pu := parseUna k1 una
    let st1 := { st with k := shrinkBuf pu.1, flushSeg := st.flushSeg || decide (pu.2 > 0) }
    let st2 : InLoop :=
      if cmd.toNat = IKCP_CMD_ACK then
        let k2 := shrinkBuf (parseAck st1.k sn)
        let pf := parseFastack k2 sn ts
        { st1 with k := pf.1, flushSeg := st1.flushSeg || pf.2, updRtt := true, latest := ts }
      else if cmd.toNat = IKCP_CMD_PUSH then
        if itimediff sn (st1.k.rcv_nxt + st1.k.rcv_wnd) < 0 then
          let k2 := { st1.k with acklist := st1.k.acklist ++ [⟨sn, ts⟩] }
          if itimediff sn k2.rcv_nxt ≥ 0 then
            let r := parseData k2 { conv := conv, cmd := cmd, frg := frg, wnd := wnd, ts := ts, sn := sn, una := una,
                                    data := body.take length }
            { st1 with k := r.k, panic := r.panic }
          else { st1 with k := k2 }
        else st1
      else if cmd.toNat = IKCP_CMD_WASK then
        { st1 with k := { st1.k with probe := st1.k.probe ||| u32 IKCP_ASK_TELL } }
      else st1
    if st2.panic then st2 else
    inputLoop regular fuel (body.drop length) st2

/-- the cwnd update of `Input` (when `snd_una` advanced) -/
def cwndOnAck (k : Kcp) (oldUna : U32) : Kcp :=
  if k.nocwnd = 0 ∧ itimediff k.snd_una oldUna > 0 ∧ k.cwnd < k.rmt_wnd then
    let mss := k.mss
    let k1 : Kcp :=
      if k.cwnd < k.ssthresh then { k with cwnd := k.cwnd + 1, incr := k.incr + mss }
      else
        let incr0 := if k.incr < mss then mss else k.incr
        let incr1 := incr0 + ((mss * mss) / incr0 + mss / 16)
        if (k.cwnd + 1) * mss ≤ incr1 then
          { k with incr := incr1, cwnd := if mss > 0 then (incr1 + mss - 1) / mss else incr1 + mss - 1 }
        else { k with incr := incr1 }
    if k1.cwnd > k1.rmt_wnd then { k1 with cwnd := k1.rmt_wnd, incr := k1.rmt_wnd * mss } else k1
  else k

/-- `Input(data, pktType, ackNoDelay)`; `regular = (pktType == IKCP_PACKET_REGULAR)` -/
def input (k : Kcp) (data : Bytes) (regular ackNoDelay : Bool) (now : U32) : InRes :=
  if data.length < IKCP_OVERHEAD then ⟨k, -1, [], false⟩ else
  let st := inputLoop regular (data.length / IKCP_OVERHEAD + 1) data { k := k }
  if st.panic then ⟨st.k, 0, [], true⟩ else
  if st.ret < 0 then ⟨st.k, st.ret, [], false⟩ else
  let k1 :=
    if st.updRtt ∧ regular ∧ itimediff now st.latest ≥ 0 then updateAck st.k (now - st.latest) else st.k
  let k2 := cwndOnAck k1 k.snd_una
  if st.flushSeg then
    let r := flush k2 true now
    ⟨r.k, 0, r.outs, r.panic⟩
  else if k2.acklist.length ≥ (k2.mtu / u32 IKCP_OVERHEAD).toNat then
    let r := flush k2 false now
    ⟨r.k, 0, r.outs, r.panic⟩
  else if ackNoDelay ∧ k2.acklist.length > 0 then
    let r := flush k2 false now
    ⟨r.k, 0, r.outs, r.panic⟩
  else ⟨k2, 0, [], false⟩

/-! ### Update / Check / setters -/

/-- `Update()` -/
def update (k : Kcp) (now : U32) : FlushRes :=
  let k1 := if k.updated = 0 then { k with updated := 1, ts_flush := now } else k
  let slap0 := itimediff now k1.ts_flush
  let reset := decide (slap0 ≥ 10000 ∨ slap0 < -10000)
  let k2 := if reset then { k1 with ts_flush := now } else k1
  let slap := if reset then 0 else slap0
  if slap ≥ 0 then
    let tf := k2.ts_flush + k2.interval
    let tf := if itimediff now tf ≥ 0 then now + k2.interval else tf
    flush { k2 with ts_flush := tf } true now
  else ⟨k2, [], 0, false⟩

/-- minimum positive `resendts - current` over snd_buf, or `none` if some is due -/
def checkLoop (now : U32) : List Seg → Int → Option Int
  | [], tm => some tm
  | s :: rest, tm =>
    let d := itimediff s.resendts now
    if d ≤ 0 then none else checkLoop now rest (if d < tm then d else tm)

/-- `Check()` -/
def check (k : Kcp) (now : U32) : U32 :=
  if k.updated = 0 then now else
  let tsf := if itimediff now k.ts_flush ≥ 10000 ∨ itimediff now k.ts_flush < -10000 then now else k.ts_flush
  if itimediff now tsf ≥ 0 then now else
  let tmFlush := itimediff tsf now
  match checkLoop now k.snd_buf 0x7fffffff with
  | none => now
  | some tmPacket =>
    let minimal : U32 := if tmPacket ≥ tmFlush then BitVec.ofInt 32 tmFlush else BitVec.ofInt 32 tmPacket
    let minimal := if minimal ≥ k.interval then k.interval else minimal
    now + minimal

/-- `SetMtu(mtu)`; Go `int` argument -/
def setMtu (k : Kcp) (mtu : Int) : Kcp × Int :=
  if mtu ≤ (IKCP_OVERHEAD : Int) then (k, -1)
  else if mtu - (IKCP_OVERHEAD : Int) > (mtuLimit : Int) then (k, -1)
  else if k.snd_queue.any (fun s => decide ((s.data.length : Int) > mtu - (IKCP_OVERHEAD : Int))) then (k, -1)
  else if k.snd_buf.any (fun s => decide ((s.data.length : Int) > mtu - (IKCP_OVERHEAD : Int))) then (k, -1)
  else
    let m := BitVec.ofInt 32 mtu
    ({ k with mtu := m, mss := m - u32 IKCP_OVERHEAD, bufLen := (mtu.toNat + IKCP_OVERHEAD) * 3 }, 0)

/-- `NoDelay(nodelay, interval, resend, nc)` -/
def noDelay (k : Kcp) (nodelay interval resend nc : Int) : Kcp :=
  let k := if nodelay ≥ 0 then
      { k with nodelay := BitVec.ofInt 32 nodelay,
               rx_minrto := if nodelay ≠ 0 then u32 IKCP_RTO_NDL else u32 IKCP_RTO_MIN } else k
  let k := if interval ≥ 0 then
      { k with interval := BitVec.ofInt 32 (if interval > 5000 then 5000 else if interval < 10 then 10 else interval) } else k
  let k := if resend ≥ 0 then { k with fastresend := BitVec.ofInt 32 resend } else k
  if nc ≥ 0 then { k with nocwnd := BitVec.ofInt 32 nc } else k

/-- `WndSize(sndwnd, rcvwnd)` -/
def wndSize (k : Kcp) (snd rcv : Int) : Kcp :=
  let k := if snd > 0 then { k with snd_wnd := BitVec.ofInt 32 snd } else k
  if rcv > 0 then { k with rcv_wnd := BitVec.ofInt 32 rcv } else k

/-- `WaitSnd()` -/
def waitSnd (k : Kcp) : Nat := k.snd_buf.length + k.snd_queue.length

end Kcp
end KcpVerif
