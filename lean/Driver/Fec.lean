import KcpVerif.Model.Fec
import Driver.Util
/-!
driver components `fec` (fecEncoder + fecDecoder with the executable GF(2^8) code) and
`autotune` (autoTune ring + FindPeriod).

`fec` ops
  enc d p off next        new encoder, `next` preset            -> ok paws=… | nil
  dec d p                 new decoder                            -> ok paws=… | nil
  newest id               preset newestShardId (hook)            -> ok
  e cont hex              encode(b) with the time test = cont    -> data=… par=…|… next= cnt= max=
  oob hex                 encodeOOB(b)                           -> data=…
  d hex                   decode(in)                             -> rec=…|… + decoder state
`autotune` ops
  new | s bit seq | find bit | findx bit (panic-freedom only)
-/
namespace Driver.FecC
open KcpVerif KcpVerif.Fec KcpVerif.AutoTune

structure St where
  enc : Option Encoder := none
  dec : Option Decoder := none

def hexList (xs : List Bytes) : String :=
  if xs.isEmpty then "-" else joinWith "|" (xs.map hexOrDash)

/-- insertion sort by a Nat key (canonical order of the shard-set map and of the ids in a set) -/
def insertBy {α : Type} (key : α → Nat) (a : α) : List α → List α
  | [] => [a]
  | b :: rest => if key a ≤ key b then a :: b :: rest else b :: insertBy key a rest

def sortBy {α : Type} (key : α → Nat) (l : List α) : List α := l.foldr (insertBy key) []

def showSet (s : ShardSet) : String :=
  let ps := sortBy (fun q => (seqid q).toNat) s.pkts
  s!"{s.id.toNat}:" ++ joinWith "+" (ps.map fun q => s!"{(seqid q).toNat}/{q.length}")

def showDec (d : Decoder) : String :=
  let sets := sortBy (fun s => s.id.toNat) d.sets
  s!"d={d.d} p={d.p} paws={d.paws.toNat} tune={if d.shouldTune then 1 else 0} newest={d.newest.toNat} " ++
  s!"at={d.tune.head}/{d.tune.tail}/{d.tune.count} sets=" ++
  (if sets.isEmpty then "-" else joinWith "," (sets.map showSet))

def step (s : St) : List String → St × String
  | ["enc", d, p, off, next] =>
    match d.toNat?, p.toNat?, off.toNat?, next.toNat? with
    | some d, some p, some off, some next =>
      match Encoder.new rsNew d p off with
      | some e => ({ s with enc := some { e with next := BitVec.ofNat 32 next } }, s!"ok paws={e.paws.toNat}")
      | none => ({ s with enc := none }, "nil")
    | _, _, _, _ => (s, "bad-op")
  | ["dec", d, p] =>
    match d.toNat?, p.toNat? with
    | some d, some p =>
      match Decoder.new rsNew d p with
      | some dc => ({ s with dec := some dc }, s!"ok paws={dc.paws.toNat}")
      | none => ({ s with dec := none }, "nil")
    | _, _ => (s, "bad-op")
  | ["newest", id] =>
    match s.dec, id.toNat? with
    | some dc, some id => ({ s with dec := some { dc with newest := BitVec.ofNat 32 id } }, "ok")
    | _, _ => (s, "bad-op")
  | ["e", cont, hex] =>
    match s.enc, bytesOfHex hex with
    | some e, some b =>
      let r := e.encode b (cont == "1")
      if r.panic then (s, "panic")
      else ({ s with enc := some r.st },
            s!"data={hexOrDash r.data} par={hexList r.parity} next={r.st.next.toNat} cnt={r.st.shardCount} max={r.st.maxSize}")
    | _, _ => (s, "bad-op")
  | ["oob", hex] =>
    match s.enc, bytesOfHex hex with
    | some e, some b => (s, s!"data={hexOrDash (e.encodeOOB b)} next={e.next.toNat}")
    | _, _ => (s, "bad-op")
  | ["d", hex] =>
    match s.dec, bytesOfHex hex with
    | some dc, some b =>
      let r := dc.decode rsNew b
      if r.panic then (s, "panic")
      else ({ s with dec := some r.st }, s!"rec={hexList r.recovered} {showDec r.st}")
    | _, _ => (s, "bad-op")
  | _ => (s, "bad-op")

def main : IO Unit := runLoop ({} : St) step

end Driver.FecC

namespace Driver.AutoTuneC
open KcpVerif KcpVerif.AutoTune

def parseBit (s : String) : Bool := s == "1"

def step (t : Tune) : List String → Tune × String
  | ["new"] => (Tune.init, "ok")
  | ["s", bit, seq] =>
    match seq.toNat? with
    | some q =>
      let t' := t.sample (parseBit bit) (BitVec.ofNat 32 q)
      (t', s!"h={t'.head} t={t'.tail} c={t'.count}")
    | none => (t, "bad-op")
  | ["find", bit] => (t, s!"{t.findPeriod (parseBit bit)}")
  | ["findx", _] => (t, "ok")
  | _ => (t, "bad-op")

def main : IO Unit := runLoop Tune.init step

end Driver.AutoTuneC
