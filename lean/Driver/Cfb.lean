import KcpVerif.Model.Cfb
import Driver.Util
/-! driver component `cfb` (C08): the unrolled CFB helpers with the toy block cipher, and the
salsa20 / xor / none shells.

ops (bytes in hex, `-` = empty, dst `=` means "same memory as src"):
* `cfb <enc|dec> <8|16> <key> <next0> <src> <dst>`
* `salsa <enc|dec> <ks> <src> <dst>`   ks = keystream for nonce src[:8], length max(len-8,0)
* `xortbl <tbl>`                       sets the table of the xor crypt
* `xor <enc|dec> <src> <dst>`
* `none <enc|dec> <src> <dst>`
observation: `buf <hex>` (same memory) or `src <hex> dst <hex>` -/
namespace Driver.CfbC
open KcpVerif KcpVerif.Cfb

structure DS where
  xortbl : Bytes := []

def showBufs (m : Bufs) : String :=
  if m.alias then
    (if m.src == m.dst then s!"buf {hexOrDash m.dst}" else s!"alias-broken src {hexOrDash m.src} dst {hexOrDash m.dst}")
  else s!"src {hexOrDash m.src} dst {hexOrDash m.dst}"

/-- parse the `<src> <dst>` pair: `(src, dst, alias)` -/
def bufsOf (src dst : String) : Option (Bytes × Bytes × Bool) :=
  match bytesOfHex src with
  | none => none
  | some s =>
    if dst == "=" then some (s, s, true)
    else match bytesOfHex dst with
      | none => none
      | some d => some (s, d, false)

def step (st : DS) : List String → DS × String
  | ["cfb", dir, bs, key, next0, src, dst] =>
    match bytesOfHex key, bytesOfHex next0, bufsOf src dst with
    | some k, some nx, some (s, d, a) =>
      let E := toyE k
      match dir, bs with
      | "enc", "8" => (st, showBufs (encrypt8 E s d a).m)
      | "enc", "16" => (st, showBufs (encrypt16 E s d a).m)
      | "dec", "8" => (st, showBufs (decrypt8 E s d a nx).m)
      | "dec", "16" => (st, showBufs (decrypt16 E s d a nx).m)
      | _, _ => (st, "bad-op")
    | _, _, _ => (st, "bad-op")
  | ["salsa", dir, ks, src, dst] =>
    match bytesOfHex ks, bufsOf src dst with
    | some k, some (s, d, a) =>
      let f : Bytes → Nat → UInt8 := fun _ i => k.getD i 0
      match dir with
      | "enc" => (st, showBufs (salsaEncrypt f s d a))
      | "dec" => (st, showBufs (salsaDecrypt f s d a))
      | _ => (st, "bad-op")
    | _, _ => (st, "bad-op")
  | ["xortbl", t] =>
    match bytesOfHex t with
    | some tb => ({ st with xortbl := tb }, "ok")
    | none => (st, "bad-op")
  | ["xor", _, src, dst] =>
    match bufsOf src dst with
    | some (s, d, a) => (st, showBufs (xorCrypt st.xortbl s d a))
    | none => (st, "bad-op")
  | ["none", _, src, dst] =>
    match bufsOf src dst with
    | some (s, d, a) => (st, showBufs (noneCrypt s d a))
    | none => (st, "bad-op")
  | _ => (st, "bad-op")

def main : IO Unit := runLoop ({} : DS) step

end Driver.CfbC
