import KcpVerif.Model.Ring
import Driver.Util
/-! driver component `ring`: RingBuffer[int] with values ≥ 1 (0 = cleared slot) -/
namespace Driver.RingC
open KcpVerif

abbrev R := Ring Nat

def showSlot : Option Nat → String
  | none => "0"
  | some v => toString v

/-- current run of the slot encoder: nothing yet, `n` zero slots, or the ascending values `a..b` -/
inductive Run where
  | empty
  | zeros (n : Nat)
  | asc (a b : Nat)

/-- emit the tokens of a finished run (prepended: the token list is built in reverse) -/
def flush : Run → List String → List String
  | .empty, acc => acc
  | .zeros n, acc => (if n == 1 then "0" else s!"0*{n}") :: acc
  | .asc a b, acc =>
    if b == a then toString a :: acc
    else if b == a + 1 then toString b :: toString a :: acc
    else s!"{a}..{b}" :: acc

/-- LOSSLESS run-length form of the raw slots (0 = cleared slot), the same state machine as
`encodeSlots` in harness/comp/ring/ring.go: maximal zero runs `0`/`0*z`, maximal ascending runs of
≥ 3 consecutive non-zero values `v..w`, everything else value by value. -/
def rle : List (Option Nat) → Run → List String → List String
  | [], run, acc => (flush run acc).reverse
  | o :: vs, run, acc =>
    let v := o.getD 0
    if v == 0 then
      match run with
      | .zeros n => rle vs (.zeros (n + 1)) acc
      | _ => rle vs (.zeros 1) (flush run acc)
    else
      match run with
      | .asc a b => if v == b + 1 then rle vs (.asc a v) acc else rle vs (.asc v v) (flush run acc)
      | _ => rle vs (.asc v v) (flush run acc)

def showState (r : R) : String :=
  s!"h={r.head} t={r.tail} e={joinWith "," (rle r.elems .empty [])}"

/-- the iterator callback used by both sides: add `d`, stop after an element `x` with `x % m = k`;
the closure state is an order-sensitive checksum of the values seen (`acc*31 + x mod 2^32`),
printed as the op's output, so the visiting order itself is observed (initial state 1). -/
def cb (d m k : Nat) (acc : Nat) (o : Option Nat) : Ring.CbRes Nat Nat :=
  match o with
  | none => ⟨(acc * 31) % 4294967296, some d, !(0 % m == k)⟩   -- Go: zero value (unreachable for well-formed rings)
  | some x => ⟨(acc * 31 + x) % 4294967296, some (x + d), !(x % m == k)⟩

def step (r : R) : List String → R × String
  | ["new", n] => match n.toInt? with
    | some k => let r' : R := Ring.new k; (r', s!"ok {showState r'}")
    | none => (r, "bad-op")
  | ["push", v] => match v.toNat? with
    | some k => let r' := r.push k; (r', s!"ok {showState r'}")
    | none => (r, "bad-op")
  | ["pop"] =>
    let (v, r') := r.pop
    (r', s!"{match v with | none => "none" | some o => showSlot o} {showState r'}")
  | ["peek"] => (r, s!"{match r.peek with | none => "none" | some o => showSlot o} {showState r}")
  | ["discard", n] => match n.toNat? with
    | some k => let (m, r') := r.discard k; (r', s!"{m} {showState r'}")
    | none => (r, "bad-op")
  | ["clear"] => let r' := r.clear; (r', s!"ok {showState r'}")
  | ["len"] => (r, s!"{r.len} {showState r}")
  | ["isempty"] => (r, s!"{r.isEmpty} {showState r}")
  | ["isfull"] => (r, s!"{r.isFull} {showState r}")
  | ["maxlen"] => (r, s!"{r.maxLen} {showState r}")
  | ["foreach", d, m, k] => match d.toNat?, m.toNat?, k.toNat? with
    | some d, some m, some k => let p := r.forEach (cb d m k) 1; (p.2, s!"{p.1} {showState p.2}")
    | _, _, _ => (r, "bad-op")
  | ["foreachrev", d, m, k] => match d.toNat?, m.toNat?, k.toNat? with
    | some d, some m, some k => let p := r.forEachReverse (cb d m k) 1; (p.2, s!"{p.1} {showState p.2}")
    | _, _, _ => (r, "bad-op")
  | _ => (r, "bad-op")

def main : IO Unit := runLoop (Ring.new 0 : R) step

end Driver.RingC
