import KcpVerif.Model.KcpOwn
import Driver.Util
/-! driver component `kcpown`: two instrumented protocol cores `a` and `b` (Model/KcpOwn) on the op
lines of component `kcp`.  Observation per op: the pool events of that op — `g=<gets> p=<puts>
e=<g<id>|p<id>,…> u=<id,…>` with ids = acquisition numbers (the n-th `Get` of the history, both cores share
the counter as they share the pool) — and for `state` the buffer id held at every queue position. -/
namespace Driver.KcpOwnC
open KcpVerif KcpVerif.Kcp KcpVerif.Own KcpVerif.Pool

structure St where
  a : KcpO := KcpO.new 0
  b : KcpO := KcpO.new 0
  next : Nat := 0

def pu32 (s : String) : Option U32 := s.toNat?.map (BitVec.ofNat 32)

def showEv : Ev → Option String
  | .get id => some s!"g{id}"
  | .put id => some s!"p{id}"
  | .use _ => none

def isGet : Ev → Bool
  | .get _ => true
  | _ => false
def isPut : Ev → Bool
  | .put _ => true
  | _ => false

def showUse : Ev → Option String
  | .use id => some (toString id)
  | _ => none

/-- `wire = true` for the operations that may flush: their `use` events are the segments phase 5
transmits, which the harness reads off the wire (`u=`); the `use` events of Send (stream append) and
Recv (copy-out) have no observable counterpart and are not printed -/
def obs (o : KcpO) (wire : Bool := false) : String :=
  let evs := o.gh.log.filterMap showEv
  let us := if wire then o.gh.log.filterMap showUse else []
  s!"g={(o.gh.log.filter isGet).length} p={(o.gh.log.filter isPut).length} e={if evs.isEmpty then "-" else joinWith "," evs} u={if us.isEmpty then "-" else joinWith "," us}"

def showId : Option Nat → String
  | some id => toString id
  | none => "-"

def showIds (l : List SegO) : String := "[" ++ joinWith "," (l.map fun x => showId x.buf) ++ "]"

def layout (o : KcpO) : String :=
  let rb := o.rb.mergeSort (fun x y => (x.s.sn - o.k.rcv_nxt).toNat ≤ (y.s.sn - o.k.rcv_nxt).toNat)
  s!"I sq={showIds o.sq} rq={showIds o.rq} sb={showIds o.sb} rb={showIds rb}"

/-- one op on one core; the log has been emptied by the caller, so it holds this op's events -/
def stepCore (o : KcpO) : List String → KcpO × String
  | ["shift", s, r] => match pu32 s, pu32 r with
    | some s, some r => let o' := { o with k := { o.k with snd_una := s, snd_nxt := s, rcv_nxt := r } }; (o', obs o')
    | _, _ => (o, "bad-op")
  | ["nodelay", a, b, c, d] => match a.toInt?, b.toInt?, c.toInt?, d.toInt? with
    | some a, some b, some c, some d => let o' := { o with k := o.k.noDelay a b c d }; (o', obs o')
    | _, _, _, _ => (o, "bad-op")
  | ["wndsize", s, r] => match s.toInt?, r.toInt? with
    | some s, some r => let o' := { o with k := o.k.wndSize s r }; (o', obs o')
    | _, _ => (o, "bad-op")
  | ["setmtu", m] => match m.toInt? with
    | some m => let o' := { o with k := (o.k.setMtu m).1 }; (o', obs o')
    | none => (o, "bad-op")
  | ["stream", v] => let o' := { o with k := { o.k with stream := if v == "1" then 1 else 0 } }; (o', obs o')
  | ["send", h] => match bytesOfHex h with
    | some b => let r := sendO o b; if r.panic then (r.o, "panic") else (r.o, obs r.o)
    | none => (o, "bad-op")
  | ["recv", n] => match n.toNat? with
    | some n => let r := recvO o n; (r.o, obs r.o)
    | none => (o, "bad-op")
  | ["peeksize"] => (o, obs o)
  | ["input", h, reg, nd, now] => match bytesOfHex h, pu32 now with
    | some b, some now =>
      let r := inputO o b (reg == "1") (nd == "1") now
      if r.panic then (r.o, "panic") else (r.o, obs r.o true)
    | _, _ => (o, "bad-op")
  | ["flush", full, now] => match pu32 now with
    | some now =>
      let r := flushO o (full == "1") now
      if r.panic then (r.o, "panic") else (r.o, obs r.o true)
    | none => (o, "bad-op")
  | ["update", now] => match pu32 now with
    | some now =>
      let r := updateO o now
      if r.panic then (r.o, "panic") else (r.o, obs r.o true)
    | none => (o, "bad-op")
  | ["check", _] => (o, obs o)
  | ["waitsnd"] => (o, obs o)
  | ["state"] => (o, layout o)
  | _ => (o, "bad-op")

/-- both cores draw from one pool: the acquisition counter is shared; the log is per op -/
def enter (o : KcpO) (next : Nat) : KcpO := { o with gh := { o.gh with next := next, log := [] } }

def step (st : St) : List String → St × String
  | ["new", c] => match pu32 c with
    | some c => ({ a := KcpO.new c, b := KcpO.new c, next := 0 }, "ok")
    | none => (st, "bad-op")
  | "a" :: rest => let r := stepCore (enter st.a st.next) rest; ({ st with a := r.1, next := r.1.gh.next }, r.2)
  | "b" :: rest => let r := stepCore (enter st.b st.next) rest; ({ st with b := r.1, next := r.1.gh.next }, r.2)
  | _ => (st, "bad-op")

def main : IO Unit := runLoop ({} : St) step

end Driver.KcpOwnC
