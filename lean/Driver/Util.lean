/-
Line-protocol helpers shared by all driver components.  Core Lean only (the driver is linked
as a `lean_exe`, which cannot import Mathlib).
-/
namespace Driver

def hexDigit (n : Nat) : Char :=
  if n < 10 then Char.ofNat (48 + n) else Char.ofNat (87 + n)

def hexOfBytes (bs : List UInt8) : String :=
  String.ofList (bs.flatMap fun b => [hexDigit (b.toNat / 16), hexDigit (b.toNat % 16)])

def hexVal (c : Char) : Option Nat :=
  if '0' ≤ c ∧ c ≤ '9' then some (c.toNat - 48)
  else if 'a' ≤ c ∧ c ≤ 'f' then some (c.toNat - 87)
  else if 'A' ≤ c ∧ c ≤ 'F' then some (c.toNat - 55)
  else none

/-- "-" denotes the empty byte string -/
def bytesOfHex (s : String) : Option (List UInt8) :=
  if s == "-" then some [] else
  let rec go : List Char → List UInt8 → Option (List UInt8)
    | [], acc => some acc.reverse
    | [_], _ => none
    | a :: b :: rest, acc =>
      match hexVal a, hexVal b with
      | some x, some y => go rest (UInt8.ofNat (x * 16 + y) :: acc)
      | _, _ => none
  go s.toList []

def hexOrDash (bs : List UInt8) : String := if bs.isEmpty then "-" else hexOfBytes bs

def joinWith (sep : String) (xs : List String) : String := sep.intercalate xs

/-- generic loop: one input line → one output line -/
partial def runLoop {σ : Type} (init : σ) (step : σ → List String → σ × String) : IO Unit := do
  let stdin ← IO.getStdin
  let stdout ← IO.getStdout
  let rec loop (s : σ) (n : Nat) : IO Unit := do
    let line ← stdin.getLine
    if line.isEmpty then
      stdout.flush
      return ()
    let toks := (line.trimAscii.toString.splitOn " ").filter (· ≠ "")
    let (s', out) := step s toks
    stdout.putStrLn out
    if n % 4096 == 0 then stdout.flush
    loop s' (n + 1)
  loop init 0

end Driver
