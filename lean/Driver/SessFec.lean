import KcpVerif.Model.SessFec
import Driver.Kcp
import Driver.Sess
import Driver.Fec
/-!
driver component `sessfec`: two sessions without cipher, each with its own FEC ratio (0/0 = FEC off),
the executable GF(2^8) code — Write / Read / packetInput (kcpInput's FEC branch) / update with the FEC
stage of postProcess.

ops   new conv dA pA dB pB
      a|b opt wd nd st | nodelay .. | wndsize .. | setmtu m | state
      a|b swrite v now gap | sread n | sinput hex now gap | supdate now gap
`gap` = milliseconds since the session's previous `encode` call (the time test of `fecEncoder.encode`).
-/
namespace Driver.SessFecC
open KcpVerif Driver.KcpC

structure St where
  a : SessFec := SessFec.new Fec.rsNew 0 0 0
  b : SessFec := SessFec.new Fec.rsNew 0 0 0

def showEnc : Option Fec.Encoder → String
  | none => "-"
  | some e => s!"{e.next.toNat}/{e.shardCount}/{e.maxSize}"

def showDecO : Option Fec.Decoder → String
  | none => "-"
  | some d => Driver.FecC.showDec d

def tail (x : SessFec) : String :=
  s!"bp={x.s.bufptr.length} | {scalars x.s.k} | enc={showEnc x.enc} | {showDecO x.dec}"

def stepSess (x : SessFec) : List String → SessFec × String
  | ["opt", wd, nd, st] =>
    let x' := { x with s := { x.s with writeDelay := wd == "1", ackNoDelay := nd == "1",
                                       k := { x.s.k with stream := if st == "1" then 1 else 0 } } }
    (x', s!"ok {tail x'}")
  | ["nodelay", a, b, c, d] => match a.toInt?, b.toInt?, c.toInt?, d.toInt? with
    | some a, some b, some c, some d =>
      let x' := { x with s := { x.s with k := x.s.k.noDelay a b c d } }; (x', s!"ok {tail x'}")
    | _, _, _, _ => (x, "bad-op")
  | ["wndsize", p, q] => match p.toInt?, q.toInt? with
    | some p, some q => let x' := { x with s := { x.s with k := x.s.k.wndSize p q } }; (x', s!"ok {tail x'}")
    | _, _ => (x, "bad-op")
  | ["setmtu", m] => match m.toInt? with
    | some m => let r := x.setMtu m; (r.1, s!"r={r.2} {tail r.1}")
    | none => (x, "bad-op")
  | ["swrite", v, now, gap] => match Driver.SessC.parseVec v, pu32 now, gap.toInt? with
    | some v, some now, some gap =>
      let r := x.writeBuffers v now gap
      if r.panic then (r.s, "panic") else
      if r.blocked then (r.s, s!"blocked {tail r.s}") else (r.s, s!"n={r.n} o={showOuts r.outs} {tail r.s}")
    | _, _, _ => (x, "bad-op")
  | ["sread", n] => match n.toNat? with
    | some n =>
      let r := x.read n
      let x' := { x with s := r.s }
      if r.blocked then (x', s!"blocked {tail x'}") else (x', s!"d={hexOrDash r.data} {tail x'}")
    | none => (x, "bad-op")
  | ["sinput", h, now, gap] => match bytesOfHex h, pu32 now, gap.toInt? with
    | some d, some now, some gap =>
      let r := SessFec.packetInput Fec.rsNew x d now gap
      if r.panic then (r.s, "panic") else
      (r.s, s!"o={showOuts r.outs} err={r.errs} rec={r.recov} {tail r.s}")
    | _, _, _ => (x, "bad-op")
  | ["supdate", now, gap] => match pu32 now, gap.toInt? with
    | some now, some gap =>
      let r := x.update now gap
      if r.panic then (r.s, "panic") else (r.s, s!"r={n32 r.interval} o={showOuts r.outs} {tail r.s}")
    | _, _ => (x, "bad-op")
  | ["state"] => (x, queues x.s.k)
  | _ => (x, "bad-op")

def step (st : St) : List String → St × String
  | ["new", c, da, pa, db, pb] => match pu32 c, da.toNat?, pa.toNat?, db.toNat?, pb.toNat? with
    | some c, some da, some pa, some db, some pb =>
      let a := SessFec.new Fec.rsNew c da pa
      let b := SessFec.new Fec.rsNew c db pb
      ({ a := a, b := b }, s!"ok a: {tail a} b: {tail b}")
    | _, _, _, _, _ => (st, "bad-op")
  | "a" :: rest => let r := stepSess st.a rest; ({ st with a := r.1 }, r.2)
  | "b" :: rest => let r := stepSess st.b rest; ({ st with b := r.1 }, r.2)
  | _ => (st, "bad-op")

def main : IO Unit := runLoop ({} : St) step

end Driver.SessFecC
