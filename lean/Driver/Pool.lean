import KcpVerif.Model.Pool
import Driver.Util
/-! driver component `pool`: the sanitizer state machine of Model/Pool on event lines.

* `reset`                 → `ok` (forget all buffers)
* `g N` / `p N` / `u N`   → verdict of `Pool.step` on that event (state continues past findings,
                            as the Go sanitizer does)
* `log gN pN uN …`        → verdict of `Pool.sanitize` on the whole log (fresh state)
* `cap N`                 → `accept` / `refuse` (`bufferPool.Put`'s capacity test)
-/
namespace Driver.PoolC
open KcpVerif KcpVerif.Pool

def parseTok (t : String) : Option Ev :=
  match t.toList with
  | 'g' :: r => (String.ofList r).toNat?.map Ev.get
  | 'p' :: r => (String.ofList r).toNat?.map Ev.put
  | 'u' :: r => (String.ofList r).toNat?.map Ev.use
  | _ => none

def parseLog : List String → Option (List Ev)
  | [] => some []
  | t :: ts => match parseTok t, parseLog ts with
    | some e, some es => some (e :: es)
    | _, _ => none

def ev (s : St) (e : Ev) : St × String :=
  let r := step s e
  (r.st, r.v.name)

def stepLine (s : St) : List String → St × String
  | ["reset"] => (St.init, "ok")
  | ["g", n] => match n.toNat? with
    | some k => ev s (.get k)
    | none => (s, "bad-op")
  | ["p", n] => match n.toNat? with
    | some k => ev s (.put k)
    | none => (s, "bad-op")
  | ["u", n] => match n.toNat? with
    | some k => ev s (.use k)
    | none => (s, "bad-op")
  | ["cap", n] => match n.toNat? with
    | some k => (s, if putAccepts k then "accept" else "refuse")
    | none => (s, "bad-op")
  | "log" :: toks => match parseLog toks with
    | some l => (s, (sanitize l).name)
    | none => (s, "bad-op")
  | _ => (s, "bad-op")

def main : IO Unit := runLoop St.init stepLine

end Driver.PoolC
