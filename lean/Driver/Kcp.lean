import KcpVerif.Model.Kcp
import Driver.Util
/-! driver component `kcp`: two protocol cores `a` and `b` (model of kcp.go) -/
namespace Driver.KcpC
open KcpVerif KcpVerif.Kcp

structure St where
  a : Kcp := Kcp.new 0
  b : Kcp := Kcp.new 0

def n32 (x : U32) : String := toString x.toNat

def scalars (k : Kcp) : String :=
  joinWith " " [n32 k.conv, n32 k.mtu, n32 k.mss, n32 k.state, n32 k.snd_una, n32 k.snd_nxt, n32 k.rcv_nxt,
    n32 k.ssthresh, n32 k.rx_rttvar, n32 k.rx_srtt, n32 k.rx_rto, n32 k.rx_minrto, n32 k.snd_wnd, n32 k.rcv_wnd,
    n32 k.rmt_wnd, n32 k.cwnd, n32 k.incr, n32 k.probe, n32 k.ts_probe, n32 k.probe_wait, n32 k.interval,
    n32 k.ts_flush, n32 k.nodelay, n32 k.updated, n32 k.dead_link, n32 k.fastresend, n32 k.nocwnd, n32 k.stream,
    toString k.snd_queue.length, toString k.rcv_queue.length, toString k.snd_buf.length, toString k.rcv_buf.length,
    toString k.acklist.length, toString k.bufLen]

def showSeg (s : Seg) : String :=
  joinWith "." [n32 s.conv, toString s.cmd.toNat, toString s.frg.toNat, toString s.wnd.toNat, n32 s.ts, n32 s.sn,
    n32 s.una, n32 s.rto, n32 s.xmit, n32 s.resendts, n32 s.fastack, (if s.acked then "1" else "0"), hexOrDash s.data]

def showSegs (l : List Seg) : String := "[" ++ joinWith "," (l.map showSeg) ++ "]"

def showOuts (o : List Bytes) : String :=
  if o.isEmpty then "none" else joinWith "," (o.map hexOrDash)

def queues (k : Kcp) : String :=
  let rb := k.rcv_buf.mergeSort (fun x y => (x.sn - k.rcv_nxt).toNat ≤ (y.sn - k.rcv_nxt).toNat)
  s!"Q sq={showSegs k.snd_queue} rq={showSegs k.rcv_queue} sb={showSegs k.snd_buf} rb={showSegs rb} ack=[{joinWith "," (k.acklist.map fun a => n32 a.sn ++ "." ++ n32 a.ts)}]"

def pu32 (s : String) : Option U32 := s.toNat?.map (BitVec.ofNat 32)

def stepCore (k : Kcp) : List String → Kcp × String
  | ["shift", s, r] => match pu32 s, pu32 r with
    | some s, some r => let k' := { k with snd_una := s, snd_nxt := s, rcv_nxt := r }; (k', s!"ok | {scalars k'}")
    | _, _ => (k, "bad-op")
  | ["nodelay", a, b, c, d] => match a.toInt?, b.toInt?, c.toInt?, d.toInt? with
    | some a, some b, some c, some d => let k' := k.noDelay a b c d; (k', s!"ok | {scalars k'}")
    | _, _, _, _ => (k, "bad-op")
  | ["wndsize", s, r] => match s.toInt?, r.toInt? with
    | some s, some r => let k' := k.wndSize s r; (k', s!"ok | {scalars k'}")
    | _, _ => (k, "bad-op")
  | ["setmtu", m] => match m.toInt? with
    | some m => let r := k.setMtu m; (r.1, s!"r={r.2} | {scalars r.1}")
    | none => (k, "bad-op")
  | ["stream", v] => let k' := { k with stream := if v == "1" then 1 else 0 }; (k', s!"ok | {scalars k'}")
  | ["send", h] => match bytesOfHex h with
    | some b => let r := k.send b; if r.panic then (r.k, "panic") else (r.k, s!"r={r.ret} | {scalars r.k}")
    | none => (k, "bad-op")
  | ["recv", n] => match n.toNat? with
    | some n => let r := k.recv n; (r.k, s!"r={r.n} d={hexOrDash r.data} | {scalars r.k}")
    | none => (k, "bad-op")
  | ["peeksize"] => (k, s!"r={k.peekSize} | {scalars k}")
  | ["input", h, reg, nd, now] => match bytesOfHex h, pu32 now with
    | some b, some now =>
      let r := k.input b (reg == "1") (nd == "1") now
      if r.panic then (r.k, "panic") else (r.k, s!"r={r.ret} o={showOuts r.outs} | {scalars r.k}")
    | _, _ => (k, "bad-op")
  | ["flush", full, now] => match pu32 now with
    | some now =>
      let r := k.flush (full == "1") now
      if r.panic then (r.k, "panic") else (r.k, s!"r={n32 r.interval} o={showOuts r.outs} | {scalars r.k}")
    | none => (k, "bad-op")
  | ["update", now] => match pu32 now with
    | some now =>
      let r := k.update now
      if r.panic then (r.k, "panic") else (r.k, s!"o={showOuts r.outs} | {scalars r.k}")
    | none => (k, "bad-op")
  | ["check", now] => match pu32 now with
    | some now => (k, s!"r={n32 (k.check now)} | {scalars k}")
    | none => (k, "bad-op")
  | ["waitsnd"] => (k, s!"r={k.waitSnd} | {scalars k}")
  | ["state"] => (k, queues k)
  | _ => (k, "bad-op")

def step (st : St) : List String → St × String
  | ["new", c] => match pu32 c with
    | some c => ({ a := Kcp.new c, b := Kcp.new c }, s!"ok | {scalars (Kcp.new c)}")
    | none => (st, "bad-op")
  | "a" :: rest => let r := stepCore st.a rest; ({ st with a := r.1 }, r.2)
  | "b" :: rest => let r := stepCore st.b rest; ({ st with b := r.1 }, r.2)
  | _ => (st, "bad-op")

def main : IO Unit := runLoop ({} : St) step

end Driver.KcpC
