import KcpVerif.Model.FecOwn
import Driver.Util
/-! driver component `fecown`: the instrumented FEC decoder (Model/FecOwn) on the decoder op lines of
component `fec` (`dec d p`, `newest id`, `d hex`).  Observation of `d`: the pool events of `decode`
plus its caller's release of the recovered buffers — `g=<gets> p=<puts> G=<ids> P=<ids> H=<ids>`,
ids = acquisition numbers since `dec`, each list ascending (the Go code recycles in map / heap
order), `H` = the buffers held by the shard sets after the op. -/
namespace Driver.FecOwnC
open KcpVerif KcpVerif.Fec KcpVerif.FecOwn KcpVerif.Own KcpVerif.Pool

def getId : Ev → Option Nat
  | .get id => some id
  | _ => none
def putId : Ev → Option Nat
  | .put id => some id
  | _ => none

def showNats (l : List Nat) : String :=
  if l.isEmpty then "-" else joinWith "," ((l.mergeSort (· ≤ ·)).map toString)

def obs (o : DecO) : String :=
  let gs := o.gh.log.filterMap getId
  let ps := o.gh.log.filterMap putId
  let held := o.sets.flatMap fun s => s.pkts.map (·.buf)
  s!"g={gs.length} p={ps.length} G={showNats gs} P={showNats ps} H={showNats held}"

def step (s : Option DecO) : List String → Option DecO × String
  | ["dec", d, p] =>
    match d.toNat?, p.toNat? with
    | some d, some p =>
      match DecO.new rsNew d p with
      | some o => (some o, "ok")
      | none => (none, "nil")
    | _, _ => (s, "bad-op")
  | ["newest", id] =>
    match s, id.toNat? with
    | some o, some id => (some { o with dec := { o.dec with newest := BitVec.ofNat 32 id } }, "ok")
    | _, _ => (s, "bad-op")
  | ["d", hex] =>
    match s, bytesOfHex hex with
    | some o, some b =>
      let o0 : DecO := { o with gh := { o.gh with log := [] } }
      let r := decodeO rsNew o0 b
      if r.panic then (s, "panic")
      else
        let o' : DecO := { r.o with gh := release r.rbufs r.o.gh }   -- = decodeRel rsNew o0 b
        (some o', obs o')
    | _, _ => (s, "bad-op")
  | _ => (s, "bad-op")

def main : IO Unit := runLoop (none : Option DecO) step

end Driver.FecOwnC
