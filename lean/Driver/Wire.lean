import KcpVerif.Model.Wire
import KcpVerif.Model.SessOut
import Driver.Util
/-!
driver component `wire` (C09, C10 session half, C19): one history = two sessions "A" and "B"
with the same cipher kind and FEC parameters.

  new <nil|block|aead> <d> <p>      -> hs=<headerSize> ov=<aead overhead> mtu=<core mtu> fec=<0|1>
  setmtu <side> <m> <orig|fixed> <maxq> -> <true|false> mtu=<core mtu afterwards>   (core rule, longest queued payload)
  oobmax <side>                     -> <GetOOBMaxSize>
  sethandler <side> <0|1>           -> ok | err-nofec
  sendoob <side> <conv> <hex>       -> ok <request body hex> | err-nofec | err-too-large
  cb <side> <size>                  -> skipped | buffer <len> | panic      (output callback)
  post <side> <oob> <now> <hex>     -> the datagrams postProcess emits for this request (MODEL)
  dgram <side> <hex>                -> structure summary by the SPEC decoder (or `reject`)
  expect-stream <side> <hex>        -> ok | mismatch …   (SPEC reassembly of everything seen from <side>)
  expect-prefix <side> <hex>        -> ok | mismatch …   (reassembly is a prefix of <hex>)
  deliver <side> <hex>              -> oob:<hex> | -      (receive-side demux after the integrity gate)
  ent <seedhex> <count> <Ehex> <n>  -> <out> <seed'> <count'>   (rngAES.Read, E(seed) supplied)
-/
namespace Driver.WireC
open KcpVerif KcpVerif.Wire KcpVerif.SessOut KcpVerif.Gen

/-! CRC-32 (IEEE) and a 64-bit FNV-1a hash, both only for the driver -/

def crcStep (c : UInt32) : UInt32 := if c &&& 1 == 1 then (c >>> 1) ^^^ 0xEDB88320 else c >>> 1

def crcTable : Array UInt32 :=
  Array.ofFn (n := 256) fun i =>
    crcStep (crcStep (crcStep (crcStep (crcStep (crcStep (crcStep (crcStep i.val.toUInt32)))))))

def crc32 (b : Bytes) : BitVec 32 :=
  let c : UInt32 := b.foldl (fun (c : UInt32) x => crcTable[((c ^^^ x.toUInt32) &&& 0xff).toNat]! ^^^ (c >>> 8)) (0xFFFFFFFF : UInt32)
  BitVec.ofNat 32 (c ^^^ (0xFFFFFFFF : UInt32)).toNat

def fnv (b : Bytes) : UInt64 :=
  b.foldl (fun (h : UInt64) x => (h ^^^ x.toUInt64) * (1099511628211 : UInt64)) (14695981039346656037 : UInt64)

def hex64 (h : UInt64) : String := hexOfBytes ((List.range 8).map fun i => UInt8.ofNat ((h.toNat >>> (8 * (7 - i))) % 256))

/-- the counting entropy source the harness installs with `SetEntropy`: the k-th Read returns
`le64(k) ‖ A5 A5 …` cut to the requested length -/
def countingDraw (g : Nat) : Draw Nat :=
  { g := g + 1,
    out := (List.range 8).map (fun i => UInt8.ofNat ((g >>> (8 * i)) % 256)) ++ List.replicate 8 0xA5 }

def prims : Prims Nat :=
  { crc := crc32, parity := fun _ _ => [], draw := countingDraw,
    encB := id, decB := id, aseal := fun _ x => x, aopen := fun _ x => some x }

structure Side where
  enc : Option Enc
  coreMtu : Nat
  segs : List (SegHdr × Bytes)     -- reverse wire order
  handler : Bool

structure St where
  cfg : Cfg
  gen : Nat
  a : Side
  b : Side

def St.side (s : St) (n : String) : Side := if n == "A" then s.a else s.b
def St.setSide (s : St) (n : String) (x : Side) : St := if n == "A" then { s with a := x } else { s with b := x }

def mkSide (c : Cfg) : Side := { enc := newEnc c, coreMtu := initialCoreMtu c, segs := [], handler := false }

def init : St :=
  let c : Cfg := { cipher := .none, d := 0, p := 0 }
  { cfg := c, gen := 0, a := mkSide c, b := mkSide c }

def parseCipher : String → Option Cipher
  | "nil" => some .none
  | "block" => some .block
  | "aead" => some (.aead 12 16)
  | _ => none

def specCrypt (c : Cfg) : Spec.Crypt :=
  match c.cipher with
  | .none => .none
  | .block => .block
  | .aead n _ => .aead n

def specFec (c : Cfg) : Option (Nat × Nat) := if c.fecOn then some (c.d, c.p) else none

def showSeg (x : SegHdr × Bytes) : String :=
  s!"{x.1.conv.toNat}.{x.1.cmd.toNat}.{x.1.frg.toNat}.{x.1.wnd.toNat}.{x.1.ts.toNat}.{x.1.sn.toNat}.{x.1.una.toNat}.{x.1.len.toNat}"

def showFrame (nonce : Bytes) (f : Spec.Frame) : String :=
  let n := hexOrDash nonce
  match f with
  | .kcp segs => s!"ok n={n} K segs={joinWith "," (segs.map showSeg)}"
  | .data id sz segs => s!"ok n={n} D id={id.toNat} size={sz} segs={joinWith "," (segs.map showSeg)}"
  | .parity id body => s!"ok n={n} P id={id.toNat} len={body.length}"
  | .oob id sz conv msg => s!"ok n={n} O id={id.toNat} size={sz} conv={conv.toNat} msg={hexOrDash msg}"

def showEmit (c : Cfg) (e : Emit) : String :=
  let wl := e.wire.length + c.overhead
  match e.pkt.kind with
  | .parity => s!"P:{wl}:{hex64 (fnv (e.nonce ++ e.pkt.rest.take fecHeaderSize))}"
  | _ => s!"D:{wl}:{hex64 (fnv e.plain)}"

def step (s : St) : List String → St × String
  | ["new", ciph, d, p] =>
    match parseCipher ciph, d.toInt?, p.toInt? with
    | some ci, some d, some p =>
      let c : Cfg := { cipher := ci, d := d.toNat, p := p.toNat }
      let s' : St := { cfg := c, gen := 0, a := mkSide c, b := mkSide c }
      (s', s!"hs={c.headerSize} ov={c.overhead} mtu={initialCoreMtu c} fec={if c.fecOn then 1 else 0}")
    | _, _, _ => (s, "bad-op")
  | ["entropy-reset"] => ({ s with gen := 0 }, "ok")
  | ["setmtu", side, m, rule, maxq] =>
    match m.toInt?, maxq.toNat? with
    | some m, some maxq =>
      let x := s.side side
      let r := setMtu s.cfg (if rule == "fixed" then coreAcceptsFixed maxq else coreAcceptsOrig) x.coreMtu m
      (s.setSide side { x with coreMtu := r.coreMtu }, s!"{r.ok} mtu={r.coreMtu}")
    | _, _ => (s, "bad-op")
  | ["oobmax", side] => (s, s!"{getOOBMaxSize s.cfg (s.side side).coreMtu}")
  | ["sethandler", side, v] =>
    if setOOBHandlerOk s.cfg then (s.setSide side { s.side side with handler := v == "1" }, "ok")
    else (s, "err-nofec")
  | ["sendoob", side, conv, hex] =>
    match conv.toNat?, bytesOfHex hex with
    | some conv, some data =>
      match sendOOB s.cfg (s.side side).coreMtu (BitVec.ofNat 32 conv) data with
      | .errNoFec => (s, "err-nofec")
      | .errTooLarge => (s, "err-too-large")
      | .queued body => (s, s!"ok {hexOrDash body}")
    | _, _ => (s, "bad-op")
  | ["cb", _, size] =>
    match size.toNat? with
    | some n =>
      match outputCb s.cfg n with
      | .skipped => (s, "skipped")
      | .buffer l => (s, s!"buffer {l}")
      | .panic => (s, "panic")
    | none => (s, "bad-op")
  | ["post", side, oob, now, hex] =>
    match now.toInt?, bytesOfHex hex with
    | some now, some body =>
      let x := s.side side
      let o := ppStep prims s.cfg { enc := x.enc, gen := s.gen } { oob := oob == "1", body := body, now := now }
      let s1 := { s with gen := o.st.gen }
      (s1.setSide side { x with enc := o.st.enc }, joinWith " " (o.emits.map (showEmit s.cfg)))
    | _, _ => (s, "bad-op")
  | ["dgram", side, hex] =>
    match bytesOfHex hex with
    | some b =>
      match Spec.parseDatagram crc32 (specCrypt s.cfg) (specFec s.cfg) b with
      | none => (s, "reject")
      | some (nonce, f) =>
        let x := s.side side
        (s.setSide side { x with segs := f.segs.reverse ++ x.segs }, showFrame nonce f)
    | none => (s, "bad-op")
  | ["expect-stream", side, hex] =>
    match bytesOfHex hex with
    | some b =>
      let got := Spec.reassemble (s.side side).segs.reverse
      (s, if got == b then "ok" else s!"mismatch got={got.length} bytes want={b.length}")
    | none => (s, "bad-op")
  | ["expect-prefix", side, hex] =>
    match bytesOfHex hex with
    | some b =>
      let got := Spec.reassemble (s.side side).segs.reverse
      (s, if got == b.take got.length then "ok" else s!"mismatch got={got.length} bytes want-prefix-of={b.length}")
    | none => (s, "bad-op")
  | ["deliver", side, hex] =>
    match bytesOfHex hex with
    | some b =>
      match route b with
      | .oob payload => (s, if (s.side side).handler then s!"oob:{hexOrDash payload}" else "-")
      | _ => (s, "-")
    | none => (s, "bad-op")
  | ["ent", seed, count, e, n] =>
    match bytesOfHex seed, count.toNat?, bytesOfHex e, n.toNat? with
    | some seed, some count, some e, some n =>
      -- one Read inside an epoch: E(seed) is supplied by the harness (computed with crypto/aes)
      let r : AesGen Unit := { key := (), seed := seed, count := count, epoch := 0 }
      let d := r.next (fun _ _ => e) (fun _ => ((), []))
      (s, s!"{hexOrDash (d.out.take n)} {hexOrDash d.g.seed} {d.g.count}")
    | _, _, _, _ => (s, "bad-op")
  | _ => (s, "bad-op")

def main : IO Unit := runLoop init step

end Driver.WireC
