import KcpVerif.Model.Sess
import Driver.Kcp
/-! driver component `sess`: two sessions (no cipher, no FEC) — Read/Write/input/update data path -/
namespace Driver.SessC
open KcpVerif Driver.KcpC

structure St where
  a : Sess := Sess.new 0
  b : Sess := Sess.new 0

def tail (s : Sess) : String := s!"bp={s.bufptr.length} | {scalars s.k}"

def parseVec (s : String) : Option (List Bytes) :=
  (s.splitOn ",").mapM bytesOfHex

def stepSess (s : Sess) : List String → Sess × String
  | ["opt", wd, nd, st] =>
    let s' := { s with writeDelay := wd == "1", ackNoDelay := nd == "1", k := { s.k with stream := if st == "1" then 1 else 0 } }
    (s', s!"ok {tail s'}")
  | ["nodelay", a, b, c, d] => match a.toInt?, b.toInt?, c.toInt?, d.toInt? with
    | some a, some b, some c, some d => let s' := { s with k := s.k.noDelay a b c d }; (s', s!"ok {tail s'}")
    | _, _, _, _ => (s, "bad-op")
  | ["wndsize", x, y] => match x.toInt?, y.toInt? with
    | some x, some y => let s' := { s with k := s.k.wndSize x y }; (s', s!"ok {tail s'}")
    | _, _ => (s, "bad-op")
  | ["setmtu", m] => match m.toInt? with
    | some m =>
      -- UDPSession.SetMtu without cipher/FEC: min(mtuLimit, m) handed to the core
      let r := s.k.setMtu (if m < (Gen.mtuLimit : Int) then m else (Gen.mtuLimit : Int))
      let s' := { s with k := r.1 }
      (s', s!"r={decide (r.2 = 0)} {tail s'}")
    | none => (s, "bad-op")
  | ["shift", x, y] => match pu32 x, pu32 y with
    | some x, some y => let s' := { s with k := { s.k with snd_una := x, snd_nxt := x, rcv_nxt := y } }; (s', s!"ok {tail s'}")
    | _, _ => (s, "bad-op")
  | ["swrite", v, now] => match parseVec v, pu32 now with
    | some v, some now =>
      let r := s.writeBuffers v now
      if r.panic then (r.s, "panic") else
      if r.blocked then (r.s, s!"blocked {tail r.s}") else (r.s, s!"n={r.n} o={showOuts r.outs} {tail r.s}")
    | _, _ => (s, "bad-op")
  | ["sread", n] => match n.toNat? with
    | some n =>
      let r := s.read n
      if r.blocked then (r.s, s!"blocked {tail r.s}") else (r.s, s!"d={hexOrDash r.data} {tail r.s}")
    | none => (s, "bad-op")
  | ["sinput", h, now] => match bytesOfHex h, pu32 now with
    | some d, some now =>
      let r := s.packetInput d now
      if r.panic then (r.s, "panic") else (r.s, s!"o={showOuts r.outs} {tail r.s}")
    | _, _ => (s, "bad-op")
  | ["supdate", now] => match pu32 now with
    | some now =>
      let r := s.update now
      let s' := { s with k := r.k }
      if r.panic then (s', "panic") else (s', s!"r={n32 r.interval} o={showOuts r.outs} {tail s'}")
    | none => (s, "bad-op")
  | ["state"] => (s, queues s.k)
  | _ => (s, "bad-op")

def step (st : St) : List String → St × String
  | ["new", c] => match pu32 c with
    | some c => ({ a := Sess.new c, b := Sess.new c }, s!"ok {tail (Sess.new c)}")
    | none => (st, "bad-op")
  | "a" :: rest => let r := stepSess st.a rest; ({ st with a := r.1 }, r.2)
  | "b" :: rest => let r := stepSess st.b rest; ({ st with b := r.1 }, r.2)
  | _ => (st, "bad-op")

def main : IO Unit := runLoop ({} : St) step

end Driver.SessC
