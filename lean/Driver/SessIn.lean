import KcpVerif.Model.SessIn
import KcpVerif.Model.Crc32
import Driver.Util
/-!
driver components `sessin` (C06) and `listener` (C11): the receive gates of sess.go.

The cipher is supplied per op line by the harness (`dec`/`aopen` are constant functions returning
the bytes the real cipher produced); the length guards, the CRC (bitwise model of Model/Crc32),
the header parse and the listener's decision are computed by the model.  The core behind
`kcpInput` is opaque: σ = number of datagrams handed over.
-/
namespace Driver.SessInC
open KcpVerif KcpVerif.SessIn

def parseKind (s : String) : Option CipherKind :=
  match s.splitOn ":" with
  | ["nil"] => some .nil
  | ["block"] => some .block
  | ["aead", a, b] => match a.toNat?, b.toNat? with
    | some ns, some ov => some (.aead ns ov)
    | _, _ => none
  | _ => none

/-- aux field: decrypted bytes (block), `fail` or the opened plaintext (aead), `-` (nil) -/
def mkCipher (k : CipherKind) (aux : String) : Option Cipher :=
  match k with
  | .nil => some { kind := k, dec := id, crc := Crc32.crc32, aopen := fun _ _ => none }
  | .block => (bytesOfHex aux).map fun d => { kind := k, dec := fun _ => d, crc := Crc32.crc32, aopen := fun _ _ => none }
  | .aead _ _ =>
    if aux == "fail" then some { kind := k, dec := id, crc := Crc32.crc32, aopen := fun _ _ => none }
    else (bytesOfHex aux).map fun p => { kind := k, dec := id, crc := Crc32.crc32, aopen := fun _ _ => some p }

def hex8 (v : BitVec 32) : String :=
  String.ofList ((List.range 8).reverse.map fun i => hexDigit ((v.toNat >>> (4 * i)) % 16))

/-! ### sessin -/

def showSess (r : SessResult Nat) : String :=
  match r.delivered with
  | some p => s!"deliver {p.length}"
  | none =>
    if r.counters == [Counter.InCsumErrors] then "drop-crc"
    else if r.counters == [Counter.KCPInErrors] then "drop-min"
    else if r.counters == [] then "drop-short"
    else "bad-counters"

def stepS (k : CipherKind) : List String → CipherKind × String
  | ["cfg", _, kind, _] => match parseKind kind with
    | some k' => (k', "ok")
    | none => (k, "bad-op")
  | ["pinput", _, raw, aux] => match bytesOfHex raw, mkCipher k aux with
    | some d, some c => (k, showSess (sessionPacketInput c (fun (n : Nat) _ => n + 1) 0 d))
    | _, _ => (k, "bad-op")
  | ["crc", h] => match bytesOfHex h with
    | some d => (k, hex8 (Crc32.crc32 d))
    | none => (k, "bad-op")
  | _ => (k, "bad-op")

def mainS : IO Unit := runLoop CipherKind.nil stepS

/-! ### listener -/

structure St where
  kind : CipherKind
  l    : Listener Nat
  f    : Dial.Filter
  dead : Bool := false      -- `l.die` closed (after `lclose`)

def world : World Nat := { kcpInput := fun n _ => n + 1, init := fun _ => 0, closeFx := id }

def showTable (l : Listener Nat) : String :=
  let es := l.table.mergeSort (fun a b => !(b.1 < a.1))
  let one (e : String × Nat) : String :=
    match l.objs[e.2]? with
    | some o => s!"{e.1}/{o.conv.toNat}/{e.2}" ++ (if o.closed then "/closed" else "")
    | none => s!"{e.1}/?/{e.2}"
  (if es.isEmpty then "t=-" else "t=" ++ joinWith "," (es.map one)) ++ s!" q={l.accepts.length}"

def showDecision : Decision → String
  | .drop .csum => "drop csum"
  | .drop _ => "drop silent"
  | .route a id => s!"route {a} {id}"
  | .closedOnly a old => s!"closed {a} {old}"
  | .create a conv old id => s!"create {a} {conv.toNat} {id} closed=" ++ (match old with | some o => toString o | none => "-")

def strOrDash (s : String) : String := if s == "-" then "" else s

def parseAddr : List String → Option Dial.Addr
  | ["udp", ip, port, zone, str] => match bytesOfHex ip, port.toNat? with
    | some ipb, some p => some { udp := some (ipb, p, strOrDash zone), str := strOrDash str }
    | _, _ => none
  | ["other", str] => some { udp := none, str := strOrDash str }
  | _ => none

def stepL (s : St) : List String → St × String
  | ["lnew", kind] => match parseKind kind with
    | some k => ({ s with kind := k, l := Listener.empty, dead := false }, "ok")
    | none => (s, "bad-op")
  | ["lin", addr, raw, aux] => match bytesOfHex raw, mkCipher s.kind aux with
    | some d, some c =>
      let r := listenerInputD world c s.l s.dead d addr
      ({ s with l := r.l }, showDecision r.dec ++ " " ++ showTable r.l)
    | _, _ => (s, "bad-op")
  | ["accept"] =>
    let r := accept s.l
    match r.got with
    | none => (s, "accept none " ++ showTable s.l)
    | some id =>
      let d := match r.l.objs[id]? with
        | some o => s!"{o.addr}/{o.conv.toNat}/{id}" ++ (if o.closed then "/closed" else "")
        | none => "?"
      ({ s with l := r.l }, s!"accept {d} " ++ showTable r.l)
  | ["close", id] => match id.toNat? with
    | some i => let l' := userClose world s.l i; ({ s with l := l' }, "ok " ++ showTable l')
    | none => (s, "bad-op")
  | ["lclose"] =>
    let l' := listenerClose world s.l s.dead
    ({ s with l := l', dead := true }, "ok " ++ showTable l')
  | "dial" :: "nil" :: [] => ({ s with f := Dial.Filter.init none }, "ok")
  | "dial" :: rest => match parseAddr rest with
    | some a => ({ s with f := Dial.Filter.init (some a) }, "ok")
    | none => (s, "bad-op")
  | "dgram" :: rest => match parseAddr rest with
    | some a => let r := Dial.filter s.f a; ({ s with f := r.f }, if r.pass then "pass" else "filter")
    | none => (s, "bad-op")
  | _ => (s, "bad-op")

def mainL : IO Unit :=
  runLoop ({ kind := .nil, l := Listener.empty, f := Dial.Filter.init none } : St) stepL

end Driver.SessInC
