import KcpVerif.Model.Wait
import Driver.Util
/-!
driver component `wait` (C13): trace acceptance against the LTS of Model/Wait under maximal
progress.  The driver keeps the set of model configurations compatible with the events seen so
far (the LTS is deterministic up to the choice among simultaneously ready `select` cases and the
order of the callers).  Every line is answered `ok` (for `close`/`lclose`: the predicted result)
or `reject <why>`:

* `ret i t kind n` — the real caller `i` returned at virtual time `t` (`n` = bytes a `Read`
  delivered, else 0): some configuration must predict exactly that; the others are dropped;
* before any environment event and at `end`, configurations that predict a return which the
  real code did not show are dropped — none left = reject;
* `blocked i`     — the real caller is still blocked: configurations where it is not are dropped.

The variant of the loops (`Cfg`) is the one extracted from the source (`Wait.cfgOfSource`).
-/
namespace Driver.WaitC
open KcpVerif KcpVerif.Wait

structure DS where
  cfg : Cfg
  confs : List State
  dead : Bool

def dedup (ss : List State) : List State := ss.foldl insertNew []

def parseKind : String → Option Kind
  | "r" => some .read | "w" => some .write | "a" => some .accept | _ => none

def parseRet : String → Option Ret
  | "ok" => some .ok | "timeout" => some .timeout | "closed" => some .closed | "sockerr" => some .sockerr
  | _ => none

def showRet : Ret → String
  | .ok => "ok" | .timeout => "timeout" | .closed => "closed" | .sockerr => "sockerr"

def parseDl (s : String) : Option (Option Time) :=
  if s == "-" then some none else s.toNat?.map some

def showThread (t : Thread) : String :=
  match t.pc, t.ret with
  | .done, some r => s!"returned {showRet r}@{t.retAt} n={t.got}"
  | .sel, _ => "blocked"
  | .idle, _ => "idle"
  | _, _ => "running"

def describe (ss : List State) (i : Nat) : String :=
  joinWith "|" ((ss.filterMap fun s => (s.ths[i]?).map showThread).eraseDups)

def hasDone (s : State) : Bool := s.ths.any (fun t => t.pc == .done)

def firstDone (s : State) : String :=
  match s.ths.zipIdx.find? (fun p => p.1.pc == .done) with
  | some p => s!"caller {p.2} {showThread p.1}"
  | none => "?"

def reject (d : DS) (why : String) : DS × String := ({ d with confs := [], dead := true }, s!"reject {why}")

/-- drop configurations predicting a return that was not observed -/
def flushDone (d : DS) : DS × Option String :=
  let keep := d.confs.filter (fun s => !hasDone s)
  match keep, d.confs with
  | [], s :: _ => ({ d with confs := [], dead := true }, some s!"reject model predicts unobserved return: {firstDone s}")
  | _, _ => ({ d with confs := keep }, none)

/-- environment event: apply to every configuration, then settle under maximal progress -/
def envStep (d : DS) (l : Label) (out : State → String := fun _ => "ok") : DS × String :=
  match flushDone d with
  | (d', some why) => (d', why)
  | (d', none) =>
    match d'.confs with
    | [] => reject d' "no configuration"
    | s0 :: _ =>
      let nxt := d'.confs.filterMap (fun s => step d'.cfg s l)
      if nxt.isEmpty then reject d' "event not enabled in the model"
      else ({ d' with confs := dedup (settleAll d'.cfg nxt) }, out s0)

def stepLine (d : DS) (toks : List String) : DS × String :=
  match toks with
  | "case" :: _ :: async :: wnd :: infl :: kinds =>
    match wnd.toNat?, infl.toNat?, kinds.mapM parseKind with
    | some w, some f, some ks =>
      let cfg := cfgOfSource (async == "1")
      ({ cfg := cfg, confs := [init ks w f], dead := false }, "ok")
    | _, _, _ => (d, "bad-op")
  | _ =>
  if d.dead then (d, "reject dead") else
  match toks with
  | ["adv", t] =>
    match t.toNat? with
    | some t => ({ d with confs := dedup (d.confs.flatMap (advance d.cfg 64 t)) }, "ok")
    | none => (d, "bad-op")
  | ["ret", i, t, k, n] =>
    match i.toNat?, t.toNat?, parseRet k, n.toNat? with
    | some i, some t, some k, some n =>
      let keep := d.confs.filterMap fun s =>
        match s.ths[i]? with
        | some th =>
          if th.pc == .done && th.ret == some k && th.retAt == t && th.got == n then step d.cfg s (.collect i) else none
        | none => none
      if keep.isEmpty then reject d s!"caller {i} returned {showRet k}@{t} n={n}, model: {describe d.confs i}"
      else ({ d with confs := dedup keep }, "ok")
    | _, _, _, _ => (d, "bad-op")
  | ["blocked", i] =>
    match i.toNat? with
    | some i =>
      let keep := d.confs.filter fun s => match s.ths[i]? with | some th => th.pc == .sel | none => false
      if keep.isEmpty then reject d s!"caller {i} is blocked, model: {describe d.confs i}"
      else ({ d with confs := keep }, "ok")
    | none => (d, "bad-op")
  | ["end"] =>
    match flushDone d with
    | (d', some why) => (d', why)
    | (d', none) => (d', "ok")
  | ["call", i, b] => match i.toNat?, b.toNat? with
    | some i, some b => envStep d (.call i b)
    | _, _ => (d, "bad-op")
  | "arrive" :: ms => match ms.mapM (·.toNat?) with
    | some ms => envStep d (.arrive ms)
    | none => (d, "bad-op")
  | ["open", j] => match j.toNat? with | some j => envStep d (.opn j) | none => (d, "bad-op")
  | ["pump"] => envStep d .pump
  | ["setrd", x] => match parseDl x with | some v => envStep d (.setRD v) | none => (d, "bad-op")
  | ["setwd", x] => match parseDl x with | some v => envStep d (.setWD v) | none => (d, "bad-op")
  | ["setd", x] => match parseDl x with | some v => envStep d (.setD v) | none => (d, "bad-op")
  | ["setld", x] => match parseDl x with | some v => envStep d (.setLD v) | none => (d, "bad-op")
  | ["close"] => envStep d .close (fun s => showRet (closeResult s))
  | ["rerr"] => envStep d .sockRErr
  | ["werr"] => envStep d .sockWErr
  | ["conn"] => envStep d .conn
  | ["lclose"] => envStep d .lclose (fun s => showRet (lcloseResult s))
  | ["lerr"] => envStep d .lsockErr
  | _ => (d, "bad-op")

def main : IO Unit :=
  runLoop ({ cfg := cfgOfSource false, confs := [], dead := true } : DS) stepLine

end Driver.WaitC
