import KcpVerif.Model.Sched
import Driver.Util
/-!
driver component `sched` (C17): trace acceptance.  The op lines are the observable events of a
real `TimedSched` run in real time (ns offsets from a per-case origin):

* `case …`            a fresh scheduler (resets the acceptor)
* `put id ts at`      `Put(f_id, origin+ts)` was called at `origin+at`
* `exec id at`        `f_id` ran and read `time.Now() = origin+at`
* `end`               quiescence: every submitted task must have run

and lines exercising the model of the timer object alone against a real `time.Timer`
(`tm new|reset|stop|recv|sleep …`, differential: the printed result must equal the real one).
-/
namespace Driver.SchedC
open KcpVerif.Sched

structure St where
  obs : ObsState
  mode : Mode
  tm : Timer
  tnow : Nat      -- abstract clock of the timer sub-test (steps)

def init : St := { obs := ObsState.init, mode := .sync, tm := { armed := none, chan := none }, tnow := 0 }

def obsLine (s : St) (e : Obs) : St × String :=
  match obsStep s.obs e with
  | .ok o => ({ s with obs := o }, "ok")
  | .error why => (s, "reject " ++ why)

/-- in the timer sub-test every armed duration is one abstract unit and `sleep` advances the
    clock by two, so a timer armed before a `sleep` has fired after it, and one armed after the
    last `sleep` has not -/
def tmFireIfDue (s : St) : St :=
  match s.tm.armed with
  | some w => if w ≤ s.tnow then { s with tm := s.tm.fire w } else s
  | none => s

def step (s : St) : List String → St × String
  | "case" :: _ => ({ s with obs := ObsState.init }, "ok")
  | ["put", id, ts, t] =>
    match id.toNat?, ts.toNat?, t.toNat? with
    | some id, some ts, some t => obsLine s (.put id ts t)
    | _, _, _ => (s, "bad-op")
  | ["exec", id, t] =>
    match id.toNat?, t.toNat? with
    | some id, some t => obsLine s (.exec id t)
    | _, _ => (s, "bad-op")
  | ["end"] => obsLine s .fin
  | ["tm", "new", mode] =>
    let m := if mode == "async" then Mode.async else Mode.sync
    ({ s with mode := m, tnow := 0, tm := { armed := some 1, chan := none } }, "ok")
  | ["tm", "sleep"] =>
    let s1 := { s with tnow := s.tnow + 2 }
    (tmFireIfDue s1, "ok")
  | ["tm", "reset"] =>
    ({ s with tm := s.tm.reset s.mode (s.tnow + 1) }, "ok")
  | ["tm", "stop"] =>
    let r := s.tm.stop s.mode
    ({ s with tm := r.timer }, toString r.stopped)
  | ["tm", "recv"] =>
    match s.tm.chan with
    | some _ => ({ s with tm := s.tm.recv }, "value")
    | none => (s, "empty")
  | _ => (s, "bad-op")

def main : IO Unit := runLoop init step

end Driver.SchedC
