// rawOrderComparisons / pawsRangeChecks (C12): every binary < <= > >= one of whose operands is a uint32
// expression that mentions a sequence number or timestamp — found by name AND by uint32 type flow:
//
//	seed names  : fields, variables, parameters and uint32-valued functions called
//	              sn una ts snd_una snd_nxt rcv_nxt resendts ts_probe ts_flush seqid newestShardId
//	              next current latest seq shardId currentMs getShardId
//	type flow   : a uint32 local assigned (anywhere in the function) from an expression that mentions a
//	              tainted object becomes tainted (fixed point)
//	not tainted : anything inside the arguments of _itimediff(…) (its result is the wrap-safe signed
//	              difference), the result of %, operands whose type is not uint32
//
// A comparison against a field called `paws` is a range check against the wrap bound, not an order
// comparison between two sequence numbers; those go to pawsRangeChecks.
// Entries are "file:function:expression" (no line numbers, so that unrelated edits do not change them).
package main

import (
	"fmt"
	"go/ast"
	"go/token"
	"go/types"
	"sort"
	"strings"
)

func init() { tableGens = append(tableGens, genOrderTable) }

var seqNames = map[string]bool{
	"sn": true, "una": true, "ts": true, "snd_una": true, "snd_nxt": true, "rcv_nxt": true, "resendts": true,
	"ts_probe": true, "ts_flush": true, "seqid": true, "newestShardId": true, "next": true, "current": true,
	"latest": true, "seq": true, "shardId": true, "currentMs": true, "getShardId": true,
}

func isUint32(t types.Type) bool {
	if t == nil {
		return false
	}
	b, ok := t.Underlying().(*types.Basic)
	return ok && b.Kind() == types.Uint32
}

type orderScan struct {
	p       *pkgInfo
	tainted map[types.Object]bool
}

func (s *orderScan) isItimediff(c *ast.CallExpr) bool {
	id, ok := c.Fun.(*ast.Ident)
	return ok && id.Name == "_itimediff"
}

// mentions: does e mention a tainted object (outside _itimediff arguments and % results)?
func (s *orderScan) mentions(e ast.Expr) bool {
	found := false
	var visit func(n ast.Node) bool
	visit = func(n ast.Node) bool {
		if found {
			return false
		}
		switch x := n.(type) {
		case *ast.CallExpr:
			if s.isItimediff(x) {
				return false
			}
			// a uint32-valued function with a seed name
			var name string
			switch f := x.Fun.(type) {
			case *ast.Ident:
				name = f.Name
			case *ast.SelectorExpr:
				name = f.Sel.Name
			}
			if seqNames[name] && isUint32(s.p.info.TypeOf(x)) {
				found = true
				return false
			}
		case *ast.BinaryExpr:
			if x.Op == token.REM {
				return false // a residue is a position, not a sequence number
			}
		case *ast.FuncLit:
			return false
		case *ast.SelectorExpr:
			if sel := s.p.info.Selections[x]; sel != nil && sel.Kind() == types.FieldVal {
				if seqNames[x.Sel.Name] && isUint32(sel.Type()) {
					found = true
					return false
				}
			}
		case *ast.Ident:
			obj := s.p.info.Uses[x]
			if obj == nil {
				obj = s.p.info.Defs[x]
			}
			if v, ok := obj.(*types.Var); ok && !v.IsField() {
				if s.tainted[v] || (seqNames[v.Name()] && isUint32(v.Type())) {
					found = true
					return false
				}
			}
		}
		return true
	}
	ast.Inspect(e, visit)
	return found
}

// flow: uint32 locals assigned from tainted expressions
func (s *orderScan) flow(body ast.Node) {
	for changed := true; changed; {
		changed = false
		mark := func(lhs ast.Expr, rhs ast.Expr) {
			id, ok := lhs.(*ast.Ident)
			if !ok {
				return
			}
			obj := s.p.info.Defs[id]
			if obj == nil {
				obj = s.p.info.Uses[id]
			}
			v, ok := obj.(*types.Var)
			if !ok || v.IsField() || !isUint32(v.Type()) || s.tainted[v] {
				return
			}
			if s.mentions(rhs) {
				s.tainted[v] = true
				changed = true
			}
		}
		ast.Inspect(body, func(n ast.Node) bool {
			switch x := n.(type) {
			case *ast.AssignStmt:
				if len(x.Lhs) == len(x.Rhs) {
					for i := range x.Lhs {
						mark(x.Lhs[i], x.Rhs[i])
					}
				}
			case *ast.ValueSpec:
				if len(x.Names) == len(x.Values) {
					for i := range x.Names {
						mark(x.Names[i], x.Values[i])
					}
				}
			case *ast.RangeStmt:
				if x.Value != nil {
					mark(x.Value, x.X)
				}
			}
			return true
		})
	}
}

func mentionsPaws(e ast.Expr) bool {
	found := false
	ast.Inspect(e, func(n ast.Node) bool {
		if se, ok := n.(*ast.SelectorExpr); ok && se.Sel.Name == "paws" {
			found = true
		}
		if id, ok := n.(*ast.Ident); ok && id.Name == "paws" {
			found = true
		}
		return !found
	})
	return found
}

func genOrderTable(p *pkgInfo) string {
	var raw, paws []string
	if p.pkg != nil {
		for fi, f := range p.files {
			for _, d := range f.Decls {
				fd, ok := d.(*ast.FuncDecl)
				if !ok || fd.Body == nil {
					continue
				}
				name := fd.Name.Name
				if rn := recvTypeName(fd); rn != "" {
					name = rn + "." + name
				}
				s := &orderScan{p: p, tainted: map[types.Object]bool{}}
				func() {
					defer func() {
						if r := recover(); r != nil {
							raw = append(raw, fmt.Sprintf("%s:%s:unknown (scan failed: %v)", p.names[fi], name, r))
						}
					}()
					s.flow(fd.Body)
					ast.Inspect(fd.Body, func(n ast.Node) bool {
						if c, ok := n.(*ast.CallExpr); ok && s.isItimediff(c) {
							return false
						}
						be, ok := n.(*ast.BinaryExpr)
						if !ok {
							return true
						}
						switch be.Op {
						case token.LSS, token.LEQ, token.GTR, token.GEQ:
						default:
							return true
						}
						hit := false
						for _, op := range []ast.Expr{be.X, be.Y} {
							if isUint32(p.info.TypeOf(op)) && s.mentions(op) {
								hit = true
							}
						}
						if !hit {
							return true
						}
						entry := fmt.Sprintf("%s:%s:%s", p.names[fi], name, types.ExprString(be))
						if mentionsPaws(be.X) || mentionsPaws(be.Y) {
							paws = append(paws, entry)
						} else {
							raw = append(raw, entry)
						}
						return true
					})
				}()
			}
		}
	} else {
		raw = append(raw, "unknown: package did not type-check")
	}
	sort.Strings(raw)
	sort.Strings(paws)
	var sb strings.Builder
	sb.WriteString("/-- C12: order comparisons on sequence numbers / timestamps made without _itimediff (obligation: empty) -/\n")
	sb.WriteString("def rawOrderComparisons : List String := " + leanStrList(raw) + "\n")
	sb.WriteString("/-- C12: comparisons of a sequence number against the wrap bound `paws` (range checks, listed for review) -/\n")
	sb.WriteString("def pawsRangeChecks : List String := " + leanStrList(paws) + "\n")
	return sb.String()
}
