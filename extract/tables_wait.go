package main

// Structural facts of the blocking loops in sess.go (property C13, Model/Wait.lean).
// The Lean model has one switch per fact (Wait.Cfg); Wait.cfgOfSource reads them from here, so
// the C13 theorems are re-checked against the shape of the loops in the tree being checked:
//
//	waitReadRepoint / waitWriteRepoint  RESET_TIMER: the branch that Resets an existing timer also
//	                                    assigns `c = timeout.C`
//	waitReadRearm / waitWriteRearm      the `case <-s.chReadEvent` / `case <-s.chWriteEvent` body
//	                                    ends in an unconditional `goto RESET_TIMER`
//	waitReadDrains / waitWriteDrains    the same body stops the timer and drains timeout.C when Stop
//	                                    reports false (needed under asynctimerchan=1)
//	waitReadChain                       every successful return of Read is preceded, in its block,
//	                                    by a call that re-notifies readers when data is left, and
//	                                    nothing after that call changes s.bufptr or calls Recv
//	waitAcceptReloads                   AcceptKCP loads l.rd inside a loop (it does not: D8)

import (
	"fmt"
	"go/ast"
	"go/token"
	"strings"
)

func init() { tableGens = append(tableGens, waitFacts) }

func findMethod(p *pkgInfo, recv, name string) *ast.FuncDecl {
	for _, f := range p.files {
		for _, d := range f.Decls {
			fd, ok := d.(*ast.FuncDecl)
			if !ok || fd.Name.Name != name || fd.Recv == nil || len(fd.Recv.List) != 1 || fd.Body == nil {
				continue
			}
			t := fd.Recv.List[0].Type
			if st, ok := t.(*ast.StarExpr); ok {
				t = st.X
			}
			if id, ok := t.(*ast.Ident); ok && id.Name == recv {
				return fd
			}
		}
	}
	return nil
}

func isSel(e ast.Expr, x, sel string) bool {
	se, ok := e.(*ast.SelectorExpr)
	if !ok || se.Sel.Name != sel {
		return false
	}
	id, ok := se.X.(*ast.Ident)
	return ok && id.Name == x
}

// `c = timeout.C` directly in the statement list
func assignsC(list []ast.Stmt) bool {
	for _, st := range list {
		as, ok := st.(*ast.AssignStmt)
		if !ok || as.Tok != token.ASSIGN || len(as.Lhs) != 1 || len(as.Rhs) != 1 {
			continue
		}
		if id, ok := as.Lhs[0].(*ast.Ident); ok && id.Name == "c" && isSel(as.Rhs[0], "timeout", "C") {
			return true
		}
	}
	return false
}

func callsMethod(n ast.Node, name string) bool {
	found := false
	ast.Inspect(n, func(m ast.Node) bool {
		if ce, ok := m.(*ast.CallExpr); ok {
			if se, ok := ce.Fun.(*ast.SelectorExpr); ok && se.Sel.Name == name {
				found = true
			}
		}
		return !found
	})
	return found
}

// repoint: label RESET_TIMER -> if … { if timeout == nil {…} else { timeout.Reset(…); c = timeout.C } }
func factRepoint(fd *ast.FuncDecl) bool {
	if fd == nil {
		return false
	}
	ok := false
	ast.Inspect(fd.Body, func(n ast.Node) bool {
		ls, is := n.(*ast.LabeledStmt)
		if !is || ls.Label.Name != "RESET_TIMER" {
			return true
		}
		outer, is := ls.Stmt.(*ast.IfStmt)
		if !is {
			return false
		}
		for _, st := range outer.Body.List {
			inner, is := st.(*ast.IfStmt)
			if !is || inner.Else == nil {
				continue
			}
			eb, is := inner.Else.(*ast.BlockStmt)
			if is && callsMethod(eb, "Reset") && assignsC(eb.List) {
				ok = true
			}
		}
		// alternatively: `c = timeout.C` after the inner if, still inside the "deadline set" branch
		if assignsC(outer.Body.List) && callsMethod(outer.Body, "Reset") {
			ok = true
		}
		return false
	})
	return ok
}

// rearm: the comm clause receiving from s.<ch> has `goto RESET_TIMER` as a top-level statement
func factRearm(fd *ast.FuncDecl, ch string) bool {
	if fd == nil {
		return false
	}
	ok := false
	ast.Inspect(fd.Body, func(n ast.Node) bool {
		cc, is := n.(*ast.CommClause)
		if !is || cc.Comm == nil {
			return true
		}
		es, is := cc.Comm.(*ast.ExprStmt)
		if !is {
			return true
		}
		ue, is := es.X.(*ast.UnaryExpr)
		if !is || ue.Op != token.ARROW || !isSel(ue.X, "s", ch) {
			return true
		}
		for _, st := range cc.Body {
			if bs, is := st.(*ast.BranchStmt); is && bs.Tok == token.GOTO && bs.Label != nil && bs.Label.Name == "RESET_TIMER" {
				ok = true
			}
		}
		return true
	})
	return ok
}

// drains: the comm clause receiving from s.<ch> stops the timer and, when Stop reports false, takes a
// value that may sit in timeout.C (`if !timeout.Stop() { select { case <-timeout.C: default: } }`) —
// Model/Wait.lean `Thread.stopDrain` is the transcription of exactly this.
func factDrains(fd *ast.FuncDecl, ch string) bool {
	if fd == nil {
		return false
	}
	ok := false
	ast.Inspect(fd.Body, func(n ast.Node) bool {
		cc, is := n.(*ast.CommClause)
		if !is || cc.Comm == nil {
			return true
		}
		es, is := cc.Comm.(*ast.ExprStmt)
		if !is {
			return true
		}
		ue, is := es.X.(*ast.UnaryExpr)
		if !is || ue.Op != token.ARROW || !isSel(ue.X, "s", ch) {
			return true
		}
		for _, st := range cc.Body {
			ast.Inspect(st, func(m ast.Node) bool {
				is2, isIf := m.(*ast.IfStmt)
				if !isIf {
					return true
				}
				neg, isNeg := is2.Cond.(*ast.UnaryExpr)
				if !isNeg || neg.Op != token.NOT {
					return true
				}
				call, isCall := neg.X.(*ast.CallExpr)
				if !isCall || !isSel(call.Fun, "timeout", "Stop") {
					return true
				}
				// the body must receive from timeout.C
				ast.Inspect(is2.Body, func(k ast.Node) bool {
					if u, isU := k.(*ast.UnaryExpr); isU && u.Op == token.ARROW && isSel(u.X, "timeout", "C") {
						ok = true
					}
					return true
				})
				return true
			})
		}
		return true
	})
	return ok
}

// chain: every block of Read that contains a successful return (`return x, nil`) also calls, before it,
// a method that (transitively one level) calls notifyReadEvent.
func factChain(p *pkgInfo, fd *ast.FuncDecl) bool {
	if fd == nil {
		return false
	}
	notifies := func(st ast.Stmt) bool {
		es, ok := st.(*ast.ExprStmt)
		if !ok {
			return false
		}
		ce, ok := es.X.(*ast.CallExpr)
		if !ok {
			return false
		}
		se, ok := ce.Fun.(*ast.SelectorExpr)
		if !ok {
			return false
		}
		if se.Sel.Name == "notifyReadEvent" {
			return true
		}
		if m := findMethod(p, "UDPSession", se.Sel.Name); m != nil && callsMethod(m.Body, "notifyReadEvent") {
			return true
		}
		return false
	}
	returns, covered := 0, 0
	ast.Inspect(fd.Body, func(n ast.Node) bool {
		bl, ok := n.(*ast.BlockStmt)
		if !ok {
			return true
		}
		seen := false
		for _, st := range bl.List {
			if notifies(st) {
				seen = true
			}
			// an `if more { s.notifyReadEvent() }` also counts
			if is, ok := st.(*ast.IfStmt); ok && callsMethod(is.Body, "notifyReadEvent") {
				seen = true
			}
			// the notification must see the final state: anything that still changes what is
			// readable (s.bufptr = …, s.kcp.Recv(…)) after it cancels it
			if as, ok := st.(*ast.AssignStmt); ok {
				for _, l := range as.Lhs {
					if isSel(l, "s", "bufptr") {
						seen = false
					}
				}
			}
			if es, ok := st.(*ast.ExprStmt); ok && callsMethod(es, "Recv") {
				seen = false
			}
			rs, ok := st.(*ast.ReturnStmt)
			if !ok || len(rs.Results) != 2 {
				continue
			}
			if id, ok := rs.Results[1].(*ast.Ident); ok && id.Name == "nil" {
				returns++
				if seen {
					covered++
				}
			}
		}
		return true
	})
	return returns > 0 && covered == returns
}

// AcceptKCP loads l.rd inside a for loop
func factAcceptReloads(fd *ast.FuncDecl) bool {
	if fd == nil {
		return false
	}
	ok := false
	ast.Inspect(fd.Body, func(n ast.Node) bool {
		fs, is := n.(*ast.ForStmt)
		if is && callsMethod(fs.Body, "Load") {
			ok = true
		}
		return true
	})
	return ok
}

func waitFacts(p *pkgInfo) string {
	rd := findMethod(p, "UDPSession", "Read")
	wr := findMethod(p, "UDPSession", "WriteBuffers")
	ac := findMethod(p, "Listener", "AcceptKCP")
	var sb strings.Builder
	sb.WriteString("-- structural facts of the blocking loops in sess.go (extract/tables_wait.go)\n")
	b := func(name string, v bool) { fmt.Fprintf(&sb, "def %s : Bool := %v\n", name, v) }
	b("waitReadRepoint", factRepoint(rd))
	b("waitWriteRepoint", factRepoint(wr))
	b("waitReadRearm", factRearm(rd, "chReadEvent"))
	b("waitWriteRearm", factRearm(wr, "chWriteEvent"))
	b("waitReadDrains", factDrains(rd, "chReadEvent"))
	b("waitWriteDrains", factDrains(wr, "chWriteEvent"))
	b("waitReadChain", factChain(p, rd))
	b("waitAcceptReloads", factAcceptReloads(ac))
	return sb.String()
}
