// gateOrder (C06): for UDPSession.packetInput and Listener.packetInput, per cipher-kind branch of the
// type switch on the block cipher (nil / aead / default), the ordered effect kinds from function entry
// up to and including the first statement that can touch session, decoder or listener state.
//
// Effect tokens:
//
//	lenCheck            if len(…) < … { …return }            (followed by its reject.* tokens)
//	open                … := block.Open(…)                    AEAD authenticated decryption
//	openErrCheck        if err != nil { …return }
//	decrypt             block.Decrypt(…)
//	crcCompute          … := crc32.ChecksumIEEE(…)
//	crcCompare          if checksum != … { …return }
//	reject.counter:<N>  atomic.AddUint64(&DefaultSnmp.<N>, …) inside a rejecting branch
//	reject.return       the return of a rejecting branch
//	counter:<N>         the same counter outside a rejecting branch
//	local               assignment / declaration that only involves locals, parameters and the cipher
//	kcpInput / sessionLookup / newSession / stateTouch:<what>   first state-touching statement (the list ends here)
//	unknown:<stmt>      anything else (explicit, never dropped)
package main

import (
	"fmt"
	"go/ast"
	"go/token"
	"go/types"
	"strings"
)

func init() { tableGens = append(tableGens, genGateOrder) }

type gateScan struct {
	p    *pkgInfo
	recv string // receiver identifier name
}

func (g *gateScan) counterName(c *ast.CallExpr) (string, bool) {
	se, ok := c.Fun.(*ast.SelectorExpr)
	if !ok {
		return "", false
	}
	id, ok := se.X.(*ast.Ident)
	if !ok || id.Name != "atomic" || !strings.HasPrefix(se.Sel.Name, "Add") || len(c.Args) < 1 {
		return "", false
	}
	u, ok := c.Args[0].(*ast.UnaryExpr)
	if !ok || u.Op != token.AND {
		return "", false
	}
	f, ok := u.X.(*ast.SelectorExpr)
	if !ok {
		return "", false
	}
	if b, ok := f.X.(*ast.Ident); ok && b.Name == "DefaultSnmp" {
		return f.Sel.Name, true
	}
	return "", false
}

// touches: the first use of the receiver other than its `block` field, as a description; "" if none
func (g *gateScan) touches(n ast.Node) string {
	res := ""
	ast.Inspect(n, func(m ast.Node) bool {
		if res != "" {
			return false
		}
		switch x := m.(type) {
		case *ast.CallExpr:
			if id, ok := x.Fun.(*ast.Ident); ok && id.Name == "newUDPSession" {
				res = "newSession"
				return false
			}
		case *ast.SelectorExpr:
			if id, ok := x.X.(*ast.Ident); ok && id.Name == g.recv {
				switch x.Sel.Name {
				case "block":
					return false
				case "kcpInput":
					res = "kcpInput"
				case "sessions", "sessionLock":
					res = "sessionLookup"
				default:
					res = "stateTouch:" + x.Sel.Name
				}
				return false
			}
		}
		return true
	})
	return res
}

func callName(e ast.Expr) string {
	c, ok := e.(*ast.CallExpr)
	if !ok {
		return ""
	}
	switch f := c.Fun.(type) {
	case *ast.SelectorExpr:
		if id, ok := f.X.(*ast.Ident); ok {
			return id.Name + "." + f.Sel.Name
		}
		return "." + f.Sel.Name
	case *ast.Ident:
		return f.Name
	}
	return ""
}

func endsInReturn(b *ast.BlockStmt) bool {
	if b == nil || len(b.List) == 0 {
		return false
	}
	_, ok := b.List[len(b.List)-1].(*ast.ReturnStmt)
	return ok
}

func mentionsLen(e ast.Expr) bool {
	found := false
	ast.Inspect(e, func(n ast.Node) bool {
		if c, ok := n.(*ast.CallExpr); ok {
			if id, ok := c.Fun.(*ast.Ident); ok && id.Name == "len" {
				found = true
			}
		}
		return !found
	})
	return found
}

// effects of a statement list; stop=true once a state-touching statement was emitted
func (g *gateScan) effects(list []ast.Stmt, out *[]string) (stop bool) {
	short := func(n ast.Node) string {
		s := ""
		switch x := n.(type) {
		case ast.Expr:
			s = types.ExprString(x)
		default:
			s = fmt.Sprintf("%T", n)
		}
		if len(s) > 60 {
			s = s[:60]
		}
		return s
	}
	for _, st := range list {
		if t := g.touches(st); t != "" {
			*out = append(*out, t)
			return true
		}
		switch x := st.(type) {
		case *ast.IfStmt:
			if x.Init != nil {
				if g.effects([]ast.Stmt{x.Init}, out) {
					return true
				}
			}
			if x.Else == nil && endsInReturn(x.Body) {
				cond := types.ExprString(x.Cond)
				switch {
				case mentionsLen(x.Cond):
					*out = append(*out, "lenCheck")
				case strings.Contains(cond, "err != nil"):
					*out = append(*out, "openErrCheck")
				case strings.Contains(cond, "checksum"):
					*out = append(*out, "crcCompare")
				default:
					*out = append(*out, "unknown:if "+short(x.Cond))
				}
				for _, b := range x.Body.List {
					switch y := b.(type) {
					case *ast.ReturnStmt:
						*out = append(*out, "reject.return")
					case *ast.ExprStmt:
						if c, ok := y.X.(*ast.CallExpr); ok {
							if n, ok := g.counterName(c); ok {
								*out = append(*out, "reject.counter:"+n)
								continue
							}
						}
						*out = append(*out, "unknown:reject "+short(y.X))
					default:
						*out = append(*out, "unknown:reject "+short(b))
					}
				}
				continue
			}
			*out = append(*out, "unknown:if "+short(x.Cond))
		case *ast.AssignStmt:
			tok := "local"
			for _, r := range x.Rhs {
				switch n := callName(r); {
				case strings.HasSuffix(n, ".Open"):
					tok = "open"
				case strings.HasSuffix(n, ".Decrypt"):
					tok = "decrypt"
				case n == "crc32.ChecksumIEEE":
					tok = "crcCompute"
				}
			}
			*out = append(*out, tok)
		case *ast.ExprStmt:
			n := callName(x.X)
			switch {
			case strings.HasSuffix(n, ".Decrypt"):
				*out = append(*out, "decrypt")
			case strings.HasSuffix(n, ".Open"):
				*out = append(*out, "open")
			default:
				if c, ok := x.X.(*ast.CallExpr); ok {
					if cn, ok := g.counterName(c); ok {
						*out = append(*out, "counter:"+cn)
						continue
					}
				}
				*out = append(*out, "unknown:"+short(x.X))
			}
		case *ast.DeclStmt:
			*out = append(*out, "local")
		case *ast.ReturnStmt:
			*out = append(*out, "return")
			return true
		default:
			*out = append(*out, "unknown:"+short(st))
		}
	}
	return false
}

func genGateOrder(p *pkgInfo) string {
	type branch struct {
		fn, br string
		eff    []string
	}
	var rows []branch
	for _, want := range []string{"Listener.packetInput", "UDPSession.packetInput"} {
		found := false
		for _, f := range p.files {
			for _, d := range f.Decls {
				fd, ok := d.(*ast.FuncDecl)
				if !ok || fd.Body == nil {
					continue
				}
				name := fd.Name.Name
				if rn := recvTypeName(fd); rn != "" {
					name = rn + "." + name
				}
				if name != want {
					continue
				}
				found = true
				g := &gateScan{p: p}
				if fd.Recv != nil && len(fd.Recv.List) > 0 && len(fd.Recv.List[0].Names) > 0 {
					g.recv = fd.Recv.List[0].Names[0].Name
				}
				func() {
					defer func() {
						if r := recover(); r != nil {
							rows = append(rows, branch{want, "unknown", []string{fmt.Sprintf("unknown:scan failed: %v", r)}})
						}
					}()
					// prefix before the type switch, the switch, the rest
					var pre []string
					swIdx := -1
					var sw *ast.TypeSwitchStmt
					for i, st := range fd.Body.List {
						if ts, ok := st.(*ast.TypeSwitchStmt); ok {
							sw, swIdx = ts, i
							break
						}
					}
					if sw == nil {
						var eff []string
						g.effects(fd.Body.List, &eff)
						rows = append(rows, branch{want, "unknown:no type switch on the cipher", eff})
						return
					}
					stopped := g.effects(fd.Body.List[:swIdx], &pre)
					for _, cl := range sw.Body.List {
						cc := cl.(*ast.CaseClause)
						br := "default"
						if cc.List != nil {
							var ns []string
							for _, e := range cc.List {
								s := types.ExprString(e)
								switch {
								case s == "nil":
									ns = append(ns, "nil")
								case strings.Contains(s, "aeadCrypt"):
									ns = append(ns, "aead")
								default:
									ns = append(ns, "unknown:"+s)
								}
							}
							br = strings.Join(ns, ",")
						}
						eff := append([]string{}, pre...)
						if !stopped {
							if !g.effects(cc.Body, &eff) {
								g.effects(fd.Body.List[swIdx+1:], &eff)
							}
						}
						rows = append(rows, branch{want, br, eff})
					}
				}()
			}
		}
		if !found {
			rows = append(rows, branch{want, "unknown", []string{"unknown:function not found"}})
		}
	}
	var sb strings.Builder
	sb.WriteString("/-- C06: ordered effect kinds of one cipher branch of a packetInput, up to the first state-touching statement -/\n")
	sb.WriteString("structure GateBranch where\n  fn : String\n  branch : String\n  effects : List String\n\n")
	sb.WriteString("def gateOrder : List GateBranch := [\n")
	for i, r := range rows {
		sep := ","
		if i == len(rows)-1 {
			sep = ""
		}
		fmt.Fprintf(&sb, "  ⟨%s, %s, %s⟩%s\n", leanStr(r.fn), leanStr(r.br), leanStrList(r.eff), sep)
	}
	sb.WriteString("]\n")
	return sb.String()
}
