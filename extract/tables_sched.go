package main

// tables_sched.go: source facts for C17.  The labelled transition system Model/Sched.lean is a
// hand transcription of timedsched.go, statement by statement.  To notice when the code moves
// away from what was transcribed, every function declared in timedsched.go is emitted in
// canonical form (go/printer, comments dropped) as `KcpVerif.Gen.timedschedSrc : List String`;
// Props/C17.lean proves it equal to the text the model was validated against, so ANY edit of
// these functions breaks that theorem until the model has been re-validated.

import (
	"bytes"
	"fmt"
	"go/ast"
	"go/printer"
	"strings"
)

func init() { tableGens = append(tableGens, schedSource) }

func leanString(s string) string {
	var sb strings.Builder
	sb.WriteByte('"')
	for _, r := range s {
		switch r {
		case '"':
			sb.WriteString(`\"`)
		case '\\':
			sb.WriteString(`\\`)
		case '\t':
			sb.WriteString("  ")
		default:
			sb.WriteRune(r)
		}
	}
	sb.WriteByte('"')
	return sb.String()
}

func schedSource(p *pkgInfo) string {
	var lines []string
	for i, f := range p.files {
		if p.names[i] != "timedsched.go" {
			continue
		}
		for _, d := range f.Decls {
			fd, ok := d.(*ast.FuncDecl)
			if !ok {
				continue
			}
			cp := *fd
			cp.Doc = nil
			var buf bytes.Buffer
			cfg := printer.Config{Mode: printer.UseSpaces | printer.TabIndent, Tabwidth: 8}
			if err := cfg.Fprint(&buf, p.fset, &cp); err != nil {
				fatal(err)
			}
			for _, l := range strings.Split(buf.String(), "\n") {
				if strings.TrimSpace(l) != "" {
					lines = append(lines, l)
				}
			}
		}
	}
	var sb strings.Builder
	sb.WriteString("/-- every function of timedsched.go, canonical form, comments dropped (C17 source pin) -/\n")
	sb.WriteString("def timedschedSrc : List String := [\n")
	for i, l := range lines {
		sep := ","
		if i == len(lines)-1 {
			sep = ""
		}
		fmt.Fprintf(&sb, "  %s%s\n", leanString(l), sep)
	}
	sb.WriteString("]\n")
	return sb.String()
}
