// poolSites (C15): every defaultBufferPool.Get / Put call site with its enclosing function.
// idx is the ordinal of that operation inside the function (source order); expr is, for Put, the
// argument, for Get, the expression the call is embedded in (usually the reslice).  No line numbers.
package main

import (
	"fmt"
	"go/ast"
	"go/types"
	"sort"
	"strings"
)

func init() { tableGens = append(tableGens, genPoolSites) }

type poolSite struct {
	fn, op, expr string
	idx          int
}

func genPoolSites(p *pkgInfo) string {
	var sites []poolSite
	for _, f := range p.files {
		for _, d := range f.Decls {
			fd, ok := d.(*ast.FuncDecl)
			if !ok || fd.Body == nil {
				continue
			}
			name := fd.Name.Name
			if rn := recvTypeName(fd); rn != "" {
				name = rn + "." + name
			}
			counts := map[string]int{}
			// parent map for the embedding expression of Get
			var stack []ast.Node
			ast.Inspect(fd.Body, func(n ast.Node) bool {
				if n == nil {
					stack = stack[:len(stack)-1]
					return true
				}
				stack = append(stack, n)
				c, ok := n.(*ast.CallExpr)
				if !ok {
					return true
				}
				se, ok := c.Fun.(*ast.SelectorExpr)
				if !ok {
					return true
				}
				id, ok := se.X.(*ast.Ident)
				if !ok || id.Name != "defaultBufferPool" || (se.Sel.Name != "Get" && se.Sel.Name != "Put") {
					return true
				}
				op := se.Sel.Name
				expr := ""
				if op == "Put" && len(c.Args) == 1 {
					expr = types.ExprString(c.Args[0])
				} else if len(stack) >= 2 {
					if pe, ok := stack[len(stack)-2].(ast.Expr); ok {
						expr = types.ExprString(pe)
					} else {
						expr = types.ExprString(c)
					}
				}
				sites = append(sites, poolSite{fn: name, op: op, expr: expr, idx: counts[op]})
				counts[op]++
				return true
			})
		}
	}
	sort.Slice(sites, func(i, j int) bool {
		a, b := sites[i], sites[j]
		if a.fn != b.fn {
			return a.fn < b.fn
		}
		if a.op != b.op {
			return a.op < b.op
		}
		return a.idx < b.idx
	})
	var sb strings.Builder
	sb.WriteString("/-- C15: a call site of defaultBufferPool.Get / Put -/\n")
	sb.WriteString("structure PoolSite where\n  fn : String\n  op : String\n  idx : Nat\n  expr : String\n\n")
	sb.WriteString("def poolSites : List PoolSite := [\n")
	for i, s := range sites {
		sep := ","
		if i == len(sites)-1 {
			sep = ""
		}
		fmt.Fprintf(&sb, "  ⟨%s, %s, %d, %s⟩%s\n", leanStr(s.fn), leanStr(s.op), s.idx, leanStr(s.expr), sep)
	}
	sb.WriteString("]\n")
	return sb.String()
}
