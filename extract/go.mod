module verif/extract

go 1.24.0
