// accessTable (C14): for every function of package kcp (default build, non-test) the accesses to
// shared location classes, the mutexes lexically held, the publication phase and the thread root.
//
// What is computed (all of it lexical / type based — see notes/C14.md for what that cannot see):
//
//   - class of an access  = "<StructType>.<field>" of the selected field ("kcp.<field>" for type KCP),
//     "global.<name>" for package-level variables.  Accesses whose base is a local variable of struct
//     VALUE type are thread-local and skipped.
//   - kind: read / write (assignment, inc/dec, element or map write through the field, delete/clear/
//     copy-destination/append-to-self, reference passed to a callee that may write), plain / atomic
//     (sync/atomic functions on &field, methods of atomic.* typed fields).  Fields of sync types
//     (Mutex, RWMutex, Once, Pool, WaitGroup) and channel operations are synchronisation, not accesses.
//   - lockset: x.Lock()/Unlock()/RLock()/RUnlock() tracked per block with joins at branches,
//     `defer x.Unlock()` = held to the end; the entry lockset of a function is the intersection of the
//     locksets at its in-scope call sites (fixed point over the intra-package call graph, including
//     interface dispatch by class hierarchy, methods reached through interface arguments of external
//     calls (container/heap, io.ReadFull), range-over-func, and function values flowing through
//     func-typed fields / parameters / local variables).
//   - prepub: the access is made through a freshly allocated local object before the function's first
//     `go` statement / before the object escapes, or in a function all of whose call sites are such.
//   - thread: 0 = may run on many goroutines; k>0 = only on the k-th unique goroutine root
//     (a method started by exactly one `go` statement, outside a loop, on a freshly allocated receiver).
//   - scope: reachable from a supported root (exported methods of UDPSession / Listener, exported
//     constructors returning sessions, listeners or ciphers, goroutines they start, package init);
//     deprecated = reachable only from methods whose doc comment says "deprecated".
package main

import (
	"encoding/json"
	"fmt"
	"go/ast"
	"go/token"
	"go/types"
	"os"
	"path/filepath"
	"sort"
	"strings"
)

func init() { tableGens = append(tableGens, genAccessTableSafe) }

const accessRowDecl = "structure AccessRow where\n  fn : String\n  cls : Nat\n  write : Bool\n  atomic : Bool\n  locks : List Nat\n  rlocks : List Nat\n  prepub : Bool\n  deprecated : Bool\n  inScope : Bool\n  thread : Nat\n\n"

// genAccessTableSafe: a failure of the analysis must not take the whole extractor down; it becomes an
// explicit unknown row (which fails the obligation C14_no_unknown) next to an empty table.
func genAccessTableSafe(p *pkgInfo) (out string) {
	defer func() {
		if r := recover(); r != nil {
			out = accessRowDecl +
				"def accessClassNames : List String := []\ndef accessMutexNames : List String := []\ndef accessThreadNames : List String := [\"multi\"]\n" +
				"def accessByClass : List (List AccessRow) := []\ndef accessTable : List AccessRow := accessByClass.flatten\n" +
				"def accessUnknown : List String := " + leanStrList([]string{fmt.Sprintf("access table analysis failed: %v", r)}) + "\n" +
				"def accessAssumed : List String := []\ndef accessUserCallbacks : List String := []\n"
		}
	}()
	return genAccessTable(p)
}

type lockEff struct {
	heldX, heldS map[string]bool // acquired locally (exclusive / shared)
	relX, relS   map[string]bool // entry locks released locally
}

func newEff() *lockEff {
	return &lockEff{map[string]bool{}, map[string]bool{}, map[string]bool{}, map[string]bool{}}
}
func cloneSet(m map[string]bool) map[string]bool {
	r := make(map[string]bool, len(m))
	for k := range m {
		r[k] = true
	}
	return r
}
func (e *lockEff) clone() *lockEff {
	return &lockEff{cloneSet(e.heldX), cloneSet(e.heldS), cloneSet(e.relX), cloneSet(e.relS)}
}
func setEq(a, b map[string]bool) bool {
	if len(a) != len(b) {
		return false
	}
	for k := range a {
		if !b[k] {
			return false
		}
	}
	return true
}
func (e *lockEff) eq(o *lockEff) bool {
	return setEq(e.heldX, o.heldX) && setEq(e.heldS, o.heldS) && setEq(e.relX, o.relX) && setEq(e.relS, o.relS)
}
func interSet(a, b map[string]bool) map[string]bool {
	r := map[string]bool{}
	for k := range a {
		if b[k] {
			r[k] = true
		}
	}
	return r
}
func unionSet(a, b map[string]bool) map[string]bool {
	r := cloneSet(a)
	for k := range b {
		r[k] = true
	}
	return r
}
func joinEff(a, b *lockEff) *lockEff {
	if a == nil {
		return b
	}
	if b == nil {
		return a
	}
	return &lockEff{interSet(a.heldX, b.heldX), interSet(a.heldS, b.heldS), unionSet(a.relX, b.relX), unionSet(a.relS, b.relS)}
}

type accSite struct {
	cls     string
	write   bool
	atomic  bool
	eff     *lockEff
	fresh   bool // made through a still-unpublished local object
	global  bool // base is a package-level variable
	pos     token.Pos
	assumed string
}

type callSite struct {
	callees []*fnNode
	eff     *lockEff
	fresh   bool
	isGo    bool
	inLoop  bool
	goFresh bool // go statement whose receiver was allocated in this function
	pos     token.Pos
}

type fnNode struct {
	name       string
	obj        *types.Func
	body       *ast.BlockStmt
	exprs      []ast.Expr // pseudo function for package-level initialisers
	recv       string
	exported   bool
	deprecated bool
	isLit      bool
	parent     *fnNode
	sig        *types.Signature
	file       string
	acc        []accSite
	calls      []*callSite
	// summaries
	isRoot    bool
	rootKind  string // api | dep | out | init | go | cb
	reachIn   bool
	reachDep  bool
	reachOut  bool
	entryX    map[string]bool // nil = top
	entryS    map[string]bool
	entryTop  bool
	prepubAll bool
	initOnly  bool
	threads   map[string]bool
	numLits   int
}

type accessAnalysis struct {
	p        *pkgInfo
	fns      []*fnNode
	byObj    map[*types.Func]*fnNode
	byLit    map[*ast.FuncLit]*fnNode
	fieldCls map[*types.Var]string
	named    []*types.Named
	unknown  []string
	assumed  []string
	// function value flow
	flow       map[string][]string  // slot -> source slots
	flowVal    map[string][]*fnNode // slot -> function values
	dynCalls   []*dynCall
	goTargets  map[*fnNode][]*callSite
	unresolved []string
}

type dynCall struct {
	site *callSite
	slot string
	desc string
	fn   *fnNode
}

func (a *accessAnalysis) posStr(pos token.Pos) string {
	ps := a.p.fset.Position(pos)
	return fmt.Sprintf("%s:%d", filepath.Base(ps.Filename), ps.Line)
}

func (a *accessAnalysis) unk(fn *fnNode, what string) {
	n := "?"
	if fn != nil {
		n = fn.name
	}
	a.unknown = append(a.unknown, n+": "+what)
}

func typeNameOf(t types.Type) string {
	for {
		switch x := t.(type) {
		case *types.Pointer:
			t = x.Elem()
			continue
		case *types.Named:
			return x.Obj().Name()
		case *types.Alias:
			t = types.Unalias(x)
			continue
		}
		return ""
	}
}

func clsOwner(n string) string {
	if n == "KCP" {
		return "kcp"
	}
	return n
}

func isDeprecated(doc *ast.CommentGroup) bool {
	return doc != nil && strings.Contains(strings.ToLower(doc.Text()), "deprecated")
}

// ---------------------------------------------------------------------------------------------
// type predicates

func pkgPathOfNamed(t types.Type) (string, string) {
	for {
		switch x := t.(type) {
		case *types.Pointer:
			t = x.Elem()
			continue
		case *types.Alias:
			t = types.Unalias(x)
			continue
		case *types.Named:
			if x.Obj().Pkg() == nil {
				return "", x.Obj().Name()
			}
			return x.Obj().Pkg().Path(), x.Obj().Name()
		}
		return "", ""
	}
}

func isSyncType(t types.Type) bool {
	pp, _ := pkgPathOfNamed(t)
	return pp == "sync"
}
func isAtomicType(t types.Type) bool {
	pp, _ := pkgPathOfNamed(t)
	return pp == "sync/atomic"
}
func isRefLike(t types.Type) bool {
	if t == nil {
		return false
	}
	switch t.Underlying().(type) {
	case *types.Slice, *types.Map, *types.Array:
		return true
	}
	return false
}
func isFuncType(t types.Type) bool {
	if t == nil {
		return false
	}
	_, ok := t.Underlying().(*types.Signature)
	return ok
}

// ---------------------------------------------------------------------------------------------
// walker: one per function body

type walker struct {
	a             *accessAnalysis
	fn            *fnNode
	eff           *lockEff
	fresh         map[types.Object]bool // currently unpublished freshly allocated locals
	everFresh     map[types.Object]bool
	pendingEscape []types.Object
	loopDepth     int
	ctxStack      []*ctxFrame     // enclosing loops / switches / selects
	deferred      map[string]bool // mutexes with a deferred Unlock / RUnlock
	litDepth      int             // inside an inlined function literal
	mapAlias      map[types.Object]string // local variable := shared map field: uses of the local are accesses to that class
}

type ctxFrame struct {
	entry  *lockEff
	brk    *lockEff // join of the lock states at unlabeled breaks
	isLoop bool
}

func (w *walker) info() *types.Info { return w.a.p.info }

// noteMapAlias: `local := x.field` / `local = x.field` where the field is a tracked shared map
func (w *walker) noteMapAlias(obj types.Object, rhs ast.Expr) {
	if w.mapAlias == nil {
		w.mapAlias = map[types.Object]string{}
	}
	delete(w.mapAlias, obj)
	for {
		if p, ok := rhs.(*ast.ParenExpr); ok {
			rhs = p.X
			continue
		}
		break
	}
	se, ok := rhs.(*ast.SelectorExpr)
	if !ok {
		return
	}
	cls, ft, ok := w.classOfSel(se)
	if !ok || ft == nil || w.localValueBase(se.X) {
		return
	}
	if _, isMap := ft.Underlying().(*types.Map); isMap {
		w.mapAlias[obj] = cls
	}
}

func (w *walker) rootIdent(e ast.Expr) *ast.Ident {
	for {
		switch x := e.(type) {
		case *ast.Ident:
			return x
		case *ast.SelectorExpr:
			e = x.X
		case *ast.IndexExpr:
			e = x.X
		case *ast.SliceExpr:
			e = x.X
		case *ast.StarExpr:
			e = x.X
		case *ast.ParenExpr:
			e = x.X
		case *ast.UnaryExpr:
			e = x.X
		case *ast.TypeAssertExpr:
			e = x.X
		case *ast.CallExpr:
			return nil
		default:
			return nil
		}
	}
}

func (w *walker) isFreshBase(e ast.Expr) bool {
	id := w.rootIdent(e)
	if id == nil {
		return false
	}
	obj := w.info().Uses[id]
	if obj == nil {
		obj = w.info().Defs[id]
	}
	return obj != nil && w.fresh[obj]
}

func (w *walker) isGlobalBase(e ast.Expr) bool {
	id := w.rootIdent(e)
	if id == nil {
		return false
	}
	obj := w.info().Uses[id]
	v, ok := obj.(*types.Var)
	return ok && v.Parent() == w.a.p.pkg.Scope()
}

func (w *walker) record(cls string, write, atomic bool, base ast.Expr, pos token.Pos, assumed string) {
	w.fn.acc = append(w.fn.acc, accSite{cls: cls, write: write, atomic: atomic, eff: w.eff.clone(),
		fresh: w.isFreshBase(base), global: w.isGlobalBase(base), pos: pos, assumed: assumed})
}

const (
	mRead = iota
	mWrite
	mAtomicR
	mAtomicW
)

// classOfField returns the class of a field selection, "" if it is not a tracked field.
func (w *walker) classOfSel(se *ast.SelectorExpr) (cls string, fieldType types.Type, ok bool) {
	sel := w.info().Selections[se]
	if sel == nil || sel.Kind() != types.FieldVal {
		return "", nil, false
	}
	v, _ := sel.Obj().(*types.Var)
	if v == nil {
		return "", nil, false
	}
	c, found := w.a.fieldCls[v.Origin()]
	if !found {
		if v.Pkg() != w.a.p.pkg {
			return "", v.Type(), false // field of an external struct
		}
		c = "?." + v.Name()
	}
	return c, v.Type(), true
}

// localValueBase: X.f where X is a local variable (param, result, local) of struct value type
func (w *walker) localValueBase(x ast.Expr) bool {
	for {
		p, ok := x.(*ast.ParenExpr)
		if !ok {
			break
		}
		x = p.X
	}
	switch b := x.(type) {
	case *ast.Ident:
		obj := w.info().Uses[b]
		if obj == nil {
			obj = w.info().Defs[b]
		}
		v, ok := obj.(*types.Var)
		if !ok || v.Parent() == w.a.p.pkg.Scope() {
			return false
		}
		_, isStruct := v.Type().Underlying().(*types.Struct)
		return isStruct
	case *ast.SelectorExpr:
		// chain of value-struct fields below a local value: seg.hdr.x
		if sel := w.info().Selections[b]; sel != nil && sel.Kind() == types.FieldVal {
			if _, isStruct := sel.Type().Underlying().(*types.Struct); isStruct {
				return w.localValueBase(b.X)
			}
		}
	case *ast.CompositeLit:
		return true
	case *ast.CallExpr:
		// f().field on a struct value result: a temporary
		if t := w.info().TypeOf(b); t != nil {
			_, isStruct := t.Underlying().(*types.Struct)
			return isStruct
		}
	case *ast.TypeAssertExpr:
		if t := w.info().TypeOf(b); t != nil {
			_, isStruct := t.Underlying().(*types.Struct)
			return isStruct
		}
	}
	return false
}

func (w *walker) expr(e ast.Expr, mode int) {
	if e == nil {
		return
	}
	switch x := e.(type) {
	case *ast.Ident:
		obj := w.info().Uses[x]
		if v, ok := obj.(*types.Var); ok && v.Parent() == w.a.p.pkg.Scope() && !v.IsField() {
			if isSyncType(v.Type()) {
				return
			}
			w.record("global."+v.Name(), mode == mWrite || mode == mAtomicW, mode >= mAtomicR, x, x.Pos(), "")
		}
		// a local that aliases a shared map (m := x.field; ... range m / m[k] / delete(m, k)): the map is
		// shared state whatever it is called, every use is an access with the locks held at the use
		if cls, ok := w.mapAlias[obj]; ok && obj != nil {
			w.record(cls, mode == mWrite || mode == mAtomicW, false, x, x.Pos(), "")
		}
		// escape of a fresh object used bare
		if obj != nil && w.fresh[obj] {
			w.pendingEscape = append(w.pendingEscape, obj)
		}
	case *ast.SelectorExpr:
		if cls, ft, ok := w.classOfSel(x); ok {
			if isSyncType(ft) {
				// mutex / once / pool cell: synchronisation object, not a data access
				w.baseExpr(x.X)
				return
			}
			if !w.localValueBase(x.X) {
				w.record(cls, mode == mWrite || mode == mAtomicW, mode >= mAtomicR, x, x.Sel.Pos(), "")
			}
			w.baseExpr(x.X)
			return
		}
		sel := w.info().Selections[x]
		if sel != nil && (sel.Kind() == types.MethodVal || sel.Kind() == types.MethodExpr) {
			// method value used as a value (not called): the receiver escapes into the closure
			w.expr(x.X, mRead)
			return
		}
		if sel == nil {
			// qualified identifier pkg.Name or unresolved
			if id, ok := x.X.(*ast.Ident); ok {
				if _, isPkg := w.info().Uses[id].(*types.PkgName); isPkg {
					return
				}
			}
		}
		w.baseExpr(x.X)
	case *ast.CallExpr:
		w.call(x, false, false)
	case *ast.IndexExpr:
		w.expr(x.X, mode) // element write = write to the container's class
		w.expr(x.Index, mRead)
	case *ast.IndexListExpr:
		w.expr(x.X, mRead)
	case *ast.SliceExpr:
		w.expr(x.X, mode)
		w.expr(x.Low, mRead)
		w.expr(x.High, mRead)
		w.expr(x.Max, mRead)
	case *ast.StarExpr:
		w.expr(x.X, mRead)
	case *ast.ParenExpr:
		w.expr(x.X, mode)
	case *ast.UnaryExpr:
		if x.Op == token.AND {
			// address taken outside a recognised call context: may be written through
			if _, isLit := x.X.(*ast.CompositeLit); isLit {
				w.expr(x.X, mRead)
			} else {
				w.expr(x.X, mWrite)
			}
			return
		}
		w.expr(x.X, mRead)
	case *ast.BinaryExpr:
		w.expr(x.X, mRead)
		w.expr(x.Y, mRead)
	case *ast.TypeAssertExpr:
		w.expr(x.X, mRead)
	case *ast.CompositeLit:
		isStruct := false
		var st *types.Struct
		if t := w.info().TypeOf(x); t != nil {
			st, isStruct = t.Underlying().(*types.Struct)
			if p, ok := t.Underlying().(*types.Pointer); ok {
				st, isStruct = p.Elem().Underlying().(*types.Struct)
			}
		}
		for i, el := range x.Elts {
			var val ast.Expr = el
			var fld *types.Var
			if kv, ok := el.(*ast.KeyValueExpr); ok {
				val = kv.Value
				if isStruct {
					if id, ok := kv.Key.(*ast.Ident); ok && st != nil {
						for j := 0; j < st.NumFields(); j++ {
							if st.Field(j).Name() == id.Name {
								fld = st.Field(j)
							}
						}
					}
				} else {
					w.expr(kv.Key, mRead)
				}
			} else if isStruct && st != nil && i < st.NumFields() {
				fld = st.Field(i)
			}
			if fld != nil && isFuncType(fld.Type()) {
				if c, ok := w.a.fieldCls[fld.Origin()]; ok {
					w.flowInto("field:"+c, val)
				}
			}
			w.expr(val, mRead)
		}
	case *ast.FuncLit:
		// function value created here; analysed as its own node (entry lockset from its call sites)
		w.a.litNode(x, w.fn)
	case *ast.KeyValueExpr:
		w.expr(x.Value, mRead)
	case *ast.BasicLit, *ast.ArrayType, *ast.MapType, *ast.ChanType, *ast.FuncType, *ast.StructType, *ast.InterfaceType, *ast.Ellipsis:
	default:
		w.a.unk(w.fn, fmt.Sprintf("expression %T at %s", e, w.a.posStr(e.Pos())))
	}
}

// baseExpr walks the base of a selector: a plain read of whatever is traversed; a fresh local used
// as a selector base does not escape.
func (w *walker) baseExpr(e ast.Expr) {
	if id, ok := e.(*ast.Ident); ok {
		obj := w.info().Uses[id]
		if v, ok := obj.(*types.Var); ok && v.Parent() == w.a.p.pkg.Scope() && !v.IsField() && !isSyncType(v.Type()) {
			w.record("global."+v.Name(), false, false, id, id.Pos(), "")
		}
		return
	}
	w.expr(e, mRead)
}

// ---------------------------------------------------------------------------------------------
// function values

func (a *accessAnalysis) litNode(l *ast.FuncLit, parent *fnNode) *fnNode {
	if n, ok := a.byLit[l]; ok {
		return n
	}
	root := parent
	for root.parent != nil {
		root = root.parent
	}
	root.numLits++
	sig, _ := a.p.info.TypeOf(l).(*types.Signature)
	n := &fnNode{name: fmt.Sprintf("%s$%d", root.name, root.numLits), body: l.Body, isLit: true, parent: parent, sig: sig, file: parent.file,
		recv: parent.recv}
	a.byLit[l] = n
	a.fns = append(a.fns, n)
	a.walkFn(n)
	return n
}

// slotOf names the storage a function value is read from / written to
func (w *walker) slotOf(e ast.Expr) string {
	switch x := e.(type) {
	case *ast.ParenExpr:
		return w.slotOf(x.X)
	case *ast.Ident:
		obj := w.info().Uses[x]
		if obj == nil {
			obj = w.info().Defs[x]
		}
		if v, ok := obj.(*types.Var); ok {
			return fmt.Sprintf("var:%s@%d", v.Name(), v.Pos())
		}
	case *ast.SelectorExpr:
		if cls, _, ok := w.classOfSel(x); ok {
			return "field:" + cls
		}
	}
	return ""
}

func (a *accessAnalysis) addFlow(dst, src string) {
	if dst == "" || src == "" {
		return
	}
	a.flow[dst] = append(a.flow[dst], src)
}

// flowInto records that the value of e may be stored in slot dst
func (w *walker) flowInto(dst string, e ast.Expr) {
	if dst == "" {
		return
	}
	for {
		p, ok := e.(*ast.ParenExpr)
		if !ok {
			break
		}
		e = p.X
	}
	switch x := e.(type) {
	case *ast.FuncLit:
		n := w.a.litNode(x, w.fn)
		w.a.flowVal[dst] = append(w.a.flowVal[dst], n)
		return
	case *ast.Ident:
		if f, ok := w.info().Uses[x].(*types.Func); ok {
			if n := w.a.byObj[f.Origin()]; n != nil {
				w.a.flowVal[dst] = append(w.a.flowVal[dst], n)
			}
			return
		}
	case *ast.SelectorExpr:
		if sel := w.info().Selections[x]; sel != nil && sel.Kind() == types.MethodVal {
			for _, n := range w.a.methodTargets(sel) {
				w.a.flowVal[dst] = append(w.a.flowVal[dst], n)
			}
			return
		}
	case *ast.CallExpr:
		// conversion T(f)
		if tv, ok := w.info().Types[x.Fun]; ok && tv.IsType() && len(x.Args) == 1 {
			w.flowInto(dst, x.Args[0])
			return
		}
	}
	w.a.addFlow(dst, w.slotOf(e))
}

func (a *accessAnalysis) resolveSlot(slot string, seen map[string]bool) []*fnNode {
	if seen[slot] {
		return nil
	}
	seen[slot] = true
	out := append([]*fnNode{}, a.flowVal[slot]...)
	for _, s := range a.flow[slot] {
		out = append(out, a.resolveSlot(s, seen)...)
	}
	return out
}

// methodTargets: static method or, for interface receivers, every implementation in the package
func (a *accessAnalysis) methodTargets(sel *types.Selection) []*fnNode {
	f, ok := sel.Obj().(*types.Func)
	if !ok {
		return nil
	}
	if n := a.byObj[f.Origin()]; n != nil {
		return []*fnNode{n}
	}
	recv := sel.Recv()
	if iface, ok := recv.Underlying().(*types.Interface); ok {
		return a.implementations(iface, []string{f.Name()})
	}
	return nil
}

// implementations: methods `names` of every package type that implements iface
func (a *accessAnalysis) implementations(iface *types.Interface, names []string) []*fnNode {
	var out []*fnNode
	if iface.NumMethods() == 0 {
		return nil
	}
	for _, nt := range a.named {
		if _, isIface := nt.Underlying().(*types.Interface); isIface {
			continue
		}
		if nt.TypeParams().Len() > 0 {
			continue
		}
		var impl types.Type
		if types.Implements(nt, iface) {
			impl = nt
		} else if types.Implements(types.NewPointer(nt), iface) {
			impl = types.NewPointer(nt)
		} else {
			continue
		}
		for _, name := range names {
			obj, _, _ := types.LookupFieldOrMethod(impl, true, a.p.pkg, name)
			if f, ok := obj.(*types.Func); ok {
				if n := a.byObj[f.Origin()]; n != nil {
					out = append(out, n)
				}
			}
		}
	}
	return out
}

func ifaceMethodNames(iface *types.Interface) []string {
	var ns []string
	for i := 0; i < iface.NumMethods(); i++ {
		ns = append(ns, iface.Method(i).Name())
	}
	return ns
}

// ---------------------------------------------------------------------------------------------
// calls

func (w *walker) lockName(x ast.Expr) string {
	for {
		p, ok := x.(*ast.ParenExpr)
		if !ok {
			break
		}
		x = p.X
	}
	switch m := x.(type) {
	case *ast.SelectorExpr:
		if cls, _, ok := w.classOfSel(m); ok {
			return cls
		}
	case *ast.Ident:
		if v, ok := w.info().Uses[m].(*types.Var); ok {
			if v.Parent() == w.a.p.pkg.Scope() {
				return "global." + v.Name()
			}
			return "local." + v.Name()
		}
	case *ast.UnaryExpr:
		if m.Op == token.AND {
			return w.lockName(m.X)
		}
	}
	return "expr." + types.ExprString(x)
}

func (w *walker) addSite(callees []*fnNode, fresh, isGo bool, pos token.Pos) *callSite {
	cs := &callSite{callees: callees, eff: w.eff.clone(), fresh: fresh, isGo: isGo, inLoop: w.loopDepth > 0, pos: pos}
	w.fn.calls = append(w.fn.calls, cs)
	return cs
}

func (w *walker) everFreshBase(e ast.Expr) bool {
	id := w.rootIdent(e)
	if id == nil {
		return false
	}
	obj := w.info().Uses[id]
	return obj != nil && w.everFresh[obj]
}

// call handles a call expression; isGo / isDefer describe the statement context.
func (w *walker) call(c *ast.CallExpr, isGo, isDefer bool) {
	info := w.info()
	fun := c.Fun
	for {
		p, ok := fun.(*ast.ParenExpr)
		if !ok {
			break
		}
		fun = p.X
	}
	// generic instantiation f[T](…)
	if ix, ok := fun.(*ast.IndexExpr); ok {
		if tv, ok := info.Types[ix.X]; ok && !tv.IsType() {
			if _, isSig := tv.Type.(*types.Signature); isSig {
				if _, isFn := w.calleeObj(ix.X); isFn {
					fun = ix.X
				}
			}
		}
	}
	// type conversion
	if tv, ok := info.Types[fun]; ok && tv.IsType() {
		for _, a := range c.Args {
			w.expr(a, mRead)
		}
		return
	}
	// builtins
	if id, ok := fun.(*ast.Ident); ok {
		if _, isB := info.Uses[id].(*types.Builtin); isB {
			w.builtin(id.Name, c)
			return
		}
	}
	// immediately invoked function literal
	if lit, ok := fun.(*ast.FuncLit); ok {
		for _, a := range c.Args {
			w.expr(a, mRead)
		}
		if isGo {
			n := w.a.litNode(lit, w.fn)
			cs := w.addSite([]*fnNode{n}, false, true, c.Pos())
			w.a.goTargets[n] = append(w.a.goTargets[n], cs)
			w.publishAll()
			return
		}
		w.inlineLit(lit)
		return
	}

	obj, isStatic := w.calleeObj(fun)
	var recvExpr ast.Expr
	if se, ok := fun.(*ast.SelectorExpr); ok {
		if sel := info.Selections[se]; sel != nil {
			recvExpr = se.X
		}
	}

	// --- synchronisation primitives and atomics -------------------------------------------------
	if isStatic && obj.Pkg() != nil && obj.Pkg().Path() == "sync" && recvExpr != nil {
		_, tn := pkgPathOfNamed(info.TypeOf(recvExpr))
		name := obj.Name()
		switch {
		case (tn == "Mutex" || tn == "RWMutex") && (name == "Lock" || name == "Unlock" || name == "RLock" || name == "RUnlock" || name == "TryLock" || name == "TryRLock"):
			w.baseOfLock(recvExpr)
			ln := w.lockName(recvExpr)
			if isDefer {
				if name == "Unlock" || name == "RUnlock" {
					w.deferred[ln] = true
					return // held to the end of the function
				}
				w.a.unk(w.fn, "deferred "+name+" at "+w.a.posStr(c.Pos()))
				return
			}
			if isGo {
				w.a.unk(w.fn, "go "+name+" at "+w.a.posStr(c.Pos()))
				return
			}
			switch name {
			case "Lock":
				w.eff.heldX[ln] = true
			case "RLock":
				w.eff.heldS[ln] = true
			case "Unlock":
				if w.eff.heldX[ln] {
					delete(w.eff.heldX, ln)
				} else {
					w.eff.relX[ln] = true
				}
			case "RUnlock":
				if w.eff.heldS[ln] {
					delete(w.eff.heldS, ln)
				} else {
					w.eff.relS[ln] = true
				}
			default:
				w.a.unk(w.fn, name+" at "+w.a.posStr(c.Pos()))
			}
			return
		case tn == "Once" && name == "Do":
			w.baseOfLock(recvExpr)
			if len(c.Args) == 1 {
				if lit, ok := c.Args[0].(*ast.FuncLit); ok {
					w.inlineLit(lit)
					return
				}
				w.dynamicCall(c.Args[0], c, false)
				return
			}
		default:
			// Pool.Get/Put, WaitGroup, Cond, Map: synchronised by contract
			w.baseOfLock(recvExpr)
			for _, a := range c.Args {
				w.expr(a, mRead)
			}
			return
		}
	}
	if isStatic && obj.Pkg() != nil && obj.Pkg().Path() == "sync/atomic" {
		name := obj.Name()
		if recvExpr != nil {
			// method of an atomic.* typed cell
			wr := !strings.HasPrefix(name, "Load")
			md := mAtomicR
			if wr {
				md = mAtomicW
			}
			w.expr(recvExpr, md)
			for _, a := range c.Args {
				w.expr(a, mRead)
				w.noteUserCallback(a)
			}
			return
		}
		wr := !strings.HasPrefix(name, "Load")
		for i, a := range c.Args {
			if i == 0 {
				if u, ok := a.(*ast.UnaryExpr); ok && u.Op == token.AND {
					md := mAtomicR
					if wr {
						md = mAtomicW
					}
					w.expr(u.X, md)
					continue
				}
				w.a.unk(w.fn, "atomic."+name+" on a non-&expr at "+w.a.posStr(c.Pos()))
			}
			w.expr(a, mRead)
		}
		return
	}

	// --- ordinary calls ---------------------------------------------------------------------------
	var callees []*fnNode
	external := false
	dynamic := false
	switch {
	case isStatic:
		if n := w.a.byObj[obj.Origin()]; n != nil {
			callees = []*fnNode{n}
		} else if se, ok := fun.(*ast.SelectorExpr); ok && info.Selections[se] != nil &&
			info.Selections[se].Kind() == types.MethodVal && isIface(info.Selections[se].Recv()) {
			callees = w.a.methodTargets(info.Selections[se])
			if obj.Pkg() != w.a.p.pkg && len(callees) == 0 {
				external = true
			}
		} else {
			external = true
		}
	default:
		if t := info.TypeOf(fun); t != nil && isFuncType(t) {
			dynamic = true
		} else {
			external = true // unresolved (third-party import that did not type-check)
		}
	}

	// receiver expression
	if recvExpr != nil {
		if se, ok := fun.(*ast.SelectorExpr); ok {
			if sel := info.Selections[se]; sel != nil && sel.Kind() == types.FieldVal {
				// call through a func-typed field: the field itself is read
				w.expr(fun, mRead)
			} else {
				w.baseExpr(recvExpr)
			}
		}
	} else if se, ok := fun.(*ast.SelectorExpr); ok {
		// pkg.Func or unresolved selector
		if id, ok := se.X.(*ast.Ident); !ok || !isPkgName(info, id) {
			w.baseExpr(se.X)
		}
	} else if dynamic {
		w.expr(fun, mRead)
	}

	calleeName := ""
	if isStatic {
		calleeName = obj.Name()
	} else if se, ok := fun.(*ast.SelectorExpr); ok {
		calleeName = se.Sel.Name
	}
	var sig *types.Signature
	if t := info.TypeOf(fun); t != nil {
		sig, _ = t.Underlying().(*types.Signature)
	}

	// arguments
	fresh := recvExpr != nil && w.isFreshBase(recvExpr)
	var extra []*fnNode
	for i, arg := range c.Args {
		w.argument(arg, i, external, calleeName, callees, sig, &extra)
	}
	if dynamic {
		w.dynamicCall(fun, c, isGo)
		if isGo {
			w.publishAll()
		}
		return
	}
	all := append(append([]*fnNode{}, callees...), extra...)
	if len(all) > 0 || isGo {
		if isGo {
			cs := w.addSite(callees, false, true, c.Pos())
			cs.goFresh = recvExpr != nil && w.everFreshBase(recvExpr)
			for _, n := range callees {
				w.a.goTargets[n] = append(w.a.goTargets[n], cs)
			}
			if len(extra) > 0 {
				w.addSite(extra, false, false, c.Pos())
			}
		} else {
			w.addSite(all, fresh || (recvExpr == nil && w.argsFresh(c)), false, c.Pos())
		}
	}
	if isGo {
		w.publishAll()
	}
	if isStatic && obj.Pkg() == nil && calleeName == "panic" {
		// handled by builtin
	}
}

func isIface(t types.Type) bool {
	_, ok := t.Underlying().(*types.Interface)
	return ok
}

func isPkgName(info *types.Info, id *ast.Ident) bool {
	_, ok := info.Uses[id].(*types.PkgName)
	return ok
}

func (w *walker) argsFresh(c *ast.CallExpr) bool {
	// a plain function call is in a pre-publication context only if it is handed a fresh object
	for _, a := range c.Args {
		if id, ok := a.(*ast.Ident); ok {
			if obj := w.info().Uses[id]; obj != nil && w.fresh[obj] {
				return true
			}
		}
	}
	return false
}

func (w *walker) calleeObj(fun ast.Expr) (*types.Func, bool) {
	switch x := fun.(type) {
	case *ast.Ident:
		f, ok := w.info().Uses[x].(*types.Func)
		return f, ok
	case *ast.SelectorExpr:
		f, ok := w.info().Uses[x.Sel].(*types.Func)
		return f, ok
	}
	return nil, false
}

// baseOfLock: the path to a mutex / once cell (s.mu → read of nothing tracked; s.kcp.mu → read of s.kcp)
func (w *walker) baseOfLock(e ast.Expr) {
	if se, ok := e.(*ast.SelectorExpr); ok {
		w.baseExpr(se.X)
	}
}

func (w *walker) noteUserCallback(ast.Expr) {}

// argument walks one call argument and decides whether a reference handed to the callee counts as a write
func (w *walker) argument(arg ast.Expr, idx int, external bool, calleeName string, callees []*fnNode, sig *types.Signature, extra *[]*fnNode) {
	info := w.info()
	t := info.TypeOf(arg)
	// function values handed to a callee
	if t != nil && isFuncType(t) {
		if lit, ok := arg.(*ast.FuncLit); ok && external {
			// external callee given a literal: assumed to run it synchronously (sync.Once.Do, sort.Slice),
			// except for known asynchronous APIs
			if calleeName == "AfterFunc" || calleeName == "SetFinalizer" || calleeName == "Go" {
				n := w.a.litNode(lit, w.fn)
				cs := w.addSite([]*fnNode{n}, false, true, arg.Pos())
				w.a.goTargets[n] = append(w.a.goTargets[n], cs)
				w.publishAll()
				return
			}
			w.inlineLit(lit)
			return
		}
		for _, n := range callees {
			if n.sig != nil && idx < n.sig.Params().Len() {
				pv := n.sig.Params().At(idx)
				w.flowInto(fmt.Sprintf("var:%s@%d", pv.Name(), pv.Pos()), arg)
			}
		}
		if external {
			// a package function handed to external code: call edge with the current lockset
			tmp := fmt.Sprintf("tmp@%d", arg.Pos())
			w.flowInto(tmp, arg)
			for _, n := range w.a.resolveSlot(tmp, map[string]bool{}) {
				*extra = append(*extra, n)
			}
		}
		w.expr(arg, mRead)
		return
	}
	// package value converted to an interface parameter: its methods become callable by the callee
	if sig != nil && t != nil {
		var pt types.Type
		if idx < sig.Params().Len() {
			pt = sig.Params().At(idx).Type()
		} else if sig.Variadic() && sig.Params().Len() > 0 {
			if sl, ok := sig.Params().At(sig.Params().Len() - 1).Type().(*types.Slice); ok {
				pt = sl.Elem()
			}
		}
		if pt != nil {
			if pi, ok := pt.Underlying().(*types.Interface); ok && pi.NumMethods() > 0 {
				names := ifaceMethodNames(pi)
				if ai, ok := t.Underlying().(*types.Interface); ok {
					_ = ai
					*extra = append(*extra, w.a.implementations(pi, names)...)
				} else {
					for _, name := range names {
						obj, _, _ := types.LookupFieldOrMethod(t, true, w.a.p.pkg, name)
						if f, ok := obj.(*types.Func); ok {
							if n := w.a.byObj[f.Origin()]; n != nil {
								*extra = append(*extra, n)
							}
						}
					}
				}
			}
		}
	}
	// references handed to the callee
	inner := arg
	addr := false
	if u, ok := arg.(*ast.UnaryExpr); ok && u.Op == token.AND {
		inner = u.X
		addr = true
	}
	if _, isLit := inner.(*ast.CompositeLit); isLit {
		w.expr(arg, mRead)
		return
	}
	it := info.TypeOf(inner)
	if addr || isRefLike(it) {
		mayWrite := true
		assumed := ""
		if external {
			mayWrite = idx == 0 || strings.HasPrefix(calleeName, "Read") || strings.HasPrefix(calleeName, "Put")
			if !mayWrite {
				assumed = fmt.Sprintf("reference passed as argument %d of external %s assumed read-only", idx, calleeName)
			}
		}
		before := len(w.fn.acc)
		if mayWrite {
			w.expr(inner, mWrite)
		} else {
			w.expr(inner, mRead)
		}
		if assumed != "" {
			for k := before; k < len(w.fn.acc); k++ {
				if w.fn.acc[k].pos == w.lastSelPos(inner) {
					w.fn.acc[k].assumed = assumed
					w.a.assumed = append(w.a.assumed, fmt.Sprintf("%s: %s: %s", w.fn.name, w.fn.acc[k].cls, assumed))
				}
			}
		}
		return
	}
	w.expr(arg, mRead)
}

func (w *walker) lastSelPos(e ast.Expr) token.Pos {
	for {
		switch x := e.(type) {
		case *ast.SelectorExpr:
			return x.Sel.Pos()
		case *ast.IndexExpr:
			e = x.X
		case *ast.SliceExpr:
			e = x.X
		case *ast.ParenExpr:
			e = x.X
		case *ast.StarExpr:
			e = x.X
		case *ast.Ident:
			return x.Pos()
		default:
			return token.NoPos
		}
	}
}

func (w *walker) builtin(name string, c *ast.CallExpr) {
	switch name {
	case "delete", "clear":
		for i, a := range c.Args {
			if i == 0 {
				w.expr(a, mWrite)
			} else {
				w.expr(a, mRead)
			}
		}
	case "copy":
		for i, a := range c.Args {
			if i == 0 {
				w.expr(a, mWrite)
			} else {
				w.expr(a, mRead)
			}
		}
	case "append":
		// the result is assigned by the enclosing statement; the first argument's backing array may be written
		for i, a := range c.Args {
			if i == 0 {
				w.expr(a, mWrite)
			} else {
				w.expr(a, mRead)
			}
		}
	default:
		for _, a := range c.Args {
			if tv, ok := w.info().Types[a]; ok && tv.IsType() {
				continue
			}
			w.expr(a, mRead)
		}
	}
}

func (w *walker) inlineLit(lit *ast.FuncLit) {
	w.a.byLit[lit] = w.fn // accesses are attributed to the enclosing function
	saveCtx := w.ctxStack
	w.ctxStack = nil
	w.litDepth++
	defer func() { w.litDepth-- }()
	w.block(lit.Body.List)
	// a return inside the literal only leaves the literal; literals in this role are lock-balanced
	w.ctxStack = saveCtx
}

func (w *walker) dynamicCall(fun ast.Expr, c *ast.CallExpr, isGo bool) {
	slot := w.slotOf(fun)
	cs := w.addSite(nil, false, isGo, c.Pos())
	w.a.dynCalls = append(w.a.dynCalls, &dynCall{site: cs, slot: slot, desc: types.ExprString(fun) + " at " + w.a.posStr(c.Pos()), fn: w.fn})
}

func (w *walker) publishAll() {
	for o := range w.fresh {
		delete(w.fresh, o)
	}
}

// ---------------------------------------------------------------------------------------------
// statements

func (w *walker) flushEscapes() {
	for _, o := range w.pendingEscape {
		delete(w.fresh, o)
	}
	w.pendingEscape = w.pendingEscape[:0]
}

func isAlloc(info *types.Info, e ast.Expr) bool {
	switch x := e.(type) {
	case *ast.CallExpr:
		if id, ok := x.Fun.(*ast.Ident); ok {
			if _, isB := info.Uses[id].(*types.Builtin); isB && id.Name == "new" {
				return true
			}
		}
	case *ast.UnaryExpr:
		if x.Op == token.AND {
			_, ok := x.X.(*ast.CompositeLit)
			return ok
		}
	}
	return false
}

// block walks statements; returns true if control cannot fall out of the end
func (w *walker) block(list []ast.Stmt) bool {
	term := false
	for _, s := range list {
		// statements after a terminating one are still walked (they may be reached through a label)
		if _, isLabel := s.(*ast.LabeledStmt); isLabel {
			term = false
		}
		if w.stmt(s) {
			term = true
		}
	}
	return term
}

func (w *walker) branchOut(pos token.Pos, what string, labeled bool) {
	var ref *lockEff
	switch {
	case what == "break" && !labeled && len(w.ctxStack) > 0:
		fr := w.ctxStack[len(w.ctxStack)-1]
		fr.brk = joinEff(fr.brk, w.eff.clone())
		return
	case what == "goto" || len(w.ctxStack) == 0:
		ref = newEff()
	default:
		// continue / labeled break: compare with the innermost loop's entry state
		for i := len(w.ctxStack) - 1; i >= 0; i-- {
			if w.ctxStack[i].isLoop {
				ref = w.ctxStack[i].entry
				break
			}
		}
		if ref == nil {
			ref = newEff()
		}
	}
	if !w.eff.eq(ref) {
		w.a.unk(w.fn, fmt.Sprintf("%s with a lock state different from the target's at %s", what, w.a.posStr(pos)))
	}
}

func (w *walker) stmt(s ast.Stmt) (term bool) {
	defer w.flushEscapes()
	info := w.info()
	switch x := s.(type) {
	case nil:
	case *ast.ExprStmt:
		if c, ok := x.X.(*ast.CallExpr); ok {
			w.call(c, false, false)
			if id, ok := c.Fun.(*ast.Ident); ok && id.Name == "panic" {
				if _, isB := info.Uses[id].(*types.Builtin); isB {
					return true
				}
			}
			return false
		}
		w.expr(x.X, mRead)
	case *ast.AssignStmt:
		for _, r := range x.Rhs {
			w.assignedValue(r)
		}
		for i, l := range x.Lhs {
			if x.Tok == token.DEFINE {
				if id, ok := l.(*ast.Ident); ok {
					if obj := info.Defs[id]; obj != nil {
						if len(x.Lhs) == len(x.Rhs) {
							w.noteMapAlias(obj, x.Rhs[i])
						}
						if len(x.Lhs) == len(x.Rhs) && isAlloc(info, x.Rhs[i]) {
							w.fresh[obj] = true
							w.everFresh[obj] = true
						}
						if len(x.Lhs) == len(x.Rhs) && isFuncType(obj.Type()) {
							w.flowInto(w.slotOf(id), x.Rhs[i])
						}
						continue
					}
				}
			}
			if id, ok := l.(*ast.Ident); ok && id.Name == "_" {
				continue
			}
			if x.Tok != token.ASSIGN && x.Tok != token.DEFINE {
				w.expr(l, mRead) // op-assign reads too
			}
			// plain local variable on the left: not an access; track allocation and function values
			if id, ok := l.(*ast.Ident); ok {
				obj := info.Uses[id]
				if v, ok := obj.(*types.Var); ok && v.Parent() != w.a.p.pkg.Scope() {
					if len(x.Lhs) == len(x.Rhs) {
						w.noteMapAlias(obj, x.Rhs[i])
						if isAlloc(info, x.Rhs[i]) {
							w.fresh[obj] = true
							w.everFresh[obj] = true
						} else {
							delete(w.fresh, obj)
						}
						if isFuncType(v.Type()) {
							w.flowInto(w.slotOf(id), x.Rhs[i])
						}
					}
					continue
				}
			}
			if len(x.Lhs) == len(x.Rhs) {
				if t := info.TypeOf(l); t != nil && isFuncType(t) {
					w.flowInto(w.slotOf(l), x.Rhs[i])
				}
			}
			w.lhs(l)
		}
	case *ast.IncDecStmt:
		w.expr(x.X, mRead)
		w.lhs(x.X)
	case *ast.GoStmt:
		w.call(x.Call, true, false)
	case *ast.DeferStmt:
		w.call(x.Call, false, true)
	case *ast.ReturnStmt:
		for _, r := range x.Results {
			w.expr(r, mRead)
		}
		w.pendingEscape = w.pendingEscape[:0] // returning a fresh object hands it to the caller, nothing follows
		w.checkExit(x.Pos())
		return true
	case *ast.BranchStmt:
		switch x.Tok {
		case token.BREAK:
			w.branchOut(x.Pos(), "break", x.Label != nil)
		case token.CONTINUE:
			w.branchOut(x.Pos(), "continue", x.Label != nil)
		case token.GOTO:
			w.branchOut(x.Pos(), "goto", true)
		case token.FALLTHROUGH:
			return false
		}
		return true
	case *ast.BlockStmt:
		return w.block(x.List)
	case *ast.LabeledStmt:
		return w.stmt(x.Stmt)
	case *ast.IfStmt:
		w.stmt(x.Init)
		w.expr(x.Cond, mRead)
		w.flushEscapes()
		entry := w.eff.clone()
		freshEntry := cloneObjSet(w.fresh)
		t1 := w.block(x.Body.List)
		e1, f1 := w.eff, w.fresh
		w.eff, w.fresh = entry.clone(), cloneObjSet(freshEntry)
		t2 := false
		if x.Else != nil {
			t2 = w.stmt(x.Else)
		}
		e2, f2 := w.eff, w.fresh
		switch {
		case t1 && t2:
			return true
		case t1:
			w.eff, w.fresh = e2, f2
		case t2:
			w.eff, w.fresh = e1, f1
		default:
			w.eff, w.fresh = joinEff(e1, e2), interObjSet(f1, f2)
		}
	case *ast.ForStmt:
		w.stmt(x.Init)
		w.loop(func() {
			w.expr(x.Cond, mRead)
			w.block(x.Body.List)
			w.stmt(x.Post)
		})
	case *ast.RangeStmt:
		// range over a function (iterator method value): a call of that method with the body as yield
		if t := info.TypeOf(x.X); t != nil && isFuncType(t) {
			if se, ok := x.X.(*ast.SelectorExpr); ok {
				if sel := info.Selections[se]; sel != nil && sel.Kind() == types.MethodVal {
					w.baseExpr(se.X)
					if ts := w.a.methodTargets(sel); len(ts) > 0 {
						w.addSite(ts, w.isFreshBase(se.X), false, x.Pos())
					}
				} else {
					w.expr(x.X, mRead)
					w.dynamicCall(x.X, &ast.CallExpr{Fun: x.X, Lparen: x.Pos()}, false)
				}
			} else {
				w.expr(x.X, mRead)
				w.dynamicCall(x.X, &ast.CallExpr{Fun: x.X, Lparen: x.Pos()}, false)
			}
		} else {
			w.expr(x.X, mRead)
		}
		if x.Tok == token.ASSIGN {
			if x.Key != nil {
				w.lhs(x.Key)
			}
			if x.Value != nil {
				w.lhs(x.Value)
			}
		}
		w.loop(func() { w.block(x.Body.List) })
	case *ast.SwitchStmt:
		w.stmt(x.Init)
		w.expr(x.Tag, mRead)
		w.flushEscapes()
		return w.clauses(x.Body.List, func(cl ast.Stmt) ([]ast.Stmt, bool) {
			cc := cl.(*ast.CaseClause)
			for _, e := range cc.List {
				w.expr(e, mRead)
			}
			return cc.Body, cc.List == nil
		})
	case *ast.TypeSwitchStmt:
		w.stmt(x.Init)
		switch a := x.Assign.(type) {
		case *ast.AssignStmt:
			for _, r := range a.Rhs {
				w.expr(r, mRead)
			}
		case *ast.ExprStmt:
			w.expr(a.X, mRead)
		}
		w.flushEscapes()
		return w.clauses(x.Body.List, func(cl ast.Stmt) ([]ast.Stmt, bool) {
			cc := cl.(*ast.CaseClause)
			return cc.Body, cc.List == nil
		})
	case *ast.SelectStmt:
		hasDefault := false
		for _, cl := range x.Body.List {
			if cl.(*ast.CommClause).Comm == nil {
				hasDefault = true
			}
		}
		_ = hasDefault
		return w.clausesSelect(x.Body.List)
	case *ast.SendStmt:
		w.expr(x.Chan, mRead)
		w.expr(x.Value, mRead)
	case *ast.DeclStmt:
		if gd, ok := x.Decl.(*ast.GenDecl); ok {
			for _, sp := range gd.Specs {
				if vs, ok := sp.(*ast.ValueSpec); ok {
					for i, v := range vs.Values {
						w.assignedValue(v)
						if len(vs.Names) == len(vs.Values) {
							if obj := info.Defs[vs.Names[i]]; obj != nil {
								if isAlloc(info, v) {
									w.fresh[obj] = true
									w.everFresh[obj] = true
								}
								if isFuncType(obj.Type()) {
									w.flowInto(w.slotOf(vs.Names[i]), v)
								}
							}
						}
					}
				}
			}
		}
	case *ast.EmptyStmt:
	default:
		w.a.unk(w.fn, fmt.Sprintf("statement %T at %s", s, w.a.posStr(s.Pos())))
	}
	return false
}

// checkExit: a function must leave with the lock state it entered with (apart from deferred unlocks);
// callers' locksets are computed from entry states only, so anything else would be invisible to them
func (w *walker) checkExit(pos token.Pos) {
	if w.litDepth > 0 {
		return
	}
	for _, k := range sortedKeys(unionSet(w.eff.heldX, w.eff.heldS)) {
		if !w.deferred[k] {
			w.a.unk(w.fn, fmt.Sprintf("returns holding %s at %s", k, w.a.posStr(pos)))
		}
	}
	for _, k := range sortedKeys(unionSet(w.eff.relX, w.eff.relS)) {
		w.a.unk(w.fn, fmt.Sprintf("releases %s which it did not acquire, at %s", k, w.a.posStr(pos)))
	}
}

// assignedValue walks a right-hand side; a bare fresh identifier stored somewhere escapes
func (w *walker) assignedValue(r ast.Expr) { w.expr(r, mRead) }

func (w *walker) lhs(l ast.Expr) {
	switch x := l.(type) {
	case *ast.ParenExpr:
		w.lhs(x.X)
	case *ast.StarExpr:
		w.expr(x.X, mRead)
	default:
		w.expr(l, mWrite)
	}
}

func cloneObjSet(m map[types.Object]bool) map[types.Object]bool {
	r := make(map[types.Object]bool, len(m))
	for k := range m {
		r[k] = true
	}
	return r
}
func interObjSet(a, b map[types.Object]bool) map[types.Object]bool {
	r := map[types.Object]bool{}
	for k := range a {
		if b[k] {
			r[k] = true
		}
	}
	return r
}

// loop runs the body to a fixed point of the lock state at loop entry
func (w *walker) loop(body func()) {
	w.loopDepth++
	defer func() { w.loopDepth-- }()
	entry := w.eff.clone()
	for iter := 0; iter < 8; iter++ {
		nAcc, nCalls, nDyn := len(w.fn.acc), len(w.fn.calls), len(w.a.dynCalls)
		nUnk := len(w.a.unknown)
		w.eff = entry.clone()
		fr := &ctxFrame{entry: entry, isLoop: true}
		w.ctxStack = append(w.ctxStack, fr)
		freshEntry := cloneObjSet(w.fresh)
		body()
		w.ctxStack = w.ctxStack[:len(w.ctxStack)-1]
		next := joinEff(entry, w.eff)
		w.fresh = interObjSet(freshEntry, w.fresh)
		if next.eq(entry) {
			// after the loop: the entry state (condition false) joined with the states at breaks
			w.eff = joinEff(entry.clone(), fr.brk)
			return
		}
		// lock state at the back edge differs from the entry: redo the body with the join
		w.fn.acc, w.fn.calls, w.a.dynCalls = w.fn.acc[:nAcc], w.fn.calls[:nCalls], w.a.dynCalls[:nDyn]
		w.a.unknown = w.a.unknown[:nUnk]
		entry = next
	}
	w.a.unk(w.fn, "loop lock state did not stabilise")
}

func (w *walker) clauses(list []ast.Stmt, open func(ast.Stmt) ([]ast.Stmt, bool)) bool {
	entry := w.eff.clone()
	freshEntry := cloneObjSet(w.fresh)
	var out *lockEff
	var outFresh map[types.Object]bool
	hasDefault := false
	allTerm := true
	fr := &ctxFrame{entry: entry}
	w.ctxStack = append(w.ctxStack, fr)
	var carry *lockEff
	for _, cl := range list {
		w.eff = entry.clone()
		if carry != nil { // fallthrough from the previous clause
			w.eff = carry
			carry = nil
		}
		w.fresh = cloneObjSet(freshEntry)
		body, isDefault := open(cl)
		if isDefault {
			hasDefault = true
		}
		t := w.block(body)
		if n := len(body); n > 0 {
			if b, ok := body[n-1].(*ast.BranchStmt); ok && b.Tok == token.FALLTHROUGH {
				carry = w.eff
				continue
			}
		}
		if !t {
			allTerm = false
			out = joinEff(out, w.eff)
			if outFresh == nil {
				outFresh = w.fresh
			} else {
				outFresh = interObjSet(outFresh, w.fresh)
			}
		}
	}
	w.ctxStack = w.ctxStack[:len(w.ctxStack)-1]
	if fr.brk != nil {
		allTerm = false
		out = joinEff(out, fr.brk)
		if outFresh == nil {
			outFresh = freshEntry
		} else {
			outFresh = interObjSet(outFresh, freshEntry)
		}
	}
	if !hasDefault {
		allTerm = false
		out = joinEff(out, entry)
		if outFresh == nil {
			outFresh = freshEntry
		} else {
			outFresh = interObjSet(outFresh, freshEntry)
		}
	}
	if allTerm {
		return true
	}
	w.eff, w.fresh = out, outFresh
	return false
}

func (w *walker) clausesSelect(list []ast.Stmt) bool {
	return w.clauses(list, func(cl ast.Stmt) ([]ast.Stmt, bool) {
		cc := cl.(*ast.CommClause)
		if cc.Comm != nil {
			w.stmt(cc.Comm)
		}
		// a select without default blocks until one case fires: every path goes through a clause
		return cc.Body, true
	})
}

// ---------------------------------------------------------------------------------------------
// analysis driver

func (a *accessAnalysis) walkFn(n *fnNode) {
	w := &walker{a: a, fn: n, eff: newEff(), fresh: map[types.Object]bool{}, everFresh: map[types.Object]bool{}, deferred: map[string]bool{}}
	defer func() {
		if r := recover(); r != nil {
			a.unk(n, fmt.Sprintf("analysis panic: %v", r))
		}
	}()
	if n.body != nil {
		if !w.block(n.body.List) {
			w.checkExit(n.body.Rbrace)
		}
	}
	for _, e := range n.exprs {
		w.expr(e, mRead)
		w.flushEscapes()
	}
}

func recvTypeName(fd *ast.FuncDecl) string {
	if fd.Recv == nil || len(fd.Recv.List) == 0 {
		return ""
	}
	t := fd.Recv.List[0].Type
	for {
		switch x := t.(type) {
		case *ast.StarExpr:
			t = x.X
		case *ast.IndexExpr:
			t = x.X
		case *ast.IndexListExpr:
			t = x.X
		case *ast.ParenExpr:
			t = x.X
		case *ast.Ident:
			return x.Name
		default:
			return "?"
		}
	}
}

func resultMentions(sig *types.Signature, names ...string) bool {
	if sig == nil {
		return false
	}
	for i := 0; i < sig.Results().Len(); i++ {
		s := sig.Results().At(i).Type().String()
		for _, n := range names {
			if strings.HasSuffix(s, n) {
				return true
			}
		}
	}
	return false
}

func analyseAccesses(p *pkgInfo) *accessAnalysis {
	a := &accessAnalysis{p: p, byObj: map[*types.Func]*fnNode{}, byLit: map[*ast.FuncLit]*fnNode{}, fieldCls: map[*types.Var]string{},
		flow: map[string][]string{}, flowVal: map[string][]*fnNode{}, goTargets: map[*fnNode][]*callSite{}}
	if p.pkg == nil {
		a.unknown = append(a.unknown, "package did not type-check at all")
		return a
	}
	scope := p.pkg.Scope()
	for _, name := range scope.Names() {
		tn, ok := scope.Lookup(name).(*types.TypeName)
		if !ok {
			continue
		}
		nt, ok := tn.Type().(*types.Named)
		if !ok {
			continue
		}
		a.named = append(a.named, nt)
		if st, ok := nt.Underlying().(*types.Struct); ok {
			for i := 0; i < st.NumFields(); i++ {
				a.fieldCls[st.Field(i)] = clsOwner(name) + "." + st.Field(i).Name()
			}
		}
	}
	// function nodes
	initNode := &fnNode{name: "init", rootKind: "init", file: "-"}
	var decls []*fnNode
	for fi, f := range p.files {
		for _, d := range f.Decls {
			switch x := d.(type) {
			case *ast.FuncDecl:
				obj, _ := p.info.Defs[x.Name].(*types.Func)
				if x.Name.Name == "init" && x.Recv == nil {
					// package init functions: bodies appended to the init pseudo function
					if x.Body != nil {
						n := &fnNode{name: fmt.Sprintf("init#%s", p.names[fi]), body: x.Body, file: p.names[fi], rootKind: "init"}
						decls = append(decls, n)
					}
					continue
				}
				if obj == nil {
					a.unknown = append(a.unknown, "function without type information: "+x.Name.Name)
					continue
				}
				rn := recvTypeName(x)
				name := x.Name.Name
				if rn != "" {
					name = rn + "." + name
				}
				sig, _ := obj.Type().(*types.Signature)
				n := &fnNode{name: name, obj: obj, body: x.Body, recv: rn, exported: ast.IsExported(x.Name.Name) && (rn == "" || ast.IsExported(rn)),
					deprecated: isDeprecated(x.Doc), sig: sig, file: p.names[fi]}
				a.byObj[obj] = n
				decls = append(decls, n)
			case *ast.GenDecl:
				if x.Tok == token.VAR {
					for _, sp := range x.Specs {
						vs := sp.(*ast.ValueSpec)
						initNode.exprs = append(initNode.exprs, vs.Values...)
					}
				}
			}
		}
	}
	sort.SliceStable(decls, func(i, j int) bool { return decls[i].name < decls[j].name })
	a.fns = append(a.fns, initNode)
	a.fns = append(a.fns, decls...)
	// walk (function literals are appended to a.fns while walking)
	for i := 0; i < len(a.fns); i++ {
		if !a.fns[i].isLit {
			a.walkFn(a.fns[i])
		}
	}
	a.resolve()
	return a
}

func (a *accessAnalysis) resolve() {
	// dynamic calls through function-typed slots
	for _, d := range a.dynCalls {
		var ts []*fnNode
		if d.slot != "" {
			ts = a.resolveSlot(d.slot, map[string]bool{})
		}
		if len(ts) == 0 {
			a.unresolved = append(a.unresolved, d.fn.name+": "+d.desc)
			continue
		}
		d.site.callees = dedupFns(ts)
		if d.site.isGo {
			for _, n := range d.site.callees {
				a.goTargets[n] = append(a.goTargets[n], d.site)
			}
		}
	}
	// callers
	called := map[*fnNode]bool{}
	for _, f := range a.fns {
		for _, cs := range f.calls {
			for _, c := range cs.callees {
				called[c] = true
			}
		}
	}
	// roots.  The supported API is a root whether or not the package also calls it itself.
	for _, f := range a.fns {
		api := !f.isLit && f.exported && ((f.recv == "UDPSession" || f.recv == "Listener") ||
			(f.recv == "" && resultMentions(f.sig, "UDPSession", "Listener", "net.Conn", "net.Listener", "BlockCrypt")))
		switch {
		case f.rootKind == "init":
			f.isRoot = true
		case api:
			f.isRoot, f.rootKind = true, "api"
			if f.deprecated {
				f.rootKind = "dep"
			}
		case called[f]:
		case f.isLit:
			// a function value nobody in the package calls: run by external code at an unknown time
			f.isRoot, f.rootKind = true, "cb"
		default:
			f.isRoot, f.rootKind = true, "out"
		}
	}
	// reachability per category; goroutines and callbacks started from reachable code inherit the category
	reach := func(kinds map[string]bool, mark func(*fnNode) *bool) {
		var todo []*fnNode
		for _, f := range a.fns {
			if f.isRoot && kinds[f.rootKind] {
				todo = append(todo, f)
			}
		}
		for len(todo) > 0 {
			f := todo[len(todo)-1]
			todo = todo[:len(todo)-1]
			if *mark(f) {
				continue
			}
			*mark(f) = true
			for _, cs := range f.calls {
				todo = append(todo, cs.callees...)
			}
			for _, g := range a.fns {
				if g.isLit && g.rootKind == "cb" && g.parent != nil && a.topOf(g) == a.topOf(f) {
					todo = append(todo, g)
				}
			}
		}
	}
	reach(map[string]bool{"api": true, "init": true}, func(f *fnNode) *bool { return &f.reachIn })
	reach(map[string]bool{"dep": true}, func(f *fnNode) *bool { return &f.reachDep })
	reach(map[string]bool{"out": true}, func(f *fnNode) *bool { return &f.reachOut })

	// init-only: reachable from init and from nothing else (go statements start new threads and do not count)
	initReach := map[*fnNode]bool{}
	var visit func(f *fnNode)
	visit = func(f *fnNode) {
		if initReach[f] {
			return
		}
		initReach[f] = true
		for _, cs := range f.calls {
			if cs.isGo {
				continue
			}
			for _, c := range cs.callees {
				visit(c)
			}
		}
	}
	for _, f := range a.fns {
		if f.rootKind == "init" {
			visit(f)
		}
	}
	otherReach := map[*fnNode]bool{}
	var visit2 func(f *fnNode)
	visit2 = func(f *fnNode) {
		if otherReach[f] {
			return
		}
		otherReach[f] = true
		for _, cs := range f.calls {
			for _, c := range cs.callees {
				visit2(c)
			}
		}
	}
	for _, f := range a.fns {
		if f.isRoot && f.rootKind != "init" {
			visit2(f)
		}
	}
	for _, f := range a.fns {
		for _, cs := range f.calls {
			if cs.isGo {
				for _, c := range cs.callees {
					visit2(c)
				}
			}
		}
	}
	for _, f := range a.fns {
		f.initOnly = initReach[f] && !otherReach[f]
	}

	// which call sites count for a function's summaries
	counts := func(caller, callee *fnNode) bool {
		if callee.reachIn {
			return caller.reachIn
		}
		if callee.reachDep {
			return caller.reachDep
		}
		return true
	}

	// entry locksets: greatest fixed point.  entryX = held exclusively at every counted call site,
	// entryS = held at least shared at every counted call site (superset of entryX).
	for _, f := range a.fns {
		f.entryTop = !f.isRoot
		f.entryX, f.entryS = map[string]bool{}, map[string]bool{}
		f.prepubAll = !f.isRoot || f.rootKind == "init"
	}
	seen := map[*fnNode]bool{}
	for changed := true; changed; {
		changed = false
		for _, f := range a.fns {
			if !f.isRoot && !seen[f] {
				continue // not (yet) known to be reachable
			}
			for _, cs := range f.calls {
				for _, c := range cs.callees {
					if c.isRoot || !counts(f, c) {
						continue
					}
					if !seen[c] {
						seen[c] = true
						changed = true
					}
					// a call made in a pre-publication context contributes pre-publication accesses only:
					// it does not constrain the lockset of the post-publication ones
					if !cs.isGo && (cs.fresh || f.prepubAll) {
						continue
					}
					if c.prepubAll {
						c.prepubAll = false
						changed = true
					}
					sx, ss := map[string]bool{}, map[string]bool{}
					if !cs.isGo {
						sx, ss = effective(f, cs.eff)
					}
					if c.entryTop {
						c.entryTop = false
						c.entryX, c.entryS = sx, ss
						changed = true
					} else {
						nx, ns := interSet(c.entryX, sx), interSet(c.entryS, ss)
						if !setEq(nx, c.entryX) || !setEq(ns, c.entryS) {
							c.entryX, c.entryS = nx, ns
							changed = true
						}
					}
				}
			}
		}
	}
	for _, f := range a.fns {
		if !f.isRoot && !seen[f] { // unreachable
			f.prepubAll = false
		}
		if f.entryTop {
			f.entryTop = false
			f.entryX, f.entryS = map[string]bool{}, map[string]bool{}
		}
		if f.isRoot && f.rootKind != "init" {
			f.prepubAll = false
		}
	}

	// thread roots
	for _, f := range a.fns {
		f.threads = map[string]bool{}
	}
	var spread func(f *fnNode, t string)
	spread = func(f *fnNode, t string) {
		if f.threads[t] {
			return
		}
		f.threads[t] = true
		for _, cs := range f.calls {
			if cs.isGo {
				continue
			}
			for _, c := range cs.callees {
				spread(c, t)
			}
		}
	}
	for _, f := range a.fns {
		if f.isRoot {
			spread(f, "multi")
		}
	}
	for n, sites := range a.goTargets {
		unique := len(sites) == 1 && !sites[0].inLoop && sites[0].goFresh && !n.isLit
		if unique {
			spread(n, "go:"+n.name)
		} else {
			spread(n, "multi")
		}
	}
}

func (a *accessAnalysis) topOf(f *fnNode) *fnNode {
	for f.parent != nil {
		f = f.parent
	}
	return f
}

func dedupFns(in []*fnNode) []*fnNode {
	seen := map[*fnNode]bool{}
	var out []*fnNode
	for _, n := range in {
		if !seen[n] {
			seen[n] = true
			out = append(out, n)
		}
	}
	sort.Slice(out, func(i, j int) bool { return out[i].name < out[j].name })
	return out
}

// effective lockset at a point of f: x = held exclusively, s = held at least shared (s ⊇ x)
func effective(f *fnNode, e *lockEff) (x, s map[string]bool) {
	x, s = map[string]bool{}, map[string]bool{}
	for k := range f.entryX {
		if !e.relX[k] {
			x[k] = true
		}
	}
	for k := range f.entryS {
		if !e.relS[k] && !e.relX[k] {
			s[k] = true
		}
	}
	for k := range e.heldX {
		x[k] = true
	}
	for k := range e.heldS {
		s[k] = true
	}
	for k := range x {
		s[k] = true
	}
	return
}

// ---------------------------------------------------------------------------------------------
// output

type accessRow struct {
	Fn         string
	Cls        string
	Write      bool
	Atomic     bool
	Locks      []string
	RLocks     []string
	Prepub     bool
	Deprecated bool
	InScope    bool
	Thread     string
}

func (r accessRow) key() string {
	return fmt.Sprintf("%s|%s|%v|%v|%s|%s|%v|%v|%v|%s", r.Cls, r.Fn, r.Write, r.Atomic, strings.Join(r.Locks, ","), strings.Join(r.RLocks, ","), r.Prepub, r.Deprecated, r.InScope, r.Thread)
}

type accessSiteOut struct {
	File       string `json:"file"`
	Line       int    `json:"line"`
	Fn         string `json:"fn"`
	Class      string `json:"class"`
	Write      bool   `json:"write"`
	Atomic     bool   `json:"atomic"`
	Locks      string `json:"locks"`
	Prepub     bool   `json:"prepub"`
	Considered bool   `json:"considered"`
	ClassOK    bool   `json:"class_ok"`
}

func sortedKeys(m map[string]bool) []string {
	var ks []string
	for k := range m {
		ks = append(ks, k)
	}
	sort.Strings(ks)
	return ks
}

func (a *accessAnalysis) threadOf(f *fnNode) string {
	if len(f.threads) == 1 {
		for t := range f.threads {
			return t
		}
	}
	return "multi"
}

func (a *accessAnalysis) rows() (rows []accessRow, sites []accessSiteOut) {
	seen := map[string]bool{}
	for _, f := range a.fns {
		owner := f
		for _, ac := range f.acc {
			x, s := effective(owner, ac.eff)
			for k := range x {
				delete(s, k)
			}
			pre := ac.fresh || (f.prepubAll && !ac.global) || f.initOnly
			r := accessRow{Fn: f.name, Cls: ac.cls, Write: ac.write, Atomic: ac.atomic, Locks: sortedKeys(x), RLocks: sortedKeys(s), Prepub: pre,
				Deprecated: !f.reachIn && f.reachDep, InScope: f.reachIn, Thread: a.threadOf(f)}
			ps := a.p.fset.Position(ac.pos)
			sites = append(sites, accessSiteOut{File: filepath.Base(ps.Filename), Line: ps.Line, Fn: f.name, Class: ac.cls, Write: ac.write, Atomic: ac.atomic,
				Locks: strings.Join(r.Locks, ",") + "/" + strings.Join(r.RLocks, ","), Prepub: pre, Considered: !pre && r.InScope && !r.Deprecated})
			if !seen[r.key()] {
				seen[r.key()] = true
				rows = append(rows, r)
			}
		}
	}
	sort.Slice(rows, func(i, j int) bool { return rows[i].key() < rows[j].key() })
	return
}

// classVerdict mirrors KcpVerif.Lemmas.DRF.classOk (used only to annotate the side file for the
// race component; the obligation itself is decided by Lean)
func classVerdict(rows []accessRow) map[string]bool {
	by := map[string][]accessRow{}
	for _, r := range rows {
		if !r.Prepub && r.InScope && !r.Deprecated {
			by[r.Cls] = append(by[r.Cls], r)
		} else if _, ok := by[r.Cls]; !ok {
			by[r.Cls] = nil
		}
	}
	out := map[string]bool{}
	for c, rs := range by {
		imm, atom, conf := true, true, len(rs) > 0 && rs[0].Thread != "multi"
		for _, r := range rs {
			if r.Write {
				imm = false
			}
			if !r.Atomic {
				atom = false
			}
			if len(rs) > 0 && r.Thread != rs[0].Thread {
				conf = false
			}
		}
		locked := false
		if len(rs) > 0 {
			for _, m := range append(append([]string{}, rs[0].Locks...), rs[0].RLocks...) {
				all := true
				for _, r := range rs {
					h := contains(r.Locks, m) || (!r.Write && contains(r.RLocks, m))
					if !h {
						all = false
					}
				}
				if all {
					locked = true
				}
			}
		}
		out[c] = len(rs) == 0 || imm || atom || locked || conf
	}
	return out
}

func contains(xs []string, s string) bool {
	for _, x := range xs {
		if x == s {
			return true
		}
	}
	return false
}

func leanStr(s string) string {
	return "\"" + strings.NewReplacer("\\", "\\\\", "\"", "\\\"", "\n", " ").Replace(s) + "\""
}
func leanStrList(xs []string) string {
	var q []string
	for _, x := range xs {
		q = append(q, leanStr(x))
	}
	return "[" + strings.Join(q, ", ") + "]"
}
func leanBool(b bool) string {
	if b {
		return "true"
	}
	return "false"
}

func genAccessTable(p *pkgInfo) string {
	a := analyseAccesses(p)
	rows, sites := a.rows()
	// id tables
	clsSet, muSet, thSet := map[string]bool{}, map[string]bool{}, map[string]bool{}
	for _, r := range rows {
		clsSet[r.Cls] = true
		for _, m := range r.Locks {
			muSet[m] = true
		}
		for _, m := range r.RLocks {
			muSet[m] = true
		}
		if r.Thread != "multi" {
			thSet[r.Thread] = true
		}
	}
	classes, mutexes := sortedKeys(clsSet), sortedKeys(muSet)
	threads := append([]string{"multi"}, sortedKeys(thSet)...)
	idx := func(xs []string) map[string]int {
		m := map[string]int{}
		for i, x := range xs {
			m[x] = i
		}
		return m
	}
	ci, mi, ti := idx(classes), idx(mutexes), idx(threads)
	ids := func(xs []string) string {
		var q []string
		for _, x := range xs {
			q = append(q, fmt.Sprint(mi[x]))
		}
		return "[" + strings.Join(q, ", ") + "]"
	}
	var sb strings.Builder
	sb.WriteString("/-- One access of a function of package kcp to a shared location class (C14; produced by extract/tables_access.go). -/\n")
	sb.WriteString(accessRowDecl)
	sb.WriteString("def accessClassNames : List String := " + leanStrList(classes) + "\n")
	sb.WriteString("def accessMutexNames : List String := " + leanStrList(mutexes) + "\n")
	sb.WriteString("def accessThreadNames : List String := " + leanStrList(threads) + "\n\n")
	// one definition per class keeps every list literal small
	byCls := map[string][]accessRow{}
	for _, r := range rows {
		byCls[r.Cls] = append(byCls[r.Cls], r)
	}
	var parts []string
	for _, c := range classes {
		name := fmt.Sprintf("accessRows_%d", ci[c])
		parts = append(parts, name)
		fmt.Fprintf(&sb, "/-- class %d = %s -/\ndef %s : List AccessRow := [\n", ci[c], c, name)
		for k, r := range byCls[c] {
			sep := ","
			if k == len(byCls[c])-1 {
				sep = ""
			}
			fmt.Fprintf(&sb, "  ⟨%s, %d, %s, %s, %s, %s, %s, %s, %s, %d⟩%s\n", leanStr(r.Fn), ci[r.Cls], leanBool(r.Write), leanBool(r.Atomic),
				ids(r.Locks), ids(r.RLocks), leanBool(r.Prepub), leanBool(r.Deprecated), leanBool(r.InScope), ti[r.Thread], sep)
		}
		sb.WriteString("]\n")
	}
	sb.WriteString("\n/-- the access table grouped by class: entry k holds the rows of class k -/\n")
	sb.WriteString("def accessByClass : List (List AccessRow) := [" + strings.Join(parts, ", ") + "]\n")
	sb.WriteString("def accessTable : List AccessRow := accessByClass.flatten\n\n")
	sort.Strings(a.unknown)
	sort.Strings(a.assumed)
	sort.Strings(a.unresolved)
	sb.WriteString("/-- constructs the lockset analysis could not interpret (obligation: empty) -/\n")
	sb.WriteString("def accessUnknown : List String := " + leanStrList(uniq(a.unknown)) + "\n")
	sb.WriteString("/-- read-only assumptions about references handed to external functions -/\n")
	sb.WriteString("def accessAssumed : List String := " + leanStrList(uniq(a.assumed)) + "\n")
	sb.WriteString("/-- calls through function values that no function of the package flows into (user callbacks) -/\n")
	sb.WriteString("def accessUserCallbacks : List String := " + leanStrList(uniq(stripPos(a.unresolved))) + "\n")

	// side file with line numbers for the race component (not part of Generated.lean so that line
	// shifts do not invalidate the Lean build)
	if len(os.Args) > 2 {
		verdict := classVerdict(rows)
		for i := range sites {
			sites[i].ClassOK = verdict[sites[i].Class]
		}
		sort.Slice(sites, func(i, j int) bool {
			if sites[i].File != sites[j].File {
				return sites[i].File < sites[j].File
			}
			if sites[i].Line != sites[j].Line {
				return sites[i].Line < sites[j].Line
			}
			return sites[i].Class < sites[j].Class
		})
		var bad []string
		for c, ok := range verdict {
			if !ok {
				bad = append(bad, c)
			}
		}
		sort.Strings(bad)
		side := map[string]any{"sites": sites, "unprotected_classes": bad, "repo": p.dir}
		b, _ := json.MarshalIndent(side, "", " ")
		dir := filepath.Join(filepath.Dir(os.Args[2]), "..", "..", ".work")
		if err := os.MkdirAll(dir, 0o755); err == nil {
			_ = os.WriteFile(filepath.Join(dir, "access_sites.json"), b, 0o644)
		}
	}
	return sb.String()
}

func uniq(xs []string) []string {
	var out []string
	for i, x := range xs {
		if i == 0 || x != xs[i-1] {
			out = append(out, x)
		}
	}
	return out
}

// stripPos removes " at file:line" suffixes so that Generated.lean does not change with line shifts
func stripPos(xs []string) []string {
	var out []string
	for _, x := range xs {
		if i := strings.LastIndex(x, " at "); i >= 0 {
			x = x[:i]
		}
		out = append(out, x)
	}
	sort.Strings(out)
	return out
}
