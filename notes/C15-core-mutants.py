#!/usr/bin/env python3
# Self-test of the core-ownership half of C15 (component kcpown + Props/C15Core): single-edit
# mutations of kcp.go, one at a time, `./check C15` must exit 1.  Usage: C15-core-mutants.py [names]
import subprocess, sys, os, re, json, time
REPO=os.environ.get('MUT_REPO','/root/scratch/own/repo'); VERIF=os.environ.get('MUT_VERIF','/root/scratch/own/verif')
TMP=os.environ.get('MUT_TMP','/root/scratch/own/tmp/mut')
def sub(path, old, new, count=1):
    p=os.path.join(REPO,path); s=open(p).read()
    assert s.count(old)>=1, (path, old)
    s=s.replace(old,new,count); open(p,'w').write(s)
M={}
# DESIGN 12: recycleSegment without the nil reset (parse_ack recycles, parse_una recycles again)
M['K1-recycleSegment-no-nil']=lambda: sub('kcp.go','		defaultBufferPool.Put(seg.data)\n		seg.data = nil\n','		defaultBufferPool.Put(seg.data)\n')
# parse_data acquires the copy before it knows whether the segment is a duplicate (leak per duplicate)
M['K2-parse_data-get-for-duplicate']=lambda: sub('kcp.go','''	repeat := false
	if !kcp.rcv_buf.Has(sn) {
		// replicate the content if it's new
		dataCopy := defaultBufferPool.Get()[:len(newseg.data)]
''','''	repeat := false
	dataCopy := defaultBufferPool.Get()[:len(newseg.data)]
	if !kcp.rcv_buf.Has(sn) {
		// replicate the content if it's new
''')
# parse_una discards without recycling (leak of every segment not individually acked)
M['K3-parse_una-no-recycle']=lambda: sub('kcp.go','''		if _itimediff(una, seg.sn) > 0 {
			kcp.recycleSegment(seg)
			count++''','''		if _itimediff(una, seg.sn) > 0 {
			count++''')
# Recv recycles the segment before copying it out (read after recycle; same Get/Put counts)
M['K4-recv-recycle-before-copy']=lambda: sub('kcp.go','''		copy(buffer, seg.data)
		buffer = buffer[len(seg.data):]
		n += len(seg.data)
		kcp.recycleSegment(&seg)
''','''		data := seg.data
		kcp.recycleSegment(&seg)
		copy(buffer, data)
		buffer = buffer[len(data):]
		n += len(data)
''')
# parse_ack frees the buffer but forgets to mark the segment: flush retransmits from a recycled buffer
M['K5-parse_ack-put-without-nil-and-mark']=lambda: sub('kcp.go','''			seg.acked = 1
			kcp.recycleSegment(seg)
			break''','''			defaultBufferPool.Put(seg.data)
			break''')
# parse_ack recycles a private copy of the segment header: the queued segment keeps its data pointer
M['K6-parse_ack-recycles-copy']=lambda: sub('kcp.go','''			seg.acked = 1
			kcp.recycleSegment(seg)
			break''','''			seg.acked = 1
			tmp := *seg
			kcp.recycleSegment(&tmp)
			break''')
# stream-mode Send appends into the last segment of snd_buf's neighbour: here, a new segment shares the previous buffer
M['K7-send-reuses-last-buffer']=lambda: sub('kcp.go','''		seg := kcp.newSegment(size)
		copy(seg.data, buffer[:size])''','''		seg := kcp.newSegment(size)
		if i > 0 {
			if last, ok := kcp.snd_queue.Peek(); ok && cap(last.data) > 0 {
				defaultBufferPool.Put(seg.data)
				seg.data = last.data[:cap(last.data)][:size]
			}
		}
		copy(seg.data, buffer[:size])''')
# ---- FEC decoder (component fecown + Props/C15Fec)
M['F1-decoder-recycles-returned-buffers']=lambda: sub('fec.go','''				for k := range shards[:dec.dataShards] {
					if !shardsflag[k] {
						recovered = append(recovered, shards[k])
					}
				}
			} else {''','''				for k := range shards[:dec.dataShards] {
					if !shardsflag[k] {
						recovered = append(recovered, shards[k])
					}
				}
				for _, buf := range newBuffers {
					defaultBufferPool.Put(buf)
				}
			} else {''')
M['F2-retune-keeps-shardset']=lambda: sub('fec.go','				dec.shardSet = make(map[uint32]*shardHeap) // empty the shard set\n','')
M['F3-discard-keeps-shard']=lambda: sub('fec.go','			delete(dec.shardSet, shardId)\n','')
M['F4-recycle-before-reconstruct']=lambda: (sub('fec.go','''		// case 1: all data shards are present
		if numDataShard == dec.dataShards {''','''		for _, pkt := range pkts {
			defaultBufferPool.Put(pkt)
		}
		// case 1: all data shards are present
		if numDataShard == dec.dataShards {'''), sub('fec.go','''		// recycle the packets
		for _, pkt := range pkts {
			defaultBufferPool.Put(pkt)
		}
	}
''','''	}
'''))
M['F5-duplicate-data-stored-again']=lambda: sub('fec.go','''	if shard.Has(in.seqid()) {
		return nil
	}''','''	if shard.Has(in.seqid()) && in.flag() == typeParity {
		return nil
	}''')
M['F6-failed-reconstruction-keeps-new-buffers']=lambda: sub('fec.go','''				for _, buf := range newBuffers {
					defaultBufferPool.Put(buf)
				}
''','''				_ = newBuffers
''')
M['F7-full-group-not-recycled']=lambda: sub('fec.go','''		if numDataShard == dec.dataShards {
			atomic.AddUint64(&DefaultSnmp.FECFullShardSet, 1)
		} else {''','''		if numDataShard == dec.dataShards {
			atomic.AddUint64(&DefaultSnmp.FECFullShardSet, 1)
			pkts = nil
		} else {''')
names=sys.argv[1:] or list(M)
res={}
os.makedirs(TMP+'/ev',exist_ok=True)
for n in names:
    subprocess.run(['git','-C',REPO,'checkout','--','.'],check=True)
    M[n]()
    b=subprocess.run('GOFLAGS=-mod=mod GOPROXY=off GOTOOLCHAIN=local go1.26 build ./ && GOFLAGS=-mod=mod GOPROXY=off GOTOOLCHAIN=local go1.26 vet -tags verif . ',shell=True,cwd=REPO,capture_output=True,text=True)
    if b.returncode!=0:
        res[n]='DOES NOT COMPILE: '+b.stderr[-300:]; print(n,res[n]); continue
    t0=time.time()
    env=dict(os.environ,VERIF_REPO=REPO,VERIF_EVIDENCE_DIR=TMP+'/ev',VERIF_SEED=os.environ.get('VERIF_SEED','1'))
    p=subprocess.run(['./check','C15'],cwd=VERIF,env=env,capture_output=True,text=True)
    out=p.stdout+p.stderr
    lines=[l for l in out.splitlines() if l.startswith('VIOLATION')]
    detail=''
    if lines:
        m=re.search(r'replay=(\S+)',lines[0])
        if m and os.path.exists(m.group(1)):
            body=open(m.group(1)).read().split('---',1)
            try: detail=(body[0].split('what: ')[1].split('\n')[0]+' :: '+body[1].strip().split('\n')[0])[:500]
            except Exception: detail=body[0][:300]
    res[n]='exit %d in %.0fs %s %s'%(p.returncode,time.time()-t0,' | '.join(l[:90] for l in lines) if lines else out[-300:],detail)
    try:
        ev=json.load(open(TMP+'/ev/C15.json'))
        for c in ev['coverage'].get('correspondence',[]):
            if c['component'] in ('kcpown','fecown'):
                mm=c.get('mismatch')
                res[n]+=' || %s: ops %s mismatch %s'%(c['component'],c['ops_compared'], ('line %d op %s impl [%s] model [%s]'%(mm['line'],mm['op'][:40],mm['impl'][:80],mm['model'][:80])) if mm else None)
        for comp in ('kcpown','fecown'):
            r=json.load(open(VERIF+'/.work/C15/'+comp+'/result.json'))
            kinds={}
            for v in (r['violations'] or []): kinds[v['kind']]=kinds.get(v['kind'],0)+1
            res[n]+=' || %s oracle violations: %s'%(comp,kinds)
            if r['violations']: res[n]+=' first: '+r['violations'][0]['detail'][:200]
    except Exception as e: res[n]+=' (no kcpown evidence: %s)'%e
    print(n,'=>',res[n],flush=True)
    open(TMP+'/'+n+'.log','w').write(out)
subprocess.run(['git','-C',REPO,'checkout','--','.'],check=True)
json.dump(res,open(TMP+'/results.json','w'),indent=1)
