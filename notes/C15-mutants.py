#!/usr/bin/env python3
import subprocess, sys, os, re, json, time
REPO='/root/scratch/pool/repo'; VERIF='/root/scratch/pool/verif'
def sub(path, old, new, count=1):
    p=os.path.join(REPO,path); s=open(p).read()
    assert s.count(old)>=1, (path, old)
    s=s.replace(old,new,count); open(p,'w').write(s)
M={}
M['M1-recycleSegment-no-nil']=lambda: sub('kcp.go','		defaultBufferPool.Put(seg.data)\n		seg.data = nil\n','		defaultBufferPool.Put(seg.data)\n')
M['M2-recovered-put-twice']=lambda: sub('sess.go','			// recycle the buffer\n			defaultBufferPool.Put(r)\n','			// recycle the buffer\n			defaultBufferPool.Put(r)\n			defaultBufferPool.Put(r)\n')
M['M3-recycle-before-tx']=lambda: sub('sess.go','''				s.tx(txqueue)
				s.kcp.debugLog(IKCP_LOG_OUTPUT, "conv", s.kcp.conv, "datalen", bytesToSend)
				// recycle
				for k := range txqueue {
					defaultBufferPool.Put(txqueue[k].Buffers[0])
					txqueue[k].Buffers = nil
				}
''','''				for k := range txqueue {
					defaultBufferPool.Put(txqueue[k].Buffers[0])
				}
				s.tx(txqueue)
				s.kcp.debugLog(IKCP_LOG_OUTPUT, "conv", s.kcp.conv, "datalen", bytesToSend)
				// recycle
				for k := range txqueue {
					txqueue[k].Buffers = nil
				}
''')
M['M4-update-reput-after-die']=lambda: sub('sess.go','''	select {
	case <-s.die:
	default:
		s.mu.Lock()
		interval := s.kcp.flush(IKCP_FLUSH_FULL)''','''	select {
	case <-s.die:
		SystemTimedSched.Put(s.update, time.Now().Add(10*time.Millisecond))
	default:
		s.mu.Lock()
		interval := s.kcp.flush(IKCP_FLUSH_FULL)''')
M['M5-readloop-ignores-isClosed']=lambda: sub('readloop.go','''		if s.isClosed() {
			return
		}

		// make sure the packet is from the same source''','''		// make sure the packet is from the same source''')
M['M5b-readloop-ignores-read-error']=lambda: sub('readloop.go','''		if err != nil {
			s.notifyReadError(errors.WithStack(err))
			return
		}

		if s.isClosed() {''','''		if err != nil {
			s.notifyReadError(errors.WithStack(err))
			continue
		}

		if s.isClosed() {''')
M['M6-no-backlog-close']=lambda: sub('sess.go','	l.closeUnaccepted()\n\n	if l.ownConn {','	if l.ownConn {')
M['M6b-closed-listener-creates-sessions']=lambda: (sub('sess.go','''	select {
	case <-l.die:
		return
	default:
	}

	// new session''','''	// new session'''), sub('sess.go','''	select {
	case <-l.die:
		l.closeUnaccepted()
	default:
	}
}''','''}'''))
M['M8-fec-recovered-also-recycled-by-decoder']=lambda: sub('fec.go','''				for k := range shards[:dec.dataShards] {
					if !shardsflag[k] {
						recovered = append(recovered, shards[k])
					}
				}
			} else {''','''				for k := range shards[:dec.dataShards] {
					if !shardsflag[k] {
						recovered = append(recovered, shards[k])
					}
				}
				for _, buf := range newBuffers {
					defaultBufferPool.Put(buf)
				}
			} else {''')
M['M10-retune-keeps-shardset']=lambda: sub('fec.go','				dec.shardSet = make(map[uint32]*shardHeap) // empty the shard set\n','')
M['M11-discard-keeps-shard']=lambda: sub('fec.go','			delete(dec.shardSet, shardId)\n','')
M['M12-fec-recycle-before-reconstruct']=lambda: (sub('fec.go','''		// case 1: all data shards are present
		if numDataShard == dec.dataShards {''','''		for _, pkt := range pkts {
			defaultBufferPool.Put(pkt)
		}
		// case 1: all data shards are present
		if numDataShard == dec.dataShards {'''), sub('fec.go','''		// recycle the packets
		for _, pkt := range pkts {
			defaultBufferPool.Put(pkt)
		}
	}
''','''	}
'''))
M['M13-monitor-ignores-read-error']=lambda: sub('readloop.go','''			l.notifyReadError(errors.WithStack(err))
			return''','''			l.notifyReadError(errors.WithStack(err))
			continue''')
M['M14-output-drop-without-die-check-puts-and-sends']=lambda: sub('sess.go','''			case <-sess.die:
				return
			default:''','''			case <-sess.die:
				defaultBufferPool.Put(bts)
				sess.chPostProcessing <- sendRequest{bts, false}
			default:''')
names=sys.argv[1:] or [n for n in M if not n.startswith("M14")]
res={}
for n in names:
    subprocess.run(['git','-C',REPO,'checkout','--','.'],check=True)
    M[n]()
    b=subprocess.run('GOFLAGS=-mod=mod GOPROXY=off GOTOOLCHAIN=local go1.26 build ./ && GOFLAGS=-mod=mod GOPROXY=off GOTOOLCHAIN=local go1.26 vet -tags verif . ',shell=True,cwd=REPO,capture_output=True,text=True)
    if b.returncode!=0:
        res[n]='DOES NOT COMPILE: '+b.stderr[-300:]; print(n,res[n]); continue
    t0=time.time()
    env=dict(os.environ,VERIF_REPO=REPO,VERIF_EVIDENCE_DIR='/root/scratch/pool/tmp/mut/ev',VERIF_SEED=os.environ.get('VERIF_SEED','1'))
    p=subprocess.run(['./check','C15'],cwd=VERIF,env=env,capture_output=True,text=True)
    out=p.stdout+p.stderr
    line=[l for l in out.splitlines() if l.startswith('VIOLATION')]
    detail=''
    if line:
        m=re.search(r'replay=(\S+)',line[0])
        if m and os.path.exists(m.group(1)):
            body=open(m.group(1)).read().split('---',1)
            detail=(body[0].split('what: ')[1].split('\n')[0]+' :: '+body[1].strip().split('\n')[0])[:400]
    res[n]='exit %d in %.0fs %s %s'%(p.returncode,time.time()-t0,line[0][:60] if line else out[-200:],detail)
    print(n,'=>',res[n],flush=True)
subprocess.run(['git','-C',REPO,'checkout','--','.'],check=True)
json.dump(res,open('/root/scratch/pool/tmp/mut/results.json','w'),indent=1)
