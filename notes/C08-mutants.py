#!/usr/bin/env python3
"""Self-test for C08: apply single-edit mutations to crypt.go in a scratch repo worktree, run
./check C08, expect exit 1 with a VIOLATION line; revert.  Usage:
  VERIF_REPO=/root/scratch/cfb/repo python3 notes/C08-mutants.py [name ...]"""
import json, os, subprocess, sys

REPO = os.environ.get("VERIF_REPO", "/root/scratch/cfb/repo")
ROOT = os.path.dirname(os.path.dirname(os.path.abspath(__file__)))
F = os.path.join(REPO, "crypt.go")

# (name, old, new, which occurrence (0-based) of `old`)
MUTANTS = [
    ("iv-symmetric", "initialVector = []byte{167, 115,", "initialVector = []byte{168, 115,", 0),
    ("dec8-xor-before-encrypt-next",
     "\t\t// 1\n\t\tblock.Encrypt(next, s[0:8])\n\t\tsubtle.XORBytes(d[0:8], s[0:8], tbl)\n",
     "\t\t// 1\n\t\tsubtle.XORBytes(d[0:8], s[0:8], tbl)\n\t\tblock.Encrypt(next, s[0:8])\n", 0),
    ("dec16-left-xor-before-encrypt-next",
     "\tcase 3:\n\t\tblock.Encrypt(next, src[base:])\n\t\tsubtle.XORBytes(dst[base:], src[base:], tbl)\n",
     "\tcase 3:\n\t\tsubtle.XORBytes(dst[base:], src[base:], tbl)\n\t\tblock.Encrypt(next, src[base:])\n", 0),
    ("enc8-left-off-by-one", "\tleft := n & 7    // remaining blocks after groups\n\n\tfor range repeat {\n\t\ts := src[base:][0:64]\n\t\td := dst[base:][0:64]\n\t\t// 1\n\t\tsubtle.XORBytes(d[0:8], s[0:8], tbl)",
     "\tleft := n&7 - 1  // remaining blocks after groups\n\n\tfor range repeat {\n\t\ts := src[base:][0:64]\n\t\td := dst[base:][0:64]\n\t\t// 1\n\t\tsubtle.XORBytes(d[0:8], s[0:8], tbl)", 0),
    ("dec16-repeat-off-by-one", "\trepeat := n >> 3 // number of 8-block groups (128 bytes each)\n\tleft := n & 7    // remaining blocks after groups\n\n\t// 8x",
     "\trepeat := (n + 1) >> 3 // number of 8-block groups (128 bytes each)\n\tleft := (n + 1) & 7    // remaining blocks after groups\n\n\t// 8x", 0),
    ("dec8-tail-uses-next", "\tcase 0:\n\t\tsubtle.XORBytes(dst[base:], src[base:], tbl)\n\t}\n}\n\n// decrypt16",
     "\tcase 0:\n\t\tsubtle.XORBytes(dst[base:], src[base:], next)\n\t}\n}\n\n// decrypt16", 0),
    ("enc16-feedback-from-src", "block.Encrypt(tbl, d[32:48])", "block.Encrypt(tbl, s[32:48])", 0),
    ("enc8-skip-one-feedback", "\t\t// 6\n\t\tsubtle.XORBytes(d[40:48], s[40:48], tbl)\n\t\tblock.Encrypt(tbl, d[40:48])\n",
     "\t\t// 6\n\t\tsubtle.XORBytes(d[40:48], s[40:48], tbl)\n\t\tblock.Encrypt(tbl, d[32:40])\n", 0),
    ("salsa-d4-reverted", "\t\t// too short to carry a nonce: pass through unchanged, also into a separate dst\n\t\tcopy(dst, src)\n\t\treturn", "\t\treturn", 0),
    ("salsa-nonce-not-copied", "\tif &dst[0] != &src[0] {\n\t\tcopy(dst[:8], src[:8])\n\t}\n}\n\n//go:nosplit\nfunc (c *salsa20BlockCrypt) Decrypt",
     "\tif &dst[0] == &src[0] {\n\t\tcopy(dst[:8], src[:8])\n\t}\n}\n\n//go:nosplit\nfunc (c *salsa20BlockCrypt) Decrypt", 0),
    ("none-decrypt-no-copy", "func (c *noneBlockCrypt) Decrypt(dst, src []byte) {\n\tif len(src) == 0 {\n\t\treturn\n\t}\n\tif &dst[0] != &src[0] {",
     "func (c *noneBlockCrypt) Decrypt(dst, src []byte) {\n\tif len(src) == 0 {\n\t\treturn\n\t}\n\tif &dst[0] == &src[0] {", 0),
    ("aead-capacity-check-removed", "if dst == nil || cap(dst)-len(dst) < len(plaintext)+a.aead.Overhead() {", "if dst == nil {", 0),
    ("aead-capacity-off-by-overhead", "cap(dst)-len(dst) < len(plaintext)+a.aead.Overhead()", "cap(dst)-len(dst) < len(plaintext)", 0),
    ("sm4-dec-own-cipher-reverted", "decrypt(c.decBlock, dst, src, c.decbuf)", "decrypt(c.block, dst, src, c.decbuf)", 0),
    ("blockcrypt-shared-mutex-removed", "\tc.decMu.Lock()\n\tdecrypt(c.decBlock, dst, src, c.decbuf)\n\tc.decMu.Unlock()", "\tdecrypt(c.decBlock, dst, src, c.decbuf)", 0),
]


def nth_replace(s, old, new, k):
    i = -1
    for _ in range(k + 1):
        i = s.index(old, i + 1)
    return s[:i] + new + s[i + len(old):]


def main():
    want = set(sys.argv[1:])
    orig = open(F).read()
    rows = []
    try:
        for name, old, new, k in MUTANTS:
            if want and name not in want:
                continue
            assert old in orig, name
            open(F, "w").write(nth_replace(orig, old, new, k))
            p = subprocess.run(["./check", "C08"], cwd=ROOT, env=dict(os.environ, VERIF_REPO=REPO, VERIF_EVIDENCE_DIR=os.path.join(ROOT, ".work", "ev-mut")),
                               stdout=subprocess.PIPE, stderr=subprocess.PIPE, text=True)
            vio = [l for l in p.stdout.splitlines() if l.startswith("VIOLATION")]
            how = ""
            if vio:
                rp = vio[0].split("replay=")[1].split()[0]
                head = open(rp).read().split("---")
                how = [l for l in head[0].splitlines() if l.startswith(("kind:", "what:"))]
                how = "; ".join(how) + " | " + head[1].strip().splitlines()[0][:160]
            ev = json.load(open(os.path.join(ROOT, ".work", "ev-mut", "C08.json")))
            c = ev["coverage"]
            kinds = sorted({v["kind"] for v in c["oracle_violations"]})
            mm = c["correspondence"][0]["mismatch"]
            rows.append((name, p.returncode, bool(vio), kinds, (mm or {}).get("op", "")[:60], c["broken_proof_obligations"][:1], how))
            print(rows[-1], flush=True)
            open(F, "w").write(orig)
    finally:
        open(F, "w").write(orig)
    bad = [r for r in rows if r[1] != 1 or not r[2]]
    print("MISSED:" if bad else "all caught", [r[0] for r in bad])


if __name__ == "__main__":
    main()
