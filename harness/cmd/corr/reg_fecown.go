package main

import "verif/harness/comp/fecown"

func init() {
	register("fecown", fecown.Run, false)
}
