package main

import "verif/harness/comp/sesse2e"

func init() {
	register("sess", sesse2e.Run, true)
}
