package main

import "verif/harness/comp/kcpcore"

func init() {
	register("kcp", kcpcore.Run, true)
	register("kcp-clean", kcpcore.RunClean, true)
	register("kcp-stall", kcpcore.RunStall, true)
	register("kcp-shift", kcpcore.RunShift, true)
	register("kcp-mtu", kcpcore.RunMtu, true)
	register("kcp-forge", kcpcore.RunForge, true)
}
