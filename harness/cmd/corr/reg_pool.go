package main

import "verif/harness/comp/pool"

func init() {
	register("pool", pool.Run, false)
}
