package main

import "verif/harness/comp/cfb"

func init() {
	register("cfb", cfb.Run, false)
}
