package main

import "verif/harness/comp/kcpown"

func init() {
	register("kcpown", kcpown.Run, true)
}
