package main

import "verif/harness/comp/autotune"

func init() {
	register("autotune", autotune.Run, false)
}
