package main

import "verif/harness/comp/race"

func init() {
	register("race", race.Run, false)
}
