package main

import "verif/harness/comp/sessin"

func init() {
	register("sessin", sessin.Run, false)
}
