package main

import "verif/harness/comp/wait"

func init() {
	register("wait", wait.Run, false) // runs its own synctest test main
}
