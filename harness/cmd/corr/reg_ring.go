package main

import "verif/harness/comp/ring"

func init() {
	register("ring", ring.Run, false)
}
