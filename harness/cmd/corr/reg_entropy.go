package main

import "verif/harness/comp/entropy"

func init() {
	register("entropy", entropy.Run, false)
}
