package main

import "verif/harness/comp/sessfec"

func init() {
	register("sessfec", sessfec.Run, true)
}
