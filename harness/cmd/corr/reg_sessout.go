package main

import "verif/harness/comp/sessout"

func init() {
	register("wire", sessout.RunWire, false)
	register("oob", sessout.RunOOB, false)
}
