package main

import "verif/harness/comp/sched"

func init() {
	register("sched", sched.Run, false)
}
