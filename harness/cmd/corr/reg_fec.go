package main

import "verif/harness/comp/fec"

func init() {
	register("fec", fec.Run, false)
}
