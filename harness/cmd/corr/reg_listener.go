package main

import "verif/harness/comp/listener"

func init() {
	register("listener", listener.Run, false)
}
