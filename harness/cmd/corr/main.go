// corr runs one correspondence component against the real kcp-go code (built from the
// working tree with -tags verif) and writes ops.txt / impl.txt / result.json into -out.
package main

import (
	"flag"
	"fmt"
	"os"
	"testing"
	"testing/synctest"

	"verif/harness/internal/hx"
)

type component struct {
	run    func(o *hx.Out, g *hx.Rng, tier string)
	bubble bool // run inside a testing/synctest bubble (frozen virtual clock)
}

var components = map[string]component{}

// register is called from the init function of one reg_<name>.go file per component
// (separate files so that parallel branches never conflict).
func register(name string, run func(o *hx.Out, g *hx.Rng, tier string), bubble bool) {
	components[name] = component{run, bubble}
}

func main() {
	comp := flag.String("comp", "", "component")
	seed := flag.Uint64("seed", 1, "seed (VERIF_SEED)")
	tier := flag.String("tier", "quick", "quick|thorough")
	out := flag.String("out", "", "output directory")
	flag.Parse()
	c, ok := components[*comp]
	if !ok || *out == "" {
		fmt.Fprintln(os.Stderr, "usage: corr -comp <name> -out <dir> [-seed n] [-tier quick|thorough]")
		os.Exit(2)
	}
	body := func() {
		o := hx.NewOut(*out, *comp, *seed, *tier)
		c.run(o, hx.NewRng(*seed), *tier)
		o.Close()
	}
	if !c.bubble {
		body()
		return
	}
	// synctest needs a *testing.T: run the component as the only test of an in-process test main.
	os.Args = []string{os.Args[0], "-test.timeout=0"}
	testing.Main(func(pat, str string) (bool, error) { return true, nil },
		[]testing.InternalTest{{Name: "corr", F: func(t *testing.T) {
			synctest.Test(t, func(t *testing.T) { body() })
		}}}, nil, nil)
}
