// corr runs one correspondence component against the real kcp-go code (built from the
// working tree with -tags verif) and writes ops.txt / impl.txt / result.json into -out.
package main

import (
	"flag"
	"fmt"
	"os"

	"verif/harness/comp/pool"
	"verif/harness/comp/ring"
	"verif/harness/internal/hx"
)

var components = map[string]func(o *hx.Out, g *hx.Rng, tier string){
	"ring": ring.Run,
	"pool": pool.Run,
}

func main() {
	comp := flag.String("comp", "", "component")
	seed := flag.Uint64("seed", 1, "seed (VERIF_SEED)")
	tier := flag.String("tier", "quick", "quick|thorough")
	out := flag.String("out", "", "output directory")
	flag.Parse()
	run, ok := components[*comp]
	if !ok || *out == "" {
		fmt.Fprintln(os.Stderr, "usage: corr -comp <name> -out <dir> [-seed n] [-tier quick|thorough]")
		os.Exit(2)
	}
	o := hx.NewOut(*out, *comp, *seed, *tier)
	run(o, hx.NewRng(*seed), *tier)
	o.Close()
}
