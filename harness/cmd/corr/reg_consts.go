package main

import "verif/harness/comp/consts"

func init() {
	register("consts", consts.Run, false)
}
