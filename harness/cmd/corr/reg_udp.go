package main

import "verif/harness/comp/udp"

func init() {
	register("udp", udp.Run, false)
}
