// Package memnet: an in-memory net.PacketConn for driving sessions and listeners without
// sockets (blocking ReadFrom on a channel, WriteTo records), an Rng-driven entropy source, the
// inert scheduler switch and SNMP deltas.  Shared by the components `sessin` and `listener`.
package memnet

import (
	"errors"
	"net"
	"sync"
	"sync/atomic"
	"time"

	kcp "github.com/xtaci/kcp-go/v5"
	"verif/harness/internal/hx"
)

// Addr is a net.Addr that is NOT a *net.UDPAddr (the string form is all there is).
type Addr string

func (a Addr) Network() string { return "mem" }
func (a Addr) String() string  { return string(a) }

type Pkt struct {
	Data []byte
	From net.Addr
}

// Conn: ReadFrom blocks until Inject; every ReadFrom entry is signalled on Ready so that the
// harness knows the previous datagram has been processed completely (synchronous injection
// through the real read loop).  WriteTo records a copy.
type Conn struct {
	local  net.Addr
	in     chan Pkt
	Ready  chan struct{}
	mu     sync.Mutex
	out    []Pkt
	outSig chan struct{}
	closed chan struct{}
	once   sync.Once

	stallMu sync.Mutex
	stall   chan struct{} // non-nil: WriteTo blocks until it is closed (a socket whose send buffer is full)
}

func NewConn(local net.Addr) *Conn {
	return &Conn{local: local, in: make(chan Pkt), Ready: make(chan struct{}, 1<<16), outSig: make(chan struct{}, 1<<16), closed: make(chan struct{})}
}

// Stall makes every WriteTo block (on = true) until Stall(false) or Close.
func (c *Conn) Stall(on bool) {
	c.stallMu.Lock()
	defer c.stallMu.Unlock()
	if on && c.stall == nil {
		c.stall = make(chan struct{})
	} else if !on && c.stall != nil {
		close(c.stall)
		c.stall = nil
	}
}

func (c *Conn) ReadFrom(p []byte) (int, net.Addr, error) {
	select {
	case c.Ready <- struct{}{}:
	default:
	}
	select {
	case pk := <-c.in:
		n := copy(p, pk.Data)
		return n, pk.From, nil
	case <-c.closed:
		return 0, nil, errors.New("memnet: closed")
	}
}

// Inject hands one datagram to the reader and returns when the reader has come back for the
// next one (i.e. has finished processing this one).  false = nobody is reading / closed.
func (c *Conn) Inject(data []byte, from net.Addr) bool {
	// drain stale ready signals
	for {
		select {
		case <-c.Ready:
			continue
		default:
		}
		break
	}
	select {
	case c.in <- Pkt{append([]byte(nil), data...), from}:
	case <-c.closed:
		return false
	case <-time.After(30 * time.Second):
		return false
	}
	select {
	case <-c.Ready:
		return true
	case <-c.closed:
		return false
	case <-time.After(30 * time.Second):
		return false
	}
}

func (c *Conn) WriteTo(p []byte, addr net.Addr) (int, error) {
	select {
	case <-c.closed:
		return 0, errors.New("memnet: closed")
	default:
	}
	c.stallMu.Lock()
	st := c.stall
	c.stallMu.Unlock()
	if st != nil {
		select {
		case <-st:
		case <-c.closed:
			return 0, errors.New("memnet: closed")
		}
	}
	c.mu.Lock()
	c.out = append(c.out, Pkt{append([]byte(nil), p...), addr})
	c.mu.Unlock()
	select {
	case c.outSig <- struct{}{}:
	default:
	}
	return len(p), nil
}

// Take returns and clears what has been written so far.
func (c *Conn) Take() []Pkt {
	c.mu.Lock()
	defer c.mu.Unlock()
	o := c.out
	c.out = nil
	return o
}

// WaitOut waits until at least n datagrams have been written since the last Take (the
// post-processing goroutine of a session is asynchronous) or the timeout passes.
func (c *Conn) WaitOut(n int, d time.Duration) int {
	deadline := time.After(d)
	for {
		c.mu.Lock()
		k := len(c.out)
		c.mu.Unlock()
		if k >= n {
			return k
		}
		select {
		case <-c.outSig:
		case <-deadline:
			return k
		}
	}
}

func (c *Conn) Close() error                       { c.once.Do(func() { close(c.closed) }); return nil }
func (c *Conn) LocalAddr() net.Addr                { return c.local }
func (c *Conn) SetDeadline(t time.Time) error      { return nil }
func (c *Conn) SetReadDeadline(t time.Time) error  { return nil }
func (c *Conn) SetWriteDeadline(t time.Time) error { return nil }

// RngReader is an entropy source derived from the run's Rng (nonces become reproducible).
type RngReader struct {
	mu sync.Mutex
	G  *hx.Rng
}

func (r *RngReader) Read(p []byte) (int, error) {
	r.mu.Lock()
	defer r.mu.Unlock()
	for i := range p {
		p[i] = byte(r.G.U64())
	}
	return len(p), nil
}

// InertScheduler replaces the package scheduler by an instance that never runs anything: the
// zero value has no goroutines and nil channels, so Put only appends to a list.  (A scheduler
// that was started and then closed is NOT inert: its goroutines select between `die` and the
// pending notification at random and may still run an update() or two.)
func InertScheduler() {
	kcp.SystemTimedSched = &kcp.TimedSched{}
}

// Snmp is the subset of counters the receive path touches.
type Snmp struct {
	InCsumErrors, KCPInErrors, InPkts, InBytes, InErrs, OOBPackets, PassiveOpens, ActiveOpens, CurrEstab uint64
}

func ReadSnmp() Snmp {
	c := kcp.DefaultSnmp
	ld := atomic.LoadUint64
	return Snmp{ld(&c.InCsumErrors), ld(&c.KCPInErrors), ld(&c.InPkts), ld(&c.InBytes), ld(&c.InErrs), ld(&c.OOBPackets),
		ld(&c.PassiveOpens), ld(&c.ActiveOpens), ld(&c.CurrEstab)}
}

// Delta returns after - before per counter (CurrEstab may go down, hence int64).
type Delta struct {
	InCsumErrors, KCPInErrors, InPkts, InBytes, InErrs, OOBPackets, PassiveOpens, ActiveOpens, CurrEstab int64
}

func (a Snmp) Sub(b Snmp) Delta {
	return Delta{int64(a.InCsumErrors - b.InCsumErrors), int64(a.KCPInErrors - b.KCPInErrors), int64(a.InPkts - b.InPkts),
		int64(a.InBytes - b.InBytes), int64(a.InErrs - b.InErrs), int64(a.OOBPackets - b.OOBPackets),
		int64(a.PassiveOpens - b.PassiveOpens), int64(a.ActiveOpens - b.ActiveOpens), int64(a.CurrEstab - b.CurrEstab)}
}
