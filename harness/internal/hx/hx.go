// Package hx: shared helpers for correspondence components — one PRNG (splitmix64), the
// op/observation writers and the result record every component returns.
package hx

import (
	"bufio"
	"encoding/hex"
	"encoding/json"
	"fmt"
	"os"
	"path/filepath"
	"sort"
)

// Rng is splitmix64; every random choice of a run derives from one state (VERIF_SEED).
type Rng struct{ s uint64 }

func NewRng(seed uint64) *Rng {
	// seeds must not be gamma-multiples of each other (that would only shift the stream)
	r := &Rng{s: (seed+1)*0xD1342543DE82EF95 ^ 0x2545F4914F6CDD1D}
	r.s = r.U64() ^ (seed << 17)
	return r
}
func (r *Rng) U64() uint64 {
	r.s += 0x9E3779B97F4A7C15
	z := r.s
	z = (z ^ (z >> 30)) * 0xBF58476D1CE4E5B9
	z = (z ^ (z >> 27)) * 0x94D049BB133111EB
	return z ^ (z >> 31)
}
func (r *Rng) Intn(n int) int {
	if n <= 0 {
		return 0
	}
	return int(r.U64() % uint64(n))
}
func (r *Rng) U32() uint32       { return uint32(r.U64()) }
func (r *Rng) Bool() bool        { return r.U64()&1 == 1 }
func (r *Rng) Chance(p int) bool { return r.Intn(100) < p } // p percent
func (r *Rng) Bytes(n int) []byte {
	b := make([]byte, n)
	for i := range b {
		b[i] = byte(r.U64())
	}
	return b
}
func (r *Rng) Pick(xs []int) int { return xs[r.Intn(len(xs))] }
func (r *Rng) Fork() *Rng        { return NewRng(r.U64()) }

// Hex encodes bytes; "-" is the empty string (the driver uses the same convention).
func Hex(b []byte) string {
	if len(b) == 0 {
		return "-"
	}
	return hex.EncodeToString(b)
}

// Violation is a failure of the property itself observed on the implementation (oracle),
// as opposed to a model/implementation disagreement (found later by diffing).
type Violation struct {
	Kind   string   `json:"kind"`   // stable identifier, matched against known_findings.json
	Detail string   `json:"detail"` // human readable
	Replay []string `json:"replay"` // op lines (or a description) reproducing it
}

// Result is what a component run reports.
type Result struct {
	Component    string         `json:"component"`
	Seed         uint64         `json:"seed"`
	Tier         string         `json:"tier"`
	Ops          int            `json:"ops"`          // op lines emitted (= evaluations)
	Cases        int            `json:"cases"`        // histories / op sequences
	Distinct     int            `json:"distinct"`     // distinct non-trivial cases (component's rule)
	Rule         string         `json:"rule"`         // what counts as distinct & non-trivial
	Distribution map[string]int `json:"distribution"` // op kinds, sizes, branches, error kinds
	Samples      []string       `json:"samples"`
	Violations   []Violation    `json:"violations"`
	Notes        []string       `json:"notes"`
}

// Out writes the op lines for the Lean driver and the implementation's observation per line.
type Out struct {
	dir        string
	ops, impl  *bufio.Writer
	fo, fi     *os.File
	Res        Result
	distinct   map[string]struct{}
	caseStart  int
	sampleLeft int
}

func NewOut(dir, comp string, seed uint64, tier string) *Out {
	must(os.MkdirAll(dir, 0o755))
	fo, err := os.Create(filepath.Join(dir, "ops.txt"))
	must(err)
	fi, err := os.Create(filepath.Join(dir, "impl.txt"))
	must(err)
	return &Out{dir: dir, fo: fo, fi: fi, ops: bufio.NewWriterSize(fo, 1<<20), impl: bufio.NewWriterSize(fi, 1<<20),
		Res:        Result{Component: comp, Seed: seed, Tier: tier, Distribution: map[string]int{}},
		distinct:   map[string]struct{}{},
		sampleLeft: 3}
}

// Op records one operation line and what the real code did.
func (o *Out) Op(op string, obs string) {
	fmt.Fprintln(o.ops, op)
	fmt.Fprintln(o.impl, obs)
	o.Res.Ops++
	if o.sampleLeft > 0 && o.Res.Ops-o.caseStart <= 12 {
		o.Res.Samples = append(o.Res.Samples, op+" => "+trunc(obs, 160))
	}
}

// Case marks the start of a new history; key identifies it for the distinct count
// (empty key = trivial, not counted).
func (o *Out) Case(key string) {
	o.Res.Cases++
	o.caseStart = o.Res.Ops
	if o.sampleLeft > 0 {
		o.sampleLeft--
	}
	if key != "" {
		o.distinct[key] = struct{}{}
	}
}

func (o *Out) Count(k string)         { o.Res.Distribution[k]++ }
func (o *Out) CountN(k string, n int) { o.Res.Distribution[k] += n }
func (o *Out) Note(s string)          { o.Res.Notes = append(o.Res.Notes, s) }
func (o *Out) Violate(v Violation) {
	if len(o.Res.Violations) < 20 {
		o.Res.Violations = append(o.Res.Violations, v)
		// checkpoint: a run that is cut short by its time budget (or crashes later) keeps what it found
		if b, err := json.MarshalIndent(o.Res, "", " "); err == nil {
			tmp := filepath.Join(o.dir, "result.json.tmp")
			if os.WriteFile(tmp, b, 0o644) == nil {
				os.Rename(tmp, filepath.Join(o.dir, "result.partial.json"))
			}
		}
	}
}

func (o *Out) Close() {
	o.Res.Distinct = len(o.distinct)
	must(o.ops.Flush())
	must(o.impl.Flush())
	o.fo.Close()
	o.fi.Close()
	b, _ := json.MarshalIndent(o.Res, "", " ")
	must(os.WriteFile(filepath.Join(o.dir, "result.json"), b, 0o644))
}

func SortedKeys(m map[string]int) []string {
	ks := make([]string, 0, len(m))
	for k := range m {
		ks = append(ks, k)
	}
	sort.Strings(ks)
	return ks
}

func trunc(s string, n int) string {
	if len(s) > n {
		return s[:n] + "…"
	}
	return s
}

func must(err error) {
	if err != nil {
		panic(err)
	}
}

// Try runs f and converts a panic of the real code into a short message ("" = no panic).
func Try(f func()) (msg string) {
	defer func() {
		if r := recover(); r != nil {
			msg = fmt.Sprint(r)
			if len(msg) > 120 {
				msg = msg[:120]
			}
		}
	}()
	f()
	return ""
}

// HashKey is a short stable identifier of a (long) case description.
func HashKey(s string) string {
	var h uint64 = 1469598103934665603
	for i := 0; i < len(s); i++ {
		h ^= uint64(s[i])
		h *= 1099511628211
	}
	return fmt.Sprintf("%016x", h)
}
