// Package fecown: correspondence component `fecown` (C15, ownership half, FEC decoder) — the real
// fecDecoder against the INSTRUMENTED model Model/FecOwn.
//
// The decoder inputs are those of component `fec`: its generator (matched and mismatched ratios,
// every arrival pattern of small groups, loss, duplicates, re-tune, old and wrapped ids) is run into a
// scratch directory and its decoder op lines (`dec d p`, `newest id`, `d hex`) are replayed here on a
// fresh real decoder, this time looking at the buffer pool: per `d` the harness does what kcpInput
// does — decode, read the recovered shards, Put them — and logs
//
//	g=<gets> p=<puts> G=<n,...> P=<n,...> H=<n,...>
//
// n = acquisition number since `dec` (the n-th Get, whichever address sync.Pool handed out), G/P the
// buffers acquired / recycled during the op, H the buffers held by the shard sets after it, each
// ascending (the decoder recycles in map and heap order).
//
// Implementation-side oracles (Violation kinds pool-*): every sanitizer report (double / foreign put,
// write after put, alias), a stored packet whose buffer is in the pool (pool-use-after-put), one
// buffer stored twice (pool-shared-buffer), acquired - recycled = stored (pool-leak), poison in a
// recovered shard (pool-read-after-put).
package fecown

import (
	"bufio"
	"encoding/hex"
	"fmt"
	"os"
	"path/filepath"
	"sort"
	"strconv"
	"strings"

	kcp "github.com/xtaci/kcp-go/v5"
	"verif/harness/comp/fec"
	"verif/harness/internal/hx"
)

type runner struct {
	o       *hx.Out
	dec     *kcp.VerifFECDecoder
	ops     []string
	seenEv  int
	seenRep int
	acq     int
	acqOf   map[int]int
	g0, p0  int
	cases   int
}

func (x *runner) viol(kind, detail string) {
	x.o.Violate(hx.Violation{Kind: kind, Detail: fmt.Sprintf("decoder %d: %s", x.cases, detail), Replay: append([]string(nil), x.ops...)})
}

func (x *runner) logOp(op, obs string) {
	x.ops = append(x.ops, op)
	x.o.Op(op, obs)
	x.o.Count("op:" + strings.Fields(op)[0])
}

func (x *runner) reports(after string) {
	reps := kcp.VerifPoolReports()
	for _, r := range reps[min(x.seenRep, len(reps)):] {
		kind := r
		if i := strings.Index(r, ":"); i > 0 {
			kind = r[:i]
		}
		x.viol(kind, fmt.Sprintf("after %s: %s", after, r))
	}
	x.seenRep = len(reps)
}

func nums(l []int) string {
	if len(l) == 0 {
		return "-"
	}
	sort.Ints(l)
	s := make([]string, len(l))
	for i, n := range l {
		s[i] = strconv.Itoa(n)
	}
	return strings.Join(s, ",")
}

func (x *runner) newDec(d, p int, line string) {
	if len(x.ops) > 0 {
		x.o.Case(hx.HashKey(strings.Join(x.ops, "\n")))
	}
	x.cases++
	x.ops = x.ops[:0]
	kcp.VerifPoolReset()
	x.seenEv, x.seenRep, x.acq, x.acqOf, x.g0, x.p0 = 0, 0, 0, map[int]int{}, 0, 0
	x.dec = kcp.VerifNewFECDecoder(d, p)
	if x.dec == nil {
		x.logOp(line, "nil")
	} else {
		x.logOp(line, "ok")
	}
}

func (x *runner) decode(pkt []byte, line string) {
	if x.dec == nil {
		return
	}
	var rec [][]byte
	in := append([]byte(nil), pkt...)
	if pm := hx.Try(func() { rec = x.dec.Decode(in) }); pm != "" {
		x.logOp(line, "panic")
		x.o.Count("panic")
		x.dec = nil // abandoned, as the model does not say what a panicking decoder leaves behind
		return
	}
	// the caller's part (sess.go kcpInput): read every recovered shard, then recycle it
	for _, r := range rec {
		run := 0
		for _, c := range r {
			if c == kcp.VerifPoison {
				run++
				if run >= 8 {
					x.viol("pool-read-after-put", fmt.Sprintf("a recovered shard of %d bytes contains a run of poison bytes", len(r)))
					break
				}
			} else {
				run = 0
			}
		}
		kcp.VerifPoolUse(r[:cap(r)])
		kcp.VerifPoolRelease(r)
	}
	if len(rec) > 0 {
		x.o.Count("d:recovered-call")
		x.o.CountN("d:recovered-shards", len(rec))
	}
	g1, p1 := kcp.VerifPoolCounts()
	evs := kcp.VerifPoolEvents()
	var gs, ps []int
	for _, ev := range evs[x.seenEv:] {
		switch ev.Kind {
		case 'g':
			x.acqOf[ev.ID] = x.acq
			gs = append(gs, x.acq)
			x.acq++
		case 'p':
			if n, ok := x.acqOf[ev.ID]; ok {
				ps = append(ps, n)
			} else {
				ps = append(ps, -1-ev.ID)
			}
		}
	}
	x.seenEv = len(evs)
	var held []int
	seen := map[int]bool{}
	for _, id := range x.dec.BufIDs() {
		n, ok := x.acqOf[id]
		if id < 0 || !ok {
			x.viol("pool-foreign-buffer", fmt.Sprintf("after %s: a shard set stores a buffer the pool did not hand out (%d)", line[:min(len(line), 40)], id))
			n = -1 - id
		}
		if seen[id] {
			x.viol("pool-shared-buffer", fmt.Sprintf("after %s: buffer #%d is stored twice in the shard sets", line[:min(len(line), 40)], id))
		}
		seen[id] = true
		held = append(held, n)
	}
	x.logOp(line, fmt.Sprintf("g=%d p=%d G=%s P=%s H=%s", g1-x.g0, p1-x.p0, nums(gs), nums(ps), nums(held)))
	x.o.CountN("pool-gets", g1-x.g0)
	x.o.CountN("pool-puts", p1-x.p0)
	if p1-x.p0 > 1 {
		x.o.Count("d:bulk-recycle")
	}
	x.g0, x.p0 = g1, p1
	x.reports(line[:min(len(line), 60)])
	if g1-p1 != len(held) {
		x.viol("pool-leak", fmt.Sprintf("after %s: %d buffers acquired, %d recycled, the shard sets store %d", line[:min(len(line), 40)], g1, p1, len(held)))
	}
}

// Run is the component entry point.
func Run(o *hx.Out, g *hx.Rng, tier string) {
	o.Res.Rule = "a case is the life of one decoder of component fec's histories (construction, optional newestShardId preset, every packet fed to it); distinct = hash of its op lines"
	tmp, err := os.MkdirTemp("", "fecown")
	if err != nil {
		panic(err)
	}
	defer os.RemoveAll(tmp)
	inner := hx.NewOut(tmp, "fec", 0, tier)
	fec.Run(inner, g, tier)
	inner.Close()
	f, err := os.Open(filepath.Join(tmp, "ops.txt"))
	if err != nil {
		panic(err)
	}
	defer f.Close()
	kcp.VerifPoolLog(true)
	defer kcp.VerifPoolLog(false)
	x := &runner{o: o, acqOf: map[int]int{}}
	nth := 0
	sc := bufio.NewScanner(f)
	sc.Buffer(make([]byte, 1<<20), 1<<24)
	for sc.Scan() {
		line := sc.Text()
		t := strings.Fields(line)
		switch {
		case len(t) == 3 && t[0] == "dec":
			d, _ := strconv.Atoi(t[1])
			p, _ := strconv.Atoi(t[2])
			nth++
			if tier == "thorough" && nth%2 == 0 { // thorough: every second decoder of fec's (much longer) run
				x.dec = nil
				continue
			}
			x.newDec(d, p, line)
		case len(t) == 2 && t[0] == "newest" && x.dec != nil:
			id, _ := strconv.ParseUint(t[1], 10, 32)
			x.dec.SetNewestShardID(uint32(id))
			x.logOp(line, "ok")
		case len(t) == 2 && t[0] == "d":
			var pkt []byte
			if t[1] != "-" {
				pkt, _ = hex.DecodeString(t[1])
			}
			x.decode(pkt, line)
		}
	}
	x.emptyGroups(g.Fork(), tier)
	if len(x.ops) > 0 {
		x.o.Case(hx.HashKey(strings.Join(x.ops, "\n")))
	}
}

// emptyGroups: the one way ReconstructData fails in a decoder that has dataShards packets of a group
// — every shard is empty (packets of exactly fecHeaderSize bytes; klauspost: ErrShardNoData).  On
// that path the decoder itself must recycle the buffers it acquired for the missing shards.  Groups
// of header-only packets (types agree with the positions, so no re-tune), some data positions
// missing, mixed with groups where one packet has a body (reconstruction succeeds).
func (x *runner) emptyGroups(g *hx.Rng, tier string) {
	rounds := 40
	if tier == "thorough" {
		rounds = 400
	}
	for r := 0; r < rounds; r++ {
		dp := [][2]int{{1, 1}, {2, 1}, {2, 2}, {3, 2}, {4, 4}, {10, 3}}[g.Intn(6)]
		d, p := dp[0], dp[1]
		n := d + p
		x.newDec(d, p, fmt.Sprintf("dec %d %d", d, p))
		base := uint32(g.Intn(1000)) * uint32(n)
		for grp := 0; grp < 6 && x.dec != nil; grp++ {
			withBody := g.Chance(35)
			order := make([]int, n)
			for i := range order {
				order[i] = i
			}
			for i := n - 1; i > 0; i-- {
				j := g.Intn(i + 1)
				order[i], order[j] = order[j], order[i]
			}
			for _, pos := range order {
				if g.Chance(25) {
					continue // lost
				}
				pkt := make([]byte, 6)
				seq := base + uint32(grp*n+pos)
				pkt[0], pkt[1], pkt[2], pkt[3] = byte(seq), byte(seq>>8), byte(seq>>16), byte(seq>>24)
				pkt[4] = 0xf1
				if pos >= d {
					pkt[4] = 0xf2
				}
				if withBody && g.Chance(50) {
					body := g.Bytes(2 + g.Intn(6))
					for i := range body {
						if body[i] == kcp.VerifPoison {
							body[i] = 1
						}
					}
					body[0], body[1] = byte(len(body)), 0
					pkt = append(pkt, body...)
				} else {
					x.o.Count("d:header-only")
				}
				x.decode(pkt, "d "+hex.EncodeToString(pkt))
				if g.Chance(10) {
					x.decode(pkt, "d "+hex.EncodeToString(pkt)) // duplicate
				}
			}
		}
	}
}
