// Package udp: component `udp` (C05, C11; oracle only) — real sessions over real loopback UDP
// sockets, so that the platform read loops (readloop_linux.go: recvmmsg batches, the source filter of
// a dialled session, the listener's monitor) and the batch writer (tx_linux.go) are what runs.  The
// deterministic components use in-memory transports and therefore the portable loops only.
//
// One case = one (cipher, FEC) configuration: a listener that echoes, two dialled clients, an
// attacker socket.  Ephemeral ports only (nothing fixed, nothing outside 127.0.0.1).  Verdicts:
//   - udp-echo-mismatch / udp-echo-timeout: what a client reads back is not what it wrote;
//   - udp-foreign-source-accepted: a forged, deliverable PUSH with the right conversation id sent to
//     a dialled session's socket from ANOTHER source port reached its stream (C11: source filter);
//   - udp-cross-talk: one client read bytes of the other client's stream (C11);
//   - udp-reader-dead: after runts (the empty datagram included), garbage and truncated datagrams
//     sent to both sockets, traffic no longer flows (C05/C06: the readers survive anything).
//
// Real time is used only as a generous upper bound (10 s per step); nothing is compared with a clock.
package udp

import (
	"bytes"
	"crypto/sha256"
	"encoding/binary"
	"fmt"
	"io"
	"net"
	"time"

	kcp "github.com/xtaci/kcp-go/v5"
	"verif/harness/internal/hx"
)

const marker = "EVIL-FOREIGN-SOURCE!"

type config struct {
	name   string
	mk     func() kcp.BlockCrypt
	ds, ps int
}

func configs() []config {
	sum := sha256.Sum256([]byte("udp component"))
	key := sum[:]
	aes := func() kcp.BlockCrypt { b, _ := kcp.NewAESBlockCrypt(key); return b }
	gcm := func() kcp.BlockCrypt { b, _ := kcp.NewAESGCMCrypt(key); return b }
	none := func() kcp.BlockCrypt { return nil }
	return []config{{"nil", none, 0, 0}, {"nil-fec", none, 3, 1}, {"aes-fec", aes, 10, 3}, {"gcm", gcm, 0, 0}}
}

func pattern(tag byte, off, n int) []byte {
	b := make([]byte, n)
	for i := range b {
		x := uint32(off+i)*2654435761 + uint32(tag)*97
		b[i] = byte(x >> 23)
	}
	return b
}

type runner struct {
	o   *hx.Out
	cfg config
}

func (x *runner) viol(kind, detail string) {
	x.o.Violate(hx.Violation{Kind: kind, Detail: x.cfg.name + ": " + detail,
		Replay: []string{"component udp, configuration " + x.cfg.name + ": ListenWithOptions(127.0.0.1:0) echoing, two DialWithOptions clients, an attacker UDP socket (see harness/comp/udp/udp.go)"}})
}

// echo writes data on s and reads the same amount back; returns what it read (nil on timeout)
func (x *runner) echo(s *kcp.UDPSession, data []byte) []byte {
	s.SetDeadline(time.Now().Add(10 * time.Second))
	defer s.SetDeadline(time.Time{})
	errc := make(chan error, 1)
	go func() { _, err := s.Write(data); errc <- err }()
	got := make([]byte, len(data))
	if _, err := io.ReadFull(s, got); err != nil {
		return nil
	}
	if err := <-errc; err != nil {
		return nil
	}
	return got
}

func kcpSeg(conv uint32, cmd byte, wnd uint16, ts, sn, una uint32, data []byte) []byte {
	b := make([]byte, 24+len(data))
	binary.LittleEndian.PutUint32(b, conv)
	b[4] = cmd
	binary.LittleEndian.PutUint16(b[6:], wnd)
	binary.LittleEndian.PutUint32(b[8:], ts)
	binary.LittleEndian.PutUint32(b[12:], sn)
	binary.LittleEndian.PutUint32(b[16:], una)
	binary.LittleEndian.PutUint32(b[20:], uint32(len(data)))
	copy(b[24:], data)
	return b
}

func (x *runner) runCase() {
	c := x.cfg
	x.o.Case("udp-" + c.name)
	l, err := kcp.ListenWithOptions("127.0.0.1:0", c.mk(), c.ds, c.ps)
	if err != nil {
		x.o.Note("udp: cannot listen on loopback: " + err.Error())
		return
	}
	defer l.Close()
	go func() {
		for {
			s, err := l.AcceptKCP()
			if err != nil {
				return
			}
			s.SetNoDelay(1, 10, 2, 1)
			go func(s *kcp.UDPSession) {
				defer s.Close()
				buf := make([]byte, 65536)
				for {
					n, err := s.Read(buf)
					if err != nil {
						return
					}
					if _, err := s.Write(buf[:n]); err != nil {
						return
					}
				}
			}(s)
		}
	}()
	addr := l.Addr().String()
	var cl [2]*kcp.UDPSession
	for i := range cl {
		s, err := kcp.DialWithOptions(addr, c.mk(), c.ds, c.ps)
		if err != nil {
			x.o.Note("udp: cannot dial: " + err.Error())
			return
		}
		s.SetNoDelay(1, 10, 2, 1)
		defer s.Close()
		cl[i] = s
	}
	off := [2]int{}
	round := func(what string, n int) bool {
		for i, s := range cl {
			data := pattern(byte('a'+i), off[i], n)
			got := x.echo(s, data)
			x.o.Count("echo")
			switch {
			case got == nil:
				kind := "udp-echo-timeout"
				switch what {
				case "after-garbage":
					kind = "udp-reader-dead"
				case "after-forged-push-from-foreign-port":
					kind = "udp-foreign-source-accepted" // the forged segments took the sequence numbers of the genuine ones
				}
				x.viol(kind, fmt.Sprintf("client %d: %d bytes written, the echo did not come back within 10 s (%s)", i, n, what))
				return false
			case !bytes.Equal(got, data):
				kind := "udp-echo-mismatch"
				if bytes.Contains(got, []byte(marker)) {
					kind = "udp-foreign-source-accepted"
				} else if other := pattern(byte('a'+1-i), 0, off[1-i]+n); len(got) >= 16 && bytes.Contains(other, got[:16]) {
					kind = "udp-cross-talk"
				}
				at := 0
				for at < len(got) && got[at] == data[at] {
					at++
				}
				x.viol(kind, fmt.Sprintf("client %d: echo differs from what was written at offset %d of %d (%s): got %x..., wrote %x...", i, at, n, what, got[at:min(at+12, len(got))], data[at:min(at+12, len(data))]))
				return false
			}
			off[i] += n
		}
		return true
	}
	if !round("first", 3000) || !round("bulk", 60000) {
		return
	}
	// the attacker: another socket on the loopback interface
	att, err := net.ListenUDP("udp", &net.UDPAddr{IP: net.IPv4(127, 0, 0, 1)})
	if err != nil {
		x.o.Note("udp: no attacker socket: " + err.Error())
		return
	}
	defer att.Close()
	laddr := func(s *kcp.UDPSession) *net.UDPAddr { return s.LocalAddr().(*net.UDPAddr) }
	// (1) forged deliverable PUSH, right conversation id, wrong source: only meaningful in clear
	if c.mk() == nil && c.ds == 0 {
		for i, s := range cl {
			var nxt, una uint32
			kcp.VerifE2ELocked(s, func() { d := kcp.VerifKCPState(kcp.VerifE2ECore(s)); nxt, una = d.RcvNxt, d.SndUna })
			for k := uint32(0); k < 3; k++ {
				att.WriteToUDP(kcpSeg(s.GetConv(), 81, 32, 0, nxt+k, una, []byte(marker)), laddr(s))
			}
			x.o.Count("forged-foreign-source")
			_ = i
		}
		time.Sleep(50 * time.Millisecond)
		if !round("after-forged-push-from-foreign-port", 2000) {
			return
		}
	}
	// (2) runts, garbage, truncated and oversize datagrams to every socket
	lu, _ := net.ResolveUDPAddr("udp", addr)
	targets := []*net.UDPAddr{lu, laddr(cl[0]), laddr(cl[1])}
	junk := [][]byte{{}, {0}, make([]byte, 3), make([]byte, 11), make([]byte, 19), make([]byte, 23), pattern('z', 0, 24), pattern('z', 7, 25), pattern('z', 9, 47), pattern('z', 3, 1500), pattern('z', 5, 2000)}
	for _, t := range targets {
		for _, j := range junk {
			att.WriteToUDP(j, t)
			x.o.Count("junk-datagram")
		}
	}
	time.Sleep(50 * time.Millisecond)
	if !round("after-garbage", 4000) {
		return
	}
	round("last", 20000)
}

func Run(o *hx.Out, g *hx.Rng, tier string) {
	o.Res.Rule = "a case is one (cipher, FEC) configuration over real loopback UDP sockets: echo rounds of two clients, forged PUSH from a foreign source port, runts/garbage to every socket, echo rounds again; distinct = configurations"
	for _, c := range configs() {
		x := &runner{o: o, cfg: c}
		if msg := hx.Try(x.runCase); msg != "" {
			x.viol("udp-panic", "panic: "+msg)
		}
		o.Op("case "+c.name, "done")
	}
	_ = g
}
