// Package sesse2e: component `sess` — two REAL sessions (UDPSession) connected by in-memory
// PacketConns under a synctest bubble with an inert scheduler, pumped by hand.
//
//   - for the configuration without cipher and FEC every operation is logged as an op line and
//     compared with Model/Sess (Read bufptr logic, WriteBuffers admission/chunking/flush rule,
//     receive path, update) on top of Model/Kcp: return values, wire datagrams, core state;
//   - for every cipher × FEC configuration the same histories run with implementation-side
//     oracles only: byte-stream prefix (C01), fair-network drain (C02), Write admission (C04),
//     datagram size (C10), no identical datagrams under a cipher (C09).
package sesse2e

import (
	"bytes"
	"crypto/sha1"
	"errors"
	"sync/atomic"
	"fmt"
	"net"
	"strings"
	"sync"
	"testing/synctest"
	"time"

	kcp "github.com/xtaci/kcp-go/v5"
	"golang.org/x/crypto/pbkdf2"
	"verif/harness/internal/hx"
)

// ---------------------------------------------------------------------------------------------
// in-memory transport

type dgram struct {
	b    []byte
	from net.Addr
}

type memConn struct {
	local  net.Addr
	in     chan dgram
	mu     sync.Mutex
	out    [][]byte
	closed chan struct{}
	once   sync.Once

	failWrites atomic.Bool // WriteTo returns an error (local outage)
}

func newMemConn(local net.Addr) *memConn {
	return &memConn{local: local, in: make(chan dgram), closed: make(chan struct{})}
}
func (c *memConn) ReadFrom(p []byte) (int, net.Addr, error) {
	select {
	case d := <-c.in:
		return copy(p, d.b), d.from, nil
	case <-c.closed:
		return 0, nil, net.ErrClosed
	}
}
func (c *memConn) WriteTo(p []byte, _ net.Addr) (int, error) {
	select {
	case <-c.closed:
		return 0, net.ErrClosed
	default:
	}
	if c.failWrites.Load() {
		return 0, errOutage
	}
	c.mu.Lock()
	c.out = append(c.out, append([]byte(nil), p...))
	c.mu.Unlock()
	return len(p), nil
}
var errOutage = errors.New("injected: network unreachable")

func (c *memConn) take() [][]byte {
	c.mu.Lock()
	defer c.mu.Unlock()
	o := c.out
	c.out = nil
	return o
}
func (c *memConn) Close() error                     { c.once.Do(func() { close(c.closed) }); return nil }
func (c *memConn) LocalAddr() net.Addr              { return c.local }
func (c *memConn) SetDeadline(time.Time) error      { return nil }
func (c *memConn) SetReadDeadline(time.Time) error  { return nil }
func (c *memConn) SetWriteDeadline(time.Time) error { return nil }

// ---------------------------------------------------------------------------------------------

type pendingCall struct {
	done chan callRes
	buf  []byte   // Read buffer
	v    [][]byte // Write vector
}

type callRes struct {
	n   int
	err error
}

type side struct {
	pendR, pendW *pendingCall // calls left blocked on purpose (wake-up oracle)
	name         string
	s            *kcp.UDPSession
	conn         *memConn
	addr         *net.UDPAddr
	written      []byte
	got          []byte
	stream       bool  // SetStreamMode of this side (as a writer)
	wends        []int // offsets in written at which a buffer handed to WriteBuffers ended
}

// noteWritten records the accepted buffers of one WriteBuffers call and where each ended.
func (x *side) noteWritten(v [][]byte) {
	for i := range v {
		x.written = append(x.written, v[i]...)
		x.wends = append(x.wends, len(x.written))
	}
}

// boundaryOracle (C01, message mode): a Read returns bytes of ONE message, and a message never spans
// two buffers given to WriteBuffers — so the n bytes just read, which end at offset len(x.got) of the
// peer's accepted bytes, must not reach across the end of a written buffer.
func (w *world) boundaryOracle(x *side, n int) {
	p := w.peer(x)
	if p.stream || n <= 0 {
		return
	}
	lo, hi := len(x.got)-n, len(x.got)
	for _, e := range p.wends {
		if lo < e && e < hi {
			w.viol("sess-msg-boundary", fmt.Sprintf("message mode: one Read of %s returned bytes [%d,%d) of what %s wrote, across the end of a written buffer at offset %d (a message was merged with its successor)", x.name, lo, hi, p.name, e))
			return
		}
	}
}

type world struct {
	o            *hx.Out
	g            *hx.Rng
	a, b         *side
	now          uint32
	ops          []string
	netAB        [][]byte
	netBA        [][]byte
	modeled      bool // no cipher, no FEC: op lines are emitted and compared with the Lean model
	cipher       string
	ds, ps       int
	hist         int
	aborted      bool
	leaveBlocked bool            // this history leaves blocked Read/Write calls pending (oracle only, not modelled)
	seen         map[string]bool // datagram hashes (C09: no identical datagrams under a cipher)
	mtu          [2]int
	tier         string
}

func (w *world) viol(kind, detail string) {
	w.o.Violate(hx.Violation{Kind: kind, Detail: fmt.Sprintf("history %d [cipher=%s fec=%d/%d]: %s", w.hist, w.cipher, w.ds, w.ps, detail),
		Replay: append([]string(nil), w.ops...)})
}

func mkBlock(name string, g *hx.Rng) kcp.BlockCrypt {
	pass := pbkdf2.Key(g.Bytes(16), []byte("salt"), 64, 32, sha1.New)
	var b kcp.BlockCrypt
	var err error
	switch name {
	case "nil":
		return nil
	case "aes":
		b, err = kcp.NewAESBlockCrypt(pass)
	case "aes-128":
		b, err = kcp.NewAESBlockCrypt(pass[:16])
	case "aes-192":
		b, err = kcp.NewAESBlockCrypt(pass[:24])
	case "salsa20":
		b, err = kcp.NewSalsa20BlockCrypt(pass)
	case "sm4":
		b, err = kcp.NewSM4BlockCrypt(pass[:16])
	case "twofish":
		b, err = kcp.NewTwofishBlockCrypt(pass)
	case "3des":
		b, err = kcp.NewTripleDESBlockCrypt(pass[:24])
	case "cast5":
		b, err = kcp.NewCast5BlockCrypt(pass[:16])
	case "blowfish":
		b, err = kcp.NewBlowfishBlockCrypt(pass)
	case "tea":
		b, err = kcp.NewTEABlockCrypt(pass[:16])
	case "xtea":
		b, err = kcp.NewXTEABlockCrypt(pass[:16])
	case "xor":
		b, err = kcp.NewSimpleXORBlockCrypt(pass)
	case "none":
		b, err = kcp.NewNoneBlockCrypt(pass)
	case "aes-gcm":
		b, err = kcp.NewAESGCMCrypt(pass)
	}
	if err != nil {
		panic(err)
	}
	return b
}

var ciphers = []string{"nil", "aes", "aes-128", "aes-192", "salsa20", "sm4", "twofish", "3des", "cast5", "blowfish", "tea", "xtea", "xor", "none", "aes-gcm"}
var fecs = [][2]int{{0, 0}, {1, 1}, {2, 1}, {3, 2}, {10, 3}, {2, 2}}

func (w *world) state(x *side) kcp.VerifKCPDump {
	var d kcp.VerifKCPDump
	kcp.VerifE2ELocked(x.s, func() { d = kcp.VerifKCPState(kcp.VerifE2ECore(x.s)) })
	return d
}

func scalars(d *kcp.VerifKCPDump) string {
	return fmt.Sprintf("%d %d %d %d %d %d %d %d %d %d %d %d %d %d %d %d %d %d %d %d %d %d %d %d %d %d %d %d %d %d %d %d %d %d",
		d.Conv, d.Mtu, d.Mss, d.State, d.SndUna, d.SndNxt, d.RcvNxt, d.Ssthresh, uint32(d.RxRttvar), uint32(d.RxSrtt),
		d.RxRto, d.RxMinrto, d.SndWnd, d.RcvWnd, d.RmtWnd, d.Cwnd, d.Incr, d.Probe, d.TsProbe, d.ProbeWait, d.Interval,
		d.TsFlush, d.Nodelay, d.Updated, d.DeadLink, uint32(d.Fastresend), uint32(d.Nocwnd), uint32(d.Stream),
		len(d.SndQueue), len(d.RcvQueue), len(d.SndBuf), len(d.RcvBuf), len(d.AckSn), d.BufLen)
}

func (w *world) tail(x *side) string {
	d := w.state(x)
	return fmt.Sprintf("bp=%d | %s", len(kcp.VerifE2EBufptr(x.s)), scalars(&d))
}

func showOuts(o [][]byte) string {
	if len(o) == 0 {
		return "none"
	}
	s := make([]string, len(o))
	for i := range o {
		s[i] = hx.Hex(o[i])
	}
	return strings.Join(s, ",")
}

// settle lets every library goroutine run until blocked and collects what reached the wire.
func (w *world) settle(x *side) [][]byte {
	synctest.Wait()
	outs := x.conn.take()
	for _, p := range outs {
		idx := 0
		if x == w.b {
			idx = 1
		}
		if len(p) > w.mtu[idx] {
			w.viol("sess-mtu-exceeded", fmt.Sprintf("%s put a %d-byte datagram on the wire, session MTU %d", x.name, len(p), w.mtu[idx]))
		}
		if w.cipher != "nil" {
			h := hx.HashKey(string(p))
			if w.seen[h] {
				w.viol("sess-duplicate-datagram", fmt.Sprintf("%s emitted two identical datagrams under cipher %s (%d bytes)", x.name, w.cipher, len(p)))
			}
			w.seen[h] = true
		}
		if x == w.a {
			w.netAB = append(w.netAB, p)
		} else {
			w.netBA = append(w.netBA, p)
		}
	}
	return outs
}

func (w *world) emit(x *side, op, obs string) {
	line := op
	if x != nil {
		line = x.name + " " + op
	}
	w.ops = append(w.ops, line)
	w.o.Count("op:" + strings.Fields(op)[0])
	if w.modeled {
		w.o.Op(line, obs)
	} else {
		w.o.Count("oracle-only-op")
	}
}

// nudge: bubble timers only fire when every goroutine including this one is blocked; a 1 ns sleep
// lets an already-due timer fire (virtual time moves by 1 ns; the 32-bit clock is re-set per op).
func nudge() {
	synctest.Wait()
	time.Sleep(time.Nanosecond)
	synctest.Wait()
}

func isTimeout(err error) bool {
	var ne net.Error
	return errors.As(err, &ne) && ne.Timeout()
}

// write: session Write in its own goroutine; blocked calls are cancelled through a past deadline.
func (w *world) write(x *side, v [][]byte) {
	hexes := make([]string, len(v))
	total := 0
	for i := range v {
		hexes[i] = hx.Hex(v[i])
		total += len(v[i])
	}
	op := fmt.Sprintf("swrite %s %d", strings.Join(hexes, ","), w.now)
	kcp.VerifSetClock(w.now)
	d0 := w.state(x)
	mustBlock := len(d0.SndQueue)+len(d0.SndBuf) >= int(d0.SndWnd)
	if x.pendW != nil { // one pending writer per side is enough
		return
	}
	type res = callRes
	done := make(chan res, 1)
	// a far deadline is in force from the start, so that a blocked call can be cancelled by moving it
	// into the past (a deadline set while blocked without one in force is C13's subject, not ours)
	x.s.SetWriteDeadline(time.Now().Add(time.Hour))
	go func() {
		n, err := x.s.WriteBuffers(v)
		done <- res{n, err}
	}()
	outs := w.settle(x)
	select {
	case r := <-done:
		if mustBlock {
			w.viol("write-admitted-over-window", fmt.Sprintf("%s Write was admitted with %d segments pending, send window %d", x.name, len(d0.SndQueue)+len(d0.SndBuf), d0.SndWnd))
		}
		if r.err != nil || r.n != total {
			w.viol("write-result", fmt.Sprintf("%s Write returned n=%d err=%v for %d bytes", x.name, r.n, r.err, total))
		} else {
			x.noteWritten(v)
		}
		x.s.SetWriteDeadline(time.Time{})
		synctest.Wait()
		w.emit(x, op, fmt.Sprintf("n=%d o=%s %s", r.n, showOuts(outs), w.tail(x)))
		w.o.Count("write:admitted")
	default:
		if !mustBlock {
			w.viol("write-blocked-under-window", fmt.Sprintf("%s Write blocked with %d segments pending, send window %d", x.name, len(d0.SndQueue)+len(d0.SndBuf), d0.SndWnd))
		}
		if w.leaveBlocked && w.g.Chance(60) {
			x.pendW = &pendingCall{done: done, v: v}
			w.emit(x, op, "blocked "+w.tail(x))
			w.o.Count("write:left-blocked")
			return
		}
		x.s.SetWriteDeadline(time.Now().Add(-time.Second))
		nudge()
		select {
		case r := <-done:
			if !isTimeout(r.err) || r.n != 0 {
				w.viol("write-cancel", fmt.Sprintf("%s blocked Write returned n=%d err=%v on a past deadline", x.name, r.n, r.err))
			}
		default:
			w.viol("write-stuck", fmt.Sprintf("%s blocked Write did not return on a past deadline", x.name))
			w.aborted = true
		}
		x.s.SetWriteDeadline(time.Time{})
		synctest.Wait()
		w.emit(x, op, "blocked "+w.tail(x))
		w.o.Count("write:blocked")
	}
}

func (w *world) read(x *side, blen int) {
	op := fmt.Sprintf("sread %d", blen)
	if x.pendR != nil {
		return
	}
	type res = callRes
	buf := make([]byte, blen)
	done := make(chan res, 1)
	x.s.SetReadDeadline(time.Now().Add(time.Hour))
	go func() {
		n, err := x.s.Read(buf)
		done <- res{n, err}
	}()
	w.settle(x)
	select {
	case r := <-done:
		x.s.SetReadDeadline(time.Time{})
		synctest.Wait()
		if r.err != nil {
			w.viol("read-result", fmt.Sprintf("%s Read returned err=%v", x.name, r.err))
			return
		}
		x.got = append(x.got, buf[:r.n]...)
		w.emit(x, op, fmt.Sprintf("d=%s %s", hx.Hex(buf[:r.n]), w.tail(x)))
		w.o.Count("read:data")
		p := w.peer(x)
		if !bytes.HasPrefix(p.written, x.got) {
			w.viol("sess-stream-not-prefix", fmt.Sprintf("%s has read %d bytes that are not a prefix of the %d bytes %s wrote", x.name, len(x.got), len(p.written), p.name))
		}
		w.boundaryOracle(x, r.n)
	default:
		if w.leaveBlocked && w.g.Chance(60) {
			x.pendR = &pendingCall{done: done, buf: buf}
			w.emit(x, op, "blocked "+w.tail(x))
			w.o.Count("read:left-blocked")
			return
		}
		x.s.SetReadDeadline(time.Now().Add(-time.Second))
		nudge()
		select {
		case r := <-done:
			if !isTimeout(r.err) {
				w.viol("read-cancel", fmt.Sprintf("%s blocked Read returned n=%d err=%v on a past deadline", x.name, r.n, r.err))
			}
		default:
			w.viol("read-stuck", fmt.Sprintf("%s blocked Read did not return on a past deadline", x.name))
			w.aborted = true
		}
		x.s.SetReadDeadline(time.Time{})
		synctest.Wait()
		w.emit(x, op, "blocked "+w.tail(x))
		w.o.Count("read:blocked")
	}
}

func (w *world) peer(x *side) *side {
	if x == w.a {
		return w.b
	}
	return w.a
}

func (w *world) input(x *side, p []byte) {
	op := fmt.Sprintf("sinput %s %d", hx.Hex(p), w.now)
	kcp.VerifSetClock(w.now)
	select {
	case x.conn.in <- dgram{p, w.peer(x).addr}:
	case <-time.After(time.Hour): // readLoop gone
		w.viol("readloop-gone", x.name+" does not read from its transport any more")
		w.aborted = true
		return
	}
	outs := w.settle(x)
	w.emit(x, op, fmt.Sprintf("o=%s %s", showOuts(outs), w.tail(x)))
	w.checkPending(x, op)
}

func (w *world) pump(x *side) uint32 {
	op := fmt.Sprintf("supdate %d", w.now)
	kcp.VerifSetClock(w.now)
	iv := kcp.VerifE2EPump(x.s)
	outs := w.settle(x)
	w.emit(x, op, fmt.Sprintf("r=%d o=%s %s", iv, showOuts(outs), w.tail(x)))
	w.checkPending(x, op)
	return iv
}

// checkPending: wake-up oracle (C02/C13).  After the library has settled, a Read left blocked must
// have returned if data is readable, a Write left blocked must have returned if the window has room.
func (w *world) checkPending(x *side, op string) {
	if p := x.pendR; p != nil {
		select {
		case r := <-p.done:
			x.pendR = nil
			if r.err != nil {
				w.viol("read-result", fmt.Sprintf("%s pending Read returned err=%v", x.name, r.err))
			} else {
				x.got = append(x.got, p.buf[:r.n]...)
				if !bytes.HasPrefix(w.peer(x).written, x.got) {
					w.viol("sess-stream-not-prefix", fmt.Sprintf("%s has read %d bytes that are not a prefix of what %s wrote", x.name, len(x.got), w.peer(x).name))
				}
				w.boundaryOracle(x, r.n)
			}
			w.o.Count("pending-read:woken")
		default:
			var ps int
			kcp.VerifE2ELocked(x.s, func() { ps = kcp.VerifE2ECore(x.s).PeekSize() })
			if ps > 0 || len(kcp.VerifE2EBufptr(x.s)) > 0 {
				w.viol("read-not-woken", fmt.Sprintf("%s: a Read blocked since earlier is still blocked after %s although %d bytes are readable", x.name, trunc(op), ps))
				w.cancelRead(x)
			}
		}
	}
	if p := x.pendW; p != nil {
		select {
		case r := <-p.done:
			x.pendW = nil
			if r.err != nil {
				w.viol("write-result", fmt.Sprintf("%s pending Write returned err=%v", x.name, r.err))
			} else {
				x.noteWritten(p.v)
			}
			w.settle(x)
			w.o.Count("pending-write:woken")
		default:
			d := w.state(x)
			if len(d.SndQueue)+len(d.SndBuf) < int(d.SndWnd) && strings.HasPrefix(op, "supdate") {
				// kcpInput and update both notify writers when the window has room; after an update this
				// must have happened (between updates a second writer may legitimately wait)
				w.viol("write-not-woken", fmt.Sprintf("%s: a Write blocked since earlier is still blocked after %s although only %d of %d segments are pending", x.name, trunc(op), len(d.SndQueue)+len(d.SndBuf), d.SndWnd))
				w.cancelWrite(x)
			}
		}
	}
}

func trunc(s string) string {
	if len(s) > 60 {
		return s[:60] + "…"
	}
	return s
}

func (w *world) cancelRead(x *side) {
	if x.pendR == nil {
		return
	}
	x.s.SetReadDeadline(time.Now().Add(-time.Second))
	nudge()
	select {
	case <-x.pendR.done:
	default:
		w.viol("read-stuck", x.name+" blocked Read did not return on a past deadline")
		w.aborted = true
	}
	x.pendR = nil
	x.s.SetReadDeadline(time.Time{})
	synctest.Wait()
}

func (w *world) cancelWrite(x *side) {
	if x.pendW == nil {
		return
	}
	x.s.SetWriteDeadline(time.Now().Add(-time.Second))
	nudge()
	select {
	case r := <-x.pendW.done:
		if r.err == nil { // it went through in the meantime
			x.noteWritten(x.pendW.v)
		}
	default:
		w.viol("write-stuck", x.name+" blocked Write did not return on a past deadline")
		w.aborted = true
	}
	x.pendW = nil
	x.s.SetWriteDeadline(time.Time{})
	synctest.Wait()
	w.settle(x)
}

func (w *world) setting(x *side, op string, f func() string) {
	r := f()
	synctest.Wait()
	w.emit(x, op, r+" "+w.tail(x))
}

func (w *world) payload(x *side, n int) []byte {
	b := make([]byte, n)
	base := len(x.written)
	for i := range b {
		v := uint32(base+i)*2654435761 + uint32(x.name[0])
		b[i] = byte(v >> 24)
	}
	return b
}

func (w *world) history(cipher string, fec [2]int) {
	g := w.g
	w.hist++
	w.ops = w.ops[:0]
	w.netAB, w.netBA = nil, nil
	w.aborted = false
	w.cipher, w.ds, w.ps = cipher, fec[0], fec[1]
	w.modeled = cipher == "nil" && fec[0] == 0
	w.leaveBlocked = false
	if g.Chance(40) { // wake-up oracle histories: blocked calls stay pending; oracle only
		w.leaveBlocked = true
		w.modeled = false
	}
	w.seen = map[string]bool{}
	conv := g.U32()
	aAddr := &net.UDPAddr{IP: net.IPv4(10, 0, 0, 1), Port: 1000}
	bAddr := &net.UDPAddr{IP: net.IPv4(10, 0, 0, 2), Port: 2000}
	ca, cb := newMemConn(aAddr), newMemConn(bAddr)
	// same key on both sides: built from the same sub-seed
	sub := g.U64()
	blockA := mkBlock(cipher, hx.NewRng(sub))
	blockB := mkBlock(cipher, hx.NewRng(sub))
	sa, _ := kcp.NewConn3(conv, bAddr, blockA, fec[0], fec[1], ca)
	sb, _ := kcp.NewConn3(conv, aAddr, blockB, fec[0], fec[1], cb)
	w.a = &side{name: "a", s: sa, conn: ca, addr: aAddr}
	w.b = &side{name: "b", s: sb, conn: cb, addr: bAddr}
	w.mtu = [2]int{1400, 1400}
	synctest.Wait()
	w.ops = append(w.ops, fmt.Sprintf("new %d", conv))
	if w.modeled {
		w.o.Op(fmt.Sprintf("new %d", conv), "ok "+w.tail(w.a))
	}
	w.now = []uint32{0, 1 << 31, 0xFFFFFFFF}[g.Intn(3)] - uint32(g.Intn(2000))
	if g.Chance(30) {
		w.now = g.U32()
	}
	kcp.VerifSetClock(w.now)
	for i, x := range []*side{w.a, w.b} {
		x := x
		wd, nd, st := g.Chance(30), g.Chance(30), g.Chance(50)
		w.setting(x, fmt.Sprintf("opt %d %d %d", b2i(wd), b2i(nd), b2i(st)), func() string {
			x.s.SetWriteDelay(wd)
			x.s.SetACKNoDelay(nd)
			x.s.SetStreamMode(st)
			x.stream = st
			return "ok"
		})
		if g.Chance(80) {
			a1, a2, a3, a4 := g.Intn(2), []int{10, 20, 40, 100}[g.Intn(4)], g.Intn(3), g.Intn(2)
			w.setting(x, fmt.Sprintf("nodelay %d %d %d %d", a1, a2, a3, a4), func() string { x.s.SetNoDelay(a1, a2, a3, a4); return "ok" })
		}
		if g.Chance(80) {
			ws := []int{1, 2, 4, 8, 32, 128}
			s1, r1 := ws[g.Intn(len(ws))], ws[g.Intn(len(ws))]
			w.setting(x, fmt.Sprintf("wndsize %d %d", s1, r1), func() string { x.s.SetWindowSize(s1, r1); return "ok" })
		}
		if g.Chance(50) {
			m := []int{100, 300, 576, 1200, 1400, 1500, 1600}[g.Intn(7)]
			w.setting(x, fmt.Sprintf("setmtu %d", m), func() string {
				ok := x.s.SetMtu(m)
				if ok {
					w.mtu[i] = min(m, 1500)
				}
				return fmt.Sprintf("r=%v", ok)
			})
		}
	}
	steps := 40 + g.Intn(80)
	if w.tier == "thorough" {
		steps = 80 + g.Intn(300)
	}
	for i := 0; i < steps && !w.aborted; i++ {
		x := w.a
		if g.Chance(35) {
			x = w.b
		}
		r := g.Intn(100)
		switch {
		case r < 22:
			d := w.state(x)
			mss := int(d.Mss)
			nv := 1
			if g.Chance(15) {
				nv = 2 + g.Intn(2)
			}
			var v [][]byte
			for j := 0; j < nv; j++ {
				n := []int{1, mss - 1, mss, mss + 1, 2*mss + 7, 1 + g.Intn(3*mss)}[g.Intn(6)]
				n = max(1, min(n, 6000))
				v = append(v, w.payload(x, n))
				x.written = append(x.written, v[j]...) // payload offsets; rolled back below
			}
			// roll back the provisional bookkeeping; write() re-adds on success
			tot := 0
			for j := range v {
				tot += len(v[j])
			}
			x.written = x.written[:len(x.written)-tot]
			w.write(x, v)
		case r < 40:
			w.pump(x)
		case r < 68:
			toB := g.Chance(55)
			q, dst := &w.netAB, w.b
			if !toB {
				q, dst = &w.netBA, w.a
			}
			if len(*q) == 0 {
				continue
			}
			idx := 0
			if g.Chance(25) {
				idx = g.Intn(len(*q))
			}
			p := (*q)[idx]
			fate := g.Intn(100)
			switch {
			case fate < 12:
				*q = append((*q)[:idx], (*q)[idx+1:]...)
				w.o.Count("fate:drop")
			case fate < 20:
				w.o.Count("fate:dup")
				w.input(dst, p)
			case fate < 26:
				w.o.Count("fate:delay")
			default:
				*q = append((*q)[:idx], (*q)[idx+1:]...)
				w.o.Count("fate:deliver")
				w.input(dst, p)
			}
		case r < 86:
			w.read(x, []int{1, 7, 100, 1500, 4096, 65536}[g.Intn(6)])
		default:
			d := w.state(x)
			st := []uint32{0, 1, 5, d.Interval, d.RxRto, d.RxRto + 1, 700, 5000}[g.Intn(8)]
			w.now += st
			if st >= 600 && fec[0] > 0 {
				time.Sleep(time.Duration(st) * time.Millisecond) // lets the FEC encoder see a gap (parity skipped)
			}
		}
	}
	for _, x := range []*side{w.a, w.b} {
		if !w.aborted {
			w.cancelRead(x)
			w.cancelWrite(x)
		}
	}
	if !w.aborted {
		w.drain()
	}
	// close everything: sessions, then transports (the bubble must end with no goroutine left)
	sa.Close()
	sb.Close()
	ca.Close()
	cb.Close()
	synctest.Wait()
	key := hx.HashKey(strings.Join(w.ops, "\n"))
	w.o.Case(key)
	w.o.Res.Cases--
}

func (w *world) drain() {
	start := w.now
	idle := uint32(0)
	// progress-based bound: the per-segment timeout grows by up to 60 s per retransmission, so the time
	// to drain depends on the history; a wedge is "no progress for 40 virtual minutes" (or 24 h in all)
	lastProgress := w.now
	progressKey := func() string {
		da, db := w.state(w.a), w.state(w.b)
		return fmt.Sprint(da.SndUna, db.SndUna, len(da.SndQueue), len(db.SndQueue), len(w.a.got), len(w.b.got))
	}
	key := progressKey()
	for round := 0; round < 400000 && w.now-lastProgress < 2400000 && w.now-start < 86400000 && !w.aborted; round++ {
		da, db := w.state(w.a), w.state(w.b)
		if len(da.SndQueue)+len(da.SndBuf)+len(db.SndQueue)+len(db.SndBuf) == 0 && len(w.netAB)+len(w.netBA) == 0 {
			w.readAll(w.a)
			w.readAll(w.b)
			for _, x := range []*side{w.a, w.b} {
				p := w.peer(x)
				if !bytes.Equal(x.got, p.written) {
					w.viol("sess-drain-incomplete", fmt.Sprintf("%s read %d bytes, %s wrote %d, with both backlogs at zero", x.name, len(x.got), p.name, len(p.written)))
				}
			}
			w.o.CountN("drain-rounds", round)
			w.o.CountN("drain-virtual-s", int((w.now-start)/1000))
			return
		}
		active := len(w.netAB)+len(w.netBA) > 0
		// fair network, and the reader keeps reading: it reads after every datagram
		for len(w.netAB) > 0 && !w.aborted {
			p := w.netAB[0]
			w.netAB = w.netAB[1:]
			w.input(w.b, p)
			w.readAll(w.b)
		}
		for len(w.netBA) > 0 && !w.aborted {
			p := w.netBA[0]
			w.netBA = w.netBA[1:]
			w.input(w.a, p)
			w.readAll(w.a)
		}
		w.readAll(w.a)
		w.readAll(w.b)
		ia, ib := w.pump(w.a), w.pump(w.b)
		step := max(min(ia, ib), 1)
		if active || len(w.netAB)+len(w.netBA) > 0 {
			idle = 0
		} else {
			idle++
			if idle > 3 {
				step = min(step<<min(idle-3, 8), 5000)
			}
		}
		w.now += step
		if k := progressKey(); k != key {
			key, lastProgress = k, w.now
		}
	}
	if !w.aborted {
		da, db := w.state(w.a), w.state(w.b)
		w.viol("sess-no-drain", fmt.Sprintf("no progress for 40 virtual minutes on a fair network with the reader reading (after %d s): a backlog %d+%d, b backlog %d+%d; a: %s; b: %s; a.snd_buf head: %s", (w.now-start)/1000, len(da.SndQueue), len(da.SndBuf), len(db.SndQueue), len(db.SndBuf), scalars(&da), scalars(&db), headSeg(&da)))
	}
}

func headSeg(d *kcp.VerifKCPDump) string {
	if len(d.SndBuf) == 0 {
		return "-"
	}
	h := d.SndBuf[0]
	return fmt.Sprintf("sn=%d xmit=%d rto=%d resendts=%d fastack=%d acked=%d len=%d", h.Sn, h.Xmit, h.Rto, h.Resendts, h.Fastack, h.Acked, len(h.Data))
}

func (w *world) readAll(x *side) {
	w.cancelRead(x)
	for i := 0; i < 100000 && !w.aborted; i++ {
		var ps int
		kcp.VerifE2ELocked(x.s, func() { ps = kcp.VerifE2ECore(x.s).PeekSize() })
		if ps <= 0 && len(kcp.VerifE2EBufptr(x.s)) == 0 {
			return
		}
		w.read(x, 65536)
	}
}

func b2i(b bool) int {
	if b {
		return 1
	}
	return 0
}

// oobAsymmetric (C19, fixed scenario): a session created WITHOUT FEC must refuse out-of-band calls for
// its whole life — also after its peer (which has FEC on) has sent it FEC-framed datagrams, which
// makes the library create a lazy 1/1 decoder on the receiving side.
func (w *world) oobAsymmetric() {
	g := w.g
	w.hist++
	w.ops = []string{"fixed: oob-asymmetric (a: no FEC, b: FEC 2/1)"}
	w.netAB, w.netBA = nil, nil
	w.aborted, w.modeled, w.leaveBlocked = false, false, false
	w.cipher, w.ds, w.ps = "nil", 0, 0
	w.seen = map[string]bool{}
	conv := g.U32()
	aAddr := &net.UDPAddr{IP: net.IPv4(10, 0, 0, 1), Port: 1000}
	bAddr := &net.UDPAddr{IP: net.IPv4(10, 0, 0, 2), Port: 2000}
	ca, cb := newMemConn(aAddr), newMemConn(bAddr)
	sa, _ := kcp.NewConn3(conv, bAddr, nil, 0, 0, ca)
	sb, _ := kcp.NewConn3(conv, aAddr, nil, 2, 1, cb)
	w.a = &side{name: "a", s: sa, conn: ca, addr: aAddr}
	w.b = &side{name: "b", s: sb, conn: cb, addr: bAddr}
	w.mtu = [2]int{1400, 1400}
	synctest.Wait()
	check := func(when string) {
		if err := sa.SendOOB([]byte("x")); err == nil {
			w.viol("oob-accepted-without-fec", "SendOOB succeeded on a session created without FEC "+when)
		}
		if err := sa.SetOOBHandler(func([]byte) {}); err == nil {
			w.viol("oob-accepted-without-fec", "SetOOBHandler succeeded on a session created without FEC "+when)
		}
		if n := sa.GetOOBMaxSize(); n != 0 {
			w.viol("oob-accepted-without-fec", fmt.Sprintf("GetOOBMaxSize = %d on a session created without FEC %s", n, when))
		}
		synctest.Wait()
	}
	check("before any traffic")
	w.now = 1000
	w.write(w.b, [][]byte{w.payload(w.b, 300)})
	w.write(w.b, [][]byte{w.payload(w.b, 300)})
	w.pump(w.b)
	for len(w.netBA) > 0 && !w.aborted {
		p := w.netBA[0]
		w.netBA = w.netBA[1:]
		w.input(w.a, p)
	}
	check("after its peer sent it FEC-framed datagrams")
	// whatever a emitted must still be plain KCP frames the peer reads as the stream (nothing injected)
	w.readAll(w.a)
	sa.Close()
	sb.Close()
	ca.Close()
	cb.Close()
	synctest.Wait()
	w.o.Case("fixed-oob-asymmetric")
	w.o.Res.Cases--
}

// fixedPair: two plain sessions (no cipher, no FEC) for the fixed scenarios below; oracle-only ops.
func (w *world) fixedPair(title string) (ca, cb *memConn) {
	g := w.g
	w.hist++
	w.ops = []string{"fixed: " + title}
	w.netAB, w.netBA = nil, nil
	w.aborted, w.modeled, w.leaveBlocked = false, false, false
	w.cipher, w.ds, w.ps = "nil", 0, 0
	w.seen = map[string]bool{}
	conv := g.U32()
	aAddr := &net.UDPAddr{IP: net.IPv4(10, 0, 0, 1), Port: 1000}
	bAddr := &net.UDPAddr{IP: net.IPv4(10, 0, 0, 2), Port: 2000}
	ca, cb = newMemConn(aAddr), newMemConn(bAddr)
	sa, _ := kcp.NewConn3(conv, bAddr, nil, 0, 0, ca)
	sb, _ := kcp.NewConn3(conv, aAddr, nil, 0, 0, cb)
	w.a = &side{name: "a", s: sa, conn: ca, addr: aAddr}
	w.b = &side{name: "b", s: sb, conn: cb, addr: bAddr}
	w.mtu = [2]int{1400, 1400}
	sa.SetNoDelay(1, 10, 2, 1)
	sb.SetNoDelay(1, 10, 2, 1)
	synctest.Wait()
	return
}

func (w *world) fixedEnd(ca, cb *memConn, name string) {
	w.a.s.Close()
	w.b.s.Close()
	ca.Close()
	cb.Close()
	synctest.Wait()
	w.o.Case(name)
	w.o.Res.Cases--
}

// exchange: one fair round at the current instant (both directions, in order), optionally without reader
func (w *world) exchange(readB bool) {
	w.pump(w.a)
	for len(w.netAB) > 0 && !w.aborted {
		p := w.netAB[0]
		w.netAB = w.netAB[1:]
		w.input(w.b, p)
		if readB {
			w.readAll(w.b)
		}
	}
	w.pump(w.b)
	for len(w.netBA) > 0 && !w.aborted {
		p := w.netBA[0]
		w.netBA = w.netBA[1:]
		w.input(w.a, p)
	}
}

// stalledSessionLostWins (C03 / C02, fixed scenario, session level): the reader of b is away until the
// sender is at a complete standstill (window closed, nothing outstanding, data still queued); when it
// comes back, the window update b sends is lost.  The sender's REAL update callback must keep
// running the zero-window probe: the transfer resumes and completes.
func (w *world) stalledSessionLostWins() {
	ca, cb := w.fixedPair("stalled reader, window update lost (sessions)")
	w.b.s.SetWindowSize(32, 4)
	w.now = 1000
	for i := 0; i < 4; i++ {
		w.write(w.a, [][]byte{w.payload(w.a, 100)})
	}
	for i := 0; i < 20 && !w.aborted; i++ { // b's queue fills (4 = its window), a learns wnd = 0, everything outstanding is acknowledged
		w.exchange(false)
		w.now += 10
	}
	for i := 0; i < 8; i++ {
		w.write(w.a, [][]byte{w.payload(w.a, 100)}) // queued: the window is closed
	}
	for i := 0; i < 20 && !w.aborted; i++ {
		w.exchange(false)
		w.now += 10
	}
	d := w.state(w.a)
	if d.RmtWnd != 0 || len(d.SndBuf) != 0 || len(d.SndQueue) == 0 {
		w.o.Note(fmt.Sprintf("stalledSessionLostWins: not at a standstill (rmt_wnd %d, outstanding %d, queued %d)", d.RmtWnd, len(d.SndBuf), len(d.SndQueue)))
	}
	w.readAll(w.b) // the reader is back
	w.pump(w.b)
	w.netBA = nil // its window update is lost
	for i := 0; i < 6000 && !w.aborted && len(w.b.got) < len(w.a.written); i++ { // up to 60 s of fair network
		w.now += 10
		w.exchange(true)
	}
	if !w.aborted && len(w.b.got) < len(w.a.written) {
		d := w.state(w.a)
		w.viol("no-resume", fmt.Sprintf("sessions: reader back, its window update lost, 60 s of fair network: b read %d of %d bytes (a: rmt_wnd %d probe_wait %d outstanding %d queued %d)", len(w.b.got), len(w.a.written), d.RmtWnd, d.ProbeWait, len(d.SndBuf), len(d.SndQueue)))
	}
	w.fixedEnd(ca, cb, "fixed-stalled-session-lost-wins")
}

// writeErrorOutage (C02, fixed scenario): the sender's socket reports errors for a while (local
// outage: WriteTo fails) while accepted data is unacknowledged.  Once the socket works again the
// update callback must still be running: the data is retransmitted and delivered.
func (w *world) writeErrorOutage() {
	ca, cb := w.fixedPair("socket write errors for 300 ms (sessions)")
	w.now = 1000
	w.write(w.a, [][]byte{w.payload(w.a, 200)})
	w.exchange(true)
	ca.failWrites.Store(true)
	w.write(w.a, [][]byte{w.payload(w.a, 200)}) // accepted; its first transmission fails
	for i := 0; i < 30 && !w.aborted; i++ {
		w.now += 10
		w.exchange(true)
	}
	ca.failWrites.Store(false) // healed
	for i := 0; i < 3000 && !w.aborted && len(w.b.got) < len(w.a.written); i++ { // up to 30 s of fair network
		w.now += 10
		w.exchange(true)
	}
	if !w.aborted && len(w.b.got) < len(w.a.written) {
		d := w.state(w.a)
		w.viol("sess-no-drain", fmt.Sprintf("after a 300 ms outage of the sender's socket (WriteTo errors) and 30 s of fair network b read %d of %d bytes accepted by Write (a: outstanding %d queued %d)", len(w.b.got), len(w.a.written), len(d.SndBuf), len(d.SndQueue)))
	}
	w.fixedEnd(ca, cb, "fixed-write-error-outage")
}

// refusedSetMtuMessageMode (C01, fixed scenario, message mode): SetMtu to a smaller value is refused
// while a larger segment is still unacknowledged; the refusal must leave nothing behind — a later
// Write that fits one segment of the MTU still in force is ONE message and is read back as one.
func (w *world) refusedSetMtuMessageMode() {
	ca, cb := w.fixedPair("refused SetMtu, then a message between the refused and the real mss (sessions, message mode)")
	w.now = 1000
	sizes := []int{1000, 800, 577, 1376}
	w.write(w.a, [][]byte{w.payload(w.a, sizes[0])}) // outstanding: one segment of 1000 bytes
	if w.a.s.SetMtu(600) {
		w.o.Note("refusedSetMtuMessageMode: SetMtu(600) was accepted with a 1000-byte segment outstanding")
	}
	w.ops = append(w.ops, "a.SetMtu(600)")
	for _, n := range sizes[1:] {
		w.write(w.a, [][]byte{w.payload(w.a, n)})
	}
	for i := 0; i < 50 && !w.aborted; i++ {
		w.exchange(false)
		w.now += 10
	}
	for i, n := range sizes {
		before := len(w.b.got)
		w.read(w.b, 65536)
		if got := len(w.b.got) - before; got != n && !w.aborted {
			w.viol("sess-msg-boundary", fmt.Sprintf("message mode: a wrote messages of %v bytes (SetMtu(600) refused after the first); Read #%d of b with a 64 KiB buffer returned %d bytes, want the whole message of %d", sizes, i+1, got, n))
			break
		}
	}
	w.fixedEnd(ca, cb, "fixed-refused-setmtu-message-mode")
}

// Run is the component entry point.
func Run(o *hx.Out, g *hx.Rng, tier string) {
	o.Res.Rule = "a case is one history of two real sessions (settings, Write/Read incl. blocking, manual update, per-datagram fates, fair drain, Close); configurations cycle through every cipher constructor x a FEC grid; histories without cipher and FEC are compared op by op with the Lean session model, the others run implementation-side oracles only; distinct = distinct op sequences (hash)"
	kcp.SystemTimedSched = &kcp.TimedSched{} // inert: no goroutines; Put only appends
	kcp.SetEntropy(entropy{g.Fork()})
	w := &world{o: o, g: g, tier: tier}
	w.oobAsymmetric()
	w.stalledSessionLostWins()
	w.writeErrorOutage()
	w.refusedSetMtuMessageMode()
	n := 240
	if tier == "thorough" {
		n = 4500
	}
	for i := 0; i < n; i++ {
		if i%3 == 0 {
			w.history("nil", [2]int{0, 0}) // modelled configuration
			continue
		}
		w.history(ciphers[(i/3*7+i)%len(ciphers)], fecs[(i/3+i)%len(fecs)])
	}
}

// entropy: deterministic nonce source (every random choice derives from the run's seed)
type entropy struct{ g *hx.Rng }

func (e entropy) Read(p []byte) (int, error) {
	copy(p, e.g.Bytes(len(p)))
	return len(p), nil
}
