// Package listener: correspondence component `listener` (C11, and the listener half of C06) —
// the REAL Listener.packetInput / AcceptKCP / Close and the dialled session's source filter
// against Model/SessIn (listenerInput, accept, userClose, Dial.filter).
//
// A real Listener is served on an in-memory PacketConn; k ∈ 1..8 simulated peers are real client
// sessions, each writing a distinct keyed stream; the generator interleaves their datagrams with
// forged, stale (recorded from an earlier conversation), foreign-conversation, OOB and
// parity-only datagrams, reconnects with a new conversation id from the same address, user
// closes, accepts, and — in dedicated cases — 129+ peers without Accept.
//
//	op line      lin <addr> <raw hex> <aux>           (aux as in component sessin)
//	             accept | close <creation index> | lclose   (Listener.Close in the middle of a case)
//	             dial <addr spec> | dgram <addr spec>  (source filter of a dialled session)
//	observation  <decision> t=<addr/conv/index,…> q=<accept queue length>
//	             decision = drop csum | drop silent | route a i | closed a i | create a conv i closed=j
//
// Oracles (Violation kinds listener-*): every session other than the one mapped at the source
// address keeps a byte-identical deep snapshot and is never closed; a datagram failing the
// integrity check changes nothing at all; what an accepted session delivers is a prefix of the
// keyed stream its own peer wrote in that conversation; Accept returns exactly the created
// sessions, once each, in creation order; every genuine conversation start that found room in
// the backlog is accepted.  After `lclose` (Listener.Close) datagrams keep arriving: sessions
// already accepted still work, a reset frame still closes the old session, NOTHING is created
// (the l.die test of packetInput), and every session that was still in the accept backlog has been
// closed and unmapped by Close (closeUnaccepted).
package listener

import (
	"bytes"
	"crypto/aes"
	"crypto/cipher"
	"encoding/binary"
	"fmt"
	"hash/crc32"
	"net"
	"sort"
	"strings"
	"time"

	kcp "github.com/xtaci/kcp-go/v5"
	"verif/harness/internal/hx"
	"verif/harness/internal/memnet"
)

var key = []byte("0123456789abcdef0123456789abcdef")

type config struct {
	name   string
	kind   string
	mk     func() kcp.BlockCrypt
	gcm    cipher.AEAD
	ds, ps int
}

func must(b kcp.BlockCrypt, err error) kcp.BlockCrypt {
	if err != nil {
		panic(err)
	}
	return b
}

func configs() []config {
	blk, _ := aes.NewCipher(key)
	gcm, _ := cipher.NewGCM(blk)
	return []config{
		{name: "nil", kind: "nil", mk: func() kcp.BlockCrypt { return nil }},
		{name: "nil-fec", kind: "nil", mk: func() kcp.BlockCrypt { return nil }, ds: 2, ps: 1},
		{name: "aes", kind: "block", mk: func() kcp.BlockCrypt { return must(kcp.NewAESBlockCrypt(key)) }},
		{name: "aes-fec", kind: "block", mk: func() kcp.BlockCrypt { return must(kcp.NewAESBlockCrypt(key)) }, ds: 2, ps: 1},
		{name: "xor-fec", kind: "block", mk: func() kcp.BlockCrypt { return must(kcp.NewSimpleXORBlockCrypt(key)) }, ds: 2, ps: 1},
		{name: "gcm", kind: fmt.Sprintf("aead:%d:%d", gcm.NonceSize(), gcm.Overhead()), mk: func() kcp.BlockCrypt { return must(kcp.NewAESGCMCrypt(key)) }, gcm: gcm},
		{name: "gcm-fec", kind: fmt.Sprintf("aead:%d:%d", gcm.NonceSize(), gcm.Overhead()), mk: func() kcp.BlockCrypt { return must(kcp.NewAESGCMCrypt(key)) }, gcm: gcm, ds: 2, ps: 1},
	}
}

// one conversation of a peer
type conversation struct {
	conv      uint32
	sess      *kcp.UDPSession
	conn      *memnet.Conn
	written   []byte   // the keyed stream written so far
	pending   [][]byte // captured datagrams not yet delivered
	sent      [][]byte // delivered ones (for stale replays)
	started   bool     // a session was created for this conversation
	hadRoom   bool
	reordered bool // pending datagrams were swapped (the first one delivered may not be sn 0)
	nmsg      int
}

type peer struct {
	id   int
	addr net.Addr
	cur  *conversation
	old  []*conversation
}

// a server-side session as the harness knows it
type srv struct {
	idx      int
	s        *kcp.UDPSession
	addr     string
	conv     uint32
	accepted bool
	read     []byte
	closedBy string
}

type runner struct {
	o       *hx.Out
	g       *hx.Rng
	tier    string
	cfg     config
	l       *kcp.Listener
	lconn   *memnet.Conn
	enc     kcp.BlockCrypt
	dec     kcp.BlockCrypt
	peers   []*peer
	srvs    map[int]*srv // by creation index
	order   []int        // creation order of `create` decisions (indices)
	accIdx  int          // how many of `order` have been returned by Accept
	hist    []string
	nextIP  int
	dead    bool              // a packetInput call never returned: stop driving this listener
	lclosed bool              // Listener.Close has been called in this case
	forged  map[uint32][]byte // conv -> payload of a forged sn=0 PUSH (a conversation the forger started)
}

func (x *runner) viol(kind, detail string) {
	x.o.Count("violation:" + kind)
	h := x.hist
	if len(h) > 300 {
		h = h[len(h)-300:]
	}
	x.o.Violate(hx.Violation{Kind: kind, Detail: detail, Replay: append([]string(nil), h...)})
}

func (x *runner) op(op, obs string) {
	x.o.Op(op, obs)
	if len(op) > 400 {
		op = op[:400] + "…"
	}
	x.hist = append(x.hist, op+" => "+obs)
}

// ---- frame construction

func kcpSeg(conv uint32, cmd, frg byte, wnd uint16, ts, sn, una uint32, data []byte) []byte {
	b := make([]byte, 24+len(data))
	binary.LittleEndian.PutUint32(b, conv)
	b[4], b[5] = cmd, frg
	binary.LittleEndian.PutUint16(b[6:], wnd)
	binary.LittleEndian.PutUint32(b[8:], ts)
	binary.LittleEndian.PutUint32(b[12:], sn)
	binary.LittleEndian.PutUint32(b[16:], una)
	binary.LittleEndian.PutUint32(b[20:], uint32(len(data)))
	copy(b[24:], data)
	return b
}

func fecWrap(seqid uint32, flag uint16, payload []byte, sized bool) []byte {
	var b []byte
	b = binary.LittleEndian.AppendUint32(b, seqid)
	b = binary.LittleEndian.AppendUint16(b, flag)
	if sized {
		b = binary.LittleEndian.AppendUint16(b, uint16(len(payload)+2))
	}
	return append(b, payload...)
}

// seal turns a plaintext (what kcpInput would get) into a wire datagram with a valid checksum/tag
func (x *runner) seal(plain []byte) []byte {
	switch {
	case x.cfg.kind == "nil":
		return append([]byte(nil), plain...)
	case x.cfg.kind == "block":
		o := make([]byte, 20+len(plain))
		copy(o, x.g.Bytes(16))
		copy(o[20:], plain)
		binary.LittleEndian.PutUint32(o[16:], crc32.ChecksumIEEE(o[20:]))
		x.enc.Encrypt(o, o)
		return o
	default:
		nonce := x.g.Bytes(x.cfg.gcm.NonceSize())
		return x.cfg.gcm.Seal(nonce, nonce, plain, nil)
	}
}

// analyse: aux field for the model and whether the integrity check passes (independent computation)
func (x *runner) analyse(raw []byte) (aux string, passes bool) {
	switch {
	case x.cfg.kind == "nil":
		return "-", true
	case x.cfg.kind == "block":
		d := append([]byte(nil), raw...)
		if len(d) >= 20 {
			x.dec.Decrypt(d, d)
		}
		return hx.Hex(d), len(d) >= 20 && crc32.ChecksumIEEE(d[20:]) == binary.LittleEndian.Uint32(d[16:])
	default:
		ns, ov := x.cfg.gcm.NonceSize(), x.cfg.gcm.Overhead()
		if len(raw) < ns+ov {
			return "fail", false
		}
		pt, err := x.cfg.gcm.Open(nil, raw[:ns], raw[ns:], nil)
		if err != nil {
			return "fail", false
		}
		return hx.Hex(pt), true
	}
}

// plainOf: the bytes after the gate (nil, false if the integrity check fails)
func (x *runner) plainOf(raw []byte) ([]byte, bool) {
	switch {
	case x.cfg.kind == "nil":
		return raw, true
	case x.cfg.kind == "block":
		if len(raw) < 20 {
			return nil, false
		}
		d := append([]byte(nil), raw...)
		x.dec.Decrypt(d, d)
		if crc32.ChecksumIEEE(d[20:]) != binary.LittleEndian.Uint32(d[16:]) {
			return nil, false
		}
		return d[20:], true
	default:
		ns, ov := x.cfg.gcm.NonceSize(), x.cfg.gcm.Overhead()
		if len(raw) < ns+ov {
			return nil, false
		}
		pt, err := x.cfg.gcm.Open(nil, raw[:ns], raw[ns:], nil)
		return pt, err == nil
	}
}

// expected is the harness's own reading of the property for one datagram (written from the
// property text and the frame layout, independently of the Lean model): what the listener has
// to do with a datagram from address a given the table before it.
func (x *runner) expected(a string, raw []byte, tb map[string]tableEntry, room bool) string {
	want := x.expectedOpen(a, raw, tb, room)
	if x.lclosed && strings.HasPrefix(want, "create ") {
		// a closed listener creates nothing; the old session of a reset frame is closed all the same
		if e, ok := tb[a]; ok {
			return fmt.Sprintf("closed %s %d", a, e.idx)
		}
		return "drop silent"
	}
	return want
}

func (x *runner) expectedOpen(a string, raw []byte, tb map[string]tableEntry, room bool) string {
	p, ok := x.plainOf(raw)
	if !ok {
		if x.cfg.kind == "block" && len(raw) >= 20 || x.cfg.kind != "block" && len(raw) >= x.cfg.gcm.NonceSize()+x.cfg.gcm.Overhead() {
			return "drop csum"
		}
		return "drop silent"
	}
	if len(p) < 12 {
		return "drop silent"
	}
	hasConv, conv, sn := false, uint32(0), uint32(0)
	switch binary.LittleEndian.Uint16(p[4:]) {
	case 0xf1:
		if len(p) >= 8+24 {
			hasConv, conv, sn = true, binary.LittleEndian.Uint32(p[8:]), binary.LittleEndian.Uint32(p[8+12:])
		}
	case 0xf2:
	case 0xf3:
		hasConv, conv = true, binary.LittleEndian.Uint32(p[8:])
	default:
		if len(p) < 24 {
			return "drop silent"
		}
		hasConv, conv, sn = true, binary.LittleEndian.Uint32(p), binary.LittleEndian.Uint32(p[12:])
	}
	if e, ok := tb[a]; ok {
		switch {
		case !hasConv || conv == e.conv:
			return fmt.Sprintf("route %s %d", a, e.idx)
		case sn != 0:
			return "drop silent" // another conversation, not a reset: ignored
		case !room:
			return fmt.Sprintf("closed %s %d", a, e.idx)
		default:
			return fmt.Sprintf("create %s %d * closed=%d", a, conv, e.idx)
		}
	}
	if !hasConv || !room {
		return "drop silent"
	}
	return fmt.Sprintf("create %s %d * closed=-", a, conv)
}

func matchDecision(want, got string) bool {
	w, g := strings.Fields(want), strings.Fields(got)
	if len(w) != len(g) {
		return false
	}
	for i := range w {
		if w[i] != "*" && w[i] != g[i] {
			return false
		}
	}
	return true
}

// ---- listener observation

type tableEntry struct {
	addr string
	conv uint32
	idx  int
	s    *kcp.UDPSession
}

func (x *runner) table() (map[string]tableEntry, string) {
	addrs, sessions := kcp.VerifListenerSessions(x.l)
	m := map[string]tableEntry{}
	for i, a := range addrs {
		s := sessions[i]
		idx := kcp.VerifSessionIndex(x.l, s)
		m[a] = tableEntry{a, s.GetConv(), idx, s}
		if _, ok := x.srvs[idx]; !ok {
			x.srvs[idx] = &srv{idx: idx, s: s, addr: a, conv: s.GetConv()}
		}
	}
	return m, string(kcp.VerifListenerSnapshot(x.l))
}

func closed(s *kcp.UDPSession) bool {
	return strings.Contains(string(lastLine(kcp.VerifSessionSnapshot(s))), "closed=true")
}

func lastLine(b []byte) []byte {
	b = bytes.TrimRight(b, "\n")
	if i := bytes.LastIndexByte(b, '\n'); i >= 0 {
		return b[i+1:]
	}
	return b
}

// stripEnc removes the FEC encoder line: the encoder belongs to the session's post-processing
// goroutine (it runs asynchronously after Close has flushed) and is not receive-side state.
func stripEnc(s string) string {
	i := strings.Index(s, "\nenc ")
	if i < 0 {
		return s
	}
	j := strings.Index(s[i+1:], "\n")
	if j < 0 {
		return s[:i]
	}
	return s[:i] + s[i+1+j:]
}

func (x *runner) snapAll() map[int]string {
	m := map[int]string{}
	for idx, sv := range x.srvs {
		m[idx] = stripEnc(string(kcp.VerifSessionSnapshot(sv.s)))
	}
	return m
}

// lin injects one datagram from addr and checks frame / gate oracles
func (x *runner) lin(class string, addr net.Addr, raw []byte) string {
	x.o.Count("class:" + class)
	aux, passes := x.analyse(raw)
	a := addr.String()
	op := fmt.Sprintf("lin %s %s %s", a, hx.Hex(raw), aux)
	tb, tbs := x.table()
	before := x.snapAll()
	c0 := memnet.ReadSnmp()
	if x.dead {
		return "dead"
	}
	done := make(chan string, 1)
	go func() { done <- hx.Try(func() { kcp.VerifListenerPacketInput(x.l, raw, addr) }) }()
	var pmsg string
	select {
	case pmsg = <-done:
	case <-time.After(20 * time.Second):
		// the monitor goroutine of a real listener would be stuck here for good: every peer stalls
		x.dead = true
		x.op(op, "stuck")
		x.viol("listener-stuck", fmt.Sprintf("%s: Listener.packetInput did not return for a datagram (%s) from %s (accept queue %s)", x.cfg.name, class, a, tbs))
		return "stuck"
	}
	d := memnet.ReadSnmp().Sub(c0)
	ta, tas := x.table()
	after := x.snapAll()

	var dec string
	switch {
	case pmsg != "":
		dec = "panic " + pmsg
		x.viol("listener-panic", "Listener.packetInput panicked: "+pmsg)
	case d.PassiveOpens == 1 && d.InPkts == 1:
		e, ok := ta[a]
		old := "-"
		if d.CurrEstab == 0 {
			if o, ok2 := tb[a]; ok2 {
				old = fmt.Sprint(o.idx)
			} else {
				old = "?"
			}
		}
		if ok {
			dec = fmt.Sprintf("create %s %d %d closed=%s", a, e.conv, e.idx, old)
			x.order = append(x.order, e.idx)
		} else {
			dec = "create-unmapped " + a
		}
	case d.PassiveOpens == 0 && d.CurrEstab == -1 && d.InPkts == 0:
		if o, ok := tb[a]; ok {
			dec = fmt.Sprintf("closed %s %d", a, o.idx)
		} else {
			dec = "closed-unknown " + a
		}
	case d.PassiveOpens == 0 && d.CurrEstab == 0 && d.InPkts == 1:
		if o, ok := tb[a]; ok {
			dec = fmt.Sprintf("route %s %d", a, o.idx)
		} else {
			dec = "route-unknown " + a
		}
	case d.InCsumErrors == 1 && d.InPkts == 0 && d.PassiveOpens == 0 && d.CurrEstab == 0:
		dec = "drop csum"
	case d.InPkts == 0 && d.PassiveOpens == 0 && d.CurrEstab == 0 && d.InCsumErrors == 0:
		dec = "drop silent"
	default:
		dec = fmt.Sprintf("weird %+v", d)
	}
	x.op(op, dec+" "+tas)
	x.o.Count("decision:" + strings.Fields(dec)[0])
	if x.lclosed {
		x.o.Count("closed-listener:" + strings.Fields(dec)[0])
		if strings.HasPrefix(dec, "create") || len(ta) > len(tb) || !strings.HasSuffix(tas, "q=0") {
			x.viol("listener-closed-created", fmt.Sprintf("%s: datagram (%s) from %s after Listener.Close: decision %q, table %q -> %q", x.cfg.name, class, a, dec, tbs, tas))
		}
	}
	if want := x.expected(a, raw, tb, !strings.HasSuffix(tbs, fmt.Sprintf("q=%d", 128))); pmsg == "" && !matchDecision(want, dec) {
		x.viol("listener-decision", fmt.Sprintf("%s: datagram (%s) from %s with table %q: the listener did %q, the property asks for %q", x.cfg.name, class, a, tbs, dec, want))
		if pl, ok := x.plainOf(raw); ok && len(pl) >= 12 && binary.LittleEndian.Uint16(pl[4:]) == 0xf3 {
			// C19: an out-of-band frame is routed by (source address, conversation id) like any other
			x.viol("listener-oob-decision", fmt.Sprintf("%s: OOB frame (%s, conv %d) from %s with table %q: the listener did %q, the property asks for %q", x.cfg.name, class, binary.LittleEndian.Uint32(pl[8:]), a, tbs, dec, want))
		}
	}

	// --- frame oracle: sessions other than the one mapped at `a` (before or after) are untouched
	var own = -1
	if o, ok := tb[a]; ok {
		own = o.idx
	}
	for idx, b := range before {
		if idx == own {
			continue
		}
		if after[idx] != b {
			kind := "listener-frame"
			if strings.Contains(after[idx], "closed=true") && !strings.Contains(b, "closed=true") {
				kind = "listener-foreign-closed"
			}
			x.viol(kind, fmt.Sprintf("%s: datagram (%s) from %s changed session #%d at %s (conv %d):\n%s", x.cfg.name, class, a, idx, x.srvs[idx].addr, x.srvs[idx].conv, diffLines(b, after[idx])))
		}
	}
	for k, e := range tb {
		if k == a {
			continue
		}
		if e2, ok := ta[k]; !ok || e2.idx != e.idx {
			x.viol("listener-foreign-closed", fmt.Sprintf("%s: datagram (%s) from %s unmapped/replaced the session at %s", x.cfg.name, class, a, k))
		}
	}
	for k := range ta {
		if _, ok := tb[k]; !ok && k != a {
			x.viol("listener-frame", fmt.Sprintf("%s: datagram (%s) from %s created a mapping for %s", x.cfg.name, class, a, k))
		}
	}
	// --- gate oracle (C06): a datagram failing the integrity check changes nothing
	if !passes {
		same := tbs == tas
		if own >= 0 && before[own] != after[own] {
			same = false
		}
		if !same || d.PassiveOpens != 0 || d.CurrEstab != 0 || d.InPkts != 0 {
			x.viol("listener-gate-state-changed", fmt.Sprintf("%s: datagram (%s) failing the integrity check had an effect: decision %q, table %q -> %q, deltas %+v", x.cfg.name, class, dec, tbs, tas, d))
		}
		if len(raw) >= 20 && x.cfg.kind == "block" && d.InCsumErrors != 1 {
			x.viol("listener-gate-counter", fmt.Sprintf("%s: InCsumErrors delta %d for a checksum failure", x.cfg.name, d.InCsumErrors))
		}
	}
	return dec
}

func diffLines(a, b string) string {
	la, lb := strings.Split(a, "\n"), strings.Split(b, "\n")
	var sb strings.Builder
	for i := 0; i < len(la) || i < len(lb); i++ {
		var p, q string
		if i < len(la) {
			p = la[i]
		}
		if i < len(lb) {
			q = lb[i]
		}
		if p != q {
			if len(p) > 240 {
				p = p[:240] + "…"
			}
			if len(q) > 240 {
				q = q[:240] + "…"
			}
			fmt.Fprintf(&sb, "- %s\n+ %s\n", p, q)
		}
	}
	return sb.String()
}

// ---- peers

func (x *runner) newAddr() net.Addr {
	x.nextIP++
	n := x.nextIP
	switch n % 3 {
	case 0:
		return memnet.Addr(fmt.Sprintf("mem-%d", n))
	case 1:
		return &net.UDPAddr{IP: net.IPv4(10, byte(n>>16), byte(n>>8), byte(n)), Port: 4000 + n%7}
	default:
		return &net.UDPAddr{IP: net.IPv4(10, 0, 0, byte(1+n%5)), Port: 5000 + n} // shared IPs, distinct ports
	}
}

func keyedMsg(peer int, conv uint32, i int, n int) []byte {
	b := make([]byte, n)
	var h uint64 = uint64(peer)*0x9E3779B97F4A7C15 ^ uint64(conv)<<20 ^ uint64(i)
	for k := range b {
		h = h*6364136223846793005 + 1442695040888963407
		b[k] = byte(h >> 56)
	}
	return b
}

func (x *runner) connect(p *peer) {
	if p.cur != nil {
		p.cur.sess.Close()
		p.cur.conn.Close()
		p.old = append(p.old, p.cur)
	}
	conn := memnet.NewConn(p.addr)
	conv := x.g.U32()
	s, _ := kcp.NewConn3(conv, memnet.Addr("listener"), x.cfg.mk(), x.cfg.ds, x.cfg.ps, conn)
	s.SetNoDelay(1, 10, 2, 1)
	p.cur = &conversation{conv: conv, sess: s, conn: conn}
	x.o.Count("connect")
}

// write one keyed message (or an OOB frame) and capture the datagrams it produces
func (x *runner) write(p *peer, oob bool) {
	c := p.cur
	if oob {
		if x.cfg.ds == 0 {
			return
		}
		c.sess.SendOOB(x.g.Bytes(x.g.Intn(12)))
		c.conn.WaitOut(1, 2*time.Second)
	} else {
		if c.nmsg >= 24 {
			return
		}
		n := 1 + x.g.Intn(200)
		m := keyedMsg(p.id, c.conv, c.nmsg, n)
		c.nmsg++
		c.written = append(c.written, m...)
		c.sess.Write(m)
		want := 1
		if x.cfg.ds > 0 && c.nmsg%x.cfg.ds == 0 {
			want += x.cfg.ps
		}
		// The parity of a group is skipped by the encoder when the two latest data packets are
		// more than maxFECEncodeLatency of real time apart, so it is never waited for at length:
		// a long wait here would itself open the next gap (and the one after that).
		if c.conn.WaitOut(1, 2*time.Second) >= 1 && want > 1 {
			c.conn.WaitOut(want, 20*time.Millisecond)
		}
	}
	for _, pk := range c.conn.Take() {
		c.pending = append(c.pending, pk.Data)
	}
}

func (x *runner) room() bool {
	_, s := x.table()
	var q int
	fmt.Sscanf(s[strings.LastIndex(s, "q=")+2:], "%d", &q)
	return q < 128
}

func (x *runner) deliverNext(p *peer) {
	c := p.cur
	if len(c.pending) == 0 {
		x.write(p, false)
	}
	if len(c.pending) == 0 {
		return
	}
	d := c.pending[0]
	c.pending = c.pending[1:]
	room := x.room()
	first := len(c.sent) == 0 && !c.reordered
	if tb, _ := x.table(); first {
		if e, ok := tb[p.addr.String()]; ok && e.conv == c.conv {
			first = false // a forged frame with this conversation id got there first: plain routing
			c.started, c.hadRoom = true, true
		}
	}
	dec := x.lin("genuine", p.addr, d)
	c.sent = append(c.sent, d)
	mine := strings.HasPrefix(dec, fmt.Sprintf("create %s %d ", p.addr.String(), c.conv))
	if mine {
		c.started, c.hadRoom = true, true
	}
	// independent expectation: the first datagram of a new conversation (sn = 0 resp. an OOB
	// frame, readable conv) is a conversation start; with room in the backlog it MUST create
	if first && room && !mine && !x.lclosed {
		x.viol("listener-accept-missed", fmt.Sprintf("%s: first datagram of conversation %d from %s found room in the backlog but the decision was %q", x.cfg.name, c.conv, p.addr, dec))
	}
	if first && !room && !strings.HasPrefix(dec, "drop silent") && !strings.HasPrefix(dec, "closed ") {
		x.viol("listener-backlog", fmt.Sprintf("%s: conversation start with a full backlog: %q", x.cfg.name, dec))
	}
}

func (x *runner) accept() {
	if x.dead {
		return
	}
	_, s := x.table()
	var q int
	fmt.Sscanf(s[strings.LastIndex(s, "q=")+2:], "%d", &q)
	if q == 0 {
		x.l.SetReadDeadline(time.Now().Add(-time.Second))
	} else {
		x.l.SetReadDeadline(time.Time{})
	}
	sess, err := x.l.AcceptKCP()
	_, s2 := x.table()
	if err != nil {
		x.op("accept", "accept none "+s2)
		if q != 0 {
			x.viol("listener-accept", fmt.Sprintf("Accept failed (%v) with %d sessions queued", err, q))
		}
		return
	}
	idx := kcp.VerifSessionIndex(x.l, sess)
	sv := x.srvs[idx]
	if sv == nil {
		sv = &srv{idx: idx, s: sess, addr: sess.RemoteAddr().String(), conv: sess.GetConv()}
		x.srvs[idx] = sv
	}
	cl := ""
	if closed(sess) {
		cl = "/closed"
	}
	x.op("accept", fmt.Sprintf("accept %s/%d/%d%s %s", sess.RemoteAddr().String(), sess.GetConv(), idx, cl, s2))
	x.o.Count("accept")
	if sv.accepted {
		x.viol("listener-accept-twice", fmt.Sprintf("session #%d (%s conv %d) was returned by Accept twice", idx, sv.addr, sv.conv))
	}
	sv.accepted = true
	if x.accIdx >= len(x.order) || x.order[x.accIdx] != idx {
		x.viol("listener-accept-order", fmt.Sprintf("Accept returned session #%d, expected the %d-th created session %v", idx, x.accIdx, x.order))
	}
	x.accIdx++
}

// readAll drains what every accepted session can deliver and checks the keyed-stream prefix
func (x *runner) readAll() {
	idxs := make([]int, 0, len(x.srvs))
	for i := range x.srvs {
		idxs = append(idxs, i)
	}
	sort.Ints(idxs)
	buf := make([]byte, 4096)
	for _, i := range idxs {
		sv := x.srvs[i]
		if !sv.accepted {
			continue
		}
		sv.s.SetReadDeadline(time.Now().Add(-time.Second))
		for {
			n, err := sv.s.Read(buf)
			if err != nil || n == 0 {
				break
			}
			sv.read = append(sv.read, buf[:n]...)
			x.o.CountN("stream-bytes", n)
		}
		// whose stream is it?
		var want []byte
		found := false
		// conversation ids are unique per run; a conversation replayed from another peer's address
		// (class cross-address) legitimately starts a session there carrying the same stream
		for _, p := range x.peers {
			for _, c := range append(append([]*conversation(nil), p.old...), p.cur) {
				if c != nil && c.conv == sv.conv {
					want, found = c.written, true
				}
			}
		}
		if !found {
			if f, ok := x.forged[sv.conv]; ok { // a conversation started by a forged sn=0 frame: its payload is all there can be
				want, found = f, true
			}
		}
		if len(sv.read) > 0 && (!found || !bytes.HasPrefix(want, sv.read)) {
			x.viol("listener-stream", fmt.Sprintf("%s: session #%d (%s conv %d) delivered %d bytes that are not a prefix of what its peer wrote in that conversation (known conversation: %v)", x.cfg.name, i, sv.addr, sv.conv, len(sv.read), found))
			sv.read = nil
		}
	}
}

// forge builds a valid (sealed) frame with the given conversation id and sequence number
func (x *runner) forge(conv, sn uint32, kind string) []byte {
	var plain []byte
	payload := x.g.Bytes(x.g.Intn(20))
	seg := kcpSeg(conv, 81, 0, 32, x.g.U32(), sn, 0, payload)
	if sn == 0 && (kind == "push" || kind == "raw" || kind == "fecdata") {
		x.forged[conv] = payload
	}
	switch kind {
	case "push":
		if x.cfg.ds > 0 {
			plain = fecWrap(x.g.U32(), 0xf1, seg, true)
		} else {
			plain = seg
		}
	case "raw": // a non-FEC frame even if FEC is on
		plain = seg
	case "fecdata":
		plain = fecWrap(x.g.U32(), 0xf1, seg, true)
	case "fecshort": // data frame too short to carry a KCP header: no readable conv
		plain = fecWrap(x.g.U32(), 0xf1, x.g.Bytes(4+x.g.Intn(19)), true)
	case "parity":
		plain = fecWrap(x.g.U32(), 0xf2, x.g.Bytes(8+x.g.Intn(40)), false)
	case "oob":
		var c [4]byte
		binary.LittleEndian.PutUint32(c[:], conv)
		plain = fecWrap(0, 0xf3, append(c[:], x.g.Bytes(x.g.Intn(10))...), true)
	case "rawshort": // 12..23 bytes, not a FEC flag
		plain = x.g.Bytes(12 + x.g.Intn(12))
		plain[4], plain[5] = 81, 0
	case "tiny":
		plain = x.g.Bytes(x.g.Intn(12))
	}
	return x.seal(plain)
}

func (x *runner) corrupt(raw []byte) []byte {
	o := append([]byte(nil), raw...)
	if len(o) == 0 {
		return []byte{1}
	}
	switch x.g.Intn(3) {
	case 0:
		o[x.g.Intn(len(o))] ^= 1 << uint(x.g.Intn(8))
	case 1:
		o = o[:x.g.Intn(len(o))]
	default:
		if x.cfg.kind == "block" && len(o) >= 20 { // change the stored CRC (after decryption)
			x.dec.Decrypt(o, o)
			o[16+x.g.Intn(4)] ^= 1 << uint(x.g.Intn(8))
			x.enc.Encrypt(o, o)
		} else {
			o[len(o)-1] ^= 0x80
		}
	}
	return o
}

func (x *runner) anyPeer() *peer { return x.peers[x.g.Intn(len(x.peers))] }

func (x *runner) foreign() {
	p := x.anyPeer()
	q := x.anyPeer()
	kinds := []string{"push", "raw", "fecdata", "fecshort", "parity", "oob", "rawshort", "tiny"}
	switch x.g.Intn(9) {
	case 0: // random bytes from a known address
		x.lin("random", p.addr, x.g.Bytes(x.g.Intn(80)))
	case 1: // corrupted genuine datagram (without a cipher there is no integrity check: skip)
		if x.cfg.kind == "nil" {
			x.lin("random", p.addr, x.g.Bytes(x.g.Intn(80)))
		} else if n := len(p.cur.sent); n > 0 {
			x.lin("corrupt-genuine", p.addr, x.corrupt(p.cur.sent[x.g.Intn(n)]))
		} else if len(p.cur.pending) > 0 {
			x.lin("corrupt-genuine", p.addr, x.corrupt(p.cur.pending[0]))
		}
	case 2: // stale: replay of an earlier datagram of this conversation or of a previous one
		cs := append(append([]*conversation(nil), p.old...), p.cur)
		c := cs[x.g.Intn(len(cs))]
		if n := len(c.sent); n > 0 {
			cl := "stale-dup"
			if c != p.cur {
				cl = "stale-oldconv"
			}
			x.lin(cl, p.addr, c.sent[x.g.Intn(n)])
		}
	case 3: // peer q's genuine datagram arriving from peer p's address
		if p != q {
			if n := len(q.cur.sent); n > 0 {
				x.lin("cross-address", p.addr, q.cur.sent[x.g.Intn(n)])
			}
		}
	case 4: // forged valid frame, foreign conversation, from a known address: sn = 0 resets, sn ≠ 0 is ignored
		sn := 1 + x.g.U32()%1000
		if x.g.Intn(4) == 0 {
			sn = 0 // destroys the genuine conversation at that address (the peer is dead until it reconnects)
		}
		k := kinds[x.g.Intn(3)]
		x.lin("forged-foreign-conv-"+k, p.addr, x.forge(x.g.U32(), sn, k))
	case 5: // frames without a readable conversation id
		k := []string{"fecshort", "parity", "rawshort", "tiny"}[x.g.Intn(4)]
		x.lin("forged-noconv-"+k, p.addr, x.forge(0, 0, k))
	case 6: // anything from an unknown address
		k := kinds[x.g.Intn(len(kinds))]
		a := x.newAddr()
		if k == "push" || k == "raw" || k == "fecdata" || k == "oob" {
			// would create a session for a peer that never follows up; allowed, counts as a start
			x.lin("unknown-addr-"+k, a, x.forge(x.g.U32(), uint32(x.g.Intn(2)), k))
		} else {
			x.lin("unknown-addr-"+k, a, x.forge(0, 0, k))
		}
	case 7: // forged OOB with a foreign conversation id (always acts as a reset: sn is 0)
		if x.g.Intn(4) == 0 {
			x.lin("forged-oob-foreign", p.addr, x.forge(x.g.U32(), 0, "oob"))
		} else {
			x.lin("forged-oob-own", p.addr, x.forge(p.cur.conv, 0, "oob"))
		}
	default: // corrupted forged frame (without a cipher the corruption would simply be accepted: skip)
		if x.cfg.kind == "nil" {
			x.lin("random", p.addr, x.g.Bytes(x.g.Intn(80)))
		} else {
			x.lin("corrupt-forged", p.addr, x.corrupt(x.forge(x.g.U32(), 1, kinds[x.g.Intn(len(kinds))])))
		}
	}
}

func (x *runner) startCase(name string, c config) {
	x.cfg = c
	x.enc, x.dec = c.mk(), c.mk()
	x.lconn = memnet.NewConn(memnet.Addr("listener"))
	l, err := kcp.ServeConn(c.mk(), c.ds, c.ps, x.lconn)
	if err != nil {
		panic(err)
	}
	x.l = l
	x.peers = nil
	x.srvs = map[int]*srv{}
	x.forged = map[uint32][]byte{}
	x.order = nil
	x.accIdx = 0
	x.hist = nil
	x.lclosed = false
	x.o.Case(name + "-" + c.name + "-" + fmt.Sprint(x.g.U32()))
	x.op("lnew "+c.kind, "ok")
}

func (x *runner) endCase() {
	if x.dead {
		x.dead = false
		return
	}
	// drain the accept queue: exactly the created sessions, once each, in order
	for {
		_, s := x.table()
		if strings.HasSuffix(s, "q=0") {
			break
		}
		x.accept()
	}
	x.accept() // one on the empty queue
	if x.accIdx != len(x.order) && !x.lclosed {
		x.viol("listener-accept-count", fmt.Sprintf("%d sessions created, %d returned by Accept", len(x.order), x.accIdx))
	}
	x.readAll()
	// every genuine conversation whose first datagram found room has been accepted exactly once
	for _, p := range x.peers {
		for _, c := range append(append([]*conversation(nil), p.old...), p.cur) {
			if c == nil || !c.started || !c.hadRoom {
				continue
			}
			n := 0
			for _, sv := range x.srvs {
				if sv.addr == p.addr.String() && sv.conv == c.conv && sv.accepted {
					n++
				}
			}
			// (more than once is possible and is what the code does: after the session was closed, a stale
			// datagram of the same conversation finds no session mapped and is a conversation start again)
			if n < 1 && !x.lclosed {
				x.viol("listener-accept-count", fmt.Sprintf("%s: conversation %d of peer %s started with room in the backlog but was never returned by Accept", x.cfg.name, c.conv, p.addr))
			}
			if n > 1 {
				x.o.Count("resurrected-conversation")
			}
		}
	}
	for _, p := range x.peers {
		if p.cur != nil {
			p.cur.sess.Close()
			p.cur.conn.Close()
		}
	}
	for _, sv := range x.srvs {
		sv.s.Close()
	}
	x.l.Close()
	x.lconn.Close()
	kcp.VerifListenerForget(x.l)
}

// lclose: Listener.Close in the middle of a case.  Every session still in the accept backlog must be
// closed and unmapped, the queue empty; accepted sessions are untouched and stay mapped.
func (x *runner) lclose() {
	if x.dead || x.lclosed {
		return
	}
	tb, tbs := x.table()
	before := x.snapAll()
	queued := map[int]bool{}
	for i := x.accIdx; i < len(x.order); i++ {
		queued[x.order[i]] = true
	}
	if msg := hx.Try(func() { x.l.Close() }); msg != "" {
		x.viol("listener-panic", "Listener.Close panicked: "+msg)
	}
	x.lclosed = true
	ta, tas := x.table()
	after := x.snapAll()
	x.op("lclose", "ok "+tas)
	x.o.Count("lclose")
	x.o.CountN("lclose-queued", len(queued))
	if !strings.HasSuffix(tas, "q=0") {
		x.viol("listener-close-backlog", fmt.Sprintf("%s: accept queue not empty after Listener.Close: %q -> %q", x.cfg.name, tbs, tas))
	}
	for idx := range queued {
		sv := x.srvs[idx]
		if sv == nil {
			continue
		}
		if !closed(sv.s) {
			x.viol("listener-close-backlog", fmt.Sprintf("%s: session #%d (%s conv %d) was in the accept backlog and is still open after Listener.Close", x.cfg.name, idx, sv.addr, sv.conv))
		}
		sv.closedBy = "listener-close"
	}
	for k, e := range ta {
		if queued[e.idx] {
			x.viol("listener-close-backlog", fmt.Sprintf("%s: session #%d is still mapped at %s after Listener.Close", x.cfg.name, e.idx, k))
		}
	}
	// sessions that were not in the backlog: identical, mapped as before
	for idx, b := range before {
		if !queued[idx] && after[idx] != b {
			x.viol("listener-close-frame", fmt.Sprintf("%s: Listener.Close changed session #%d (not in the backlog):\n%s", x.cfg.name, idx, diffLines(b, after[idx])))
		}
	}
	for k, e := range tb {
		if e2, ok := ta[k]; !queued[e.idx] && (!ok || e2.idx != e.idx) {
			x.viol("listener-close-frame", fmt.Sprintf("%s: Listener.Close unmapped the session at %s (not in the backlog)", x.cfg.name, k))
		}
	}
}

// traffic, Listener.Close, more traffic: old sessions still work or are reset-closed, nothing new is created
func (x *runner) caseClose(c config, k, steps int) {
	x.startCase(fmt.Sprintf("lclose%d", k), c)
	for i := 0; i < k; i++ {
		p := &peer{id: i, addr: x.newAddr()}
		x.peers = append(x.peers, p)
		x.connect(p)
	}
	closeAt := steps/3 + x.g.Intn(steps/3+1)
	for i := 0; i < steps; i++ {
		if i == closeAt {
			// accept a random part of the backlog first: those sessions survive the Close
			n := x.g.Intn(len(x.order) - x.accIdx + 1)
			if x.g.Bool() { // … or nearly all of it
				n = len(x.order) - x.accIdx - x.g.Intn(3)
			}
			for ; n > 0; n-- {
				x.accept()
			}
			x.lclose()
		}
		switch r := x.g.Intn(100); {
		case r < 40:
			x.deliverNext(x.anyPeer())
		case r < 44:
			p := x.anyPeer()
			x.write(p, true) // OOB
			x.deliverNext(p)
		case r < 68:
			x.foreign()
		case r < 74:
			x.accept()
		case r < 80:
			x.readAll()
		case r < 86: // reconnect: same address, new conversation (after the close: a reset that creates nothing)
			p := x.anyPeer()
			x.connect(p)
			x.o.Count("reconnect")
			x.deliverNext(p)
		case r < 92: // a new peer
			p := &peer{id: len(x.peers), addr: x.newAddr()}
			x.peers = append(x.peers, p)
			x.connect(p)
			x.deliverNext(p)
		default: // the application closes a server-side session
			idxs := make([]int, 0, len(x.srvs))
			for i := range x.srvs {
				idxs = append(idxs, i)
			}
			if len(idxs) > 0 {
				sort.Ints(idxs)
				idx := idxs[x.g.Intn(len(idxs))]
				x.srvs[idx].s.Close()
				_, s := x.table()
				x.op(fmt.Sprintf("close %d", idx), "ok "+s)
				x.o.Count("user-close")
			}
		}
	}
	x.readAll()
	x.endCase()
}

// mixed traffic of k peers
func (x *runner) caseMixed(c config, k, steps int) {
	x.startCase(fmt.Sprintf("mixed%d", k), c)
	for i := 0; i < k; i++ {
		p := &peer{id: i, addr: x.newAddr()}
		x.peers = append(x.peers, p)
		x.connect(p)
	}
	x.o.Count(fmt.Sprintf("peers:%d", k))
	for i := 0; i < steps; i++ {
		switch r := x.g.Intn(100); {
		case r < 40:
			x.deliverNext(x.anyPeer())
		case r < 45:
			p := x.anyPeer()
			x.write(p, true) // OOB
			x.deliverNext(p)
		case r < 72:
			x.foreign()
		case r < 80:
			x.accept()
		case r < 88:
			x.readAll()
		case r < 93: // reconnect: same address, new conversation
			p := x.anyPeer()
			x.connect(p)
			x.o.Count("reconnect")
			if x.g.Bool() {
				x.deliverNext(p)
			}
		case r < 96: // the application closes a server-side session
			idxs := make([]int, 0, len(x.srvs))
			for i := range x.srvs {
				idxs = append(idxs, i)
			}
			if len(idxs) > 0 {
				sort.Ints(idxs)
				idx := idxs[x.g.Intn(len(idxs))]
				x.srvs[idx].s.Close()
				tbl, s := x.table()
				x.op(fmt.Sprintf("close %d", idx), "ok "+s)
				for _, e := range tbl {
					if e.idx == idx {
						x.viol("listener-close-still-mapped", fmt.Sprintf("%s: session #%d is still mapped at %s after Close", x.cfg.name, idx, e.addr))
					}
				}
				x.o.Count("user-close")
				// the peer at that address starts over with a new conversation
				for _, p := range x.peers {
					if p.addr.String() == x.srvs[idx].addr && p.cur.conv == x.srvs[idx].conv {
						x.connect(p)
					}
				}
			}
		default: // out-of-order delivery: swap two pending datagrams
			p := x.anyPeer()
			if len(p.cur.pending) < 2 {
				x.write(p, false)
				x.write(p, false)
			}
			if n := len(p.cur.pending); n >= 2 {
				p.cur.pending[0], p.cur.pending[n-1] = p.cur.pending[n-1], p.cur.pending[0]
				p.cur.reordered = true
			}
		}
	}
	x.readAll()
	x.endCase()
}

// 129+ peers without Accept: the backlog fills, further starts change nothing, and after
// Accept has made room a retransmitted first datagram is a start again
func (x *runner) caseBacklog(c config) {
	x.startCase("backlog", c)
	n := 128 + 2 + x.g.Intn(6)
	for i := 0; i < n; i++ {
		p := &peer{id: i, addr: x.newAddr()}
		x.peers = append(x.peers, p)
		x.connect(p)
		x.deliverNext(p)
	}
	// an existing (queued, never accepted) session is reset by its peer while the backlog is full:
	// the code closes the old session BEFORE it tests the backlog (closed-only decision)
	p0 := x.peers[x.g.Intn(100)]
	x.connect(p0)
	x.deliverNext(p0)
	// foreign traffic meanwhile
	for i := 0; i < 20; i++ {
		x.foreign()
	}
	// make room, then the late peers retransmit their first datagram
	for i := 0; i < 5; i++ {
		x.accept()
	}
	for _, p := range x.peers[126:] {
		if len(p.cur.sent) > 0 {
			room := x.room()
			dec := x.lin("retransmit-first", p.addr, p.cur.sent[0])
			_ = room
			if strings.HasPrefix(dec, fmt.Sprintf("create %s %d ", p.addr.String(), p.cur.conv)) {
				p.cur.started, p.cur.hadRoom = true, true
			}
		}
	}
	dec := x.lin("retransmit-first", p0.addr, p0.cur.sent[0])
	_ = dec
	x.o.Count("backlog-case")
	x.endCase()
}

// ---- dialled session source filter

func addrSpec(a net.Addr) string {
	dash := func(s string) string {
		if s == "" {
			return "-"
		}
		return s
	}
	if a == nil {
		return "nil"
	}
	if u, ok := a.(*net.UDPAddr); ok {
		ip := []byte(u.IP)
		if v4 := u.IP.To4(); v4 != nil {
			ip = v4
		} else if v6 := u.IP.To16(); v6 != nil {
			ip = v6
		}
		return fmt.Sprintf("udp %s %d %s %s", hx.Hex(ip), u.Port, dash(u.Zone), dash(u.String()))
	}
	return "other " + dash(a.String())
}

func (x *runner) caseDial() {
	pool := []net.Addr{
		&net.UDPAddr{IP: net.IPv4(10, 0, 0, 1), Port: 7000},
		&net.UDPAddr{IP: net.IPv4(10, 0, 0, 1).To4(), Port: 7000},
		&net.UDPAddr{IP: net.IPv4(10, 0, 0, 1), Port: 7001},
		&net.UDPAddr{IP: net.IPv4(10, 0, 0, 2), Port: 7000},
		&net.UDPAddr{IP: net.ParseIP("fe80::1"), Port: 7000, Zone: "eth0"},
		&net.UDPAddr{IP: net.ParseIP("fe80::1"), Port: 7000, Zone: "eth1"},
		&net.UDPAddr{IP: net.ParseIP("fe80::1"), Port: 7000},
		&net.UDPAddr{IP: net.ParseIP("::ffff:10.0.0.1"), Port: 7000},
		&net.UDPAddr{Port: 7000},
		memnet.Addr("10.0.0.1:7000"),
		memnet.Addr("peer-x"),
		memnet.Addr("peer-y"),
		memnet.Addr(""),
	}
	remotes := append([]net.Addr{nil}, pool...)
	for _, remote := range remotes {
		x.cfg = configs()[0]
		x.hist = nil
		x.o.Case("dial-" + addrSpec(remote))
		conn := memnet.NewConn(memnet.Addr("client"))
		conv := x.g.U32()
		s, _ := kcp.NewConn3(conv, remote, nil, 0, 0, conn)
		<-conn.Ready // the read loop is waiting
		x.op("dial "+addrSpec(remote), "ok")
		for i := 0; i < 3*len(pool); i++ {
			from := pool[x.g.Intn(len(pool))]
			c0 := memnet.ReadSnmp()
			before := kcp.VerifSessionSnapshot(s)
			seg := kcpSeg(conv, 81, 0, 32, 0, uint32(i), 0, []byte{byte(i)})
			ok := conn.Inject(seg, from)
			d := memnet.ReadSnmp().Sub(c0)
			after := kcp.VerifSessionSnapshot(s)
			obs := "weird"
			switch {
			case !ok:
				obs = "stuck"
			case d.InErrs == 1 && d.InPkts == 0:
				obs = "filter"
			case d.InErrs == 0 && d.InPkts == 1:
				obs = "pass"
			}
			x.op("dgram "+addrSpec(from), obs)
			x.o.Count("dial:" + obs)
			if obs == "filter" && !bytes.Equal(before, after) {
				x.viol("listener-dial-filter", fmt.Sprintf("a datagram from %v filtered by the dialled session (remote %v) changed its state", from, remote))
			}
			// independent expectation when the remote is a UDP address: only the same ip/port/zone passes
			if ru, ok := remote.(*net.UDPAddr); ok {
				fu, isU := from.(*net.UDPAddr)
				want := isU && ru.Port == fu.Port && ru.Zone == fu.Zone && ru.IP.Equal(fu.IP)
				if (obs == "pass") != want {
					x.viol("listener-dial-filter", fmt.Sprintf("dialled session with remote %v: datagram from %v (%T): %s", remote, from, from, obs))
				}
			}
		}
		s.Close()
		conn.Close()
	}
}

// caseRunts (C06, "too short" clause at the reader): datagrams too short to carry anything — the empty
// one included — reach a dialled session and a listener through the REAL read loops.  They must be
// ignored and the loop must go on: the genuine datagram that follows is processed as usual.
// (No op lines: the read loops are not part of the model; verdicts are implementation-side only.)
func (x *runner) caseRunts() {
	froms := []net.Addr{memnet.Addr("peer-x"), memnet.Addr("peer-y")}
	for _, n := range []int{0, 1, 3, 11} {
		// dialled session, any remote
		conn := memnet.NewConn(memnet.Addr("client"))
		conv := x.g.U32()
		s, _ := kcp.NewConn3(conv, nil, nil, 0, 0, conn)
		<-conn.Ready
		x.o.Count(fmt.Sprintf("runt:dial:%d", n))
		if !conn.Inject(make([]byte, n), froms[0]) {
			x.viol("gate-runt-stops-reader", fmt.Sprintf("dialled session: a datagram of %d bytes ended the read loop", n))
		} else {
			c0 := memnet.ReadSnmp()
			ok := conn.Inject(kcpSeg(conv, 81, 0, 32, 0, 0, 0, []byte{7}), froms[0])
			if d := memnet.ReadSnmp().Sub(c0); !ok || d.InPkts != 1 {
				x.viol("gate-runt-stops-reader", fmt.Sprintf("dialled session: after a datagram of %d bytes the next genuine datagram was not processed (delivered to the loop: %v, InPkts +%d)", n, ok, d.InPkts))
			} else {
				buf := make([]byte, 16)
				s.SetReadDeadline(time.Now().Add(5 * time.Second))
				if k, err := s.Read(buf); err != nil || k != 1 || buf[0] != 7 {
					x.viol("gate-runt-stops-reader", fmt.Sprintf("dialled session: after a datagram of %d bytes Read returned %d, %v", n, k, err))
				}
			}
		}
		s.Close()
		conn.Close()

		// listener
		lconn := memnet.NewConn(memnet.Addr("listener"))
		l, err := kcp.ServeConn(nil, 0, 0, lconn)
		if err != nil {
			panic(err)
		}
		<-lconn.Ready
		x.o.Count(fmt.Sprintf("runt:listener:%d", n))
		if !lconn.Inject(make([]byte, n), froms[1]) {
			x.viol("listener-gate-runt-stops-reader", fmt.Sprintf("listener: a datagram of %d bytes ended the monitor loop", n))
		} else if !lconn.Inject(kcpSeg(conv, 81, 0, 32, 0, 0, 0, []byte{9}), froms[1]) {
			x.viol("listener-gate-runt-stops-reader", fmt.Sprintf("listener: after a datagram of %d bytes the next genuine datagram was not taken by the monitor loop", n))
		} else {
			l.SetReadDeadline(time.Now().Add(5 * time.Second))
			if as, err := l.AcceptKCP(); err != nil {
				x.viol("listener-gate-runt-stops-reader", fmt.Sprintf("listener: after a datagram of %d bytes Accept returned %v although a genuine first datagram followed", n, err))
			} else {
				as.Close()
			}
		}
		l.Close()
		lconn.Close()
		kcp.VerifListenerForget(l)
	}
}

// caseFloodStalledSocket (C11 "traffic of one peer never stalls another", C05): the socket's send
// side is stalled (WriteTo blocks: a full send buffer), one peer keeps sending datagrams that each
// make its session answer at once (duplicates with ACK-no-delay).  The session's output queue fills
// up; from then on its output must be dropped, never waited for — packetInput runs on the listener's
// only reading goroutine and under the session's lock.  A second peer must still get through.
// (No op lines: the output path is not part of the demultiplexer model.)
func (x *runner) caseFloodStalledSocket() {
	lconn := memnet.NewConn(memnet.Addr("listener"))
	l, err := kcp.ServeConn(nil, 0, 0, lconn)
	if err != nil {
		panic(err)
	}
	defer func() {
		lconn.Stall(false)
		l.Close()
		lconn.Close()
		kcp.VerifListenerForget(l)
	}()
	from, other := memnet.Addr("flood-peer"), memnet.Addr("quiet-peer")
	first := kcpSeg(0x7001, 81, 0, 32, 0, 0, 0, []byte{1})
	kcp.VerifListenerPacketInput(l, first, from)
	l.SetReadDeadline(time.Now().Add(5 * time.Second))
	s, err := l.AcceptKCP()
	if err != nil {
		x.viol("listener-stuck", "flood case: Accept returned "+err.Error())
		return
	}
	defer s.Close()
	s.SetACKNoDelay(true)
	lconn.Stall(true)
	n := 3*2048 + 500
	x.o.Count("flood:datagrams")
	done := make(chan int, 1)
	go func() {
		i := 0
		for ; i < n; i++ {
			kcp.VerifListenerPacketInput(l, first, from) // a duplicate: acknowledged again, at once
		}
		done <- i
	}()
	select {
	case <-done:
	case <-time.After(20 * time.Second):
		x.viol("listener-stuck", fmt.Sprintf("socket send side stalled, %d duplicates from one peer (each answered at once): Listener.packetInput blocked — the session waits for room in its output queue while holding its lock, on the listener's reading goroutine", n))
		return
	}
	okc := make(chan struct{}, 1)
	go func() { kcp.VerifListenerPacketInput(l, kcpSeg(0x7002, 81, 0, 32, 0, 0, 0, []byte{2}), other); okc <- struct{}{} }()
	select {
	case <-okc:
		if s2, err := l.AcceptKCP(); err != nil {
			x.viol("listener-stuck", "flood case: the second peer's first datagram did not produce a session: "+err.Error())
		} else {
			defer s2.Close()
		}
	case <-time.After(20 * time.Second):
		x.viol("listener-stuck", "flood case: the second peer's datagram was not processed")
	}
}

func Run(o *hx.Out, g *hx.Rng, tier string) {
	memnet.InertScheduler()
	kcp.SetEntropy(&memnet.RngReader{G: g.Fork()})
	o.Res.Rule = "one case per (scenario, cipher/FEC configuration, peer count); op lines are injected datagrams, accepts, closes, filter probes"
	g = g.Fork() // hx.NewRng(seed) streams of consecutive seeds are shifted copies of each other
	x := &runner{o: o, g: g, tier: tier}
	cfgs := configs()
	rounds, steps := 3, 300
	if tier == "thorough" {
		rounds, steps = 24, 800
	}
	for r := 0; r < rounds; r++ {
		for k := 1; k <= 8; k++ {
			c := cfgs[(k+r)%len(cfgs)]
			x.caseMixed(c, k, steps)
		}
		for _, c := range cfgs {
			x.caseMixed(c, 2+g.Intn(4), steps/2)
		}
	}
	for r := 0; r < rounds; r++ {
		for i, c := range cfgs {
			if tier == "thorough" || (i+r)%2 == 0 {
				x.caseClose(c, 3+g.Intn(5), steps/2)
			}
		}
	}
	x.caseBacklog(cfgs[0])
	x.caseBacklog(cfgs[3])
	if tier == "thorough" {
		for _, c := range cfgs {
			x.caseBacklog(c)
		}
	}
	x.caseDial()
	x.caseRunts()
	x.caseFloodStalledSocket()
}
