// Package entropy: component `entropy` (C09, oracle only) — the package's nonce generators under
// concurrent use by many sessions: no two 16-byte draws may ever be equal (a repeated nonce makes two
// datagrams of equal content identical on the wire).  No Lean side: the generator's sequential
// behaviour is modelled in Model/SessOut and tied by component `wire`; this component covers the
// interleavings a single-threaded run cannot produce.
package entropy

import (
	"fmt"
	"io"
	"runtime"
	"sync"

	kcp "github.com/xtaci/kcp-go/v5"
	"verif/harness/internal/hx"
)

func Run(o *hx.Out, g *hx.Rng, tier string) {
	o.Res.Rule = "a case is one generator (default, AES, ChaCha8) drawn concurrently by G goroutines, D draws of 16 bytes each; distinct = distinct (generator, G, D); every draw is compared with all others of the run"
	draws := 60000
	if tier == "thorough" {
		draws = 600000
	}
	type gen struct {
		name string
		mk   func() io.Reader
	}
	gens := []gen{{"default", kcp.NewEntropy}, {"aes", kcp.NewEntropyAES}, {"chacha8", kcp.NewEntropyChacha8}}
	for _, ge := range gens {
		for _, G := range []int{2, 8, max(2, runtime.NumCPU())} {
			r := ge.mk()
			o.Case(fmt.Sprintf("%s-%d-%d", ge.name, G, draws))
			per := draws / G
			out := make([][][16]byte, G)
			var wg sync.WaitGroup
			for i := 0; i < G; i++ {
				wg.Add(1)
				go func(i int) {
					defer wg.Done()
					buf := make([][16]byte, per)
					for j := range buf {
						io.ReadFull(r, buf[j][:])
					}
					out[i] = buf
				}(i)
			}
			wg.Wait()
			seen := make(map[[16]byte]struct{}, draws)
			dups := 0
			var first [16]byte
			for i := range out {
				for j := range out[i] {
					if _, ok := seen[out[i][j]]; ok {
						if dups == 0 {
							first = out[i][j]
						}
						dups++
					}
					seen[out[i][j]] = struct{}{}
				}
			}
			o.CountN("draws:"+ge.name, per*G)
			o.Op(fmt.Sprintf("draw %s goroutines=%d draws=%d", ge.name, G, per*G), fmt.Sprintf("duplicates=%d", dups))
			if dups > 0 {
				o.Violate(hx.Violation{Kind: "entropy-duplicate-nonce", Detail: fmt.Sprintf("generator %s: %d repeated 16-byte draws among %d concurrent draws by %d goroutines (first: %x)", ge.name, dups, per*G, G, first),
					Replay: []string{fmt.Sprintf("kcp.%s, %d goroutines x %d reads of 16 bytes", ge.name, G, per)}})
			}
		}
	}
	// re-seeding (every 2^24 reads): what follows one re-seed must not be what followed the previous one
	// (a generator restarted from a fixed seed repeats its whole nonce sequence period after period)
	for _, ge := range gens[1:] {
		r := ge.mk()
		o.Case("reseed-" + ge.name)
		var sink [16]byte
		// windows of 32 draws around the first and the second re-seed point (read index 2^24 and 2^25+1),
		// compared at every alignment: robust against an off-by-one in where exactly the re-seed happens
		i1, i2 := 1<<24, 1<<25+1
		var w1, w2 [32][16]byte
		for i := 0; i < i2+24; i++ {
			switch {
			case i >= i1-8 && i < i1+24:
				io.ReadFull(r, w1[i-(i1-8)][:])
			case i >= i2-8 && i < i2+24:
				io.ReadFull(r, w2[i-(i2-8)][:])
			default:
				r.Read(sink[:])
			}
		}
		same := false
		var hit [16]byte
		for a := 0; a+4 <= 32 && !same; a++ {
			for b := 0; b+4 <= 32; b++ {
				if w1[a] == w2[b] && w1[a+1] == w2[b+1] && w1[a+2] == w2[b+2] && w1[a+3] == w2[b+3] {
					same, hit = true, w1[a]
					break
				}
			}
		}
		o.CountN("draws:"+ge.name, i2+24)
		o.Op("reseed "+ge.name, fmt.Sprintf("repeats=%v", same))
		if same {
			o.Violate(hx.Violation{Kind: "entropy-reseed-repeats", Detail: fmt.Sprintf("generator %s: four consecutive 16-byte draws after its second re-seed equal four consecutive draws after its first (%x...): the nonce sequence repeats with the re-seed period", ge.name, hit),
				Replay: []string{fmt.Sprintf("kcp.%s: 2^25+25 reads of 16 bytes; the 32 draws around read 2^24 against the 32 around read 2^25+1", ge.name)}})
		}
	}
	_ = g
}
