// Package entropy: component `entropy` (C09, oracle only) — the package's nonce generators under
// concurrent use by many sessions: no two 16-byte draws may ever be equal (a repeated nonce makes two
// datagrams of equal content identical on the wire).  No Lean side: the generator's sequential
// behaviour is modelled in Model/SessOut and tied by component `wire`; this component covers the
// interleavings a single-threaded run cannot produce.
package entropy

import (
	"fmt"
	"io"
	"runtime"
	"sync"

	kcp "github.com/xtaci/kcp-go/v5"
	"verif/harness/internal/hx"
)

func Run(o *hx.Out, g *hx.Rng, tier string) {
	o.Res.Rule = "a case is one generator (default, AES, ChaCha8) drawn concurrently by G goroutines, D draws of 16 bytes each; distinct = distinct (generator, G, D); every draw is compared with all others of the run"
	draws := 60000
	if tier == "thorough" {
		draws = 600000
	}
	type gen struct {
		name string
		mk   func() io.Reader
	}
	gens := []gen{{"default", kcp.NewEntropy}, {"aes", kcp.NewEntropyAES}, {"chacha8", kcp.NewEntropyChacha8}}
	for _, ge := range gens {
		for _, G := range []int{2, 8, max(2, runtime.NumCPU())} {
			r := ge.mk()
			o.Case(fmt.Sprintf("%s-%d-%d", ge.name, G, draws))
			per := draws / G
			out := make([][][16]byte, G)
			var wg sync.WaitGroup
			for i := 0; i < G; i++ {
				wg.Add(1)
				go func(i int) {
					defer wg.Done()
					buf := make([][16]byte, per)
					for j := range buf {
						io.ReadFull(r, buf[j][:])
					}
					out[i] = buf
				}(i)
			}
			wg.Wait()
			seen := make(map[[16]byte]struct{}, draws)
			dups := 0
			var first [16]byte
			for i := range out {
				for j := range out[i] {
					if _, ok := seen[out[i][j]]; ok {
						if dups == 0 {
							first = out[i][j]
						}
						dups++
					}
					seen[out[i][j]] = struct{}{}
				}
			}
			o.CountN("draws:"+ge.name, per*G)
			o.Op(fmt.Sprintf("draw %s goroutines=%d draws=%d", ge.name, G, per*G), fmt.Sprintf("duplicates=%d", dups))
			if dups > 0 {
				o.Violate(hx.Violation{Kind: "entropy-duplicate-nonce", Detail: fmt.Sprintf("generator %s: %d repeated 16-byte draws among %d concurrent draws by %d goroutines (first: %x)", ge.name, dups, per*G, G, first),
					Replay: []string{fmt.Sprintf("kcp.%s, %d goroutines x %d reads of 16 bytes", ge.name, G, per)}})
			}
		}
	}
	_ = g
}
