// Package autotune: correspondence component `autotune` (C16) — the real autoTune ring and
// FindPeriod (through the verif hook) against Model/AutoTune.
//
// Ops: new | s bit seq | find bit | findx bit.  `find` compares the result exactly; `findx` is used
// where the comparator handed to sort.Slice is not a strict weak order on the window (equal ids with
// different bits, ids more than 2^31 apart) so that the result legitimately depends on the sorting
// algorithm: only panic-freedom and the range of the result are checked there.
//
// Oracle (kind autotune-period-wrong): for a window that is an in-order run of genuine samples of a
// d/p sender, FindPeriod(true) = d iff the first group start after the window start plus d lies
// inside the window, else -1; FindPeriod(false) = p iff the first parity start after the window
// start plus p lies inside, else -1 (the closed form proved as period_run_*_iff in Lemmas/AutoTune).
package autotune

import (
	"fmt"
	"strings"

	kcp "github.com/xtaci/kcp-go/v5"
	"verif/harness/internal/hx"
)

const ringSize = 258

type runner struct {
	o   *hx.Out
	g   *hx.Rng
	t   *kcp.VerifAutoTune
	key strings.Builder
}

func (x *runner) op(op, obs string) {
	x.key.WriteString(op)
	x.key.WriteByte(';')
	x.o.Op(op, obs)
}

func (x *runner) viol(kind, detail string) {
	k := x.key.String()
	if len(k) > 20000 {
		k = "…" + k[len(k)-20000:]
	}
	x.o.Violate(hx.Violation{Kind: kind, Detail: detail, Replay: []string{k}})
}

func (x *runner) fresh() {
	x.key.Reset()
	x.t = kcp.VerifNewAutoTune()
	x.o.Count("op:new")
	x.op("new", "ok")
}

func b2s(b bool) string {
	if b {
		return "1"
	}
	return "0"
}

func (x *runner) sample(bit bool, seq uint32) {
	x.t.Sample(bit, seq)
	h, t, c := x.t.State()
	x.o.Count("op:s")
	x.op(fmt.Sprintf("s %s %d", b2s(bit), seq), fmt.Sprintf("h=%d t=%d c=%d", h, t, c))
	if h < 0 || h >= ringSize || t < 0 || t >= ringSize || c > ringSize || t != (h+c)%ringSize {
		x.viol("autotune-ring", fmt.Sprintf("ring indices head=%d tail=%d count=%d violate tail = (head+count) mod %d", h, t, c, ringSize))
	}
}

func (x *runner) find(bit bool, exact bool) int {
	r := -2
	pm := hx.Try(func() { r = x.t.FindPeriod(bit) })
	name := "find"
	if !exact {
		name = "findx"
	}
	x.o.Count("op:" + name)
	if pm != "" {
		x.op(name+" "+b2s(bit), "panic")
		x.viol("autotune-panic", "FindPeriod panicked: "+pm)
		return r
	}
	if exact {
		x.op(name+" "+b2s(bit), fmt.Sprint(r))
	} else {
		x.op(name+" "+b2s(bit), "ok")
	}
	if r == 0 || r < -1 || r > ringSize {
		x.viol("autotune-period-range", fmt.Sprintf("FindPeriod(%v) = %d", bit, r))
	}
	switch {
	case r == -1:
		x.o.Count("find:none")
	default:
		x.o.Count("find:period")
	}
	return r
}

// expected result on a window that is the in-order run s', s'+1, … of cnt samples of a d/p sender
func expect(d, p int, s uint64, cnt int, bit bool) int {
	n := uint64(d + p)
	if cnt < 3 {
		return -1
	}
	if bit {
		k := s + (n - s%n)
		if k+uint64(d) < s+uint64(cnt) {
			return d
		}
		return -1
	}
	var k uint64
	if s%n < uint64(d) {
		k = s + (uint64(d) - s%n)
	} else {
		k = s + (n - s%n) + uint64(d)
	}
	if k+uint64(p) < s+uint64(cnt) {
		return p
	}
	return -1
}

// inOrderRun: a fresh ring fed with an uninterrupted in-order run; closed-form oracle after every
// few samples.
func (x *runner) inOrderRun(d, p int, start uint64, length, every int) {
	x.fresh()
	x.o.Case("")
	n := uint64(d + p)
	for i := 0; i < length; i++ {
		id := start + uint64(i)
		x.sample(id%n < uint64(d), uint32(id))
		if i%every == every-1 || i == length-1 {
			cnt := min(i+1, ringSize)
			s := start + uint64(i+1-cnt)
			// the closed form is for ids that do not cross 2^32 inside the window
			if s+uint64(cnt) > 1<<32 && s < 1<<32 {
				x.find(true, true)
				x.find(false, true)
				continue
			}
			for _, bit := range []bool{true, false} {
				got := x.find(bit, true)
				if want := expect(d, p, s, cnt, bit); got != want {
					x.viol("autotune-period-wrong", fmt.Sprintf("sender %d/%d, window = in-order run of %d ids from %d: FindPeriod(%v) = %d, want %d", d, p, cnt, s, bit, got, want))
				}
			}
		}
	}
	x.o.Case(hx.HashKey(x.key.String()))
	x.o.Res.Cases--
}

// disturbed: loss, duplication and reordering inside a span much smaller than 2^31 (the comparator is
// a strict total order on distinct ids, duplicates are identical entries): exact comparison.
func (x *runner) disturbed(d, p int, start uint64, length int) {
	x.fresh()
	x.o.Case("")
	n := uint64(d + p)
	var pend []uint64
	for i := 0; i < length; i++ {
		id := start + uint64(i)
		switch {
		case x.g.Chance(12):
			x.o.Count("dist:lost")
			continue
		case x.g.Chance(12):
			pend = append(pend, id)
			continue
		}
		x.sample(id%n < uint64(d), uint32(id))
		if x.g.Chance(8) {
			x.o.Count("dist:dup")
			x.sample(id%n < uint64(d), uint32(id))
		}
		if len(pend) > 0 && x.g.Chance(30) {
			x.o.Count("dist:reordered")
			q := pend[0]
			pend = pend[1:]
			x.sample(q%n < uint64(d), uint32(q))
		}
		if x.g.Chance(25) {
			x.find(true, true)
			x.find(false, true)
		}
	}
	x.find(true, true)
	x.find(false, true)
	x.o.Case(hx.HashKey(x.key.String()))
	x.o.Res.Cases--
}

// hostile: equal ids with different bits, ids scattered over the whole space.
func (x *runner) hostile(length int) {
	x.fresh()
	x.o.Case("")
	base := x.g.U32()
	for i := 0; i < length; i++ {
		var id uint32
		switch x.g.Intn(4) {
		case 0:
			id = x.g.U32()
		case 1:
			id = base + uint32(x.g.Intn(6))
		case 2:
			id = base + 1<<31 + uint32(x.g.Intn(6))
		default:
			id = base + uint32(i)
		}
		x.sample(x.g.Bool(), id)
		if x.g.Chance(30) {
			x.find(x.g.Bool(), false)
		}
	}
	x.o.Case(hx.HashKey(x.key.String()))
	x.o.Res.Cases--
}

func Run(o *hx.Out, g *hx.Rng, tier string) {
	o.Res.Rule = "a case is one sample history on a fresh ring (in-order run / disturbed run / hostile ids); distinct = hash of the op list"
	g = g.Fork()
	x := &runner{o: o, g: g}
	thorough := tier == "thorough"
	// every small ratio, every start residue, lengths through the fill-up and the sliding phase
	for d := 1; d <= 4; d++ {
		for p := 1; p <= 4; p++ {
			for r := 0; r < d+p; r++ {
				start := uint64(g.Intn(1000)*(d+p) + r)
				x.inOrderRun(d, p, start, 3*(d+p)+4, 1)
			}
			x.inOrderRun(d, p, uint64(g.U32()), 300, 7)
		}
	}
	big := [][2]int{{10, 3}, {20, 20}, {200, 50}, {1, 254}, {254, 1}, {128, 127}, {100, 100}, {127, 128}, {250, 5}}
	reps := 2
	if thorough {
		reps = 12
	}
	for _, dp := range big {
		for r := 0; r < reps; r++ {
			start := uint64(g.U32())
			if r%3 == 1 {
				start = 1<<32 - uint64(g.Intn(600)) // the ids wrap 2^32 during the run
			}
			x.inOrderRun(dp[0], dp[1], start, 258+2*(dp[0]+dp[1])+g.Intn(40), 1+g.Intn(9))
		}
	}
	nd := 60
	if thorough {
		nd = 1500
	}
	for i := 0; i < nd; i++ {
		d, p := 1+g.Intn(6), 1+g.Intn(6)
		if g.Chance(20) {
			d, p = 1+g.Intn(120), 1+g.Intn(120)
		}
		start := uint64(g.U32())
		if g.Chance(20) {
			start = 1<<32 - uint64(g.Intn(300))
		}
		x.disturbed(d, p, start, 40+g.Intn(500))
	}
	for i := 0; i < nd/3; i++ {
		x.hostile(10 + g.Intn(400))
	}
}
