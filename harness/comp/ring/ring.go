// Package ring: correspondence component `ring` (C20) — RingBuffer[int] against Model/Ring.
// Values pushed are ≥ 1 so that 0 is recognisably a cleared slot.
//
// Every op line is answered by `<ret> h=<head> t=<tail> e=<slots>` on both sides; <slots> is a
// LOSSLESS run-length form of the raw slice (see encodeSlots; the driver has the same encoder),
// so the layout comparison is exact after every op at every capacity.
package ring

import (
	"fmt"
	"sort"
	"strconv"
	"strings"

	kcp "github.com/xtaci/kcp-go/v5"
	"verif/harness/internal/hx"
)

type runner struct {
	o    *hx.Out
	r    *kcp.RingBuffer[int]
	q    []int // list oracle (the abstract FIFO queue)
	next int
	key  strings.Builder
	dead bool // the real code panicked in this case: the rest of the sequence is skipped
	nops int
}

// encodeSlots: tokens joined by ","; a maximal run of z zero slots is `0` (z == 1) or `0*z`;
// a maximal run v,v+1,…,w of ≥ 3 consecutive ascending non-zero values is `v..w`; shorter runs
// are written value by value.  One left-to-right pass (the driver mirrors this state machine).
func encodeSlots(e []int) string {
	var sb strings.Builder
	first := true
	tok := func(s string) {
		if !first {
			sb.WriteByte(',')
		}
		first = false
		sb.WriteString(s)
	}
	const (
		rNone = iota
		rZeros
		rAsc
	)
	kind, a, b := rNone, 0, 0 // zeros: a = count; asc: values a..b
	flush := func() {
		switch kind {
		case rZeros:
			if a == 1 {
				tok("0")
			} else {
				tok("0*" + strconv.Itoa(a))
			}
		case rAsc:
			switch {
			case b == a:
				tok(strconv.Itoa(a))
			case b == a+1:
				tok(strconv.Itoa(a))
				tok(strconv.Itoa(b))
			default:
				tok(strconv.Itoa(a) + ".." + strconv.Itoa(b))
			}
		}
	}
	for _, v := range e {
		switch {
		case v == 0 && kind == rZeros:
			a++
		case v == 0:
			flush()
			kind, a = rZeros, 1
		case kind == rAsc && v == b+1:
			b = v
		default:
			flush()
			kind, a, b = rAsc, v, v
		}
	}
	flush()
	return sb.String()
}

func state(r *kcp.RingBuffer[int]) string {
	h, t, e := kcp.VerifRingState(r)
	return fmt.Sprintf("h=%d t=%d e=%s", h, t, encodeSlots(e))
}

func (x *runner) viol(kind, detail string) {
	x.o.Violate(hx.Violation{Kind: kind, Detail: detail, Replay: strings.Split(strings.TrimSuffix(x.key.String(), ";"), ";")})
}

// liveCheck compares the ring with the list oracle through the public API only.
func (x *runner) liveCheck(op string) {
	if x.r.Len() != len(x.q) {
		x.viol("ring-len", fmt.Sprintf("after %s: Len()=%d, queue model has %d", op, x.r.Len(), len(x.q)))
		return
	}
	i := 0
	ok := true
	x.r.ForEach(func(p *int) bool {
		if i >= len(x.q) || *p != x.q[i] {
			ok = false
			return false
		}
		i++
		return true
	})
	if !ok || i != len(x.q) {
		x.viol("ring-order", fmt.Sprintf("after %s: forward iteration differs from queue model at position %d", op, i))
	}
	// the same from the back (ForEachReverse is a separate piece of index arithmetic)
	j := len(x.q) - 1
	ok = true
	x.r.ForEachReverse(func(p *int) bool {
		if j < 0 || *p != x.q[j] {
			ok = false
			return false
		}
		j--
		return true
	})
	if !ok || j != -1 {
		x.viol("ring-order", fmt.Sprintf("after %s: reverse iteration differs from queue model at position %d", op, j))
	}
	// freed slots cleared: the number of non-zero slots equals the length
	_, _, e := kcp.VerifRingState(x.r)
	nz := 0
	for _, v := range e {
		if v != 0 {
			nz++
		}
	}
	if nz != len(x.q) {
		x.viol("ring-retain", fmt.Sprintf("after %s: %d non-zero slots but %d live elements (a vacated slot still holds its element, or a dead slot was written)", op, nz, len(x.q)))
	}
	if x.r.Len() > x.r.MaxLen() {
		x.viol("ring-len", fmt.Sprintf("after %s: Len()=%d exceeds MaxLen()=%d", op, x.r.Len(), x.r.MaxLen()))
	}
}

// apply performs one op on the real ring and on the list oracle; returns the op's output.
// A panic of the real code propagates to do().
func (x *runner) apply(op string, f []string) string {
	ret := "ok"
	switch f[0] {
	case "new":
		n, _ := strconv.Atoi(f[1])
		x.r = kcp.NewRingBuffer[int](n)
		x.q = x.q[:0]
		if x.r.MaxLen()+1 != max(n, kcp.RINGBUFFER_MIN) {
			x.viol("ring-new", fmt.Sprintf("NewRingBuffer(%d) has capacity %d", n, x.r.MaxLen()+1))
		}
	case "push":
		v, _ := strconv.Atoi(f[1])
		before := x.r.MaxLen()
		wasFull := x.r.IsFull()
		x.r.Push(v)
		x.q = append(x.q, v)
		if x.r.MaxLen() != before {
			x.o.Count("grow")
			switch {
			case before+1 < kcp.RINGBUFFER_EXP:
				x.o.Count("grow:double")
			default:
				x.o.Count("grow:+10%")
			}
			if !wasFull {
				x.viol("ring-grow", "Push grew a ring that was not full")
			}
		} else if wasFull {
			x.viol("ring-grow", "Push on a full ring did not grow it")
		}
	case "pop":
		v, ok := x.r.Pop()
		if !ok {
			ret = "none"
			if len(x.q) != 0 {
				x.viol("ring-pop", "Pop reported empty but queue model has elements")
			}
		} else {
			ret = strconv.Itoa(v)
			if len(x.q) == 0 || x.q[0] != v {
				x.viol("ring-pop", fmt.Sprintf("Pop returned %d, queue model head differs", v))
			} else {
				x.q = x.q[1:]
			}
		}
	case "peek":
		p, ok := x.r.Peek()
		if !ok {
			ret = "none"
			if len(x.q) != 0 {
				x.viol("ring-peek", "Peek reported empty but queue model has elements")
			}
		} else {
			ret = strconv.Itoa(*p)
			if len(x.q) == 0 || x.q[0] != *p {
				x.viol("ring-peek", "Peek differs from queue model head")
			}
		}
	case "discard":
		n, _ := strconv.Atoi(f[1])
		h, _, e := kcp.VerifRingState(x.r)
		switch {
		case n >= len(x.q):
			x.o.Count("discard:all(clear)")
		case h+n < len(e):
			x.o.Count("discard:contiguous")
		case h+n == len(e):
			x.o.Count("discard:ends-at-array-end")
		default:
			x.o.Count("discard:wraps")
		}
		m := x.r.Discard(n)
		ret = strconv.Itoa(m)
		want := min(n, len(x.q))
		if m != want {
			x.viol("ring-discard", fmt.Sprintf("Discard(%d) returned %d, want %d", n, m, want))
		}
		x.q = x.q[min(want, len(x.q)):]
	case "clear":
		x.r.Clear()
		x.q = x.q[:0]
	case "len":
		ret = strconv.Itoa(x.r.Len())
	case "isempty":
		ret = strconv.FormatBool(x.r.IsEmpty())
		if x.r.IsEmpty() != (len(x.q) == 0) {
			x.viol("ring-isempty", "IsEmpty disagrees with queue model")
		}
	case "isfull":
		ret = strconv.FormatBool(x.r.IsFull())
		if x.r.IsFull() != (len(x.q) == x.r.MaxLen()) {
			x.viol("ring-isfull", "IsFull disagrees with len == MaxLen")
		}
	case "maxlen":
		ret = strconv.Itoa(x.r.MaxLen())
	case "foreach", "foreachrev":
		d, _ := strconv.Atoi(f[1])
		m, _ := strconv.Atoi(f[2])
		k, _ := strconv.Atoi(f[3])
		h, t, _ := kcp.VerifRingState(x.r)
		switch {
		case len(x.q) == 0:
			x.o.Count("iter:empty")
		case h < t:
			x.o.Count("iter:contiguous")
		case t == 0:
			x.o.Count("iter:full-to-the-end(tail=0)")
		default:
			x.o.Count("iter:wrapped")
		}
		// the closure's captured state: an order-sensitive checksum of the values it is shown
		// (starts at 1 so that a leading zero slot shown to the callback changes it)
		var acc, accQ uint32 = 1, 1
		fn := func(p *int) bool {
			old := *p
			acc = acc*31 + uint32(old)
			*p = old + d
			return old%m != k
		}
		// queue model: same visiting order and early stop
		visit := func(i int) bool {
			old := x.q[i]
			accQ = accQ*31 + uint32(old)
			x.q[i] = old + d
			return old%m != k
		}
		stopped := false
		if f[0] == "foreach" {
			x.r.ForEach(fn)
			for i := 0; i < len(x.q); i++ {
				if !visit(i) {
					stopped = true
					break
				}
			}
		} else {
			x.r.ForEachReverse(fn)
			for i := len(x.q) - 1; i >= 0; i-- {
				if !visit(i) {
					stopped = true
					break
				}
			}
		}
		if stopped {
			x.o.Count("iter:early-stop")
		}
		if acc != accQ {
			x.viol("ring-visit", fmt.Sprintf("%s showed the callback a different value sequence than the queue model (checksum %d, want %d)", f[0], acc, accQ))
		}
		ret = strconv.FormatUint(uint64(acc), 10)
	default:
		panic("ring: unknown op " + op)
	}
	return ret
}

func (x *runner) do(op string) {
	if x.dead {
		return
	}
	x.key.WriteString(op)
	x.key.WriteByte(';')
	x.nops++
	f := strings.Fields(op)
	x.o.Count("op:" + f[0])
	var ret, st string
	msg := hx.Try(func() { ret = x.apply(op, f) })
	if msg == "" {
		msg = hx.Try(func() { x.liveCheck(op) })
	}
	if msg == "" {
		msg = hx.Try(func() { st = state(x.r) })
	}
	if msg != "" {
		// no RingBuffer method may panic on any op sequence (C20: total queue operations)
		x.o.Count("panic")
		x.viol("ring-panic", fmt.Sprintf("%s (or the read-back after it) panicked: %s", op, msg))
		x.o.Op(op, "panic "+msg)
		x.dead = true
		return
	}
	x.o.Op(op, ret+" "+st)
}

var smallCaps = []int{-3, 0, 8, 9, 16} // requested sizes ≤ RINGBUFFER_MIN (also negative) give capacity 8
var largeCaps = []int{1023, 1024, 1025, 1127}

func (x *runner) pushNext() {
	x.next++
	x.do(fmt.Sprintf("push %d", x.next))
}

func (x *runner) randomOp(g *hx.Rng, growBias bool) string {
	w := g.Intn(100)
	iterW := 8
	if growBias {
		iterW = 3
	}
	switch {
	case w < 15:
		return "pop"
	case w < 19:
		return "peek"
	case w < 29:
		n := len(x.q)
		h, _, e := kcp.VerifRingState(x.r)
		toEnd := len(e) - h // a Discard of exactly this many ends at the array end
		var n0 int
		switch c := g.Intn(100); {
		case c < 20:
			n0 = g.Intn(3)
		case c < 45:
			n0 = []int{n / 2, max(n-1, 0)}[g.Intn(2)]
		case c < 55:
			n0 = n + g.Intn(2) // everything (the Clear shortcut), also n > len
		default:
			n0 = max(toEnd-1+g.Intn(4), 0) // around the array end: toEnd-1 .. toEnd+2
			if n0 >= n && g.Chance(80) {
				n0 = n / 2
			}
		}
		return fmt.Sprintf("discard %d", n0)
	case w < 30:
		return "clear"
	case w < 34:
		return []string{"len", "isempty", "isfull", "maxlen"}[g.Intn(4)]
	case w < 34+iterW:
		m := 2 + g.Intn(9)
		return fmt.Sprintf("foreach %d %d %d", 1+g.Intn(3), m, g.Intn(m+1)) // k==m: never stops
	case w < 34+2*iterW:
		m := 2 + g.Intn(9)
		return fmt.Sprintf("foreachrev %d %d %d", 1+g.Intn(3), m, g.Intn(m+1))
	default:
		x.next++
		return fmt.Sprintf("push %d", x.next)
	}
}

// start builds a layout (capacity c, head offset h, fill level) through the public API only.
func (x *runner) start(c, h, fill int, viaDiscard bool) {
	x.do(fmt.Sprintf("new %d", c))
	if viaDiscard && h > 0 {
		for i := 0; i < h; i++ {
			x.pushNext()
		}
		x.do(fmt.Sprintf("discard %d", h-1)) // the non-Clear branch; the last one is popped
		x.do("pop")
	} else {
		for i := 0; i < h; i++ {
			x.pushNext()
			x.do("pop")
		}
	}
	for i := 0; i < fill; i++ {
		x.pushNext()
	}
}

func (x *runner) finish() {
	x.o.Case(hx.HashKey(x.key.String()))
	x.o.Res.Cases-- // the key registration above is not a new case
	x.o.CountN("ops-per-case-total", x.nops)
}

// Run generates op sequences.  quick: random sequences from a family of start layouts;
// thorough: additionally exhaustive sequences to a depth bound and long growth chains.
func Run(o *hx.Out, g *hx.Rng, tier string) {
	o.Res.Rule = "a case is one op sequence from one start layout (capacity, head offset, fill); distinct = distinct hash of the full op string; non-trivial = at least one element stored"
	nseq, seqlen := 400, 120
	if tier == "thorough" {
		nseq, seqlen = 4000, 300
	}
	for s := 0; s < nseq; s++ {
		x := &runner{o: o}
		// 65 % small capacities (cheap, most of the index arithmetic), 35 % around RINGBUFFER_EXP
		c := smallCaps[g.Intn(len(smallCaps))]
		if g.Chance(35) {
			c = largeCaps[g.Intn(len(largeCaps))]
		}
		o.Case("")
		capn := max(c, kcp.RINGBUFFER_MIN)
		h := g.Intn(capn)
		if capn > 64 && g.Chance(50) {
			h = capn - 1 - g.Intn(4) // near the wrap point
		}
		fill := g.Intn(capn)
		switch w := g.Intn(100); {
		case w < 30:
			fill = capn - 1 - g.Intn(2) // about to grow
		case w < 45 && h > 0:
			fill = capn - h // tail == 0 with head > 0: the "full to the end" layout
		}
		o.Count(fmt.Sprintf("start:cap=%d", capn))
		if h+fill >= capn {
			o.Count("start:wrapped")
		} else {
			o.Count("start:contiguous")
		}
		x.start(c, h, fill, g.Chance(50) || (capn > 64 && g.Chance(70)))
		growBias := g.Chance(30)
		for i := 0; i < seqlen; i++ {
			x.do(x.randomOp(g, growBias))
		}
		x.finish()
	}
	if tier == "thorough" {
		// (head offset, fill) at capacity 8; {3,5}: tail == 0; {5,7}: full, the next push grows
		// (every shorter sequence is a prefix of these and is checked op by op on the way)
		exhaustive(o, 6, [][2]int{{0, 0}, {6, 3}, {7, 6}, {5, 7}, {3, 5}})
	}
	// growth chains 8 -> 2048+ (cross the doubling and the +10% regimes) from wrapped layouts
	chains := [][3]int{{8, 5, 2600}}
	if tier == "thorough" {
		chains = [][3]int{{8, 5, 2600}, {0, 7, 2300}, {9, 3, 2500}, {1023, 1000, 2200}, {1024, 1023, 2400}, {1025, 512, 2400}, {1127, 1126, 2600}}
	}
	for _, ch := range chains {
		x := &runner{o: o}
		o.Case("")
		x.start(ch[0], ch[1], 0, false)
		for i := 0; i < ch[2]; i++ {
			x.pushNext()
			if i%500 == 499 {
				x.do("pop")
				x.do("foreachrev 1 7 3")
				x.do("foreach 2 5 5")
			}
		}
		o.Count("growth-chain")
		x.finish()
	}
	// report the shortest failing op sequence first
	sort.SliceStable(o.Res.Violations, func(i, j int) bool {
		return len(o.Res.Violations[i].Replay) < len(o.Res.Violations[j].Replay)
	})
}

// exhaustive enumerates every op sequence of the given depth over a small alphabet from a few
// wrapped start layouts.
func exhaustive(o *hx.Out, depth int, starts [][2]int) {
	alphabet := []string{"push", "pop", "peek", "discard 1", "discard 2", "discard 99", "clear", "foreach 1 3 1", "foreachrev 1 3 1"}
	total := 1
	for i := 0; i < depth; i++ {
		total *= len(alphabet)
	}
	for _, st := range starts {
		for code := 0; code < total; code++ {
			x := &runner{o: o}
			o.Case("")
			x.start(8, st[0], st[1], false)
			c := code
			for i := 0; i < depth; i++ {
				a := alphabet[c%len(alphabet)]
				c /= len(alphabet)
				if a == "push" {
					x.next++
					a = fmt.Sprintf("push %d", x.next)
				}
				x.do(a)
			}
			x.finish()
		}
	}
	o.Note(fmt.Sprintf("exhaustive: %d starts x %d^%d sequences", len(starts), len(alphabet), depth))
}
