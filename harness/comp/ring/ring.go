// Package ring: correspondence component `ring` (C20) — RingBuffer[int] against Model/Ring.
// Values pushed are ≥ 1 so that 0 is recognisably a cleared slot.
package ring

import (
	"fmt"
	"strconv"
	"strings"

	kcp "github.com/xtaci/kcp-go/v5"
	"verif/harness/internal/hx"
)

type runner struct {
	o    *hx.Out
	r    *kcp.RingBuffer[int]
	q    []int // list oracle (the abstract FIFO queue)
	next int
	key  strings.Builder
}

func state(r *kcp.RingBuffer[int]) string {
	h, t, e := kcp.VerifRingState(r)
	var sb strings.Builder
	fmt.Fprintf(&sb, "h=%d t=%d e=", h, t)
	for i, v := range e {
		if i > 0 {
			sb.WriteByte(',')
		}
		sb.WriteString(strconv.Itoa(v))
	}
	return sb.String()
}

func (x *runner) viol(kind, detail string) {
	x.o.Violate(hx.Violation{Kind: kind, Detail: detail, Replay: []string{x.key.String()}})
}

// liveCheck compares the ring with the list oracle through the public API only.
func (x *runner) liveCheck(op string) {
	if x.r.Len() != len(x.q) {
		x.viol("ring-len", fmt.Sprintf("after %s: Len()=%d, queue model has %d", op, x.r.Len(), len(x.q)))
		return
	}
	i := 0
	ok := true
	x.r.ForEach(func(p *int) bool {
		if i >= len(x.q) || *p != x.q[i] {
			ok = false
			return false
		}
		i++
		return true
	})
	if !ok || i != len(x.q) {
		x.viol("ring-order", fmt.Sprintf("after %s: iteration differs from queue model at %d", op, i))
	}
	// freed slots cleared: the number of non-zero slots equals the length
	_, _, e := kcp.VerifRingState(x.r)
	nz := 0
	for _, v := range e {
		if v != 0 {
			nz++
		}
	}
	if nz != len(x.q) {
		x.viol("ring-retain", fmt.Sprintf("after %s: %d non-zero slots but %d live elements", op, nz, len(x.q)))
	}
}

func (x *runner) do(op string) {
	x.key.WriteString(op)
	x.key.WriteByte(';')
	f := strings.Fields(op)
	x.o.Count("op:" + f[0])
	ret := "ok"
	switch f[0] {
	case "new":
		n, _ := strconv.Atoi(f[1])
		x.r = kcp.NewRingBuffer[int](n)
		x.q = x.q[:0]
	case "push":
		v, _ := strconv.Atoi(f[1])
		before := x.r.MaxLen()
		x.r.Push(v)
		x.q = append(x.q, v)
		if x.r.MaxLen() != before {
			x.o.Count("grow")
		}
	case "pop":
		v, ok := x.r.Pop()
		if !ok {
			ret = "none"
			if len(x.q) != 0 {
				x.viol("ring-pop", "Pop reported empty but queue model has elements")
			}
		} else {
			ret = strconv.Itoa(v)
			if len(x.q) == 0 || x.q[0] != v {
				x.viol("ring-pop", fmt.Sprintf("Pop returned %d, queue model head differs", v))
			} else {
				x.q = x.q[1:]
			}
		}
	case "peek":
		p, ok := x.r.Peek()
		if !ok {
			ret = "none"
			if len(x.q) != 0 {
				x.viol("ring-peek", "Peek reported empty but queue model has elements")
			}
		} else {
			ret = strconv.Itoa(*p)
			if len(x.q) == 0 || x.q[0] != *p {
				x.viol("ring-peek", "Peek differs from queue model head")
			}
		}
	case "discard":
		n, _ := strconv.Atoi(f[1])
		m := x.r.Discard(n)
		ret = strconv.Itoa(m)
		want := min(n, len(x.q))
		if m != want {
			x.viol("ring-discard", fmt.Sprintf("Discard(%d) returned %d, want %d", n, m, want))
		}
		x.q = x.q[min(want, len(x.q)):]
	case "clear":
		x.r.Clear()
		x.q = x.q[:0]
	case "len":
		ret = strconv.Itoa(x.r.Len())
	case "isempty":
		ret = strconv.FormatBool(x.r.IsEmpty())
		if x.r.IsEmpty() != (len(x.q) == 0) {
			x.viol("ring-isempty", "IsEmpty disagrees with queue model")
		}
	case "isfull":
		ret = strconv.FormatBool(x.r.IsFull())
		if x.r.IsFull() != (len(x.q) == x.r.MaxLen()) {
			x.viol("ring-isfull", "IsFull disagrees with len == MaxLen")
		}
	case "maxlen":
		ret = strconv.Itoa(x.r.MaxLen())
	case "foreach", "foreachrev":
		d, _ := strconv.Atoi(f[1])
		m, _ := strconv.Atoi(f[2])
		k, _ := strconv.Atoi(f[3])
		fn := func(p *int) bool {
			old := *p
			*p = old + d
			return old%m != k
		}
		// queue model: same visiting order and early stop
		if f[0] == "foreach" {
			x.r.ForEach(fn)
			for i := 0; i < len(x.q); i++ {
				old := x.q[i]
				x.q[i] = old + d
				if old%m == k {
					break
				}
			}
		} else {
			x.r.ForEachReverse(fn)
			for i := len(x.q) - 1; i >= 0; i-- {
				old := x.q[i]
				x.q[i] = old + d
				if old%m == k {
					break
				}
			}
		}
	default:
		panic("ring: unknown op " + op)
	}
	x.liveCheck(op)
	x.o.Op(op, ret+" "+state(x.r))
}

var startCaps = []int{0, 8, 9, 16, 1023, 1024, 1025, 1127}

func (x *runner) randomOp(g *hx.Rng, growBias bool) string {
	w := g.Intn(100)
	pushW := 35
	if growBias {
		pushW = 70
	}
	switch {
	case w < pushW:
		x.next++
		return fmt.Sprintf("push %d", x.next)
	case w < pushW+15:
		return "pop"
	case w < pushW+19:
		return "peek"
	case w < pushW+27:
		n := len(x.q)
		return fmt.Sprintf("discard %d", []int{0, 1, 2, n / 2, max(n-1, 0), n, n + 1}[g.Intn(7)])
	case w < pushW+29:
		return "clear"
	case w < pushW+33:
		return []string{"len", "isempty", "isfull", "maxlen"}[g.Intn(4)]
	case w < pushW+38:
		m := 2 + g.Intn(9)
		return fmt.Sprintf("foreach %d %d %d", 1+g.Intn(3), m, g.Intn(m+1)) // k==m: never stops
	default:
		m := 2 + g.Intn(9)
		return fmt.Sprintf("foreachrev %d %d %d", 1+g.Intn(3), m, g.Intn(m+1))
	}
}

// Run generates op sequences.  quick: random sequences from a family of start layouts;
// thorough: additionally exhaustive sequences to a depth bound and long growth chains.
func Run(o *hx.Out, g *hx.Rng, tier string) {
	o.Res.Rule = "a case is one op sequence from one start layout (capacity, head offset, fill); distinct = distinct op strings; non-trivial = at least one element stored"
	nseq, seqlen := 150, 120
	if tier == "thorough" {
		nseq, seqlen = 3000, 300
	}
	for s := 0; s < nseq; s++ {
		x := &runner{o: o}
		c := startCaps[g.Intn(len(startCaps))]
		o.Case("")
		x.do(fmt.Sprintf("new %d", c))
		// head offset h and fill level l built through the public API
		capn := x.r.MaxLen() + 1
		h := g.Intn(capn)
		if capn > 64 && g.Chance(50) {
			h = capn - 1 - g.Intn(4) // near the wrap point
		}
		for i := 0; i < h; i++ {
			x.next++
			x.do(fmt.Sprintf("push %d", x.next))
			x.do("pop")
		}
		fill := g.Intn(capn)
		if g.Chance(30) {
			fill = capn - 1 - g.Intn(2) // about to grow
		}
		for i := 0; i < fill; i++ {
			x.next++
			x.do(fmt.Sprintf("push %d", x.next))
		}
		growBias := g.Chance(30)
		for i := 0; i < seqlen; i++ {
			x.do(x.randomOp(g, growBias))
		}
		o.Case(x.key.String()[:min(x.key.Len(), 4000)])
		o.Res.Cases-- // the key registration above is not a new case
	}
	if tier == "thorough" {
		exhaustive(o, 5)
		// growth chain 8 -> 2048+ (crosses doubling and +10% regimes), with a wrapped layout
		x := &runner{o: o}
		o.Case("growth-chain")
		x.do("new 8")
		for i := 0; i < 5; i++ {
			x.next++
			x.do(fmt.Sprintf("push %d", x.next))
			x.do("pop")
		}
		for i := 0; i < 2600; i++ {
			x.next++
			x.do(fmt.Sprintf("push %d", x.next))
			if i%500 == 499 {
				x.do("pop")
				x.do("foreachrev 1 7 3")
			}
		}
	}
}

// exhaustive enumerates every op sequence of the given depth over a small alphabet from a few
// wrapped start layouts.
func exhaustive(o *hx.Out, depth int) {
	alphabet := []string{"push", "pop", "peek", "discard 1", "discard 2", "discard 99", "clear", "foreach 1 3 1", "foreachrev 1 3 1"}
	starts := [][2]int{{0, 0}, {6, 3}, {7, 6}, {5, 7}} // (head offset, fill) at capacity 8
	var rec func(prefix []int)
	total := 1
	for i := 0; i < depth; i++ {
		total *= len(alphabet)
	}
	for _, st := range starts {
		for code := 0; code < total; code++ {
			x := &runner{o: o}
			o.Case("")
			x.do("new 8")
			for i := 0; i < st[0]; i++ {
				x.next++
				x.do(fmt.Sprintf("push %d", x.next))
				x.do("pop")
			}
			for i := 0; i < st[1]; i++ {
				x.next++
				x.do(fmt.Sprintf("push %d", x.next))
			}
			c := code
			for i := 0; i < depth; i++ {
				a := alphabet[c%len(alphabet)]
				c /= len(alphabet)
				if a == "push" {
					x.next++
					a = fmt.Sprintf("push %d", x.next)
				}
				x.do(a)
			}
			o.Case(fmt.Sprintf("ex-%d-%d-%d", st[0], st[1], code))
			o.Res.Cases--
		}
	}
	_ = rec
	o.Note(fmt.Sprintf("exhaustive: %d starts x %d^%d sequences", len(starts), len(alphabet), depth))
}
