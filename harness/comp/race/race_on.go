//go:build race

package race

const raceEnabled = true
