// Package race: harness component `race` (C14) — tie of the extracted access table to the real code
// and search for a concrete racy schedule.
//
// The corr binary of variant `race` is built with -race.  Run re-executes that binary as a child
// process (environment VERIF_RACE_CHILD=1; the child never reaches main, see init below) with
// GORACE="halt_on_error=0 exitcode=0 log_path=…".  The child stresses every supported public method of
// UDPSession and Listener from many goroutines, over loopback UDP and over an in-memory PacketConn,
// for the ciphers {nil, AES-CFB, salsa20, AES-GCM, blowfish-CFB, twofish-CFB} × FEC {off, 3/1}, with several sessions sharing
// one cipher object, the buffer pool, the entropy source and the SNMP counters.
//
// The parent parses the race detector's reports into (function, file:line) pairs, maps both sides to
// rows of the access table through .work/access_sites.json (written by the extractor next to
// Generated.lean) and reports
//
//	race:<function>/<class>     the race is on a class the table marks unprotected (a real finding; the
//	                            same class fails the Lean obligation C14_table_ok)
//	race-table-mismatch         the race is on rows the table calls protected, or on lines the table
//	                            does not know: the extractor is wrong (check broken)
//	race-stress-crash           the child died (panic in the library under stress)
package race

import (
	"bufio"
	"encoding/json"
	"flag"
	"fmt"
	"os"
	"os/exec"
	"path/filepath"
	"regexp"
	"sort"
	"strconv"
	"strings"
	"time"

	"verif/harness/internal/hx"
)

func init() {
	if os.Getenv("VERIF_RACE_CHILD") == "1" {
		seed, _ := strconv.ParseUint(os.Getenv("VERIF_RACE_SEED"), 10, 64)
		childMain(seed, os.Getenv("VERIF_RACE_TIER"), os.Getenv("VERIF_RACE_OUT"))
		os.Exit(0)
	}
}

type site struct {
	File       string `json:"file"`
	Line       int    `json:"line"`
	Fn         string `json:"fn"`
	Class      string `json:"class"`
	Write      bool   `json:"write"`
	Atomic     bool   `json:"atomic"`
	Locks      string `json:"locks"`
	Prepub     bool   `json:"prepub"`
	Considered bool   `json:"considered"`
	ClassOK    bool   `json:"class_ok"`
}

type sideFile struct {
	Sites       []site   `json:"sites"`
	Unprotected []string `json:"unprotected_classes"`
	Repo        string   `json:"repo"`
}

type frame struct {
	Fn   string
	File string
	Line int
}

type access struct {
	Kind   string // "Write", "Read", "Previous write", …
	Frames []frame
}

type report struct {
	Acc  []access
	Text string
}

var (
	reAccess = regexp.MustCompile(`^(Write|Read|Previous write|Previous read|Atomic write|Atomic read|Previous atomic write|Previous atomic read) at 0x[0-9a-f]+ by `)
	reFile   = regexp.MustCompile(`^\s+(\S+\.go):(\d+)(?: \+0x[0-9a-f]+)?$`)
)

func parseReports(text string) []report {
	var out []report
	for _, blk := range strings.Split(text, "==================") {
		if !strings.Contains(blk, "WARNING: DATA RACE") {
			continue
		}
		r := report{Text: strings.TrimSpace(blk)}
		var cur *access
		var pendingFn string
		sc := bufio.NewScanner(strings.NewReader(blk))
		sc.Buffer(make([]byte, 1<<20), 1<<20)
		for sc.Scan() {
			line := sc.Text()
			if m := reAccess.FindStringSubmatch(line); m != nil {
				r.Acc = append(r.Acc, access{Kind: m[1]})
				cur = &r.Acc[len(r.Acc)-1]
				continue
			}
			if strings.HasPrefix(line, "Goroutine ") || strings.HasPrefix(line, "Mutex ") {
				cur = nil
				continue
			}
			if cur == nil {
				continue
			}
			if m := reFile.FindStringSubmatch(line); m != nil && pendingFn != "" {
				n, _ := strconv.Atoi(m[2])
				cur.Frames = append(cur.Frames, frame{Fn: pendingFn, File: m[1], Line: n})
				pendingFn = ""
				continue
			}
			t := strings.TrimSpace(line)
			if t != "" {
				pendingFn = strings.TrimSuffix(t, "()")
			}
		}
		out = append(out, r)
	}
	return out
}

// shortFn: "github.com/xtaci/kcp-go/v5.(*UDPSession).GetOOBMaxSize" → "UDPSession.GetOOBMaxSize"
func shortFn(fn string) string {
	if i := strings.LastIndex(fn, "/"); i >= 0 {
		fn = fn[i+1:]
	}
	if i := strings.Index(fn, "."); i >= 0 {
		fn = fn[i+1:]
	}
	fn = strings.NewReplacer("(*", "", ")", "", "[...]", "").Replace(fn)
	return fn
}

func bare(fn string) string {
	if i := strings.LastIndex(fn, "."); i >= 0 {
		return fn[i+1:]
	}
	return fn
}

// kcpFrames: the frames of an access stack that lie in the repository's package directory
func kcpFrames(a access, repo string) []frame {
	var out []frame
	for _, f := range a.Frames {
		if filepath.Dir(f.File) == filepath.Clean(repo) && !strings.HasSuffix(f.File, "_test.go") {
			out = append(out, f)
		}
	}
	return out
}

func verifRoot() string {
	if r := os.Getenv("VERIF_ROOT"); r != "" {
		return r
	}
	exe, err := os.Executable()
	if err != nil {
		return "."
	}
	return filepath.Clean(filepath.Join(filepath.Dir(exe), "..", ".."))
}

func loadSites() (*sideFile, error) {
	p := filepath.Join(verifRoot(), ".work", "access_sites.json")
	b, err := os.ReadFile(p)
	if err != nil {
		return nil, err
	}
	var sf sideFile
	if err := json.Unmarshal(b, &sf); err != nil {
		return nil, err
	}
	return &sf, nil
}

type classification struct {
	kind   string
	detail string
}

// classify one report against the table
func classify(r report, sf *sideFile, repo string) classification {
	idx := map[string][]site{}
	for _, s := range sf.Sites {
		k := fmt.Sprintf("%s:%d", s.File, s.Line)
		idx[k] = append(idx[k], s)
	}
	type side struct {
		fr    frame
		sites []site
		all   []site  // sites on every library frame of the stack (outer frames pass references inward)
		allFr []frame // the frame each entry of `all` came from
	}
	var sides []side
	for _, a := range r.Acc {
		kf := kcpFrames(a, repo)
		if len(kf) == 0 {
			continue
		}
		// innermost library frame that the table knows; else the innermost library frame
		sd := side{fr: kf[0]}
		for _, f := range kf {
			s := idx[fmt.Sprintf("%s:%d", filepath.Base(f.File), f.Line)]
			if len(s) > 0 && sd.sites == nil {
				sd.fr, sd.sites = f, s
			}
			for _, x := range s {
				sd.all = append(sd.all, x)
				sd.allFr = append(sd.allFr, f)
			}
		}
		sides = append(sides, sd)
	}
	desc := func() string {
		var parts []string
		for i, a := range r.Acc {
			top := "?"
			if len(a.Frames) > 0 {
				top = fmt.Sprintf("%s %s:%d", shortFn(a.Frames[0].Fn), filepath.Base(a.Frames[0].File), a.Frames[0].Line)
			}
			lib := ""
			if i < len(sides) {
				lib = fmt.Sprintf(" [lib frame %s %s:%d]", shortFn(sides[i].fr.Fn), filepath.Base(sides[i].fr.File), sides[i].fr.Line)
			}
			parts = append(parts, a.Kind+" in "+top+lib)
		}
		return strings.Join(parts, " vs ")
	}
	if len(sides) < 2 {
		if len(sides) == 0 {
			return classification{"race-unattributed", "race outside the library (harness bug?): " + desc()}
		}
		// one side in the library, the other in the harness or a dependency: the library side decides
		sides = append(sides, sides[0])
	}
	unprot := map[string]bool{}
	for _, u := range sf.Unprotected {
		unprot[u] = true
	}
	// classes present on both sides: first at the innermost frames the table knows; if that does not
	// explain the race (no common class, or only protected ones), on any library frame of the two stacks
	// (the racing bytes may have been handed inward as an argument, e.g. blockCrypt.decbuf → decrypt8 → Encrypt)
	var common map[string]bool
	var bad []string
	for stage := 0; stage < 2 && len(bad) == 0; stage++ {
		common = map[string]bool{}
		a, b := sides[0].sites, sides[1].sites
		if stage == 1 {
			a, b = sides[0].all, sides[1].all
		}
		for _, x := range a {
			for _, y := range b {
				if x.Class == y.Class {
					common[x.Class] = true
				}
			}
		}
		for c := range common {
			if unprot[c] {
				bad = append(bad, c)
			}
		}
	}
	sort.Strings(bad)
	if len(common) == 0 {
		return classification{"race-table-mismatch", "no common location class in the access table for: " + desc()}
	}
	if len(bad) == 0 {
		var cs []string
		for c := range common {
			cs = append(cs, c)
		}
		sort.Strings(cs)
		return classification{"race-table-mismatch", fmt.Sprintf("the table calls %v protected, the race detector disagrees: %s", cs, desc())}
	}
	cls := bad[0]
	// the culprit is the side whose row holds fewer locks; name the frame where the class is accessed
	frameOf := func(sd side) (frame, int) {
		best, n := sd.fr, 1<<30
		for i, s := range sd.all {
			if s.Class == cls && len(s.Locks) < n {
				n, best = len(s.Locks), sd.allFr[i]
			}
		}
		return best, n
	}
	f0, n0 := frameOf(sides[0])
	f1, n1 := frameOf(sides[1])
	culprit := side{fr: f0}
	if n1 < n0 || (n1 == n0 && shortFn(f1.Fn) < shortFn(f0.Fn)) {
		culprit = side{fr: f1}
	}
	return classification{"race:" + bare(shortFn(culprit.fr.Fn)) + "/" + cls, desc()}
}

func outDir() string {
	if f := flag.Lookup("out"); f != nil {
		return f.Value.String()
	}
	return os.TempDir()
}

// Run is the parent: starts the stress child, parses its race reports and confronts them with the table.
func Run(o *hx.Out, g *hx.Rng, tier string) {
	o.Res.Rule = "one case per configuration (cipher × FEC × transport) stressed; distinct = configurations in which traffic flowed and every method group was called"
	dir := outDir()
	repo := os.Getenv("VERIF_REPO")
	if repo == "" {
		repo = "/repo"
	}
	if !raceEnabled {
		o.Note("this binary was not built with -race: no race reports are possible (components.json must select variant `race`)")
		o.Violate(hx.Violation{Kind: "race-stress-crash", Detail: "corr binary built without -race", Replay: []string{"build with -race"}})
		return
	}
	sf, err := loadSites()
	if err != nil {
		o.Note("access_sites.json not readable: " + err.Error())
		o.Violate(hx.Violation{Kind: "race-table-mismatch", Detail: "no access table side file (.work/access_sites.json): " + err.Error(), Replay: []string{"run the extractor"}})
		return
	}
	exe, _ := os.Executable()
	logBase := filepath.Join(dir, "racelog")
	seed := g.U64()
	cmd := exec.Command(exe)
	cmd.Env = append(os.Environ(), "VERIF_RACE_CHILD=1", "VERIF_RACE_SEED="+strconv.FormatUint(seed, 10), "VERIF_RACE_TIER="+tier, "VERIF_RACE_OUT="+dir,
		"GORACE=halt_on_error=0 exitcode=0 history_size=3 log_path="+logBase)
	cmd.Stdout, _ = os.Create(filepath.Join(dir, "child.stdout"))
	cmd.Stderr, _ = os.Create(filepath.Join(dir, "child.stderr"))
	t0 := time.Now()
	cerr := cmd.Run()
	wall := time.Since(t0)
	// child statistics
	var st childStats
	if b, err := os.ReadFile(filepath.Join(dir, "child.json")); err == nil {
		_ = json.Unmarshal(b, &st)
	}
	for _, c := range st.Configs {
		key := ""
		if c.BytesEchoed > 0 && c.Methods >= 20 {
			key = c.Name
		}
		o.Case(key)
		o.Op(fmt.Sprintf("stress %s dur=%dms sessions=%d", c.Name, c.DurMs, c.Sessions),
			fmt.Sprintf("ok echoed=%d accepted=%d methods=%d", c.BytesEchoed, c.Accepted, c.Methods))
	}
	for k, v := range st.Counts {
		o.CountN(k, v)
	}
	if cerr != nil || !st.Done {
		tail, _ := os.ReadFile(filepath.Join(dir, "child.stderr"))
		t := string(tail)
		if len(t) > 3000 {
			t = t[len(t)-3000:]
		}
		o.Violate(hx.Violation{Kind: "race-stress-crash", Detail: fmt.Sprintf("stress child did not finish (%v, done=%v); stderr tail:\n%s", cerr, st.Done, t),
			Replay: []string{fmt.Sprintf("VERIF_RACE_CHILD=1 VERIF_RACE_SEED=%d VERIF_RACE_TIER=%s %s", seed, tier, exe)}})
	}
	// race reports
	var text strings.Builder
	files, _ := filepath.Glob(logBase + ".*")
	sort.Strings(files)
	for _, f := range files {
		b, _ := os.ReadFile(f)
		text.Write(b)
		text.WriteString("\n")
	}
	reps := parseReports(text.String())
	o.CountN("race-reports", len(reps))
	type found struct {
		c   classification
		rep []string
	}
	var fs []found
	seen := map[string]bool{}
	for _, r := range reps {
		c := classify(r, sf, repo)
		o.Count("report:" + c.kind)
		if seen[c.kind+c.detail] {
			continue
		}
		seen[c.kind+c.detail] = true
		rep := strings.Split(r.Text, "\n")
		if len(rep) > 60 {
			rep = rep[:60]
		}
		fs = append(fs, found{c, rep})
	}
	// stable order: genuine races first (by kind), then mismatches
	sort.SliceStable(fs, func(i, j int) bool {
		ri, rj := strings.HasPrefix(fs[i].c.kind, "race:"), strings.HasPrefix(fs[j].c.kind, "race:")
		if ri != rj {
			return ri
		}
		if fs[i].c.kind != fs[j].c.kind {
			return fs[i].c.kind < fs[j].c.kind
		}
		return fs[i].c.detail < fs[j].c.detail
	})
	for _, f := range fs {
		o.Violate(hx.Violation{Kind: f.c.kind, Detail: f.c.detail, Replay: append([]string{fmt.Sprintf("seed %d tier %s (schedule dependent); race detector report:", seed, tier)}, f.rep...)})
	}
	o.Note(fmt.Sprintf("child wall %.1fs, %d race report(s), table: %d sites, unprotected classes %v", wall.Seconds(), len(reps), len(sf.Sites), sf.Unprotected))
}
