//go:build !race

package race

const raceEnabled = false
