package race

import (
	"encoding/json"
	"fmt"
	"net"
	"os"
	"path/filepath"
	"sync"
	"sync/atomic"
	"time"

	kcp "github.com/xtaci/kcp-go/v5"
	"verif/harness/internal/hx"
)

type configStats struct {
	Name        string `json:"name"`
	DurMs       int    `json:"dur_ms"`
	Sessions    int    `json:"sessions"`
	Accepted    int64  `json:"accepted"`
	BytesEchoed int64  `json:"bytes_echoed"`
	Methods     int    `json:"methods"` // distinct API methods called at least once
}

type childStats struct {
	Done    bool           `json:"done"`
	Configs []configStats  `json:"configs"`
	Counts  map[string]int `json:"counts"`
}

// counters of the stress (atomics: the stress itself must be race free)
type counters struct {
	mu sync.Mutex
	m  map[string]int
}

func (c *counters) add(k string, n int) {
	c.mu.Lock()
	c.m[k] += n
	c.mu.Unlock()
}

// ---------------------------------------------------------------------------------------------
// in-memory PacketConn (exercises defaultReadLoop / defaultTx; loopback UDP exercises the batch paths)

type memAddr string

func (a memAddr) Network() string { return "mem" }
func (a memAddr) String() string  { return string(a) }

type memPacket struct {
	b    []byte
	from net.Addr
}

type memNet struct {
	mu    sync.Mutex
	conns map[string]*memConn
}

type memConn struct {
	nw     *memNet
	addr   memAddr
	in     chan memPacket
	closed chan struct{}
	once   sync.Once
}

func newMemNet() *memNet { return &memNet{conns: map[string]*memConn{}} }

func (n *memNet) listen(name string) *memConn {
	c := &memConn{nw: n, addr: memAddr(name), in: make(chan memPacket, 4096), closed: make(chan struct{})}
	n.mu.Lock()
	n.conns[name] = c
	n.mu.Unlock()
	return c
}

func (c *memConn) ReadFrom(p []byte) (int, net.Addr, error) {
	select {
	case pk := <-c.in:
		return copy(p, pk.b), pk.from, nil
	case <-c.closed:
		return 0, nil, net.ErrClosed
	}
}

func (c *memConn) WriteTo(p []byte, addr net.Addr) (int, error) {
	select {
	case <-c.closed:
		return 0, net.ErrClosed
	default:
	}
	c.nw.mu.Lock()
	dst := c.nw.conns[addr.String()]
	c.nw.mu.Unlock()
	if dst != nil {
		b := make([]byte, len(p))
		copy(b, p)
		select {
		case dst.in <- memPacket{b, c.addr}:
		default: // full: drop, like a network
		}
	}
	return len(p), nil
}

func (c *memConn) Close() error {
	c.once.Do(func() { close(c.closed) })
	return nil
}
func (c *memConn) LocalAddr() net.Addr                { return c.addr }
func (c *memConn) SetDeadline(t time.Time) error      { return nil }
func (c *memConn) SetReadDeadline(t time.Time) error  { return nil }
func (c *memConn) SetWriteDeadline(t time.Time) error { return nil }

// ---------------------------------------------------------------------------------------------

type config struct {
	name   string
	cipher string // nil aes salsa20 gcm
	fec    bool
	mem    bool
}

func makeBlock(kind string, key []byte) kcp.BlockCrypt {
	var b kcp.BlockCrypt
	var err error
	switch kind {
	case "aes":
		b, err = kcp.NewAESBlockCrypt(key[:16])
	case "salsa20":
		b, err = kcp.NewSalsa20BlockCrypt(key[:32])
	case "gcm":
		b, err = kcp.NewAESGCMCrypt(key[:16])
	case "blowfish": // pure Go, 8-byte blocks: accesses to the shared CFB buffers are visible to the race detector
		b, err = kcp.NewBlowfishBlockCrypt(key[:32])
	case "twofish": // pure Go, 16-byte blocks
		b, err = kcp.NewTwofishBlockCrypt(key[:32])
	case "sm4": // pure Go; its cipher VALUE keeps scratch state: one value must never run in two goroutines
		b, err = kcp.NewSM4BlockCrypt(key[:16])
	default:
		return nil
	}
	if err != nil {
		panic(err)
	}
	return b
}

func childMain(seed uint64, tier, out string) {
	g := hx.NewRng(seed)
	per := 1000 * time.Millisecond
	nsess := 3
	if tier == "thorough" {
		per = 7 * time.Second
		nsess = 4
	}
	var cfgs []config
	i := 0
	// AES-CFB touches the shared enc/dec buffers only inside assembly (AES-NI block function, XORBytes),
	// which the race detector does not instrument; blowfish and twofish are pure Go and make races on
	// blockCrypt.encbuf / decbuf observable.
	for _, c := range []string{"nil", "aes", "salsa20", "gcm", "blowfish", "twofish", "sm4"} {
		for _, f := range []bool{false, true} {
			// alternate the transport; thorough runs both transports for every configuration
			for _, mem := range []bool{false, true} {
				if tier != "thorough" && mem != (i%2 == 1) {
					continue
				}
				tr := "udp"
				if mem {
					tr = "mem"
				}
				fs := "nofec"
				if f {
					fs = "fec3+1"
				}
				cfgs = append(cfgs, config{name: c + "/" + fs + "/" + tr, cipher: c, fec: f, mem: mem})
			}
			i++
		}
	}
	st := childStats{Counts: map[string]int{}}
	cn := &counters{m: map[string]int{}}
	for _, c := range cfgs {
		cs := runConfig(c, g.Fork(), per, nsess, cn)
		st.Configs = append(st.Configs, cs)
	}
	cn.mu.Lock()
	for k, v := range cn.m {
		st.Counts[k] = v
	}
	cn.mu.Unlock()
	st.Done = true
	b, _ := json.MarshalIndent(st, "", " ")
	_ = os.WriteFile(filepath.Join(out, "child.json"), b, 0o644)
}

type sessOps struct {
	cn      *counters
	fec     bool
	methods *sync.Map
	echoed  *int64
}

func (x *sessOps) did(name string) {
	x.methods.Store(name, true)
	x.cn.add("call:"+name, 1)
}

// setter: one random tuning / deadline / misc call
func (x *sessOps) randomCall(s *kcp.UDPSession, g *hx.Rng, oobSink *int64) {
	switch g.Intn(24) {
	case 0:
		s.SetWriteDelay(g.Bool())
		x.did("SetWriteDelay")
	case 1:
		s.SetWindowSize(16+g.Intn(200), 16+g.Intn(200))
		x.did("SetWindowSize")
	case 2:
		// payloads are ≤ 300 bytes, so an MTU ≥ 600 never undercuts a queued segment (that would be D2, not C14)
		s.SetMtu(600 + g.Intn(901))
		x.did("SetMtu")
	case 3:
		s.SetACKNoDelay(g.Bool())
		x.did("SetACKNoDelay")
	case 4:
		s.SetNoDelay(g.Intn(2), 10+g.Intn(40), g.Intn(3), g.Intn(2))
		x.did("SetNoDelay")
	case 5:
		if g.Bool() {
			s.SetRateLimit(0)
		} else {
			s.SetRateLimit(uint32(20_000_000 + g.Intn(80_000_000)))
		}
		x.did("SetRateLimit")
	case 6:
		_ = s.GetConv()
		x.did("GetConv")
	case 7:
		_ = s.GetRTO()
		x.did("GetRTO")
	case 8:
		_ = s.GetSRTT()
		x.did("GetSRTT")
	case 9:
		_ = s.GetSRTTVar()
		x.did("GetSRTTVar")
	case 10:
		if g.Chance(20) {
			_ = s.SetOOBHandler(nil)
		} else {
			_ = s.SetOOBHandler(func(b []byte) { atomic.AddInt64(oobSink, int64(len(b))) })
		}
		x.did("SetOOBHandler")
	case 11:
		_ = s.GetOOBMaxSize()
		x.did("GetOOBMaxSize")
	case 12:
		n := s.GetOOBMaxSize()
		if n > 64 {
			n = 64
		}
		if n < 0 {
			n = 0
		}
		_ = s.SendOOB(g.Bytes(g.Intn(n + 1)))
		x.did("SendOOB")
	case 13:
		_ = s.SetReadBuffer(64*1024 + g.Intn(1<<20))
		x.did("SetReadBuffer")
	case 14:
		_ = s.SetWriteBuffer(64*1024 + g.Intn(1<<20))
		x.did("SetWriteBuffer")
	case 15:
		_ = s.SetDSCP(g.Intn(64))
		x.did("SetDSCP")
	case 16:
		_ = s.LocalAddr()
		_ = s.RemoteAddr()
		x.did("LocalAddr")
		x.did("RemoteAddr")
	case 17:
		_ = s.SetDeadline(time.Now().Add(time.Duration(50+g.Intn(400)) * time.Millisecond))
		x.did("SetDeadline")
	case 18:
		_ = s.SetReadDeadline(time.Now().Add(time.Duration(50+g.Intn(400)) * time.Millisecond))
		x.did("SetReadDeadline")
	case 19:
		_ = s.SetWriteDeadline(time.Now().Add(time.Duration(50+g.Intn(400)) * time.Millisecond))
		x.did("SetWriteDeadline")
	case 20:
		_ = s.SetDeadline(time.Time{})
		x.did("SetDeadline")
	case 21:
		if g.Bool() {
			s.SetLogger(kcp.IKCP_LOG_ALL, func(msg string, args ...any) {})
		} else {
			s.SetLogger(0, nil)
		}
		x.did("SetLogger")
	case 22:
		_ = s.Control(func(conn net.PacketConn) error { return nil })
		x.did("Control")
	case 23:
		_ = kcp.DefaultSnmp.Copy()
		x.did("Snmp.Copy")
	}
}

// drive one session from several goroutines until stop closes; echo = server side (reads and writes back)
func (x *sessOps) drive(s *kcp.UDPSession, g *hx.Rng, stop <-chan struct{}, wg *sync.WaitGroup, echo bool) {
	var oobSink int64
	stopped := func() bool {
		select {
		case <-stop:
			return true
		default:
			return false
		}
	}
	// readers
	for r := 0; r < 2; r++ {
		gr := g.Fork()
		wg.Add(1)
		go func() {
			defer wg.Done()
			for !stopped() {
				buf := make([]byte, 1+gr.Intn(1800)) // small buffers exercise the bufptr path
				n, err := s.Read(buf)
				x.did("Read")
				if err != nil {
					x.cn.add("read-err", 1)
					if !isTimeout(err) {
						return
					}
					continue
				}
				if echo {
					if _, err := s.Write(buf[:n]); err != nil && !isTimeout(err) {
						return
					}
					x.did("Write")
				} else {
					atomic.AddInt64(x.echoed, int64(n))
				}
			}
		}()
	}
	// writers (client side only; the server echoes)
	if !echo {
		for w := 0; w < 2; w++ {
			gw := g.Fork()
			wg.Add(1)
			go func() {
				defer wg.Done()
				for !stopped() {
					var err error
					if gw.Chance(30) {
						v := [][]byte{gw.Bytes(1 + gw.Intn(100)), gw.Bytes(1 + gw.Intn(100)), gw.Bytes(1 + gw.Intn(100))}
						_, err = s.WriteBuffers(v)
						x.did("WriteBuffers")
					} else {
						_, err = s.Write(gw.Bytes(1 + gw.Intn(300)))
						x.did("Write")
					}
					if err != nil {
						x.cn.add("write-err", 1)
						if !isTimeout(err) {
							return
						}
					}
					if gw.Chance(25) {
						time.Sleep(time.Duration(gw.Intn(800)) * time.Microsecond)
					}
				}
			}()
		}
	}
	// setters / getters / deadlines / OOB
	for k := 0; k < 3; k++ {
		gs := g.Fork()
		wg.Add(1)
		go func() {
			defer wg.Done()
			for !stopped() {
				x.randomCall(s, gs, &oobSink)
				if gs.Chance(40) {
					time.Sleep(time.Duration(gs.Intn(300)) * time.Microsecond)
				}
			}
		}()
	}
}

func isTimeout(err error) bool {
	type to interface{ Timeout() bool }
	for err != nil {
		if t, ok := err.(to); ok && t.Timeout() {
			return true
		}
		u, ok := err.(interface{ Unwrap() error })
		if !ok {
			break
		}
		err = u.Unwrap()
	}
	return false
}

func runConfig(c config, g *hx.Rng, dur time.Duration, nsess int, cn *counters) configStats {
	t0 := time.Now()
	key := g.Bytes(32)
	// one cipher object shared by the listener and every client session (shared enc/dec buffers)
	block := makeBlock(c.cipher, key)
	ds, ps := 0, 0
	if c.fec {
		ds, ps = 3, 1
	}
	var methods sync.Map
	var echoed, accepted int64
	x := &sessOps{cn: cn, fec: c.fec, methods: &methods, echoed: &echoed}
	stop := make(chan struct{})
	var wg sync.WaitGroup

	var l *kcp.Listener
	var err error
	var mn *memNet
	var serverPC net.PacketConn
	var serverAddr string
	if c.mem {
		mn = newMemNet()
		serverPC = mn.listen("server")
		l, err = kcp.ServeConn(block, ds, ps, serverPC)
		serverAddr = "server"
	} else if g.Bool() {
		l, err = kcp.ListenWithOptions("127.0.0.1:0", block, ds, ps)
		if err == nil {
			serverAddr = l.Addr().String()
		}
	} else {
		serverPC, err = net.ListenPacket("udp", "127.0.0.1:0")
		if err == nil {
			l, err = kcp.ServeConn(block, ds, ps, serverPC)
			serverAddr = serverPC.LocalAddr().String()
		}
	}
	if err != nil {
		cn.add("listen-err", 1)
		return configStats{Name: c.name}
	}

	var sessMu sync.Mutex
	var all []*kcp.UDPSession
	// acceptors
	for a := 0; a < 2; a++ {
		ga := g.Fork()
		wg.Add(1)
		go func(a int) {
			defer wg.Done()
			for {
				var s *kcp.UDPSession
				var err error
				if a == 0 {
					s, err = l.AcceptKCP()
					x.did("Listener.AcceptKCP")
				} else {
					var nc net.Conn
					nc, err = l.Accept()
					x.did("Listener.Accept")
					if err == nil {
						s = nc.(*kcp.UDPSession)
					}
				}
				if err != nil {
					if isTimeout(err) {
						select {
						case <-stop:
							return
						default:
							continue
						}
					}
					return
				}
				atomic.AddInt64(&accepted, 1)
				sessMu.Lock()
				all = append(all, s)
				sessMu.Unlock()
				x.drive(s, ga.Fork(), stop, &wg, true)
			}
		}(a)
	}
	// listener methods
	gl := g.Fork()
	wg.Add(1)
	go func() {
		defer wg.Done()
		for {
			select {
			case <-stop:
				return
			default:
			}
			switch gl.Intn(9) {
			case 0:
				_ = l.SetDeadline(time.Now().Add(time.Duration(20+gl.Intn(200)) * time.Millisecond))
				x.did("Listener.SetDeadline")
			case 1:
				_ = l.SetReadDeadline(time.Now().Add(time.Duration(20+gl.Intn(200)) * time.Millisecond))
				x.did("Listener.SetReadDeadline")
			case 2:
				_ = l.SetWriteDeadline(time.Now())
				x.did("Listener.SetWriteDeadline")
			case 3:
				_ = l.Addr()
				x.did("Listener.Addr")
			case 4:
				_ = l.SetReadBuffer(1 << 20)
				x.did("Listener.SetReadBuffer")
			case 5:
				_ = l.SetWriteBuffer(1 << 20)
				x.did("Listener.SetWriteBuffer")
			case 6:
				_ = l.SetDSCP(gl.Intn(64))
				x.did("Listener.SetDSCP")
			case 7:
				_ = l.Control(func(conn net.PacketConn) error { return nil })
				x.did("Listener.Control")
			case 8:
				_ = l.SetDeadline(time.Time{})
				x.did("Listener.SetDeadline")
			}
			time.Sleep(time.Duration(gl.Intn(2000)) * time.Microsecond)
		}
	}()

	// clients
	var clientPCs []net.PacketConn
	for i := 0; i < nsess; i++ {
		var s *kcp.UDPSession
		var err error
		if c.mem {
			pc := mn.listen(fmt.Sprintf("client%d", i))
			clientPCs = append(clientPCs, pc)
			s, err = kcp.NewConn3(uint32(1000+i), memAddr(serverAddr), block, ds, ps, pc)
			x.did("NewConn3")
		} else if i%2 == 0 {
			s, err = kcp.DialWithOptions(serverAddr, block, ds, ps)
			x.did("DialWithOptions")
		} else {
			pc, e := net.ListenPacket("udp", "127.0.0.1:0")
			if e != nil {
				cn.add("dial-err", 1)
				continue
			}
			clientPCs = append(clientPCs, pc)
			s, err = kcp.NewConn(serverAddr, block, ds, ps, pc)
			x.did("NewConn")
		}
		if err != nil {
			cn.add("dial-err", 1)
			continue
		}
		sessMu.Lock()
		all = append(all, s)
		sessMu.Unlock()
		x.drive(s, g.Fork(), stop, &wg, false)
	}

	// one session closed and replaced in mid-run (Close racing with everything else)
	time.Sleep(dur / 2)
	sessMu.Lock()
	if len(all) > 0 {
		victim := all[g.Intn(len(all))]
		sessMu.Unlock()
		var cw sync.WaitGroup
		for k := 0; k < 2; k++ {
			cw.Add(1)
			go func() { defer cw.Done(); _ = victim.Close(); x.did("Close") }()
		}
		cw.Wait()
	} else {
		sessMu.Unlock()
	}
	time.Sleep(dur / 2)

	// shutdown: Close from two goroutines per session while the other goroutines are still calling
	sessMu.Lock()
	snapshot := append([]*kcp.UDPSession{}, all...)
	sessMu.Unlock()
	var cw sync.WaitGroup
	if c.mem && g.Bool() {
		// the listener's socket fails while its sessions are being closed: the monitor loop walks the
		// session table (error propagation) while closeSession deletes from it
		cw.Add(1)
		go func() { defer cw.Done(); _ = serverPC.Close(); x.did("socket-failure-during-close") }()
	}
	for _, s := range snapshot {
		for k := 0; k < 2; k++ {
			cw.Add(1)
			go func(s *kcp.UDPSession) { defer cw.Done(); _ = s.Close(); x.did("Close") }(s)
		}
	}
	for k := 0; k < 2; k++ {
		cw.Add(1)
		go func() { defer cw.Done(); _ = l.Close(); x.did("Listener.Close") }()
	}
	cw.Wait()
	close(stop)
	if serverPC != nil {
		_ = serverPC.Close()
	}
	for _, pc := range clientPCs {
		_ = pc.Close()
	}
	// sessions accepted after the snapshot
	sessMu.Lock()
	for _, s := range all {
		_ = s.Close()
	}
	sessMu.Unlock()
	done := make(chan struct{})
	go func() { wg.Wait(); close(done) }()
	select {
	case <-done:
	case <-time.After(10 * time.Second):
		cn.add("shutdown-timeout", 1)
	}
	nm := 0
	methods.Range(func(k, v any) bool { nm++; return true })
	cn.add("configs", 1)
	cn.add("bytes-echoed", int(atomic.LoadInt64(&echoed)))
	cn.add("sessions-accepted", int(atomic.LoadInt64(&accepted)))
	return configStats{Name: c.name, DurMs: int(time.Since(t0) / time.Millisecond), Sessions: nsess, Accepted: atomic.LoadInt64(&accepted),
		BytesEchoed: atomic.LoadInt64(&echoed), Methods: nm}
}
