// Package consts: harness component `consts` (no driver) — validates the fact extractor: every integer
// constant it wrote into lean/KcpVerif/Generated.lean must equal the value the compiled package reports
// through the hook VerifConstants (verif_consts.go, build tag verif).
//
// Generated.lean is located relative to the harness binary (.work/bin/corr-* → ../../lean/KcpVerif/
// Generated.lean) or under $VERIF_ROOT.
package consts

import (
	"fmt"
	"os"
	"path/filepath"
	"regexp"
	"sort"
	"strconv"

	kcp "github.com/xtaci/kcp-go/v5"
	"verif/harness/internal/hx"
)

func verifRoot() string {
	if r := os.Getenv("VERIF_ROOT"); r != "" {
		return r
	}
	exe, err := os.Executable()
	if err != nil {
		return "."
	}
	return filepath.Clean(filepath.Join(filepath.Dir(exe), "..", ".."))
}

var reDef = regexp.MustCompile(`(?m)^def (\w+) : (?:Nat|Int) := (-?\d+)$`)

func Run(o *hx.Out, g *hx.Rng, tier string) {
	o.Res.Rule = "one case per constant compared; distinct = constants present on both sides"
	p := filepath.Join(verifRoot(), "lean", "KcpVerif", "Generated.lean")
	b, err := os.ReadFile(p)
	if err != nil {
		o.Violate(hx.Violation{Kind: "consts-mismatch", Detail: "cannot read " + p + ": " + err.Error(), Replay: []string{p}})
		return
	}
	gen := map[string]int64{}
	for _, m := range reDef.FindAllStringSubmatch(string(b), -1) {
		v, err := strconv.ParseInt(m[2], 10, 64)
		if err == nil {
			gen[m[1]] = v
		}
	}
	compiled := kcp.VerifConstants()
	names := make([]string, 0, len(compiled))
	for n := range compiled {
		names = append(names, n)
	}
	sort.Strings(names)
	for _, n := range names {
		gv, ok := gen[n]
		switch {
		case !ok:
			o.Case("")
			o.Op("const "+n, fmt.Sprintf("compiled=%d extracted=missing", compiled[n]))
			o.Count("missing-in-generated")
			o.Violate(hx.Violation{Kind: "consts-mismatch", Detail: fmt.Sprintf("constant %s = %d is reported by the compiled package but missing from Generated.lean", n, compiled[n]), Replay: []string{n}})
		case gv != compiled[n]:
			o.Case(n)
			o.Op("const "+n, fmt.Sprintf("compiled=%d extracted=%d", compiled[n], gv))
			o.Count("different")
			o.Violate(hx.Violation{Kind: "consts-mismatch", Detail: fmt.Sprintf("constant %s: compiled package says %d, extractor wrote %d", n, compiled[n], gv), Replay: []string{n}})
		default:
			o.Case(n)
			o.Op("const "+n, fmt.Sprintf("compiled=%d extracted=%d", compiled[n], gv))
			o.Count("equal")
		}
	}
	var unchecked []string
	for n := range gen {
		if _, ok := compiled[n]; !ok {
			unchecked = append(unchecked, n)
		}
	}
	sort.Strings(unchecked)
	o.CountN("extracted-but-not-in-hook", len(unchecked))
	if len(unchecked) > 0 {
		o.Note(fmt.Sprintf("constants in Generated.lean that the hook does not report (not cross-checked): %v", unchecked))
	}
}
