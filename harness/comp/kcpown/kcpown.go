// Package kcpown: correspondence component `kcpown` (C15, ownership half, protocol core) — two real
// protocol cores (kcp.go) connected by a simulated network under a frozen virtual clock, against the
// INSTRUMENTED model Model/KcpOwn.  The op lines are those of component `kcp`; the observation per
// op is what the buffer-pool sanitizer (verif_pool_on.go) saw during the op:
//
//	g=<gets> p=<puts> e=<g<n>|p<n>,...> u=<n,...>
//
// where n numbers the acquisitions of the history (the n-th Get of the history, whichever address
// sync.Pool handed out) and u lists the buffers whose data the op put on the wire (the PUSH segments
// in its output datagrams, mapped back to the buffers behind snd_buf: the model's `use` events of
// flush), and for `state` lines the acquisition number held at every queue position
//
//	I sq=[..] rq=[..] sb=[..] rb=[..]          (- = seg.data == nil)
//
// so that the model's claim "which buffer is where, which Get/Put happens in which op, in which
// order" is compared with the real code, not only the counts.
//
// Implementation-side oracles (Violation kinds pool-*): every sanitizer report (double / foreign
// put, write after put, alias), a queued segment that holds a buffer which is in the pool
// (pool-use-after-put via VerifKCPUseAll), one buffer held at two queue positions
// (pool-shared-buffer), and the core's books: buffers acquired - recycled = buffers held (pool-leak).
//
// Must run inside a synctest bubble (frozen time.Now): see cmd/corr.
package kcpown

import (
	"encoding/binary"
	"fmt"
	"sort"
	"strconv"
	"strings"

	kcp "github.com/xtaci/kcp-go/v5"
	"verif/harness/internal/hx"
)

type endpoint struct {
	name string
	k    *kcp.KCP
	outs [][]byte
}

type world struct {
	o            *hx.Out
	g            *hx.Rng
	a, b         *endpoint
	now          uint32
	ops          []string
	netAB, netBA [][]byte
	oldAB, oldBA [][]byte // datagrams already delivered once (replayed as duplicates)
	stream       bool
	tier         string
	hist         int
	aborted      bool

	// sanitizer bookkeeping of the current history
	seenEv   int         // events of VerifPoolEvents already consumed
	seenRep  int         // reports already turned into violations
	acq      int         // acquisitions so far
	acqOf    map[int]int // sanitizer buffer id -> acquisition number currently attached to it
	g0, p0   int         // counters before the op
	totalG   int
	totalP   int
	lostBufs int // acquisitions abandoned next to a panic
}

func (w *world) newEndpoint(name string, conv uint32) *endpoint {
	e := &endpoint{name: name}
	e.k = kcp.NewKCP(conv, func(buf []byte, size int) {
		e.outs = append(e.outs, append([]byte(nil), buf[:size]...))
	})
	return e
}

func (w *world) viol(kind, detail string) {
	w.o.Violate(hx.Violation{Kind: kind, Detail: fmt.Sprintf("history %d: %s", w.hist, detail), Replay: append([]string(nil), w.ops...)})
}

func (w *world) emit(e *endpoint, op, obs string) {
	line := op
	if e != nil {
		line = e.name + " " + op
	}
	w.ops = append(w.ops, line)
	w.o.Op(line, obs)
	w.o.Count("op:" + strings.Fields(op)[0])
}

// poolObs turns what the sanitizer saw since the previous op into the observation string.
func (w *world) poolObs(e *endpoint) string {
	g1, p1 := kcp.VerifPoolCounts()
	evs := kcp.VerifPoolEvents()
	var es []string
	for _, ev := range evs[w.seenEv:] {
		switch ev.Kind {
		case 'g':
			w.acqOf[ev.ID] = w.acq
			es = append(es, "g"+strconv.Itoa(w.acq))
			w.acq++
		case 'p':
			n, ok := w.acqOf[ev.ID]
			if !ok {
				es = append(es, "p?")
			} else {
				es = append(es, "p"+strconv.Itoa(n))
			}
		}
	}
	w.seenEv = len(evs)
	s := "-"
	if len(es) > 0 {
		s = strings.Join(es, ",")
	}
	obs := fmt.Sprintf("g=%d p=%d e=%s u=%s", g1-w.g0, p1-w.p0, s, w.wireUses(e))
	w.o.CountN("pool-gets", g1-w.g0)
	w.o.CountN("pool-puts", p1-w.p0)
	w.totalG, w.totalP = g1, p1
	w.g0, w.p0 = g1, p1
	return obs
}

// wireUses: the buffers the op read for transmission — for every PUSH segment in the datagrams the
// op handed to the output callback, in order, the acquisition number of the buffer that backs the
// segment with that sequence number in snd_buf.
func (w *world) wireUses(e *endpoint) string {
	var us []string
	var sbIDs []int
	var d kcp.VerifKCPDump
	for _, p := range e.outs {
		for len(p) >= 24 {
			cmd, sn, ln := p[4], binary.LittleEndian.Uint32(p[12:]), int(binary.LittleEndian.Uint32(p[20:]))
			p = p[24:]
			if ln > len(p) {
				break
			}
			p = p[ln:]
			if cmd != 81 {
				continue
			}
			if sbIDs == nil {
				_, _, sbIDs, _, _ = kcp.VerifKCPBufIDs(e.k)
				d = kcp.VerifKCPState(e.k)
			}
			u := "?"
			for i := range d.SndBuf {
				if d.SndBuf[i].Sn == sn && i < len(sbIDs) {
					if n, ok := w.acqOf[sbIDs[i]]; ok && sbIDs[i] >= 0 {
						u = strconv.Itoa(n)
					} else {
						u = fmt.Sprintf("?%d", sbIDs[i])
					}
					break
				}
			}
			us = append(us, u)
			w.o.Count("wire-push")
		}
	}
	if len(us) == 0 {
		return "-"
	}
	return strings.Join(us, ",")
}

// reports turns new sanitizer findings into violations.
func (w *world) reports(after string) {
	reps := kcp.VerifPoolReports()
	for _, r := range reps[min(w.seenRep, len(reps)):] {
		kind := r
		if i := strings.Index(r, ":"); i > 0 {
			kind = r[:i]
		}
		w.viol(kind, fmt.Sprintf("after %s: %s", after, r))
	}
	w.seenRep = len(reps)
}

// call runs f on the real core with panic recovery.
func (w *world) call(e *endpoint, op string, f func()) bool {
	if w.aborted {
		return false
	}
	e.outs = e.outs[:0]
	kcp.VerifSetClock(w.now)
	if msg := hx.Try(f); msg != "" {
		w.aborted = true
		w.emit(e, op, "panic")
		w.o.Count("panic")
		w.o.Note(fmt.Sprintf("history %d: %s %s panicked: %s", w.hist, e.name, op, msg))
		return false
	}
	w.emit(e, op, w.poolObs(e))
	w.reports(e.name + " " + op)
	for _, p := range e.outs {
		if e == w.a {
			w.netAB = append(w.netAB, p)
		} else {
			w.netBA = append(w.netBA, p)
		}
	}
	e.outs = e.outs[:0]
	return true
}

func showIDs(ids []int, acqOf map[int]int) string {
	s := make([]string, len(ids))
	for i, id := range ids {
		switch {
		case id == -1:
			s[i] = "-"
		case id < 0:
			s[i] = fmt.Sprintf("?%d", id)
		default:
			if n, ok := acqOf[id]; ok {
				s[i] = strconv.Itoa(n)
			} else {
				s[i] = fmt.Sprintf("?id%d", id)
			}
		}
	}
	return "[" + strings.Join(s, ",") + "]"
}

// state: the ownership layout of one core, plus the layout oracles over both cores.
func (w *world) state(e *endpoint) {
	if w.aborted {
		return
	}
	sq, rq, sb, rb, rbSn := kcp.VerifKCPBufIDs(e.k)
	d := kcp.VerifKCPState(e.k)
	idx := make([]int, len(rb))
	for i := range idx {
		idx[i] = i
	}
	sort.SliceStable(idx, func(i, j int) bool { return rbSn[idx[i]]-d.RcvNxt < rbSn[idx[j]]-d.RcvNxt })
	rbs := make([]int, len(rb))
	for i, j := range idx {
		rbs[i] = rb[j]
	}
	w.emit(e, "state", fmt.Sprintf("I sq=%s rq=%s sb=%s rb=%s", showIDs(sq, w.acqOf), showIDs(rq, w.acqOf), showIDs(sb, w.acqOf), showIDs(rbs, w.acqOf)))
	w.layoutOracle("state")
}

// layoutOracle: no buffer is held twice, no held buffer is in the pool, acquired - recycled = held.
func (w *world) layoutOracle(after string) {
	seen := map[int]string{}
	held := 0
	for _, e := range []*endpoint{w.a, w.b} {
		sq, rq, sb, rb, _ := kcp.VerifKCPBufIDs(e.k)
		for qi, q := range [][]int{sq, rq, sb, rb} {
			qn := []string{"snd_queue", "rcv_queue", "snd_buf", "rcv_buf"}[qi]
			for i, id := range q {
				if id == -1 {
					continue
				}
				held++
				where := fmt.Sprintf("%s.%s[%d]", e.name, qn, i)
				if id < 0 {
					w.viol("pool-foreign-buffer", fmt.Sprintf("after %s: %s holds a buffer the pool never handed out (%d)", after, where, id))
					continue
				}
				if prev, dup := seen[id]; dup {
					w.viol("pool-shared-buffer", fmt.Sprintf("after %s: buffer #%d is held by %s and by %s", after, id, prev, where))
				}
				seen[id] = where
			}
		}
		kcp.VerifKCPUseAll(e.k) // a held buffer that is in the pool -> pool-use-after-put report
	}
	w.reports(after + " (held buffers)")
	if w.totalG-w.totalP-w.lostBufs != held {
		w.viol("pool-leak", fmt.Sprintf("after %s: %d buffers acquired, %d recycled, but the queues of both cores hold %d", after, w.totalG, w.totalP, held))
	}
	w.o.CountN("held-checked", held)
}

// ---------------------------------------------------------------------------------------------
// operations

func b2i(b bool) int {
	if b {
		return 1
	}
	return 0
}

func (w *world) send(e *endpoint, data []byte) {
	var ret int
	if w.call(e, "send "+hx.Hex(data), func() { ret = e.k.Send(data) }) {
		w.o.Count(fmt.Sprintf("send-ret:%d", ret))
	}
}

func (w *world) recv(e *endpoint, buflen int) int {
	buf := make([]byte, buflen)
	n := -9
	if w.call(e, fmt.Sprintf("recv %d", buflen), func() { n = e.k.Recv(buf) }) {
		if n >= 0 {
			w.o.Count("recv-ret:data")
			// read-after-recycle: poison in what Recv copied out
			run := 0
			for _, c := range buf[:n] {
				if c == kcp.VerifPoison {
					run++
					if run >= 8 {
						w.viol("pool-read-after-put", fmt.Sprintf("%s Recv returned %d bytes containing a run of poison bytes", e.name, n))
						break
					}
				} else {
					run = 0
				}
			}
		} else {
			w.o.Count(fmt.Sprintf("recv-ret:%d", n))
		}
	}
	return n
}

func (w *world) input(e *endpoint, data []byte, regular, ackNoDelay bool) {
	pt := kcp.IKCP_PACKET_REGULAR
	if !regular {
		pt = kcp.IKCP_PACKET_FEC
	}
	var ret int
	if w.call(e, fmt.Sprintf("input %s %d %d %d", hx.Hex(data), b2i(regular), b2i(ackNoDelay), w.now), func() {
		ret = e.k.Input(data, pt, ackNoDelay)
	}) {
		w.o.Count(fmt.Sprintf("input-ret:%d", ret))
	}
}

func (w *world) flush(e *endpoint, full bool) uint32 {
	var iv uint32
	w.call(e, fmt.Sprintf("flush %d %d", b2i(full), w.now), func() { iv = kcp.VerifKCPFlush(e.k, full) })
	return iv
}

func (w *world) update(e *endpoint) {
	w.call(e, fmt.Sprintf("update %d", w.now), func() { e.k.Update() })
}

// ---------------------------------------------------------------------------------------------
// generators

var wndChoices = []int{1, 2, 3, 4, 8, 32, 128}
var mtuChoices = []int{25, 26, 50, 100, 300, 576, 1400, 1500, 1524}

// payload bytes avoid the poison value so that the read-after-recycle oracle has no false alarms
func (w *world) payload(n int) []byte {
	b := w.g.Bytes(n)
	for i := range b {
		if b[i] == kcp.VerifPoison {
			b[i] = 0x11
		}
	}
	return b
}

func (w *world) sendSize(e *endpoint) int {
	g := w.g
	mss := int(kcp.VerifKCPState(e.k).Mss)
	switch g.Intn(9) {
	case 0:
		return 1
	case 1:
		return max(mss-1, 1)
	case 2:
		return mss
	case 3:
		return mss + 1
	case 4:
		return mss * (2 + g.Intn(3))
	case 5:
		if g.Chance(10) && mss < 40 {
			return mss*255 + g.Intn(3)*mss // the 255-fragment limit
		}
		return 1 + g.Intn(2*mss+1)
	case 6:
		return 0
	default:
		return 1 + g.Intn(min(3*mss, 3000)+1)
	}
}

func (w *world) advance() {
	g := w.g
	d := kcp.VerifKCPState(w.a.k)
	steps := []uint32{0, 1, 2, 5, 10, d.Interval, d.Interval + 1, d.RxRto - 1, d.RxRto, d.RxRto + 1, 2 * d.RxRto, 500, 1000}
	s := steps[g.Intn(len(steps))]
	if g.Chance(2) {
		s = []uint32{10000, 10001, 60000}[g.Intn(3)]
	}
	w.now += s
}

// deliver one datagram of the given direction according to a fate
func (w *world) deliver(toB bool) {
	g := w.g
	q, old, dst := &w.netAB, &w.oldAB, w.b
	if !toB {
		q, old, dst = &w.netBA, &w.oldBA, w.a
	}
	if len(*q) == 0 {
		if len(*old) > 0 && g.Chance(50) { // a late duplicate from the past
			w.o.Count("fate:replay")
			w.input(dst, (*old)[g.Intn(len(*old))], true, g.Chance(20))
		}
		return
	}
	idx := 0
	if g.Chance(25) {
		idx = g.Intn(len(*q))
		w.o.Count("fate:reorder")
	}
	p := (*q)[idx]
	fate := g.Intn(100)
	switch {
	case fate < 12:
		*q = append((*q)[:idx], (*q)[idx+1:]...)
		w.o.Count("fate:drop")
		return
	case fate < 24: // duplicate: deliver and keep
		w.o.Count("fate:dup")
	case fate < 30:
		w.o.Count("fate:delay")
		return
	default:
		*q = append((*q)[:idx], (*q)[idx+1:]...)
		w.o.Count("fate:deliver")
	}
	if len(*old) < 64 {
		*old = append(*old, p)
	} else {
		(*old)[g.Intn(64)] = p
	}
	w.input(dst, p, !g.Chance(5), g.Chance(20))
}

func hdr(conv uint32, cmd, frg byte, wnd uint16, ts, sn, una uint32, data []byte) []byte {
	p := make([]byte, 24+len(data))
	binary.LittleEndian.PutUint32(p, conv)
	p[4], p[5] = cmd, frg
	binary.LittleEndian.PutUint16(p[6:], wnd)
	binary.LittleEndian.PutUint32(p[8:], ts)
	binary.LittleEndian.PutUint32(p[12:], sn)
	binary.LittleEndian.PutUint32(p[16:], una)
	binary.LittleEndian.PutUint32(p[20:], uint32(len(data)))
	copy(p[24:], data)
	return p
}

// forge: the inputs the ownership argument is about — an ACK for a segment that is already acked,
// a cumulative ack passing acked segments, duplicate and overlapping PUSHes, zero-length PUSHes.
func (w *world) forge(toB bool) {
	g := w.g
	dst, q := w.b, w.netAB
	if !toB {
		dst, q = w.a, w.netBA
	}
	d := kcp.VerifKCPState(dst.k)
	inflight := int(d.SndNxt - d.SndUna)
	var p []byte
	kind := g.Intn(8)
	switch kind {
	case 0, 1: // ACKs (often repeated in one datagram) for sequence numbers around the send window
		n := 1 + g.Intn(4)
		sn := d.SndUna + uint32(g.Intn(inflight+3)) - 1
		for i := 0; i < n; i++ {
			if g.Chance(40) {
				sn = d.SndUna + uint32(g.Intn(inflight+3)) - 1
			}
			una := d.SndUna
			if g.Chance(30) {
				una = d.SndUna + uint32(g.Intn(inflight+3)) - 1
			}
			p = append(p, hdr(d.Conv, 82, 0, uint16(g.Intn(300)), w.now-uint32(g.Intn(50)), sn, una, nil)...)
		}
	case 2: // cumulative ack only (WINS carries una)
		una := d.SndUna + uint32(g.Intn(inflight+3)) - 1
		p = hdr(d.Conv, 84, 0, uint16(g.Intn(300)), w.now, 0, una, nil)
	case 3, 4: // PUSHes inside / at the edges of the receive window, duplicates within one datagram, zero length
		n := 1 + g.Intn(5)
		sn := d.RcvNxt + uint32(g.Intn(int(d.RcvWnd)+2)) - 1
		for i := 0; i < n; i++ {
			if g.Chance(50) {
				sn = d.RcvNxt + uint32(g.Intn(int(d.RcvWnd)+2)) - 1
			}
			ln := []int{0, 1, 1, 7, 100}[g.Intn(5)]
			p = append(p, hdr(d.Conv, 81, byte(g.Intn(3)), uint16(g.Intn(300)), w.now, sn, d.SndUna, w.payload(ln))...)
		}
	case 5: // a genuine datagram with one header field replaced
		if len(q) == 0 {
			p = g.Bytes(g.Intn(64))
			break
		}
		p = append([]byte(nil), q[g.Intn(len(q))]...)
		if len(p) >= 24 {
			rel := []uint32{d.SndUna, d.SndNxt, d.RcvNxt, d.RcvNxt + d.RcvWnd}
			v := rel[g.Intn(len(rel))] + uint32(g.Intn(5)) - 2
			switch g.Intn(4) {
			case 0:
				binary.LittleEndian.PutUint32(p[12:], v)
			case 1:
				binary.LittleEndian.PutUint32(p[16:], v)
			case 2:
				p[4] = byte([]int{80, 81, 82, 83, 84, 85}[g.Intn(6)])
			case 3:
				binary.LittleEndian.PutUint32(p[20:], []uint32{0, 1, uint32(len(p) - 24), uint32(len(p) - 23), 1500, 1501}[g.Intn(6)])
			}
		}
	case 6: // splice / truncate
		if len(q) == 0 {
			p = g.Bytes(g.Intn(64))
			break
		}
		p = append(append([]byte(nil), q[g.Intn(len(q))]...), q[g.Intn(len(q))]...)
		if g.Bool() {
			p = p[:g.Intn(len(p)+1)]
		}
	default: // a full window of one-byte PUSHes in one datagram
		cnt := 1 + g.Intn(40)
		for i := 0; i < cnt; i++ {
			p = append(p, hdr(d.Conv, 81, 0, uint16(g.Intn(300)), w.now, d.RcvNxt+uint32(g.Intn(2*int(d.RcvWnd)+2)), d.SndUna, []byte{0x22})...)
		}
	}
	w.o.Count(fmt.Sprintf("forge:%d", kind))
	w.input(dst, p, !g.Chance(10), g.Chance(20))
}

func (w *world) history(forge bool) {
	g := w.g
	w.hist++
	w.ops = w.ops[:0]
	w.netAB, w.netBA, w.oldAB, w.oldBA = nil, nil, nil, nil
	w.aborted = false
	kcp.VerifPoolReset()
	w.seenEv, w.seenRep, w.acq, w.acqOf, w.g0, w.p0, w.totalG, w.totalP, w.lostBufs = 0, 0, 0, map[int]int{}, 0, 0, 0, 0, 0
	conv := g.U32()
	w.a = w.newEndpoint("a", conv)
	w.b = w.newEndpoint("b", conv)
	w.emit(nil, fmt.Sprintf("new %d", conv), "ok")
	w.now = []uint32{0, 0xFFFFFFFF - uint32(g.Intn(3000)), 1<<31 - uint32(g.Intn(40)), g.U32()}[g.Intn(4)]
	w.stream = g.Bool()
	for _, e := range []*endpoint{w.a, w.b} {
		e := e
		if g.Chance(50) || e == w.b {
			s, r := g.U32(), g.U32()
			if g.Chance(50) {
				s, r = 0xFFFFFFFF-uint32(g.Intn(40)), 1<<31-uint32(g.Intn(40))
			}
			if e == w.b {
				da := kcp.VerifKCPState(w.a.k)
				s, r = da.RcvNxt, da.SndNxt
			}
			w.call(e, fmt.Sprintf("shift %d %d", s, r), func() { kcp.VerifKCPShift(e.k, s, r) })
		}
		if g.Chance(80) {
			nd, iv, rs, nc := g.Intn(2), []int{10, 20, 40, 100}[g.Intn(4)], g.Intn(4), g.Intn(2)
			w.call(e, fmt.Sprintf("nodelay %d %d %d %d", nd, iv, rs, nc), func() { e.k.NoDelay(nd, iv, rs, nc) })
		}
		if g.Chance(80) {
			s, r := wndChoices[g.Intn(len(wndChoices))], wndChoices[g.Intn(len(wndChoices))]
			w.call(e, fmt.Sprintf("wndsize %d %d", s, r), func() { e.k.WndSize(s, r) })
		}
		if g.Chance(60) {
			m := mtuChoices[g.Intn(len(mtuChoices))]
			w.call(e, fmt.Sprintf("setmtu %d", m), func() { e.k.SetMtu(m) })
		}
		st := w.stream
		w.call(e, fmt.Sprintf("stream %d", b2i(st)), func() { kcp.VerifKCPSetStream(e.k, st) })
	}
	useUpdate := g.Chance(30)
	steps := 60 + g.Intn(120)
	if w.tier == "thorough" {
		steps = 100 + g.Intn(400)
	}
	for i := 0; i < steps && !w.aborted; i++ {
		e := w.a
		if g.Chance(35) {
			e = w.b
		}
		r := g.Intn(100)
		switch {
		case r < 18:
			if mss := int(kcp.VerifKCPState(e.k).Mss); w.stream && mss <= 80 && g.Chance(12) {
				// the refused Send: stream mode, a partly filled last segment, a buffer that needs
				// more than 255 segments even after the append — it must take nothing (no pool event,
				// no change of the last segment)
				w.o.Count("send:refused-stream-case")
				w.send(e, w.payload(1+g.Intn(max(mss-1, 1))))
				w.send(e, w.payload(mss*256+g.Intn(2*mss+1)))
				w.state(e)
				break
			}
			w.send(e, w.payload(w.sendSize(e)))
		case r < 34:
			if useUpdate {
				w.update(e)
			} else {
				w.flush(e, !g.Chance(15))
			}
		case r < 60:
			w.deliver(g.Chance(55))
		case r < 72:
			d := kcp.VerifKCPState(e.k)
			w.recv(e, []int{0, 1, int(d.Mss), 4096, 70000}[g.Intn(5)])
		case r < 80:
			w.advance()
		case r < 88:
			w.state(e)
		case r < 96:
			if forge {
				w.forge(g.Bool())
			} else {
				w.deliver(g.Bool())
			}
		default:
			if g.Chance(30) {
				d := kcp.VerifKCPState(e.k)
				m := []int{int(d.Mtu) + 100, int(d.Mtu) - 100, 50, 1400, 1524}[g.Intn(5)]
				w.call(e, fmt.Sprintf("setmtu %d", m), func() { e.k.SetMtu(m) })
			} else {
				w.advance()
			}
		}
	}
	if !w.aborted {
		w.state(w.a)
		w.state(w.b)
	}
	w.drain()
	if !w.aborted {
		w.state(w.a)
		w.state(w.b)
	}
	w.o.Case(hx.HashKey(strings.Join(w.ops, "\n")))
}

// drain: fair network for a bounded number of rounds, so that acknowledgements, cumulative acks and
// Recv recycle what the history has acquired (no liveness oracle here: that is C02/C03).
func (w *world) drain() {
	for round := 0; round < 120 && !w.aborted; round++ {
		da, db := kcp.VerifKCPState(w.a.k), kcp.VerifKCPState(w.b.k)
		if len(da.SndQueue)+len(da.SndBuf)+len(db.SndQueue)+len(db.SndBuf) == 0 && len(w.netAB)+len(w.netBA) == 0 {
			w.recvAll(w.a)
			w.recvAll(w.b)
			w.o.Count("drained")
			// everything acknowledged and read: the cores hold no buffer at all
			if !w.aborted {
				for _, e := range []*endpoint{w.a, w.b} {
					if h := kcp.VerifKCPUseAll(e.k); h != 0 {
						dd := kcp.VerifKCPState(e.k)
						if len(dd.RcvBuf)+len(dd.RcvQueue) == 0 {
							w.viol("pool-leak", fmt.Sprintf("%s holds %d buffers after both backlogs and all receive queues are empty", e.name, h))
						}
					}
				}
			}
			return
		}
		for len(w.netAB) > 0 && !w.aborted {
			p := w.netAB[0]
			w.netAB = w.netAB[1:]
			w.input(w.b, p, true, false)
		}
		for len(w.netBA) > 0 && !w.aborted {
			p := w.netBA[0]
			w.netBA = w.netBA[1:]
			w.input(w.a, p, true, false)
		}
		w.recvAll(w.a)
		w.recvAll(w.b)
		ia := w.flush(w.a, true)
		ib := w.flush(w.b, true)
		w.now += max(min(ia, ib), 1)
	}
	w.o.Count("not-drained")
}

func (w *world) recvAll(e *endpoint) {
	for i := 0; i < 100000 && !w.aborted; i++ {
		if e.k.PeekSize() < 0 {
			return
		}
		if w.recv(e, 70000*4) < 0 {
			return
		}
	}
}

// Run is the component entry point.
func Run(o *hx.Out, g *hx.Rng, tier string) {
	o.Res.Rule = "a case is one two-endpoint history (settings, sends, flush/update, per-datagram fates incl. late duplicates, forged ACK/UNA/PUSH inputs in two thirds of the histories, recv, state = ownership layout) followed by a bounded fair-network drain; distinct = distinct op-line sequences (hash)"
	n := 100
	if tier == "thorough" {
		n = 1200
	}
	kcp.VerifPoolLog(true)
	defer kcp.VerifPoolLog(false)
	w := &world{o: o, g: g, tier: tier}
	for i := 0; i < n; i++ {
		w.history(i%3 != 0)
	}
}
