package wait

import (
	"sort"

	"verif/harness/internal/hx"
)

// builder of a schedule: a cursor in virtual time and the list of events
type sb struct {
	sc  *schedule
	now int
}

func newSB(family string, kinds string, wnd, infl int) *sb {
	return &sb{sc: &schedule{family: family, kinds: []byte(kinds), wnd: wnd, infl: infl}}
}
func (b *sb) wait(ms int) *sb { b.now += ms; return b }
func (b *sb) ev(op string, a int) *sb {
	b.sc.evs = append(b.sc.evs, event{at: b.now, op: op, a: a})
	return b
}

// callb: a reader's call with a Read buffer of n bytes; arr: a datagram with messages of these sizes
func (b *sb) callb(i, n int) *sb {
	b.sc.evs = append(b.sc.evs, event{at: b.now, op: "call", a: i, b: n})
	return b
}
func (b *sb) arr(sizes ...int) *sb {
	b.sc.evs = append(b.sc.evs, event{at: b.now, op: "arrive", a: len(sizes), sz: append([]int{}, sizes...)})
	return b
}
func (b *sb) done() *schedule {
	sort.SliceStable(b.sc.evs, func(i, j int) bool { return b.sc.evs[i].at < b.sc.evs[j].at })
	return b.sc
}

// fixedSchedules: the witnesses of the defects found by reading (DESIGN section 6: D5, D7, D8; and
// D7b found while building this check) and one schedule per clause of the property.  They run on
// every check, before the random ones.
func fixedSchedules() []*schedule {
	var out []*schedule
	for _, k := range []string{"r", "w"} {
		set, wake := "setrd", "arrive"
		if k == "w" {
			set, wake = "setwd", "open"
		}
		// D7: set -> zero -> set while one call is blocked
		out = append(out, newSB("fixed:D7-set-zero-set:"+k, k, 1, 1).ev(set, 500).ev("call", 0).wait(100).ev(set, 0).wait(100).ev(set, 300).done())
		// D7b: none -> set while blocked
		out = append(out, newSB("fixed:D7b-none-set:"+k, k, 1, 1).ev("call", 0).wait(100).ev(set, 300).done())
		// the deadline clauses that hold: set before, later, earlier, past, cleared
		out = append(out, newSB("fixed:set-before:"+k, k, 1, 1).ev(set, 300).ev("call", 0).done())
		out = append(out, newSB("fixed:set-later:"+k, k, 1, 1).ev(set, 300).ev("call", 0).wait(100).ev(set, 700).done())
		out = append(out, newSB("fixed:set-earlier:"+k, k, 1, 1).ev(set, 700).ev("call", 0).wait(100).ev(set, 300).done())
		out = append(out, newSB("fixed:set-past:"+k, k, 1, 1).ev(set, 700).ev("call", 0).wait(200).ev(set, 100).done())
		out = append(out, newSB("fixed:set-cleared:"+k, k, 1, 1).ev(set, 300).ev("call", 0).wait(100).ev(set, 0).wait(400).ev(wake, 1).done())
		out = append(out, newSB("fixed:wake:"+k, k, 1, 1).ev(set, 900).ev("call", 0).wait(100).ev(wake, 1).done())
	}
	// D5: two blocked readers, two messages in one datagram
	out = append(out, newSB("fixed:D5-two-readers", "rr", 1, 0).ev("call", 0).ev("call", 1).wait(100).ev("arrive", 2).done())
	out = append(out, newSB("fixed:D5-three-readers", "rrr", 1, 0).ev("call", 0).ev("call", 1).ev("call", 2).wait(100).ev("arrive", 3).done())
	// partial reads: a buffer smaller than the message leaves the rest in bufptr, which is readable
	// for the next reader and must be passed on by the chain wake (seeded change C13-2)
	out = append(out, newSB("fixed:partial-two-readers", "rr", 1, 0).callb(0, 100).callb(1, 100).wait(100).arr(200).done())
	out = append(out, newSB("fixed:partial-three-readers-1byte", "rrr", 1, 0).callb(0, 1).callb(1, 1).callb(2, 1).wait(100).arr(3).done())
	out = append(out, newSB("fixed:partial-then-next-message", "rrr", 1, 0).callb(0, 4).callb(1, 8).callb(2, 64).wait(100).arr(8, 8).done())
	out = append(out, newSB("fixed:partial-leftover-then-late-reader", "rr", 1, 0).callb(0, 3).wait(100).arr(8).wait(100).callb(1, 3).wait(100).callb(0, 64).wait(100).arr().done())
	out = append(out, newSB("fixed:partial-after-close", "rr", 1, 0).arr(8).wait(100).ev("close", 0).callb(0, 5).callb(1, 5).wait(100).callb(0, 5).done())
	// Accept: a deadline that was set and cleared again before the call is no deadline (seeded change C13-1)
	out = append(out, newSB("fixed:accept-set-cleared-before", "a", 1, 0).ev("setld", 300).ev("setld", 0).ev("call", 0).wait(500).ev("conn", 0).done())
	out = append(out, newSB("fixed:accept-cleared-later-call", "aa", 1, 0).ev("setld", 200).wait(100).ev("setld", 0).wait(200).ev("call", 0).ev("call", 1).wait(200).ev("conn", 0).done())
	out = append(out, newSB("fixed:accept-never-set-cleared", "a", 1, 0).ev("setld", 0).ev("call", 0).wait(300).ev("conn", 0).done())
	// D8: Accept reads its deadline once
	out = append(out, newSB("fixed:D8-accept-none-set", "a", 1, 0).ev("call", 0).wait(100).ev("setld", 300).done())
	out = append(out, newSB("fixed:D8-accept-set-later", "a", 1, 0).ev("setld", 300).ev("call", 0).wait(100).ev("setld", 700).done())
	out = append(out, newSB("fixed:accept-set-before", "a", 1, 0).ev("setld", 300).ev("call", 0).done())
	out = append(out, newSB("fixed:accept-conn", "aa", 1, 0).ev("call", 0).ev("call", 1).wait(100).ev("conn", 0).wait(100).ev("conn", 0).done())
	// D8: a deadline change wakes one of two waiters
	out = append(out, newSB("fixed:D8-multi-deadline-later", "rr", 1, 0).ev("setrd", 300).ev("call", 0).ev("call", 1).wait(100).ev("setrd", 700).done())
	out = append(out, newSB("fixed:D8-multi-deadline-earlier", "ww", 1, 1).ev("setwd", 700).ev("call", 0).ev("call", 1).wait(100).ev("setwd", 300).done())
	// close / error wake everybody; Close semantics
	out = append(out, newSB("fixed:close-wakes", "rrwwa", 1, 1).ev("call", 0).ev("call", 1).ev("call", 2).ev("call", 3).ev("call", 4).wait(100).ev("close", 0).ev("lclose", 0).done())
	out = append(out, newSB("fixed:sockerr-wakes", "rrwwaa", 1, 1).ev("call", 0).ev("call", 1).ev("call", 2).ev("call", 3).ev("call", 4).ev("call", 5).wait(100).ev("rerr", 0).ev("werr", 0).ev("lerr", 0).done())
	out = append(out, newSB("fixed:after-close", "rw", 2, 0).ev("arrive", 2).wait(100).ev("close", 0).ev("call", 1).ev("call", 0).wait(100).ev("call", 0).wait(100).ev("call", 0).ev("close", 0).done())
	return out
}

func pickKinds(g *hx.Rng, pool string, lo, hi int) string {
	n := lo + g.Intn(hi-lo+1)
	b := make([]byte, n)
	for i := range b {
		b[i] = pool[g.Intn(len(pool))]
	}
	return string(b)
}

var steps = []int{0, 0, 50, 100, 100, 200}

// a deadline value around the cursor: past, now, between grid points, later, far, or zero
func (b *sb) deadline(g *hx.Rng) int {
	switch g.Intn(8) {
	case 0:
		return 0
	case 1:
		return max(1, b.now-100)
	case 2:
		return max(1, b.now)
	case 3:
		return b.now + 50
	case 4:
		return b.now + 100
	case 5:
		return b.now + 150
	case 6:
		return b.now + 300
	}
	return b.now + 1000
}

func setOp(k byte) string {
	switch k {
	case 'r':
		return "setrd"
	case 'w':
		return "setwd"
	}
	return "setld"
}

func wakeOp(k byte) string {
	switch k {
	case 'r':
		return "arrive"
	case 'w':
		return "open"
	}
	return "conn"
}

// genSchedule: a schedule of one of the families below; in 60 % of those with reader slots the
// readers get buffers smaller than / equal to / larger than the messages (1 byte, half, exact,
// larger) and the datagrams carry messages of mixed sizes.
func genSchedule(g *hx.Rng) *schedule {
	sc := genBase(g)
	hasReader := false
	for _, k := range sc.kinds {
		if k == 'r' {
			hasReader = true
		}
	}
	if !hasReader || !g.Chance(60) {
		return sc
	}
	m := []int{2, 8, 8, 100, 200}[g.Intn(5)]
	bufs := []int{1, m / 2, m, m + 56}
	if m > 8 {
		bufs[0] = m / 4 // draining 200 bytes one by one would need 200 calls
	}
	sc.family += "+sizes"
	for i := range sc.evs {
		e := &sc.evs[i]
		switch {
		case e.op == "call" && e.a < len(sc.kinds) && sc.kinds[e.a] == 'r':
			e.b = bufs[g.Intn(len(bufs))]
		case e.op == "arrive":
			e.sz = make([]int, e.a)
			for j := range e.sz {
				e.sz[j] = m
				if g.Chance(25) {
					e.sz[j] = 1 + g.Intn(m)
				}
			}
		}
	}
	return sc
}

func genBase(g *hx.Rng) *schedule {
	switch f := g.Intn(108); {
	case f >= 100:
		// partial reads: several readers with small buffers, re-calls to drain what is left over
		m := []int{3, 8, 100}[g.Intn(3)]
		b := newSB("partial-read", pickKinds(g, "r", 2, 3), 1, 0)
		small := func() int { return []int{1, (m + 1) / 2, m - 1, m}[g.Intn(4)] }
		if m > 8 {
			small = func() int { return []int{m / 4, m / 2, m - 1, m}[g.Intn(4)] }
		}
		if g.Chance(30) {
			b.arr(m)
			b.wait(g.Pick(steps))
		}
		for i := range b.sc.kinds {
			if g.Chance(90) {
				b.callb(i, small())
			}
		}
		for n := 1 + g.Intn(5); n > 0; n-- {
			b.wait(g.Pick(steps))
			switch g.Intn(6) {
			case 0, 1:
				b.callb(g.Intn(len(b.sc.kinds)), small())
			case 2:
				b.arr()
			case 3:
				b.arr(m, m)
			default:
				b.arr(m)
			}
		}
		return b.done()
	case f < 25:
		// one caller, a sequence of deadline operations before and while it is blocked
		k := "rwa"[g.Intn(3)]
		b := newSB("deadline1:"+string(k), string(k), 1, 1)
		if g.Chance(50) {
			b.ev(setOp(k), b.deadline(g))
		}
		b.ev("call", 0)
		for n := 1 + g.Intn(4); n > 0; n-- {
			b.wait(g.Pick(steps))
			if k != 'a' && g.Chance(10) {
				b.ev("setd", b.deadline(g))
			} else {
				b.ev(setOp(k), b.deadline(g))
			}
		}
		if g.Chance(30) {
			b.wait(g.Pick(steps)).ev(wakeOp(k), 1)
		}
		return b.done()
	case f < 40:
		// several readers, data in datagrams of 0..3 messages
		b := newSB("multi-read", pickKinds(g, "r", 2, 3), 1, 0)
		for i := range b.sc.kinds {
			if g.Chance(85) {
				b.ev("call", i)
			}
		}
		for n := 1 + g.Intn(4); n > 0; n-- {
			b.wait(g.Pick(steps))
			switch g.Intn(6) {
			case 0:
				b.ev("call", g.Intn(len(b.sc.kinds)))
			case 1:
				b.ev("open", 0)
			default:
				b.ev("arrive", g.Intn(4))
			}
		}
		return b.done()
	case f < 52:
		// several writers, acknowledgements and update pumps
		wnd := 1 + g.Intn(3)
		b := newSB("multi-write", pickKinds(g, "w", 2, 3), wnd, wnd-g.Intn(2)*g.Intn(wnd+1))
		if b.sc.infl < 0 {
			b.sc.infl = 0
		}
		for i := range b.sc.kinds {
			if g.Chance(85) {
				b.ev("call", i)
			}
		}
		for n := 1 + g.Intn(5); n > 0; n-- {
			b.wait(g.Pick(steps))
			switch g.Intn(6) {
			case 0:
				b.ev("call", g.Intn(len(b.sc.kinds)))
			case 1, 2:
				b.ev("pump", 0)
			case 3:
				b.ev("arrive", g.Intn(2))
			default:
				b.ev("open", g.Intn(3))
			}
		}
		return b.done()
	case f < 60:
		b := newSB("multi-accept", pickKinds(g, "a", 2, 3), 1, 0)
		if g.Chance(30) {
			b.ev("setld", b.deadline(g))
		}
		for i := range b.sc.kinds {
			if g.Chance(85) {
				b.ev("call", i)
			}
		}
		for n := 1 + g.Intn(4); n > 0; n-- {
			b.wait(g.Pick(steps))
			switch g.Intn(5) {
			case 0:
				b.ev("call", g.Intn(len(b.sc.kinds)))
			case 1:
				b.ev("setld", b.deadline(g))
			default:
				b.ev("conn", 0)
			}
		}
		return b.done()
	case f < 72:
		// several callers of one kind and deadline changes
		k := "rw"[g.Intn(2)]
		b := newSB("multi-deadline:"+string(k), pickKinds(g, string(k), 2, 3), 1, 1)
		if g.Chance(60) {
			b.ev(setOp(k), b.deadline(g))
		}
		for i := range b.sc.kinds {
			b.ev("call", i)
		}
		for n := 1 + g.Intn(3); n > 0; n-- {
			b.wait(g.Pick(steps)).ev(setOp(k), b.deadline(g))
		}
		return b.done()
	case f < 86:
		// close and socket errors against blocked callers, calls after Close
		b := newSB("close-err", pickKinds(g, "rrwwa", 1, 5), 1+g.Intn(2), 0)
		b.sc.infl = b.sc.wnd
		if g.Chance(30) {
			b.ev("arrive", 1+g.Intn(3))
		}
		if g.Chance(30) {
			b.ev("setd", b.deadline(g))
		}
		for i := range b.sc.kinds {
			if g.Chance(80) {
				b.ev("call", i)
			}
		}
		ops := []string{"close", "close", "lclose", "rerr", "werr", "lerr", "close", "arrive", "call", "call", "call"}
		for n := 1 + g.Intn(6); n > 0; n-- {
			b.wait(g.Pick(steps))
			op := ops[g.Intn(len(ops))]
			switch op {
			case "call":
				b.ev(op, g.Intn(len(b.sc.kinds)))
			case "arrive":
				b.ev(op, g.Intn(3))
			default:
				b.ev(op, 0)
			}
		}
		return b.done()
	}
	// anything
	wnd := 1 + g.Intn(3)
	b := newSB("random", pickKinds(g, "rrrwwwaa", 1, 5), wnd, wnd-g.Intn(2))
	all := []string{"call", "call", "call", "arrive", "arrive", "open", "open", "pump", "setrd", "setwd", "setd", "setld", "conn", "close", "rerr", "werr", "lclose", "lerr"}
	for n := 3 + g.Intn(12); n > 0; n-- {
		b.wait(g.Pick(steps))
		op := all[g.Intn(len(all))]
		if (op == "close" || op == "rerr" || op == "werr" || op == "lclose" || op == "lerr") && g.Chance(60) {
			op = "call"
		}
		switch op {
		case "call":
			b.ev(op, g.Intn(len(b.sc.kinds)))
		case "arrive", "open":
			b.ev(op, g.Intn(4))
		case "setrd", "setwd", "setd", "setld":
			b.ev(op, b.deadline(g))
		default:
			b.ev(op, 0)
		}
	}
	return b.done()
}
