// Package wait: component `wait` (C13) — blocked Read / Write / Accept always wake.
//
// Real sessions and a real listener over an in-memory net.PacketConn, inside a testing/synctest
// bubble (virtual time, go1.26).  kcp.SystemTimedSched is replaced by an inert instance and
// update() is pumped by the harness as an explicit event.  A schedule is a list of events at
// virtual instants: calls of Read/Write/Accept by up to three callers per kind, datagram
// arrivals (data, duplicates, acknowledgements = window opening), update pumps, deadline
// operations, Close and socket errors.  After every event the harness waits until every
// goroutine is durably blocked (synctest.Wait — the "maximal progress" of the model) and logs
// which callers returned, when (virtual ms) and how.
//
// The log is the op file: the Lean LTS (driver `wait`) must accept it, and must predict every
// return time and error exactly (trace acceptance).  Independently, implementation-side oracles
// state the property on the real objects: nobody stays blocked while what he waits for holds,
// while his deadline has passed, after Close or after a socket error; no timeout before the
// deadline in force; Close semantics.  A goroutine that cannot be woken at the end of a
// schedule makes the bubble deadlock; that is recovered and reported as a Violation.
package wait

import (
	"encoding/binary"
	"errors"
	"fmt"
	"io"
	"net"
	"os"
	"sort"
	"strings"
	"sync/atomic"
	"testing"
	"testing/synctest"
	"time"

	kcp "github.com/xtaci/kcp-go/v5"
	"verif/harness/internal/hx"
)

// ---------------------------------------------------------------------------------------------
// in-memory PacketConn

type dgram struct {
	b    []byte // nil: ReadFrom returns an error (socket read error)
	from net.Addr
}

type memConn struct {
	ch     chan dgram
	closed chan struct{}
	once   atomic.Bool
	local  net.Addr
}

func newMem(port int) *memConn {
	return &memConn{ch: make(chan dgram, 256), closed: make(chan struct{}), local: &net.UDPAddr{IP: net.IPv4(10, 0, 0, 1), Port: port}}
}

var errInjectedRead = errors.New("injected socket read error")
var errInjectedWrite = errors.New("injected socket write error")

func (m *memConn) ReadFrom(p []byte) (int, net.Addr, error) {
	select {
	case d := <-m.ch:
		if d.b == nil {
			return 0, nil, errInjectedRead
		}
		return copy(p, d.b), d.from, nil
	case <-m.closed:
		return 0, nil, net.ErrClosed
	}
}
func (m *memConn) WriteTo(p []byte, a net.Addr) (int, error) { return len(p), nil }
func (m *memConn) Close() error {
	if m.once.CompareAndSwap(false, true) {
		close(m.closed)
	}
	return nil
}
func (m *memConn) LocalAddr() net.Addr              { return m.local }
func (m *memConn) SetDeadline(time.Time) error      { return nil }
func (m *memConn) SetReadDeadline(time.Time) error  { return nil }
func (m *memConn) SetWriteDeadline(time.Time) error { return nil }

// one KCP segment (24-byte header, kcp.go encode order: conv cmd frg wnd ts sn una len)
func seg(conv uint32, cmd byte, sn, una uint32, data []byte) []byte {
	b := make([]byte, kcp.IKCP_OVERHEAD+len(data))
	binary.LittleEndian.PutUint32(b, conv)
	b[4] = cmd
	b[5] = 0
	binary.LittleEndian.PutUint16(b[6:], 128)
	binary.LittleEndian.PutUint32(b[8:], 0)
	binary.LittleEndian.PutUint32(b[12:], sn)
	binary.LittleEndian.PutUint32(b[16:], una)
	binary.LittleEndian.PutUint32(b[20:], uint32(len(data)))
	copy(b[kcp.IKCP_OVERHEAD:], data)
	return b
}

func errKind(err error) string {
	if err == nil {
		return "ok"
	}
	var ne net.Error
	if errors.As(err, &ne) && ne.Timeout() {
		return "timeout"
	}
	if errors.Is(err, io.ErrClosedPipe) {
		return "closed"
	}
	if errors.Is(err, errInjectedRead) || errors.Is(err, errInjectedWrite) {
		return "sockerr"
	}
	return "other:" + err.Error()
}

// ---------------------------------------------------------------------------------------------
// schedules

type event struct {
	at int    // virtual ms
	op string // call arrive open pump setrd setwd setd setld close rerr werr conn lclose lerr
	a  int    // caller index / count / deadline (0 = zero time)
	b  int    // call of a reader: len of the Read buffer (0 = 64)
	sz []int  // arrive: sizes of the messages in the datagram (nil = a messages of 8 bytes)
}

func (e event) sizes() []int {
	if e.sz != nil || e.op != "arrive" {
		return e.sz
	}
	out := make([]int, e.a)
	for i := range out {
		out[i] = 8
	}
	return out
}

func (e event) buflen() int {
	if e.b == 0 {
		return 64
	}
	return e.b
}

type schedule struct {
	family string
	kinds  []byte // caller slots: 'r', 'w', 'a'
	wnd    int
	infl   int // segments in flight before the schedule starts (infl = wnd: writers block)
	evs    []event
}

func (sc *schedule) String() string {
	var sb strings.Builder
	fmt.Fprintf(&sb, "%s kinds=%s wnd=%d infl=%d:", sc.family, string(sc.kinds), sc.wnd, sc.infl)
	for _, e := range sc.evs {
		switch {
		case e.op == "arrive":
			fmt.Fprintf(&sb, " @%d arrive %v;", e.at, e.sizes())
		case e.op == "call" && e.a < len(sc.kinds) && sc.kinds[e.a] == 'r':
			fmt.Fprintf(&sb, " @%d call %d buf=%d;", e.at, e.a, e.buflen())
		default:
			fmt.Fprintf(&sb, " @%d %s %d;", e.at, e.op, e.a)
		}
	}
	return sb.String()
}

const conv = 0x1234

type caller struct {
	kind   byte
	active bool
	done   atomic.Bool
	ret    string
	at     int64
	n      int // bytes a successful Read returned
	// facts about the current call, for classifying violations
	startAt       int
	cellAtStart   int  // deadline cell when the call started (0 = none)
	clearedInCall bool // a zero deadline was stored while this call was blocked
	afterClose    bool // the call started after Close / listener Close
	dataAtCall    bool
	soleAtCall    bool
	startSeq      int  // x.seq when the call started
	multiAtChange bool // ≥ 2 callers of this kind were blocked at the last deadline change
	changedAt     int  // instant of the last deadline change seen by this call (-1 none)
}

type runner struct {
	arrivals int // datagrams delivered by "arrive" (every third one gets a damaged tail)
	o     *hx.Out
	sc    *schedule
	async bool
	lines []string
	t0    time.Time

	mc, lc   *memConn
	s        *kcp.UDPSession
	l        *kcp.Listener
	remote   *net.UDPAddr
	accepted chan *kcp.UDPSession

	cs      []*caller
	rcell   int // deadline cells as last stored by the harness (0 = zero time)
	wcell   int
	lcell   int
	seq     int          // events performed so far
	chgSeq  map[byte]int // per kind: seq of the last deadline change
	rchg    int          // instant of last change
	wchg    int
	lchg    int
	nextSn  uint32 // next data sn to deliver to the session
	acked   uint32 // segments of the session acknowledged so far
	written uint32 // segments written by the session
	closed  bool
	rerr    bool
	werr    bool
	lclosed bool
	lerr    bool
	peers   int
	lastAdv int
	viols   int
}

func (x *runner) nowMs() int { return int(time.Since(x.t0) / time.Millisecond) }

func (x *runner) op(line, obs string) {
	x.lines = append(x.lines, line)
	x.o.Op(line, obs)
}

// hx keeps the first 20 violations of a run; the recorded findings (D8) would fill them and hide
// anything new, so only the first violation of each kind is reported (all are counted).
var reportedKinds = map[string]bool{}

func (x *runner) viol(kind, detail string) {
	x.viols++
	x.o.Count("violation:" + kind)
	if reportedKinds[kind] {
		return
	}
	reportedKinds[kind] = true
	rep := append([]string{"schedule: " + x.sc.String(), "log up to the violation:"}, x.lines...)
	x.o.Violate(hx.Violation{Kind: kind, Detail: detail, Replay: rep})
}

func (x *runner) cellOf(k byte) (int, int) {
	switch k {
	case 'r':
		return x.rcell, x.rchg
	case 'w':
		return x.wcell, x.wchg
	}
	return x.lcell, x.lchg
}

func (x *runner) blockedOfKind(k byte) int {
	n := 0
	for _, c := range x.cs {
		if c.kind == k && c.active && !c.done.Load() {
			n++
		}
	}
	return n
}

func (x *runner) deadline(ms int) time.Time {
	if ms == 0 {
		return time.Time{}
	}
	return x.t0.Add(time.Duration(ms) * time.Millisecond)
}

func dl(ms int) string {
	if ms == 0 {
		return "-"
	}
	return fmt.Sprint(ms)
}

// collect logs the callers that have returned since the last call (ascending index) and runs the
// oracles that concern a return.
func (x *runner) collect() (returned int) {
	now := x.nowMs()
	for i, c := range x.cs {
		if !c.active || !c.done.Load() {
			continue
		}
		c.active = false
		returned++
		x.o.Count(fmt.Sprintf("ret:%c:%s", c.kind, strings.SplitN(c.ret, ":", 2)[0]))
		x.op(fmt.Sprintf("ret %d %d %s %d", i, c.at, c.ret, c.n), "ok")
		cell, chg := x.cellOf(c.kind)
		switch {
		case strings.HasPrefix(c.ret, "other:"):
			x.viol("wait-unexpected-error", fmt.Sprintf("caller %d (%c) returned %q", i, c.kind, c.ret))
		case c.ret == "timeout":
			// never before the deadline in force
			// (a change at the very instant of the return races legitimately, but only if it
			// happened while this call was running)
			raced := chg == int(c.at) && x.chgSeq[c.kind] > c.startSeq
			if !raced && (cell == 0 || int(c.at) < cell) {
				kind := "wait-timeout-early"
				if c.kind == 'a' && x.chgSeq['a'] > c.startSeq {
					kind = "wait-accept-deadline" // D8: changed while Accept was blocked
				} else if c.kind == 'a' {
					kind = "wait-accept-early-timeout" // the value read at entry was not honoured
				} else if c.multiAtChange {
					kind = "wait-multi-deadline"
				}
				x.viol(kind, fmt.Sprintf("caller %d (%c) timed out at +%dms but the deadline in force is %s (set at +%dms)", i, c.kind, c.at, dl(cell), chg))
			}
		case c.ret == "ok" && c.kind == 'w' && c.afterClose:
			x.viol("wait-write-after-close", fmt.Sprintf("caller %d: Write called after Close returned nil", i))
		case c.ret == "closed" && c.kind == 'r' && c.afterClose && c.dataAtCall && c.soleAtCall:
			x.viol("wait-read-after-close", fmt.Sprintf("caller %d: Read after Close returned ErrClosedPipe although received data was readable", i))
		}
		_ = now
	}
	return returned
}

// stuck runs the oracles that concern callers still blocked (all goroutines are durably blocked).
func (x *runner) stuck(afterOp string, returned int) {
	now := x.nowMs()
	peek, bufptr, waitsnd, sndwnd := 0, 0, 0, 0
	if x.s != nil {
		peek, bufptr, waitsnd, sndwnd = kcp.VerifWaitState(x.s)
	}
	for i, c := range x.cs {
		if !c.active || c.done.Load() {
			continue
		}
		cell, _ := x.cellOf(c.kind)
		switch c.kind {
		case 'r':
			if peek > 0 || bufptr > 0 {
				kind := "wait-lost-wakeup"
				if x.countKind('r') >= 2 {
					kind = "wait-multireader-stuck"
				}
				x.viol(kind, fmt.Sprintf("after %q at +%dms: Read caller %d is blocked although PeekSize()=%d, len(bufptr)=%d", afterOp, now, i, peek, bufptr))
			}
			if x.closed {
				x.viol("wait-close-stuck", fmt.Sprintf("after %q at +%dms: Read caller %d is blocked on a closed session", afterOp, now, i))
			}
			if x.rerr {
				x.viol("wait-sockerr-stuck", fmt.Sprintf("after %q at +%dms: Read caller %d is blocked after a socket read error", afterOp, now, i))
			}
		case 'w':
			if (afterOp == "pump" || afterOp == "open" || afterOp == "arrive") && !x.closed && waitsnd < sndwnd && returned == 0 {
				x.viol("wait-writer-stuck", fmt.Sprintf("after %q at +%dms: Write caller %d is blocked although WaitSnd()=%d < snd_wnd=%d and nobody was woken", afterOp, now, i, waitsnd, sndwnd))
			}
			if x.closed {
				x.viol("wait-close-stuck", fmt.Sprintf("after %q at +%dms: Write caller %d is blocked on a closed session", afterOp, now, i))
			}
			if x.werr {
				x.viol("wait-sockerr-stuck", fmt.Sprintf("after %q at +%dms: Write caller %d is blocked after a socket write error", afterOp, now, i))
			}
		case 'a':
			if kcp.VerifWaitBacklog(x.l) > 0 {
				x.viol("wait-accept-stuck", fmt.Sprintf("after %q at +%dms: Accept caller %d is blocked although %d sessions wait in the backlog", afterOp, now, i, kcp.VerifWaitBacklog(x.l)))
			}
			if x.lclosed {
				x.viol("wait-close-stuck", fmt.Sprintf("after %q at +%dms: Accept caller %d is blocked on a closed listener", afterOp, now, i))
			}
			if x.lerr {
				x.viol("wait-sockerr-stuck", fmt.Sprintf("after %q at +%dms: Accept caller %d is blocked after a socket read error", afterOp, now, i))
			}
		}
		if cell != 0 && now >= cell {
			kind := "wait-deadline-missed"
			switch {
			case c.kind == 'a' && x.chgSeq['a'] > c.startSeq:
				kind = "wait-accept-deadline" // D8
			case c.kind == 'a':
				kind = "wait-accept-deadline-missed"
			case c.multiAtChange:
				kind = "wait-multi-deadline"
			case c.clearedInCall:
				kind = "wait-deadline-reset"
			case c.cellAtStart == 0:
				kind = "wait-deadline-lateset"
			}
			x.viol(kind, fmt.Sprintf("after %q at +%dms: caller %d (%c, called at +%dms with deadline %s) is still blocked although the deadline in force is +%dms", afterOp, now, i, c.kind, c.startAt, dl(c.cellAtStart), cell))
		}
	}
}

func (x *runner) countKind(k byte) int {
	n := 0
	for _, c := range x.sc.kinds {
		if c == k {
			n++
		}
	}
	return n
}

func (x *runner) noteChange(k byte, v int) {
	now := x.nowMs()
	n := x.blockedOfKind(k)
	for _, c := range x.cs {
		if c.kind == k && c.active && !c.done.Load() {
			c.changedAt = now
			c.multiAtChange = n >= 2
			if v == 0 {
				c.clearedInCall = true
			}
		}
	}
}

func (x *runner) startCall(i int, buflen int) {
	c := x.cs[i]
	c.active = true
	c.n = 0
	c.startSeq = x.seq
	c.done.Store(false)
	c.startAt = x.nowMs()
	c.cellAtStart, _ = x.cellOf(c.kind)
	c.clearedInCall, c.multiAtChange, c.changedAt = false, false, -1
	switch c.kind {
	case 'r', 'w':
		c.afterClose = x.closed
	default:
		c.afterClose = x.lclosed
	}
	if x.s != nil {
		peek, bufptr, _, _ := kcp.VerifWaitState(x.s)
		c.dataAtCall = peek > 0 || bufptr > 0
	}
	c.soleAtCall = x.blockedOfKind(c.kind) == 1 // itself
	t0 := x.t0
	switch c.kind {
	case 'r':
		go func() {
			buf := make([]byte, buflen)
			n, err := x.s.Read(buf)
			c.n = n
			c.ret, c.at = errKind(err), int64(time.Since(t0)/time.Millisecond)
			c.done.Store(true)
		}()
	case 'w':
		go func() {
			_, err := x.s.Write([]byte("8 bytes."))
			if err == nil {
				atomic.AddUint32(&x.written, 1)
			}
			c.ret, c.at = errKind(err), int64(time.Since(t0)/time.Millisecond)
			c.done.Store(true)
		}()
	case 'a':
		go func() {
			s, err := x.l.AcceptKCP()
			if s != nil {
				x.accepted <- s
			}
			c.ret, c.at = errKind(err), int64(time.Since(t0)/time.Millisecond)
			c.done.Store(true)
		}()
	}
}

// do performs one event on the real objects; returns the op line and observation ("" = skipped).
func (x *runner) do(e event) (line, obs string) {
	obs = "ok"
	switch e.op {
	case "call":
		if e.a >= len(x.cs) || x.cs[e.a].active {
			return "", ""
		}
		bl := 0
		if x.cs[e.a].kind == 'r' {
			bl = e.buflen()
		}
		x.startCall(e.a, bl)
		return fmt.Sprintf("call %d %d", e.a, bl), obs
	case "arrive":
		if x.s == nil || x.closed || x.rerr {
			return "", ""
		}
		var b []byte
		szs := e.sizes()
		if len(szs) == 0 {
			// a duplicate (or, before any data, a bare acknowledgement): nothing new is readable
			if x.nextSn > 0 {
				b = seg(conv, kcp.IKCP_CMD_PUSH, x.nextSn-1, x.acked, []byte("dup"))
			} else {
				b = seg(conv, kcp.IKCP_CMD_WINS, 0, x.acked, nil)
			}
		}
		line := "arrive"
		for _, m := range szs {
			payload := make([]byte, m)
			copy(payload, fmt.Sprintf("msg%05d", x.nextSn))
			b = append(b, seg(conv, kcp.IKCP_CMD_PUSH, x.nextSn, x.acked, payload)...)
			x.nextSn++
			line += fmt.Sprintf(" %d", m)
		}
		// every third datagram carries a damaged tail behind its valid segments (a truncated header, or a
		// segment of another conversation): Input reports an error for the datagram, but what it had
		// already taken is readable and the waiters must hear about it — same event for the model
		x.arrivals++
		switch x.arrivals % 6 {
		case 2:
			b = append(b, seg(conv, kcp.IKCP_CMD_PUSH, x.nextSn, x.acked, []byte("cut"))[:17]...)
		case 5:
			b = append(b, seg(conv+1, kcp.IKCP_CMD_PUSH, x.nextSn, x.acked, []byte("foreign"))...)
		}
		x.mc.ch <- dgram{b, x.remote}
		return line, obs
	case "open":
		if x.s == nil || x.closed || x.rerr {
			return "", ""
		}
		inflight := atomic.LoadUint32(&x.written) - x.acked
		j := uint32(e.a)
		if j > inflight {
			j = inflight
		}
		x.acked += j
		// the frame acknowledges through una only: its own sn is below una (already gone).
		// With nothing acknowledged yet there is no such sn (an ACK for sn 0 would acknowledge
		// segment 0 individually, which the model's `open 0` does not do): a WINS frame runs
		// the same una processing and notifications and acknowledges nothing.
		cmd, sn := byte(kcp.IKCP_CMD_ACK), uint32(0)
		if x.acked > 0 {
			sn = x.acked - 1
		} else {
			cmd = kcp.IKCP_CMD_WINS
		}
		x.mc.ch <- dgram{seg(conv, cmd, sn, x.acked, nil), x.remote}
		return fmt.Sprintf("open %d", j), obs
	case "pump":
		if x.s == nil {
			return "", ""
		}
		kcp.VerifWaitUpdate(x.s)
		return "pump", obs
	case "setrd":
		if x.s == nil {
			return "", ""
		}
		x.rcell, x.rchg = e.a, x.nowMs()
		x.chgSeq['r'] = x.seq
		x.noteChange('r', e.a)
		x.s.SetReadDeadline(x.deadline(e.a))
		return "setrd " + dl(e.a), obs
	case "setwd":
		if x.s == nil {
			return "", ""
		}
		x.wcell, x.wchg = e.a, x.nowMs()
		x.chgSeq['w'] = x.seq
		x.noteChange('w', e.a)
		x.s.SetWriteDeadline(x.deadline(e.a))
		return "setwd " + dl(e.a), obs
	case "setd":
		if x.s == nil {
			return "", ""
		}
		x.rcell, x.rchg, x.wcell, x.wchg = e.a, x.nowMs(), e.a, x.nowMs()
		x.chgSeq['r'], x.chgSeq['w'] = x.seq, x.seq
		x.noteChange('r', e.a)
		x.noteChange('w', e.a)
		x.s.SetDeadline(x.deadline(e.a))
		return "setd " + dl(e.a), obs
	case "setld":
		if x.l == nil {
			return "", ""
		}
		x.lcell, x.lchg = e.a, x.nowMs()
		x.chgSeq['a'] = x.seq
		x.noteChange('a', e.a)
		x.l.SetReadDeadline(x.deadline(e.a))
		return "setld " + dl(e.a), obs
	case "close":
		if x.s == nil {
			return "", ""
		}
		was := x.closed
		err := x.s.Close()
		x.closed = true
		obs = errKind(err)
		if was && err == nil {
			x.viol("wait-close-twice", "a second Close() returned nil")
		}
		if !was && err != nil {
			x.viol("wait-close-first", "the first Close() returned "+err.Error())
		}
		return "close", obs
	case "rerr":
		if x.s == nil || x.rerr || x.closed {
			return "", ""
		}
		x.rerr = true
		x.mc.ch <- dgram{nil, nil}
		return "rerr", obs
	case "werr":
		if x.s == nil || x.werr {
			return "", ""
		}
		x.werr = true
		kcp.VerifWaitNotifyWriteError(x.s, errInjectedWrite)
		return "werr", obs
	case "conn":
		if x.l == nil || x.lerr || x.peers >= 100 {
			return "", ""
		}
		x.peers++
		from := &net.UDPAddr{IP: net.IPv4(10, 0, 1, byte(x.peers)), Port: 4000 + x.peers}
		x.lc.ch <- dgram{seg(uint32(0x9000+x.peers), kcp.IKCP_CMD_PUSH, 0, 0, []byte("hello")), from}
		return "conn", obs
	case "lclose":
		if x.l == nil {
			return "", ""
		}
		was := x.lclosed
		err := x.l.Close()
		x.lclosed = true
		obs = errKind(err)
		if was && err == nil {
			x.viol("wait-close-twice", "a second Listener.Close() returned nil")
		}
		return "lclose", obs
	case "lerr":
		if x.l == nil || x.lerr {
			return "", ""
		}
		x.lerr = true
		x.lc.ch <- dgram{nil, nil}
		return "lerr", obs
	}
	return "", ""
}

func (x *runner) event(e event) {
	x.seq++
	line, obs := x.do(e)
	if line == "" {
		x.o.Count("skipped:" + e.op)
		return
	}
	x.o.Count("op:" + e.op)
	synctest.Wait()
	x.op(line, obs)
	n := x.collect()
	x.stuck(e.op, n)
}

// body runs inside the bubble.
func (x *runner) body() {
	sc := x.sc
	x.t0 = time.Now()
	kcp.VerifWaitSetRefTime(x.t0)
	// truly inert scheduler: the zero value has no goroutines and nil channels, Put only appends
	kcp.SystemTimedSched = &kcp.TimedSched{}

	needS, needL := sc.infl > 0, false
	for _, k := range sc.kinds {
		if k == 'a' {
			needL = true
		} else {
			needS = true
		}
	}
	x.remote = &net.UDPAddr{IP: net.IPv4(10, 0, 0, 2), Port: 2}
	x.accepted = make(chan *kcp.UDPSession, 256)
	if needS {
		x.mc = newMem(1)
		x.s, _ = kcp.NewConn3(conv, x.remote, nil, 0, 0, x.mc)
		x.s.SetNoDelay(1, 10, 2, 1)
		x.s.SetWindowSize(sc.wnd, 128)
		for i := 0; i < sc.infl; i++ {
			x.s.Write([]byte("prefill."))
			x.written++
		}
	}
	if needL {
		x.lc = newMem(3)
		x.l, _ = kcp.ServeConn(nil, 0, 0, x.lc)
	}
	for _, k := range sc.kinds {
		x.cs = append(x.cs, &caller{kind: k, changedAt: -1})
	}
	x.rchg, x.wchg, x.lchg = -1, -1, -1
	x.chgSeq = map[byte]int{}
	synctest.Wait()

	x.lastAdv = -1
	advance := func(t int) {
		if d := t - x.nowMs(); d > 0 {
			time.Sleep(time.Duration(d) * time.Millisecond)
		}
		synctest.Wait()
		if now := x.nowMs(); now != x.lastAdv {
			x.lastAdv = now
			x.op(fmt.Sprintf("adv %d", now), "ok")
			n := x.collect()
			x.stuck("adv", n)
		}
	}
	last := 0
	for _, e := range sc.evs {
		advance(e.at)
		x.event(e)
		last = e.at
	}
	// let every deadline in force pass, then state who is still blocked
	end := last
	for _, c := range []int{x.rcell, x.wcell, x.lcell} {
		if c > end {
			end = c
		}
	}
	advance(end + 100)
	for i, c := range x.cs {
		if c.active && !c.done.Load() {
			x.o.Count(fmt.Sprintf("blocked-at-end:%c", c.kind))
			x.op(fmt.Sprintf("blocked %d", i), "ok")
		}
	}
	// shutdown is part of the schedule: Close must wake everybody who is still blocked
	if x.s != nil {
		if !x.closed {
			x.event(event{op: "close"})
		}
	}
	if x.l != nil {
		if !x.lclosed {
			x.event(event{op: "lclose"})
		}
	}
	x.op("end", "ok")
	// release what the schedule created (not logged)
	if x.l != nil {
		for kcp.VerifWaitBacklog(x.l) > 0 {
			if s, _ := x.l.AcceptKCP(); s != nil {
				s.Close()
			}
		}
	}
	for len(x.accepted) > 0 {
		(<-x.accepted).Close()
	}
	if x.mc != nil {
		x.mc.Close()
	}
	if x.lc != nil {
		x.lc.Close()
	}
}

func runSchedule(t *testing.T, o *hx.Out, sc *schedule, async bool) {
	x := &runner{o: o, sc: sc, async: async}
	o.Case(hx.HashKey(sc.String()))
	o.Count("family:" + sc.family)
	o.Count(fmt.Sprintf("callers:%d", len(sc.kinds)))
	a := 0
	if async {
		a = 1
	}
	ks := make([]string, len(sc.kinds))
	for i, k := range sc.kinds {
		ks[i] = string(k)
	}
	x.op(fmt.Sprintf("case %s %d %d %d %s", hx.HashKey(sc.String()), a, sc.wnd, sc.infl, strings.Join(ks, " ")), "ok")
	saved := kcp.SystemTimedSched
	defer func() {
		kcp.SystemTimedSched = saved
		if r := recover(); r != nil {
			msg := fmt.Sprint(r)
			if strings.Contains(msg, "deadlock") {
				var who []string
				for i, c := range x.cs {
					if c.active && !c.done.Load() {
						who = append(who, fmt.Sprintf("%d(%c)", i, c.kind))
					}
				}
				sort.Strings(who)
				x.viol("wait-deadlock", fmt.Sprintf("bubble deadlock (%s): callers %v can never be woken", msg, who))
			} else {
				x.viol("wait-panic", "panic: "+msg)
			}
		}
	}()
	synctest.Test(t, func(t *testing.T) { x.body() })
}

// ---------------------------------------------------------------------------------------------

// acceptedSocketError (C13, "a blocked Read returns when the socket reports an error", accepted
// sessions): an accepted session has no read loop of its own, it learns about a dead socket from the
// listener's monitor loop — also when the listener itself was closed before the socket failed
// (ServeConn: Close leaves the socket to its owner).  Its own bubble; no op lines (the monitor loop
// is not part of the wait model), verdict on the implementation side only.
func acceptedSocketError(t *testing.T, o *hx.Out, closeListenerFirst, blockedWrite bool) {
	name := fmt.Sprintf("accepted-sockerr listener-closed-first=%v write=%v", closeListenerFirst, blockedWrite)
	o.Count("extra:" + name)
	viol := func(kind, detail string) {
		o.Violate(hx.Violation{Kind: kind, Detail: name + ": " + detail, Replay: []string{"ServeConn over an in-memory conn; one datagram (PUSH sn 0) -> Accept -> Read it; a second Read blocks; " +
			map[bool]string{true: "Listener.Close(); ", false: ""}[closeListenerFirst] + "the conn's ReadFrom returns an error; 1 s later the Read must have returned"}})
	}
	saved := kcp.SystemTimedSched
	defer func() {
		kcp.SystemTimedSched = saved
		if r := recover(); r != nil {
			viol("wait-sockerr-stuck", fmt.Sprint("bubble ended with: ", r))
		}
	}()
	synctest.Test(t, func(t *testing.T) {
		kcp.SystemTimedSched = &kcp.TimedSched{}
		lc := newMem(3)
		l, _ := kcp.ServeConn(nil, 0, 0, lc)
		lc.ch <- dgram{seg(0x9001, kcp.IKCP_CMD_PUSH, 0, 0, []byte("hello")), &net.UDPAddr{IP: net.IPv4(10, 0, 1, 1), Port: 4001}}
		synctest.Wait()
		l.SetReadDeadline(time.Now().Add(time.Second))
		s, err := l.AcceptKCP()
		if err != nil {
			viol("wait-accept-stuck", "Accept returned "+err.Error())
			l.Close()
			lc.Close()
			return
		}
		buf := make([]byte, 16)
		s.Read(buf)
		var done atomic.Bool
		go func() { s.Read(buf); done.Store(true) }()
		synctest.Wait()
		if closeListenerFirst {
			l.Close()
			synctest.Wait()
		}
		lc.ch <- dgram{nil, nil} // the socket fails
		synctest.Wait()
		time.Sleep(time.Second)
		synctest.Wait()
		if !done.Load() {
			viol("wait-sockerr-stuck", "a Read blocked on the accepted session is still blocked 1 s after the listener's socket reported a read error")
		}
		s.Close()
		l.Close()
		lc.Close()
		synctest.Wait()
	})
}

// Run never returns: synctest needs a *testing.T, which a normal binary gets through
// testing.Main, and testing.Main exits the process.  Results are written before that.
func Run(o *hx.Out, g *hx.Rng, tier string) {
	async := strings.Contains(os.Getenv("GODEBUG"), "asynctimerchan=1")
	// hx.NewRng(k) is hx.NewRng(1) advanced by k-1 draws; Fork hashes, which decorrelates the seeds
	g = g.Fork()
	test := func(t *testing.T) {
		n := 8000
		if tier == "thorough" {
			n = 150000
		}
		o.Res.Rule = "distinct = distinct schedules (hash of the event list); every schedule blocks at least one real caller"
		o.Note(fmt.Sprintf("go %s, testing/synctest bubble per schedule, asynctimerchan=%v, SystemTimedSched inert, update pumped by hand", "1.26", async))
		for _, sc := range fixedSchedules() {
			runSchedule(t, o, sc, async)
		}
		acceptedSocketError(t, o, false, false)
		acceptedSocketError(t, o, true, false)
		for i := 0; i < n; i++ {
			runSchedule(t, o, genSchedule(g.Fork()), async)
		}
		o.Close()
	}
	testing.Main(func(pat, str string) (bool, error) { return true, nil },
		[]testing.InternalTest{{Name: "wait", F: test}}, nil, nil)
}
