package sessout

import (
	"fmt"
	"net"
	"strings"
	"sync"
	"time"

	kcp "github.com/xtaci/kcp-go/v5"
	"verif/harness/internal/hx"
)

// ---------------------------------------------------------------------------------------------
// recording in-memory PacketConn

type fakeAddr string

func (a fakeAddr) Network() string { return "mem" }
func (a fakeAddr) String() string  { return string(a) }

type rconn struct {
	mu     sync.Mutex
	local  fakeAddr
	out    [][]byte // every buffer that reached WriteTo (copies), in order
	closed chan struct{}
	once   sync.Once
}

func newRconn(name string) *rconn { return &rconn{local: fakeAddr(name), closed: make(chan struct{})} }

func (c *rconn) WriteTo(p []byte, addr net.Addr) (int, error) {
	c.mu.Lock()
	c.out = append(c.out, append([]byte(nil), p...))
	c.mu.Unlock()
	return len(p), nil
}
func (c *rconn) ReadFrom(p []byte) (int, net.Addr, error) {
	<-c.closed
	return 0, nil, net.ErrClosed
}
func (c *rconn) Close() error                       { c.once.Do(func() { close(c.closed) }); return nil }
func (c *rconn) LocalAddr() net.Addr                { return c.local }
func (c *rconn) SetDeadline(t time.Time) error      { return nil }
func (c *rconn) SetReadDeadline(t time.Time) error  { return nil }
func (c *rconn) SetWriteDeadline(t time.Time) error { return nil }
func (c *rconn) take() [][]byte {
	c.mu.Lock()
	defer c.mu.Unlock()
	o := c.out
	c.out = nil
	return o
}

// ---------------------------------------------------------------------------------------------
// counting entropy source: the k-th Read returns le64(k) ‖ A5… cut to the requested length

type countingEntropy struct {
	mu sync.Mutex
	n  uint64
}

func (e *countingEntropy) Read(p []byte) (int, error) {
	e.mu.Lock()
	k := e.n
	e.n++
	e.mu.Unlock()
	for i := range p {
		if i < 8 {
			p[i] = byte(k >> (8 * uint(i)))
		} else {
			p[i] = 0xA5
		}
	}
	return len(p), nil
}

// ---------------------------------------------------------------------------------------------

type config struct {
	ci       cipherSpec
	d, p     int
	counting bool // counting entropy (nonces predictable, `post` lines emitted) or the package's real source
	conv     uint32
	sndwnd   int
	rcvwnd   int
	nodelay  [4]int
	stream   bool
	ackND    bool
	wdelay   bool
	clock0   uint32 // where the 32-bit millisecond clock starts
}

func (c config) fecOn() bool { return c.d > 0 && c.p > 0 && c.d+c.p <= 256 }
func (c config) String() string {
	return fmt.Sprintf("%s fec=%d/%d counting=%v wnd=%d/%d nd=%v stream=%v acknd=%v wdelay=%v clock0=%d",
		c.ci.name, c.d, c.p, c.counting, c.sndwnd, c.rcvwnd, c.nodelay, c.stream, c.ackND, c.wdelay, c.clock0)
}

type dg struct {
	wire []byte
	oob  bool
}

type request struct {
	oob  bool
	body []byte
	size int // size argument of the output callback (tap) — may differ from len(body) on a defect
}

type endpoint struct {
	name     string
	sess     *kcp.UDPSession
	conn     *rconn
	peer     *endpoint
	dead     bool   // aborted after a recovered panic
	vetoed   bool   // the harness stopped the session before an unrecoverable panic of the real code
	capacity string // why
	closing  bool   // Close was called: the output callback may drop packets (die is closed), best effort only

	reqs    []request // requests produced since the last collect
	written []byte
	got     []byte // stream read by this side
	mtu     int    // session MTU in force (min(1500, last accepted argument))
	coreMtu int
	hs      int

	outq []dg // datagrams on their way to the peer

	re       reassembler
	ids      map[uint32]int
	nonces   map[string]int
	dgrams   map[uint64]int
	nDgram   int
	nNonOOB  int
	nonOOBH  uint64 // running hash over (kind, id, len, body-behind-nonce) of non-OOB datagrams
	lastCtr  int64
	shrinkQ  bool // an accepted shrink happened while segments were queued (D2 window)
	shrinkG  bool // an accepted shrink happened inside an open FEC group (D11 window)
	oobSent  [][]byte
	oobGot   [][]byte
	handler  int // 0 never set, 1 set, 2 set to nil
	recvDgr  int
	oobDeliv int
}

type world struct {
	o      *hx.Out
	g      *hx.Rng
	cfg    config
	key    []byte
	A, B   *endpoint
	ent    *countingEntropy
	replay []string
	nviol  int
	post   bool // emit `post` lines (needs counting entropy)
}

func (w *world) op(line, obs string) {
	w.o.Op(line, obs)
	if len(w.replay) < 4000 {
		w.replay = append(w.replay, line)
	}
}

// expected genuine findings (DESIGN D2, D11) are reported a few times per run only, so that they
// cannot fill the violation list and hide anything else
var knownKindCount = map[string]int{}

// tooMany tells the generators to stop exploring: enough unexpected violations were recorded
// (going on risks an unrecoverable panic of the real code in one of its own goroutines, which
// would lose the concrete failing inputs already found).
func tooMany(o *hx.Out) bool {
	n := 0
	for _, v := range o.Res.Violations {
		if v.Kind != "mtu-parity-after-shrink" && v.Kind != "mtu-shrink-queued" {
			n++
		}
	}
	return n >= 4
}

func (w *world) viol(kind, detail string) {
	if kind == "mtu-parity-after-shrink" || kind == "mtu-shrink-queued" {
		knownKindCount[kind]++
		if knownKindCount[kind] > 3 {
			return
		}
	}
	w.nviol++
	if w.nviol > 3 {
		return
	}
	rp := append([]string{"config: " + w.cfg.String()}, w.replay...)
	if len(rp) > 600 {
		rp = append(rp[:1:1], rp[len(rp)-599:]...)
	}
	w.o.Violate(hx.Violation{Kind: kind, Detail: detail, Replay: rp})
}

func (w *world) ep(name string) *endpoint {
	if name == "A" {
		return w.A
	}
	return w.B
}

var realEntropy = kcp.NewEntropy()

var coreRuleOnce sync.Once
var coreRuleV string

// coreRule probes which KCP.SetMtu the working tree has: the original one ("orig": accepts every
// value above the header size) or the repaired one ("fixed": also refuses a value below the size
// of a segment already queued).  The model is told, so that the session arithmetic is compared
// against the right core.
func coreRule() string {
	coreRuleOnce.Do(func() {
		k := kcp.NewKCP(1, func([]byte, int) {})
		k.Send(make([]byte, 100))
		coreRuleV = "orig"
		if k.SetMtu(50) != 0 {
			coreRuleV = "fixed"
		}
	})
	return coreRuleV
}

func newWorld(o *hx.Out, g *hx.Rng, cfg config) *world {
	w := &world{o: o, g: g, cfg: cfg, key: g.Bytes(32), post: cfg.counting}
	if cfg.counting {
		w.ent = &countingEntropy{}
		kcp.SetEntropy(w.ent)
	} else {
		kcp.SetEntropy(realEntropy)
	}
	// the package clock: currentMs() = time.Since(refTime); inside the bubble time is virtual
	kcp.VerifSOSetRefTime(time.Now().Add(-time.Duration(cfg.clock0) * time.Millisecond))
	mk := func(name, peer string) *endpoint {
		e := &endpoint{name: name, conn: newRconn(name), ids: map[uint32]int{}, nonces: map[string]int{}, dgrams: map[uint64]int{}, lastCtr: -1}
		s, err := kcp.NewConn3(cfg.conv, fakeAddr(peer), cfg.ci.make(w.key), cfg.d, cfg.p, e.conn)
		if err != nil {
			panic(err)
		}
		e.sess = s
		s.SetWindowSize(cfg.sndwnd, cfg.rcvwnd)
		s.SetNoDelay(cfg.nodelay[0], cfg.nodelay[1], cfg.nodelay[2], cfg.nodelay[3])
		s.SetStreamMode(cfg.stream)
		s.SetACKNoDelay(cfg.ackND)
		s.SetWriteDelay(cfg.wdelay)
		kcp.VerifSOTapOutput(s, func(buf []byte, size int) bool {
			if e.vetoed {
				return false
			}
			r := request{size: size}
			if size >= 0 && size <= len(buf) {
				r.body = append([]byte(nil), buf[:size]...)
			}
			if cfg.ci.model == "aead" && size >= 24 && size+e.hs+cfg.ci.overhead() > 1500 && size+e.hs <= 1500 {
				// the pooled buffer (capacity 1500) has no room for the AEAD tag: aeadCrypt.Seal would
				// panic inside the postProcess goroutine and take the harness down with it
				e.vetoed = true
				e.capacity = fmt.Sprintf("output of %d bytes + header %d + AEAD overhead %d = %d exceeds the pooled buffer capacity 1500: the AEAD wrapper's capacity test fails (panic in postProcess)", size, e.hs, cfg.ci.overhead(), size+e.hs+cfg.ci.overhead())
				return false
			}
			e.reqs = append(e.reqs, r)
			return true
		})
		e.mtu = 1400
		return e
	}
	w.A, w.B = mk("A", "B"), mk("B", "A")
	w.A.peer, w.B.peer = w.B, w.A
	hsA, mtuA, _, fecA := kcp.VerifSOInfo(w.A.sess)
	for _, e := range []*endpoint{w.A, w.B} {
		e.hs = hsA
		e.coreMtu = int(mtuA)
	}
	o.Count("cfg:cipher:" + cfg.ci.name)
	o.Count(fmt.Sprintf("cfg:fec:%d/%d", cfg.d, cfg.p))
	w.op(fmt.Sprintf("new %s %d %d", cfg.ci.model, cfg.d, cfg.p),
		fmt.Sprintf("hs=%d ov=%d mtu=%d fec=%d", hsA, cfg.ci.overhead(), mtuA, b2i(fecA)))
	if fecA != cfg.fecOn() {
		w.viol("wire-fec-enabled", fmt.Sprintf("fec %d/%d: encoder present=%v, expected %v", cfg.d, cfg.p, fecA, cfg.fecOn()))
	}
	settle()
	return w
}

func b2i(b bool) int {
	if b {
		return 1
	}
	return 0
}

// try runs f (a call into the real code) and recovers a panic; after a panic the endpoint is
// abandoned: the session lock may be held for ever.
func (w *world) try(e *endpoint, what string, f func()) (panicked string) {
	if e.dead {
		return "dead"
	}
	msg := hx.Try(f)
	if msg != "" {
		e.dead = true
		kcp.VerifSOAbort(e.sess)
		w.o.Count("panic:" + what)
		kind := "mtu-panic"
		if e.shrinkQ {
			kind = "mtu-shrink-queued"
		}
		w.viol(kind, fmt.Sprintf("%s on %s panicked: %s (session MTU in force %d, core mtu %d)", what, e.name, msg, e.mtu, e.coreMtu))
		return msg
	}
	return ""
}

// collect gathers what both sessions emitted since the last call, logs it and runs the oracles.
func (w *world) collect() {
	settle()
	for _, e := range []*endpoint{w.A, w.B} {
		emits := e.conn.take()
		reqs := e.reqs
		e.reqs = nil
		w.process(e, reqs, emits)
	}
}

type emitted struct {
	wire  []byte
	plain []byte
	f     frameInfo
}

func (w *world) process(e *endpoint, reqs []request, wires [][]byte) {
	cfg := w.cfg
	if e.vetoed && e.capacity != "" {
		kind := "mtu-aead-capacity"
		if e.shrinkQ {
			kind = "mtu-shrink-queued"
		}
		w.viol(kind, fmt.Sprintf("%s: %s; session MTU in force %d, core mtu %d", e.name, e.capacity, e.mtu, e.coreMtu))
		e.capacity = ""
		e.closing = true // packets were withheld: no request accounting any more
	}
	now := time.Now().UnixMilli()
	// size argument of every output call versus the core MTU
	var live []request
	for _, r := range reqs {
		if !r.oob {
			w.o.Count("cb")
			if r.size > e.coreMtu {
				kind := "mtu-core-output-exceeded"
				if e.shrinkQ {
					kind = "mtu-shrink-queued"
				}
				w.viol(kind, fmt.Sprintf("%s: output callback got size %d > core mtu %d", e.name, r.size, e.coreMtu))
			}
			if r.size <= 0 {
				kind := "mtu-empty-output"
				if e.shrinkQ {
					kind = "mtu-shrink-queued"
				}
				w.viol(kind, fmt.Sprintf("%s: output callback got size %d (empty packet), core mtu %d", e.name, r.size, e.coreMtu))
			}
			if r.size < 24 {
				continue // the session's callback sends nothing
			}
		}
		live = append(live, r)
	}
	var ems []emitted
	for _, wire := range wires {
		em := emitted{wire: wire}
		e.nDgram++
		w.o.Count("dgram")
		// C10 size monitor: len of every buffer reaching WriteTo
		if len(wire) > e.mtu {
			kind := "mtu-exceeded"
			switch {
			case e.shrinkQ:
				kind = "mtu-shrink-queued"
			case e.shrinkG:
				kind = "mtu-parity-after-shrink"
			}
			w.viol(kind, fmt.Sprintf("%s: datagram of %d bytes reached WriteTo, session MTU in force %d (cipher %s, fec %d/%d)",
				e.name, len(wire), e.mtu, cfg.ci.name, cfg.d, cfg.p))
		}
		if len(wire) == 0 {
			w.viol("mtu-empty-output", e.name+": empty datagram reached WriteTo")
		}
		plain, why := cfg.ci.open(w.key, wire)
		if why != "" {
			w.viol("wire-undecryptable", fmt.Sprintf("%s: datagram #%d (%d bytes) cannot be decrypted/verified with the standard library: %s", e.name, e.nDgram, len(wire), why))
			if plain == nil {
				continue
			}
		}
		em.plain = plain
		em.f = dissect(cfg.ci, cfg.fecOn(), cfg.d, cfg.p, plain)
		w.op(fmt.Sprintf("dgram %s %s", e.name, hx.Hex(plain)), em.f.summary())
		if !em.f.ok {
			kind := "wire-malformed"
			if e.shrinkQ {
				kind = "mtu-shrink-queued"
			}
			w.viol(kind, fmt.Sprintf("%s: datagram #%d does not follow the documented layout: %s; plaintext %s", e.name, e.nDgram, em.f.why, hx.Hex(plain)))
		} else {
			w.oracles(e, em)
		}
		ems = append(ems, em)
		e.outq = append(e.outq, dg{wire, em.f.ok && em.f.kind == 'O'})
	}
	// group the datagrams by request: every non-parity datagram starts a request's group
	var groups [][]emitted
	for _, em := range ems {
		if em.f.ok && em.f.kind == 'P' && len(groups) > 0 {
			groups[len(groups)-1] = append(groups[len(groups)-1], em)
		} else {
			groups = append(groups, []emitted{em})
		}
	}
	if e.closing {
		return
	}
	if len(groups) != len(live) {
		w.viol("wire-request-count", fmt.Sprintf("%s: %d requests were queued for post-processing but %d originals reached WriteTo", e.name, len(live), len(groups)))
		return
	}
	if !w.post {
		return
	}
	for i, r := range live {
		var obs []string
		for _, em := range groups[i] {
			if em.f.ok && em.f.kind == 'P' {
				obs = append(obs, fmt.Sprintf("P:%d:%016x", len(em.wire), fnv64(em.f.nonce, em.f.body[:6])))
			} else {
				obs = append(obs, fmt.Sprintf("D:%d:%016x", len(em.wire), fnv64(em.plain)))
			}
		}
		w.op(fmt.Sprintf("post %s %d %d %s", e.name, b2i(r.oob), now, hx.Hex(r.body)), strings.Join(obs, " "))
	}
}

// oracles on one well-formed datagram
func (w *world) oracles(e *endpoint, em emitted) {
	cfg := w.cfg
	f := em.f
	w.o.Count("frame:" + string(f.kind))
	if cfg.ci.model != "nil" {
		// no two datagrams identical; the nonce is fresh for every packet
		h := fnv64(em.wire)
		if prev, dup := e.dgrams[h]; dup {
			w.viol("wire-duplicate-datagram", fmt.Sprintf("%s: datagram #%d is byte-identical to datagram #%d under cipher %s", e.name, e.nDgram, prev, cfg.ci.name))
		}
		e.dgrams[h] = e.nDgram
		ns := string(f.nonce)
		if prev, dup := e.nonces[ns]; dup {
			w.viol("wire-nonce-reuse", fmt.Sprintf("%s: datagram #%d (%c) carries the same nonce %x as datagram #%d", e.name, e.nDgram, f.kind, f.nonce, prev))
		}
		e.nonces[ns] = e.nDgram
		if cfg.counting {
			var ctr int64
			for i := 7; i >= 0; i-- {
				ctr = ctr<<8 | int64(f.nonce[i])
			}
			if ctr <= e.lastCtr {
				w.viol("wire-nonce-not-fresh", fmt.Sprintf("%s: datagram #%d (%c) carries entropy draw %d, not later than the previous datagram's draw %d", e.name, e.nDgram, f.kind, ctr, e.lastCtr))
			}
			e.lastCtr = ctr
		}
	}
	if f.kind == 'D' || f.kind == 'P' {
		if prev, dup := e.ids[f.id]; dup {
			w.viol("wire-fec-id-repeat", fmt.Sprintf("%s: FEC id %d used by datagram #%d and again by #%d", e.name, f.id, prev, e.nDgram))
		}
		e.ids[f.id] = e.nDgram
	}
	if f.kind != 'O' {
		e.nNonOOB++
		e.nonOOBH = fnv64([]byte(fmt.Sprintf("%016x", e.nonOOBH)), f.body)
	}
	for _, s := range f.segs {
		w.o.Count(fmt.Sprintf("seg:cmd%d", s.cmd))
		if s.conv != cfg.conv {
			w.viol("wire-conv", fmt.Sprintf("%s: segment with conv %d, session conv %d", e.name, s.conv, cfg.conv))
		}
		if int(s.wnd) > cfg.rcvwnd {
			w.viol("wire-wnd-range", fmt.Sprintf("%s: wnd field %d exceeds the receive window %d", e.name, s.wnd, cfg.rcvwnd))
		}
		if s.cmd != 81 && s.ln != 0 {
			w.viol("wire-len-nonpush", fmt.Sprintf("%s: cmd %d carries len %d", e.name, s.cmd, s.ln))
		}
	}
	e.re.add(f.segs)
}

// ---------------------------------------------------------------------------------------------
// operations

func (w *world) write(e *endpoint, data []byte) {
	if e.dead {
		return
	}
	ws, wnd, _ := kcp.VerifSOStat(e.sess)
	if ws >= wnd {
		w.o.Count("write:skipped-window-full")
		return
	}
	w.o.Count("write")
	w.o.Count("write:size:" + sizeClass(len(data), e.coreMtu-24))
	w.replay = append(w.replay, fmt.Sprintf("# %s.Write(%d bytes)", e.name, len(data)))
	if w.try(e, "Write", func() { e.sess.Write(data) }) == "" {
		e.written = append(e.written, data...)
	}
	w.collect()
}

func sizeClass(n, mss int) string {
	switch {
	case n == 0:
		return "0"
	case n == 1:
		return "1"
	case n < mss-1:
		return "<mss-1"
	case n == mss-1:
		return "mss-1"
	case n == mss:
		return "mss"
	case n == mss+1:
		return "mss+1"
	case n%mss == 0:
		return "k*mss"
	default:
		return ">mss"
	}
}

func (w *world) update(e *endpoint) {
	if e.dead {
		return
	}
	w.o.Count("update")
	w.replay = append(w.replay, fmt.Sprintf("# %s.update()", e.name))
	w.try(e, "update/flush", func() { kcp.VerifSOUpdate(e.sess) })
	w.collect()
	if e.shrinkQ {
		if ws, _, _ := statOrZero(e); ws == 0 {
			e.shrinkQ = false
		}
	}
	if e.shrinkG {
		if _, _, sc, _, ok := kcp.VerifSOEncoder(e.sess); !ok || sc == 0 {
			e.shrinkG = false
		}
	}
}

func statOrZero(e *endpoint) (int, int, int) {
	if e.dead {
		return 0, 0, 0
	}
	return kcp.VerifSOStat(e.sess)
}

func (w *world) sleep(ms int) {
	w.o.Count("sleep")
	w.replay = append(w.replay, fmt.Sprintf("# sleep %d ms", ms))
	time.Sleep(time.Duration(ms) * time.Millisecond)
}

// deliver hands the oldest in-flight datagram of e to its peer with the given fate
// (0 deliver, 1 drop, 2 duplicate, 3 swap with the next one first).
func (w *world) deliver(e *endpoint, fate int) {
	if len(e.outq) == 0 {
		return
	}
	if fate == 3 && len(e.outq) >= 2 {
		e.outq[0], e.outq[1] = e.outq[1], e.outq[0]
		fate = 0
	}
	d := e.outq[0]
	e.outq = e.outq[1:]
	w.o.Count(fmt.Sprintf("fate:%d", fate))
	if fate == 1 {
		w.replay = append(w.replay, fmt.Sprintf("# drop %s->%s (%d bytes)", e.name, e.peer.name, len(d.wire)))
		return
	}
	n := 1
	if fate == 2 {
		n = 2
	}
	for i := 0; i < n; i++ {
		w.input(e.peer, d.wire)
	}
}

// input feeds one datagram into the receive path of e and checks the OOB receive branch.
func (w *world) input(e *endpoint, wire []byte) {
	if e.dead {
		return
	}
	w.replay = append(w.replay, fmt.Sprintf("# input %s (%d bytes)", e.name, len(wire)))
	e.recvDgr++
	plain, why := w.cfg.ci.open(w.key, wire)
	isOOB := false
	var body []byte
	if why == "" {
		body = plain[w.cfg.ci.nonceLen():]
		if w.cfg.ci.model == "block" {
			body = plain[20:]
		}
		isOOB = len(body) >= 12 && body[4] == 0xF3 && body[5] == 0
	}
	var before string
	if isOOB {
		before = kcp.VerifSORxSnapshot(e.sess)
	}
	nGot := len(e.oobGot)
	buf := append([]byte(nil), wire...)
	w.try(e, "packetInput", func() { kcp.VerifSOPacketInput(e.sess, buf) })
	if e.dead {
		return
	}
	if why == "" {
		obs := "-"
		if len(e.oobGot) > nGot {
			obs = "oob:" + hx.Hex(e.oobGot[len(e.oobGot)-1])
		}
		w.op(fmt.Sprintf("deliver %s %s", e.name, hx.Hex(body)), obs)
	}
	if isOOB {
		e.oobDeliv++
		w.o.Count("oob:delivered-datagram")
		after := kcp.VerifSORxSnapshot(e.sess)
		if before != after {
			w.viol("oob-receiver-state-touched", fmt.Sprintf("%s: an out-of-band datagram changed stream state: before {%s} after {%s}", e.name, before, after))
		}
	}
	w.collect()
}

func (w *world) read(e *endpoint) {
	if e.dead {
		return
	}
	for {
		_, _, peek := kcp.VerifSOStat(e.sess)
		if peek <= 0 {
			return
		}
		buf := make([]byte, 2048+w.g.Intn(4096))
		var n int
		if w.try(e, "Read", func() { n, _ = e.sess.Read(buf) }) != "" {
			return
		}
		w.o.Count("read")
		e.got = append(e.got, buf[:n]...)
		src := e.peer.written
		if len(e.got) > len(src) || string(e.got) != string(src[:len(e.got)]) {
			w.viol("stream-prefix", fmt.Sprintf("%s read %d bytes that are not a prefix of what %s wrote (%d bytes)", e.name, len(e.got), e.peer.name, len(src)))
			return
		}
	}
}

// setMtu calls UDPSession.SetMtu and keeps the size monitor's idea of the MTU in force.
func (w *world) setMtu(e *endpoint, m int) {
	if e.dead {
		return
	}
	ws, _, _ := kcp.VerifSOStat(e.sess)
	_, _, sc, _, fec := kcp.VerifSOEncoder(e.sess)
	maxq := kcp.VerifSOMaxQueued(e.sess)
	var ok bool
	w.replay = append(w.replay, fmt.Sprintf("# %s.SetMtu(%d) with %d segments queued, open FEC group of %d", e.name, m, ws, sc))
	if w.try(e, "SetMtu", func() { ok = e.sess.SetMtu(m) }) != "" {
		return
	}
	_, cm, _, _ := kcp.VerifSOInfo(e.sess)
	w.o.Count(fmt.Sprintf("setmtu:%v", ok))
	w.op(fmt.Sprintf("setmtu %s %d %s %d", e.name, m, coreRule(), maxq), fmt.Sprintf("%v mtu=%d", ok, cm))
	if ok {
		nm := min(1500, m)
		if nm < e.mtu {
			w.o.Count("setmtu:shrink")
			if ws > 0 {
				e.shrinkQ = true
				w.o.Count("setmtu:shrink-with-queued")
			}
			if fec && sc > 0 {
				e.shrinkG = true
				w.o.Count("setmtu:shrink-mid-group")
			}
		} else if nm > e.mtu {
			w.o.Count("setmtu:grow")
		}
		e.mtu = nm
		e.coreMtu = int(cm)
		if int(cm) <= 24 {
			w.viol("mtu-accepted-unusable", fmt.Sprintf("%s: SetMtu(%d) accepted but core mtu is %d", e.name, m, cm))
		}
	} else if int(cm) != e.coreMtu {
		w.viol("mtu-refused-but-changed", fmt.Sprintf("%s: SetMtu(%d) refused but core mtu went %d -> %d", e.name, m, e.coreMtu, cm))
	}
	w.collect()
}

func (w *world) setHandler(e *endpoint, mode int) {
	if mode == 0 {
		return // never registered
	}
	var err error
	switch mode {
	case 1:
		err = e.sess.SetOOBHandler(func(b []byte) { e.oobGot = append(e.oobGot, append([]byte(nil), b...)) })
	case 2:
		err = e.sess.SetOOBHandler(nil)
	}
	obs := "ok"
	if err != nil {
		obs = "err-nofec"
	}
	if (err != nil) != !w.cfg.fecOn() {
		w.viol("oob-refusal", fmt.Sprintf("SetOOBHandler: error=%v with fec enabled=%v", err, w.cfg.fecOn()))
	}
	if err == nil {
		e.handler = mode
	}
	w.op(fmt.Sprintf("sethandler %s %d", e.name, b2i(mode == 1)), obs)
}

func (w *world) oobMax(e *endpoint) int {
	n := e.sess.GetOOBMaxSize()
	w.op("oobmax "+e.name, fmt.Sprint(n))
	return n
}

func (w *world) sendOOB(e *endpoint, data []byte) {
	if e.dead {
		return
	}
	max := e.sess.GetOOBMaxSize()
	if w.cfg.ci.model == "aead" && len(data) > max && len(data)+4+e.hs+w.cfg.ci.overhead() > 1500 {
		// if this oversize payload were wrongly accepted, the AEAD wrapper would panic inside the
		// postProcess goroutine, which the harness cannot recover; the refusal is exercised at
		// smaller MTUs and with the other ciphers
		w.o.Count("sendoob:skipped-aead-capacity")
		return
	}
	var err error
	w.replay = append(w.replay, fmt.Sprintf("# %s.SendOOB(%d bytes), GetOOBMaxSize=%d", e.name, len(data), max))
	if w.try(e, "SendOOB", func() { err = e.sess.SendOOB(data) }) != "" {
		return
	}
	obs := ""
	switch {
	case err == nil:
		body := make([]byte, 4+len(data))
		body[0], body[1], body[2], body[3] = byte(w.cfg.conv), byte(w.cfg.conv>>8), byte(w.cfg.conv>>16), byte(w.cfg.conv>>24)
		copy(body[4:], data)
		obs = "ok " + hx.Hex(body)
		e.reqs = append(e.reqs, request{oob: true, body: body, size: len(body)})
		e.oobSent = append(e.oobSent, append([]byte(nil), data...))
		w.o.Count("sendoob:ok")
	case strings.Contains(err.Error(), "FEC"):
		obs = "err-nofec"
		w.o.Count("sendoob:err-nofec")
	case strings.Contains(err.Error(), "too large"):
		obs = "err-too-large"
		w.o.Count("sendoob:err-too-large")
	default:
		obs = "err-other " + err.Error()
	}
	w.o.Count("sendoob:len:" + oobClass(len(data), max))
	w.op(fmt.Sprintf("sendoob %s %d %s", e.name, w.cfg.conv, hx.Hex(data)), obs)
	// refusals: error iff FEC off; error iff longer than GetOOBMaxSize
	if !w.cfg.fecOn() {
		if err == nil || max != 0 {
			w.viol("oob-refusal", fmt.Sprintf("FEC off: SendOOB error=%v GetOOBMaxSize=%d", err, max))
		}
	} else if (err != nil) != (len(data) > max) {
		w.viol("oob-refusal", fmt.Sprintf("SendOOB(%d bytes) error=%v with GetOOBMaxSize=%d", len(data), err, max))
	}
	w.collect()
}

func oobClass(n, max int) string {
	switch {
	case n == 0:
		return "0"
	case n == 1:
		return "1"
	case n == max-1:
		return "max-1"
	case n == max:
		return "max"
	case n == max+1:
		return "max+1"
	case n > max:
		return ">max"
	}
	return "mid"
}

// finish drains, states the reassembly expectation for both directions and closes everything.
func (w *world) finish() {
	for round := 0; round < 400; round++ {
		a, _, _ := statOrZero(w.A)
		b, _, _ := statOrZero(w.B)
		if a == 0 && b == 0 && len(w.A.outq) == 0 && len(w.B.outq) == 0 {
			break
		}
		w.update(w.A)
		w.update(w.B)
		for len(w.A.outq) > 0 {
			w.deliver(w.A, 0)
		}
		for len(w.B.outq) > 0 {
			w.deliver(w.B, 0)
		}
		w.read(w.A)
		w.read(w.B)
		w.sleep(20)
	}
	for _, e := range []*endpoint{w.A, w.B} {
		w.read(e)
	}
	for _, e := range []*endpoint{w.A, w.B} {
		e.closing = true
		if !e.dead {
			w.try(e, "Close", func() { e.sess.Close() })
		}
		e.conn.Close()
	}
	w.collect()
	for _, e := range []*endpoint{w.A, w.B} {
		ws, _, _ := statOrZero(e)
		complete := !e.dead && ws == 0
		got := e.re.stream()
		verb := "expect-prefix"
		if complete {
			verb = "expect-stream"
			if string(got) != string(e.written) {
				w.viol("wire-reassembly", fmt.Sprintf("%s: the stream reassembled from the wire alone (%d bytes) differs from what was written (%d bytes)", e.name, len(got), len(e.written)))
			}
			if !e.peer.dead && string(e.peer.got) != string(e.written) {
				_, _, pk := statOrZero(e.peer)
				w.viol("stream-incomplete", fmt.Sprintf("%s wrote %d bytes, all acknowledged, but %s read %d (peek %d, snapshot %s); config %s", e.name, len(e.written), e.peer.name, len(e.peer.got), pk, kcp.VerifSORxSnapshot(e.peer.sess), w.cfg.String()))
			}
		} else if len(got) > len(e.written) || string(got) != string(e.written[:len(got)]) {
			w.viol("wire-reassembly", fmt.Sprintf("%s: the stream reassembled from the wire (%d bytes) is not a prefix of what was written (%d bytes)", e.name, len(got), len(e.written)))
		}
		w.o.Count(verb)
		w.op(fmt.Sprintf("%s %s %s", verb, e.name, hx.Hex(e.written)), "ok")
	}
	w.oobOracle()
	settle()
}

// intact-or-absent: every payload a handler saw is one the peer sent, not more often than it
// was put on the wire towards this session.
func (w *world) oobOracle() {
	for _, e := range []*endpoint{w.A, w.B} {
		sent := map[string]int{}
		for _, m := range e.peer.oobSent {
			sent[string(m)]++
		}
		got := map[string]int{}
		for _, m := range e.oobGot {
			got[string(m)]++
			if sent[string(m)] == 0 {
				w.viol("oob-altered", fmt.Sprintf("%s's handler received %d bytes %s that %s never sent", e.name, len(m), hx.Hex(m), e.peer.name))
				return
			}
		}
		if e.handler == 1 && len(e.oobGot) != e.oobDeliv {
			w.viol("oob-lost-at-receiver", fmt.Sprintf("%s: %d out-of-band datagrams were delivered to the session but the handler ran %d times", e.name, e.oobDeliv, len(e.oobGot)))
		}
		if e.handler != 1 && len(e.oobGot) != 0 {
			w.viol("oob-handler-unregistered", fmt.Sprintf("%s: handler ran %d times without being registered", e.name, len(e.oobGot)))
		}
	}
}
