package sessout

import (
	"fmt"

	kcp "github.com/xtaci/kcp-go/v5"
	"verif/harness/internal/hx"
)

var fecGrid = [][2]int{{0, 0}, {1, 1}, {2, 1}, {3, 2}, {10, 3}, {4, 4}, {1, 3}}
var fecOdd = [][2]int{{0, 3}, {3, 0}, {128, 128}, {255, 1}, {-1, 2}}

type profile struct {
	rounds   int
	loss     int // percent
	dup      int
	swap     int
	step     int // ms of virtual time per round
	bidir    bool
	oobProb  int // percent per round and side
	withOOB  bool
	maxUnits int  // largest write in units of mss
	mtuPlay  int  // percent per round: SetMtu during traffic (safe points only unless unsafe)
	stall    bool // the readers stay away for the first two thirds of the history (zero window, probes)
}

func randomConfig(g *hx.Rng, ci cipherSpec, fec [2]int) config {
	c := config{ci: ci, d: fec[0], p: fec[1], counting: g.Chance(70), conv: g.U32()}
	c.sndwnd = []int{32, 128, 300, 8}[g.Intn(4)]
	c.rcvwnd = []int{32, 128, 300}[g.Intn(3)]
	c.nodelay = [][4]int{{0, 100, 0, 0}, {1, 10, 2, 1}, {1, 20, 0, 1}, {0, 40, 2, 0}}[g.Intn(4)]
	c.stream = g.Chance(30)
	c.ackND = g.Chance(30)
	c.wdelay = g.Chance(30)
	if g.Chance(15) {
		c.clock0 = 0xffffffff - uint32(g.Intn(3000)) // the 32-bit clock wraps during the history
	} else {
		c.clock0 = uint32(g.Intn(100000))
	}
	if c.conv == 0 {
		c.conv = 1
	}
	return c
}

func (w *world) fate(p profile, g *hx.Rng) int {
	x := g.Intn(100)
	switch {
	case x < p.loss:
		return 1
	case x < p.loss+p.dup:
		return 2
	case x < p.loss+p.dup+p.swap:
		return 3
	}
	return 0
}

func (w *world) flushNet(e *endpoint, p profile, gFate, gOOBFate *hx.Rng) {
	for len(e.outq) > 0 {
		if e.outq[0].oob {
			w.deliver(e, w.fate(profile{loss: p.loss, dup: p.dup}, gOOBFate))
		} else {
			w.deliver(e, w.fate(p, gFate))
		}
	}
}

func writeSize(g *hx.Rng, mss, maxUnits int) int {
	if mss < 1 {
		mss = 1
	}
	switch g.Intn(9) {
	case 0:
		return 1
	case 1:
		return max(mss-1, 1)
	case 2:
		return mss
	case 3:
		return mss + 1
	case 4:
		return 2 * mss
	case 5:
		return 3*mss + 7
	case 6:
		return 1 + g.Intn(min(64, mss))
	default:
		return 1 + g.Intn(maxUnits*mss)
	}
}

func (w *world) oobLen(g *hx.Rng, max int) int {
	switch g.Intn(7) {
	case 0:
		return 0
	case 1:
		return 1
	case 2:
		return max - 1
	case 3:
		return max
	case 4:
		return max + 1
	case 5:
		return max + 1 + g.Intn(40)
	}
	if max <= 0 {
		return g.Intn(8)
	}
	return g.Intn(max)
}

// traffic runs rounds of write / out-of-band / update / deliver-with-fates / read.
func (w *world) traffic(p profile, gOps, gFate, gOOB, gOOBFate *hx.Rng) {
	for r := 0; r < p.rounds; r++ {
		for _, e := range []*endpoint{w.A, w.B} {
			if e == w.B && !p.bidir {
				continue
			}
			for k := gOps.Intn(3); k > 0; k-- {
				n := writeSize(gOps, e.coreMtu-24, p.maxUnits)
				w.write(e, gOps.Bytes(n))
			}
		}
		for _, e := range []*endpoint{w.A, w.B} {
			// the decisions are drawn whether or not they are executed, so that a run without
			// out-of-band traffic makes identical choices everywhere else
			send := gOOB.Chance(p.oobProb)
			burst := 1 + gOOB.Intn(3)
			for k := 0; k < burst; k++ {
				max := 0
				if !e.dead {
					max = e.sess.GetOOBMaxSize()
				}
				n := w.oobLen(gOOB, max)
				data := gOOB.Bytes(max0(n))
				if send && p.withOOB {
					w.sendOOB(e, data)
				}
			}
		}
		if gOps.Bool() {
			w.update(w.A)
			w.update(w.B)
		} else {
			w.update(w.B)
			w.update(w.A)
		}
		w.flushNet(w.A, p, gFate, gOOBFate)
		w.flushNet(w.B, p, gFate, gOOBFate)
		if !p.stall || r >= p.rounds*2/3 {
			w.read(w.A)
			w.read(w.B)
		}
		if gOps.Chance(p.mtuPlay) && !p.stall {
			w.safeSetMtu(w.ep([]string{"A", "B"}[gOps.Intn(2)]), gOps)
		}
		w.sleep(p.step)
	}
}

func max0(n int) int {
	if n < 0 {
		return 0
	}
	return n
}

// quiesce delivers everything without loss until nothing is queued anywhere.
func (w *world) quiesce() bool {
	for i := 0; i < 300; i++ {
		a, _, _ := statOrZero(w.A)
		b, _, _ := statOrZero(w.B)
		if a == 0 && b == 0 && len(w.A.outq) == 0 && len(w.B.outq) == 0 {
			return true
		}
		w.update(w.A)
		w.update(w.B)
		for len(w.A.outq) > 0 {
			w.deliver(w.A, 0)
		}
		for len(w.B.outq) > 0 {
			w.deliver(w.B, 0)
		}
		w.read(w.A)
		w.read(w.B)
		w.sleep(20)
	}
	return false
}

// mtuValues are the boundary values of DESIGN 7.10 for a session with header size hs and AEAD
// overhead ov.
func mtuValues(g *hx.Rng, hs, ov int) []int {
	return []int{24, 25, hs + 24, hs + 25, hs + ov + 24, hs + ov + 25, hs + ov + 26, 50, 576, 1399, 1400, 1401, 1499, 1500, 1501,
		65536, 1 << 31, -1, 0, 25 + g.Intn(1600), 25 + g.Intn(200), 1 << 40, -(1 << 31)}
}

// safeSetMtu changes the MTU at a point where the property promises it is honoured: growing at
// any time; shrinking when no segment is queued in the core and no FEC group is open.
func (w *world) safeSetMtu(e *endpoint, g *hx.Rng) {
	if e.dead {
		return
	}
	vals := mtuValues(g, e.hs, w.cfg.ci.overhead())
	m := vals[g.Intn(len(vals))]
	if min(1500, m) < e.mtu {
		if !w.quiesce() {
			return
		}
		// close the open FEC group with one-byte writes
		for i := 0; i < 300; i++ {
			_, _, sc, _, ok := kcp.VerifSOEncoder(e.sess)
			if !ok || sc == 0 {
				break
			}
			w.write(e, []byte{byte(i)})
			w.update(e)
			if !w.quiesce() {
				return
			}
		}
		if _, _, sc, _, ok := kcp.VerifSOEncoder(e.sess); ok && sc != 0 {
			w.o.Count("setmtu:safe-point-not-reached")
			return
		}
	}
	w.setMtu(e, m)
}

func runHistory(o *hx.Out, g *hx.Rng, cfg config, body func(w *world)) {
	key := ""
	o.Case("")
	ok := inBubble(func() {
		w := newWorld(o, g, cfg)
		body(w)
		w.finish()
		key = hx.HashKey(fmt.Sprint(cfg, len(w.A.written), len(w.B.written), w.A.nDgram, w.B.nDgram))
		if w.A.nDgram+w.B.nDgram == 0 {
			key = ""
		}
	})
	if !ok {
		o.Violate(hx.Violation{Kind: "harness-bubble-failed", Detail: "the synctest bubble of a history failed (panic outside a recovered call, or goroutines left blocked); config " + cfg.String(), Replay: []string{cfg.String()}})
	}
	if key != "" {
		o.Case(key)
		o.Res.Cases--
	}
}
