package sessout

import (
	"crypto/aes"
	"crypto/cipher"
	"crypto/des"
	"crypto/sha1"
	"encoding/binary"
	"hash/crc32"

	kcp "github.com/xtaci/kcp-go/v5"
	"golang.org/x/crypto/pbkdf2"
	"golang.org/x/crypto/salsa20"
)

// The harness decrypts with the STANDARD LIBRARY (crypto/cipher CFB, AES-GCM Open, hash/crc32)
// and x/crypto primitives directly — never with kcp-go's own cipher code.

// the fixed IV and salt kcp-go documents in crypt.go (part of the wire format of its CFB/xor modes)
var cfbIV = []byte{167, 115, 79, 156, 18, 172, 27, 1, 164, 21, 242, 193, 252, 120, 230, 107}

const xorSalt = `sH3CIVoF#rWLtJo6`

type cipherSpec struct {
	name  string // nil aes 3des salsa20 xor none gcm
	model string // nil | block | aead   (what the Lean model distinguishes)
}

var cipherKinds = []cipherSpec{
	{"nil", "nil"}, {"aes", "block"}, {"salsa20", "block"}, {"xor", "block"}, {"none", "block"}, {"gcm", "aead"}, {"3des", "block"},
}

func (c cipherSpec) nonceLen() int {
	switch c.model {
	case "block":
		return 16
	case "aead":
		return 12
	}
	return 0
}

func (c cipherSpec) overhead() int {
	if c.model == "aead" {
		return 16
	}
	return 0
}

func (c cipherSpec) make(key []byte) kcp.BlockCrypt {
	var b kcp.BlockCrypt
	var err error
	switch c.name {
	case "nil":
		return nil
	case "aes":
		b, err = kcp.NewAESBlockCrypt(key[:16])
	case "3des":
		b, err = kcp.NewTripleDESBlockCrypt(key[:24])
	case "salsa20":
		b, err = kcp.NewSalsa20BlockCrypt(key[:32])
	case "xor":
		b, err = kcp.NewSimpleXORBlockCrypt(key[:32])
	case "none":
		b, err = kcp.NewNoneBlockCrypt(key[:32])
	case "gcm":
		b, err = kcp.NewAESGCMCrypt(key[:16])
	}
	if err != nil {
		panic(err)
	}
	return b
}

// open returns the plaintext datagram in the canonical form the specification decoder takes:
// block ciphers: the decrypted frame nonce(16) ‖ crc(4) ‖ rest (CRC verified here too);
// AEAD: nonce(12) ‖ opened plaintext; nil: the datagram itself.
func (c cipherSpec) open(key, wire []byte) (plain []byte, why string) {
	switch c.name {
	case "nil":
		return append([]byte(nil), wire...), ""
	case "gcm":
		if len(wire) < 12+16 {
			return nil, "shorter than nonce+tag"
		}
		blk, _ := aes.NewCipher(key[:16])
		g, _ := cipher.NewGCM(blk)
		pt, err := g.Open(nil, wire[:12], wire[12:], nil)
		if err != nil {
			return nil, "AES-GCM Open failed: " + err.Error()
		}
		return append(append([]byte(nil), wire[:12]...), pt...), ""
	}
	if len(wire) < 20 {
		return nil, "shorter than the crypt header"
	}
	plain = make([]byte, len(wire))
	switch c.name {
	case "aes":
		blk, _ := aes.NewCipher(key[:16])
		cipher.NewCFBDecrypter(blk, cfbIV[:16]).XORKeyStream(plain, wire)
	case "3des":
		blk, _ := des.NewTripleDESCipher(key[:24])
		cipher.NewCFBDecrypter(blk, cfbIV[:8]).XORKeyStream(plain, wire)
	case "salsa20":
		var k [32]byte
		copy(k[:], key[:32])
		copy(plain[:8], wire[:8])
		salsa20.XORKeyStream(plain[8:], wire[8:], wire[:8], &k)
	case "xor":
		tbl := pbkdf2.Key(key[:32], []byte(xorSalt), 32, 1500, sha1.New)
		for i := range wire {
			plain[i] = wire[i] ^ tbl[i]
		}
	case "none":
		copy(plain, wire)
	}
	if crc32.ChecksumIEEE(plain[20:]) != binary.LittleEndian.Uint32(plain[16:20]) {
		return plain, "CRC32 over the bytes after the CRC field does not match"
	}
	return plain, ""
}
