package sessout

import (
	"encoding/binary"
	"fmt"
	"strings"

	"verif/harness/internal/hx"
)

// An independent Go dissector written from README "Specification" and
// wireshark/kcp_dissector.lua (offsets +0 conv, +4 cmd, +5 frg, +6 wnd, +8 ts, +12 sn, +16 una,
// +20 len, next segment at +24+len).  It must agree with the Lean Spec decoder line by line.

type segInfo struct {
	conv     uint32
	cmd, frg uint8
	wnd      uint16
	ts, sn   uint32
	una, ln  uint32
	data     []byte
}

type frameInfo struct {
	ok     bool
	why    string
	nonce  []byte
	kind   byte // K D P O
	id     uint32
	size   int
	segs   []segInfo
	parLen int
	conv   uint32
	msg    []byte
	body   []byte // bytes behind the crypt header
}

func dissectSegs(b []byte) ([]segInfo, string) {
	if len(b) == 0 {
		return nil, "empty KCP payload"
	}
	var segs []segInfo
	for len(b) > 0 {
		if len(b) < 24 {
			return nil, fmt.Sprintf("%d leftover bytes, shorter than a header", len(b))
		}
		s := segInfo{conv: binary.LittleEndian.Uint32(b), cmd: b[4], frg: b[5], wnd: binary.LittleEndian.Uint16(b[6:]),
			ts: binary.LittleEndian.Uint32(b[8:]), sn: binary.LittleEndian.Uint32(b[12:]), una: binary.LittleEndian.Uint32(b[16:]),
			ln: binary.LittleEndian.Uint32(b[20:])}
		if s.cmd < 81 || s.cmd > 84 {
			return nil, fmt.Sprintf("unknown cmd %d", s.cmd)
		}
		b = b[24:]
		if uint64(s.ln) > uint64(len(b)) {
			return nil, fmt.Sprintf("len field %d but only %d bytes follow", s.ln, len(b))
		}
		s.data = b[:s.ln]
		b = b[s.ln:]
		segs = append(segs, s)
	}
	return segs, ""
}

// dissect takes the canonical plaintext (see cipherSpec.open).
func dissect(c cipherSpec, fecOn bool, d, p int, plain []byte) (f frameInfo) {
	b := plain
	switch c.model {
	case "block":
		if len(b) < 20 {
			f.why = "shorter than nonce+crc"
			return
		}
		f.nonce, b = b[:16], b[20:]
	case "aead":
		if len(b) < 12 {
			f.why = "shorter than the nonce"
			return
		}
		f.nonce, b = b[:12], b[12:]
	}
	f.body = b
	if !fecOn {
		f.kind = 'K'
		f.segs, f.why = dissectSegs(b)
		f.ok = f.why == ""
		return
	}
	if len(b) < 6 {
		f.why = "shorter than the FEC header"
		return
	}
	f.id = binary.LittleEndian.Uint32(b)
	typ := binary.LittleEndian.Uint16(b[4:])
	n := uint32(d + p)
	paws := 0xffffffff / n * n
	switch typ {
	case 0xF1:
		f.kind = 'D'
		if len(b) < 8 {
			f.why = "no size field"
			return
		}
		f.size = int(binary.LittleEndian.Uint16(b[6:]))
		if f.size != len(b)-8+2 {
			f.why = fmt.Sprintf("size field %d, frame+2 = %d", f.size, len(b)-8+2)
			return
		}
		if f.id >= paws || f.id%n >= uint32(d) {
			f.why = fmt.Sprintf("data type at id %d (position %d of %d/%d)", f.id, f.id%n, d, p)
			return
		}
		f.segs, f.why = dissectSegs(b[8:])
	case 0xF2:
		f.kind = 'P'
		if f.id >= paws || f.id%n < uint32(d) {
			f.why = fmt.Sprintf("parity type at id %d (position %d of %d/%d)", f.id, f.id%n, d, p)
			return
		}
		f.parLen = len(b) - 6
	case 0xF3:
		f.kind = 'O'
		if len(b) < 12 {
			f.why = "OOB shorter than header+size+conv"
			return
		}
		f.size = int(binary.LittleEndian.Uint16(b[6:]))
		if f.size != len(b)-8+2 || f.id != 0xffffffff {
			f.why = fmt.Sprintf("OOB size field %d (frame+2 = %d), id %d", f.size, len(b)-8+2, f.id)
			return
		}
		f.conv = binary.LittleEndian.Uint32(b[8:])
		f.msg = b[12:]
	default:
		f.why = fmt.Sprintf("unknown FEC type %#x", typ)
		return
	}
	f.ok = f.why == ""
	return
}

func (f frameInfo) summary() string {
	if !f.ok {
		return "reject"
	}
	n := hx.Hex(f.nonce)
	segs := func() string {
		var sb strings.Builder
		for i, s := range f.segs {
			if i > 0 {
				sb.WriteByte(',')
			}
			fmt.Fprintf(&sb, "%d.%d.%d.%d.%d.%d.%d.%d", s.conv, s.cmd, s.frg, s.wnd, s.ts, s.sn, s.una, s.ln)
		}
		return sb.String()
	}
	switch f.kind {
	case 'K':
		return fmt.Sprintf("ok n=%s K segs=%s", n, segs())
	case 'D':
		return fmt.Sprintf("ok n=%s D id=%d size=%d segs=%s", n, f.id, f.size, segs())
	case 'P':
		return fmt.Sprintf("ok n=%s P id=%d len=%d", n, f.id, f.parLen)
	default:
		return fmt.Sprintf("ok n=%s O id=%d size=%d conv=%d msg=%s", n, f.id, f.size, f.conv, hx.Hex(f.msg))
	}
}

// reassembler rebuilds one direction's byte stream from the wire alone: first occurrence of
// each sn, in sn order from 0, whole messages only (frg counts down to 0).
type reassembler struct {
	seen map[uint32]segInfo
}

func (r *reassembler) add(segs []segInfo) {
	if r.seen == nil {
		r.seen = map[uint32]segInfo{}
	}
	for _, s := range segs {
		if s.cmd != 81 {
			continue
		}
		if _, dup := r.seen[s.sn]; !dup {
			s.data = append([]byte(nil), s.data...)
			r.seen[s.sn] = s
		}
	}
}

func (r *reassembler) stream() []byte {
	var done, pending []byte
	for sn := uint32(0); ; sn++ {
		s, ok := r.seen[sn]
		if !ok {
			return done
		}
		pending = append(pending, s.data...)
		if s.frg == 0 {
			done = append(done, pending...)
			pending = pending[:0]
		}
	}
}

func fnv64(parts ...[]byte) uint64 {
	var h uint64 = 14695981039346656037
	for _, p := range parts {
		for _, b := range p {
			h = (h ^ uint64(b)) * 1099511628211
		}
	}
	return h
}
