// Package sessout: harness components `wire` and `oob` (C09, C10 session half, C19).
// Real sessions run over an in-memory recording net.PacketConn inside a testing/synctest
// bubble (virtual time, deterministic hand-over between the harness and the session
// goroutines); the timed scheduler is replaced by an inert instance and sessions are pumped by
// hand through a verif hook.
package sessout

import (
	"errors"
	"io"
	"os"
	"reflect"
	"testing"
	"testing/synctest"
	"time"
)

// corpusEntry mirrors testing's unexported alias so that bubbleDeps satisfies testing.testDeps.
type corpusEntry = struct {
	Parent     string
	Path       string
	Data       []byte
	Values     []any
	Generation int
	IsSeed     bool
}

var errNA = errors.New("not available")

type bubbleDeps struct{}

func (bubbleDeps) MatchString(pat, str string) (bool, error)   { return true, nil }
func (bubbleDeps) StartCPUProfile(w io.Writer) error           { return errNA }
func (bubbleDeps) StopCPUProfile()                             {}
func (bubbleDeps) WriteProfileTo(string, io.Writer, int) error { return errNA }
func (bubbleDeps) ModulePath() string                          { return "" }
func (bubbleDeps) ImportPath() string                          { return "" }
func (bubbleDeps) StartTestLog(io.Writer)                      {}
func (bubbleDeps) StopTestLog() error                          { return errNA }
func (bubbleDeps) SetPanicOnExit0(bool)                        {}
func (bubbleDeps) CoordinateFuzzing(time.Duration, int64, time.Duration, int64, int, []corpusEntry, []reflect.Type, string, string) error {
	return errNA
}
func (bubbleDeps) RunFuzzWorker(func(corpusEntry) error) error { return errNA }
func (bubbleDeps) ReadCorpus(string, []reflect.Type) ([]corpusEntry, error) {
	return nil, errNA
}
func (bubbleDeps) CheckCorpus([]any, []reflect.Type) error { return nil }
func (bubbleDeps) ResetCoverage()                          {}
func (bubbleDeps) SnapshotCoverage()                       {}
func (bubbleDeps) InitRuntimeCoverage() (mode string, tearDown func(string, string) (string, error), snapcov func() float64) {
	return
}

// inBubble runs f inside a synctest bubble.  A non-test binary has no *testing.T, so one is
// obtained through testing.MainStart (the entry point `go test` itself generates code for).
// Returns false if the bubble failed (f panicked, or goroutines were left blocked).
func inBubble(f func()) bool {
	stdout := os.Stdout
	devnull, err := os.OpenFile(os.DevNull, os.O_WRONLY, 0)
	if err == nil {
		os.Stdout = devnull // testing prints PASS per run
	}
	m := testing.MainStart(bubbleDeps{}, []testing.InternalTest{{Name: "bubble", F: func(t *testing.T) {
		synctest.Test(t, func(t *testing.T) { f() })
	}}}, nil, nil, nil)
	code := m.Run()
	if err == nil {
		os.Stdout = stdout
		devnull.Close()
	}
	return code == 0
}

func settle() { synctest.Wait() }
