package sessout

import (
	"fmt"
	"sync/atomic"

	kcp "github.com/xtaci/kcp-go/v5"
	"verif/harness/internal/hx"
)

func setup(o *hx.Out) {
	// truly inert scheduler: zero value, no goroutines; sessions are pumped through VerifSOUpdate
	kcp.SystemTimedSched = &kcp.TimedSched{}
	o.Note("core SetMtu rule of the working tree: " + coreRule())
	o.Note(fmt.Sprint("package constants: ", kcp.VerifSOConstants()))
}

// RunWire: component `wire` (C09 + session half of C10).
func RunWire(o *hx.Out, g *hx.Rng, tier string) {
	setup(o)
	o.Res.Rule = "a case is one history of two real sessions (cipher x FEC x MTU x window/nodelay settings x write pattern x fate schedule); distinct = distinct (config, bytes written, datagram counts); non-trivial = at least one datagram emitted"
	reps := 1
	if tier == "thorough" {
		reps = 6
	}
	for rep := 0; rep < reps; rep++ {
		for _, ci := range cipherKinds {
			for _, fec := range fecGrid {
				if tier != "thorough" && (ci.name == "3des" || ci.name == "none" || ci.name == "xor") && g.Chance(50) {
					continue
				}
				if tooMany(o) {
					return
				}
				cfg := randomConfig(g, ci, fec)
				p := profile{rounds: 6 + g.Intn(10), loss: []int{0, 0, 10, 30}[g.Intn(4)], dup: g.Intn(8), swap: g.Intn(8),
					step: []int{10, 30, 100, 250}[g.Intn(4)], bidir: g.Chance(60), oobProb: 30, withOOB: true, maxUnits: 4, mtuPlay: 12}
				if tier == "thorough" {
					p.rounds += g.Intn(30)
				}
				if g.Chance(20) {
					// stalled reader: the peer's window closes, window probes (WASK/WINS) appear
					p.stall, p.rounds, p.step, p.maxUnits = true, p.rounds+12, 250, 8
					cfg.rcvwnd = 32
				}
				gOps, gFate, gOOB, gOOBFate := g.Fork(), g.Fork(), g.Fork(), g.Fork()
				mg := g.Fork()
				runHistory(o, g, cfg, func(w *world) {
					// an MTU chosen before traffic in most histories
					if mg.Chance(70) {
						vals := mtuValues(mg, w.A.hs, cfg.ci.overhead())
						for k := 1 + mg.Intn(3); k > 0; k-- {
							w.setMtu(w.A, vals[mg.Intn(len(vals))])
							w.setMtu(w.B, vals[mg.Intn(len(vals))])
						}
					}
					w.traffic(p, gOps, gFate, gOOB, gOOBFate)
				})
			}
		}
		// FEC parameter pairs that must leave FEC off
		for _, fec := range fecOdd {
			cfg := randomConfig(g, cipherKinds[g.Intn(len(cipherKinds))], fec)
			p := profile{rounds: 3, step: 30, bidir: true, oobProb: 50, withOOB: true, maxUnits: 2}
			gOps, gFate, gOOB, gOOBFate := g.Fork(), g.Fork(), g.Fork(), g.Fork()
			runHistory(o, g, cfg, func(w *world) { w.traffic(p, gOps, gFate, gOOB, gOOBFate) })
		}
		if tooMany(o) {
			return
		}
		mtuScenarios(o, g, tier)
		entropyTie(o, g)
	}
}

// mtuScenarios: SetMtu sweeps on fresh sessions, full-size traffic at boundary MTUs, and the two
// situations DESIGN section 6 lists as defects (D2: shrink with queued segments, D11: shrink
// inside an open FEC group).
func mtuScenarios(o *hx.Out, g *hx.Rng, tier string) {
	for _, ci := range cipherKinds {
		if tier != "thorough" && (ci.name == "3des" || ci.name == "none" || ci.name == "xor" || ci.name == "salsa20") {
			continue
		}
		for _, fec := range [][2]int{{0, 0}, {2, 1}, {10, 3}} {
			if tooMany(o) {
				return
			}
			cfg := randomConfig(g, ci, fec)
			cfg.counting = true
			mg := g.Fork()
			// sweep: every boundary value on a fresh session, then full-size writes at each accepted value
			runHistory(o, g, cfg, func(w *world) {
				for _, m := range mtuValues(mg, w.A.hs, cfg.ci.overhead()) {
					if !w.quiesce() {
						return
					}
					w.safeSetMtu2(w.A, m)
					mss := w.A.coreMtu - 24
					for _, n := range []int{mss, mss + 1, 2 * mss, 1} {
						if n > 0 && n <= 6000 {
							w.write(w.A, mg.Bytes(n))
						}
					}
					w.update(w.A)
					if fecOK := cfg.fecOn(); fecOK {
						max := w.oobMax(w.A)
						for _, n := range []int{max, max + 1, 0} {
							if n >= 0 {
								w.sendOOB(w.A, mg.Bytes(n))
							}
						}
					}
					for len(w.A.outq) > 0 {
						w.deliver(w.A, 0)
					}
					w.update(w.B)
					for len(w.B.outq) > 0 {
						w.deliver(w.B, 0)
					}
					w.read(w.B)
				}
			})
		}
	}
	// D11: parity after a shrink in mid group (nothing queued in the core)
	for _, ci := range []cipherSpec{cipherKinds[0], cipherKinds[1], cipherKinds[5]} {
		cfg := randomConfig(g, ci, [2]int{10, 3})
		cfg.counting, cfg.sndwnd, cfg.rcvwnd, cfg.stream = true, 128, 128, false
		mg := g.Fork()
		runHistory(o, g, cfg, func(w *world) {
			for i := 0; i < 5; i++ {
				w.write(w.A, mg.Bytes(1300))
				w.update(w.A)
			}
			if !w.quiesce() {
				return
			}
			w.setMtu(w.A, 800)
			for i := 0; i < 5; i++ {
				w.write(w.A, mg.Bytes(700))
				w.update(w.A)
			}
		})
	}
	// a shrink at a group BOUNDARY (no open group: outside D11) after groups whose parity was skipped
	// because the data was not continuous: nothing of the old size may survive in the encoder, the
	// parity of the next continuous group must fit the new MTU (seeded change C10-9)
	for _, ci := range []cipherSpec{cipherKinds[0], cipherKinds[1], cipherKinds[5]} {
		for _, fec := range [][2]int{{2, 1}, {3, 2}} {
			cfg := randomConfig(g, ci, fec)
			cfg.counting, cfg.sndwnd, cfg.rcvwnd, cfg.stream = true, 128, 128, false
			mg := g.Fork()
			runHistory(o, g, cfg, func(w *world) {
				for i := 0; i < 2*fec[0]; i++ {
					w.write(w.A, mg.Bytes(1300))
					w.update(w.A)
					if !w.quiesce() {
						return
					}
					w.sleep(700)
				}
				w.safeSetMtu2(w.A, 600)
				w.sleep(700)
				for i := 0; i < 2*fec[0]; i++ {
					w.write(w.A, mg.Bytes(400))
					w.update(w.A)
				}
			})
		}
	}
	// D2: shrink while segments cut for the old MTU are still queued
	for _, m := range []int{1000, 50 + 28} {
		cfg := randomConfig(g, cipherKinds[0], [2]int{0, 0})
		cfg.counting, cfg.wdelay = true, true
		mg := g.Fork()
		runHistory(o, g, cfg, func(w *world) {
			w.write(w.A, mg.Bytes(1376))
			w.setMtu(w.A, m)
			w.update(w.A)
		})
	}
}

// safeSetMtu2 is safeSetMtu with a given value.
func (w *world) safeSetMtu2(e *endpoint, m int) {
	if min(1500, m) < e.mtu {
		for i := 0; i < 300; i++ {
			_, _, sc, _, ok := kcp.VerifSOEncoder(e.sess)
			if !ok || sc == 0 {
				break
			}
			w.write(e, []byte{byte(i)})
			w.update(e)
			if !w.quiesce() {
				return
			}
		}
	}
	w.setMtu(e, m)
}

// entropyTie compares rngAES.Read with the model's AesGen.next (E(seed) computed through the
// generator's own block cipher) and checks re-keying at the reseed interval.
func entropyTie(o *hx.Out, g *hx.Rng) {
	r := kcp.NewEntropyAES()
	if _, _, ok := kcp.VerifSOEntropyAES(r); !ok {
		return
	}
	o.Case("entropy")
	for i := 0; i < 40; i++ {
		if i == 20 {
			kcp.VerifSOEntropyAESSetCount(r, uint64(kcp.VerifSOConstants()["reseedInterval"])-3)
		}
		seed, count, _ := kcp.VerifSOEntropyAES(r)
		n := []int{16, 12, 1, 8}[g.Intn(4)]
		if uint64(count) >= uint64(kcp.VerifSOConstants()["reseedInterval"]) {
			// this Read takes a fresh key and seed from the operating system first: only the
			// counter reset and the output/seed relation can be compared
			p := make([]byte, n)
			r.Read(p)
			s2, c2, _ := kcp.VerifSOEntropyAES(r)
			if c2 != 0 || string(p) != string(s2[:n]) {
				o.Violate(hx.Violation{Kind: "entropy-rekey", Detail: fmt.Sprintf("re-keying Read: count=%d out=%x seed=%x", c2, p, s2)})
			}
			o.Count("entropy:rekey")
			continue
		}
		e := kcp.VerifSOEntropyAESBlock(r, seed)
		p := make([]byte, n)
		r.Read(p)
		s2, c2, _ := kcp.VerifSOEntropyAES(r)
		o.Count("entropy:read")
		o.Op(fmt.Sprintf("ent %s %d %s %d", hx.Hex(seed[:]), count, hx.Hex(e[:]), n), fmt.Sprintf("%s %s %d", hx.Hex(p), hx.Hex(s2[:]), c2))
	}
}

// RunOOB: component `oob` (C19).
func RunOOB(o *hx.Out, g *hx.Rng, tier string) {
	setup(o)
	o.Res.Rule = "a case is one history with out-of-band messages interleaved with stream traffic in both directions under drop/dup fates, run twice on identical schedules (with and without the OOB sends); distinct = distinct (config, bytes, datagram counts)"
	reps := 1
	if tier == "thorough" {
		reps = 8
	}
	for rep := 0; rep < reps; rep++ {
		for _, ci := range cipherKinds {
			for _, fec := range [][2]int{{1, 1}, {2, 1}, {3, 2}, {10, 3}, {0, 0}} {
				if tier != "thorough" && (ci.name == "3des" || ci.name == "none" || ci.name == "xor") && g.Chance(60) {
					continue
				}
				if tooMany(o) {
					return
				}
				cfg := randomConfig(g, ci, fec)
				p := profile{rounds: 8 + g.Intn(8), loss: []int{0, 15, 35}[g.Intn(3)], dup: g.Intn(10), step: []int{10, 30, 100}[g.Intn(3)],
					bidir: true, oobProb: 70, maxUnits: 3}
				hmA, hmB := g.Intn(3), g.Intn(3)
				if g.Chance(50) {
					hmA, hmB = 1, 1
				}
				mtu := 0
				if g.Chance(40) {
					mtu = []int{100, 200, 576, 1500, 90}[g.Intn(5)]
				}
				seeds := [4]uint64{g.U64(), g.U64(), g.U64(), g.U64()}
				var res [2]pairResult
				for run := 0; run < 2; run++ {
					pp := p
					pp.withOOB = run == 0
					cfg2 := cfg
					runHistory(o, g, cfg2, func(w *world) {
						rec0 := atomic.LoadUint64(&kcp.DefaultSnmp.FECRecovered)
						if mtu != 0 {
							w.setMtu(w.A, mtu)
							w.setMtu(w.B, mtu)
						}
						w.setHandler(w.A, hmA)
						w.setHandler(w.B, hmB)
						w.traffic(pp, hx.NewRng(seeds[0]), hx.NewRng(seeds[1]), hx.NewRng(seeds[2]), hx.NewRng(seeds[3]))
						w.quiesce()
						res[run] = pairResult{w.A.nNonOOB, w.B.nNonOOB, w.A.nonOOBH, w.B.nonOOBH,
							atomic.LoadUint64(&kcp.DefaultSnmp.FECRecovered) - rec0, len(w.A.got), len(w.B.got), w.A.dead || w.B.dead}
					})
				}
				if !res[0].dead && !res[1].dead && res[0] != res[1] {
					o.Violate(hx.Violation{Kind: "oob-disturbs-stream", Detail: fmt.Sprintf(
						"identical schedule with and without out-of-band sends: non-OOB datagrams A %d/%d B %d/%d, content hash equal A=%v B=%v, FEC recovered %d/%d, stream delivered A %d/%d B %d/%d; config %s",
						res[0].nA, res[1].nA, res[0].nB, res[1].nB, res[0].hA == res[1].hA, res[0].hB == res[1].hB, res[0].rec, res[1].rec,
						res[0].gotA, res[1].gotA, res[0].gotB, res[1].gotB, cfg.String()), Replay: []string{cfg.String(), fmt.Sprint("seeds ", seeds)}})
				}
				o.Count("oob:paired-run")
			}
		}
	}
}

type pairResult struct {
	nA, nB     int
	hA, hB     uint64
	rec        uint64
	gotA, gotB int
	dead       bool
}
