// Package sessin: correspondence component `sessin` (C06) — UDPSession.packetInput of the REAL
// code against Model/SessIn.sessionPacketInput, for every cipher kind with and without FEC.
//
// Genuine datagrams are captured from a real sender session (a few messages, plus an OOB frame
// when FEC is on) and injected into a real receiver session through the verif hook, together
// with corruptions of every class the property speaks about.  Per injected datagram:
//
//	op line      pinput <class> <raw hex> <aux>     aux = decrypted bytes (block ciphers) |
//	                                                 opened plaintext or `fail` (AEAD) | `-` (nil)
//	observation  drop-short | drop-crc | drop-min | deliver <n>   (from SNMP deltas of the real code)
//
// The Lean model evaluates the length guards and the CRC (its own bitwise CRC-32) on the same
// bytes.  Implementation-side oracles: for every dropped datagram the deep session snapshot is
// byte-identical before and after, the OOB callback is not invoked, InCsumErrors moves exactly
// when the integrity check failed; the verdict equals the one computed independently with
// hash/crc32 resp. crypto/cipher; corruptions of the guaranteed classes are never delivered.
package sessin

import (
	"bytes"
	"crypto/aes"
	"crypto/cipher"
	"encoding/binary"
	"fmt"
	"hash/crc32"
	"strings"
	"time"

	kcp "github.com/xtaci/kcp-go/v5"
	"verif/harness/internal/hx"
	"verif/harness/internal/memnet"
)

type config struct {
	name   string
	kind   string // nil | block | aead:<nonce>:<overhead>
	mk     func() kcp.BlockCrypt
	gcm    cipher.AEAD // independent standard-library AEAD (same key) for the oracle
	ds, ps int
}

var key = []byte("0123456789abcdef0123456789abcdef")

func must(b kcp.BlockCrypt, err error) kcp.BlockCrypt {
	if err != nil {
		panic(err)
	}
	return b
}

func configs() []config {
	blk, _ := aes.NewCipher(key)
	gcm, _ := cipher.NewGCM(blk)
	base := []config{
		{name: "nil", kind: "nil", mk: func() kcp.BlockCrypt { return nil }},
		{name: "aes", kind: "block", mk: func() kcp.BlockCrypt { return must(kcp.NewAESBlockCrypt(key)) }},
		{name: "salsa20", kind: "block", mk: func() kcp.BlockCrypt { return must(kcp.NewSalsa20BlockCrypt(key)) }},
		{name: "xor", kind: "block", mk: func() kcp.BlockCrypt { return must(kcp.NewSimpleXORBlockCrypt(key)) }},
		{name: "none", kind: "block", mk: func() kcp.BlockCrypt { return must(kcp.NewNoneBlockCrypt(key)) }},
		{name: "aesgcm", kind: fmt.Sprintf("aead:%d:%d", gcm.NonceSize(), gcm.Overhead()), mk: func() kcp.BlockCrypt { return must(kcp.NewAESGCMCrypt(key)) }, gcm: gcm},
	}
	var out []config
	for _, c := range base {
		c0 := c
		out = append(out, c0)
		c1 := c
		c1.ds, c1.ps = 2, 1
		out = append(out, c1)
	}
	return out
}

type runner struct {
	o     *hx.Out
	g     *hx.Rng
	tier  string
	cfg   config
	recv  *kcp.UDPSession
	dec   kcp.BlockCrypt // third instance, used by the harness only
	enc   kcp.BlockCrypt
	oobs  int
	hist  []string
	lastD []byte
}

func le32(b []byte) uint32 { return binary.LittleEndian.Uint32(b) }

// decrypt returns the aux field of the op line and the independent verdict.
func (x *runner) analyse(raw []byte) (aux string, verdict string, plain []byte) {
	minPkt := 12
	switch {
	case x.cfg.kind == "nil":
		aux = "-"
		plain = raw
	case x.cfg.kind == "block":
		d := append([]byte(nil), raw...)
		if len(d) >= 20 {
			x.dec.Decrypt(d, d)
		}
		aux = hx.Hex(d)
		if len(d) < 20 {
			return aux, "drop-short", nil
		}
		if crc32.ChecksumIEEE(d[20:]) != le32(d[16:]) {
			return aux, "drop-crc", nil
		}
		plain = d[20:]
	default:
		ns, ov := x.cfg.gcm.NonceSize(), x.cfg.gcm.Overhead()
		if len(raw) < ns+ov {
			return "fail", "drop-short", nil
		}
		pt, err := x.cfg.gcm.Open(nil, raw[:ns], raw[ns:], nil)
		if err != nil {
			return "fail", "drop-crc", nil
		}
		aux = hx.Hex(pt)
		plain = pt
	}
	if len(plain) < minPkt {
		return aux, "drop-min", nil
	}
	return aux, fmt.Sprintf("deliver %d", len(plain)), plain
}

func (x *runner) viol(kind, detail string, op string) {
	x.o.Count("violation:" + kind)
	x.o.Violate(hx.Violation{Kind: kind, Detail: detail, Replay: []string{"cfg " + x.cfg.name + " " + x.cfg.kind + fmt.Sprintf(" fec=%d/%d", x.cfg.ds, x.cfg.ps), op}})
}

// inject one datagram; guaranteed = the corruption is of a class the integrity check is
// guaranteed to catch (so `deliver` is a violation); mustPass = it must be accepted.
func (x *runner) inject(class string, raw []byte, guaranteed, mustPass bool) string {
	aux, verdict, _ := x.analyse(raw)
	op := fmt.Sprintf("pinput %s %s %s", class, hx.Hex(raw), aux)
	before := stripEnc(kcp.VerifSessionSnapshot(x.recv))
	c0 := memnet.ReadSnmp()
	oob0 := x.oobs
	pmsg := hx.Try(func() { kcp.VerifSessionPacketInput(x.recv, raw) })
	d := memnet.ReadSnmp().Sub(c0)
	after := stripEnc(kcp.VerifSessionSnapshot(x.recv))
	var obs string
	switch {
	case pmsg != "":
		obs = "panic " + pmsg
		x.viol("gate-panic", "packetInput panicked: "+pmsg, op)
	case d.InPkts == 1 && d.InCsumErrors == 0:
		obs = fmt.Sprintf("deliver %d", d.InBytes)
	case d.InPkts == 0 && d.InCsumErrors == 1 && d.KCPInErrors == 0:
		obs = "drop-crc"
	case d.InPkts == 0 && d.InCsumErrors == 0 && d.KCPInErrors == 1:
		obs = "drop-min"
	case d == (memnet.Delta{}):
		obs = "drop-short"
	default:
		obs = fmt.Sprintf("weird %+v", d)
	}
	x.o.Op(op, obs)
	x.o.Count("class:" + class)
	x.o.Count("verdict:" + strings.Fields(obs)[0])
	x.o.Count(fmt.Sprintf("len:%s", lenBucket(len(raw))))
	dropped := strings.HasPrefix(obs, "drop-")
	// the datagram must have no effect if the real code says it dropped it OR if the check
	// computed independently says it has to be dropped
	if dropped || strings.HasPrefix(verdict, "drop-") {
		if !bytes.Equal(before, after) {
			x.viol("gate-state-changed", fmt.Sprintf("%s/%s: a datagram that fails the gate (real code: %s, independent check: %s) changed the session state:\n%s", x.cfg.name, class, obs, verdict, diffLines(before, after)), op)
		}
		if x.oobs != oob0 {
			x.viol("gate-state-changed", fmt.Sprintf("%s/%s: OOB callback invoked for a datagram that fails the gate (real code: %s, independent check: %s)", x.cfg.name, class, obs, verdict), op)
		}
		if d.InErrs != 0 || d.OOBPackets != 0 || d.InBytes != 0 || d.InPkts != 0 {
			x.viol("gate-state-changed", fmt.Sprintf("%s/%s: a datagram that fails the gate (independent check: %s) reached kcpInput or moved other counters: %+v", x.cfg.name, class, verdict, d), op)
		}
	}
	if pmsg == "" && obs != verdict {
		kind := "gate-verdict"
		x.viol(kind, fmt.Sprintf("%s/%s: real code says %q, the check computed independently (hash/crc32 / crypto/cipher) says %q", x.cfg.name, class, obs, verdict), op)
	}
	if guaranteed && !dropped && pmsg == "" {
		x.viol("gate-accepted-corrupt", fmt.Sprintf("%s/%s: a corruption of a guaranteed class passed the gate (%s)", x.cfg.name, class, obs), op)
	}
	if mustPass && dropped {
		x.viol("gate-rejected-valid", fmt.Sprintf("%s/%s: a datagram with a valid checksum was rejected (%s)", x.cfg.name, class, obs), op)
	}
	return obs
}

// stripEnc removes the FEC *encoder* line from a snapshot before comparison: the encoder belongs to
// the session's post-processing goroutine, which runs asynchronously whenever an earlier, accepted
// datagram made the core flush (e.g. the ACK "clocking" flush after 58 pending ACKs); it is
// transmit-side state that the receive path can only reach through such a flush, and a flush
// shows in the core fields (acklist, snd_buf) that ARE compared.
func stripEnc(b []byte) []byte {
	i := bytes.Index(b, []byte("\nenc "))
	if i < 0 {
		return b
	}
	j := bytes.IndexByte(b[i+1:], '\n')
	if j < 0 {
		return b[:i]
	}
	return append(append([]byte(nil), b[:i]...), b[i+1+j:]...)
}

func lenBucket(n int) string {
	switch {
	case n < 20:
		return "0-19"
	case n < 32:
		return "20-31"
	case n < 64:
		return "32-63"
	case n < 256:
		return "64-255"
	default:
		return "256+"
	}
}

func diffLines(a, b []byte) string {
	la, lb := strings.Split(string(a), "\n"), strings.Split(string(b), "\n")
	var sb strings.Builder
	for i := 0; i < len(la) || i < len(lb); i++ {
		var x, y string
		if i < len(la) {
			x = la[i]
		}
		if i < len(lb) {
			y = lb[i]
		}
		if x != y {
			if len(x) > 300 {
				x = x[:300] + "…"
			}
			if len(y) > 300 {
				y = y[:300] + "…"
			}
			fmt.Fprintf(&sb, "- %s\n+ %s\n", x, y)
		}
	}
	return sb.String()
}

// flipBits XORs the bit pattern pat (pat[0] first) into b starting at bit offset off; bits are
// numbered in CRC order: bit i is bit (i%8) (least significant first) of byte i/8.
func flipBits(b []byte, off int, pat []bool) []byte {
	o := append([]byte(nil), b...)
	for i, p := range pat {
		if p {
			o[(off+i)/8] ^= 1 << uint((off+i)%8)
		}
	}
	return o
}

func (x *runner) burstPattern(n int) []bool {
	pat := make([]bool, n)
	for i := range pat {
		pat[i] = x.g.Bool()
	}
	pat[0], pat[n-1] = true, true
	return pat
}

// reseal turns decrypted bytes (nonce | crc | payload) back into a wire datagram; recrc
// recomputes the stored checksum first.
func (x *runner) reseal(d []byte, recrc bool) []byte {
	o := append([]byte(nil), d...)
	if recrc {
		binary.LittleEndian.PutUint32(o[16:], crc32.ChecksumIEEE(o[20:]))
	}
	x.enc.Encrypt(o, o)
	return o
}

func (x *runner) corruptions(D []byte) {
	quick := x.tier != "thorough"
	n := len(D)
	isBlock := x.cfg.kind == "block"
	isAead := strings.HasPrefix(x.cfg.kind, "aead")
	wireIsPlain := x.cfg.name == "xor" || x.cfg.name == "none" || x.cfg.name == "salsa20"
	big := n > 100 // exhaustive offsets only for the short datagrams
	samples := func(q, t int) int {
		if quick {
			if big {
				return q
			}
			return 3 * q
		}
		if big {
			return t / 2
		}
		return t
	}
	// --- wire-level single-bit flips
	for i := 0; i < samples(24, 200); i++ {
		off := x.g.Intn(n * 8)
		covered := off >= 160
		_ = covered
		x.inject("wire-bit", flipBits(D, off, []bool{true}), isAead || (isBlock && wireIsPlain && off >= 128), false)
	}
	// --- wire-level bursts of 2..32 bits
	wb := func(off, ln int) {
		if off+ln > n*8 {
			return
		}
		guaranteed := isAead || (isBlock && wireIsPlain && off >= 160)
		x.inject("wire-burst", flipBits(D, off, x.burstPattern(ln)), guaranteed, false)
	}
	if quick || big {
		for i := 0; i < samples(24, 400); i++ {
			wb(x.g.Intn(n*8), 2+x.g.Intn(31))
		}
	} else {
		for off := 0; off < n*8; off++ { // every offset, a random length; every length at sampled offsets
			wb(off, 2+x.g.Intn(31))
		}
		for ln := 2; ln <= 32; ln++ {
			for i := 0; i < 8; i++ {
				wb(x.g.Intn(n*8), ln)
			}
		}
	}
	if isBlock {
		d := append([]byte(nil), D...)
		x.dec.Decrypt(d, d)
		covBits := (n - 20) * 8
		// --- bursts of 1..32 bits in the CRC-covered (decrypted) bytes: the guaranteed class
		pb := func(off, ln int) {
			if covBits <= 0 || off+ln > covBits {
				return
			}
			x.inject("plain-burst", x.reseal(flipBits(d, 160+off, x.burstPattern(ln)), false), true, false)
		}
		if covBits > 0 {
			if quick || big {
				for i := 0; i < samples(32, 600); i++ {
					pb(x.g.Intn(covBits), 1+x.g.Intn(32))
				}
			} else {
				for off := 0; off < covBits; off++ {
					pb(off, 1+x.g.Intn(32))
				}
				for ln := 1; ln <= 32; ln++ {
					for i := 0; i < 8; i++ {
						pb(x.g.Intn(covBits), ln)
					}
				}
			}
		}
		// --- any change of the stored CRC
		for bit := 0; bit < 32; bit++ {
			if quick && big && bit%4 != 0 {
				continue
			}
			x.inject("crc-field", x.reseal(flipBits(d, 128+bit, []bool{true}), false), true, false)
		}
		for i := 0; i < samples(8, 64); i++ {
			o := append([]byte(nil), d...)
			v := x.g.U32()
			if v == le32(d[16:]) {
				v++
			}
			binary.LittleEndian.PutUint32(o[16:], v)
			x.inject("crc-field", x.reseal(o, false), true, false)
		}
		// --- burst straddling CRC field and covered bytes: no guarantee claimed, verdict compared only
		for i := 0; i < samples(4, 64); i++ {
			ln := 2 + x.g.Intn(31)
			off := 160 - 1 - x.g.Intn(ln-1)
			if off+ln <= n*8 {
				x.inject("plain-straddle", x.reseal(flipBits(d, off, x.burstPattern(ln)), false), false, false)
			}
		}
		// --- nonce changed after decryption (not covered by the CRC, discarded by the receiver): accepted
		for i := 0; i < samples(2, 16); i++ {
			x.inject("plain-nonce", x.reseal(flipBits(d, x.g.Intn(128), []bool{true}), false), false, true)
		}
	}
	// --- truncations
	if !big || !quick {
		for k := 0; k < n; k++ {
			if big && k > 64 && x.g.Intn(8) != 0 {
				continue
			}
			x.inject("truncate", D[:k], isAead, false)
		}
	} else {
		for k := 0; k <= 64 && k < n; k++ {
			x.inject("truncate", D[:k], isAead, false)
		}
		for i := 0; i < 12; i++ {
			x.inject("truncate", D[:x.g.Intn(n)], isAead, false)
		}
	}
	// --- extension by trailing bytes
	for i := 0; i < samples(3, 16); i++ {
		x.inject("extend", append(append([]byte(nil), D...), x.g.Bytes(1+x.g.Intn(8))...), isAead, false)
	}
}

func (x *runner) randomStrings() {
	quick := x.tier != "thorough"
	for n := 0; n <= 64; n++ {
		x.inject("random", x.g.Bytes(n), false, false)
	}
	k := 6
	if !quick {
		k = 120
	}
	for i := 0; i < k; i++ {
		x.inject("random", x.g.Bytes(65+x.g.Intn(1436)), false, false)
	}
	// valid checksum / tag over random payloads of every small length: the gate must let them
	// through exactly when the plaintext reaches the minimum size
	if x.cfg.kind == "block" {
		for n := 0; n <= 40; n++ {
			d := x.g.Bytes(20 + n)
			x.inject("forged-valid", x.reseal(d, true), false, n >= 12)
		}
	} else if x.cfg.gcm != nil {
		for n := 0; n <= 40; n++ {
			nonce := x.g.Bytes(x.cfg.gcm.NonceSize())
			x.inject("forged-valid", x.cfg.gcm.Seal(nonce, nonce, x.g.Bytes(n), nil), false, n >= 12)
		}
	}
}

func (x *runner) runConfig(c config) {
	x.cfg = c
	x.dec, x.enc = c.mk(), c.mk()
	conv := x.g.U32()
	sc := memnet.NewConn(memnet.Addr("sender"))
	rc := memnet.NewConn(memnet.Addr("receiver"))
	sender, _ := kcp.NewConn3(conv, memnet.Addr("receiver"), c.mk(), c.ds, c.ps, sc)
	recv, _ := kcp.NewConn3(conv, memnet.Addr("sender"), c.mk(), c.ds, c.ps, rc)
	defer func() {
		sender.Close()
		recv.Close()
		sc.Close()
		rc.Close()
	}()
	x.recv = recv
	x.oobs = 0
	if c.ds > 0 {
		recv.SetOOBHandler(func(b []byte) { x.oobs++ })
	}
	sender.SetNoDelay(1, 10, 2, 1)
	x.o.Case(fmt.Sprintf("%s-%d-%d", c.name, c.ds, c.ps))
	x.o.Op(fmt.Sprintf("cfg %s %s fec=%d/%d", c.name, c.kind, c.ds, c.ps), "ok")

	// capture genuine traffic
	sizes := []int{1, 40, 200, 700}
	if x.tier == "thorough" {
		sizes = append(sizes, 1300, 17)
	}
	want := 0
	var written []byte
	for i, n := range sizes {
		msg := x.g.Bytes(n)
		written = append(written, msg...)
		sender.Write(msg)
		want++
		if c.ds > 0 && (i+1)%c.ds == 0 {
			want += c.ps
		}
	}
	if c.ds > 0 {
		sender.SendOOB(x.g.Bytes(9))
		sender.SendOOB(nil)
		want += 2
	}
	got := sc.WaitOut(want, 3*time.Second)
	if got != want {
		x.o.Note(fmt.Sprintf("%s fec=%d/%d: captured %d datagrams, expected %d", c.name, c.ds, c.ps, got, want))
	}
	pkts := sc.Take()
	x.o.CountN("captured", len(pkts))

	x.randomStrings()
	for _, p := range pkts {
		D := p.Data
		if _, _, plain := x.analyse(D); len(plain) >= 6 {
			switch binary.LittleEndian.Uint16(plain[4:]) {
			case 0xf1:
				x.o.Count("genuine-frame:fec-data")
			case 0xf2:
				x.o.Count("genuine-frame:fec-parity")
			case 0xf3:
				x.o.Count("genuine-frame:oob")
			default:
				x.o.Count("genuine-frame:raw-kcp")
			}
		}
		x.corruptions(D) // before the genuine datagram: a leak would be new data for the core
		x.inject("genuine", D, false, true)
		x.inject("genuine-dup", D, false, true)
		// one more after (the corruption now hits a duplicate)
		x.inject("wire-bit", flipBits(D, x.g.Intn(len(D)*8), []bool{true}), strings.HasPrefix(c.kind, "aead"), false)
	}
	// end to end: what the receiver can read is exactly what was written (the corrupted copies
	// never reached the application); without a cipher there is no integrity check to rely on
	if c.kind != "nil" {
		recv.SetReadDeadline(time.Now().Add(20 * time.Millisecond))
		var gotb []byte
		buf := make([]byte, 4096)
		for len(gotb) < len(written) {
			n, err := recv.Read(buf)
			if err != nil {
				break
			}
			gotb = append(gotb, buf[:n]...)
		}
		if !bytes.HasPrefix(written, gotb) {
			x.viol("gate-corruption-delivered", fmt.Sprintf("%s: receiver read bytes that were never written", c.name), "read")
		}
		if len(gotb) != len(written) {
			x.o.Note(fmt.Sprintf("%s fec=%d/%d: read %d of %d bytes", c.name, c.ds, c.ps, len(gotb), len(written)))
		}
		x.o.CountN("stream-bytes-read", len(gotb))
	}
	// corrupted payload with the checksum recomputed: the gate MUST accept it (it cannot know)
	if c.kind == "block" {
		for _, p := range pkts {
			d := append([]byte(nil), p.Data...)
			x.dec.Decrypt(d, d)
			if len(d) > 20 {
				x.inject("recrc", x.reseal(flipBits(d, 160+x.g.Intn((len(d)-20)*8), []bool{true}), true), false, true)
			}
		}
	}
}

// crcOps ties the Lean CRC-32 model to hash/crc32 and runs the Go-side burst oracle.
func (x *runner) crcOps() {
	quick := x.tier != "thorough"
	x.o.Case("crc")
	x.o.Op("cfg crc nil fec=0/0", "ok")
	emit := func(b []byte) {
		x.o.Op("crc "+hx.Hex(b), fmt.Sprintf("%08x", crc32.ChecksumIEEE(b)))
		x.o.Count("crc-op")
	}
	emit(nil)
	emit([]byte("123456789"))
	for n := 1; n <= 64; n++ {
		emit(x.g.Bytes(n))
	}
	k := 8
	if !quick {
		k = 100
	}
	for i := 0; i < k; i++ {
		emit(x.g.Bytes(65 + x.g.Intn(1436)))
	}
	// burst oracle: every burst length 1..32 at sampled offsets (thorough: every offset of a
	// short string as well), several random patterns each; the CRC must change
	bases := [][]byte{x.g.Bytes(8), x.g.Bytes(61), x.g.Bytes(1400)}
	for _, base := range bases {
		c0 := crc32.ChecksumIEEE(base)
		offs := 16
		if !quick {
			offs = 200
		}
		for ln := 1; ln <= 32; ln++ {
			for j := 0; j < offs; j++ {
				if len(base)*8-ln < 0 {
					continue
				}
				off := x.g.Intn(len(base)*8 - ln + 1)
				if !quick && len(base) <= 61 && j < len(base)*8-ln+1 {
					off = j
				}
				m := flipBits(base, off, x.burstPattern(ln))
				x.o.Count("crc-burst-checked")
				if crc32.ChecksumIEEE(m) == c0 {
					x.viol("crc-burst-undetected", fmt.Sprintf("burst of %d bits at bit %d leaves CRC-32 unchanged", ln, off), "crc "+hx.Hex(m))
				}
				if j < 2 {
					emit(m)
				}
			}
		}
	}
}

func Run(o *hx.Out, g *hx.Rng, tier string) {
	memnet.InertScheduler()
	kcp.SetEntropy(&memnet.RngReader{G: g.Fork()})
	o.Res.Rule = "one case per (cipher, FEC) configuration; every op line is one injected datagram (classes and verdicts in the distribution)"
	g = g.Fork() // hx.NewRng(seed) streams of consecutive seeds are shifted copies of each other
	x := &runner{o: o, g: g, tier: tier}
	for _, c := range configs() {
		x.runConfig(c)
	}
	x.crcOps()
}
