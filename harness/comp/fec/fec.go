// Package fec: correspondence component `fec` (C07, C16) — the real fecEncoder / fecDecoder
// (through the verif hooks) against Model/Fec instantiated with the executable GF(2^8) code.
//
// Ops (see lean/Driver/Fec.lean): enc, dec, e (encode), oob, d (decode).
// Implementation-side oracles:
//
//	C07  fec-enc-*        framing of emitted packets (seq | type | size | payload), id sequence
//	     fec-recover-*    recovered = exactly the absent data packets of the group, byte for byte
//	                      (padded body) and, after the kcpInput trim, with the exact length;
//	                      nothing else is ever returned
//	     fec-horizon      a group within two groups of the newest one lost its shard set
//	     fec-panic        the real code panicked on an input the callers can produce
//	C16  fec-unstable             matching ratios, genuine packets, yet shouldTune / ratio changed
//	     fec-converge-bound       uninterrupted run longer than 258+2(d+p) without convergence
//	     fec-converge-near-paws   same, but the run overlaps [receiver paws', sender paws)  (D9)
//	     fec-mismatch-corrupts    a reconstruction under a ratio different from the sender's yields
//	                              a well-formed KCP PUSH segment that the sender never sent     (D10)
package fec

import (
	"bytes"
	"encoding/binary"
	"fmt"
	"strings"

	kcp "github.com/xtaci/kcp-go/v5"
	"verif/harness/internal/hx"
)

const (
	fecHdr    = 6
	typeData  = 0xf1
	typeParit = 0xf2
	mtuLimit  = 1500
	conv      = 0x11223344

	maxLiveSets = 4 // maxShardSets + 1
)

// sent describes one packet emitted by the sender's encoder.
type sent struct {
	seq     uint32
	data    bool
	pkt     []byte // wire packet from the FEC header on
	payload []byte // data packets: the bytes after the size field
	g       int    // un-wrapped group index in the sender's stream
}

type runner struct {
	o   *hx.Out
	g   *hx.Rng
	key strings.Builder

	enc        *kcp.VerifFECEncoder
	sd, sp     int // sender ratio
	off        int
	group      int // un-wrapped index of the sender's current group
	bySeq      map[uint32]*sent
	kcpMode    bool
	sn         uint32
	sentPush   map[uint32][]byte // sn -> payload of PUSH segments the sender produced (kcp mode)
	dec        *kcp.VerifFECDecoder
	newestG    int          // highest un-wrapped sender group fed so far (accepted packets)
	fedG       map[int]bool // groups that have had an accepted packet
	constructD int
	constructP int
	keepRec    bool
	maxSets    int  // largest number of live shard sets seen in this run
	young      bool // scenario: fresh decoder, no newestShardId preset, ids far from 0
	inject     bool // mismatchCase: feed one stray packet with a contradicting type before the run
	alternate  bool // mismatchCase: deterministic pre-history (every second packet lost)
	retuned    bool
	perKind    map[string]int
	lastRec    [][]byte
}

func (x *runner) viol(kind, detail string) {
	x.o.Count("violation:" + kind)
	if x.perKind == nil {
		x.perKind = map[string]int{}
	}
	x.perKind[kind]++
	if x.perKind[kind] > 2 { // keep room in the report for the other kinds
		return
	}
	k := x.key.String()
	if len(k) > 60000 {
		k = k[:60000] + "…"
	}
	x.o.Violate(hx.Violation{Kind: kind, Detail: detail, Replay: strings.Split(k, "\n")})
}

func (x *runner) logOp(op, obs string) {
	x.key.WriteString(op)
	x.key.WriteByte('\n')
	x.o.Op(op, obs)
}

func hexList(xs [][]byte) string {
	if len(xs) == 0 {
		return "-"
	}
	ss := make([]string, len(xs))
	for i, b := range xs {
		ss[i] = hx.Hex(b)
	}
	return strings.Join(ss, "|")
}

func pawsOf(n int) uint32 { return 0xffffffff / uint32(n) * uint32(n) }

// ---------------------------------------------------------------------------------------------
// sender

func (x *runner) newEnc(d, p, off int, next uint32) {
	x.enc = kcp.VerifNewFECEncoder(d, p, off)
	x.sd, x.sp, x.off = d, p, off
	x.group = 0
	x.bySeq = map[uint32]*sent{}
	x.sentPush = map[uint32][]byte{}
	obs := "nil"
	if x.enc != nil {
		x.enc.SetNext(next)
		obs = fmt.Sprintf("ok paws=%d", x.enc.State().Paws)
	}
	x.o.Count("op:enc")
	x.logOp(fmt.Sprintf("enc %d %d %d %d", d, p, off, next), obs)
}

// kcpSegment builds a well-formed KCP PUSH segment carrying `data`.
func (x *runner) kcpSegment(data []byte) []byte {
	b := make([]byte, 24+len(data))
	binary.LittleEndian.PutUint32(b, conv)
	b[4] = 81 // IKCP_CMD_PUSH
	b[5] = 0
	binary.LittleEndian.PutUint16(b[6:], 128)
	binary.LittleEndian.PutUint32(b[8:], 1000+x.sn)
	binary.LittleEndian.PutUint32(b[12:], x.sn)
	binary.LittleEndian.PutUint32(b[16:], 0)
	binary.LittleEndian.PutUint32(b[20:], uint32(len(data)))
	copy(b[24:], data)
	x.sentPush[x.sn] = append([]byte(nil), data...)
	x.sn++
	return b
}

// emit encodes one payload; returns the data packet and the parity packets (wire form).
func (x *runner) emit(payload []byte, cont bool) (out []*sent) {
	st0 := x.enc.State()
	b := make([]byte, x.off+fecHdr+2+len(payload))
	for i := 0; i < x.off; i++ {
		b[i] = byte(0xA0 + i)
	}
	// stale bytes where the header will be written, to see that they are overwritten
	for i := x.off; i < x.off+fecHdr+2; i++ {
		b[i] = 0xEE
	}
	copy(b[x.off+fecHdr+2:], payload)
	before := append([]byte(nil), b...)
	var ps [][]byte
	pm := hx.Try(func() { ps = x.enc.Encode(b, cont) })
	c := "0"
	if cont {
		c = "1"
	}
	x.o.Count("op:e")
	x.o.Count(fmt.Sprintf("e:len<=%d", bucket(len(b))))
	if pm != "" {
		x.logOp(fmt.Sprintf("e %s %s", c, hx.Hex(before)), "panic")
		x.viol("fec-panic", "encode panicked: "+pm)
		return nil
	}
	st := x.enc.State()
	pcs := make([][]byte, len(ps))
	for i := range ps {
		pcs[i] = append([]byte(nil), ps[i]...)
	}
	x.logOp(fmt.Sprintf("e %s %s", c, hx.Hex(before)),
		fmt.Sprintf("data=%s par=%s next=%d cnt=%d max=%d", hx.Hex(b), hexList(pcs), st.Next, st.ShardCount, st.MaxSize))

	// --- framing oracle (C07 enc_group)
	if !bytes.Equal(b[:x.off], before[:x.off]) {
		x.viol("fec-enc-frame", "encode touched bytes before headerOffset")
	}
	w := b[x.off:]
	seq := binary.LittleEndian.Uint32(w)
	if seq != st0.Next || binary.LittleEndian.Uint16(w[4:]) != typeData ||
		int(binary.LittleEndian.Uint16(w[6:])) != len(payload)+2 || !bytes.Equal(w[8:], payload) {
		x.viol("fec-enc-frame", fmt.Sprintf("data packet is not seq|f1|size|payload: seq=%d want %d size=%d want %d",
			seq, st0.Next, binary.LittleEndian.Uint16(w[6:]), len(payload)+2))
	}
	if int(seq%uint32(x.sd+x.sp)) != st0.ShardCount {
		x.viol("fec-enc-seq", fmt.Sprintf("data seq %d is not at position %d of its group", seq, st0.ShardCount))
	}
	s := &sent{seq: seq, data: true, pkt: append([]byte(nil), w...), payload: append([]byte(nil), payload...), g: x.group}
	x.bySeq[seq] = s
	out = append(out, s)
	last := st0.ShardCount+1 == x.sd
	if last {
		if cont {
			x.o.Count("e:parity-generated")
			if len(pcs) != x.sp {
				x.viol("fec-enc-parity", fmt.Sprintf("%d parity packets, want %d", len(pcs), x.sp))
			}
		} else {
			x.o.Count("e:parity-skipped")
			if len(pcs) != 0 {
				x.viol("fec-enc-parity", "parity returned although the time test failed")
			}
		}
		for k, pc := range pcs {
			pw := pc[x.off:]
			pseq := binary.LittleEndian.Uint32(pw)
			want := (seq + 1 + uint32(k)) % st0.Paws
			if pseq != want || binary.LittleEndian.Uint16(pw[4:]) != typeParit {
				x.viol("fec-enc-seq", fmt.Sprintf("parity %d has seq %d type %x, want seq %d type f2", k, pseq, binary.LittleEndian.Uint16(pw[4:]), want))
			}
			ps := &sent{seq: pseq, pkt: append([]byte(nil), pw...), g: x.group}
			x.bySeq[pseq] = ps
			out = append(out, ps)
		}
		wantNext := uint32((uint64(seq) + 1 + uint64(x.sp)) % uint64(st0.Paws))
		if st.Next != wantNext {
			x.viol("fec-enc-seq", fmt.Sprintf("next=%d after the group, want %d", st.Next, wantNext))
		}
		if st.Next%uint32(x.sd+x.sp) != 0 {
			x.viol("fec-enc-seq", fmt.Sprintf("next=%d after the group is not a group boundary", st.Next))
		}
		x.group++
	} else if len(pcs) != 0 {
		x.viol("fec-enc-parity", "parity returned in mid group")
	}
	return out
}

func bucket(n int) int {
	for _, b := range []int{16, 64, 256, 1024, 1500} {
		if n <= b {
			return b
		}
	}
	return 9999
}

// payload of a given length: raw random bytes or a KCP PUSH segment (length ≥ 24).
func (x *runner) payload(n int) []byte {
	if x.kcpMode && n >= 24 {
		return x.kcpSegment(x.g.Bytes(n - 24))
	}
	return x.g.Bytes(n)
}

// emitOOB runs encodeOOB on a buffer: seqid 0xffffffff, type f3, size field; the encoder's id
// sequence must not move.
func (x *runner) emitOOB(payload []byte) {
	st0 := x.enc.State()
	b := make([]byte, x.off+fecHdr+2+len(payload))
	for i := range b[:x.off+fecHdr+2] {
		b[i] = 0xEE
	}
	copy(b[x.off+fecHdr+2:], payload)
	before := append([]byte(nil), b...)
	pm := hx.Try(func() { x.enc.EncodeOOB(b) })
	x.o.Count("op:oob")
	if pm != "" {
		x.logOp("oob "+hx.Hex(before), "panic")
		x.viol("fec-panic", "encodeOOB panicked: "+pm)
		return
	}
	st := x.enc.State()
	x.logOp("oob "+hx.Hex(before), fmt.Sprintf("data=%s next=%d", hx.Hex(b), st.Next))
	w := b[x.off:]
	if st != st0 || binary.LittleEndian.Uint32(w) != 0xffffffff || binary.LittleEndian.Uint16(w[4:]) != 0xf3 ||
		int(binary.LittleEndian.Uint16(w[6:])) != len(payload)+2 || !bytes.Equal(w[8:], payload) || !bytes.Equal(b[:x.off], before[:x.off]) {
		x.viol("fec-enc-frame", "encodeOOB: packet is not ffffffff|f3|size|payload or the encoder state moved")
	}
}

// emitGroup encodes one whole group with the given payload lengths.
func (x *runner) emitGroup(lens []int, cont bool) []*sent {
	var out []*sent
	for i := 0; i < x.sd; i++ {
		if x.g.Chance(3) {
			x.emitOOB(x.g.Bytes(x.g.Intn(40))) // an out-of-band message in mid group
		}
		out = append(out, x.emit(x.payload(lens[i%len(lens)]), cont || i < x.sd-1)...)
	}
	return out
}

// ---------------------------------------------------------------------------------------------
// receiver

func (x *runner) newDec(d, p int) {
	x.dec = kcp.VerifNewFECDecoder(d, p)
	x.constructD, x.constructP = d, p
	x.newestG = -1 << 30
	x.retuned = false
	x.fedG = map[int]bool{}
	obs := "nil"
	if x.dec != nil {
		obs = fmt.Sprintf("ok paws=%d", x.dec.State().Paws)
	}
	x.o.Count("op:dec")
	x.logOp(fmt.Sprintf("dec %d %d", d, p), obs)
}

func showDec(st kcp.VerifFECDecoderState) string {
	var sb strings.Builder
	t := 0
	if st.ShouldTune {
		t = 1
	}
	fmt.Fprintf(&sb, "d=%d p=%d paws=%d tune=%d newest=%d at=%d/%d/%d sets=", st.DataShards, st.ParityShards, st.Paws, t,
		st.NewestShardID, st.TuneHead, st.TuneTail, st.TuneCount)
	if len(st.Sets) == 0 {
		sb.WriteByte('-')
	}
	for i, s := range st.Sets {
		if i > 0 {
			sb.WriteByte(',')
		}
		fmt.Fprintf(&sb, "%d:", s.ID)
		for j := range s.SeqIDs {
			if j > 0 {
				sb.WriteByte('+')
			}
			fmt.Fprintf(&sb, "%d/%d", s.SeqIDs[j], s.Sizes[j])
		}
	}
	return sb.String()
}

// trim is the size-field check kcpInput applies to a recovered shard.
func trim(r []byte) ([]byte, bool) {
	if len(r) >= 2 {
		sz := binary.LittleEndian.Uint16(r)
		if int(sz) <= len(r) && sz >= 2 {
			return r[2:sz], true
		}
	}
	return nil, false
}

// parsePush: does b parse as exactly one well-formed PUSH segment of this conversation?
func parsePush(b []byte) (sn uint32, data []byte, ok bool) {
	if len(b) < 24 || binary.LittleEndian.Uint32(b) != conv || b[4] != 81 {
		return 0, nil, false
	}
	l := binary.LittleEndian.Uint32(b[20:])
	if int(l) > len(b)-24 {
		return 0, nil, false
	}
	return binary.LittleEndian.Uint32(b[12:]), b[24 : 24+l], true
}

// feed gives one wire packet to the decoder; s is the sender's record of it (nil for crafted
// packets).  Returns the decoder state afterwards.
func (x *runner) feed(pkt []byte, s *sent) kcp.VerifFECDecoderState {
	pre := x.dec.State()
	in := append([]byte(nil), pkt...)
	var rec [][]byte
	pm := hx.Try(func() { rec = x.dec.Decode(in) })
	x.o.Count("op:d")
	if pm != "" {
		x.logOp("d "+hx.Hex(pkt), "panic")
		x.o.Count("d:panic")
		if len(pkt) >= fecHdr && len(pkt) <= mtuLimit {
			x.viol("fec-panic", fmt.Sprintf("decode panicked on a %d-byte packet: %s", len(pkt), pm))
		}
		return pre
	}
	post := x.dec.State()
	recc := make([][]byte, len(rec))
	for i := range rec {
		recc[i] = append([]byte(nil), rec[i]...)
	}
	x.logOp("d "+hx.Hex(pkt), "rec="+hexList(recc)+" "+showDec(post))
	if x.keepRec {
		x.lastRec = recc
	}
	if len(rec) > 0 {
		x.o.Count("d:recovered-call")
		x.o.CountN("d:recovered-shards", len(rec))
	}
	if post.ShouldTune {
		x.o.Count("d:tuning")
	}
	// C05 "cannot bloat": after discardShards only the newest group and the maxShardSets groups behind
	// it are alive (Props/C05Fec: at most maxShardSets+1 shard sets, each with fewer than dataShards
	// packets of at most mtuLimit bytes) — for ANY packet sequence, forged ids included
	held := 0
	for _, st := range post.Sets {
		held += len(st.SeqIDs)
		if len(st.SeqIDs) >= max(post.DataShards, 1) && post.DataShards > 0 {
			x.viol("fec-shardsets-unbounded", fmt.Sprintf("decoder %d/%d: shard set %d holds %d packets (>= dataShards) after seq %d",
				post.DataShards, post.ParityShards, st.ID, len(st.SeqIDs), binary.LittleEndian.Uint32(pkt)))
		}
	}
	if len(post.Sets) > maxLiveSets {
		x.viol("fec-shardsets-unbounded", fmt.Sprintf("decoder %d/%d holds %d shard sets (%d packets) after seq %d (newestShardId %d); bound maxShardSets+1 = %d",
			post.DataShards, post.ParityShards, len(post.Sets), held, binary.LittleEndian.Uint32(pkt), post.NewestShardID, maxLiveSets))
	}
	if len(post.Sets) > x.maxSets {
		x.maxSets = len(post.Sets)
	}
	if post.DataShards != pre.DataShards || post.ParityShards != pre.ParityShards {
		x.retuned = true
		x.o.Count("d:ratio-changed")
	}
	if s == nil {
		return post
	}
	seq := s.seq
	matched := pre.DataShards == x.sd && pre.ParityShards == x.sp && !pre.ShouldTune
	n := uint32(pre.ShardSize)

	// --- C16 stable: a matching decoder is never disturbed by a genuine packet
	if matched && (post.ShouldTune || post.DataShards != x.sd || post.ParityShards != x.sp) {
		x.viol("fec-unstable", fmt.Sprintf("decoder %d/%d tune=false fed genuine seq %d of a %d/%d sender: now %d/%d tune=%v",
			pre.DataShards, pre.ParityShards, seq, x.sd, x.sp, post.DataShards, post.ParityShards, post.ShouldTune))
	}

	if matched {
		// --- C07: what must be returned, from the decoder's own shard set before the call
		var have []uint32
		for _, st := range pre.Sets {
			if st.ID == seq/n {
				have = st.SeqIDs
			}
		}
		dup := false
		for _, h := range have {
			if h == seq {
				dup = true
			}
		}
		var want [][]byte
		if !dup && seq < pre.Paws {
			content := append(append([]uint32(nil), have...), seq)
			if len(content) >= x.sd {
				present := map[uint32]bool{}
				maxlen := 0
				for _, c := range content {
					present[c] = true
					if q := x.bySeq[c]; q != nil && len(q.pkt)-fecHdr > maxlen {
						maxlen = len(q.pkt) - fecHdr
					}
				}
				base := seq / n * n
				for k := uint32(0); k < uint32(x.sd); k++ {
					if !present[base+k] {
						q := x.bySeq[base+k]
						if q == nil {
							continue
						}
						body := make([]byte, maxlen)
						copy(body, q.pkt[fecHdr:])
						want = append(want, body)
					}
				}
			}
			// horizon bookkeeping (un-wrapped sender groups)
			if s.g > x.newestG {
				x.newestG = s.g
			}
			x.fedG[s.g] = true
		}
		if len(want) != len(recc) {
			kind := "fec-recover-missing"
			if len(recc) > len(want) {
				kind = "fec-recover-spurious"
			}
			x.viol(kind, fmt.Sprintf("decoder %d/%d, seq %d (group %d) after shard set %v: returned %d shards, the absent data packets number %d",
				x.sd, x.sp, seq, seq/n, have, len(recc), len(want)))
		} else {
			for i := range want {
				if !bytes.Equal(want[i], recc[i]) {
					x.viol("fec-recover-wrong", fmt.Sprintf("decoder %d/%d, seq %d: recovered shard %d differs from the zero-padded original body\n got  %x\n want %x",
						x.sd, x.sp, seq, i, recc[i], want[i]))
					break
				}
				tr, ok := trim(recc[i])
				sz := int(binary.LittleEndian.Uint16(want[i]))
				if !ok || len(tr) != sz-2 || !bytes.Equal(tr, want[i][2:sz]) {
					x.viol("fec-recover-length", fmt.Sprintf("seq %d: trimmed recovery has length %d ok=%v, original payload %d", seq, len(tr), ok, sz-2))
					break
				}
			}
		}
		// --- horizon: groups within 2 of the newest that hold packets must still have their set
		if !dup && seq < pre.Paws && x.newestG-s.g <= 2 {
			found := false
			for _, st := range post.Sets {
				if st.ID == seq/n {
					found = true
				}
			}
			if !found {
				kind := "fec-horizon"
				if x.young {
					kind = "fec-newest-init" // fresh decoder (newestShardId = 0) whose first ids are >= 2^31
				} else if x.retuned {
					kind = "fec-horizon-after-tune" // C16: the decoder changed its ratio earlier in this history
				}
				x.viol(kind, fmt.Sprintf("decoder %d/%d: shard set of group %d (seq %d) is gone although the newest group fed is only %d ahead",
					x.sd, x.sp, seq/n, seq, x.newestG-s.g))
			}
		}
	} else {
		// --- C16 intact: a reconstruction under a ratio other than the sender's must not look
		// like a segment of the stream that was never sent
		for _, r := range recc {
			x.o.Count("d:recovered-while-mismatched")
			tr, ok := trim(r)
			if !ok {
				continue
			}
			genuine := false
			for _, q := range x.bySeq {
				if q.data && bytes.Equal(q.payload, tr) {
					genuine = true
					break
				}
			}
			if genuine {
				continue
			}
			if sn, data, ok := parsePush(tr); ok {
				orig, sentIt := x.sentPush[sn]
				if !sentIt || !bytes.Equal(orig, data) {
					x.viol("fec-mismatch-corrupts", fmt.Sprintf(
						"sender %d/%d, receiver %d/%d (tune=%v): packet seq %d made the decoder return a shard that passes the kcpInput size check and parses as PUSH conv=%x sn=%d len=%d, but the sender's segment sn=%d carried different data (first bytes got %x, sent %x)",
						x.sd, x.sp, pre.DataShards, pre.ParityShards, pre.ShouldTune, seq, conv, sn, len(data), sn, head(data, 8), head(orig, 8)))
				}
			} else if x.kcpMode {
				x.o.Count("d:mismatched-recovery-rejected-by-header")
			}
		}
	}
	return post
}

func head(b []byte, n int) []byte {
	if len(b) > n {
		return b[:n]
	}
	return b
}

// warm places a fresh decoder at position pos of the id space (as if it had been following the
// stream): ids more than 2^31 ahead of newestShardId would count as old.
func (x *runner) warm(pos uint32, n int) {
	if pos == 0 {
		return
	}
	id := pos / uint32(n)
	if id > 0 {
		id--
	}
	x.dec.SetNewestShardID(id)
	x.o.Count("op:newest")
	x.logOp(fmt.Sprintf("newest %d", id), "ok")
}

// ---------------------------------------------------------------------------------------------
// generators

var lenKinds = []string{"equal", "increasing", "one-max", "one-byte", "empty-and-mixed"}

func (x *runner) lengths(kind string, d int, big bool) []int {
	maxPayload := mtuLimit - x.off - fecHdr - 2
	if !big {
		maxPayload = 40
	}
	ls := make([]int, d)
	base := 24 + x.g.Intn(12)
	for i := range ls {
		switch kind {
		case "equal":
			ls[i] = base
		case "increasing":
			ls[i] = 1 + 7*i + x.g.Intn(3)
		case "one-max":
			ls[i] = 3 + x.g.Intn(30)
		case "one-byte":
			ls[i] = 1
		default:
			ls[i] = x.g.Intn(4) * x.g.Intn(20)
		}
		if ls[i] > maxPayload {
			ls[i] = maxPayload
		}
	}
	if kind == "one-max" {
		ls[x.g.Intn(d)] = maxPayload
	}
	return ls
}

// positions in the id space for a group size n: 0, mid-space, and the last groups before paws
func positions(g *hx.Rng, n int) []uint32 {
	paws := pawsOf(n)
	mid := uint32(uint64(g.U32())%uint64(paws)) / uint32(n) * uint32(n)
	return []uint32{0, mid, paws - 3*uint32(n), paws - 2*uint32(n), paws - uint32(n), 1<<31 - uint32(n) - (1<<31)%uint32(n)}
}

// permutations of 0..k-1 drawn from idx
func permute(idx []int, f func([]int)) {
	var rec func(int)
	a := append([]int(nil), idx...)
	rec = func(i int) {
		if i == len(a) {
			f(a)
			return
		}
		for j := i; j < len(a); j++ {
			a[i], a[j] = a[j], a[i]
			rec(i + 1)
			a[i], a[j] = a[j], a[i]
		}
	}
	rec(0)
}

// arrangements: every subset of 0..n-1 in every order (n ≤ 5) or `samples` random ones.
func arrangements(g *hx.Rng, n, samples int) [][]int {
	var out [][]int
	if n <= 5 {
		for mask := 0; mask < 1<<n; mask++ {
			var idx []int
			for i := 0; i < n; i++ {
				if mask>>i&1 == 1 {
					idx = append(idx, i)
				}
			}
			permute(idx, func(a []int) { out = append(out, append([]int(nil), a...)) })
		}
		return out
	}
	for s := 0; s < samples; s++ {
		var idx []int
		keep := 30 + g.Intn(70)
		for i := 0; i < n; i++ {
			if g.Chance(keep) {
				idx = append(idx, i)
			}
		}
		for i := len(idx) - 1; i > 0; i-- {
			j := g.Intn(i + 1)
			idx[i], idx[j] = idx[j], idx[i]
		}
		out = append(out, idx)
	}
	return out
}

// matchedBatch: fresh encoder and decoder of ratio d/p placed at pos; each arrangement uses the
// next group of the stream; packets held back from earlier groups arrive late, some are duplicated.
func (x *runner) matchedBatch(d, p, off int, pos uint32, arrs [][]int, lk string, big, interleave bool) {
	n := d + p
	x.key.Reset()
	x.o.Case("")
	x.kcpMode = x.g.Chance(30)
	x.newEnc(d, p, off, pos)
	x.newDec(d, p)
	x.warm(pos, n)
	x.o.Count(fmt.Sprintf("matched:%s", lk))
	x.o.Count(fmt.Sprintf("matched:n=%d", min(n, 9)))
	switch {
	case pos == 0:
		x.o.Count("pos:zero")
	case pawsOf(n)-pos <= 3*uint32(n):
		x.o.Count("pos:before-paws")
	default:
		x.o.Count("pos:mid")
	}
	if x.g.Chance(15) {
		// O3: decode of fewer than 6 bytes panics before touching the state (callers guard with >= 8)
		x.o.Count("d:short-packet")
		x.feed(x.g.Bytes(x.g.Intn(6)), nil)
	}
	var late []*sent
	for _, arr := range arrs {
		cont := !x.g.Chance(8)
		grp := x.emitGroup(x.lengths(lk, d, big), cont)
		if !cont {
			// parity skipped: only data packets exist; feed the data part of the arrangement
			var a2 []int
			for _, i := range arr {
				if i < d {
					a2 = append(a2, i)
				}
			}
			arr = a2
		}
		used := map[int]bool{}
		for _, i := range arr {
			used[i] = true
			x.feed(grp[i].pkt, grp[i])
			if x.g.Chance(12) {
				x.o.Count("d:duplicate")
				x.feed(grp[i].pkt, grp[i])
			}
			if interleave && len(late) > 0 && x.g.Chance(35) {
				x.o.Count("d:late-arrival")
				j := x.g.Intn(len(late))
				x.feed(late[j].pkt, late[j])
				late = append(late[:j], late[j+1:]...)
			}
		}
		if interleave {
			for i, s := range grp {
				if !used[i] && x.g.Chance(50) {
					late = append(late, s)
				}
			}
			if len(late) > 3*n {
				late = late[len(late)-3*n:]
			}
		}
	}
	x.o.Case(hx.HashKey(x.key.String()))
	x.o.Res.Cases--
}

// mismatchCase: sender sd/sp, receiver rd/rp, optional lossy pre-history, then an uninterrupted
// in-order run until the decoder has adopted the sender's ratio (packets counted against the
// bound 258+2(d+p)), then two groups with the first data packet dropped (recovery must work).
func (x *runner) mismatchCase(sd, sp, rd, rp int, start uint32, prehist int, lossy bool) {
	x.key.Reset()
	x.o.Case("")
	x.kcpMode = true
	x.newEnc(sd, sp, 0, start)
	x.newDec(rd, rp)
	if x.enc == nil || x.dec == nil {
		return
	}
	n := sd + sp
	x.warm(start, rd+rp)
	x.o.Count("mismatch:case")
	switch {
	case sd == rd && sp == rp:
		x.o.Count("mismatch:equal-ratio(stability)")
	case sd == rd:
		x.o.Count("mismatch:equal-d")
	default:
		x.o.Count("mismatch:different-d")
	}
	lens := []int{24 + 8 + x.g.Intn(8)}
	// pre-history: loss, duplication, reordering
	var pend []*sent
	for sentN := 0; sentN < prehist; {
		grp := x.emitGroup(lens, true)
		sentN += len(grp)
		for _, s := range grp {
			if x.alternate {
				// deterministic junk: every second packet is lost
				if s.seq%2 == 1 {
					continue
				}
				x.feed(s.pkt, s)
				continue
			}
			if lossy && x.g.Chance(25) {
				x.o.Count("pre:lost")
				continue
			}
			if lossy && x.g.Chance(15) {
				pend = append(pend, s)
				continue
			}
			x.feed(s.pkt, s)
			if lossy && x.g.Chance(10) {
				x.o.Count("pre:dup")
				x.feed(s.pkt, s)
			}
			if len(pend) > 0 && x.g.Chance(40) {
				x.o.Count("pre:reordered")
				x.feed(pend[0].pkt, pend[0])
				pend = pend[1:]
			}
		}
	}
	// a stray packet whose type contradicts its position (e.g. left over from an earlier session of
	// the peer): even a decoder that already has the sender's ratio starts tuning and must come back
	if x.inject {
		grp := x.emitGroup(lens, true)
		stray := append([]byte(nil), grp[0].pkt...)
		binary.LittleEndian.PutUint16(stray[4:], typeParit)
		x.o.Count("pre:stray-packet")
		x.feed(stray, nil)
	}
	// the uninterrupted run starts at any residue: the first `skip` packets of its first group are lost
	skip := x.g.Intn(n)
	if x.alternate {
		skip = 0
	}
	x.o.Count(fmt.Sprintf("run:start-residue=%d", min(skip, 8)))
	bound := 258 + 2*n
	count, convergedAt := 0, -1
	runStart := x.enc.State().Next + uint32(skip)
	overlaps := false
	limit := bound + 700
	if n > 255 {
		limit = bound + 40
	}
	for convergedAt < 0 && count < limit {
		grp := x.emitGroup(lens, true)
		for _, s := range grp[min(skip, len(grp)):] {
			pre := x.dec.State()
			if s.seq >= pre.Paws {
				overlaps = true
			}
			post := x.feed(s.pkt, s)
			count++
			if convergedAt < 0 && post.DataShards == sd && post.ParityShards == sp && !post.ShouldTune {
				convergedAt = count
			}
		}
		skip = 0
	}
	if convergedAt >= 0 {
		x.o.Count(fmt.Sprintf("converge:packets<=%d", convBucket(convergedAt)))
	} else {
		x.o.Count("converge:never")
	}
	if n > 255 {
		// outside the property (d+p <= 255): the decoder refuses to adopt a ratio with d+p >= 256 and
		// keeps tuning; only the correspondence with the model is checked
		x.o.Count("converge:sender-sum-256")
	} else if convergedAt < 0 || convergedAt > bound {
		kind := "fec-converge-bound"
		if overlaps {
			kind = "fec-converge-near-paws"
		}
		x.viol(kind, fmt.Sprintf("sender %d/%d, receiver %d/%d (paws' %d), uninterrupted run from id %d after %d pre-history packets: ratio adopted after %d packets (-1 = not within %d), bound 258+2(d+p) = %d",
			sd, sp, rd, rp, pawsOf(rd+rp), runStart, prehist, convergedAt, count, bound))
	}
	if convergedAt >= 0 {
		// recovery after convergence: drop the first data packet of the next two groups; each
		// group must yield exactly that packet
		for k := 0; k < 2; k++ {
			grp := x.emitGroup(lens, true)
			var got [][]byte
			for i, s := range grp {
				if i == 0 {
					continue
				}
				got = append(got, x.feedRec(s)...)
			}
			// (the dropped packet must come back; later packets of the group may recover it again
			// — what exactly each call returns is checked by the C07 oracle in feed)
			ok := false
			for _, r := range got {
				if tr, tok := trim(r); tok && bytes.Equal(tr, grp[0].payload) {
					ok = true
				}
			}
			if !ok {
				x.viol("fec-no-recovery-after-converge", fmt.Sprintf(
					"sender %d/%d, receiver started %d/%d and adopted the sender's ratio after %d packets of the run from id %d; in group %d after that the first data packet (seq %d) was dropped and all %d others delivered in order: %d shards recovered, the dropped packet is not among them",
					sd, sp, rd, rp, convergedAt, runStart, k+1, grp[0].seq, len(grp)-1, len(got)))
				break
			}
			x.o.Count("converge:recovery-works")
		}
	}
	x.o.Case(hx.HashKey(x.key.String()))
	x.o.Res.Cases--
}

func convBucket(c int) int {
	for _, b := range []int{8, 32, 128, 262, 300, 520, 770} {
		if c <= b {
			return b
		}
	}
	return 99999
}

// youngDecoder: a FRESH decoder (newestShardId = 0, no preset) whose first packets have ids at pos;
// every group loses its first data packet and must recover it.  Regression for finding D13 (kind
// fec-newest-init): before the repair ("the discard horizon starts at the first packet when no
// shard set exists") a decoder joining at ids >= 2^31 never advanced newestShardId (the signed
// comparison with 0 is negative) and discarded every shard set at once.
func (x *runner) youngDecoder(d, p int, pos uint32, groups int) {
	x.key.Reset()
	x.o.Case("")
	x.o.Count("scenario:young-decoder")
	x.kcpMode = false
	x.newEnc(d, p, 0, pos)
	x.newDec(d, p)
	x.young = true
	defer func() { x.young = false }()
	lens := []int{20, 33, 7}
	for k := 0; k < groups; k++ {
		grp := x.emitGroup(lens, true)
		var got [][]byte
		for i, s := range grp {
			if i == 0 {
				continue
			}
			got = append(got, x.feedRec(s)...)
		}
		ok := false
		for _, r := range got {
			if tr, tok := trim(r); tok && bytes.Equal(tr, grp[0].payload) {
				ok = true
			}
		}
		if !ok {
			x.viol("fec-newest-init", fmt.Sprintf(
				"fresh %d/%d decoder (newestShardId 0) whose first packets have ids from %d: group %d lost its first data packet (seq %d), the other %d packets arrived in order, nothing was recovered (%d shards returned)",
				d, p, pos, k, grp[0].seq, len(grp)-1, len(got)))
			break
		}
		x.o.Count("young:recovery-works")
	}
	x.o.Case(hx.HashKey(x.key.String()))
	x.o.Res.Cases--
}

// crafted builds a forged packet with the given id whose type matches its position under d/n (so that
// the decoder does not start tuning) and a small payload.
func (x *runner) crafted(id uint32, d, n int) []byte {
	pl := x.g.Bytes(1 + x.g.Intn(6))
	b := make([]byte, fecHdr+2+len(pl))
	binary.LittleEndian.PutUint32(b, id)
	t := uint16(typeParit)
	if int(id%uint32(n)) < d {
		t = typeData
	}
	binary.LittleEndian.PutUint16(b[4:], t)
	binary.LittleEndian.PutUint16(b[6:], uint16(len(pl)+2))
	copy(b[8:], pl)
	return b
}

// hostileIDs feeds forged id sequences to a fresh decoder (C05: arbitrary byte strings cannot bloat the
// decoder).  The bound on live shard sets / held packets is checked in feed after every packet.
//
//	antipodal   ids exactly 2^31 away from the newest group (the fixed point of the signed comparison:
//	            int32(a-b) = int32(b-a) = -2^31), alternating with ids that advance the newest group
//	farjump     the newest group jumps by almost 2^31 so that the groups just behind it appear "ahead"
//	alternate   two far-apart id ranges alternating
//	high        ids >= 2^31 on a young decoder
//	paws        ids around the wrap value
//	random      uniformly random ids
func (x *runner) hostileIDs(d, p int, pattern string, steps int) {
	x.key.Reset()
	x.o.Case("")
	x.o.Count("hostile:" + pattern)
	x.kcpMode = false
	x.newEnc(d, p, 0, 0) // unused; keeps the sender bookkeeping defined
	x.newDec(d, p)
	n := d + p
	un := uint32(n)
	paws := pawsOf(n)
	base := (x.g.U32() % (1 << 30)) / un * un
	cur := base
	caseMax := 0
	for i := 0; i < steps; i++ {
		var id uint32
		switch pattern {
		case "antipodal":
			if i%2 == 0 {
				cur += un // advance the newest group by one
				id = cur
			} else {
				id = cur + 1<<31 // exactly opposite (a group start iff n divides 2^31)
			}
		case "farjump":
			switch i % 5 {
			case 0:
				cur += 1<<31 - un*uint32(1+x.g.Intn(3))
				cur = cur / un * un
				id = cur
			default:
				id = cur - un*uint32(i%5-1) // the groups 0..3 behind the newest
			}
		case "alternate":
			if i%2 == 0 {
				id = base + uint32(i)*un
			} else {
				id = base + 1<<31 + uint32(x.g.Intn(5))*un + uint32(i)*un
			}
		case "high":
			id = 1<<31 + x.g.U32()%(1<<30)
		case "paws":
			id = paws - uint32(x.g.Intn(6*n)) + uint32(x.g.Intn(3*n))
		default:
			id = x.g.U32()
		}
		id += uint32(x.g.Intn(n)) % un // any position inside the group
		st := x.feed(x.crafted(id, d, n), nil)
		caseMax = max(caseMax, len(st.Sets))
	}
	x.o.Count(fmt.Sprintf("hostile-max-sets:%s:%d/%d=%d", pattern, d, p, caseMax))
	x.oversizeLast(d, n, cur+5*un)
	x.o.Case(hx.HashKey(x.key.String()))
	x.o.Res.Cases--
}

// oversizeLast ends a case with inputs longer than a pool buffer (the callers never pass them: receive
// buffers are mtuLimit bytes).  One that is dropped before the copy (id >= paws) must not panic; one that
// reaches `Get()[:len(in)]` panics in the real code and in the model alike — the decoder is abandoned
// afterwards (what follows a panic is not modelled), so this is the last op of the case.
func (x *runner) oversizeLast(d, n int, id uint32) {
	big := func(id uint32) []byte {
		b := make([]byte, mtuLimit+1+x.g.Intn(200))
		copy(b, x.crafted(id, d, n)[:fecHdr+2])
		return b
	}
	x.o.Count("d:oversize-dropped")
	x.feed(big(pawsOf(n)+uint32(x.g.Intn(int(0xffffffff-pawsOf(n))+1))), nil)
	if x.dec.State().ShouldTune {
		return // the tuning branch returns before the copy
	}
	x.o.Count("d:oversize-stored")
	x.feed(big(id/uint32(n)*uint32(n)), nil)
}

// d10Witness replays the D10 history on the real encoder, decoder and two real KCP cores:
// sender 3/1, receiver 2/2, three full-size segments sn 0,1,2 (ids 0,1,2) and parity id 3;
// the receiver gets id 0 and id 3, ids 1 and 2 are lost and retransmitted later.
func (x *runner) d10Witness() {
	x.key.Reset()
	x.o.Case("d10-witness")
	x.o.Count("scenario:d10-witness")
	var wire [][]byte
	snd := kcp.NewKCP(conv, func(buf []byte, size int) { wire = append(wire, append([]byte(nil), buf[:size]...)) })
	snd.NoDelay(1, 10, 2, 1)
	snd.WndSize(128, 128)
	rcv := kcp.NewKCP(conv, func(buf []byte, size int) {})
	rcv.NoDelay(1, 10, 2, 1)
	rcv.WndSize(128, 128)
	var written []byte
	for i := 0; i < 3; i++ {
		msg := x.g.Bytes(1376)
		written = append(written, msg...)
		snd.Send(msg)
	}
	snd.Update()
	if len(wire) != 3 {
		x.o.Note(fmt.Sprintf("d10-witness: sender core emitted %d datagrams instead of 3, scenario skipped", len(wire)))
		return
	}
	x.kcpMode = false
	x.newEnc(3, 1, 0, 0)
	x.newDec(2, 2)
	var pkts []*sent
	for _, seg := range wire {
		// register what the sender's core really sent, for the FEC-level oracle
		if sn, data, ok := parsePush(seg); ok {
			x.sentPush[sn] = append([]byte(nil), data...)
		}
		pkts = append(pkts, x.emit(seg, true)...)
	}
	if len(pkts) != 4 {
		return
	}
	input := func(s *sent) {
		if s.data {
			rcv.Input(s.pkt[fecHdr+2:], kcp.IKCP_PACKET_REGULAR, false)
		}
		pre := x.dec.State()
		_ = pre
		before := len(x.o.Res.Violations)
		_ = before
		// the decoder call is logged and checked by feed; the recovered shards are replayed into the core
		recs := x.feedRec(s)
		for _, r := range recs {
			if tr, ok := trim(r); ok {
				rcv.Input(tr, kcp.IKCP_PACKET_FEC, false)
			}
		}
	}
	input(pkts[0]) // id 0 (data, sn 0)
	input(pkts[3]) // id 3 (parity of the 3/1 code, taken for parity of the 2/2 code)
	// the genuine retransmissions of sn 1 and sn 2 arrive afterwards
	input(pkts[1])
	input(pkts[2])
	var got []byte
	buf := make([]byte, 4096)
	for {
		n := rcv.Recv(buf)
		if n <= 0 {
			break
		}
		got = append(got, buf[:n]...)
	}
	if !bytes.Equal(got, written[:min(len(got), len(written))]) {
		at := 0
		for at < len(got) && at < len(written) && got[at] == written[at] {
			at++
		}
		x.viol("fec-mismatch-corrupts-stream", fmt.Sprintf(
			"D10 witness on the real encoder, decoder and KCP cores: sender 3/1, receiver 2/2, ids 0 and 3 arrive, 1 and 2 are late: the reader receives %d bytes that differ from the %d bytes written from offset %d on (the bogus reconstruction was accepted as sn=1 and the genuine retransmission discarded as a duplicate)",
			len(got), len(written), at))
	} else {
		x.o.Count("d10-witness:stream-intact")
	}
}

// feedRec is feed, additionally returning copies of the recovered shards.
func (x *runner) feedRec(s *sent) [][]byte {
	x.lastRec = nil
	x.keepRec = true
	x.feed(s.pkt, s)
	x.keepRec = false
	return x.lastRec
}

var bigPairs = [][2]int{{10, 3}, {20, 20}, {200, 50}, {1, 254}, {254, 1}, {128, 127}, {100, 100}, {13, 200}}

// Run generates the cases.
func Run(o *hx.Out, g *hx.Rng, tier string) {
	o.Res.Rule = "a case is one history (fresh encoder + decoder, placement in the id space, packet-length vector, arrival pattern); distinct = hash of its op lines; non-trivial = at least one packet decoded"
	// hx.NewRng(seed) starts at seed·γ + c and steps by γ, so consecutive seeds walk the same orbit one
	// step apart and their streams merge; forking scrambles the seed through the output function
	g = g.Fork()
	x := &runner{o: o, g: g}
	thorough := tier == "thorough"

	// constants the model takes from Generated.lean, as compiled into the package
	c := kcp.VerifFECConstants()
	o.Note(fmt.Sprintf("compiled constants: %v", c))

	// --- C07: exhaustive small ratios
	batch := 6
	for d := 1; d <= 4; d++ {
		for p := 1; p <= 4; p++ {
			n := d + p
			samples := 36
			if thorough {
				samples = 2000
			}
			arrs := arrangements(g, n, samples)
			poss := positions(g, n)
			rounds := 1
			if n <= 5 {
				rounds = 3
				if thorough {
					rounds = len(poss) // every arrangement at every placement
				}
			}
			for r := 0; r < rounds; r++ {
				for i, b := 0, 0; i < len(arrs); i, b = i+batch, b+1 {
					j := min(i+batch, len(arrs))
					pos := poss[(b+r)%len(poss)]
					lk := lenKinds[(b/len(poss)+r)%len(lenKinds)]
					off := []int{0, 20}[b%2]
					big := lk == "one-max" && (thorough || b%7 == 0)
					if lk == "one-max" && !big {
						lk = "increasing"
					}
					x.matchedBatch(d, p, off, pos, arrs[i:j], lk, big, b%3 != 0)
				}
			}
		}
	}
	// --- C07: sampled large ratios (short packets; the model inverts d x d matrices)
	nbig := 1
	if thorough {
		nbig = 4
	}
	pairs := bigPairs
	if !thorough {
		// quick: three moderate pairs and one of the extreme ones (chosen by the seed)
		pairs = [][2]int{{10, 3}, {20, 20}, {64, 32}, bigPairs[2+g.Intn(len(bigPairs)-2)]}
	}
	for _, dp := range pairs {
		for r := 0; r < nbig; r++ {
			d, p := dp[0], dp[1]
			n := d + p
			poss := positions(g, n)
			arrs := arrangements(g, 6, 3) // placeholder shape, replaced below
			arrs = arrs[:0]
			for k := 0; k < 3; k++ {
				// lose between 0 and p packets (recoverable), once p+1 (not recoverable)
				lose := g.Intn(p + 1)
				if k == 2 {
					lose = min(p+1, n)
				}
				perm := make([]int, n)
				for i := range perm {
					perm[i] = i
				}
				for i := n - 1; i > 0; i-- {
					j := g.Intn(i + 1)
					perm[i], perm[j] = perm[j], perm[i]
				}
				arrs = append(arrs, perm[:n-lose])
			}
			x.matchedBatch(d, p, 0, poss[(r+d)%len(poss)], arrs, "increasing", false, false)
		}
	}

	// --- C16: every pair of small ratios
	for sd := 1; sd <= 4; sd++ {
		for sp := 1; sp <= 4; sp++ {
			for rd := 1; rd <= 4; rd++ {
				for rp := 1; rp <= 4; rp++ {
					reps := 1
					if thorough {
						reps = 4
					}
					for r := 0; r < reps; r++ {
						n := sd + sp
						start := uint32(g.Intn(3) * n)
						if g.Chance(25) {
							start = pawsOf(n) - uint32((1+g.Intn(40))*n) // the sender wraps during the run
						}
						pre := 0
						lossy := false
						if g.Chance(40) || thorough && r > 0 {
							pre = 10 + g.Intn(60)
							lossy = true
						}
						x.inject = sd == rd && sp == rp || g.Chance(10)
						x.mismatchCase(sd, sp, rd, rp, start, pre, lossy)
						x.inject = false
					}
				}
			}
		}
	}
	// --- C16: sampled large pairs, starts near the sender's and the receiver's wrap
	type mm struct{ sd, sp, rd, rp int }
	big := []mm{{10, 3, 10, 1}, {10, 1, 10, 3}, {10, 3, 1, 1}, {1, 1, 10, 3}, {20, 5, 3, 3}, {3, 3, 20, 5}}
	if thorough {
		big = append(big, mm{200, 50, 10, 3}, mm{1, 254, 1, 1}, mm{254, 1, 10, 3}, mm{128, 127, 100, 100}, mm{10, 3, 200, 50}, mm{1, 1, 128, 127})
	} else {
		big = append(big, mm{100, 27, 10, 3}, mm{10, 3, 100, 27})
	}
	for _, m := range big {
		n := m.sd + m.sp
		starts := []uint32{0, pawsOf(n) - uint32(n*(1+g.Intn(300/n+2)))}
		for _, st := range starts {
			// keep the run below the receiver's own paws' unless this is the D9 scenario below
			if pr := pawsOf(m.rd + m.rp); st > pr-2000 && pr < pawsOf(n) {
				st = (pr - 2000) / uint32(n) * uint32(n)
			}
			x.mismatchCase(m.sd, m.sp, m.rd, m.rp, st, g.Intn(80), true)
		}
	}
	// --- C07: fresh decoders joining a stream anywhere in the id space (no newestShardId preset)
	for _, dp := range [][2]int{{2, 1}, {10, 3}, {1, 1}} {
		n := uint32(dp[0] + dp[1])
		for _, pos := range []uint32{0, 3 * n, 1 << 20 / n * n, (1<<31 - 1000) / n * n, 1 << 31 / n * n, (1<<31 + 1<<20) / n * n, 3 << 30 / n * n,
			(1<<31 + g.U32()>>1) / n * n, pawsOf(int(n)) - 2*n, pawsOf(int(n)) - 13*n} {
			x.youngDecoder(dp[0], dp[1], pos, 12)
		}
	}
	// --- C05: forged id sequences against the bound on live shard sets
	hsteps := 120
	if thorough {
		hsteps = 1500
	}
	for _, dp := range [][2]int{{1, 1}, {2, 2}, {10, 3}, {3, 5}, {5, 3}, {128, 128}, {20, 12}} {
		for _, pat := range []string{"antipodal", "farjump", "alternate", "high", "paws", "random"} {
			x.hostileIDs(dp[0], dp[1], pat, hsteps)
		}
	}
	o.Note(fmt.Sprintf("largest number of live shard sets observed: %d (bound %d)", x.maxSets, maxLiveSets))
	// --- a sender with d+p = 256 (the largest the encoder accepts): never adopted
	x.mismatchCase(128, 128, 10, 3, 0, 0, false)
	// --- D9: the run overlaps [paws' of the receiver, paws of the sender)
	o.Count("scenario:d9-near-paws")
	// (the junk of the pre-history leaves the window while the ids are in the blind zone)
	// with 40 pre-history ids of which every second is lost: the window is clean after about 258
	// packets of the run, i.e. at id paws'+30, and tuning resumes only at the wrap, 323 packets in
	x.alternate = true
	x.mismatchCase(1, 1, 100, 100, pawsOf(200)-258+30-40, 40, true)
	x.alternate = false
	// --- D10: the witness on real cores
	x.d10Witness()
}
