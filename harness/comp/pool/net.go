package pool

import (
	"bytes"
	"crypto/aes"
	"crypto/cipher"
	"fmt"
	"net"
	"sync"
	"sync/atomic"
	"time"

	kcp "github.com/xtaci/kcp-go/v5"
	"verif/harness/internal/hx"
)

// poisonRun is the number of consecutive VerifPoison bytes that counts as "recycled memory was
// read": payload patterns never repeat a byte, ciphertext/nonces are random (2^-64 per position).
const poisonRun = 8

var poisonPat = bytes.Repeat([]byte{kcp.VerifPoison}, poisonRun)

type memAddr string

func (a memAddr) Network() string { return "mem" }
func (a memAddr) String() string  { return string(a) }

type pkt struct {
	from memAddr
	data []byte
}

// memNet is an in-memory datagram network with loss, duplication, a stall switch (a socket
// whose send buffer is full) and the wire oracles of C15.
type memNet struct {
	mu    sync.Mutex
	cond  *sync.Cond
	conns map[memAddr]*memConn
	g     *hx.Rng
	loss  int // percent
	dup   int // percent
	stall map[memAddr]bool
	view  func(d []byte) []byte // plaintext view of a datagram for the poison oracle (nil: raw only)

	writes, delivered, dropped atomic.Int64
	findings                   []string // "kind: detail"
}

func newMemNet(g *hx.Rng) *memNet {
	n := &memNet{conns: map[memAddr]*memConn{}, g: g, stall: map[memAddr]bool{}}
	n.cond = sync.NewCond(&n.mu)
	return n
}

func (n *memNet) note(kind, detail string) {
	n.mu.Lock()
	if len(n.findings) < 20 {
		n.findings = append(n.findings, kind+": "+detail)
	}
	n.mu.Unlock()
}

func (n *memNet) setStall(a memAddr, on bool) {
	n.mu.Lock()
	n.stall[a] = on
	n.mu.Unlock()
	n.cond.Broadcast()
}

func (n *memNet) setFaults(loss, dup int) {
	n.mu.Lock()
	n.loss, n.dup = loss, dup
	n.mu.Unlock()
}

type memConn struct {
	n       *memNet
	addr    memAddr
	inbox   chan pkt
	closed  chan struct{}
	once    sync.Once
	blocked atomic.Int32 // goroutines blocked in ReadFrom
	taken   atomic.Int64
}

func (n *memNet) listen(a memAddr) *memConn {
	c := &memConn{n: n, addr: a, inbox: make(chan pkt, 8192), closed: make(chan struct{})}
	n.mu.Lock()
	n.conns[a] = c
	n.mu.Unlock()
	return c
}

func (c *memConn) isClosed() bool {
	select {
	case <-c.closed:
		return true
	default:
		return false
	}
}

func (c *memConn) ReadFrom(p []byte) (int, net.Addr, error) {
	if c.isClosed() {
		return 0, nil, net.ErrClosed
	}
	c.blocked.Add(1)
	defer c.blocked.Add(-1)
	select {
	case pk := <-c.inbox:
		c.taken.Add(1)
		return copy(p, pk.data), pk.from, nil
	case <-c.closed:
		return 0, nil, net.ErrClosed
	}
}

func hasPoisonRun(d []byte) int { return bytes.Index(d, poisonPat) }

func (c *memConn) WriteTo(p []byte, addr net.Addr) (int, error) {
	if c.isClosed() {
		return 0, net.ErrClosed
	}
	n := c.n
	n.writes.Add(1)
	// oracle: the datagram's buffer must be owned by the sender now (not in the pool)
	if !kcp.VerifPoolUse(p) {
		n.note("pool-use-after-put", fmt.Sprintf("%s handed a %d-byte datagram to WriteTo in a buffer that is in the pool", c.addr, len(p)))
	}
	// oracle: recycled memory must not reach the wire
	if i := hasPoisonRun(p); i >= 0 {
		n.note("pool-read-after-put", fmt.Sprintf("%s sent a %d-byte datagram with %d+ poison bytes at offset %d (raw)", c.addr, len(p), poisonRun, i))
	} else if n.view != nil {
		if v := n.view(p); v != nil {
			if i := hasPoisonRun(v); i >= 0 {
				n.note("pool-read-after-put", fmt.Sprintf("%s sent a %d-byte datagram with %d+ poison bytes at plaintext offset %d", c.addr, len(p), poisonRun, i))
			}
		}
	}
	n.mu.Lock()
	for n.stall[c.addr] && !c.isClosed() {
		n.cond.Wait()
	}
	if c.isClosed() {
		n.mu.Unlock()
		return 0, net.ErrClosed
	}
	copies := 1
	if n.loss > 0 && n.g.Intn(100) < n.loss {
		copies = 0
	} else if n.dup > 0 && n.g.Intn(100) < n.dup {
		copies = 2
	}
	dst := n.conns[memAddr(addr.String())]
	n.mu.Unlock()
	if dst == nil || dst.isClosed() {
		copies = 0
	}
	if copies == 0 {
		n.dropped.Add(1)
	}
	for i := 0; i < copies; i++ {
		select {
		case dst.inbox <- pkt{c.addr, append([]byte(nil), p...)}:
			n.delivered.Add(1)
		default:
			n.dropped.Add(1)
		}
	}
	return len(p), nil
}

func (c *memConn) Close() error {
	c.once.Do(func() { close(c.closed) })
	c.n.cond.Broadcast()
	return nil
}
func (c *memConn) LocalAddr() net.Addr                { return c.addr }
func (c *memConn) SetDeadline(t time.Time) error      { return nil }
func (c *memConn) SetReadDeadline(t time.Time) error  { return nil }
func (c *memConn) SetWriteDeadline(t time.Time) error { return nil }

// ---------------------------------------------------------------------------------------------
// ciphers

type cryptKind struct {
	name   string
	keyLen int
	mk     func(key []byte) (kcp.BlockCrypt, error)
	aead   bool
}

var cryptKinds = []cryptKind{
	{"nil", 0, nil, false},
	{"none", 16, kcp.NewNoneBlockCrypt, false},
	{"xor", 32, kcp.NewSimpleXORBlockCrypt, false},
	{"aes", 32, kcp.NewAESBlockCrypt, false},
	{"aes-gcm", 32, kcp.NewAESGCMCrypt, true},
	{"salsa20", 32, kcp.NewSalsa20BlockCrypt, false},
	{"sm4", 16, kcp.NewSM4BlockCrypt, false},
	{"tea", 16, kcp.NewTEABlockCrypt, false},
	{"xtea", 16, kcp.NewXTEABlockCrypt, false},
	{"twofish", 32, kcp.NewTwofishBlockCrypt, false},
	{"3des", 24, kcp.NewTripleDESBlockCrypt, false},
	{"cast5", 16, kcp.NewCast5BlockCrypt, false},
	{"blowfish", 32, kcp.NewBlowfishBlockCrypt, false},
}

func (k cryptKind) make(key []byte) kcp.BlockCrypt {
	if k.mk == nil {
		return nil
	}
	b, err := k.mk(key)
	if err != nil {
		panic("pool: cipher " + k.name + ": " + err.Error())
	}
	return b
}

// plainView returns the function that turns a datagram into its plaintext for the poison scan,
// using an instance of the cipher that is independent of the sessions'.
func (k cryptKind) plainView(key []byte) func([]byte) []byte {
	switch {
	case k.mk == nil:
		return nil
	case k.aead:
		blk, _ := aes.NewCipher(key)
		gcm, _ := cipher.NewGCM(blk)
		return func(d []byte) []byte {
			if len(d) < gcm.NonceSize()+gcm.Overhead() {
				return nil
			}
			out, err := gcm.Open(nil, d[:gcm.NonceSize()], d[gcm.NonceSize():], nil)
			if err != nil {
				return nil
			}
			return out
		}
	default:
		dec := k.make(key)
		var mu sync.Mutex
		return func(d []byte) []byte {
			if len(d) < 20 {
				return nil
			}
			cp := append([]byte(nil), d...)
			mu.Lock()
			dec.Decrypt(cp, cp)
			mu.Unlock()
			return cp[16:]
		}
	}
}
