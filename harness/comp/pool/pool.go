// Package pool: component `pool` (C15) — buffer-pool sanitizer and lifecycle (leak) oracles on
// real sessions over an in-memory network, plus the sanitizer's event log as trace-acceptance
// input for the Lean acceptor (driver component `pool`, Model/Pool.lean).
//
// Op lines (case start "reset"):
//
//	reset                forget all buffers                      impl: ok
//	g N | p N | u N      one sanitizer event, buffer id N        impl: the Go sanitizer's verdict
//	log gN pN …          the whole event log of one history      impl: ok / first finding
//	cap N                bufferPool.Put on a buffer of capacity N impl: accept / refuse
package pool

import (
	"net"
	"errors"
	"encoding/binary"
	"fmt"
	"runtime"
	"sort"
	"strings"
	"sync"
	"sync/atomic"
	"time"

	kcp "github.com/xtaci/kcp-go/v5"
	"verif/harness/internal/hx"
)

// ---------------------------------------------------------------------------------------------
// the harness-owned scheduler: SystemTimedSched is the zero value (no goroutines, Put only
// appends); the harness takes the submitted tasks and runs them by hand.

type pumper struct {
	sch     *kcp.TimedSched
	pending []func()
	ran     int
	panics  []string
}

func (p *pumper) take() {
	fs, _ := kcp.VerifSchedTake(p.sch)
	p.pending = append(p.pending, fs...)
}

// round runs every callback that is pending now, once; returns how many ran.
func (p *pumper) round() int {
	p.take()
	cur := p.pending
	p.pending = nil
	for _, f := range cur {
		if msg := hx.Try(f); msg != "" {
			p.panics = append(p.panics, msg)
		}
		p.ran++
	}
	p.take()
	return len(cur)
}

// ---------------------------------------------------------------------------------------------

func pat(tag, k int) byte { return byte((k*7 + (k/251)*3 + tag*29) % 251) }

func fill(tag, off, n int) []byte {
	b := make([]byte, n)
	for i := range b {
		b[i] = pat(tag, off+i)
	}
	return b
}

type endpoint struct {
	name    string
	s       *kcp.UDPSession
	tag     int // pattern of what this endpoint writes
	peerTag int // pattern of what it must read
	wrote   int
	read    int
	closed  bool
	oobSeen atomic.Int64
}

type cfg struct {
	crypt       cryptKind
	key         []byte
	cds, cps    int // client FEC
	sds, sps    int // listener FEC
	loss, dup   int
	sdup        int
	nclients    int
	ownConn     bool
	mtu, wnd    int
	stream      bool
	ackNoDelay  bool
	writeDelay  bool
	rate        bool
	scenario    string // idle | mid | fullq | recovery | backlog
	concurrent  bool   // Close calls race with traffic and with each other
	steps       int
	closeOrder  []string
	fecMismatch bool
}

func (c cfg) String() string {
	return fmt.Sprintf("crypt=%s fec=c%d/%d,s%d/%d loss=%d dup=%d sdup=%d n=%d own=%v mtu=%d wnd=%d stream=%v acknd=%v wdelay=%v rate=%v scen=%s conc=%v steps=%d order=%s",
		c.crypt.name, c.cds, c.cps, c.sds, c.sps, c.loss, c.dup, c.sdup, c.nclients, c.ownConn, c.mtu, c.wnd, c.stream, c.ackNoDelay,
		c.writeDelay, c.rate, c.scenario, c.concurrent, c.steps, strings.Join(c.closeOrder, ","))
}

type hist struct {
	o      *hx.Out
	g      *hx.Rng
	c      cfg
	net    *memNet
	pump   *pumper
	l      *kcp.Listener
	sconn  *memConn
	cl     []*endpoint
	cconn  []*memConn
	acc    []*endpoint // index = client index; nil if not accepted
	extra  *endpoint   // backlog scenario: a client whose server side is never accepted
	xconn  *memConn
	trace  []string
	mu     sync.Mutex // guards found
	found  []hx.Violation
	lClose bool
}

func (h *hist) step(s string) { h.trace = append(h.trace, s) }

func (h *hist) viol(kind, detail string) {
	h.mu.Lock()
	defer h.mu.Unlock()
	for _, v := range h.found {
		if v.Kind == kind {
			return // one per kind and history
		}
	}
	h.found = append(h.found, hx.Violation{Kind: kind, Detail: detail})
}

func (h *hist) tune(s *kcp.UDPSession) {
	s.SetNoDelay(1, 10, 2, 1)
	s.SetWindowSize(h.c.wnd, h.c.wnd)
	s.SetMtu(h.c.mtu)
	s.SetACKNoDelay(h.c.ackNoDelay)
	s.SetStreamMode(h.c.stream)
	s.SetWriteDelay(h.c.writeDelay)
	if h.c.sdup > 0 {
		s.SetDUP(h.c.sdup)
	}
	if h.c.rate {
		s.SetRateLimit(50 << 20)
	}
}

func (h *hist) oobHandler(e *endpoint) {
	if err := e.s.SetOOBHandler(func(d []byte) {
		e.oobSeen.Add(1)
		if i := hasPoisonRun(d); i >= 0 {
			h.viol("pool-read-after-put", fmt.Sprintf("%s: OOB callback got %d bytes with a poison run at %d", e.name, len(d), i))
		}
	}); err != nil {
		_ = err // FEC off: OOB unsupported
	}
}

func (h *hist) newClient(i int, name string) (*endpoint, *memConn) {
	conn := h.net.listen(memAddr(name))
	s, err := kcp.NewConn4(uint32(1000+i), memAddr("S"), h.c.crypt.make(h.c.key), h.c.cds, h.c.cps, h.c.ownConn, conn)
	if err != nil {
		panic(err)
	}
	e := &endpoint{name: name, s: s, tag: 2 * i, peerTag: 2*i + 1}
	h.tune(s)
	h.oobHandler(e)
	return e, conn
}

func (h *hist) setup() {
	h.net = newMemNet(h.g.Fork())
	h.net.view = h.c.crypt.plainView(h.c.key)
	h.sconn = h.net.listen("S")
	l, err := kcp.ServeConn(h.c.crypt.make(h.c.key), h.c.sds, h.c.sps, h.sconn)
	if err != nil {
		panic(err)
	}
	h.l = l
	h.acc = make([]*endpoint, h.c.nclients)
	for i := 0; i < h.c.nclients; i++ {
		e, conn := h.newClient(i, fmt.Sprintf("c%d", i))
		h.cl = append(h.cl, e)
		h.cconn = append(h.cconn, conn)
	}
}

// settle waits until the network and the sessions' post-processing queues are quiet: no
// datagram waiting in an open inbox, no request queued, and no counter moved for a few polls.
func (h *hist) settle() {
	var prev [4]int64
	stable := 0
	deadline := time.Now().Add(40 * time.Millisecond)
	for time.Now().Before(deadline) {
		var cur [4]int64
		cur[0] = h.net.writes.Load()
		waiting := 0
		h.net.mu.Lock()
		for _, c := range h.net.conns {
			cur[1] += c.taken.Load()
			if !c.isClosed() && c.blocked.Load() > 0 {
				waiting += len(c.inbox) // somebody is reading this inbox and it is not empty
			}
		}
		h.net.mu.Unlock()
		var closedQ int64
		for _, e := range h.all() {
			// requests queued on a closed session whose postProcess has returned stay there for
			// ever: they only have to be stable, not zero
			if q, dead := kcp.VerifSessionBacklog(e.s); dead {
				closedQ += int64(q)
			} else {
				cur[2] += int64(q)
			}
		}
		g, p := kcp.VerifPoolCounts()
		cur[3] = int64(g+p) + closedQ
		if cur == prev && waiting == 0 && cur[2] == 0 {
			stable++
			if stable >= 4 {
				return
			}
		} else {
			stable = 0
		}
		prev = cur
		if stable < 2 {
			runtime.Gosched()
		} else {
			time.Sleep(50 * time.Microsecond)
		}
	}
}

func (h *hist) all() []*endpoint {
	var es []*endpoint
	es = append(es, h.cl...)
	for _, a := range h.acc {
		if a != nil {
			es = append(es, a)
		}
	}
	if h.extra != nil {
		es = append(es, h.extra)
	}
	return es
}

func (h *hist) pumpSettle(rounds int) {
	for i := 0; i < rounds; i++ {
		h.settle()
		h.pump.round()
	}
	h.settle()
}

func (h *hist) write(e *endpoint, n int) {
	if e.closed && h.g.Chance(70) {
		return
	}
	e.s.SetWriteDeadline(time.Now().Add(2 * time.Millisecond))
	b := fill(e.tag, e.wrote, n)
	var m int
	var err error
	if msg := hx.Try(func() { m, err = e.s.Write(b) }); msg != "" {
		h.viol("pool-panic", "Write: "+msg)
		return
	}
	if err == nil {
		e.wrote += m
		h.o.Count("write:ok")
	} else {
		h.o.Count("write:" + errKind(err))
	}
}

func errKind(err error) string {
	s := err.Error()
	switch {
	case strings.Contains(s, "timeout"):
		return "timeout"
	case strings.Contains(s, "closed pipe"):
		return "closed"
	case strings.Contains(s, "closed"):
		return "transport-closed"
	}
	return "other"
}

// drain reads everything that is readable now and checks it against the peer's pattern.
func (h *hist) drain(e *endpoint) {
	buf := make([]byte, 1+h.g.Intn(5000))
	for k := 0; k < 200; k++ {
		e.s.SetReadDeadline(time.Now())
		var n int
		var err error
		if msg := hx.Try(func() { n, err = e.s.Read(buf) }); msg != "" {
			h.viol("pool-panic", "Read: "+msg)
			return
		}
		if err != nil {
			h.o.Count("read:" + errKind(err))
			return
		}
		h.o.Count("read:ok")
		d := buf[:n]
		if i := hasPoisonRun(d); i >= 0 {
			h.viol("pool-read-after-put", fmt.Sprintf("%s: Read returned %d bytes with %d+ poison bytes at stream offset %d", e.name, n, poisonRun, e.read+i))
		}
		if !h.c.fecMismatch {
			for i, c := range d {
				if c != pat(e.peerTag, e.read+i) {
					h.viol("pool-bleed", fmt.Sprintf("%s: byte at stream offset %d is %#02x, its peer wrote %#02x (foreign or stale data delivered)",
						e.name, e.read+i, c, pat(e.peerTag, e.read+i)))
					break
				}
			}
		}
		e.read += n
	}
}

func (h *hist) oob(e *endpoint) {
	if e.closed && h.g.Chance(50) {
		return
	}
	n := h.g.Intn(200)
	var err error
	if msg := hx.Try(func() { err = e.s.SendOOB(fill(e.tag+100, 0, n)) }); msg != "" {
		h.viol("pool-panic", "SendOOB: "+msg)
		return
	}
	if err != nil {
		h.o.Count("oob:err")
	} else {
		h.o.Count("oob:ok")
	}
}

// accept takes sessions out of the listener's backlog and pairs them with their clients.
func (h *hist) accept(max int) {
	for k := 0; k < max; k++ {
		un, _ := kcp.VerifListenerBacklog(h.l)
		if un == 0 {
			return
		}
		h.l.SetReadDeadline(time.Now().Add(time.Millisecond))
		s, err := h.l.AcceptKCP()
		if err != nil {
			continue
		}
		name := s.RemoteAddr().String()
		idx := -1
		fmt.Sscanf(name, "c%d", &idx)
		e := &endpoint{name: "a" + name[1:], s: s}
		if idx >= 0 && idx < len(h.acc) && name[0] == 'c' {
			e.tag, e.peerTag = 2*idx+1, 2*idx
			h.acc[idx] = e
		} else {
			e.tag, e.peerTag = 99, 98
			h.acc = append(h.acc, e) // the backlog client, accepted only during clean-up
		}
		h.tune(s)
		h.oobHandler(e)
	}
}

// acceptStray is the application's accept loop while the listener is open: sessions the listener
// re-created for a peer that kept transmitting after its accepted session had been closed are
// accepted and closed.  (Not in the backlog scenario, whose point is a session nobody accepts.)
func (h *hist) acceptStray() {
	if h.lClose || h.c.scenario == "backlog" {
		return
	}
	for k := 0; k < 8; k++ {
		if un, _ := kcp.VerifListenerBacklog(h.l); un == 0 {
			return
		}
		h.l.SetReadDeadline(time.Now().Add(time.Millisecond))
		if s, err := h.l.AcceptKCP(); err == nil {
			h.o.Count("stray-session-accepted-and-closed")
			s.Close()
		}
	}
}

func (h *hist) warmup() bool {
	for _, e := range h.cl {
		h.write(e, 10)
	}
	// wall-clock bound, not an iteration count: the machine may be busy
	for deadline := time.Now().Add(10 * time.Second); time.Now().Before(deadline); {
		h.pumpSettle(1)
		h.accept(8)
		done := true
		for _, a := range h.acc[:h.c.nclients] {
			done = done && a != nil
		}
		if done {
			break
		}
		time.Sleep(time.Millisecond)
	}
	for _, a := range h.acc {
		if a == nil {
			return false
		}
	}
	h.pumpSettle(2)
	for _, e := range h.all() {
		h.drain(e)
	}
	if h.c.scenario == "backlog" {
		h.extra, h.xconn = h.newClient(49, "x0")
		h.write(h.extra, 10)
		for deadline := time.Now().Add(10 * time.Second); time.Now().Before(deadline); {
			h.pumpSettle(1)
			if un, _ := kcp.VerifListenerBacklog(h.l); un > 0 {
				break
			}
			time.Sleep(time.Millisecond)
		}
		if un, _ := kcp.VerifListenerBacklog(h.l); un == 0 {
			return false
		}
	}
	h.net.setFaults(h.c.loss, h.c.dup)
	return true
}

var sizes = []int{1, 30, 500, 1400, 4000, 20000, 60000}

func (h *hist) trafficStep() {
	es := h.all()
	e := es[h.g.Intn(len(es))]
	w := h.g.Intn(100)
	switch {
	case w < 35:
		n := sizes[h.g.Intn(len(sizes))]
		h.step(fmt.Sprintf("write %s %d", e.name, n))
		h.write(e, n)
	case w < 60:
		h.step("pump")
		h.pumpSettle(1 + h.g.Intn(3))
	case w < 75:
		h.step("read " + e.name)
		h.drain(e)
	case w < 85:
		h.step("oob " + e.name)
		h.oob(e)
	case w < 93:
		d := 1 + h.g.Intn(35)
		h.step(fmt.Sprintf("sleep %dms", d))
		time.Sleep(time.Duration(d) * time.Millisecond)
	default:
		h.step("settle")
		h.settle()
	}
}

// fullQueues stalls the clients' transports and writes enough small segments to overflow
// chPostProcessing (devBacklog requests): exercises the drop-and-recycle arm of the output
// callback and Close with a full queue and a sender blocked in WriteTo.
func (h *hist) fullQueues() {
	// one more round trip so that each side has seen the other's (tuned) receive window
	for _, e := range h.all() {
		h.write(e, 10)
	}
	h.pumpSettle(4)
	for i, e := range h.cl {
		h.net.setStall(memAddr(fmt.Sprintf("c%d", i)), true)
		h.step("stall+write " + e.name)
		h.write(e, 400000)
	}
	for k := 0; k < 3; k++ {
		h.pump.round()
	}
	time.Sleep(2 * time.Millisecond)
	for _, e := range h.cl {
		q, _ := kcp.VerifSessionBacklog(e.s)
		h.o.Count(fmt.Sprintf("fullq:backlog>=%d", q/512*512))
	}
}

// retunePhase: with different FEC parameters on the two sides, sustained traffic makes the
// receiving decoders detect the mismatch, re-tune (recycling their shard sets) and later discard
// old groups — the recycle sites of fec.go that ordinary histories do not reach.
func (h *hist) retunePhase() {
	h.step("bulk both ways until the decoders re-tune")
	for k := 0; k < 6; k++ {
		for i, e := range h.cl {
			h.write(e, 12000)
			h.write(h.acc[i], 12000)
		}
		h.pumpSettle(3)
		for _, e := range h.all() {
			h.drain(e)
		}
	}
	for i, e := range h.cl {
		d, p, _ := kcp.VerifSessionDecoder(h.acc[i].s)
		if d == h.c.cds && p == h.c.cps && (h.c.sds != h.c.cds || h.c.sps != h.c.cps) {
			h.o.Count("fec-decoder-retuned")
		} else {
			h.o.Count("fec-decoder-not-retuned")
		}
		_ = e
	}
}

func (h *hist) closeItem(it string) {
	switch {
	case it == "L":
		h.l.Close()
		h.mu.Lock()
		h.lClose = true
		h.mu.Unlock()
	case it == "TS":
		h.sconn.Close()
	case strings.HasPrefix(it, "Tc"):
		var i int
		fmt.Sscanf(it, "Tc%d", &i)
		h.cconn[i].Close()
	case it == "Tx":
		if h.xconn != nil {
			h.xconn.Close()
		}
	case it == "x":
		if h.extra != nil {
			h.extra.closed = true
			h.extra.s.Close()
		}
	case it[0] == 'c':
		var i int
		fmt.Sscanf(it, "c%d", &i)
		h.cl[i].closed = true
		if msg := hx.Try(func() { h.cl[i].s.Close() }); msg != "" {
			h.viol("pool-panic", "Close: "+msg)
		}
	case it[0] == 'a':
		var i int
		fmt.Sscanf(it, "a%d", &i)
		h.acc[i].closed = true
		if msg := hx.Try(func() { h.acc[i].s.Close() }); msg != "" {
			h.viol("pool-panic", "Close: "+msg)
		}
	}
}

// readLoopExitCheck: a closed client session on a caller-owned transport that is still open must
// leave its receive loop at the first datagram that arrives after Close (sess.go/readloop.go
// `if s.isClosed() { return }`).
func (h *hist) readLoopExitCheck(i int) {
	conn := h.cconn[i]
	if h.c.ownConn || conn.isClosed() {
		return
	}
	h.settle()
	before := conn.taken.Load()
	for k := 0; k < 3; k++ {
		select {
		case conn.inbox <- pkt{"S", make([]byte, 40)}:
		default:
		}
	}
	// phase 1: the loop, blocked in ReadFrom, gets the first datagram
	deadline := time.Now().Add(2 * time.Second)
	for conn.taken.Load()-before < 1 && time.Now().Before(deadline) {
		time.Sleep(100 * time.Microsecond)
	}
	h.o.Count("readloop-exit-check")
	if conn.taken.Load()-before < 1 {
		h.o.Count("readloop-exit-check:inconclusive") // nobody was reading (loop already gone) or starved
	} else {
		// phase 2: it must return now; a loop that goes on takes the 2nd and 3rd datagram at once
		quiet := 0
		deadline = time.Now().Add(2 * time.Second)
		for time.Now().Before(deadline) && conn.taken.Load()-before < 2 && quiet < 20 {
			if conn.blocked.Load() == 0 {
				quiet++
			} else {
				quiet = 0
			}
			time.Sleep(200 * time.Microsecond)
		}
		if took := conn.taken.Load() - before; took > 1 {
			h.viol("leak-readloop-after-close", fmt.Sprintf("client c%d was closed (transport open): its receive loop consumed %d datagrams after Close instead of returning at the first", i, took))
		}
	}
	// empty the inbox so that nothing else is confused by the junk
	for len(conn.inbox) > 0 {
		select {
		case <-conn.inbox:
		default:
		}
	}
}

func (h *hist) closePhase() {
	items := h.c.closeOrder
	if h.c.concurrent {
		h.step("close concurrently: " + strings.Join(items, ","))
		var wg sync.WaitGroup
		stop := make(chan struct{})
		for _, it := range items {
			wg.Add(1)
			d := time.Duration(h.g.Intn(300)) * time.Microsecond
			go func(it string) {
				defer wg.Done()
				time.Sleep(d)
				h.closeItem(it)
			}(it)
		}
		// writers racing with Close
		for _, e := range h.all() {
			wg.Add(1)
			n := sizes[h.g.Intn(5)]
			go func(e *endpoint) {
				defer wg.Done()
				b := fill(e.tag, e.wrote, n)
				e.s.SetWriteDeadline(time.Now().Add(2 * time.Millisecond))
				hx.Try(func() { e.s.Write(b); e.s.SendOOB(b[:min(len(b), 50)]) })
			}(e)
		}
		go func() { wg.Wait(); close(stop) }()
		for {
			h.pump.round()
			select {
			case <-stop:
				for _, e := range h.all() {
					e.closed = true
				}
				return
			default:
				runtime.Gosched()
			}
		}
	}
	for _, it := range items {
		h.acceptStray()
		h.step("close " + it)
		h.closeItem(it)
		if it[0] == 'c' && h.g.Chance(50) {
			var i int
			fmt.Sscanf(it, "c%d", &i)
			h.readLoopExitCheck(i)
		}
		for k := h.g.Intn(3); k > 0; k-- {
			h.trafficStep()
		}
	}
}

// kcpGoroutines returns the goroutines that are inside a session or listener method.
func kcpGoroutines() (n int, summary string) {
	buf := make([]byte, 1<<20)
	for {
		m := runtime.Stack(buf, true)
		if m < len(buf) {
			buf = buf[:m]
			break
		}
		buf = make([]byte, 2*len(buf))
	}
	var tops []string
	for _, g := range strings.Split(string(buf), "\n\n") {
		if !strings.Contains(g, "kcp-go/v5.(*UDPSession).") && !strings.Contains(g, "kcp-go/v5.(*Listener).") {
			continue
		}
		n++
		for _, line := range strings.Split(g, "\n") {
			if i := strings.Index(line, "kcp-go/v5.(*"); i >= 0 {
				f := line[i+len("kcp-go/v5."):]
				if j := strings.Index(f, "("); j >= 0 {
					if k := strings.Index(f[j+1:], "("); k >= 0 {
						f = f[:j+1+k]
					}
				}
				tops = append(tops, f)
				break
			}
		}
	}
	sort.Strings(tops)
	return n, strings.Join(tops, " ")
}

func waitNoGoroutines(base int, d time.Duration) (int, string) {
	deadline := time.Now().Add(d)
	for {
		n, s := kcpGoroutines()
		if n <= base || time.Now().After(deadline) {
			return n, s
		}
		time.Sleep(500 * time.Microsecond)
	}
}

var goroutineBase int

func (h *hist) finalChecks(tier string) {
	for a := range h.net.stall {
		h.net.setStall(a, false)
	}
	h.settle()
	// --- callbacks: every session is closed; each pending update runs once more, sees die,
	// and must not re-queue itself.
	un, _ := kcp.VerifListenerBacklog(h.l)
	ran := h.pump.round()
	h.o.Count(fmt.Sprintf("callbacks-pending-at-close:%d", min(ran, 8)))
	left := len(h.pump.pending)
	if left > 0 {
		// is it perpetual?
		for k := 0; k < 3; k++ {
			h.pump.round()
		}
		kind := "leak-callback"
		detail := fmt.Sprintf("after Close of every session, the listener and the transports %d update callback(s) re-queued themselves (still %d after 3 more rounds)", left, len(h.pump.pending))
		if un > 0 {
			kind = "leak-unaccepted-session"
			detail += fmt.Sprintf("; %d session(s) created by the listener were never returned by Accept and nobody can close them", un)
		}
		h.viol(kind, detail)
	}
	// --- goroutines
	wait := 5 * time.Second
	if tier == "thorough" {
		wait = 10 * time.Second
	}
	if n, sum := waitNoGoroutines(goroutineBase, wait); n > goroutineBase {
		kind := "leak-goroutine"
		detail := fmt.Sprintf("%d goroutine(s) of closed sessions/listener still alive: %s", n-goroutineBase, sum)
		if un > 0 {
			kind = "leak-unaccepted-session"
			detail += fmt.Sprintf("; %d session(s) in the accept backlog were never handed out", un)
		}
		h.viol(kind, detail)
	}
	// --- clean-up of the backlog scenario so that later histories start clean
	if un > 0 {
		for k := 0; k < 200; k++ {
			if u, _ := kcp.VerifListenerBacklog(h.l); u == 0 {
				break
			}
			if s, err := h.l.AcceptKCP(); err == nil {
				s.Close()
			}
		}
		for k := 0; k < 3; k++ {
			h.pump.round()
		}
		h.pump.pending = nil
	}
	goroutineBase, _ = waitNoGoroutines(goroutineBase, 500*time.Millisecond)
	h.pump.pending = nil
	for _, p := range h.pump.panics {
		h.viol("pool-panic", "update: "+p)
	}
	h.pump.panics = nil
	// --- sanitizer
	for _, r := range kcp.VerifPoolReports() {
		kind, detail, _ := strings.Cut(r, ": ")
		h.viol(kind, detail)
	}
	h.net.mu.Lock()
	fs := append([]string(nil), h.net.findings...)
	h.net.mu.Unlock()
	for _, r := range fs {
		kind, detail, _ := strings.Cut(r, ": ")
		h.viol(kind, detail)
	}
}

// emitLog writes the history's event log as op lines.
func emitLog(o *hx.Out, evs []kcp.VerifPoolEvent, perEvent bool) {
	first := "ok"
	var sb strings.Builder
	sb.WriteString("log")
	o.Op("reset", "ok")
	for _, e := range evs {
		v := "ok"
		switch e.Verdict {
		case "", "write-after-put":
		default:
			v = "reject " + e.Verdict
		}
		if first == "ok" && v != "ok" {
			first = v
		}
		if perEvent {
			o.Op(fmt.Sprintf("%c %d", e.Kind, e.ID), v)
		}
		fmt.Fprintf(&sb, " %c%d", e.Kind, e.ID)
	}
	o.Op(sb.String(), first)
}

func genCfg(g *hx.Rng, idx int, tier string) cfg {
	var c cfg
	c.crypt = cryptKinds[idx%len(cryptKinds)]
	c.key = g.Bytes(max(c.crypt.keyLen, 1))[:c.crypt.keyLen]
	switch (idx / len(cryptKinds)) % 3 {
	case 0:
	case 1:
		c.cds, c.cps, c.sds, c.sps = 3, 1, 3, 1
	case 2:
		c.cds, c.cps = 3, 1
		c.sds, c.sps = []int{2, 5, 10}[g.Intn(3)], []int{2, 3}[g.Intn(2)]
		c.fecMismatch = true
	}
	if g.Chance(15) && c.cds > 0 {
		c.cds, c.cps, c.sds, c.sps = 10, 3, 10, 3
		c.fecMismatch = false
	}
	c.loss = []int{0, 0, 5, 15, 30}[g.Intn(5)]
	c.dup = []int{0, 0, 10, 30}[g.Intn(4)]
	c.sdup = []int{0, 0, 0, 1, 2}[g.Intn(5)]
	c.nclients = 1 + g.Intn(3)
	c.ownConn = g.Chance(30)
	c.mtu = []int{1400, 1400, 1500, 600, 200}[g.Intn(5)]
	c.wnd = []int{32, 128, 1024}[g.Intn(3)]
	c.stream = g.Bool()
	c.ackNoDelay = g.Bool()
	c.writeDelay = g.Chance(30)
	c.rate = g.Chance(15)
	c.scenario = []string{"idle", "mid", "mid", "recovery", "recovery", "fullq", "backlog"}[g.Intn(7)]
	c.steps = 4 + g.Intn(25)
	switch c.scenario {
	case "recovery":
		if c.cds == 0 {
			c.cds, c.cps, c.sds, c.sps = 3, 1, 3, 1
		}
		c.loss = 10 + g.Intn(25)
	case "fullq":
		c.mtu, c.wnd = 128, 4096
		c.nclients = 1
		c.steps = 3
		if tier != "thorough" && !g.Chance(35) {
			c.scenario = "mid"
			c.mtu, c.wnd = 1400, 128
		}
	}
	c.concurrent = g.Chance(40)
	var items []string
	for i := 0; i < c.nclients; i++ {
		items = append(items, fmt.Sprintf("c%d", i), fmt.Sprintf("a%d", i), fmt.Sprintf("Tc%d", i))
	}
	items = append(items, "L", "TS")
	if c.scenario == "backlog" {
		items = append(items, "x", "Tx")
	}
	for i := len(items) - 1; i > 0; i-- {
		j := g.Intn(i + 1)
		items[i], items[j] = items[j], items[i]
	}
	c.closeOrder = items
	return c
}

func runHistory(o *hx.Out, g *hx.Rng, c cfg, tier string, perEvent bool) {
	kcp.VerifPoolReset()
	kcp.VerifPoolLog(true)
	sch := &kcp.TimedSched{}
	kcp.SystemTimedSched = sch
	h := &hist{o: o, g: g, c: c, pump: &pumper{sch: sch}}
	o.Case(hx.HashKey(c.String()))
	for _, k := range []string{"crypt:" + c.crypt.name, "scenario:" + c.scenario, fmt.Sprintf("fec:c%d/%d-s%d/%d", c.cds, c.cps, c.sds, c.sps),
		fmt.Sprintf("loss:%d", c.loss), fmt.Sprintf("dup:%d", c.dup), fmt.Sprintf("concurrent:%v", c.concurrent), fmt.Sprintf("own:%v", c.ownConn),
		"first-closed:" + strings.TrimRight(c.closeOrder[0], "0123456789")} {
		o.Count(k)
	}
	snmp0 := kcp.DefaultSnmp.Copy()
	h.setup()
	established := h.warmup()
	if !established {
		// the sessions could not even exchange their first packets: close everything and let the
		// oracles say why (e.g. poisoned datagrams); if they have nothing to say the harness is broken
		h.step("warm-up failed")
		h.c.concurrent = false
		for i := range h.acc {
			if h.acc[i] == nil {
				h.acc[i] = &endpoint{name: "dummy", s: h.cl[i].s, closed: true}
			}
		}
		c.steps = 0
	}
	if established && c.scenario == "fullq" {
		h.fullQueues()
	}
	if established && c.fecMismatch {
		h.retunePhase()
	}
	for i := 0; i < c.steps; i++ {
		h.trafficStep()
	}
	if established && c.scenario == "idle" {
		h.step("drain to idle")
		for k := 0; k < 6; k++ {
			h.pumpSettle(2)
			for _, e := range h.all() {
				h.drain(e)
			}
			time.Sleep(2 * time.Millisecond)
		}
	}
	h.closePhase()
	h.finalChecks(tier)
	snmp1 := kcp.DefaultSnmp.Copy()
	if d := snmp1.FECRecovered - snmp0.FECRecovered; d > 0 {
		o.CountN("fec-recovered", int(d))
		o.Count("history-with-fec-recovery")
	}
	o.CountN("datagrams", int(h.net.writes.Load()))
	o.CountN("datagrams-dropped", int(h.net.dropped.Load()))
	gets, puts := kcp.VerifPoolCounts()
	o.CountN("pool-gets", gets)
	o.CountN("pool-puts", puts)
	evs := kcp.VerifPoolEvents()
	kcp.VerifPoolLog(false)
	emitLog(o, evs, perEvent)
	replay := append([]string{"config: " + c.String()}, h.trace...)
	if len(replay) > 60 {
		replay = append(replay[:30], append([]string{"…"}, replay[len(replay)-29:]...)...)
	}
	for _, v := range h.found {
		v.Replay = replay
		o.Violate(v)
	}
	if !established && len(h.found) == 0 {
		panic("pool: warm-up did not establish all sessions and no oracle explains it")
	}
}

// Run: first the sanitizer self-check and the synthetic event sequences (differential test of
// the Go sanitizer against Pool.step, including every finding kind), then real histories.
// closeDuringCreate (C15, fixed scenario): Listener.Close runs between the listener's "am I closed?"
// test and the moment the new session enters the accept backlog.  The interleaving is forced from the
// inside: the source address of the datagram is a net.Addr whose String() — called by packetInput for
// the session table — closes the listener at its k-th call.  Whatever k is, nothing may be left in the
// backlog afterwards: nobody could accept or close such a session, its goroutine and update callback
// would live for ever.
type hookAddr struct {
	s  string
	n  *int
	at int
	f  func()
}

func (a hookAddr) Network() string { return "mem" }
func (a hookAddr) String() string {
	*a.n++
	if *a.n == a.at && a.f != nil {
		a.f()
	}
	return a.s
}

func closeDuringCreate(o *hx.Out, g *hx.Rng) {
	for at := 1; at <= 4; at++ {
		sch := &kcp.TimedSched{}
		kcp.SystemTimedSched = sch
		pump := &pumper{sch: sch}
		nw := newMemNet(g.Fork())
		lc := nw.listen("S")
		l, err := kcp.ServeConn(nil, 0, 0, lc)
		if err != nil {
			panic(err)
		}
		dg := make([]byte, 24+5)
		binary.LittleEndian.PutUint32(dg, 0x5151)
		dg[4] = 81
		binary.LittleEndian.PutUint16(dg[6:], 32)
		binary.LittleEndian.PutUint32(dg[20:], 5)
		copy(dg[24:], "hello")
		calls := 0
		kcp.VerifListenerPacketInput(l, dg, hookAddr{s: "peer-close-during-create", n: &calls, at: at, f: func() { l.Close() }})
		o.Count(fmt.Sprintf("close-during-create:k=%d:string-calls=%d", at, calls))
		l.Close()
		un, _ := kcp.VerifListenerBacklog(l)
		for k := 0; k < 4; k++ {
			pump.round()
		}
		if un > 0 || len(pump.pending) > 0 {
			o.Violate(hx.Violation{Kind: "leak-unaccepted-session", Detail: fmt.Sprintf("Listener.Close at the %d-th String() call of the source address inside packetInput (between the closed-test and the hand-over to the backlog): %d session(s) left in the backlog of the closed listener, %d update callback(s) still re-queueing themselves", at, un, len(pump.pending)),
				Replay: []string{"ServeConn(nil, 0, 0, conn); packetInput(PUSH sn 0 conv 0x5151 'hello', from an address whose String() calls Listener.Close at its k-th call); then VerifListenerBacklog and three scheduler rounds"}})
			// clean up so that later histories start clean
			for k := 0; k < 8; k++ {
				if s, err := l.AcceptKCP(); err == nil {
					s.Close()
				} else {
					break
				}
			}
			pump.round()
		}
		lc.Close()
	}
}

// closeAfterWriteError (C15, fixed scenario): the socket has reported a write error before Close is
// called.  Close must still release everything: an accepted session leaves the listener's table, a
// session that owns its socket closes it (its read loop ends).
type failConn struct {
	in     chan struct{}
	closed chan struct{}
	once   sync.Once
	fail   atomic.Bool
	local  net.Addr
}

func newFailConn(name string) *failConn {
	return &failConn{in: make(chan struct{}), closed: make(chan struct{}), local: memAddr(name)}
}
func (c *failConn) ReadFrom(p []byte) (int, net.Addr, error) {
	<-c.closed
	return 0, nil, net.ErrClosed
}
func (c *failConn) WriteTo(p []byte, a net.Addr) (int, error) {
	if c.fail.Load() {
		return 0, errors.New("injected: network is unreachable")
	}
	return len(p), nil
}
func (c *failConn) Close() error                     { c.once.Do(func() { close(c.closed) }); return nil }
func (c *failConn) LocalAddr() net.Addr              { return c.local }
func (c *failConn) SetDeadline(time.Time) error      { return nil }
func (c *failConn) SetReadDeadline(time.Time) error  { return nil }
func (c *failConn) SetWriteDeadline(time.Time) error { return nil }

func closeAfterWriteError(o *hx.Out) {
	sch := &kcp.TimedSched{}
	kcp.SystemTimedSched = sch
	pump := &pumper{sch: sch}
	lc := newFailConn("S-fail")
	l, err := kcp.ServeConn(nil, 0, 0, lc)
	if err != nil {
		panic(err)
	}
	dg := make([]byte, 24+5)
	binary.LittleEndian.PutUint32(dg, 0x6161)
	dg[4] = 81
	binary.LittleEndian.PutUint16(dg[6:], 32)
	binary.LittleEndian.PutUint32(dg[20:], 5)
	copy(dg[24:], "hello")
	kcp.VerifListenerPacketInput(l, dg, memAddr("peer-write-error"))
	l.SetReadDeadline(time.Now().Add(2 * time.Second))
	s, err := l.AcceptKCP()
	o.Count("close-after-write-error")
	if err != nil {
		o.Note("closeAfterWriteError: Accept: " + err.Error())
	} else {
		lc.fail.Store(true)
		s.SetWriteDeadline(time.Now().Add(time.Second))
		s.Write([]byte("data that cannot leave"))
		for k := 0; k < 3; k++ {
			pump.round()
			time.Sleep(5 * time.Millisecond) // postProcess hands the datagram to the failing socket
		}
		s.Close()
		if _, n := kcp.VerifListenerBacklog(l); n != 0 {
			o.Violate(hx.Violation{Kind: "leak-session-entry", Detail: fmt.Sprintf("an accepted session whose socket had reported a write error was closed, but it is still in the listener's session table (%d entries): Close did not release it, a later datagram from that address is routed to a dead session", n),
				Replay: []string{"ServeConn over a conn whose WriteTo fails; first datagram -> Accept; Write + update (the write error is recorded); Close; VerifListenerBacklog"}})
		}
	}
	l.Close()
	lc.Close()
	for k := 0; k < 3; k++ {
		pump.round()
	}
}

func Run(o *hx.Out, g *hx.Rng, tier string) {
	o.Res.Rule = "a case is one traffic history (cipher x FEC x faults x scenario x close order) or one synthetic get/put/use sequence; distinct = distinct configurations / sequences; non-trivial = at least one pool event"
	saved := kcp.SystemTimedSched
	defer func() { kcp.SystemTimedSched = saved }()
	selfCheck(o)
	nsyn, nhist := 60, 6*len(cryptKinds)+12
	budget := 35 * time.Second
	if tier == "thorough" {
		nsyn, nhist = 600, 40*len(cryptKinds)
		budget = 9 * time.Minute
	}
	for i := 0; i < nsyn; i++ {
		synthetic(o, g.Fork(), 20+g.Intn(200))
	}
	runtime.GC()
	runtime.GC() // empties the sync.Pool (the synthetic sequences put buffers twice on purpose)
	closeDuringCreate(o, g.Fork())
	closeAfterWriteError(o)
	runtime.GC()
	kcp.VerifPoolReset()
	goroutineBase, _ = waitNoGoroutines(0, 300*time.Millisecond)
	goroutineBase, _ = kcpGoroutines()
	start := time.Now()
	perEventBudget := 250000
	if tier == "thorough" {
		perEventBudget = 2500000
	}
	done := 0
	for i := 0; i < nhist; i++ {
		if time.Since(start) > budget {
			break
		}
		c := genCfg(g, i, tier)
		var crash string
		func() {
			defer func() {
				if r := recover(); r != nil {
					crash = fmt.Sprint(r)
				}
			}()
			runHistory(o, g.Fork(), c, tier, o.Res.Ops < perEventBudget)
		}()
		if crash != "" {
			panic("pool: history " + c.String() + ": " + crash)
		}
		done++
	}
	o.Note(fmt.Sprintf("histories run: %d of %d planned (time budget %s)", done, nhist, budget))
}
