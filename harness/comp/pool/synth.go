package pool

import (
	"fmt"
	"runtime"
	"strings"

	kcp "github.com/xtaci/kcp-go/v5"
	"verif/harness/internal/hx"
)

// selfCheck makes sure the sanitizer notices every class of fault on the real pool API; if it
// does not, the component is broken (panic => check exits 2), not the property.
func selfCheck(o *hx.Out) {
	expect := func(what, kind string) {
		for _, r := range kcp.VerifPoolReports() {
			if strings.HasPrefix(r, kind+":") {
				return
			}
		}
		panic(fmt.Sprintf("pool: sanitizer self-check failed: %s did not produce a %s report (reports: %v)", what, kind, kcp.VerifPoolReports()))
	}
	kcp.VerifPoolReset()
	if r := kcp.VerifPoolReports(); len(r) != 0 {
		panic("pool: reports after reset")
	}
	b := kcp.VerifPoolAcquire()
	if len(b) != 1500 || cap(b) != 1500 {
		panic("pool: Get did not return a full buffer")
	}
	if !kcp.VerifPoolUse(b[:10]) {
		panic("pool: owned buffer reported as recycled")
	}
	kcp.VerifPoolRelease(b[:3])
	for i, c := range b {
		if c != kcp.VerifPoison {
			panic(fmt.Sprintf("pool: Put did not poison byte %d", i))
		}
	}
	if len(kcp.VerifPoolReports()) != 0 {
		panic(fmt.Sprintf("pool: clean get/use/put produced reports %v", kcp.VerifPoolReports()))
	}
	b[1499] = 1
	expect("a write into a recycled buffer", "pool-write-after-put")
	if kcp.VerifPoolUse(b) {
		panic("pool: recycled buffer reported as owned")
	}
	expect("a use of a recycled buffer", "pool-use-after-put")
	kcp.VerifPoolRelease(b)
	expect("a second Put", "pool-double-put")
	kcp.VerifPoolRelease(make([]byte, 1500))
	expect("a Put of a buffer that never came from Get", "pool-foreign-put")
	if err := kcp.VerifPoolRelease(make([]byte, 1499)); err == nil {
		panic("pool: Put accepted a short buffer")
	}
	g0, p0 := kcp.VerifPoolCounts()
	if g0 != 1 || p0 != 3 {
		panic(fmt.Sprintf("pool: counters %d/%d, want 1/3", g0, p0))
	}
	// write between Put and the next Get of the same buffer
	kcp.VerifPoolReset()
	runtime.GC()
	runtime.GC()
	c := kcp.VerifPoolAcquire()
	kcp.VerifPoolRelease(c)
	c[0] = 0
	d := kcp.VerifPoolAcquire()
	_ = d
	expect("a write between Put and Get", "pool-write-after-put")
	runtime.GC()
	runtime.GC()
	kcp.VerifPoolReset()
	o.Note("sanitizer self-check passed: write-after-put, use-after-put, double-put, foreign-put, capacity test")
}

// synthetic drives the real pool API with a random get/put/use sequence that contains faults on
// purpose; the Go sanitizer's per-event verdicts are the impl observation, Pool.step (Lean) must
// give the same verdict for every event.
func synthetic(o *hx.Out, g *hx.Rng, n int) {
	kcp.VerifPoolReset()
	kcp.VerifPoolLog(true)
	var held, gone [][]byte
	var caps []string
	var key strings.Builder
	for i := 0; i < n; i++ {
		w := g.Intn(100)
		switch {
		case w < 35:
			held = append(held, kcp.VerifPoolAcquire())
			key.WriteByte('g')
		case w < 60 && len(held) > 0:
			k := g.Intn(len(held))
			b := held[k]
			kcp.VerifPoolRelease(b[:g.Intn(1501)])
			held = append(held[:k], held[k+1:]...)
			gone = append(gone, b)
			fmt.Fprintf(&key, "p%d", k)
		case w < 75 && len(held) > 0:
			k := g.Intn(len(held))
			kcp.VerifPoolUse(held[k][:1+g.Intn(1500)])
			fmt.Fprintf(&key, "u%d", k)
		case w < 82 && len(gone) > 0: // put again something we already gave back
			k := g.Intn(len(gone))
			kcp.VerifPoolRelease(gone[k])
			fmt.Fprintf(&key, "P%d", k)
		case w < 90 && len(gone) > 0: // use something we already gave back
			k := g.Intn(len(gone))
			kcp.VerifPoolUse(gone[k])
			fmt.Fprintf(&key, "U%d", k)
		case w < 94:
			kcp.VerifPoolRelease(make([]byte, 1500))
			key.WriteByte('F')
		default:
			c := []int{0, 1, 100, 1499, 1501, 3000}[g.Intn(6)]
			verdict := "accept"
			if kcp.VerifPoolRelease(make([]byte, c)) != nil {
				verdict = "refuse"
			}
			caps = append(caps, fmt.Sprintf("cap %d=%s", c, verdict))
			fmt.Fprintf(&key, "c%d", c)
		}
	}
	evs := kcp.VerifPoolEvents()
	kcp.VerifPoolLog(false)
	o.Case(hx.HashKey(key.String()))
	for _, e := range evs {
		v := e.Verdict
		if v == "" || v == "write-after-put" {
			v = "ok"
		}
		o.Count("synthetic:" + string(e.Kind) + ":" + v)
	}
	emitLog(o, evs, true)
	for _, c := range caps {
		op, v, _ := strings.Cut(c, "=")
		o.Op(op, v)
		o.Count("synthetic:cap:" + v)
	}
}
