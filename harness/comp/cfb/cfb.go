// Package cfb: correspondence component `cfb` (C08).
//
// Tie (compared with the Lean model line by line):
//   - the real unrolled helpers encrypt8/encrypt16/decrypt8/decrypt16 (through the verif hooks)
//     run with a toy cipher.Block (identical to Model/Cfb.toyE) for EVERY length 0..1500, both
//     block sizes, same-memory and separate-buffer calls, encrypt and decrypt, random contents,
//     random junk in the working buffer and in the destination;
//   - the salsa20 / xor / none shells (keystream resp. table handed to the model).
//
// Implementation-side oracles (no Lean involved): every real constructor x every length
// 0..1500 x {in place, out of place}: Decrypt(Encrypt(x)) = x, source untouched, in place =
// out of place, block ciphers = crypto/cipher CFB with the package IV; AEAD Seal/Open inside a
// pooled 1500-byte buffer without reallocation; concurrent callers.
package cfb

import (
	"bytes"
	"crypto/aes"
	"crypto/cipher"
	"crypto/des"
	"fmt"
	"sync"
	"time"

	"github.com/tjfoc/gmsm/sm4"
	kcp "github.com/xtaci/kcp-go/v5"
	"golang.org/x/crypto/blowfish"
	"golang.org/x/crypto/cast5"
	"golang.org/x/crypto/salsa20"
	"golang.org/x/crypto/tea"
	"golang.org/x/crypto/twofish"
	"golang.org/x/crypto/xtea"

	"verif/harness/internal/hx"
)

const maxLen = 1500

// the IV every deployed peer uses (README / wire compatibility): the reference CFB is computed
// with THIS value, not with whatever the working tree says, so a consistently changed IV is a
// failing input and not a moved goalpost.
var pinnedIV = []byte{167, 115, 79, 156, 18, 172, 27, 1, 164, 21, 242, 193, 252, 120, 230, 107}

// ---------------------------------------------------------------------------------------------
// toy block cipher: must stay identical to KcpVerif.Cfb.toyE

type toyBlock struct {
	bs  int
	key []byte
}

func (t *toyBlock) BlockSize() int { return t.bs }
func (t *toyBlock) Encrypt(dst, src []byte) {
	n := t.bs
	var x [16]byte
	copy(x[:n], src[:n]) // a short block panics, as with the real ciphers
	var sum byte
	for i := 0; i < n; i++ {
		sum += x[i]
	}
	_ = dst[n-1]
	for i := 0; i < n; i++ {
		v := x[i]*7 + t.key[i%len(t.key)] + sum + byte(i)
		y := x[(i+1)%n]
		dst[i] = v ^ (y<<3 | y>>5)
	}
}
func (t *toyBlock) Decrypt(dst, src []byte) {
	panic("toy cipher: CFB must use the forward direction only")
}

// ---------------------------------------------------------------------------------------------

type runner struct {
	o      *hx.Out
	g      *hx.Rng
	tier   string
	perKnd map[string]int
}

// viol reports at most two violations per kind (hx keeps 20 in all), so that one broken helper
// does not hide what the other oracles found.
func (x *runner) viol(kind, detail string, replay ...string) {
	x.o.Count("violation:" + kind)
	if x.perKnd[kind]++; x.perKnd[kind] > 2 {
		return
	}
	x.o.Violate(hx.Violation{Kind: kind, Detail: detail, Replay: replay})
}

// contents draws a packet body: mostly random bytes, sometimes degenerate patterns that make
// block-position mistakes visible or invisible in different ways.
func (x *runner) contents(n int) []byte {
	b := x.g.Bytes(n)
	switch r := x.g.Intn(20); r {
	case 0:
		clear(b)
		x.o.Count("content:zero")
	case 1:
		for i := range b {
			b[i] = 0xff
		}
		x.o.Count("content:ff")
	case 2: // every block equal
		for i := range b {
			b[i] = b[i%8]
		}
		x.o.Count("content:periodic8")
	case 3:
		for i := range b {
			b[i] = byte(i)
		}
		x.o.Count("content:counter")
	default:
		x.o.Count("content:random")
	}
	return b
}

// dest draws the separate destination buffer: junk, usually exactly as long as src, sometimes
// longer (the surplus must stay untouched).
func (x *runner) dest(n int) []byte {
	slack := 0
	if x.g.Chance(25) {
		slack = 1 + x.g.Intn(19)
		x.o.Count("dst:longer")
	} else {
		x.o.Count("dst:exact")
	}
	return x.g.Bytes(n + slack)
}

func obs(alias bool, src, dst []byte) string {
	if alias {
		return "buf " + hx.Hex(dst)
	}
	return "src " + hx.Hex(src) + " dst " + hx.Hex(dst)
}

func dstArg(alias bool, dst []byte) string {
	if alias {
		return "="
	}
	return hx.Hex(dst)
}

// ---------------------------------------------------------------------------------------------
// tie 1: unrolled helpers with the toy cipher

func (x *runner) helperOp(dir string, bs int, alias bool, n int) {
	g := x.g
	key := g.Bytes(1 + g.Intn(16))
	src := x.contents(n)
	var dst []byte
	if alias {
		dst = src
	} else {
		dst = x.dest(n)
	}
	buf := g.Bytes(2 * bs) // working buffer with junk in it
	next0 := "-"
	if dir == "dec" {
		next0 = hx.Hex(buf[bs : 2*bs])
	} else {
		buf = buf[:bs]
	}
	op := fmt.Sprintf("cfb %s %d %s %s %s %s", dir, bs, hx.Hex(key), next0, hx.Hex(src), dstArg(alias, dst))
	blk := &toyBlock{bs: bs, key: key}
	in := append([]byte(nil), src...)
	msg := hx.Try(func() {
		switch {
		case dir == "enc" && bs == 8:
			kcp.VerifEncrypt8(blk, dst, src, buf)
		case dir == "enc" && bs == 16:
			kcp.VerifEncrypt16(blk, dst, src, buf)
		case dir == "dec" && bs == 8:
			kcp.VerifDecrypt8(blk, dst, src, buf)
		default:
			kcp.VerifDecrypt16(blk, dst, src, buf)
		}
	})
	blocks := n / bs
	x.o.Count(fmt.Sprintf("cfb:%s%d:%s", dir, bs, aliasName(alias)))
	x.o.Count(fmt.Sprintf("class:groups=%d", min(blocks/8, 3)))
	x.o.Count(fmt.Sprintf("class:left=%d", blocks%8))
	if n%bs == 0 {
		x.o.Count("class:tail=0")
	} else {
		x.o.Count("class:tail>0")
	}
	if msg != "" {
		x.o.Op(op, "panic "+msg)
		x.viol("cfb-panic", fmt.Sprintf("%s%d len=%d %s panicked: %s", dir, bs, n, aliasName(alias), msg), op)
		return
	}
	x.o.Op(op, obs(alias, src, dst))

	// oracle on the toy cipher too: the public wrapper path (dispatch on BlockSize, package
	// owned working buffers) gives the same bytes, and decrypt undoes encrypt in every
	// aliasing combination
	if dir == "enc" {
		ct := append([]byte(nil), dst[:n]...)
		// a fresh wrapper per call: the real Encrypt/Decrypt do not unlock their mutex when the
		// helper panics, so an instance must not be reused after a panic
		w := append([]byte(nil), in...)
		if m := hx.Try(func() { kcp.VerifNewBlockCrypt(blk).Encrypt(w, w) }); m != "" || !bytes.Equal(w, ct) {
			x.viol("cfb-wrapper", fmt.Sprintf("blockCrypt.Encrypt (toy%d, len %d, in place) differs from encrypt%d: %s", bs, n, bs, m), op)
		}
		for _, a2 := range []bool{true, false} {
			var s2, d2 []byte
			s2 = append([]byte(nil), ct...)
			if a2 {
				d2 = s2
			} else {
				d2 = g.Bytes(n)
			}
			if m := hx.Try(func() { kcp.VerifNewBlockCrypt(blk).Decrypt(d2, s2) }); m != "" || !bytes.Equal(d2, in) {
				x.viol("roundtrip-toy", fmt.Sprintf("toy%d len=%d enc %s, dec %s: Decrypt(Encrypt(x)) != x %s", bs, n, aliasName(alias), aliasName(a2), m), op)
			}
		}
	}
}

func aliasName(a bool) string {
	if a {
		return "inplace"
	}
	return "outofplace"
}

// ---------------------------------------------------------------------------------------------
// tie 2: shells

func (x *runner) shellLens() []int {
	if x.tier == "thorough" {
		l := make([]int, maxLen+1)
		for i := range l {
			l[i] = i
		}
		return l
	}
	var l []int
	for i := 0; i <= 80; i++ {
		l = append(l, i)
	}
	for i := 81; i < maxLen; i += 1 + x.g.Intn(60) {
		l = append(l, i)
	}
	return append(l, maxLen-1, maxLen)
}

func (x *runner) shellOp(name, dir string, c kcp.BlockCrypt, alias bool, n int, pre func(src []byte) string) {
	src := x.contents(n)
	var dst []byte
	if alias {
		dst = src
	} else {
		dst = x.dest(n)
	}
	op := fmt.Sprintf("%s %s %s%s %s", name, dir, pre(src), hx.Hex(src), dstArg(alias, dst))
	msg := hx.Try(func() {
		if dir == "enc" {
			c.Encrypt(dst, src)
		} else {
			c.Decrypt(dst, src)
		}
	})
	x.o.Count(fmt.Sprintf("shell:%s:%s:%s", name, dir, aliasName(alias)))
	if msg != "" {
		x.o.Op(op, "panic "+msg)
		x.viol("cfb-panic", fmt.Sprintf("%s %s len=%d %s panicked: %s", name, dir, n, aliasName(alias), msg), op)
		return
	}
	x.o.Op(op, obs(alias, src, dst))
}

func (x *runner) shells() {
	g := x.g
	skey := g.Bytes(32)
	sc, _ := kcp.NewSalsa20BlockCrypt(skey)
	var k32 [32]byte
	copy(k32[:], skey)
	ksOf := func(src []byte) string {
		if len(src) < 8 {
			return "- "
		}
		ks := make([]byte, len(src)-8)
		salsa20.XORKeyStream(ks, ks, src[:8], &k32)
		return hx.Hex(ks) + " "
	}
	xc, _ := kcp.NewSimpleXORBlockCrypt(g.Bytes(1 + g.Intn(40)))
	x.o.Op("xortbl "+hx.Hex(kcp.VerifXorTable(xc)), "ok")
	nc, _ := kcp.NewNoneBlockCrypt(nil)
	none := func([]byte) string { return "" }
	for _, n := range x.shellLens() {
		for _, alias := range []bool{true, false} {
			for _, dir := range []string{"enc", "dec"} {
				x.shellOp("salsa", dir, sc, alias, n, ksOf)
				x.shellOp("xor", dir, xc, alias, n, none)
				x.shellOp("none", dir, nc, alias, n, none)
			}
		}
	}
}

// ---------------------------------------------------------------------------------------------
// implementation-side oracles over the real constructors

type realCipher struct {
	name string
	mk   func(key []byte) (kcp.BlockCrypt, error)
	ref  func(key []byte) (cipher.Block, error) // nil for non-CFB ciphers
	klen int
}

func ciphers() []realCipher {
	return []realCipher{
		{"aes-128", kcp.NewAESBlockCrypt, aes.NewCipher, 16},
		{"aes-192", kcp.NewAESBlockCrypt, aes.NewCipher, 24},
		{"aes-256", kcp.NewAESBlockCrypt, aes.NewCipher, 32},
		{"sm4", kcp.NewSM4BlockCrypt, func(k []byte) (cipher.Block, error) { return sm4.NewCipher(k) }, 16},
		{"twofish", kcp.NewTwofishBlockCrypt, func(k []byte) (cipher.Block, error) { return twofish.NewCipher(k) }, 32},
		{"3des", kcp.NewTripleDESBlockCrypt, des.NewTripleDESCipher, 24},
		{"cast5", kcp.NewCast5BlockCrypt, func(k []byte) (cipher.Block, error) { return cast5.NewCipher(k) }, 16},
		{"blowfish", kcp.NewBlowfishBlockCrypt, func(k []byte) (cipher.Block, error) { return blowfish.NewCipher(k) }, 32},
		{"tea", kcp.NewTEABlockCrypt, func(k []byte) (cipher.Block, error) { return tea.NewCipherWithRounds(k, 16) }, 16},
		{"xtea", kcp.NewXTEABlockCrypt, func(k []byte) (cipher.Block, error) { return xtea.NewCipher(k) }, 16},
		{"salsa20", kcp.NewSalsa20BlockCrypt, nil, 32},
		{"xor", kcp.NewSimpleXORBlockCrypt, nil, 32},
		{"none", kcp.NewNoneBlockCrypt, nil, 32},
	}
}

func (x *runner) realOracles() {
	g := x.g
	iv := pinnedIV
	if cur := kcp.VerifInitialVector(); !bytes.Equal(cur, pinnedIV) {
		x.viol("iv-changed", fmt.Sprintf("initialVector is %s, deployed peers use %s: every CFB packet becomes unreadable for them", hx.Hex(cur), hx.Hex(pinnedIV)),
			"compare kcp.initialVector with the pinned wire-compatibility value")
	}
	rounds := 1
	if x.tier == "thorough" {
		rounds = 6
	}
	for _, rc := range ciphers() {
		for r := 0; r < rounds; r++ {
			key := g.Bytes(rc.klen)
			enc, err := rc.mk(key)
			dec, err2 := rc.mk(key) // a second instance, as the peer has
			if err != nil || err2 != nil {
				x.viol("constructor", fmt.Sprintf("%s: constructor failed: %v %v", rc.name, err, err2))
				break
			}
			var blk cipher.Block
			if rc.ref != nil {
				blk, err = rc.ref(key)
				if err != nil {
					x.viol("constructor", fmt.Sprintf("%s: reference cipher failed: %v", rc.name, err))
					break
				}
			}
			panics := 0
			for n := 0; n <= maxLen && panics < 8; n++ {
				if !x.realCase(rc.name, key, enc, dec, blk, iv, n) {
					// a panic inside Encrypt/Decrypt leaves the instance's mutex locked: replace both
					panics++
					enc, _ = rc.mk(key)
					dec, _ = rc.mk(key)
				}
			}
		}
	}
}

// realCase returns false when the real code panicked (the instances are then unusable).
func (x *runner) realCase(name string, key []byte, enc, dec kcp.BlockCrypt, blk cipher.Block, iv []byte, n int) bool {
	g := x.g
	pt := g.Bytes(n)
	desc := func(what string) []string {
		return []string{fmt.Sprintf("cipher=%s key=%s len=%d %s", name, hx.Hex(key), n, what), "plaintext=" + hx.Hex(pt)}
	}
	x.o.Count("oracle:" + name)
	// out of place, junk in the destinations
	src := append([]byte(nil), pt...)
	ct := g.Bytes(n)
	if m := hx.Try(func() { enc.Encrypt(ct, src) }); m != "" {
		x.viol("cfb-panic", fmt.Sprintf("%s Encrypt len=%d out of place panicked: %s", name, n, m), desc("encrypt out of place")...)
		return false
	}
	if !bytes.Equal(src, pt) {
		x.viol("src-clobbered", fmt.Sprintf("%s Encrypt(dst, src) len=%d changed src", name, n), desc("encrypt out of place")...)
	}
	// in place
	ct2 := append([]byte(nil), pt...)
	if m := hx.Try(func() { enc.Encrypt(ct2, ct2) }); m != "" {
		x.viol("cfb-panic", fmt.Sprintf("%s Encrypt len=%d in place panicked: %s", name, n, m), desc("encrypt in place")...)
		return false
	}
	short := name == "salsa20" && n >= 1 && n <= 7
	if !bytes.Equal(ct, ct2) {
		kind := "inplace-neq-outofplace"
		if short {
			kind = "salsa20-short-outofplace"
		}
		x.viol(kind, fmt.Sprintf("%s len=%d: Encrypt into a separate buffer gives %s, in place gives %s", name, n, hx.Hex(ct), hx.Hex(ct2)), desc("encrypt out of place vs in place")...)
	}
	// reference CFB
	if blk != nil {
		ref := make([]byte, n)
		cipher.NewCFBEncrypter(blk, iv[:blk.BlockSize()]).XORKeyStream(ref, pt)
		if !bytes.Equal(ref, ct2) {
			x.viol("cfb-textbook", fmt.Sprintf("%s len=%d: ciphertext differs from crypto/cipher CFB with the package IV at byte %d", name, n, firstDiff(ref, ct2)), desc("encrypt in place")...)
		}
		back := make([]byte, n)
		cipher.NewCFBDecrypter(blk, iv[:blk.BlockSize()]).XORKeyStream(back, ct2)
		if !bytes.Equal(back, pt) {
			x.viol("cfb-textbook", fmt.Sprintf("%s len=%d: crypto/cipher CFB decrypter does not recover the plaintext", name, n), desc("reference decrypt")...)
		}
	}
	// decrypt: all four combinations
	for _, from := range []struct {
		c   []byte
		how string
	}{{ct, "enc outofplace"}, {ct2, "enc inplace"}} {
		for _, a2 := range []bool{false, true} {
			s2 := append([]byte(nil), from.c...)
			var d2 []byte
			if a2 {
				d2 = s2
			} else {
				d2 = g.Bytes(n)
			}
			if m := hx.Try(func() { dec.Decrypt(d2, s2) }); m != "" {
				x.viol("cfb-panic", fmt.Sprintf("%s Decrypt len=%d %s panicked: %s", name, n, aliasName(a2), m), desc("decrypt")...)
				return false
			}
			if !a2 && !bytes.Equal(s2, from.c) {
				x.viol("src-clobbered", fmt.Sprintf("%s Decrypt(dst, src) len=%d changed src", name, n), desc("decrypt out of place")...)
			}
			if !bytes.Equal(d2, pt) {
				kind := "roundtrip-" + name
				if short && (!a2 || from.how == "enc outofplace") {
					kind = "salsa20-short-outofplace"
				}
				x.viol(kind, fmt.Sprintf("%s len=%d (%s, dec %s): Decrypt(Encrypt(x)) = %s, x = %s", name, n, from.how, aliasName(a2), hx.Hex(d2), hx.Hex(pt)),
					desc(from.how+", decrypt "+aliasName(a2))...)
			}
		}
	}
	return true
}

func firstDiff(a, b []byte) int {
	for i := range a {
		if i >= len(b) || a[i] != b[i] {
			return i
		}
	}
	return len(a)
}

// AEAD: Seal/Open exactly as sess.go does it, inside a pooled buffer.
func (x *runner) aeadOracle() {
	g := x.g
	type sealer interface {
		cipher.AEAD
	}
	for _, klen := range []int{16, 24, 32} {
		key := g.Bytes(klen)
		c, err := kcp.NewAESGCMCrypt(key)
		if err != nil {
			x.viol("constructor", fmt.Sprintf("aes-gcm-%d: %v", klen*8, err))
			continue
		}
		a, ok := c.(sealer)
		if !ok {
			x.viol("constructor", "NewAESGCMCrypt does not provide Seal/Open/NonceSize/Overhead")
			continue
		}
		ns, ov := a.NonceSize(), a.Overhead()
		name := fmt.Sprintf("aes-gcm-%d", klen*8)
		for n := ns; n <= maxLen; n++ { // n = nonce + plaintext, the packet handed to Seal
			full := kcp.VerifPoolGet()
			if cap(full) != maxLen {
				x.viol("aead-pool", fmt.Sprintf("pool buffer has cap %d", cap(full)))
				return
			}
			full = full[:maxLen]
			copy(full, g.Bytes(maxLen))
			buf := full[:n]
			saved := append([]byte(nil), buf[ns:]...)
			nonce := append([]byte(nil), buf[:ns]...)
			var out []byte
			m := hx.Try(func() { out = a.Seal(buf[:ns], buf[:ns], buf[ns:], nil) })
			x.o.Count("oracle:" + name)
			rep := []string{fmt.Sprintf("cipher=%s key=%s packet(nonce+plaintext)=%d nonce=%s", name, hx.Hex(key), n, hx.Hex(nonce)), "plaintext=" + hx.Hex(saved)}
			fits := n+ov <= maxLen
			switch {
			case fits && m != "":
				x.viol("aead-seal-panic", fmt.Sprintf("%s: Seal of a %d-byte packet inside a %d-byte buffer panicked: %s", name, n, maxLen, m), rep...)
			case !fits && m == "":
				x.viol("aead-realloc", fmt.Sprintf("%s: Seal of a %d-byte packet (+%d) cannot fit %d bytes but returned a slice (reallocated=%v)", name, n, ov, maxLen, len(out) > 0 && &out[0] != &full[0]), rep...)
			case fits:
				x.o.Count("aead:sealed")
				if len(out) != n+ov || &out[0] != &full[0] {
					x.viol("aead-realloc", fmt.Sprintf("%s: Seal of a %d-byte packet returned len %d, same backing array: %v", name, n, len(out), len(out) > 0 && &out[0] == &full[0]), rep...)
				} else if !bytes.Equal(out[:ns], nonce) {
					x.viol("aead-roundtrip", fmt.Sprintf("%s: Seal changed the nonce prefix (len %d)", name, n), rep...)
				} else {
					data := out
					ct := data[ns:]
					var pt []byte
					var oerr error
					m2 := hx.Try(func() { pt, oerr = a.Open(ct[:0], data[:ns], ct, nil) })
					if m2 != "" || oerr != nil || !bytes.Equal(pt, saved) {
						x.viol("aead-roundtrip", fmt.Sprintf("%s: Open(Seal(x)) != x for a %d-byte packet (err=%v panic=%q)", name, n, oerr, m2), rep...)
					} else if len(pt) > 0 && &pt[0] != &full[ns] {
						x.viol("aead-realloc", fmt.Sprintf("%s: Open of a %d-byte packet did not decrypt inside the packet buffer", name, n), rep...)
					}
					// an altered byte must be refused
					if n%97 == 0 {
						out[ns+g.Intn(len(out)-ns)] ^= 1 << uint(g.Intn(8))
						if _, e := a.Open(nil, out[:ns], out[ns:], nil); e == nil {
							x.viol("aead-roundtrip", fmt.Sprintf("%s: altered ciphertext accepted (%d)", name, n), rep...)
						}
					}
				}
			default:
				x.o.Count("aead:refused-too-large")
			}
			_ = kcp.VerifPoolPut(full)
		}
		// the plain Encrypt/Decrypt methods of an AEAD crypt are documented to panic
		if m := hx.Try(func() { c.Encrypt(make([]byte, 32), make([]byte, 32)) }); m == "" {
			x.o.Note("aeadCrypt.Encrypt did not panic")
		}
	}
}

// concurrent callers of one BlockCrypt instance, as a session has them: the transmit path
// encrypts while the receive path decrypts (and a listener shares one instance among all its
// sessions).  Even workers encrypt, odd workers decrypt, all on the same instance; every result
// is compared with what a private instance computed sequentially.
func (x *runner) concurrent() {
	g := x.g
	workers, per := 4, 200
	if x.tier == "thorough" {
		workers, per = 8, 600
	}
	for _, rc := range ciphers() {
		key := g.Bytes(rc.klen)
		c, _ := rc.mk(key)
		seq, _ := rc.mk(key)
		type job struct{ pt, ct []byte }
		jobs := make([][]job, workers)
		if m := hx.Try(func() {
			for w := range jobs {
				for i := 0; i < per; i++ {
					pt := g.Bytes(g.Intn(maxLen + 1))
					ct := append([]byte(nil), pt...)
					seq.Encrypt(ct, ct) // same layout as the concurrent calls: only concurrency differs
					jobs[w] = append(jobs[w], job{pt, ct})
				}
			}
		}); m != "" {
			x.o.Note("concurrent oracle skipped for " + rc.name + ": sequential Encrypt panicked (" + m + "), reported by the other oracles")
			continue
		}
		var wg sync.WaitGroup
		bad := make([]string, workers)
		for w := 0; w < workers; w++ {
			wg.Add(1)
			go func(w int) {
				defer wg.Done()
				defer func() {
					if r := recover(); r != nil {
						bad[w] = fmt.Sprint("panic ", r)
					}
				}()
				for _, j := range jobs[w] {
					if w%2 == 0 {
						b := append([]byte(nil), j.pt...)
						c.Encrypt(b, b)
						if !bytes.Equal(b, j.ct) {
							bad[w] = fmt.Sprintf("Encrypt of a %d-byte packet while other goroutines use the same BlockCrypt differs from the sequential result at byte %d; plaintext=%s", len(j.pt), firstDiff(j.ct, b), hx.Hex(j.pt))
							return
						}
					} else {
						b := append([]byte(nil), j.ct...)
						c.Decrypt(b, b)
						if !bytes.Equal(b, j.pt) {
							bad[w] = fmt.Sprintf("Decrypt of a %d-byte packet while other goroutines use the same BlockCrypt differs from the plaintext at byte %d; ciphertext=%s", len(j.pt), firstDiff(j.pt, b), hx.Hex(j.ct))
							return
						}
					}
				}
			}(w)
		}
		done := make(chan struct{})
		go func() { wg.Wait(); close(done) }()
		rep := fmt.Sprintf("cipher=%s key=%s: %d goroutines (even: Encrypt, odd: Decrypt) x %d packets on ONE instance", rc.name, hx.Hex(key), workers, per)
		select {
		case <-done:
		case <-time.After(60 * time.Second):
			// a panic with the mutex held blocks every other caller for good
			x.viol("concurrent-callers-"+rc.name, rc.name+": concurrent callers did not finish within 60 s (panic with the mutex held?)", rep)
			continue
		}
		x.o.CountN("oracle:concurrent:"+rc.name, workers*per)
		for _, b := range bad {
			if b != "" {
				x.viol("concurrent-callers-"+rc.name, rc.name+": "+b, rep)
				break
			}
		}
	}
}

// Run is the component entry point.
func Run(o *hx.Out, g *hx.Rng, tier string) {
	x := &runner{o: o, g: g.Fork(), tier: tier, perKnd: map[string]int{}}
	o.Res.Rule = "one case per (helper, block size, aliasing mode, length 0..1500) with fresh random key/contents; shells: per (cipher, direction, aliasing, length)"
	rounds := 1
	if tier == "thorough" {
		rounds = 4
	}
	for r := 0; r < rounds; r++ {
		for n := 0; n <= maxLen; n++ {
			for _, bs := range []int{8, 16} {
				for _, alias := range []bool{true, false} {
					for _, dir := range []string{"enc", "dec"} {
						o.Case(fmt.Sprintf("%s%d/%v/%d/%d", dir, bs, alias, n, r))
						x.helperOp(dir, bs, alias, n)
					}
				}
			}
		}
	}
	o.Case("shells")
	x.shells()
	x.realOracles()
	x.aeadOracle()
	x.concurrent()
	o.Note("Go-side oracles (no Lean): every constructor x every length 0..1500 x {in place, out of place}: round trip in all four aliasing combinations, src untouched, in place = out of place, block ciphers = crypto/cipher CFB(initialVector[:blocksize]); AES-GCM Seal/Open inside pooled 1500-byte buffers with pointer identity; concurrent callers")
}
