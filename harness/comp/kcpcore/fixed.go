package kcpcore

import (
	"encoding/binary"
	"fmt"

	kcp "github.com/xtaci/kcp-go/v5"
)

// Deterministic histories that run first in every check: each one replays a listed known finding
// (so that the KNOWN-FINDING line is printed on every run, not only when the random search happens
// to hit it) or a past failure (regression corpus).

func ackSeg(conv uint32, sn, una, ts uint32, wnd uint16) []byte {
	p := make([]byte, 24)
	binary.LittleEndian.PutUint32(p, conv)
	p[4] = 82
	binary.LittleEndian.PutUint16(p[6:], wnd)
	binary.LittleEndian.PutUint32(p[8:], ts)
	binary.LittleEndian.PutUint32(p[12:], sn)
	binary.LittleEndian.PutUint32(p[16:], una)
	return p
}

// fixedFastRecovery (C04 known finding): with congestion control on and fast resend enabled, a
// fast retransmission after a timeout loss re-inflates cwnd, so new segments are admitted although
// the oldest outstanding one has not been acknowledged.
func (w *world) fixedFastRecovery() {
	w.begin(cfg{}, 7)
	w.stream = false
	w.setNoDelay(w.a, 0, 100, 2, 0)
	w.now = 0
	for i := 0; i < 5; i++ {
		w.send(w.a, []byte{byte(i + 1)})
	}
	w.now = 100
	w.flush(w.a, true)
	w.now = 110
	w.flush(w.a, true)
	w.now = 120
	w.input(w.a, ackSeg(7, 0, 1, 100, 32), true, false)
	w.now = 1000
	w.flush(w.a, true) // timeout retransmission: cwnd -> 1
	w.input(w.a, ackSeg(7, 2, 1, 1000, 32), true, false)
	w.input(w.a, ackSeg(7, 2, 1, 1000, 32), true, false)
	w.now = 1020
	w.flush(w.a, true) // fast retransmit of sn 1: cwnd = ssthresh + resend
	w.now = 1030
	w.flush(w.a, true) // admits new segments although snd_una has not moved
	w.netAB, w.netBA = nil, nil
	w.end()
}

// fixedBigMessage (C02 known finding O1): message mode, a message of more fragments than the
// peer's receive window never becomes readable.
func (w *world) fixedBigMessage() {
	w.begin(cfg{bigMsg: true}, 9)
	w.stream = false
	w.setNoDelay(w.a, 1, 10, 2, 1)
	w.setNoDelay(w.b, 1, 10, 2, 1)
	w.setWnd(w.a, 32, 32)
	w.setWnd(w.b, 32, 2)
	w.setMtu(w.a, 50)
	w.setMtu(w.b, 50)
	w.now = 0
	w.send(w.a, w.payload(w.a, 26*3)) // 3 fragments > rcv_wnd 2
	w.flush(w.a, true)
	w.drain()
	w.end()
}

// fixedUnsentFastack (regression, C12 fix 8db4321): a forged ACK beyond a segment that an ACK-only
// flush moved into snd_buf without transmitting it must behave the same at every clock placement.
func (w *world) fixedUnsentFastack(t uint32) []string {
	w.begin(cfg{}, 7)
	w.stream = false
	w.setNoDelay(w.a, 0, -1, 1, 1)
	w.now = t
	w.send(w.a, []byte{1})
	w.send(w.a, []byte{2})
	w.flush(w.a, false)
	w.now = t + 6
	w.input(w.a, ackSeg(7, 1, 0, t+5, 32), true, false)
	n1 := len(w.netAB)
	w.now = t + 10
	w.flush(w.a, true)
	n2 := len(w.netAB)
	w.now = t + 20
	w.flush(w.a, true)
	n3 := len(w.netAB)
	tr := []string{fmt.Sprint(n1, n2-n1, n3-n2)}
	w.netAB, w.netBA = nil, nil
	w.end()
	return tr
}

// fixedFragmentLimit (regression corpus): message mode at the 255-fragment limit.  A message of 255
// fragments is accepted and must come out with its boundaries; one of 256 fragments must be
// refused (the fragment counter is a uint8 and PeekSize computes frg+1 in uint8).
func (w *world) fixedFragmentLimit() {
	w.begin(cfg{bigMsg: true}, 11)
	w.stream = false
	for _, e := range []*endpoint{w.a, w.b} {
		w.setNoDelay(e, 1, 10, 2, 1)
		w.setWnd(e, 600, 600)
		w.setMtu(e, 25) // mss = 1
		w.setStream(e, false)
	}
	w.now = 0
	w.send(w.a, w.payload(w.a, 255))
	w.send(w.a, w.payload(w.a, 256)) // must be refused
	w.send(w.a, w.payload(w.a, 3))
	for i := 0; i < 40 && !w.aborted; i++ {
		w.flush(w.a, true)
		for len(w.netAB) > 0 && !w.aborted {
			p := w.netAB[0]
			w.netAB = w.netAB[1:]
			w.input(w.b, p, true, false)
			if i%2 == 0 { // read while fragments are still arriving
				w.recv(w.b, 4096)
			}
		}
		w.flush(w.b, true)
		for len(w.netBA) > 0 && !w.aborted {
			p := w.netBA[0]
			w.netBA = w.netBA[1:]
			w.input(w.a, p, true, false)
		}
		w.now += 10
	}
	w.recvAll(w.b)
	w.finalOracle()
	w.end()
}

// fixedAckedHeadWedge (regression corpus, C02): a segment acknowledged individually while its
// predecessors were still outstanding used to stay at the head of snd_buf for ever once the peer had
// nothing left to send (snd_una never advanced, a receive window of 1 never re-opened).  History:
// one reordered B->A datagram, a momentarily full receive queue, one lost WINS.
func (w *world) fixedAckedHeadWedge() {
	w.begin(cfg{}, 13)
	w.stream = false
	w.setNoDelay(w.a, 1, 10, 2, 1)
	w.setNoDelay(w.b, 1, 10, 2, 1)
	w.setWnd(w.b, 32, 1)
	w.now = 0
	take := func(q *[][]byte) [][]byte { o := *q; *q = nil; return o }
	w.send(w.a, []byte{0})
	w.flush(w.a, true)
	for _, p := range take(&w.netAB) {
		w.input(w.b, p, true, false)
	}
	w.recv(w.b, 100)
	w.now = 10
	w.flush(w.b, true)
	x0 := take(&w.netBA) // ACK0 una=1 wnd=1: delayed
	w.send(w.a, []byte{1})
	w.send(w.a, []byte{2})
	w.flush(w.a, true)
	for _, p := range take(&w.netAB) {
		w.input(w.b, p, true, false) // seg1 -> queue (full), seg2 -> rcv_buf
	}
	w.now = 20
	w.flush(w.b, true)
	x1 := take(&w.netBA) // ACK1, ACK2 una=2 wnd=0
	for _, p := range x1 {
		w.input(w.a, p, true, false)
	}
	for _, p := range x0 {
		w.input(w.a, p, true, false) // stale: rmt_wnd back to 1, probing cancelled
	}
	w.recv(w.b, 100)
	w.recv(w.b, 100)
	w.now = 30
	w.flush(w.b, true)
	take(&w.netBA) // the WINS (una=3) is lost: last loss
	w.send(w.a, []byte{3})
	w.drain() // fair network from here: must reach zero backlog and deliver message 3
	w.end()
}

func (w *world) fixedAll() {
	w.fixedAckedHeadWedge()
	w.fixedFragmentLimit()
	w.fixedFastRecovery()
	w.fixedBigMessage()
	a := w.fixedUnsentFastack(0)
	b := w.fixedUnsentFastack(1 << 31)
	if fmt.Sprint(a) != fmt.Sprint(b) {
		w.viol("shift-variance", fmt.Sprintf("forged ACK beyond an untransmitted segment: output calls per op %v at clock 0 but %v at clock 2^31", a, b))
	}
	_ = kcp.IKCP_OVERHEAD
}
