package kcpcore

import (
	"encoding/binary"
	"fmt"

	kcp "github.com/xtaci/kcp-go/v5"
)

// Deterministic histories that run first in every check: each one replays a listed known finding
// (so that the KNOWN-FINDING line is printed on every run, not only when the random search happens
// to hit it) or a past failure (regression corpus).

func ackSeg(conv uint32, sn, una, ts uint32, wnd uint16) []byte {
	p := make([]byte, 24)
	binary.LittleEndian.PutUint32(p, conv)
	p[4] = 82
	binary.LittleEndian.PutUint16(p[6:], wnd)
	binary.LittleEndian.PutUint32(p[8:], ts)
	binary.LittleEndian.PutUint32(p[12:], sn)
	binary.LittleEndian.PutUint32(p[16:], una)
	return p
}

// fixedFastRecovery (C04 known finding): with congestion control on and fast resend enabled, a
// fast retransmission after a timeout loss re-inflates cwnd, so new segments are admitted although
// the oldest outstanding one has not been acknowledged.
func (w *world) fixedFastRecovery() {
	w.begin(cfg{}, 7)
	w.stream = false
	w.setNoDelay(w.a, 0, 100, 2, 0)
	w.now = 0
	for i := 0; i < 5; i++ {
		w.send(w.a, []byte{byte(i + 1)})
	}
	w.now = 100
	w.flush(w.a, true)
	w.now = 110
	w.flush(w.a, true)
	w.now = 120
	w.input(w.a, ackSeg(7, 0, 1, 100, 32), true, false)
	w.now = 1000
	w.flush(w.a, true) // timeout retransmission: cwnd -> 1
	w.input(w.a, ackSeg(7, 2, 1, 1000, 32), true, false)
	w.input(w.a, ackSeg(7, 2, 1, 1000, 32), true, false)
	w.now = 1020
	w.flush(w.a, true) // fast retransmit of sn 1: cwnd = ssthresh + resend
	w.now = 1030
	w.flush(w.a, true) // admits new segments although snd_una has not moved
	w.netAB, w.netBA = nil, nil
	w.end()
}

// fixedBigMessage (C02 known finding O1): message mode, a message of more fragments than the
// peer's receive window never becomes readable.
func (w *world) fixedBigMessage() {
	w.begin(cfg{bigMsg: true}, 9)
	w.stream = false
	w.setNoDelay(w.a, 1, 10, 2, 1)
	w.setNoDelay(w.b, 1, 10, 2, 1)
	w.setWnd(w.a, 32, 32)
	w.setWnd(w.b, 32, 2)
	w.setMtu(w.a, 50)
	w.setMtu(w.b, 50)
	w.now = 0
	w.send(w.a, w.payload(w.a, 26*3)) // 3 fragments > rcv_wnd 2
	w.flush(w.a, true)
	w.drain()
	w.end()
}

// fixedUnsentFastack (regression, C12 fix 8db4321): a forged ACK beyond a segment that an ACK-only
// flush moved into snd_buf without transmitting it must behave the same at every clock placement.
func (w *world) fixedUnsentFastack(t uint32) []string {
	w.begin(cfg{}, 7)
	w.stream = false
	w.setNoDelay(w.a, 0, -1, 1, 1)
	w.now = t
	w.send(w.a, []byte{1})
	w.send(w.a, []byte{2})
	w.flush(w.a, false)
	w.now = t + 6
	w.input(w.a, ackSeg(7, 1, 0, t+5, 32), true, false)
	n1 := len(w.netAB)
	w.now = t + 10
	w.flush(w.a, true)
	n2 := len(w.netAB)
	w.now = t + 20
	w.flush(w.a, true)
	n3 := len(w.netAB)
	tr := []string{fmt.Sprint(n1, n2-n1, n3-n2)}
	w.netAB, w.netBA = nil, nil
	w.end()
	return tr
}

// fixedFragmentLimit (regression corpus): message mode at the 255-fragment limit.  A message of 255
// fragments is accepted and must come out with its boundaries; one of 256 fragments must be
// refused (the fragment counter is a uint8 and PeekSize computes frg+1 in uint8).
func (w *world) fixedFragmentLimit() {
	w.begin(cfg{bigMsg: true}, 11)
	w.stream = false
	for _, e := range []*endpoint{w.a, w.b} {
		w.setNoDelay(e, 1, 10, 2, 1)
		w.setWnd(e, 600, 600)
		w.setMtu(e, 25) // mss = 1
		w.setStream(e, false)
	}
	w.now = 0
	w.send(w.a, w.payload(w.a, 255))
	w.send(w.a, w.payload(w.a, 256)) // must be refused
	w.send(w.a, w.payload(w.a, 3))
	for i := 0; i < 40 && !w.aborted; i++ {
		w.flush(w.a, true)
		for len(w.netAB) > 0 && !w.aborted {
			p := w.netAB[0]
			w.netAB = w.netAB[1:]
			w.input(w.b, p, true, false)
			if i%2 == 0 { // read while fragments are still arriving
				w.recv(w.b, 4096)
			}
		}
		w.flush(w.b, true)
		for len(w.netBA) > 0 && !w.aborted {
			p := w.netBA[0]
			w.netBA = w.netBA[1:]
			w.input(w.a, p, true, false)
		}
		w.now += 10
	}
	w.recvAll(w.b)
	w.finalOracle()
	w.end()
}

// fixedAckedHeadWedge (regression corpus, C02): a segment acknowledged individually while its
// predecessors were still outstanding used to stay at the head of snd_buf for ever once the peer had
// nothing left to send (snd_una never advanced, a receive window of 1 never re-opened).  History:
// one reordered B->A datagram, a momentarily full receive queue, one lost WINS.
func (w *world) fixedAckedHeadWedge() {
	w.begin(cfg{}, 13)
	w.stream = false
	w.setNoDelay(w.a, 1, 10, 2, 1)
	w.setNoDelay(w.b, 1, 10, 2, 1)
	w.setWnd(w.b, 32, 1)
	w.now = 0
	take := func(q *[][]byte) [][]byte { o := *q; *q = nil; return o }
	w.send(w.a, []byte{0})
	w.flush(w.a, true)
	for _, p := range take(&w.netAB) {
		w.input(w.b, p, true, false)
	}
	w.recv(w.b, 100)
	w.now = 10
	w.flush(w.b, true)
	x0 := take(&w.netBA) // ACK0 una=1 wnd=1: delayed
	w.send(w.a, []byte{1})
	w.send(w.a, []byte{2})
	w.flush(w.a, true)
	for _, p := range take(&w.netAB) {
		w.input(w.b, p, true, false) // seg1 -> queue (full), seg2 -> rcv_buf
	}
	w.now = 20
	w.flush(w.b, true)
	x1 := take(&w.netBA) // ACK1, ACK2 una=2 wnd=0
	for _, p := range x1 {
		w.input(w.a, p, true, false)
	}
	for _, p := range x0 {
		w.input(w.a, p, true, false) // stale: rmt_wnd back to 1, probing cancelled
	}
	w.recv(w.b, 100)
	w.recv(w.b, 100)
	w.now = 30
	w.flush(w.b, true)
	take(&w.netBA) // the WINS (una=3) is lost: last loss
	w.send(w.a, []byte{3})
	w.drain() // fair network from here: must reach zero backlog and deliver message 3
	w.end()
}

// fixedReorderAcrossWrap (regression corpus, C01/C02/C12): the sender's sequence space starts three
// segments below `base` (2^32: the numbers wrap to 0; 2^31: they cross the sign boundary of the
// wrap-safe comparison), eight one-segment messages go out, each in its own datagram, and reach the
// receiver in reverse order, the second half before the first, and interleaved; then a fair network.
// Every message must be read in order and both backlogs must reach zero.
func (w *world) fixedReorderAcrossWrap(base uint32, order []int) {
	w.begin(cfg{}, 21)
	w.stream = false
	w.setShift(w.a, base-3, 5)
	w.setShift(w.b, 5, base-3)
	w.setNoDelay(w.a, 1, 10, 2, 1)
	w.setNoDelay(w.b, 1, 10, 2, 1)
	w.setMtu(w.a, 50)
	w.setMtu(w.b, 50)
	w.now = 0
	for i := 0; i < 8; i++ {
		w.send(w.a, w.payload(w.a, 26)) // mss = 26: one segment, one datagram each
	}
	w.flush(w.a, true)
	pk := w.netAB
	w.netAB = nil
	for _, i := range order {
		if i < len(pk) {
			w.input(w.b, pk[i], true, false)
		}
	}
	w.recvAll(w.b)
	w.now = 10
	w.flush(w.b, true)
	w.drain()
	w.end()
}

// fixedTimeoutAndEarlyInOneFlush (regression corpus, C04): one flush pass retransmits one segment
// early (one duplicate ACK, nothing new to send) and another by timeout.  With congestion control on
// the timeout wins: cwnd collapses to 1 and the data queued afterwards is not admitted while the
// oldest outstanding segment is unacknowledged (admissionOracle judges the following flushes).
func (w *world) fixedTimeoutAndEarlyInOneFlush() {
	w.begin(cfg{}, 23)
	w.stream = false
	w.setNoDelay(w.a, 0, 10, 2, 0)
	w.now = 0
	// warm-up: cwnd grows to at least 3 (it starts at 0: the first flush admits nothing)
	next := uint32(0)
	for round := 0; round < 12; round++ {
		if round < 8 {
			w.send(w.a, []byte{byte(16 + round)})
		}
		w.flush(w.a, true)
		sent := kcp.VerifKCPState(w.a.k).SndNxt
		w.now += 20
		for ; next != sent; next++ {
			w.input(w.a, ackSeg(23, next, next+1, w.now-20, 32), true, false)
		}
		w.now += 10
	}
	w.netAB, w.netBA = nil, nil
	d := kcp.VerifKCPState(w.a.k)
	if d.SndNxt-d.SndUna != 0 || d.Cwnd < 3 {
		w.o.Note(fmt.Sprintf("fixedTimeoutAndEarlyInOneFlush: warm-up left %d outstanding, cwnd %d", d.SndNxt-d.SndUna, d.Cwnd))
	}
	for i := 0; i < 3; i++ {
		w.send(w.a, []byte{byte(0x70 + i)})
	}
	w.flush(w.a, true) // a, a+1, a+2 leave together
	t0 := w.now
	w.now += 20
	w.input(w.a, ackSeg(23, next+1, next, t0, 32), true, false) // a+1 acknowledged alone: one dup-ack for a
	w.now = t0 + 60000                                          // every timer is due
	w.flush(w.a, true)                                          // a: early retransmit, a+2: timeout
	w.send(w.a, []byte{0x7e})
	w.send(w.a, []byte{0x7f})
	w.now += 10
	w.flush(w.a, true) // nothing new may leave: a is still unacknowledged
	w.now += 10
	w.flush(w.a, true)
	w.netAB, w.netBA = nil, nil
	w.end()
}

// fixedProbeAcrossClockWrap (regression corpus, C03): the zero-window probe deadline falls `before`
// ms before the 32-bit clock passes `base` (0 = the wrap at 2^32, 2^31 = the sign boundary), the
// sender's next flush comes after it, and the window update the reader triggers is lost.  The probe
// must still fire: the transfer resumes and completes.
func (w *world) fixedProbeAcrossClockWrap(base uint32, before uint32) {
	w.begin(cfg{stall: true}, 27)
	w.stream = false
	w.setNoDelay(w.a, 1, 10, 2, 1)
	w.setNoDelay(w.b, 1, 10, 2, 1)
	w.setWnd(w.b, 32, 1)
	take := func(q *[][]byte) [][]byte { o := *q; *q = nil; return o }
	arm := base - before - kcp.IKCP_PROBE_INIT // the flush that arms the probe timer
	w.now = arm - 30
	w.send(w.a, []byte{1})
	w.flush(w.a, true)
	for _, p := range take(&w.netAB) {
		w.input(w.b, p, true, false) // the only slot of b's delivery queue is taken; the reader is away
	}
	w.now = arm - 20
	w.flush(w.b, true)
	for _, p := range take(&w.netBA) {
		w.input(w.a, p, true, false) // ACK, una = 1, wnd = 0
	}
	w.send(w.a, []byte{2})
	w.send(w.a, []byte{3})
	w.now = arm
	w.flush(w.a, true) // rmt_wnd = 0: probe timer armed for base - before
	if d := kcp.VerifKCPState(w.a.k); d.RmtWnd != 0 || d.ProbeWait == 0 {
		w.o.Note(fmt.Sprintf("fixedProbeAcrossClockWrap: not probing (rmt_wnd %d probe_wait %d)", d.RmtWnd, d.ProbeWait))
	}
	w.now = arm + 100
	w.recvAll(w.b) // the reader is back
	w.flush(w.b, true)
	take(&w.netBA) // the window update is lost
	w.now = base + 5
	done := false
	for i := 0; i < 40000 && !w.aborted && !done; i++ { // 400 s of fair network, 10 ms steps
		w.flush(w.a, true)
		for _, p := range take(&w.netAB) {
			w.input(w.b, p, true, false)
			w.recvAll(w.b)
		}
		w.flush(w.b, true)
		for _, p := range take(&w.netBA) {
			w.input(w.a, p, true, false)
		}
		d := kcp.VerifKCPState(w.a.k)
		done = len(d.SndQueue)+len(d.SndBuf) == 0
		w.now += 10
	}
	if !w.aborted {
		if !done {
			d := kcp.VerifKCPState(w.a.k)
			w.viol("no-resume", fmt.Sprintf("probe deadline %d ms before the clock passes %d, next flush after it, window update lost: transfer did not complete within 400 s of fair network (backlog %d+%d, rmt_wnd %d, probe_wait %d, ts_probe %d, now %d)",
				before, base, len(d.SndQueue), len(d.SndBuf), d.RmtWnd, d.ProbeWait, d.TsProbe, w.now))
		} else {
			w.finalOracle()
		}
	}
	w.end()
}

// fixedShrinkBelowQueued (regression corpus, C03/C04): the receiver lowers its window below the
// number of segments already waiting for the reader ("accept first, configure afterwards") and does
// not read.  It must advertise 0 (the route oracle judges every emitted segment), the sender must come
// to a standstill, and the transfer completes once the reader is back.
func (w *world) fixedShrinkBelowQueued() {
	w.begin(cfg{stall: true}, 29)
	w.stream = false
	w.setNoDelay(w.a, 1, 10, 2, 1)
	w.setNoDelay(w.b, 1, 10, 2, 1)
	take := func(q *[][]byte) [][]byte { o := *q; *q = nil; return o }
	w.now = 0
	for i := 0; i < 40; i++ {
		w.send(w.a, []byte{byte(i)})
	}
	w.flush(w.a, true) // 32 leave (rmt_wnd = 32)
	for _, p := range take(&w.netAB) {
		w.input(w.b, p, true, false)
	}
	w.b.resized = true
	w.setWnd(w.b, 32, 16) // 32 queued > 16
	nxt0 := kcp.VerifKCPState(w.a.k).SndNxt
	for i := 0; i < 300 && !w.aborted; i++ { // 3 s without a reader
		w.now += 10
		w.flush(w.b, true)
		for _, p := range take(&w.netBA) {
			w.input(w.a, p, true, false)
		}
		w.flush(w.a, true)
		for _, p := range take(&w.netAB) {
			w.input(w.b, p, true, false)
		}
	}
	if d := kcp.VerifKCPState(w.a.k); !w.aborted && d.SndNxt != nxt0 {
		w.viol("sent-while-throttled", fmt.Sprintf("the receiver holds 32 segments with a window of 16 and does not read, yet the sender numbered %d new segments", d.SndNxt-nxt0))
	}
	w.drain()
	w.end()
}

func (w *world) fixedStall() {
	w.fixedShrinkBelowQueued()
	for _, base := range []uint32{0, 1 << 31} {
		w.fixedProbeAcrossClockWrap(base, 5)
		w.fixedProbeAcrossClockWrap(base, 1)
	}
}

// fixedEnlargeWhileSaturated (regression corpus, C02/C04): the receiver's delivery queue is full and
// in-order segments wait behind it in the reorder buffer; the application raises the receive window
// and then reads.  Everything that is in order must move on to the reader — it is the tail of the
// transfer, already acknowledged, nothing will ever arrive again to push it.
func (w *world) fixedEnlargeWhileSaturated() {
	w.begin(cfg{}, 31)
	w.stream = false
	w.setNoDelay(w.a, 1, 10, 2, 1)
	w.setNoDelay(w.b, 1, 10, 2, 1)
	w.setWnd(w.b, 32, 4)
	w.now = 0
	for i := 0; i < 8; i++ {
		w.send(w.a, []byte{byte(0x40 + i)})
	}
	w.flush(w.a, true) // all eight leave (the peer's window is still believed to be 32)
	pk := w.netAB
	w.netAB = nil
	for _, p := range pk {
		w.input(w.b, p, true, false) // sn 0-3 -> delivery queue (full), sn 4-7 -> reorder buffer
	}
	w.b.resized = true
	w.setWnd(w.b, 32, 16)
	w.recvAll(w.b)
	w.now = 10
	w.flush(w.b, true)
	w.drain()
	w.end()
}

func (w *world) fixedAll() {
	w.fixedEnlargeWhileSaturated()
	w.fixedTimeoutAndEarlyInOneFlush()
	for _, base := range []uint32{0, 1 << 31} { // 0 = 2^32
		w.fixedReorderAcrossWrap(base, []int{7, 6, 5, 4, 3, 2, 1, 0})
		w.fixedReorderAcrossWrap(base, []int{4, 5, 6, 7, 0, 1, 2, 3})
		w.fixedReorderAcrossWrap(base, []int{3, 0, 6, 2, 7, 1, 5}) // 4 lost: retransmitted by the drain
	}
	w.fixedAckedHeadWedge()
	w.fixedFragmentLimit()
	w.fixedFastRecovery()
	w.fixedBigMessage()
	a := w.fixedUnsentFastack(0)
	b := w.fixedUnsentFastack(1 << 31)
	if fmt.Sprint(a) != fmt.Sprint(b) {
		w.viol("shift-variance", fmt.Sprintf("forged ACK beyond an untransmitted segment: output calls per op %v at clock 0 but %v at clock 2^31", a, b))
	}
	_ = kcp.IKCP_OVERHEAD
}
